#!/bin/sh
# convenience: run every registered quick check once (build first), print one line per property
cd "$(dirname "$0")"
./setup.sh >/dev/null 2>&1 || { echo "setup failed"; exit 2; }
printf '%s\n' C01 C02 C03 C04 C05 C06 C07 C08 C09 C10 C11 C12 C13 C14 C15 C16 C17 C18 C19 C20 | \
  xargs -P 4 -I{} sh -c './check {} --no-build --tier "${VERIF_TIER:-quick}" 2>&1 | grep "^check\|^VIOLATION"'
