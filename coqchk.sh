#!/bin/sh
# Independent re-check of every compiled property file (and everything it depends on) with coqchk; prints the
# axioms the whole development relies on. ~40 s. The last output is kept in coq/coqchk.log.
cd "$(dirname "$0")/coq" || exit 2
coqchk -silent -o -Q . JSL $(ls Props/*.vo | sed 's/\.vo$//; s/\//./g; s/^/JSL./') 2>&1 | tee coqchk.log | tail -12
