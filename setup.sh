#!/bin/sh
# Offline build of the whole framework from files on disk: Coq development (full .vo build),
# extraction, OCaml driver. Idempotent.
set -e
cd "$(dirname "$0")"
export PYTHONHASHSEED=0 PYTHONPATH=/repo JSL_REPO=/repo PYTHONDONTWRITEBYTECODE=1
mkdir -p ocaml/gen evidence work
/venv/bin/python harness/translate_kernels.py
cd coq
coq_makefile -f _CoqProject -o Makefile >/dev/null
timeout 3400 make -j"$(nproc)" 2>&1 | tail -5
cd ../ocaml
./build.sh
echo "setup ok"
