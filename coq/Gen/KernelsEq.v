(* Proof obligations tying the definitions regenerated from /repo (Gen/Kernels.v, written by
   harness/translate_kernels.py on every setup) to the hand-written model, for ALL arguments.
   A change of one of these kernels in the implementation changes Kernels.v and breaks a proof here. *)
From Coq Require Import List ZArith Bool Arith Lia.
From JSL Require Import Base.Res Base.ListX SM.Types SM.Util SM.Step SM.Middleware Gen.Kernels.
Import ListNotations.

(* Transition._match_state *)
Theorem gen_match_state_eq : forall s, gen_match_state s = match_state s.
Proof. intros [[]|[]]; reflexivity. Qed.

(* MachineTransition / TransportTransition tables (a missing key is a KeyError in the implementation: the
   transport table has no SETUP row, which no transport state maps to) *)
Theorem gen_machine_table_eq : forall c, gen_machine_table c = machine_table c.
Proof. intros []; reflexivity. Qed.
Theorem gen_transport_table_eq : forall c, gen_transport_table c = transport_table c.
Proof. intros []; reflexivity. Qed.
Theorem gen_machine_table_total : gen_machine_table_keys = [KIdle; KSetup; KRunning; KOutage].
Proof. reflexivity. Qed.
Theorem gen_transport_table_keys_eq : gen_transport_table_keys = [KIdle; KRunning; KOutage].
Proof. reflexivity. Qed.
(* ... and no transport state is looked up under the missing key *)
Theorem transport_never_setup : forall t, match_state (NT t) <> KSetup.
Proof. intros []; discriminate. Qed.

(* Transition.is_valid_transition *)
Theorem gen_is_valid_transition_eq :
  forall table cur new, gen_is_valid_transition table cur new = is_valid_transition table cur new.
Proof. intros. unfold gen_is_valid_transition, is_valid_transition. rewrite !gen_match_state_eq. reflexivity. Qed.

(* buffer_type_utils.is_correct_position_for_buffer_type, on the integers the implementation passes
   (a position inside the store, the store's length) *)
Theorem gen_is_correct_position_eq :
  forall (p len : nat) ty,
    is_correct_position (Some p) len ty = Ok (gen_is_correct_position (Z.of_nat p) (Z.of_nat len) ty).
Proof.
  intros p len ty. unfold is_correct_position, gen_is_correct_position.
  destruct (Nat.eqb_spec len 0) as [->|Hl].
  - reflexivity.
  - destruct (Z.leb_spec (Z.of_nat len) 0); [lia|].
    destruct ty; f_equal.
    + destruct p; [reflexivity|]. symmetry. apply Z.eqb_neq. lia.
    + destruct (Nat.eqb_spec p (len - 1)); symmetry; [apply Z.eqb_eq; lia|apply Z.eqb_neq; lia].
    + destruct (Nat.ltb_spec p len); symmetry.
      * apply andb_true_iff. split; [apply Z.leb_le; lia|apply Z.ltb_lt; lia].
      * apply andb_false_iff. right. apply Z.ltb_ge. lia.
    + destruct p; [reflexivity|]. symmetry. apply Z.eqb_neq. lia.
Qed.

(* SubTimeStepper.should_truncate *)
Theorem gen_should_truncate_eq :
  forall m, should_truncate m = gen_should_truncate (mw_trunc_active m) (Z.of_nat (mw_noop m)) (Z.of_nat (mw_act m)).
Proof.
  intros m. unfold should_truncate, gen_should_truncate. destruct (mw_trunc_active m); simpl; [|reflexivity].
  destruct (Nat.eqb_spec (mw_act m) 0) as [E|E].
  - rewrite E. reflexivity.
  - destruct (Z.eqb_spec (Z.of_nat (mw_act m)) 0); [lia|reflexivity].
Qed.

(* job_type_utils.all_operations_done / no_operation_idle / is_job_running, core_utils.no_processing_operations *)
Theorem gen_all_operations_done_eq : forall jb, gen_all_operations_done jb = all_operations_done jb.
Proof. reflexivity. Qed.
Theorem gen_no_operation_idle_eq : forall jb, gen_no_operation_idle jb = no_operation_idle jb.
Proof. reflexivity. Qed.
Theorem gen_is_job_running_eq : forall jb, gen_is_job_running jb = is_job_running jb.
Proof. reflexivity. Qed.
Theorem gen_no_processing_operations_eq : forall jb, gen_no_processing_operations jb = negb (is_job_running jb).
Proof.
  intros jb. unfold gen_no_processing_operations, is_job_running. induction (j_ops jb) as [|o r IH]; simpl; [reflexivity|].
  rewrite IH. unfold is_ostate. destruct (ostate_eqb (o_st o) OProc); reflexivity.
Qed.

(* job_type_utils.is_done and core_utils.is_done (the termination test, after fix 7fd110d) *)
Theorem gen_job_is_done_eq : forall i jb, gen_job_is_done i jb = job_is_done i jb.
Proof. reflexivity. Qed.
Theorem gen_is_done_eq : forall i x, gen_is_done i x = all_in_output i x.
Proof. reflexivity. Qed.

(* buffer_type_utils.get_next_job_from_buffer *)
Theorem gen_next_job_eq : forall b ty, gen_next_job (b_store b) ty = get_next_job_from_buffer b ty.
Proof.
  intros b ty. unfold gen_next_job, get_next_job_from_buffer, last_error. destruct (b_store b) as [|h r]; [reflexivity|].
  destruct ty; reflexivity.
Qed.

(* buffer_type_utils.job_in_correct_buffer_for_pickup / is_job_ready_for_pickup_from_postbuffer,
   possible_transition_utils.is_early_transport / is_transportable *)
Theorem gen_is_ready_eq : forall i x jn jb, gen_is_ready i x jn jb = is_ready i x jn jb.
Proof.
  intros i x jn jb. unfold gen_is_ready, is_ready, gen_ok_buffer.
  destruct (get_buf x (j_loc jb)) as [b|]; simpl; [|reflexivity].
  destruct (get_bcfg i (j_loc jb)) as [c|]; simpl; [|reflexivity].
  destruct (is_correct_position (index_of jn (b_store b)) (length (b_store b)) (bc_type c)) as [cp|]; simpl; [|reflexivity].
  destruct (j_loc jb); reflexivity.
Qed.

Theorem gen_is_early_eq : forall i x jn jb, gen_is_early i x jn jb = (r <- is_ready i x jn jb ;; Ok (negb r)).
Proof. intros. unfold gen_is_early. rewrite gen_is_ready_eq. reflexivity. Qed.

Theorem gen_is_transportable_eq : forall i x jb, gen_is_transportable i x jb = is_transportable i x jb.
Proof.
  intros i x jb. unfold gen_is_transportable, is_transportable. rewrite gen_job_is_done_eq, gen_all_operations_done_eq.
  destruct (job_is_done i jb); [reflexivity|]. destruct (all_operations_done jb); [reflexivity|].
  destruct (first_idle jb) as [k|]; simpl; [|reflexivity]. destruct (nth_error (j_ops jb) k) as [o|]; simpl; [|reflexivity].
  destruct (get_mach x (o_mach o)); simpl; [|reflexivity]. destruct (is_job_at_machine jb (o_mach o)); reflexivity.
Qed.

(* possible_transition_utils.is_job_next_operation_free (through group_operations_by_state) is the model's test *)
Theorem gen_is_job_next_operation_free_eq : forall jb, gen_is_job_next_operation_free jb = is_job_next_operation_free jb.
Proof.
  intros jb. unfold gen_is_job_next_operation_free, is_job_next_operation_free.
  destruct (existsb (is_ostate OProc) (j_ops jb)); simpl; [reflexivity|]. destruct (existsb (is_ostate OIdle) (j_ops jb)); reflexivity.
Qed.

(* job_type_utils.get_next_not_done_operation / get_next_idle_operation / get_processing_operation find the records the model's
   first_not_done / first_idle / first_proc index *)
Theorem gen_first_ops_eq : forall jb,
  gen_first_not_done jb = first_not_done jb /\ gen_first_idle jb = first_idle jb /\ gen_first_proc jb = first_proc jb.
Proof. intros jb. repeat split; reflexivity. Qed.
