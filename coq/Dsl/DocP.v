(* C16 / C17: properties of the compiler model: fresh identifiers, directed travel matrix,
   initial-state settings honoured. *)
From Coq Require Import List ZArith Bool Arith Lia Permutation.
From JSL Require Import Base.Res Base.ListX SM.Types SM.Util SM.Handler SM.Step SM.Inv SMP.ListLemmas Dsl.Doc.
Import ListNotations.
Close Scope Z_scope.

(* ---------- ID_Counter: a new identifier is never one already handed out ---------- *)
Definition cnt_ge (k : nat) (ids : list nat) : nat := length (filter (fun x => Nat.leb k x) ids).

Lemma filter_len_cons {A} (f : A -> bool) h t :
  length (filter f (h :: t)) = (if f h then 1 else 0) + length (filter f t).
Proof. simpl. destruct (f h); reflexivity. Qed.

Lemma leb_split h k : (if Nat.leb k h then 1 else 0) = (if Nat.leb (S k) h then 1 else 0) + (if Nat.eqb h k then 1 else 0).
Proof. destruct (Nat.leb_spec k h); destruct (Nat.leb_spec (S k) h); destruct (Nat.eqb_spec h k); lia. Qed.

Lemma cnt_split k ids : cnt_ge k ids = cnt_ge (S k) ids + count_nat k ids.
Proof.
  unfold cnt_ge. induction ids as [|h t IH]; [reflexivity|].
  rewrite !filter_len_cons, IH. cbn [count_nat]. rewrite (leb_split h k). lia.
Qed.

Lemma cnt_ge_succ k ids : mem_nat k ids = true -> cnt_ge (S k) ids < cnt_ge k ids.
Proof. intros H. apply mem_count in H. rewrite (cnt_split k ids). lia. Qed.

Lemma fresh_from_fresh : forall fuel k ids, cnt_ge k ids < fuel -> mem_nat (fresh_from fuel k ids) ids = false.
Proof.
  induction fuel as [|f IH]; intros k ids H; [lia|]. simpl.
  destruct (mem_nat k ids) eqn:E; auto.
  apply IH. pose proof (cnt_ge_succ k ids E). lia.
Qed.

Lemma cnt_ge_le k ids : cnt_ge k ids <= length ids.
Proof. unfold cnt_ge. induction ids; simpl; auto. destruct (Nat.leb k a); simpl; lia. Qed.

Theorem new_id_fresh ids : ~ In (new_id ids) ids.
Proof.
  unfold new_id. intros H. apply mem_nat_In in H.
  rewrite fresh_from_fresh in H; [discriminate|]. pose proof (cnt_ge_le (length ids) ids). lia.
Qed.

Lemma NoDup_snoc {A} (l : list A) a : NoDup l -> ~ In a l -> NoDup (l ++ [a]).
Proof.
  induction l as [|h t IH]; simpl; intros Hn Hi.
  - constructor; [tauto|constructor].
  - inversion Hn; subst. constructor.
    + rewrite in_app_iff. simpl. intros [H|[H|[]]]; [tauto|subst; tauto].
    + apply IH; auto.
Qed.

Lemma take_id_nodup ids k ids' : take_id ids = (k, ids') -> NoDup ids -> NoDup ids' /\ ~ In k ids /\ ids' = ids ++ [k].
Proof.
  unfold take_id. intros H Hn. inversion H; subst. pose proof (new_id_fresh ids) as Hf.
  split; [apply NoDup_snoc; auto|auto].
Qed.

(* every label handed out while building the machines is new; the id list only grows *)
Lemma build_machines_labels d : forall n k nmach ids ms labs ids',
  build_machines d k n nmach ids = Ok (ms, labs, ids') -> NoDup ids ->
  NoDup ids' /\ exists ext, ids' = ids ++ ext /\ ext = flat_map (fun t => [fst (fst t); snd t; snd (fst t)]) labs.
Proof.
  induction n as [|n IH]; intros k nmach ids ms labs ids' H Hn; cbn [build_machines] in H.
  - inversion H; subst. split; auto. exists []. rewrite app_nil_r. auto.
  - destruct (take_id ids) as [lpre ids1] eqn:E1. destruct (take_id ids1) as [lpost ids2] eqn:E2.
    destruct (take_id ids2) as [lin ids3] eqn:E3.
    destruct (setup_of d k nmach) as [st|]; simpl in H; [|discriminate].
    destruct (mach_specs d k) as [sp sq].
    destruct (build_machines d (S k) n nmach ids3) as [[[r labs0] ids0]|] eqn:Eb; simpl in H; [|discriminate].
    inversion H; subst; clear H.
    destruct (take_id_nodup _ _ _ E1 Hn) as [N1 [_ X1]].
    destruct (take_id_nodup _ _ _ E2 N1) as [N2 [_ X2]].
    destruct (take_id_nodup _ _ _ E3 N2) as [N3 [_ X3]].
    destruct (IH _ _ _ _ _ _ Eb N3) as [N4 [ext [X4 X5]]]. split; auto.
    exists ([lpre; lpost; lin] ++ ext). split.
    + rewrite X4, X3, X2, X1. rewrite <- !app_assoc. reflexivity.
    + simpl. rewrite X5. reflexivity.
Qed.

Lemma build_transports_labels : forall d wo n ids ts labs ids',
  build_transports d wo n ids = (ts, labs, ids') -> NoDup ids -> NoDup ids' /\ ids' = ids ++ labs.
Proof.
  induction n as [|n IH]; intros ids ts labs ids' H Hn; cbn [build_transports] in H.
  - inversion H; subst. rewrite app_nil_r. auto.
  - destruct (take_id ids) as [l ids1] eqn:E1.
    destruct (build_transports d wo n ids1) as [[r labs0] ids0] eqn:Eb. inversion H; subst; clear H.
    destruct (take_id_nodup _ _ _ E1 Hn) as [N1 [_ X1]].
    destruct (IH _ _ _ _ Eb N1) as [N2 X2]. split; auto. rewrite X2, X1, <- app_assoc. reflexivity.
Qed.

(* C17: all buffer identifiers of the compiled instance are pairwise different *)
Definition all_labels (L : labels) : list nat :=
  lb_std L ++ flat_map (fun t => [fst (fst t); snd t; snd (fst t)]) (lb_mach L) ++ lb_agv L.

Ltac inv_step H :=
  match type of H with
  | bind ?e _ = Ok _ => let E := fresh "E" in destruct e eqn:E; cbn [bind] in H; [|discriminate]
  | (let '(_, _) := ?p in _) = Ok _ => let E := fresh "E" in destruct p eqn:E
  | match ?e with _ => _ end = Ok _ => let E := fresh "E" in destruct e eqn:E; try discriminate
  end.

Lemma compile_inst_labels d early i L : compile_inst d early = Ok (i, L) ->
  exists nmach machs mlabs ids1 trans tlabs ids2,
    build_machines d 0 nmach nmach (map fst (d_bufs d)) = Ok (machs, mlabs, ids1)
    /\ (build_transports d true (length tlabs) ids1 = (trans, tlabs, ids2)
        \/ build_transports d false (length tlabs) ids1 = (trans, tlabs, ids2))
    /\ lb_mach L = mlabs /\ lb_agv L = tlabs
    /\ lb_std L = match d_bufs d with
                  | [] => [new_id ids2; new_id (ids2 ++ [new_id ids2])]
                  | l => map fst l end.
Proof.
  intros H. unfold compile_inst in H.
  inv_step H. inv_step H.
  match goal with p : (list mcfg * list (nat * nat * nat) * list nat)%type |- _ => destruct p as [[machs mlabs] ids1] end.
  set (amount := match d_log d with Some lg => dl_amount lg | None => None end) in *.
  assert (Hlen : forall wo n ids ts labs ids', build_transports d wo n ids = (ts, labs, ids') -> length labs = n).
  { intros wo n. induction n as [|n IH]; intros ids ts labs ids' Hb; cbn [build_transports] in Hb.
    - inversion Hb; reflexivity.
    - destruct (take_id ids) as [l ids1']. destruct (build_transports d wo n ids1') as [[r labs0] ids0] eqn:Eb.
      inversion Hb; subst. simpl. f_equal. eapply IH; eauto. }
  destruct (match amount with Some n => build_transports d true n ids1 | None => build_transports d false (nj d) ids1 end)
    as [[trans tlabs] ids2] eqn:Et.
  assert (Ht : build_transports d true (length tlabs) ids1 = (trans, tlabs, ids2)
               \/ build_transports d false (length tlabs) ids1 = (trans, tlabs, ids2)).
  { destruct amount as [n|]; [left|right]; rewrite (Hlen _ _ _ _ _ _ Et); exact Et. }
  destruct (d_bufs d) as [|b0 bs] eqn:Eb.
  - cbn [take_id] in H. unfold take_id in H. cbn [fst snd] in H.
    inv_step H. inversion H; subst; clear H.
    eexists; exists machs, mlabs, ids1, trans, tlabs, ids2. repeat split; eauto.
  - inv_step H. inv_step H. inversion H; subst; clear H.
    eexists; exists machs, mlabs, ids1, trans, tlabs, ids2. repeat split; eauto.
Qed.

Theorem labels_unique d early i L :
  NoDup (map fst (d_bufs d)) -> compile_inst d early = Ok (i, L) -> NoDup (all_labels L).
Proof.
  intros Hn H.
  destruct (compile_inst_labels _ _ _ _ H) as [nmach [machs [mlabs [ids1 [trans [tlabs [ids2 [Em [Ht [L1 [L2 L3]]]]]]]]]]].
  destruct (build_machines_labels d _ _ _ _ _ _ _ Em Hn) as [N1 [ext [X1 X2]]].
  assert (Ht' : NoDup ids2 /\ ids2 = ids1 ++ tlabs).
  { destruct Ht as [Ht|Ht]; eapply build_transports_labels; eauto. }
  destruct Ht' as [N2 X3].
  unfold all_labels. rewrite L1, L2, L3, <- X2.
  destruct (d_bufs d) as [|b0 bs] eqn:Eb.
  - set (li := new_id ids2). set (lo := new_id (ids2 ++ [li])).
    assert (Nli : ~ In li ids2) by apply new_id_fresh.
    assert (Nlo : ~ In lo (ids2 ++ [li])) by apply new_id_fresh.
    assert (N4 : NoDup ((ids2 ++ [li]) ++ [lo])) by (apply NoDup_snoc; auto; apply NoDup_snoc; auto).
    rewrite X3, X1 in N4. simpl in N4.
    apply (Permutation_NoDup (l := ((ext ++ tlabs) ++ [li]) ++ [lo])); auto.
    change ([li; lo] ++ ext ++ tlabs) with ([li; lo] ++ (ext ++ tlabs)).
    rewrite <- app_assoc. simpl. apply Permutation_app_comm.
  - rewrite X3, X1 in N2. rewrite <- app_assoc in N2. exact N2.
Qed.

(* ---------- C16/C09: the setup matrix is read row = from-tool, column = to-tool ---------- *)
Lemma nat2_eqb_eq a b : nat2_eqb a b = true <-> a = b.
Proof.
  destruct a as [a1 a2], b as [b1 b2]. unfold nat2_eqb. simpl. rewrite andb_true_iff, !Nat.eqb_eq.
  split; [intros [-> ->]; auto|intros E; inversion E; auto].
Qed.

Lemma setup_lookup_dict_set l k v a b :
  setup_lookup (dict_set nat2_eqb l k v) a b = if nat2_eqb k (a, b) then Some v else setup_lookup l a b.
Proof.
  induction l as [|[[p q] c] r IH]; simpl.
  - destruct k as [k1 k2]. unfold nat2_eqb. simpl. reflexivity.
  - destruct (nat2_eqb (p, q) k) eqn:E1.
    + apply nat2_eqb_eq in E1. subst k. simpl. unfold nat2_eqb at 1. simpl.
      destruct (Nat.eqb p a && Nat.eqb q b); reflexivity.
    + simpl. rewrite IH. destruct (Nat.eqb p a && Nat.eqb q b) eqn:E2; auto.
      destruct (nat2_eqb k (a, b)) eqn:E3; auto.
      apply nat2_eqb_eq in E3. subst k. unfold nat2_eqb in E1. simpl in E1. congruence.
Qed.

Lemma find_snoc' {A} (f : A -> bool) l x : find f (l ++ [x]) = match find f l with Some y => Some y | None => if f x then Some x else None end.
Proof. induction l; simpl; auto. destruct (f a); auto. Qed.

Lemma srow_write from : forall cells acc a b,
  setup_lookup (fold_left (fun a2 (cv : nat * Z) => dict_set nat2_eqb a2 (from, fst cv) (Det (snd cv))) cells acc) a b =
  match find (fun cv : nat * Z => Nat.eqb (fst cv) b) (rev cells) with
  | Some cv => if Nat.eqb from a then Some (Det (snd cv)) else setup_lookup acc a b
  | None => setup_lookup acc a b
  end.
Proof.
  induction cells as [|cv cells IH]; intros acc a b; simpl; auto.
  rewrite IH, find_snoc', setup_lookup_dict_set.
  destruct (find (fun cv0 : nat * Z => Nat.eqb (fst cv0) b) (rev cells)) as [y|].
  - destruct (Nat.eqb from a) eqn:Ea; auto.
    unfold nat2_eqb; simpl. rewrite Ea. reflexivity.
  - unfold nat2_eqb; simpl. destruct (Nat.eqb from a) eqn:Ea; destruct (Nat.eqb (fst cv) b); simpl; auto.
Qed.

Section SetupDirection.
Variable hdr : list nat.
Variables from to : nat.

Definition srow_step (acc : list ((nat * nat) * tcfg)) (row : nat * list Z) :=
  fold_left (fun acc2 (cv : nat * Z) => dict_set nat2_eqb acc2 (fst row, fst cv) (Det (snd cv))) (zip_row hdr (snd row)) acc.

Definition scell_of (r : nat * list Z) : option (nat * Z) :=
  find (fun cv : nat * Z => Nat.eqb (fst cv) to) (rev (zip_row hdr (snd r))).

Lemma srow_step_lookup acc r :
  setup_lookup (srow_step acc r) from to =
  if Nat.eqb (fst r) from
  then match scell_of r with Some cv => Some (Det (snd cv)) | None => setup_lookup acc from to end
  else setup_lookup acc from to.
Proof. unfold srow_step, scell_of. rewrite srow_write. destruct (find _ _); destruct (Nat.eqb (fst r) from); reflexivity. Qed.

Lemma srows_keep row v : scell_of row = Some (to, v) -> fst row = from ->
  forall rows acc, (forall r', In r' rows -> fst r' = from -> r' = row) ->
  setup_lookup acc from to = Some (Det v) -> setup_lookup (fold_left srow_step rows acc) from to = Some (Det v).
Proof.
  intros Hcell Hfrom. induction rows as [|r rs IH]; intros acc Hu Hacc; simpl; auto.
  apply IH; [intros r' Hr'; apply Hu; right; auto|].
  rewrite srow_step_lookup. destruct (Nat.eqb (fst r) from) eqn:Ef; auto.
  apply Nat.eqb_eq in Ef. rewrite (Hu r (or_introl eq_refl) Ef), Hcell. reflexivity.
Qed.

Theorem srows_direction row v rows acc :
  In row rows -> fst row = from -> (forall r', In r' rows -> fst r' = from -> r' = row) ->
  scell_of row = Some (to, v) -> setup_lookup (fold_left srow_step rows acc) from to = Some (Det v).
Proof.
  intros Hin Hfrom Hu Hcell. destruct (in_split _ _ Hin) as [pre [post E]]. subst rows.
  rewrite fold_left_app. simpl. apply srows_keep with (row := row); auto.
  - intros r' Hr'. apply Hu. apply in_app_iff. right; right; auto.
  - rewrite srow_step_lookup, Hfrom, Nat.eqb_refl, Hcell. reflexivity.
Qed.
End SetupDirection.

(* the entry the state machine looks up for (mounted tool a, new tool b) on machine m is the cell written in the row of tool a under the column of
   tool b of the matrix given for m *)
Theorem setup_direction d m nmach l hdr rows st a b row v :
  d_setup d = Some l -> find (fun e => Nat.eqb (fst e) m) l = Some (m, (hdr, rows)) -> setup_of d m nmach = Ok st ->
  In row rows -> fst row = a -> (forall r', In r' rows -> fst r' = a -> r' = row) ->
  scell_of hdr b row = Some (b, v) ->
  setup_lookup st a b = Some (Det v).
Proof.
  intros Hs Hf Hst Hin Hfrom Hu Hcell. unfold setup_of in Hst. rewrite Hs, Hf in Hst. inversion Hst; subst st.
  exact (srows_direction hdr a b row v rows [] Hin Hfrom Hu Hcell).
Qed.

(* ---------- C16: the travel-time matrix is read row = from, column = to ---------- *)
Lemma place2_eqb_eq a b : place2_eqb a b = true <-> a = b.
Proof.
  destruct a as [a1 a2], b as [b1 b2]. unfold place2_eqb. simpl. rewrite andb_true_iff.
  assert (P : forall p q, place_eqb p q = true <-> p = q).
  { intros [x|x|x] [y|y|y]; simpl; split; intros H; try discriminate; try (apply Nat.eqb_eq in H; congruence);
      try (inversion H; subst; apply Nat.eqb_refl). }
  rewrite !P. split; [intros [-> ->]; auto|intros E; inversion E; auto].
Qed.

Lemma travel_lookup_dict_set l k v a b :
  travel_lookup (dict_set place2_eqb l k v) a b = if place2_eqb k (a, b) then Some v else travel_lookup l a b.
Proof.
  induction l as [|[[p q] c] r IH]; simpl.
  - destruct k as [k1 k2]. unfold place2_eqb. simpl. reflexivity.
  - destruct (place2_eqb (p, q) k) eqn:E1.
    + apply place2_eqb_eq in E1. subst k. simpl. unfold place2_eqb at 1. simpl.
      destruct (place_eqb p a && place_eqb q b); reflexivity.
    + simpl. rewrite IH. destruct (place_eqb p a && place_eqb q b) eqn:E2; auto.
      destruct (place2_eqb k (a, b)) eqn:E3; auto.
      apply place2_eqb_eq in E3. subst k. unfold place2_eqb in E1. simpl in E1. congruence.
Qed.

Lemma find_snoc {A} (f : A -> bool) l x : find f (l ++ [x]) = match find f l with Some y => Some y | None => if f x then Some x else None end.
Proof. induction l; simpl; auto. destruct (f a); auto. Qed.

Lemma row_write from : forall cells acc a b,
  travel_lookup (fold_left (fun a2 cv => dict_set place2_eqb a2 (from, fst cv) (Det (snd cv))) cells acc) a b =
  match find (fun cv => place_eqb (fst cv) b) (rev cells) with
  | Some cv => if place_eqb from a then Some (Det (snd cv)) else travel_lookup acc a b
  | None => travel_lookup acc a b
  end.
Proof.
  induction cells as [|cv cells IH]; intros acc a b; simpl; auto.
  rewrite IH, find_snoc, travel_lookup_dict_set.
  destruct (find (fun cv0 => place_eqb (fst cv0) b) (rev cells)) as [y|].
  - destruct (place_eqb from a) eqn:Ea; auto.
    unfold place2_eqb; simpl. rewrite Ea. reflexivity.
  - unfold place2_eqb; simpl. destruct (place_eqb from a) eqn:Ea; destruct (place_eqb (fst cv) b); simpl; auto.
Qed.

Lemma place_eqb_refl p : place_eqb p p = true.
Proof. destruct p; simpl; apply Nat.eqb_refl. Qed.
Lemma place_eqb_true p q : place_eqb p q = true -> p = q.
Proof. destruct p, q; simpl; intros H; try discriminate; apply Nat.eqb_eq in H; congruence. Qed.

Section Direction.
Variable L : labels.
Variable hdr : list (option place).
Variables from to : place.

Definition row_step (acc : list ((place * place) * tcfg)) (r : pname * list Z) :=
  match place_of_name L (fst r) with
  | None => acc
  | Some fr => fold_left (fun a2 cv => dict_set place2_eqb a2 (fr, fst cv) (Det (snd cv))) (zip_cells hdr (snd r)) acc
  end.

Definition cell_of (r : pname * list Z) : option (place * Z) :=
  find (fun cv => place_eqb (fst cv) to) (rev (zip_cells hdr (snd r))).

(* a row whose name is not `from` leaves the entry (from, to) alone; the row named `from` sets it *)
Lemma row_step_lookup acc r :
  travel_lookup (row_step acc r) from to =
  match place_of_name L (fst r) with
  | Some fr => if place_eqb fr from
               then match cell_of r with Some cv => Some (Det (snd cv)) | None => travel_lookup acc from to end
               else travel_lookup acc from to
  | None => travel_lookup acc from to
  end.
Proof.
  unfold row_step, cell_of. destruct (place_of_name L (fst r)) as [fr|]; auto.
  rewrite row_write. destruct (find _ _); destruct (place_eqb fr from); reflexivity.
Qed.

Lemma rows_keep row v : cell_of row = Some (to, v) -> place_of_name L (fst row) = Some from ->
  forall rows acc, (forall r', In r' rows -> place_of_name L (fst r') = Some from -> r' = row) ->
  travel_lookup acc from to = Some (Det v) -> travel_lookup (fold_left row_step rows acc) from to = Some (Det v).
Proof.
  intros Hcell Hfrom. induction rows as [|r rs IH]; intros acc Hu Hacc; simpl; auto.
  apply IH; [intros r' Hr'; apply Hu; right; auto|].
  rewrite row_step_lookup. destruct (place_of_name L (fst r)) as [fr|] eqn:Er; auto.
  destruct (place_eqb fr from) eqn:Ef; auto.
  apply place_eqb_true in Ef. subst fr. rewrite (Hu r (or_introl eq_refl) Er), Hcell. reflexivity.
Qed.

Theorem rows_direction row v rows acc :
  In row rows -> place_of_name L (fst row) = Some from ->
  (forall r', In r' rows -> place_of_name L (fst r') = Some from -> r' = row) ->
  cell_of row = Some (to, v) ->
  travel_lookup (fold_left row_step rows acc) from to = Some (Det v).
Proof.
  intros Hin Hfrom Hu Hcell. destruct (in_split _ _ Hin) as [pre [post E]]. subst rows.
  rewrite fold_left_app. simpl. apply rows_keep with (row := row); auto.
  - intros r' Hr'. apply Hu. apply in_app_iff. right; right; auto.
  - rewrite row_step_lookup, Hfrom, place_eqb_refl, Hcell. reflexivity.
Qed.
End Direction.

(* C16_direction: the entry looked up for (from, to) is the cell in the row named `from` under the
   column named `to` (rows = origins, columns = destinations) *)
Theorem travel_direction d L nmach nbuf lg from to row v :
  d_log d = Some lg ->
  In row (dl_rows lg) -> place_of_name L (fst row) = Some from ->
  (forall r', In r' (dl_rows lg) -> place_of_name L (fst r') = Some from -> r' = row) ->
  cell_of (map (place_of_name L) (dl_names lg)) to row = Some (to, v) ->
  travel_lookup (travel_of d L nmach nbuf) from to = Some (Det v).
Proof.
  intros Hlg Hin Hfrom Hu Hcell. unfold travel_of. rewrite Hlg.
  exact (rows_direction L (map (place_of_name L) (dl_names lg)) from to row v (dl_rows lg) [] Hin Hfrom Hu Hcell).
Qed.

(* ---------- C17: initial-state settings honoured ---------- *)
Lemma dedup_nodup_prefix : forall l1 l2, NoDup l1 -> exists r, dedup_nat (l1 ++ l2) = l1 ++ r.
Proof.
  induction l1 as [|h t IH]; intros l2 Hn; simpl.
  - eexists; reflexivity.
  - inversion Hn; subst. destruct (IH l2 H2) as [r Hr]. rewrite Hr.
    rewrite filter_app. exists (filter (fun k => negb (Nat.eqb k h)) r). f_equal. f_equal.
    clear -H1. induction t as [|a t IHt]; simpl; auto.
    destruct (Nat.eqb_spec a h); [subst; exfalso; apply H1; left; auto|]. simpl. f_equal.
    apply IHt. intros Hi. apply H1. right; auto.
Qed.

(* a listed store keeps its order: it is a prefix of the buffer's initial contents *)
Theorem listed_store_order_kept listed here : NoDup listed -> exists r, dedup_nat (listed ++ here) = listed ++ r.
Proof. apply dedup_nodup_prefix. Qed.

(* ---------- the compiled initial state meets the hypotheses of the state-machine theorems ---------- *)
Lemma mapM_Forall2 {A B} (f : A -> res B) : forall l r, mapM f l = Ok r -> Forall2 (fun a b => f a = Ok b) l r.
Proof.
  induction l as [|a l IH]; intros r H; simpl in H.
  - inversion H; constructor.
  - destruct (f a) as [b|] eqn:E; simpl in H; [|discriminate].
    destruct (mapM f l) as [bs|] eqn:E2; simpl in H; [|discriminate]. inversion H; subst. constructor; auto.
Qed.

Lemma Forall2_weaken {A B} (R R' : A -> B -> Prop) l r : (forall a b, R a b -> R' a b) -> Forall2 R l r -> Forall2 R' l r.
Proof. intros Himp F. induction F; constructor; auto. Qed.

Lemma Forall2_nth_r {A B} (R : A -> B -> Prop) l r n b : Forall2 R l r -> nth_error r n = Some b -> exists a, nth_error l n = Some a /\ R a b.
Proof.
  intros F. revert n. induction F as [|a0 b0 l0 r0 Hab F IH]; intros [|n] Hn; simpl in Hn; try discriminate.
  - inversion Hn; subst. eexists; split; [reflexivity|auto].
  - apply IH in Hn. exact Hn.
Qed.

Lemma forallb_impl {A} (p q : A -> bool) l : (forall a, p a = true -> q a = true) -> forallb p l = true -> forallb q l = true.
Proof. intros H. rewrite !forallb_forall. auto. Qed.

Lemma Forall2_forallb_r {A B} (R : A -> B -> Prop) (p : B -> bool) l r :
  Forall2 R l r -> (forall a b, R a b -> p b = true) -> forallb p r = true.
Proof. intros F Hp. induction F as [|a b l0 r0 Hab F IH]; simpl; auto. rewrite (Hp _ _ Hab). auto. Qed.

Lemma forallb2_map_l {A B C} (f : B -> C -> bool) (g : A -> B) l l' :
  forallb2 f (map g l) l' = forallb2 (fun a c => f (g a) c) l l'.
Proof. revert l'; induction l as [|a l IH]; intros [|c l']; simpl; auto. rewrite IH. reflexivity. Qed.

Lemma forallb2_refl_same {A} (f : A -> A -> bool) l : (forall a, f a a = true) -> forallb2 f l l = true.
Proof. intros H. induction l; simpl; auto. rewrite H. auto. Qed.

Section F.
Variable d : ddoc.

Theorem init_state_fresh i L x :
  init_state d i L = Ok x ->
  fresh_b i x = true /\ clock_b x = true /\ agv_load_b x = true
  /\ s_now x = (match di_start (d_init d) with Some z => z | None => 0%Z end).
Proof.
  unfold init_state. intros H.
  match type of H with (bind (mapM ?fj ?lj) _) = _ => destruct (mapM fj lj) as [jobs|] eqn:Ej; simpl in H; [|discriminate] end.
  match type of H with (bind (mapM ?ft ?lt) _) = _ => destruct (mapM ft lt) as [trans|] eqn:Et; simpl in H; [|discriminate] end.
  inversion H; subst x; clear H.
  apply mapM_Forall2 in Ej. apply mapM_Forall2 in Et.
  (* every job record: all operations idle, routed as configured *)
  assert (Hjobs : Forall2 (fun (a : list opcfg * nat) jb => j_ops jb = map (fun oc => mkOp (oc_mach oc) NoTime NoTime OIdle) (fst a)) 
                          (combine (i_jobs i) (map (fun j => match find (fun e => Nat.eqb (fst e) j) (di_jloc (d_init d)) with
                            | Some (_, l) => l | None => match lb_std L with l :: _ => l | [] => 0 end end) (seq 0 (length (i_jobs i))))) jobs).
  { eapply Forall2_weaken; [|exact Ej]. intros [ops l] jb Hf. simpl in Hf.
    destruct (label_to_bid L l); simpl in Hf; [|discriminate]. inversion Hf; subst. reflexivity. }
  assert (Htr : forallb (fun ts => tstate_eqb (t_st ts) TIdle && is_nil (b_store (t_buf ts)) && opt_nat_eqb (t_job ts) None) trans = true).
  { eapply Forall2_forallb_r; [exact Et|]. intros [t ac] ts Hf. simpl in Hf.
    match type of Hf with bind ?e _ = _ => destruct e as [loc|]; simpl in Hf; [|discriminate] end. inversion Hf; subst. reflexivity. }
  split; [|split; [|split]].
  - (* fresh *)
    unfold fresh_b. simpl. apply andb_true_iff. split; [apply andb_true_iff; split|].
    + eapply Forall2_forallb_r; [exact Hjobs|]. intros a jb E. simpl. rewrite E. apply forallb_forall.
      intros o Ho. apply in_map_iff in Ho. destruct Ho as [oc [<- _]]. reflexivity.
    + apply forallb_forall. intros ms Hm. apply in_map_iff in Hm. destruct Hm as [mc [<- _]]. reflexivity.
    + (* machines as configured: jobs and i_jobs have the same length and pointwise ops = map ... *)
      assert (Hlen : length (combine (i_jobs i) (map (fun j => match find (fun e => Nat.eqb (fst e) j) (di_jloc (d_init d)) with
                            | Some (_, l) => l | None => match lb_std L with l :: _ => l | [] => 0 end end) (seq 0 (length (i_jobs i))))) = length (i_jobs i)).
      { rewrite combine_length, map_length, seq_length. lia. }
      clear Ej Et Htr. revert Hjobs Hlen.
      generalize (map (fun j => match find (fun e => Nat.eqb (fst e) j) (di_jloc (d_init d)) with
                            | Some (_, l) => l | None => match lb_std L with l :: _ => l | [] => 0 end end) (seq 0 (length (i_jobs i)))).
      generalize (i_jobs i). intros cs locs. revert locs jobs.
      induction cs as [|c cs IH]; intros locs jobs HF Hl; simpl in *.
      * inversion HF; subst. reflexivity.
      * destruct locs as [|l locs]; simpl in *; [discriminate|]. inversion HF as [|a jb la lb E1 E2]; subst. simpl in *.
        apply andb_true_iff. split.
        -- rewrite E1. rewrite forallb2_map_l. clear. induction c as [|oc c IHc]; simpl; auto.
           unfold op_machine_ok at 1. simpl. rewrite Nat.eqb_refl. simpl. exact IHc.
        -- eapply IH; eauto.
  - (* clock *)
    unfold clock_b, no_overdue_b, idle_unclaimed_b, sto_ok_b. simpl.
    apply andb_true_iff. split; [apply andb_true_iff; split; [apply andb_true_iff; split|]|reflexivity].
    + apply forallb_forall. intros o Ho. apply in_flat_map in Ho. destruct Ho as [jb [Hjb Ho]].
      apply In_nth_error in Hjb. destruct Hjb as [n Hn].
      destruct (Forall2_nth_r _ _ _ _ _ Hjobs Hn) as [a [_ E]]. rewrite E in Ho. apply in_map_iff in Ho.
      destruct Ho as [oc [<- _]]. reflexivity.
    + eapply forallb_impl; [|exact Htr]. intros ts Hts. simpl in Hts.
      apply andb_true_iff in Hts. destruct Hts as [Hts _]. apply andb_true_iff in Hts. destruct Hts as [Hs _].
      destruct (t_st ts); simpl in Hs; try discriminate. reflexivity.
    + eapply forallb_impl; [|exact Htr]. intros ts Hts. simpl in Hts.
      apply andb_true_iff in Hts. destruct Hts as [Hts Hj]. apply andb_true_iff in Hts. destruct Hts as [Hs _].
      destruct (t_st ts); simpl in Hs; try discriminate. exact Hj.
  - unfold agv_load_b. simpl. eapply forallb_impl; [|exact Htr]. intros ts Hts. simpl in Hts.
    apply andb_true_iff in Hts. destruct Hts as [Hts _]. apply andb_true_iff in Hts. destruct Hts as [Hs He].
    destruct (t_st ts); simpl in Hs; try discriminate. exact He.
  - reflexivity.
Qed.

(* ... and the further hypotheses of the run-level theorems that concern AGVs and outage records *)
Theorem init_state_more i L x :
  init_state d i L = Ok x ->
  nodep_b x = true /\ agv_phase_b x = true /\ outages_b x && outage_nonneg_b x = true
  /\ forallb (fun ts => tstate_eqb (t_st ts) TIdle && is_nil (b_store (t_buf ts))) (s_trans x) = true.
Proof.
  unfold init_state. intros H.
  match type of H with (bind (mapM ?fj ?lj) _) = _ => destruct (mapM fj lj) as [jobs|] eqn:Ej; simpl in H; [|discriminate] end.
  match type of H with (bind (mapM ?ft ?lt) _) = _ => destruct (mapM ft lt) as [trans|] eqn:Et; simpl in H; [|discriminate] end.
  inversion H; subst x; clear H. apply mapM_Forall2 in Et.
  assert (Htr : forallb (fun ts => tstate_eqb (t_st ts) TIdle && is_nil (b_store (t_buf ts))
                                   && match t_occ ts with ONo => true | _ => false end
                                   && match t_loc ts with LAt _ => true | _ => false end
                                   && forallb oact_inactive (t_out ts)
                                   && forallb (fun o => match o with OActive s e => time_leb s e | _ => true end) (t_out ts)) trans = true).
  { eapply Forall2_forallb_r; [exact Et|]. intros [t ac] ts Hf. simpl in Hf.
    match type of Hf with bind ?e _ = _ => destruct e as [loc|]; simpl in Hf; [|discriminate] end. inversion Hf; subst. simpl.
    assert (A : forallb oact_inactive (map (fun _ : ocfg => OInactive NoTime) (ac_out ac)) = true) by (induction (ac_out ac); simpl; auto).
    assert (B : forallb (fun o => match o with OActive s e => time_leb s e | _ => true end) (map (fun _ : ocfg => OInactive NoTime) (ac_out ac)) = true)
      by (induction (ac_out ac); simpl; auto).
    rewrite A, B. reflexivity. }
  assert (Hm : forall ms, In ms (map (fun mc => mkMachine MIdle NoTime empty_buf empty_buf empty_buf 0%nat (map (fun _ : ocfg => OInactive NoTime) (mc_out mc))) (i_machs i)) ->
                 m_st ms = MIdle /\ forallb oact_inactive (m_out ms) = true
                 /\ forallb (fun o => match o with OActive s e => time_leb s e | _ => true end) (m_out ms) = true).
  { intros ms Hin. apply in_map_iff in Hin. destruct Hin as [mc [<- _]]. simpl. split; [reflexivity|].
    split; induction (mc_out mc); simpl; auto. }
  split; [|split; [|split]].
  - unfold nodep_b. simpl. eapply forallb_impl; [|exact Htr]. intros ts Hts. rewrite !andb_true_iff in Hts.
    destruct Hts as [[[[_ Ho] _] _] _]. destruct (t_occ ts); auto; discriminate.
  - unfold agv_phase_b. simpl. eapply forallb_impl; [|exact Htr]. intros ts Hts. rewrite !andb_true_iff in Hts.
    destruct Hts as [[[[[Hs _] _] Hl] _] _]. destruct (t_st ts); try discriminate. exact Hl.
  - unfold outages_b, outage_nonneg_b. simpl. rewrite !andb_true_iff. repeat split.
    + apply forallb_forall. intros ms Hin. destruct (Hm ms Hin) as [E [A _]]. rewrite E. exact A.
    + eapply forallb_impl; [|exact Htr]. intros ts Hts. rewrite !andb_true_iff in Hts.
      destruct Hts as [[[[[Hs _] _] _] A] _]. destruct (t_st ts); try discriminate. exact A.
    + apply forallb_forall. intros ms Hin. destruct (Hm ms Hin) as [_ [_ B]]. exact B.
    + eapply forallb_impl; [|exact Htr]. intros ts Hts. rewrite !andb_true_iff in Hts. tauto.
  - simpl. eapply forallb_impl; [|exact Htr]. intros ts Hts. rewrite !andb_true_iff in Hts. rewrite andb_true_iff. tauto.
Qed.

End F.

(* ---------- the compiled instance is the one written in the document ---------- *)
(* mapM over an enumerated list keeps the list's shape *)
Lemma mapM_enum_proj {A B C} (g : nat -> A -> res B) (pa : A -> C) (pb : B -> C) :
  (forall k a b, g k a = Ok b -> pb b = pa a) ->
  forall l n r,
    mapM (fun '(k, a) => g k a)
         ((fix en (n : nat) (l : list A) := match l with [] => [] | a :: r => (n, a) :: en (S n) r end) n l) = Ok r ->
    map pb r = map pa l.
Proof.
  intros Hg. induction l as [|a l IH]; intros n r H; simpl in H.
  - inversion H; subst. reflexivity.
  - destruct (g n a) as [b|] eqn:E; simpl in H; [|discriminate].
    match type of H with bind ?e _ = _ => destruct e as [bs|] eqn:E2; simpl in H; [|discriminate] end.
    inversion H; subst. simpl. rewrite (Hg _ _ _ E). f_equal. eapply IH; eauto.
Qed.

Section J.
Variable d : ddoc.

(* jobs, operation order, machines and durations of the compiled instance are those written in the document *)
Theorem compile_jobs_as_written early i L :
  compile_inst d early = Ok (i, L) ->
  map (map (fun oc => (oc_mach oc, oc_dur oc))) (i_jobs i) = map (map (fun md => (fst md, Det (snd md)))) (d_jobs d).
Proof.
  unfold compile_inst. intros H.
  destruct (nm d) as [nmach|]; simpl in H; [|discriminate].
  destruct (build_machines d 0 nmach nmach (map fst (d_bufs d))) as [[[machs mlabs] ids1]|]; simpl in H; [|discriminate].
  repeat match type of H with
         | context [let '(_, _) := ?e in _] => destruct e as [? ?]
         | context [match ?e with (_, _) => _ end] => destruct e as [? ?]
         end.
  match type of H with bind ?e _ = _ => destruct e as [jobs|] eqn:Ej; simpl in H; [|discriminate] end.
  match type of H with bind ?e _ = _ => destruct e; simpl in H; [|discriminate] end.
  inversion H; subst i L. simpl. clear H.
  revert Ej. apply (mapM_enum_proj _ (map (fun md => (fst md, Det (snd md)))) (map (fun oc => (oc_mach oc, oc_dur oc)))).
  intros j ops cs Hops. revert Hops.
  apply (mapM_enum_proj _ (fun md => (fst md, Det (snd md))) (fun oc => (oc_mach oc, oc_dur oc))).
  intros k md oc Hoc. simpl in Hoc.
  match type of Hoc with bind ?e _ = _ => destruct e as [t|]; simpl in Hoc; [|discriminate] end.
  inversion Hoc; subst. reflexivity.
Qed.

Lemma build_machines_len : forall n k nmach ids ms labs ids',
  build_machines d k n nmach ids = Ok (ms, labs, ids') -> length ms = n.
Proof.
  induction n as [|n IH]; intros k nmach ids ms labs ids' H; simpl in H.
  - inversion H; subst. reflexivity.
  - repeat match type of H with
           | context [let '(_, _) := ?e in _] => destruct e as [? ?]
           end.
    match type of H with bind ?e _ = _ => destruct e; simpl in H; [|discriminate] end.
    repeat match type of H with
           | context [let '(_, _) := ?e in _] => destruct e as [? ?]
           end.
    match type of H with bind ?e _ = _ => destruct e as [[[r labs0] ids0]|] eqn:E; simpl in H; [|discriminate] end.
    inversion H; subst. simpl. f_equal. eapply IH; eauto.
Qed.

Lemma build_transports_len : forall wo n ids ts labs ids',
  build_transports d wo n ids = (ts, labs, ids') -> length ts = n.
Proof.
  induction n as [|n IH]; intros ids ts labs ids' H; simpl in H.
  - inversion H; subst. reflexivity.
  - unfold take_id in H.
    destruct (build_transports d wo n (ids ++ [new_id ids])) as [[r labs0] ids0] eqn:E.
    inversion H; subst. simpl. f_equal. eapply IH; eauto.
Qed.

(* numbers of machines and AGVs, the standalone buffers and the early-transport switch are those of the document
   (defaults: one machine per operation of the first job line; one AGV per job when no logistics amount is given;
   an unbounded flex input and output buffer when no buffer section is given) *)
Theorem compile_shape_as_written early i L :
  compile_inst d early = Ok (i, L) ->
  nm d = Ok (length (i_machs i))
  /\ length (i_trans i) = (match match d_log d with Some lg => dl_amount lg | None => None end with
                            | Some n => n | None => nj d end)
  /\ i_bufs i = (match d_bufs d with
                  | [] => [default_buf RInput; default_buf ROutput]
                  | l => map (fun e => custom_buf (snd e)) l end)
  /\ i_early i = early.
Proof.
  unfold compile_inst. intros H.
  destruct (nm d) as [nmach|] eqn:En; simpl in H; [|discriminate].
  destruct (build_machines d 0 nmach nmach (map fst (d_bufs d))) as [[[machs mlabs] ids1]|] eqn:Em; simpl in H; [|discriminate].
  pose proof (build_machines_len _ _ _ _ _ _ _ Em) as Lm.
  destruct (match d_log d with Some lg => dl_amount lg | None => None end) as [amount|] eqn:Ea.
  - destruct (build_transports d true amount ids1) as [[trans tlabs] ids2] eqn:Et.
    pose proof (build_transports_len _ _ _ _ _ _ Et) as Lt.
    destruct (d_bufs d) as [|b0 bl] eqn:Eb.
    + repeat match type of H with context [let '(_, _) := ?e in _] => destruct e as [? ?] end.
      match type of H with bind ?e _ = _ => destruct e as [jobs|]; simpl in H; [|discriminate] end.
      inversion H; subst i L. simpl. rewrite Lm. auto.
    + match type of H with bind ?e _ = _ => destruct e as [jobs|]; simpl in H; [|discriminate] end.
      match type of H with bind ?e _ = _ => destruct e; simpl in H; [|discriminate] end.
      inversion H; subst i L. simpl. rewrite Lm. auto.
  - destruct (build_transports d false (nj d) ids1) as [[trans tlabs] ids2] eqn:Et.
    pose proof (build_transports_len _ _ _ _ _ _ Et) as Lt.
    destruct (d_bufs d) as [|b0 bl] eqn:Eb.
    + repeat match type of H with context [let '(_, _) := ?e in _] => destruct e as [? ?] end.
      match type of H with bind ?e _ = _ => destruct e as [jobs|]; simpl in H; [|discriminate] end.
      inversion H; subst i L. simpl. rewrite Lm. auto.
    + match type of H with bind ?e _ = _ => destruct e as [jobs|]; simpl in H; [|discriminate] end.
      match type of H with bind ?e _ = _ => destruct e; simpl in H; [|discriminate] end.
      inversion H; subst i L. simpl. rewrite Lm. auto.
Qed.

(* ---------- machines, AGVs and tools as written ---------- *)
Lemma mapM_enum_nth {A B} (g : nat -> A -> res B) :
  forall l n r k b,
    mapM (fun '(k, a) => g k a)
         ((fix en (n : nat) (l : list A) := match l with [] => [] | a :: r => (n, a) :: en (S n) r end) n l) = Ok r ->
    nth_error r k = Some b -> exists a, nth_error l k = Some a /\ g (n + k) a = Ok b.
Proof.
  induction l as [|a l IH]; intros n r k b H Hk; simpl in H.
  - inversion H; subst. destruct k; discriminate.
  - destruct (g n a) as [b0|] eqn:E; simpl in H; [|discriminate].
    match type of H with bind ?e _ = _ => destruct e as [bs|] eqn:E2; simpl in H; [|discriminate] end.
    inversion H; subst. destruct k as [|k]; simpl in Hk.
    + inversion Hk; subst. exists a. rewrite Nat.add_0_r. auto.
    + destruct (IH (S n) bs k b E2 Hk) as [a0 [A1 A2]]. exists a0. split; auto. replace (n + S k) with (S n + k) by lia. exact A2.
Qed.

Lemma build_machines_nth : forall n k nmach ids ms labs ids' m mc,
  build_machines d k n nmach ids = Ok (ms, labs, ids') -> nth_error ms m = Some mc ->
  exists st, setup_of d (k + m) nmach = Ok st
    /\ mc = mkMCfg (apply_spec (default_buf RComponent) (fst (mach_specs d (k + m)))) inner_buf
                   (apply_spec (default_buf RComponent) (snd (mach_specs d (k + m)))) st (outages_for d true (k + m)).
Proof.
  induction n as [|n IH]; intros k nmach ids ms labs ids' m mc H Hm; simpl in H.
  - inversion H; subst. destruct m; discriminate.
  - destruct (mach_specs d k) as [sp sq] eqn:Ems.
    repeat match type of H with
           | context [let '(_, _) := ?e in _] => destruct e as [? ?]
           end.
    match type of H with bind ?e _ = _ => destruct e as [st|] eqn:Es; simpl in H; [|discriminate] end.
    match type of H with bind ?e _ = _ => destruct e as [[[r labs0] ids0]|] eqn:E; simpl in H; [|discriminate] end.
    inversion H; subst. destruct m as [|m]; simpl in Hm.
    + inversion Hm; subst. exists st. rewrite Nat.add_0_r, Ems. auto.
    + destruct (IH _ _ _ _ _ _ _ _ E Hm) as [st' [A B]]. exists st'. replace (k + S m) with (S k + m) by lia. auto.
Qed.

Lemma build_transports_all : forall wo n ids ts labs ids' ac,
  build_transports d wo n ids = (ts, labs, ids') -> In ac ts ->
  ac = mkACfg inner_buf (if wo then outages_for d false 0%nat else []).
Proof.
  induction n as [|n IH]; intros ids ts labs ids' ac H Hin; simpl in H.
  - inversion H; subst. destruct Hin.
  - unfold take_id in H.
    destruct (build_transports d wo n (ids ++ [new_id ids])) as [[r labs0] ids0] eqn:E.
    inversion H; subst. destruct Hin as [<-|Hin]; [reflexivity|]. eapply IH; eauto.
Qed.

(* every machine of the compiled instance has the pre- and post-buffer the document gives it (or the unbounded flex default), a one-slot
   internal buffer, the setup matrix written for it and exactly the outages that name it or all machines *)
Theorem compile_machines_as_written early i L m mc :
  compile_inst d early = Ok (i, L) -> nth_error (i_machs i) m = Some mc ->
  exists nmach st, nm d = Ok nmach /\ setup_of d m nmach = Ok st
    /\ mc = mkMCfg (apply_spec (default_buf RComponent) (fst (mach_specs d m))) inner_buf
                   (apply_spec (default_buf RComponent) (snd (mach_specs d m))) st (outages_for d true m).
Proof.
  unfold compile_inst. intros H Hm.
  destruct (nm d) as [nmach|] eqn:En; simpl in H; [|discriminate].
  destruct (build_machines d 0 nmach nmach (map fst (d_bufs d))) as [[[machs mlabs] ids1]|] eqn:Em; simpl in H; [|discriminate].
  assert (Hi : i_machs i = machs).
  { repeat match type of H with
           | context [let '(_, _) := ?e in _] => destruct e as [? ?]
           | context [match ?e with (_, _) => _ end] => destruct e as [? ?]
           end.
    match type of H with bind ?e _ = _ => destruct e as [jobs|]; simpl in H; [|discriminate] end.
    match type of H with bind ?e _ = _ => destruct e; simpl in H; [|discriminate] end.
    inversion H; subst i. reflexivity. }
  rewrite Hi in Hm. destruct (build_machines_nth _ _ _ _ _ _ _ _ _ Em Hm) as [st [A B]]. exists nmach, st. auto.
Qed.

(* every AGV has a one-slot buffer and the transport outages of the document (none for the default one-AGV-per-job logistics) *)
Theorem compile_agvs_as_written early i L ac :
  compile_inst d early = Ok (i, L) -> In ac (i_trans i) ->
  ac = mkACfg inner_buf (match match d_log d with Some lg => dl_amount lg | None => None end with
                         | Some _ => outages_for d false 0%nat | None => [] end).
Proof.
  unfold compile_inst. intros H Hin.
  destruct (nm d) as [nmach|] eqn:En; simpl in H; [|discriminate].
  destruct (build_machines d 0 nmach nmach (map fst (d_bufs d))) as [[[machs mlabs] ids1]|] eqn:Em; simpl in H; [|discriminate].
  destruct (match d_log d with Some lg => dl_amount lg | None => None end) as [amount|] eqn:Ea.
  - destruct (build_transports d true amount ids1) as [[trans tlabs] ids2] eqn:Et.
    assert (Hi : i_trans i = trans).
    { repeat match type of H with
             | context [let '(_, _) := ?e in _] => destruct e as [? ?]
             | context [match ?e with (_, _) => _ end] => destruct e as [? ?]
             end.
      match type of H with bind ?e _ = _ => destruct e as [jobs|]; simpl in H; [|discriminate] end.
      match type of H with bind ?e _ = _ => destruct e; simpl in H; [|discriminate] end.
      inversion H; subst i. reflexivity. }
    rewrite Hi in Hin. exact (build_transports_all _ _ _ _ _ _ _ Et Hin).
  - destruct (build_transports d false (nj d) ids1) as [[trans tlabs] ids2] eqn:Et.
    assert (Hi : i_trans i = trans).
    { repeat match type of H with
             | context [let '(_, _) := ?e in _] => destruct e as [? ?]
             | context [match ?e with (_, _) => _ end] => destruct e as [? ?]
             end.
      match type of H with bind ?e _ = _ => destruct e as [jobs|]; simpl in H; [|discriminate] end.
      match type of H with bind ?e _ = _ => destruct e; simpl in H; [|discriminate] end.
      inversion H; subst i. reflexivity. }
    rewrite Hi in Hin. exact (build_transports_all _ _ _ _ _ _ _ Et Hin).
Qed.

(* the tool of every operation is the one tool_usage lists at that position (tool 0 when the document has no tool_usage) *)
Theorem compile_tools_as_written early i L j ops k oc :
  compile_inst d early = Ok (i, L) -> nth_error (i_jobs i) j = Some ops -> nth_error ops k = Some oc ->
  match d_tools d with
  | None => oc_tool oc = 0
  | Some tu => exists ts, nth_error tu j = Some ts /\ nth_error ts k = Some (oc_tool oc)
  end.
Proof.
  unfold compile_inst. intros H Hj Hk.
  destruct (nm d) as [nmach|]; simpl in H; [|discriminate].
  destruct (build_machines d 0 nmach nmach (map fst (d_bufs d))) as [[[machs mlabs] ids1]|]; simpl in H; [|discriminate].
  repeat match type of H with
         | context [let '(_, _) := ?e in _] => destruct e as [? ?]
         | context [match ?e with (_, _) => _ end] => destruct e as [? ?]
         end.
  match type of H with bind ?e _ = _ => destruct e as [jobs|] eqn:Ej; simpl in H; [|discriminate] end.
  match type of H with bind ?e _ = _ => destruct e; simpl in H; [|discriminate] end.
  inversion H; subst i L. simpl in Hj. clear H.
  destruct (mapM_enum_nth _ _ _ _ _ _ Ej Hj) as [dops [_ Hops]]. simpl in Hops.
  destruct (mapM_enum_nth _ _ _ _ _ _ Hops Hk) as [md [_ Hoc]]. simpl in Hoc.
  destruct (d_tools d) as [tu|].
  - destruct (nth_error tu j) as [ts|]; simpl in Hoc; [|discriminate].
    destruct (nth_error ts k) as [t|] eqn:Et; simpl in Hoc; [|discriminate]. inversion Hoc; subst. exists ts. auto.
  - simpl in Hoc. inversion Hoc; subst. reflexivity.
Qed.

End J.

