(* The compiler back end (mapper.DictToInstanceMapper / DictToInitStateMapper) on tokenised documents:
   ID_Counter numbering, defaults, directed travel / setup matrices, buffers, outages, initial state.
   Deterministic documents only (stochastic time behaviours are outside this model). No proofs here. *)
From Coq Require Import List ZArith Bool Arith.
From JSL Require Import Base.Res Base.ListX SM.Types SM.Util.
Import ListNotations.
Open Scope Z_scope.

Definition MAXCAP : Z := 1000000000.   (* sys.maxsize, sent as 10^9 by the serializer *)

(* buffer spec dictionary: optional type and capacity (and role for standalone buffers) *)
Record bspec := mkBSpec { bs_type : option btype; bs_cap : option Z; bs_role : option brole }.

(* a place name of the travel-time matrix *)
Inductive pname := NMach (m : nat) | NBuf (label : nat) | NIn | NOut.

Inductive ocomp := OCAllMach | OCAllTrans | OCMach (m : nat).
Record doutage := mkDOut { do_comp : ocomp; do_dur : Z; do_freq : Z }.

(* dl_amount = Some n iff the logistics section has a `type` key (then `amount` AGVs with the transport outages);
   otherwise one default AGV per job *)
Record dlog := mkDLog { dl_amount : option nat; dl_names : list pname; dl_rows : list (pname * list Z) }.

Inductive dmachines := DMNone | DMGlobal (pre post : option bspec) | DMSpecific (l : list (nat * (option bspec * option bspec))).

Record dinit := mkDInit {
  di_start : option Z;
  di_tloc : list (nat * pname);              (* t-k: location *)
  di_jloc : list (nat * nat);                (* j-k: location b-N (label) *)
  di_store : list (nat * list nat) }.        (* b-N: store [j...] *)

Record ddoc := mkDDoc {
  d_jobs : list (list (nat * Z));
  d_tools : option (list (list nat));        (* tool_usage: per job, per operation *)
  d_setup : option (list (nat * (list nat * list (nat * list Z))));   (* per machine: header tools, rows *)
  d_log : option dlog;
  d_bufs : list (nat * bspec);               (* custom standalone buffers: label b-N, spec *)
  d_machs : dmachines;
  d_outs : list doutage;
  d_init : dinit }.

(* ---------- ID_Counter ---------- *)
Fixpoint fresh_from (fuel : nat) (k : nat) (ids : list nat) : nat :=
  match fuel with
  | O => k
  | S f => if mem_nat k ids then fresh_from f (S k) ids else k
  end.
(* _get_new_id: the smallest number >= len(ids) not used yet *)
Definition new_id (ids : list nat) : nat := fresh_from (S (length ids)) (length ids) ids.

Definition apply_spec (c : bcfg) (s : option bspec) : bcfg :=
  match s with
  | None => c
  | Some s =>
      mkBCfg (match bs_type s with Some t => t | None => bc_type c end)
             (match bs_cap s with Some z => Z.min z MAXCAP | None => bc_cap c end)
             (match bs_role s with Some r => r | None => bc_role c end)
  end.

Definition default_buf (role : brole) : bcfg := mkBCfg Flex MAXCAP role.
Definition inner_buf : bcfg := mkBCfg Flex 1 RComponent.

(* labels handed out: (all labels so far, result) *)
Definition take_id (ids : list nat) : nat * list nat := let k := new_id ids in (k, ids ++ [k]).

Section Compile.
Variable d : ddoc.

Definition nj : nat := length (d_jobs d).
(* make_defaults: number of machines = number of operations of the first job line *)
Definition nm : res nat :=
  match d_jobs d with
  | l1 :: _ => Ok (length l1)
  | _ => Err EPyIndex
  end.

Definition mach_specs (m : nat) : option bspec * option bspec :=
  match d_machs d with
  | DMNone => (None, None)
  | DMGlobal p q => (p, q)
  | DMSpecific l =>
      match find (fun e => Nat.eqb (fst e) m) l with
      | Some (_, pq) => pq
      | None => (None, None)
      end
  end.

Definition outages_for (is_mach : bool) (m : nat) : list ocfg :=
  flat_map (fun o =>
    let hit := match do_comp o with
               | OCAllMach => is_mach
               | OCAllTrans => negb is_mach
               | OCMach k => is_mach && Nat.eqb k m
               end in
    if hit then [mkOCfg (Det (do_freq o)) (Det (do_dur o))] else []) (d_outs d).

Fixpoint zip_row (hdr : list nat) (vals : list Z) : list (nat * Z) :=
  match hdr, vals with h :: hs, v :: vs => (h, v) :: zip_row hs vs | _, _ => [] end.

(* dictionary semantics: a later assignment to the same key replaces the earlier one *)
Fixpoint dict_set {K V} (eqb : K -> K -> bool) (l : list (K * V)) (k : K) (v : V) : list (K * V) :=
  match l with
  | [] => [(k, v)]
  | (k', v') :: r => if eqb k' k then (k', v) :: r else (k', v') :: dict_set eqb r k v
  end.

Definition nat2_eqb (a b : nat * nat) : bool := Nat.eqb (fst a) (fst b) && Nat.eqb (snd a) (snd b).
Definition place2_eqb (a b : place * place) : bool := place_eqb (fst a) (fst b) && place_eqb (snd a) (snd b).

Fixpoint insert_nat (a : nat) (l : list nat) : list nat :=
  match l with [] => [a] | h :: t => if Nat.leb a h then a :: l else h :: insert_nat a t end.
Definition sort_nat (l : list nat) : list nat := fold_right insert_nat [] l.
Fixpoint dedup_first (l : list nat) : list nat :=
  match l with
  | [] => []
  | h :: t => h :: filter (fun k => negb (Nat.eqb k h)) (dedup_first t)
  end.

Definition setup_of (m nmach : nat) : res (list ((nat * nat) * tcfg)) :=
  match d_setup d with
  | None =>
      (* defaults, all zero: tools tl-0 .. tl-(nm-1), followed by the tools the document uses that are not among
         them (sorted; fix 2fd7d97: the default has to cover every tool used). Tool numbers below 10 only: the
         implementation sorts the tool NAMES *)
      let tools := match d_tools d with
                   | None => seq 0 nmach
                   | Some tu => dedup_first (seq 0 nmach ++ sort_nat (concat tu))
                   end in
      Ok (flat_map (fun a => map (fun b => ((a, b), Det 0)) tools) tools)
  | Some l =>
      match find (fun e => Nat.eqb (fst e) m) l with
      | None => Err EInvalidValue            (* InvalidSetupTimesError *)
      | Some (_, (hdr, rows)) =>
          Ok (fold_left (fun acc row =>
                fold_left (fun acc2 cv => dict_set nat2_eqb acc2 (fst row, fst cv) (Det (snd cv)))
                          (zip_row hdr (snd row)) acc) rows [])
      end
  end.

(* machines: (configs, labels of pre/in/post per machine, label list) *)
Fixpoint build_machines (k n nmach : nat) (ids : list nat)
  : res (list mcfg * list (nat * nat * nat) * list nat) :=
  match n with
  | O => Ok ([], [], ids)
  | S n' =>
      let '(lpre, ids1) := take_id ids in
      let '(lpost, ids2) := take_id ids1 in
      let '(lin, ids3) := take_id ids2 in
      st <- setup_of k nmach ;;
      let '(sp, sq) := mach_specs k in
      let mc := mkMCfg (apply_spec (default_buf RComponent) sp) inner_buf (apply_spec (default_buf RComponent) sq)
                       st (outages_for true k) in
      '(r, labs, ids') <- build_machines (S k) n' nmach ids3 ;;
      Ok (mc :: r, (lpre, lin, lpost) :: labs, ids')
  end.

Fixpoint build_transports (with_outages : bool) (n : nat) (ids : list nat) : list acfg * list nat * list nat :=
  match n with
  | O => ([], [], ids)
  | S n' =>
      let '(l, ids1) := take_id ids in
      let '(r, labs, ids') := build_transports with_outages n' ids1 in
      (mkACfg inner_buf (if with_outages then outages_for false 0%nat else []) :: r, l :: labs, ids')
  end.

Definition custom_buf (s : bspec) : bcfg := apply_spec (mkBCfg Flex MAXCAP RCompensation) (Some s).

(* all buffer labels in the order standalone, (pre,in,post) per machine, AGV *)
Record labels := mkLabels { lb_std : list nat; lb_mach : list (nat * nat * nat); lb_agv : list nat }.

Definition label_to_bid (L : labels) (n : nat) : option bid :=
  match find_idx (Nat.eqb n) (lb_std L) with
  | Some k => Some (BStd k)
  | None =>
      match find_idx (fun t => Nat.eqb (fst (fst t)) n) (lb_mach L) with
      | Some k => Some (BPre k)
      | None =>
          match find_idx (fun t => Nat.eqb (snd (fst t)) n) (lb_mach L) with
          | Some k => Some (BIn k)
          | None =>
              match find_idx (fun t => Nat.eqb (snd t) n) (lb_mach L) with
              | Some k => Some (BPost k)
              | None => option_map BAgv (find_idx (Nat.eqb n) (lb_agv L))
              end
          end
      end
  end.

(* a name of no standalone buffer stays a dictionary key that nothing ever looks up: None *)
Definition place_of_name (L : labels) (p : pname) : option place :=
  match p with
  | NMach m => Some (PM m)
  | NBuf n => option_map PB (find_idx (Nat.eqb n) (lb_std L))
  | NIn => Some (PB 0)
  | NOut => Some (PB 1)
  end.

Fixpoint zip_cells (h : list (option place)) (v : list Z) : list (place * Z) :=
  match h, v with
  | Some p :: hs, z :: vs => (p, z) :: zip_cells hs vs
  | None :: hs, _ :: vs => zip_cells hs vs
  | _, _ => []
  end.

Definition travel_of (L : labels) (nmach nbuf : nat) : list ((place * place) * tcfg) :=
  match d_log d with
  | None =>
      let ps := map PM (seq 0 nmach) ++ map PB (seq 0 nbuf) in
      flat_map (fun a => map (fun b => ((a, b), Det 0)) ps) ps
  | Some lg =>
      let hdr := map (place_of_name L) (dl_names lg) in
      fold_left (fun acc row =>
        match place_of_name L (fst row) with
        | None => acc
        | Some from =>
            fold_left (fun a2 cv => dict_set place2_eqb a2 (from, fst cv) (Det (snd cv)))
                      (zip_cells hdr (snd row)) acc
        end) (dl_rows lg) []
  end.

Definition compile_inst (early : bool) : res (inst * labels) :=
  nmach <- nm ;;
  let ids0 := map fst (d_bufs d) in
  '(machs, mlabs, ids1) <- build_machines 0 nmach nmach ids0 ;;
  let amount := match d_log d with Some lg => dl_amount lg | None => None end in
  let '(trans, tlabs, ids2) := match amount with
                               | Some n => build_transports true n ids1
                               | None => build_transports false nj ids1 end in
  let '(bufs, blabs) :=
    match d_bufs d with
    | [] => let '(li, ids3) := take_id ids2 in
            let '(lo, _) := take_id ids3 in
            ([default_buf RInput; default_buf ROutput], [li; lo])
    | l => (map (fun e => custom_buf (snd e)) l, map fst l)
    end in
  let L := mkLabels blabs mlabs tlabs in
  jobs <- mapM (fun '(j, ops) =>
            mapM (fun '(k, md) =>
              let tool := match d_tools d with
                          | None => Ok 0%nat
                          | Some tu => match nth_error tu j with
                                       | Some ts => of_opt EPyIndex (nth_error ts k)
                                       | None => Err EInvalidValue end
                          end in
              t <- tool ;; Ok (mkOpCfg (fst md) (Det (snd md)) t))
              ((fix en (n : nat) (l : list (nat * Z)) := match l with [] => [] | a :: r => (n, a) :: en (S n) r end) 0%nat ops))
            ((fix en (n : nat) (l : list (list (nat * Z))) := match l with [] => [] | a :: r => (n, a) :: en (S n) r end) 0%nat (d_jobs d)) ;;
  (* self.buffer[1] is read for the output alias even when only one custom buffer exists *)
  _ <- (match bufs with _ :: _ :: _ => Ok tt | _ => Err EPyIndex end) ;;
  Ok (mkInst jobs machs trans bufs (travel_of L nmach (length bufs)) early, L).

(* ---------- initial state ---------- *)
Fixpoint dedup_nat (l : list nat) : list nat :=
  match l with
  | [] => []
  | h :: t => h :: filter (fun k => negb (Nat.eqb k h)) (dedup_nat t)
  end.

Definition empty_buf : buf := mkBuf [] FEmpty.

Definition init_state (i : inst) (L : labels) : res state :=
  let di := d_init d in
  (* _map_jobs: explicit location, else the input buffer (buffers[0]) *)
  let dflt := match lb_std L with l :: _ => l | [] => 0%nat end in
  let locs := map (fun j => match find (fun e => Nat.eqb (fst e) j) (di_jloc di) with
                            | Some (_, l) => l | None => dflt end) (seq 0 (length (i_jobs i))) in
  jobs <- mapM (fun '(ops, l) =>
            b <- of_opt EInvalidValue (label_to_bid L l) ;;
            Ok (mkJob (map (fun oc => mkOp (oc_mach oc) NoTime NoTime OIdle) ops) b))
            (combine (i_jobs i) locs) ;;
  let machs := map (fun mc => mkMachine MIdle NoTime empty_buf empty_buf empty_buf 0%nat
                                        (map (fun _ => OInactive NoTime) (mc_out mc))) (i_machs i) in
  let nmach := length (i_machs i) in
  trans <- mapM (fun '(t, ac) =>
             loc <- match find (fun e => Nat.eqb (fst e) t) (di_tloc di) with
                    | Some (_, p) => of_opt EInvalidValue (place_of_name L p)
                    | None => if Nat.eqb nmach 0 then Err EPyZeroDiv else Ok (PM (Nat.modulo t nmach))
                    end ;;
             Ok (mkTransport TIdle ONo empty_buf (LAt loc) None (map (fun _ => OInactive NoTime) (ac_out ac))))
             ((fix en (n : nat) (l : list acfg) := match l with [] => [] | a :: r => (n, a) :: en (S n) r end) 0%nat (i_trans i)) ;;
  (* buffers: the listed store in its order, then the jobs located here that were not listed
     (dict.fromkeys: first occurrence wins) *)
  let bufs := map (fun lab =>
                let here := flat_map (fun '(j, l) => if Nat.eqb l lab then [j] else [])
                              (combine (seq 0 (length locs)) locs) in
                match find (fun e => Nat.eqb (fst e) lab) (di_store di) with
                | Some (_, listed) =>
                    let st := dedup_nat (listed ++ here) in
                    mkBuf st (match st with [] => FEmpty | _ => FNotEmpty end)
                | None => mkBuf here (match here with [] => FEmpty | _ => FNotEmpty end)
                end) (lb_std L) in
  Ok (mkState jobs (match di_start di with Some z => z | None => 0 end) machs trans bufs []).

Definition compile (early : bool) : res (inst * state * labels) :=
  '(i, L) <- compile_inst early ;;
  x <- init_state i L ;;
  Ok (i, x, L).

End Compile.
