(* What each handler did to the state, in terms of lookups in the post-state ("post" lemmas).
   These are the one-step facts behind C02 C07 C08 C09 C10. *)
From Coq Require Import List ZArith Bool Arith Lia.
From JSL Require Import Base.Res Base.ListX SM.Types SM.Util SM.Handler SM.Step SM.Inv
  SMP.ListLemmas SMP.Frame SMP.WF SMP.Preserve SMP.Clock.
Import ListNotations.
Close Scope Z_scope.

Lemma tc_read_update_read sigma sto c v sto' : tc_read_update sigma sto c = Ok (v, sto') -> tc_read sto c = Ok v.
Proof.
  destruct c; simpl; intros H; [inversion H; auto|].
  destruct (sto_read sto id); simpl in *; [|discriminate]. destruct (sto_update sigma sto id); simpl in H; inversion H; auto.
Qed.

Lemma tc_update_read_read sigma sto c v sto' : tc_update_read sigma sto c = Ok (v, sto') -> tc_read sto' c = Ok v.
Proof.
  destruct c; simpl; intros H; [inversion H; auto|].
  destruct (sto_update sigma sto id) as [s1|]; simpl in H; [|discriminate].
  destruct (sto_read s1 id) eqn:E; simpl in H; inversion H; subst; auto.
Qed.

Section Post.
Variable sigma : oracle.
Variable i : inst.

(* machine record and job record after "move job, then set machine control fields" *)
Lemma after_move_and_ctl x0 j A B x1 m st oc tool outs :
  A <> B -> move_job i x0 j A B = Ok x1 ->
  forall k ms1, nth_error (s_machs x1) k = Some ms1 ->
  nth_error (s_machs (set_mach_ctl x1 m st oc tool outs)) k =
    Some (if Nat.eqb m k then mkMachine st oc (m_pre ms1) (m_in ms1) (m_post ms1) tool outs else ms1).
Proof. intros Hne Hm k ms1 Hk. rewrite set_mach_ctl_nth, Hk. destruct (Nat.eqb m k); reflexivity. Qed.

Lemma moved_job_record x0 j A B x1 jb0 :
  A <> B -> move_job i x0 j A B = Ok x1 -> nth_error (s_jobs x0) j = Some jb0 ->
  nth_error (s_jobs x1) j = Some (set_j_loc jb0 B).
Proof.
  intros Hne Hm Hj. pose proof (move_job_moved i _ _ _ _ _ Hne Hm) as M.
  destruct (mv_job _ _ _ _ _ _ M) as [jb [Hjb Hjobs]]. rewrite Hj in Hjb. inversion Hjb; subst jb.
  rewrite Hjobs. apply nth_upd_same. eapply nth_error_lt; eauto.
Qed.

Lemma put_job_same x j jb jb1 : nth_error (s_jobs x) j = Some jb -> nth_error (s_jobs (put_job x j jb1)) j = Some jb1.
Proof. intros H. unfold put_job; simpl. apply nth_upd_same. eapply nth_error_lt; eauto. Qed.

Lemma moved_target_store x0 j A B x1 b :
  A <> B -> move_job i x0 j A B = Ok x1 -> get_buf x0 B = Some b ->
  exists b', get_buf x1 B = Some b' /\ b_store b' = b_store b ++ [j].
Proof.
  intros Hne Hm Hb. pose proof (move_job_moved i _ _ _ _ _ Hne Hm) as M.
  destruct (mv_b _ _ _ _ _ _ M) as [b0 [b' [c [H1 [H2 [H3 H4]]]]]]. rewrite Hb in H1. inversion H1; subst b0.
  exists b'. split; auto. apply put_in_buffer_ok in H3. tauto.
Qed.

Lemma moved_source_store x0 j A B x1 a :
  A <> B -> move_job i x0 j A B = Ok x1 -> get_buf x0 A = Some a ->
  exists a', get_buf x1 A = Some a' /\ b_store a' = remove_nat j (b_store a) /\ mem_nat j (b_store a) = true.
Proof.
  intros Hne Hm Ha. pose proof (move_job_moved i _ _ _ _ _ Hne Hm) as M.
  destruct (mv_a _ _ _ _ _ _ M) as [a0 [a' [H1 [H2 H3]]]]. rewrite Ha in H1. inversion H1; subst a0.
  exists a'. split; auto. apply remove_from_buffer_ok in H2. tauto.
Qed.

(* frame of "put job j; move job j; set control fields of machine m": every other job, machine and all
   transports keep their records (machines/transports up to the buffers named in the move) *)
Lemma frame_jobs_move x0 j A B x1 j' :
  A <> B -> move_job i x0 j A B = Ok x1 -> j' <> j -> nth_error (s_jobs x1) j' = nth_error (s_jobs x0) j'.
Proof.
  intros Hne Hm Hj. pose proof (move_job_moved i _ _ _ _ _ Hne Hm) as M.
  destruct (mv_job _ _ _ _ _ _ M) as [jb [_ Hjobs]]. rewrite Hjobs. apply nth_upd_other. congruence.
Qed.

Lemma frame_jobs_put x j jb1 j' : j' <> j -> nth_error (s_jobs (put_job x j jb1)) j' = nth_error (s_jobs x) j'.
Proof. intros H. unfold put_job; simpl. apply nth_upd_other. congruence. Qed.

(* a machine other than those owning A or B is untouched by the move *)
Lemma frame_mach_move x0 j A B x1 m' :
  A <> B -> move_job i x0 j A B = Ok x1 ->
  (forall L, (L = BPre m' \/ L = BIn m' \/ L = BPost m') -> L <> A /\ L <> B) ->
  nth_error (s_machs x1) m' = nth_error (s_machs x0) m'.
Proof.
  intros Hne Hm Hout. pose proof (move_job_moved i _ _ _ _ _ Hne Hm) as M.
  destruct (nth_error (s_machs x1) m') as [ms1|] eqn:E1.
  - destruct (mv_machs _ _ _ _ _ _ M _ _ E1) as [ms0 [E0 [C1 [C2 [C3 C4]]]]]. rewrite E0. f_equal.
    assert (P : get_buf x1 (BPre m') = get_buf x0 (BPre m')) by (apply (mv_other _ _ _ _ _ _ M); apply Hout; auto).
    assert (Q : get_buf x1 (BIn m') = get_buf x0 (BIn m')) by (apply (mv_other _ _ _ _ _ _ M); apply Hout; auto).
    assert (R : get_buf x1 (BPost m') = get_buf x0 (BPost m')) by (apply (mv_other _ _ _ _ _ _ M); apply Hout; auto).
    simpl in P, Q, R. rewrite E1, E0 in P, Q, R. simpl in P, Q, R. inversion P; inversion Q; inversion R.
    destruct ms1, ms0; simpl in *; congruence.
  - apply nth_error_None in E1. rewrite (mv_len_m _ _ _ _ _ _ M) in E1. symmetry. apply nth_error_None. auto.
Qed.

(* ---------- IDLE -> SETUP (C09) ---------- *)
Theorem post_idle_setup x tr m ms x' :
  nth_error (s_machs x) m = Some ms -> h_m_idle_setup sigma i x tr m ms = Ok x' ->
  exists j jb k oc mc sc sd,
    tr_job tr = Some j /\ nth_error (s_jobs x) j = Some jb /\ first_not_done jb = Some k
    /\ get_opcfg i j k = Ok oc /\ nth_error (i_machs i) m = Some mc
    /\ setup_lookup (mc_setup mc) (m_tool ms) (oc_tool oc) = Some sc   (* matrix[(mounted tool, new tool)] *)
    /\ tc_read (s_sto x) sc = Ok sd
    /\ (exists ms', nth_error (s_machs x') m = Some ms' /\ m_st ms' = MSetup
          /\ m_occ ms' = Time (s_now x + sd)%Z /\ m_tool ms' = oc_tool oc
          /\ b_store (m_in ms') = b_store (m_in ms) ++ [j] /\ m_out ms' = m_out ms
          /\ b_store (m_pre ms') = remove_nat j (b_store (m_pre ms)) /\ m_post ms' = m_post ms)
    /\ (exists jb', nth_error (s_jobs x') j = Some jb' /\ j_loc jb' = BIn m
          /\ j_ops jb' = upd (j_ops jb) k (mkOp m (Time (s_now x)) (Time (s_now x + sd)%Z) OProc))
    /\ s_now x' = s_now x.
Proof.
  intros Hms H. unfold h_m_idle_setup in H. inv_all H. inversion H; subst; clear H.
  apply of_opt_ok in E, E2, E4, E5. apply get_job_ok in E0. apply guard_ok in E1.
  assert (Hne : BPre m <> BIn m) by congruence.
  pose proof (move_job_moved i _ _ _ _ _ Hne E7) as M.
  exists v, v0, v2, v3, v4, v5, z. repeat split; auto.
  - eapply tc_read_update_read; eauto.
  - assert (Hl : m < length (s_machs v6)) by (rewrite (mv_len_m _ _ _ _ _ _ M); simpl; eapply nth_error_lt; eauto).
    destruct (nth_error (s_machs v6) m) as [ms1|] eqn:E8; [|apply nth_error_None in E8; lia].
    destruct (moved_target_store _ _ _ _ _ (m_in ms) Hne E7) as [b' [Hb' Hs']].
    { rewrite get_buf_put_job. simpl. rewrite Hms. reflexivity. }
    destruct (moved_source_store _ _ _ _ _ (m_pre ms) Hne E7) as [a' [Ha' [Hsa _]]].
    { rewrite get_buf_put_job. simpl. rewrite Hms. reflexivity. }
    assert (Hpost : get_buf v6 (BPost m) = Some (m_post ms)).
    { rewrite (mv_other _ _ _ _ _ _ M) by congruence. rewrite get_buf_put_job. simpl. rewrite Hms. reflexivity. }
    simpl in Hb', Ha', Hpost. rewrite E8 in Hb', Ha', Hpost. simpl in Hb', Ha', Hpost.
    inversion Hb'; inversion Ha'; inversion Hpost.
    eexists. split.
    + simpl. rewrite set_mach_ctl_nth, E8, Nat.eqb_refl. reflexivity.
    + simpl. rewrite H0, H1, H2. repeat split; auto.
  - exists (set_j_loc (set_op v0 v2 (mkOp m (Time (s_now x)) (Time (s_now x + z)%Z) OProc)) (BIn m)).
    split; [|split; reflexivity].
    simpl. destruct (set_mach_ctl_other v6 m MSetup (Time (s_now x + z)%Z) (oc_tool v3) (m_out ms)) as [Hj _].
    rewrite Hj. eapply moved_job_record; eauto. eapply put_job_same; eauto.
  - simpl. destruct (set_mach_ctl_other v6 m MSetup (Time (s_now x + z)%Z) (oc_tool v3) (m_out ms)) as [_ [Hn _]].
    rewrite Hn, (mv_now _ _ _ _ _ _ M). reflexivity.
Qed.

(* ---------- SETUP -> WORKING (C02) ---------- *)
Theorem post_setup_working x tr m ms x' :
  nth_error (s_machs x) m = Some ms -> h_m_setup_working sigma i x tr m ms = Ok x' ->
  exists j jb k oc d,
    tr_job tr = Some j /\ nth_error (s_jobs x) j = Some jb /\ first_not_done jb = Some k
    /\ get_opcfg i j k = Ok oc /\ tc_read (s_sto x') (oc_dur oc) = Ok d     (* the value sampled now *)
    /\ nth_error (s_machs x') m = Some (mkMachine MWorking (Time (s_now x + d)%Z) (m_pre ms) (m_in ms) (m_post ms) (m_tool ms) (m_out ms))
    /\ nth_error (s_jobs x') j = Some (set_op jb k (mkOp m (Time (s_now x)) (Time (s_now x + d)%Z) OProc))
    /\ s_now x' = s_now x /\ mem_nat j (b_store (m_in ms)) = true.
Proof.
  intros Hms H. unfold h_m_setup_working in H. inv_all H. inversion H; subst; clear H.
  apply of_opt_ok in E, E2. apply get_job_ok in E0. apply guard_ok in E1.
  exists v, v0, v2, v3, z. repeat split; auto.
  - simpl. eapply tc_update_read_read; eauto.
  - simpl. rewrite set_mach_ctl_nth. simpl. rewrite Hms, Nat.eqb_refl. reflexivity.
  - simpl. match goal with |- nth_error (s_jobs (set_mach_ctl ?y ?a ?b ?c ?d ?e)) _ = _ =>
      destruct (set_mach_ctl_other y a b c d e) as [Hj _]; rewrite Hj end. eapply put_job_same; eauto.
  - simpl. match goal with |- s_now (set_mach_ctl ?y ?a ?b ?c ?d ?e) = _ =>
      destruct (set_mach_ctl_other y a b c d e) as [_ [Hn _]]; rewrite Hn end. reflexivity.
Qed.

(* ---------- WORKING -> OUTAGE (C02, C10) ---------- *)
Theorem post_working_outage x tr m ms x' :
  nth_error (s_machs x) m = Some ms -> h_m_working_outage sigma i x tr m ms = Ok x' ->
  exists mc outs sto' occ_for j jb k o,
    nth_error (i_machs i) m = Some mc
    /\ new_outage_states sigma (s_now x) (s_sto x) (mc_out mc) (m_out ms) = Ok (outs, sto')
    /\ occupied_time outs = Ok occ_for         (* the longest simultaneously active outage *)
    /\ tr_job tr = Some j /\ nth_error (s_jobs x) j = Some jb /\ first_proc jb = Some k /\ nth_error (j_ops jb) k = Some o
    /\ nth_error (s_machs x') m = Some (mkMachine MOutage (Time (s_now x + occ_for)%Z) (m_pre ms) (m_in ms) (m_post ms) (m_tool ms) outs)
    /\ nth_error (s_jobs x') j = Some (set_op jb k (set_op_end o (Time (s_now x + occ_for)%Z)))
    /\ s_now x' = s_now x.
Proof.
  intros Hms H. unfold h_m_working_outage in H. inv_all H. inversion H; subst; clear H.
  apply of_opt_ok in E, E2, E4, E5. apply get_job_ok in E3.
  exists v, l, l0, v0, v1, v2, v3, v4. repeat split; auto.
  - simpl. rewrite set_mach_ctl_nth. simpl. rewrite Hms, Nat.eqb_refl. reflexivity.
  - simpl. match goal with |- nth_error (s_jobs (set_mach_ctl ?y ?a ?b ?c ?d ?e)) _ = _ =>
      destruct (set_mach_ctl_other y a b c d e) as [Hj _]; rewrite Hj end. eapply put_job_same; eauto.
  - simpl. match goal with |- s_now (set_mach_ctl ?y ?a ?b ?c ?d ?e) = _ =>
      destruct (set_mach_ctl_other y a b c d e) as [_ [Hn _]]; rewrite Hn end. reflexivity.
Qed.

(* ---------- OUTAGE -> IDLE (C02, C08, C10) ---------- *)
Theorem post_outage_idle x tr m ms x' :
  nth_error (s_machs x) m = Some ms -> h_m_outage_idle i x tr m ms = Ok x' ->
  exists j jb k o,
    hd_error (b_store (m_in ms)) = Some j /\ nth_error (s_jobs x) j = Some jb
    /\ first_proc jb = Some k /\ nth_error (j_ops jb) k = Some o
    /\ (exists ms', nth_error (s_machs x') m = Some ms' /\ m_st ms' = MIdle
          /\ m_out ms' = map release_outage (m_out ms) /\ m_tool ms' = m_tool ms /\ m_occ ms' = m_occ ms
          /\ b_store (m_post ms') = b_store (m_post ms) ++ [j]          (* joins at the back *)
          /\ b_store (m_in ms') = remove_nat j (b_store (m_in ms)) /\ m_pre ms' = m_pre ms)
    /\ (exists jb', nth_error (s_jobs x') j = Some jb' /\ j_loc jb' = BPost m
          /\ j_ops jb' = upd (j_ops jb) k (mkOp (o_mach o) (o_start o) (Time (s_now x)) ODone))
    /\ s_now x' = s_now x.
Proof.
  intros Hms H. unfold h_m_outage_idle in H. inv_all H. inversion H; subst; clear H.
  apply of_opt_ok in E, E1, E2. apply get_job_ok in E0.
  assert (Hne : BIn m <> BPost m) by congruence.
  pose proof (move_job_moved i _ _ _ _ _ Hne E4) as M.
  exists v, v0, v1, v2. repeat split; auto.
  - assert (Hl : m < length (s_machs v4)) by (rewrite (mv_len_m _ _ _ _ _ _ M); simpl; eapply nth_error_lt; eauto).
    destruct (nth_error (s_machs v4) m) as [ms1|] eqn:E8; [|apply nth_error_None in E8; lia].
    destruct (moved_target_store _ _ _ _ _ (m_post ms) Hne E4) as [b' [Hb' Hs']].
    { rewrite get_buf_put_job. simpl. rewrite Hms. reflexivity. }
    destruct (moved_source_store _ _ _ _ _ (m_in ms) Hne E4) as [a' [Ha' [Hsa _]]].
    { rewrite get_buf_put_job. simpl. rewrite Hms. reflexivity. }
    assert (Hpre : get_buf v4 (BPre m) = Some (m_pre ms)).
    { rewrite (mv_other _ _ _ _ _ _ M) by congruence. rewrite get_buf_put_job. simpl. rewrite Hms. reflexivity. }
    simpl in Hb', Ha', Hpre. rewrite E8 in Hb', Ha', Hpre. simpl in Hb', Ha', Hpre.
    inversion Hb'; inversion Ha'; inversion Hpre.
    eexists. split.
    + rewrite set_mach_ctl_nth, E8, Nat.eqb_refl. reflexivity.
    + simpl. rewrite H0, H1, H2. repeat split; auto.
  - exists (set_j_loc (set_op v0 v1 (mkOp (o_mach v2) (o_start v2) (Time (s_now x)) ODone)) (BPost m)).
    split; [|split; reflexivity].
    match goal with |- nth_error (s_jobs (set_mach_ctl ?y ?a ?b ?c ?d ?e)) _ = _ =>
      destruct (set_mach_ctl_other y a b c d e) as [Hj _]; rewrite Hj end.
    eapply moved_job_record; eauto. eapply put_job_same; eauto.
  - match goal with |- s_now (set_mach_ctl ?y ?a ?b ?c ?d ?e) = _ =>
      destruct (set_mach_ctl_other y a b c d e) as [_ [Hn _]]; rewrite Hn end.
    rewrite (mv_now _ _ _ _ _ _ M). reflexivity.
Qed.

(* ---------- AGV dispatch (C07) ---------- *)
Theorem post_dispatch x tr t ts x' :
  nth_error (s_trans x) t = Some ts -> h_t_idle_working i x tr t ts = Ok x' ->
  exists j p jb target c ttp,
    tr_job tr = Some j /\ t_loc ts = LAt p /\ nth_error (s_jobs x) j = Some jb /\ dest_idle i jb = Ok target
    /\ travel_lookup (i_travel i) p (place_of_bid (j_loc jb)) = Some c    (* from where it stands to the job *)
    /\ tc_read (s_sto x) c = Ok ttp
    /\ nth_error (s_trans x') t =
         Some (mkTransport TPickup (OAt (s_now x + ttp)%Z) (t_buf ts) (LRoute p (j_loc jb) target) (Some j) (t_out ts))
    /\ s_now x' = s_now x /\ s_jobs x' = s_jobs x /\ s_machs x' = s_machs x /\ s_bufs x' = s_bufs x.
Proof.
  intros Hts H. unfold h_t_idle_working in H. inv_all H. inversion H; subst; clear H.
  apply of_opt_ok in E, E5. apply get_job_ok in E1.
  destruct (t_loc ts) as [p|] eqn:El; [|discriminate]. inversion E0; subst v0.
  assert (Esrc : v4 = place_of_bid (j_loc v1)) by (destruct (j_loc v1); inversion E4; reflexivity).
  subst v4.
  destruct (set_trans_ctl_other x t TPickup (OAt (s_now x + v6)%Z) (LRoute p (j_loc v1) v2) (Some v) (t_out ts))
    as [H1 [H2 [H3 [H4 _]]]].
  exists v, p, v1, v2, v5, v6. repeat split; auto.
  rewrite set_trans_ctl_nth, Hts, Nat.eqb_refl. reflexivity.
Qed.

(* ---------- pickup: -> TRANSIT (C07, C08) ---------- *)
Theorem post_to_transit x tr t ts x' :
  nth_error (s_trans x) t = Some ts -> h_t_to_transit sigma i x tr t ts = Ok x' ->
  exists j jb sb sc,
    tr_job tr = Some j /\ nth_error (s_jobs x) j = Some jb /\ get_buf x (j_loc jb) = Some sb
    /\ get_bcfg i (j_loc jb) = Some sc /\
    ((* the job is not at the position the buffer's discipline releases: the AGV keeps waiting *)
     (exists p, index_of j (b_store sb) = Some p /\ is_correct_position (Some p) (length (b_store sb)) (bc_type sc) = Ok false
                /\ h_t_waiting_waiting i x tr t ts = Ok x')
     \/
     (* the job is taken: travel time from where it lies to where it has to go *)
     (exists dst c trv,
        (forall p, index_of j (b_store sb) = Some p -> is_correct_position (Some p) (length (b_store sb)) (bc_type sc) = Ok true)
        /\ dest_not_done i jb = Ok dst
        /\ travel_lookup (i_travel i) (place_of_bid (j_loc jb)) dst = Some c /\ tc_read (s_sto x') c = Ok trv
        /\ (exists ts', nth_error (s_trans x') t = Some ts' /\ t_st ts' = TTransit /\ t_occ ts' = OAt (s_now x + trv)%Z
              /\ b_store (t_buf ts') = b_store (t_buf ts) ++ [j] /\ t_loc ts' = t_loc ts /\ t_job ts' = t_job ts)
        /\ (exists sb', get_buf x' (j_loc jb) = Some sb' /\ b_store sb' = remove_nat j (b_store sb))
        /\ nth_error (s_jobs x') j = Some (set_j_loc jb (BAgv t)) /\ s_now x' = s_now x)).
Proof.
  intros Hts H. unfold h_t_to_transit in H.
  inv1 H. inv1 H. inv1 H. inv1 H. inv1 H.
  apply of_opt_ok in E, E1, E2. apply get_job_ok in E0.
  exists v, v0, v1, v2. repeat split; auto.
  inv1 H.
  - left. destruct (index_of v (b_store v1)) as [p|]; [|discriminate].
    destruct (is_correct_position (Some p) (length (b_store v1)) (bc_type v2)) as [cp|] eqn:Ecp; simpl in E3; [|discriminate].
    inversion E3. destruct cp; [discriminate|]. exists p. repeat split; auto.
  - right. inv_all H. inversion H; subst; clear H.
    assert (Hne : j_loc v0 <> BAgv t) by (intros Eq; rewrite Eq in *; discriminate).
    match goal with E : move_job _ _ _ _ _ = Ok ?y |- _ =>
      pose proof (move_job_moved i _ _ _ _ _ Hne E) as M; rename E into Emv; rename y into x1 end.
    match goal with E : travel_from_spec _ _ _ _ _ = Ok _ |- _ => rename E into Etr end.
    match goal with E : dest_not_done _ _ = Ok _ |- _ => rename E into Edst end.
    assert (Hc : exists c, travel_lookup (i_travel i) (place_of_bid (j_loc v0)) v4 = Some c
                           /\ tc_update_read sigma (s_sto x) c = Ok (z, l)).
    { unfold travel_from_spec in Etr.
      destruct (place_of_bid (j_loc v0)) eqn:Ep, v4 eqn:Ed; try discriminate;
        (destruct (travel_lookup (i_travel i) _ _) as [c|] eqn:Etl; simpl in Etr; [|discriminate]; exists c; split; auto). }
    destruct Hc as [c [Hc1 Hc2]].
    exists v4, c, z. repeat split; auto.
    + intros p Hp. rewrite Hp in E3. destruct (is_correct_position (Some p) _ _) as [cp|] eqn:Ecp; simpl in E3; [|discriminate].
      inversion E3. destruct cp; auto; discriminate.
    + simpl. eapply tc_update_read_read; eauto.
    + assert (Hl : t < length (s_trans x1)) by (rewrite (mv_len_t _ _ _ _ _ _ M); eapply nth_error_lt; eauto).
      destruct (nth_error (s_trans x1) t) as [ts1|] eqn:E8; [|apply nth_error_None in E8; lia].
      destruct (moved_target_store _ _ _ _ _ (t_buf ts) Hne Emv) as [b' [Hb' Hs']].
      { simpl. rewrite Hts. reflexivity. }
      simpl in Hb'. rewrite E8 in Hb'. simpl in Hb'. inversion Hb'.
      eexists. split; [simpl; rewrite set_trans_ctl_nth, E8, Nat.eqb_refl; reflexivity|].
      simpl. rewrite H0. repeat split; auto.
    + destruct (moved_source_store _ _ _ _ _ v1 Hne Emv E1) as [a' [Ha' [Hsa _]]].
      exists a'. split; auto. unfold with_sto. rewrite get_buf_set_sto, get_buf_set_trans_ctl. auto.
    + simpl. destruct (set_trans_ctl_other x1 t TTransit (OAt (s_now x + z)%Z) (t_loc ts) (t_job ts) (t_out ts)) as [Hj _].
      rewrite Hj. eapply moved_job_record; eauto.
    + simpl. destruct (set_trans_ctl_other x1 t TTransit (OAt (s_now x + z)%Z) (t_loc ts) (t_job ts) (t_out ts)) as [_ [Hn _]].
      rewrite Hn, (mv_now _ _ _ _ _ _ M). reflexivity.
Qed.

(* ---------- delivery: TRANSIT -> OUTAGE (C07, C10) ---------- *)
Theorem post_deliver x tr t ts x' :
  nth_error (s_trans x) t = Some ts -> h_t_transit_outage sigma i x tr t ts = Ok x' ->
  exists j jb cur src dst ac B outs sto' occ_for,
    tr_job tr = Some j /\ nth_error (s_jobs x) j = Some jb /\ t_loc ts = LRoute cur src dst
    /\ nth_error (i_trans i) t = Some ac
    /\ B = (match dst with PM m => BPre m | PB n => BStd n | PT k => BAgv k end)    (* the route's destination *)
    /\ new_outage_states sigma (s_now x) (s_sto x) (ac_out ac) (t_out ts) = Ok (outs, sto')
    /\ occupied_time outs = Ok occ_for
    /\ (exists ts', nth_error (s_trans x') t = Some ts' /\ t_st ts' = TOutage /\ t_occ ts' = OAt (s_now x + occ_for)%Z
          /\ t_loc ts' = LAt dst /\ t_job ts' = None /\ t_out ts' = outs
          /\ b_store (t_buf ts') = remove_nat j (b_store (t_buf ts)))
    /\ (forall b, get_buf x B = Some b -> exists b', get_buf x' B = Some b' /\ b_store b' = b_store b ++ [j])
    /\ nth_error (s_jobs x') j = Some (set_j_loc jb B) /\ s_now x' = s_now x.
Proof.
  intros Hts H. unfold h_t_transit_outage in H. inv_all H. inversion H; subst; clear H.
  apply of_opt_ok in E, E2. apply get_job_ok in E0.
  destruct (t_loc ts) as [|cur src dst] eqn:El; [discriminate|]. inversion E1; subst v1.
  match goal with E : move_job _ _ _ (BAgv t) ?B = Ok ?y |- _ => rename E into Emv; rename y into x1; rename B into B0 end.
  assert (HB : B0 = (match dst with PM m => BPre m | PB n => BStd n | PT k => BAgv k end) /\ BAgv t <> B0).
  { match goal with E' : match dst with PM _ => _ | PB _ => _ | PT _ => _ end = Ok B0 |- _ =>
      destruct dst; inv_all E'; inversion E'; subst; split; congruence end. }
  destruct HB as [HB Hne].
  pose proof (move_job_moved i _ _ _ _ _ Hne Emv) as M.
  exists v, v0, cur, src, dst, v2, B0, l, l0, v5. repeat split; auto.
  - assert (Hl : t < length (s_trans x1)) by (rewrite (mv_len_t _ _ _ _ _ _ M); eapply nth_error_lt; eauto).
    destruct (nth_error (s_trans x1) t) as [ts1|] eqn:E8; [|apply nth_error_None in E8; lia].
    destruct (moved_source_store _ _ _ _ _ (t_buf ts) Hne Emv) as [a' [Ha' [Hsa _]]].
    { simpl. rewrite Hts. reflexivity. }
    simpl in Ha'. rewrite E8 in Ha'. simpl in Ha'. inversion Ha'.
    eexists. split; [simpl; rewrite set_trans_ctl_nth, E8, Nat.eqb_refl; reflexivity|].
    simpl. rewrite H0. repeat split; auto.
  - intros b Hb. destruct (moved_target_store _ _ _ _ _ b Hne Emv Hb) as [b' [Hb' Hs']].
    exists b'. split; auto. unfold with_sto. rewrite get_buf_set_sto, get_buf_set_trans_ctl. auto.
  - simpl. match goal with |- nth_error (s_jobs (set_trans_ctl ?y ?a ?b ?c ?d ?e ?f)) _ = _ =>
      destruct (set_trans_ctl_other y a b c d e f) as [Hj _]; rewrite Hj end. eapply moved_job_record; eauto.
  - simpl. match goal with |- s_now (set_trans_ctl ?y ?a ?b ?c ?d ?e ?f) = _ =>
      destruct (set_trans_ctl_other y a b c d e f) as [_ [Hn _]]; rewrite Hn end.
    rewrite (mv_now _ _ _ _ _ _ M). reflexivity.
Qed.

End Post.
