(* List facts for the time-dependency invariant: "a occurs before b" in a store, under appending at the back and
   removing a third element; the job at the release position of an ordered buffer is not behind another one. *)
From Coq Require Import List Arith Bool Lia.
From JSL Require Import Base.Res Base.ListX SM.Types SM.Util SM.Inv SMP.ListLemmas.
Import ListNotations.

Definition before (a b : nat) (l : list nat) : Prop := exists l1 l2 l3, l = l1 ++ a :: l2 ++ b :: l3.

Lemma before_in a b l : before a b l -> In a l /\ In b l.
Proof.
  intros [l1 [l2 [l3 ->]]]. split; apply in_app_iff; right; [left; reflexivity|right; apply in_app_iff; right; left; reflexivity].
Qed.

Lemma before_app_r a b l r : before a b l -> before a b (l ++ r).
Proof. intros [l1 [l2 [l3 ->]]]. exists l1, l2, (l3 ++ r). rewrite <- !app_assoc. simpl. rewrite <- app_assoc. reflexivity. Qed.

Lemma remove_nat_app c l r : remove_nat c (l ++ r) = remove_nat c l ++ remove_nat c r.
Proof. unfold remove_nat. apply filter_app. Qed.

Lemma remove_nat_cons_ne c a l : a <> c -> remove_nat c (a :: l) = a :: remove_nat c l.
Proof. intros H. unfold remove_nat. simpl. destruct (Nat.eqb_spec a c); [congruence|reflexivity]. Qed.

Lemma before_remove a b c l : before a b l -> a <> c -> b <> c -> before a b (remove_nat c l).
Proof.
  intros [l1 [l2 [l3 ->]]] Ha Hb. exists (remove_nat c l1), (remove_nat c l2), (remove_nat c l3).
  rewrite remove_nat_app, remove_nat_cons_ne, remove_nat_app, remove_nat_cons_ne by auto. reflexivity.
Qed.

Lemma before_neq a b l : NoDup l -> before a b l -> a <> b.
Proof.
  intros N [l1 [l2 [l3 ->]]] ->. apply NoDup_remove_2 in N. apply N. apply in_app_iff. right. apply in_app_iff. right. left. reflexivity.
Qed.

(* the head is not behind anything *)
Lemma before_not_head a b l : NoDup l -> before a b l -> hd_error l <> Some b.
Proof.
  intros N [l1 [l2 [l3 E]]] H. subst l. destruct l1 as [|h r]; simpl in H; inversion H; subst.
  - apply NoDup_cons_iff in N. destruct N as [N _]. apply N. apply in_app_iff. right. left. reflexivity.
  - simpl in N. apply NoDup_cons_iff in N. destruct N as [N _]. apply N. apply in_app_iff. right. right. apply in_app_iff. right. left. reflexivity.
Qed.

Lemma last_app_cons {A} (l : list A) a r d : last (l ++ a :: r) d = last (a :: r) d.
Proof. induction l as [|h t IH]; [reflexivity|]. simpl app. rewrite <- IH. destruct (t ++ a :: r) eqn:E; [destruct t; discriminate|reflexivity]. Qed.

Lemma last_in {A} (a : A) r d : In (last (a :: r) d) (a :: r).
Proof.
  revert a. induction r as [|h t IH]; intros a; [left; reflexivity|]. right. change (In (last (h :: t) d) (h :: t)). apply IH.
Qed.

(* the last element is not in front of anything *)
Lemma before_not_last a b l d : NoDup l -> before a b l -> last l d <> a.
Proof.
  intros N [l1 [l2 [l3 E]]] H. subst l.
  replace (l1 ++ a :: l2 ++ b :: l3) with ((l1 ++ a :: l2) ++ b :: l3) in H by (rewrite <- app_assoc; reflexivity).
  rewrite last_app_cons in H. pose proof (last_in b l3 d) as Hin. rewrite H in Hin.
  apply NoDup_remove_2 in N. apply N. apply in_app_iff. right. apply in_app_iff. right. exact Hin.
Qed.

Lemma fifo_before h j l : In j l -> hd_error l = Some h -> j <> h -> before h j l.
Proof.
  intros Hin Hh Hn. destruct l as [|h' t]; [destruct Hin|]. simpl in Hh. inversion Hh; subst h'.
  destruct Hin as [E|Hin]; [congruence|]. destruct (in_split _ _ Hin) as [t1 [t2 ->]]. exists [], t1, t2. reflexivity.
Qed.

Lemma lifo_before j l d : In j l -> j <> last l d -> before j (last l d) l.
Proof.
  intros Hin Hn. destruct (in_split _ _ Hin) as [l1 [r ->]].
  destruct r as [|r0 rs].
  - exfalso. apply Hn. rewrite last_app_cons. reflexivity.
  - destruct (exists_last (l := r0 :: rs) ltac:(discriminate)) as [r' [z Er]]. rewrite Er.
    replace (l1 ++ j :: r' ++ [z]) with ((l1 ++ j :: r') ++ [z]) by (rewrite <- app_assoc; reflexivity).
    rewrite last_last. exists l1, r', []. rewrite <- app_assoc. reflexivity.
Qed.

Lemma index_of_head j t : index_of j (j :: t) = Some 0.
Proof. simpl. rewrite Nat.eqb_refl. reflexivity. Qed.

Lemma index_of_app_notin z l r : ~ In z l -> index_of z (l ++ r) = option_map (Nat.add (length l)) (index_of z r).
Proof.
  induction l as [|h t IH]; intros Hn; simpl.
  - destruct (index_of z r); reflexivity.
  - destruct (Nat.eqb_spec h z) as [->|Hd]; [exfalso; apply Hn; left; reflexivity|].
    rewrite IH by (intros Hi; apply Hn; right; exact Hi). destruct (index_of z r); reflexivity.
Qed.

Lemma index_of_last l d : NoDup l -> l <> [] -> index_of (last l d) l = Some (length l - 1).
Proof.
  intros N Hne. destruct (exists_last Hne) as [l' [z ->]]. rewrite last_last.
  assert (Hn : ~ In z l').
  { intros Hi. apply NoDup_remove_2 in N. apply N. rewrite app_nil_r. exact Hi. }
  rewrite index_of_app_notin by auto. simpl. rewrite Nat.eqb_refl. simpl. rewrite app_length. simpl. f_equal. lia.
Qed.

(* counting: at most one occurrence of everything = no duplicates *)
Lemma count_le_one_NoDup l : (forall j, count_nat j l <= 1) -> NoDup l.
Proof.
  induction l as [|h t IH]; intros H; [constructor|]. constructor.
  - intros Hin. specialize (H h). simpl in H. rewrite Nat.eqb_refl in H. apply mem_nat_In in Hin. apply mem_count in Hin. lia.
  - apply IH. intros j. specialize (H j). simpl in H. destruct (Nat.eqb h j); lia.
Qed.

(* ---------- ordered buffers: "k has to leave before j can" ---------- *)
Definition rel_ok (ty : btype) (l : list nat) (k j : nat) : Prop :=
  match ty with Lifo => before j k l | Flex => False | _ => before k j l end.

Lemma rel_app ty l r k j : rel_ok ty l k j -> rel_ok ty (l ++ r) k j.
Proof. destruct ty; simpl; auto using before_app_r. Qed.

Lemma rel_remove ty l c k j : rel_ok ty l k j -> k <> c -> j <> c -> rel_ok ty (remove_nat c l) k j.
Proof. destruct ty; simpl; auto using before_remove. Qed.

Lemma rel_in ty l k j : rel_ok ty l k j -> In k l /\ In j l.
Proof. destruct ty; simpl; intros H; try (apply before_in in H); tauto. Qed.

Lemma rel_not_next ty b k j : NoDup (b_store b) -> rel_ok ty (b_store b) k j -> get_next_job_from_buffer b ty <> Some j.
Proof.
  intros N R. unfold get_next_job_from_buffer. destruct (b_store b) as [|h t] eqn:E.
  - destruct (rel_in _ _ _ _ R) as [[] _].
  - destruct ty; simpl in R.
    + intros H. apply (before_not_head _ _ _ N R). simpl. congruence.
    + intros H. inversion H as [H1]. apply (before_not_last _ _ _ h N R). exact H1.
    + destruct R.
    + intros H. apply (before_not_head _ _ _ N R). simpl. congruence.
Qed.

Lemma index_of_nth j l p : index_of j l = Some p -> nth_error l p = Some j.
Proof.
  revert p. induction l as [|h t IH]; intros p H; simpl in H; [discriminate|].
  destruct (Nat.eqb_spec h j) as [->|Hn]; [inversion H; reflexivity|].
  destruct (index_of j t) as [q|]; [|discriminate]. inversion H; subst. simpl. apply IH. reflexivity.
Qed.

Lemma index_of_some_in j l p : index_of j l = Some p -> In j l.
Proof. intros H. eapply nth_error_In. eapply index_of_nth; eauto. Qed.

Lemma index_of_in j l : In j l -> exists p, index_of j l = Some p /\ p < length l.
Proof.
  induction l as [|h r IH]; intros H; [destruct H|]. simpl.
  destruct (Nat.eqb_spec h j) as [->|Hn].
  - exists 0. split; [reflexivity|simpl; lia].
  - destruct H as [H|H]; [congruence|]. destruct (IH H) as [p [Hp Hl]]. rewrite Hp. exists (S p). split; [reflexivity|simpl; lia].
Qed.

(* not at the release position: the job at the release position has to leave first *)
Lemma not_ready_rel ty b j nxt :
  In j (b_store b) -> NoDup (b_store b) ->
  is_correct_position (index_of j (b_store b)) (length (b_store b)) ty = Ok false ->
  get_next_job_from_buffer b ty = Some nxt -> rel_ok ty (b_store b) nxt j.
Proof.
  intros Hin N Hc Hn. unfold get_next_job_from_buffer in Hn. destruct (b_store b) as [|h t] eqn:E; [destruct Hin|].
  destruct (index_of_in _ _ Hin) as [p [Hp Hl]]. rewrite Hp in Hc. unfold is_correct_position in Hc.
  change (Nat.eqb (length (h :: t)) 0) with false in Hc. cbv iota in Hc.
  destruct ty; unfold rel_ok.
  - injection Hn as <-. apply fifo_before; auto. intros ->. rewrite index_of_head in Hp. inversion Hp; subst p. discriminate.
  - replace nxt with (last (h :: t) h) by congruence. clear Hn. apply lifo_before; auto. intros Ej.
    pose proof (index_of_last (h :: t) h N ltac:(discriminate)) as Hlast. rewrite <- Ej, Hp in Hlast. inversion Hlast as [Hpp].
    inversion Hc as [Hb]. rewrite Hpp, Nat.eqb_refl in Hb. discriminate.
  - inversion Hc as [Hb]. apply Nat.ltb_ge in Hb. simpl in Hb, Hl. lia.
  - injection Hn as <-. apply fifo_before; auto. intros ->. rewrite index_of_head in Hp. inversion Hp; subst p. discriminate.
Qed.

Lemma nth_last {A} (l : list A) d : l <> [] -> nth_error l (length l - 1) = Some (last l d).
Proof.
  intros Hne. destruct (exists_last Hne) as [l' [z ->]]. rewrite last_last, app_length. simpl.
  replace (length l' + 1 - 1) with (length l') by lia. rewrite nth_error_app2 by lia. rewrite Nat.sub_diag. reflexivity.
Qed.

(* at the release position of an ordered buffer: it is the job the buffer releases next *)
Lemma ready_is_next ty b j :
  In j (b_store b) -> is_correct_position (index_of j (b_store b)) (length (b_store b)) ty = Ok true -> ty <> Flex ->
  get_next_job_from_buffer b ty = Some j.
Proof.
  intros Hin Hc Hf. unfold get_next_job_from_buffer. destruct (b_store b) as [|h t] eqn:E; [destruct Hin|].
  destruct (index_of_in _ _ Hin) as [p [Hp Hl]]. rewrite Hp in Hc. unfold is_correct_position in Hc.
  change (Nat.eqb (length (h :: t)) 0) with false in Hc. cbv iota in Hc.
  destruct ty; try congruence.
  - destruct p; [|discriminate]. apply index_of_nth in Hp. simpl in Hp. congruence.
  - inversion Hc as [Hb]. apply Nat.eqb_eq in Hb. apply index_of_nth in Hp.
    pose proof (nth_last (h :: t) h ltac:(discriminate)) as Hnl.
    replace (length (h :: t) - 1) with p in Hnl by (simpl in *; lia). congruence.
  - destruct p; [|discriminate]. apply index_of_nth in Hp. simpl in Hp. congruence.
Qed.

(* ---------- the boolean reading ---------- *)
Lemma before_before_b a b l : NoDup l -> before a b l -> before_b a b l = true.
Proof.
  intros N [l1 [l2 [l3 ->]]]. unfold before_b.
  assert (Ha : ~ In a l1).
  { intros Hi. apply NoDup_remove_2 in N. apply N. apply in_app_iff. left. exact Hi. }
  assert (Hb1 : ~ In b l1).
  { intros Hi. replace (l1 ++ a :: l2 ++ b :: l3) with ((l1 ++ a :: l2) ++ b :: l3) in N by (rewrite <- app_assoc; reflexivity).
    apply NoDup_remove_2 in N. apply N. apply in_app_iff. left. apply in_app_iff. left. exact Hi. }
  assert (Hab : a <> b).
  { apply (before_neq a b (l1 ++ a :: l2 ++ b :: l3) N). exists l1, l2, l3. reflexivity. }
  assert (Hb2 : ~ In b l2).
  { intros Hi. replace (l1 ++ a :: l2 ++ b :: l3) with ((l1 ++ a :: l2) ++ b :: l3) in N by (rewrite <- app_assoc; reflexivity).
    apply NoDup_remove_2 in N. apply N. apply in_app_iff. left. apply in_app_iff. right. right. exact Hi. }
  rewrite (index_of_app_notin a l1 _ Ha). rewrite index_of_head. simpl.
  rewrite (index_of_app_notin b l1 _ Hb1). simpl. destruct (Nat.eqb_spec a b) as [E|_]; [contradiction|].
  rewrite (index_of_app_notin b l2 _ Hb2). rewrite index_of_head. simpl. apply Nat.ltb_lt. lia.
Qed.

Lemma rel_ok_rel_ok_b ty l k j : NoDup l -> rel_ok ty l k j -> rel_ok_b ty l k j = true.
Proof. destruct ty; simpl; intros N H; try (apply before_before_b; auto); destruct H. Qed.
