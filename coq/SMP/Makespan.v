(* C04, last sentence: on termination the clock - hence the reported time and info["makespan"] (env_makespan = the clock) - IS the latest
   completion time recorded in the schedule. No invariant is needed: the step function sets the clock to the maximum DONE end when it
   finds all work delivered, and every other way to a result keeps the state. *)
From Coq Require Import List ZArith Bool Arith Lia.
From JSL Require Import Base.Res Base.ListX SM.Types SM.Util SM.Handler SM.Step SM.Middleware SMP.StepInv.
Import ListNotations.
Open Scope Z_scope.

Section M.
Variable sigma : oracle.
Variable i : inst.

(* the clock of a state in which all work is delivered is the latest completion (or nothing was ever completed: no operations) *)
Definition clock_is_latest (x : state) : Prop :=
  all_in_output i x = true -> max_done_end x = Ok (Some (s_now x)) \/ max_done_end x = Ok None.

Lemma all_in_output_set_now x z : all_in_output i (set_now x z) = all_in_output i x.
Proof. reflexivity. Qed.
Lemma max_done_end_set_now x z : max_done_end (set_now x z) = max_done_end x.
Proof. reflexivity. Qed.

Lemma exit_latest x x' offers lg lg' :
  (if all_in_output i x
   then match max_done_end x with
        | Ok (Some z) => SOk (set_now x z) [] lg
        | Ok None => SOk x [] lg
        | Err e => SRaise e end
   else match get_possible_transitions i x with
        | Ok offers => SOk x offers lg
        | Err e => SRaise e end) = SOk x' offers lg' -> clock_is_latest x'.
Proof.
  intros H Hout. destruct (all_in_output i x) eqn:Eo.
  - destruct (max_done_end x) as [[z|]|] eqn:Em; [| |discriminate]; injection H as E1 E2 E3; subst x'.
    + left. rewrite max_done_end_set_now. exact Em.
    + right. exact Em.
  - destruct (get_possible_transitions i x); [|discriminate]. injection H as E1 E2 E3. subst x'. congruence.
Qed.

Lemma timed_loop_latest : forall fuel x0 x timed lg x' offers lg',
  timed_loop sigma i fuel x0 x timed lg = SOk x' offers lg' -> clock_is_latest x'.
Proof.
  induction fuel as [|f IH]; intros x0 x timed lg x' offers lg' H.
  - destruct timed; simpl in H; [eapply exit_latest; eauto|discriminate].
  - destruct timed as [|tr r]; [simpl in H; eapply exit_latest; eauto|]. cbn [timed_loop] in H.
    destruct (process_transitions sigma i (tr :: r) x 0 lg) as [[[x1 nerr] lg1]|]; [|discriminate].
    destruct (Nat.ltb 0 nerr); [discriminate|]. destruct (jump_to_event i x1) as [t|]; [|discriminate].
    destruct (create_timed_transitions i (set_now x1 t)); [|discriminate]. eapply IH; eauto.
Qed.

Lemma step_latest fuel x0 trs tm x' offers lg' : step sigma i fuel x0 trs tm = SOk x' offers lg' -> clock_is_latest x'.
Proof.
  unfold step. intros H.
  destruct (match trs with [] => _ | _ => _ end) as [[[x1 nerr] lg1]|]; [|discriminate].
  destruct (Nat.ltb 0 nerr); [discriminate|]. destruct (run_time_machine i tm x1) as [t|]; [|discriminate].
  destruct (create_timed_transitions i (set_now x1 t)) as [timed|]; [|discriminate].
  destruct (get_possible_transitions i (set_now x1 t)) as [poss|]; [|discriminate].
  destruct (filter_teleport i (set_now x1 t) poss) as [tele|]; [|discriminate]. eapply timed_loop_latest; eauto.
Qed.

Lemma mw_step_latest fuel r m a r' m' lg : clock_is_latest (r_x r) -> mw_step sigma i fuel r m a = MOk r' m' lg -> clock_is_latest (r_x r').
Proof.
  intros Hr H. unfold mw_step in H. destruct (r_offers r) as [|tr rest]; [discriminate|].
  destruct (negb ((a =? 0) || (a =? 1))); [discriminate|]. destruct (a =? 0).
  - destruct rest as [|tr2 rest].
    + destruct (step sigma i fuel (r_x r) [] TMForceJump) as [x offers lg0| | |] eqn:Es; try discriminate.
      pose proof (step_latest _ _ _ _ _ _ _ Es) as L. destruct offers.
      * destruct (all_in_output i x); [|discriminate]. inversion H; subst. exact L.
      * inversion H; subst. exact L.
    + inversion H; subst. exact Hr.
  - destruct (step sigma i fuel (r_x r) [tr] TMJumpToEvent) as [x offers lg0| | |] eqn:Es; try discriminate.
    inversion H; subst. eapply step_latest; eauto.
Qed.

Theorem reach_latest fuel x0 joker0 ta r m : reach sigma i fuel x0 joker0 ta r m -> clock_is_latest (r_x r).
Proof.
  intros H. induction H as [r m lg H|r m a r' m' lg H IH Hs].
  - unfold mw_reset in H. destruct (step sigma i fuel x0 [] TMJumpToEvent) as [x offers lg0| | |] eqn:Es; try discriminate.
    inversion H; subst. eapply step_latest; eauto.
  - eapply mw_step_latest; eauto.
Qed.

(* what max_done_end = Some z says: z is the end of a DONE operation and no DONE operation ends later *)
Lemma fold_max_in l : forall h, fold_left Z.max l h = h \/ In (fold_left Z.max l h) l.
Proof.
  induction l as [|a l IH]; intros h; simpl; auto. destruct (IH (Z.max h a)) as [E|E]; [|auto].
  rewrite E. destruct (Z.max_spec h a) as [[_ ->]|[_ ->]]; auto.
Qed.
Lemma fold_max_ge_all l : forall h a, In a (h :: l) -> a <= fold_left Z.max l h.
Proof.
  induction l as [|b l IH]; intros h a Hin; simpl.
  - destruct Hin as [->|[]]. lia.
  - assert (H1 : Z.max h b <= fold_left Z.max l (Z.max h b)) by (apply IH; left; reflexivity).
    destruct Hin as [->|[->|Hin]]; [lia|lia|apply IH; right; exact Hin].
Qed.

Lemma mapM_in_res {A B} (f : A -> res B) : forall l r b, mapM f l = Ok r -> In b r -> exists a, In a l /\ f a = Ok b.
Proof.
  induction l as [|a l IH]; intros r b H Hb; simpl in H.
  - injection H as <-. destruct Hb.
  - destruct (f a) as [b0|] eqn:E; simpl in H; [|discriminate]. destruct (mapM f l) as [bs|] eqn:Em; simpl in H; [|discriminate].
    injection H as <-. destruct Hb as [Hb|Hb].
    + subst b0. exists a. split; [left; reflexivity|exact E].
    + destruct (IH bs b eq_refl Hb) as [a0 [A1 A2]]. exists a0. split; [right; exact A1|exact A2].
Qed.
Lemma mapM_all_res {A B} (f : A -> res B) : forall l r a, mapM f l = Ok r -> In a l -> exists b, f a = Ok b /\ In b r.
Proof.
  induction l as [|a0 l IH]; intros r a H Ha; simpl in H; [destruct Ha|].
  destruct (f a0) as [b0|] eqn:E; simpl in H; [|discriminate]. destruct (mapM f l) as [bs|] eqn:Em; simpl in H; [|discriminate].
  injection H as <-. destruct Ha as [Ha|Ha].
  - subst a0. exists b0. split; [exact E|left; reflexivity].
  - destruct (IH bs a eq_refl Ha) as [b [B1 B2]]. exists b. split; [exact B1|right; exact B2].
Qed.

Theorem max_done_end_spec x z : max_done_end x = Ok (Some z) ->
  (exists jb o, In jb (s_jobs x) /\ In o (j_ops jb) /\ o_st o = ODone /\ o_end o = Time z)
  /\ (forall jb o e, In jb (s_jobs x) -> In o (j_ops jb) -> o_st o = ODone -> o_end o = Time e -> e <= z).
Proof.
  unfold max_done_end. intros H.
  destruct (mapM _ _) as [ends|] eqn:Em; simpl in H; [|discriminate]. destruct ends as [|h t]; inversion H as [Ez]. split.
  - assert (Hin : In z (h :: t)) by (rewrite <- Ez; destruct (fold_max_in t h) as [E|E]; [left; symmetry; exact E|right; exact E]).
    destruct (mapM_in_res _ _ _ _ Em Hin) as [o [Ho Hz]]. apply filter_In in Ho. destruct Ho as [Ho So].
    apply in_flat_map in Ho. destruct Ho as [jb [Hjb Ho]]. exists jb, o. split; auto. split; auto.
    split; [unfold is_ostate in So; destruct (o_st o); simpl in So; try discriminate; reflexivity|].
    destruct (o_end o); simpl in Hz; [discriminate|]. congruence.
  - intros jb o e Hjb Ho So He.
    assert (Hf : In o (filter (is_ostate ODone) (flat_map j_ops (s_jobs x)))).
    { apply filter_In. split; [apply in_flat_map; eauto|unfold is_ostate; rewrite So; reflexivity]. }
    destruct (mapM_all_res _ _ _ _ Em Hf) as [b [Hb Hin]]. rewrite He in Hb. simpl in Hb. inversion Hb; subst b.
    rewrite ?Ez; try rewrite <- Ez. apply fold_max_ge_all. exact Hin.
Qed.

Lemma max_done_end_none x : max_done_end x = Ok None -> forall jb o, In jb (s_jobs x) -> In o (j_ops jb) -> o_st o <> ODone.
Proof.
  unfold max_done_end. intros H jb o Hjb Ho So.
  destruct (mapM _ _) as [ends|] eqn:Em; simpl in H; [|discriminate]. destruct ends as [|h t]; [|discriminate].
  assert (Hf : In o (filter (is_ostate ODone) (flat_map j_ops (s_jobs x)))).
  { apply filter_In. split; [apply in_flat_map; eauto|unfold is_ostate; rewrite So; reflexivity]. }
  destruct (mapM_all_res _ _ _ _ Em Hf) as [b [_ []]].
Qed.

(* in a reachable state with all work delivered no recorded completion lies after the clock, and (if anything was processed at all)
   one lies exactly at it *)
Theorem terminated_clock_bounds_all_ends fuel x0 joker0 ta r m :
  reach sigma i fuel x0 joker0 ta r m -> all_in_output i (r_x r) = true ->
  (forall jb o e, In jb (s_jobs (r_x r)) -> In o (j_ops jb) -> o_end o = Time e -> e <= s_now (r_x r))
  /\ ((exists jb o, In jb (s_jobs (r_x r)) /\ In o (j_ops jb)) ->
      exists jb o, In jb (s_jobs (r_x r)) /\ In o (j_ops jb) /\ o_st o = ODone /\ o_end o = Time (s_now (r_x r))).
Proof.
  intros H Hout. pose proof (reach_latest _ _ _ _ _ _ H Hout) as L.
  assert (Hdone : forall jb o, In jb (s_jobs (r_x r)) -> In o (j_ops jb) -> o_st o = ODone).
  { intros jb o Hjb Ho. unfold all_in_output in Hout. rewrite forallb_forall in Hout. specialize (Hout _ Hjb).
    apply andb_true_iff in Hout. destruct Hout as [_ Hd]. unfold all_operations_done in Hd. rewrite forallb_forall in Hd.
    specialize (Hd _ Ho). unfold is_ostate in Hd. destruct (o_st o); simpl in Hd; try discriminate. reflexivity. }
  destruct L as [L|L].
  - destruct (max_done_end_spec _ _ L) as [Hex Hall]. split; [|intros _; exact Hex].
    intros jb o e Hjb Ho He. eapply Hall; eauto.
  - split.
    + intros jb o e Hjb Ho He. exfalso. eapply max_done_end_none; eauto.
    + intros [jb [o [Hjb Ho]]]. exfalso. eapply max_done_end_none; eauto.
Qed.

End M.
