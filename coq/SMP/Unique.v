(* From the store invariant: a job lies in exactly one buffer. With the C01 invariant: a job that lies in
   a standalone or post buffer is not in process; hence the TRANSIT transitions the model itself creates
   (create_timed_transitions) satisfy both side conditions of C01/C04 in the state they are created in. *)
From Coq Require Import List ZArith Bool Arith Lia.
From JSL Require Import Base.Res Base.ListX SM.Types SM.Util SM.Handler SM.Step SM.Inv
  SMP.ListLemmas SMP.Frame SMP.WF SMP.Preserve SMP.FeasView SMP.Feasible SMP.Offers.
Import ListNotations.
Close Scope Z_scope.

Lemma sum_two_ge {A} (f : A -> nat) (l : list A) a b :
  NoDup l -> In a l -> In b l -> a <> b -> f a + f b <= sum_nat (map f l).
Proof.
  intros Hd. induction Hd as [|h t Hn Hd IH]; intros Ha Hb Hne; simpl in *; [tauto|].
  destruct Ha as [->|Ha], Hb as [->|Hb]; try congruence.
  - pose proof (sum_in_ge f t b Hb). lia.
  - pose proof (sum_in_ge f t a Ha). lia.
  - specialize (IH Ha Hb Hne). lia.
Qed.

Section U.
Variable i : inst.

Lemma ws_unique x L1 L2 b1 b2 j :
  WFS i x -> get_buf x L1 = Some b1 -> In j (b_store b1) -> get_buf x L2 = Some b2 -> In j (b_store b2) -> L1 = L2.
Proof.
  intros W H1 I1 H2 I2. destruct (bid_eq_dec L1 L2) as [E|Hne]; auto. exfalso.
  assert (Hj : j < length (s_jobs x)) by (eapply (ws_range _ _ W); eauto).
  pose proof (ws_count _ _ W j Hj) as Hc. unfold tcount in Hc.
  pose proof (sum_two_ge (fun L => count_nat j (store_at x L)) (bids_of x) L1 L2
                (NoDup_all_bids _ _ _) (get_buf_in_bids _ _ _ H1) (get_buf_in_bids _ _ _ H2) Hne) as Q.
  unfold store_at in Q at 1 2. rewrite H1, H2 in Q.
  apply mem_nat_In in I1, I2. apply mem_count in I1, I2. lia.
Qed.

(* a job in process lies in the internal buffer of its machine *)
Lemma running_inside x j jb :
  FE i x -> nth_error (s_jobs x) j = Some jb -> is_job_running jb = true ->
  exists m ms, nth_error (s_machs x) m = Some ms /\ In j (b_store (m_in ms)).
Proof.
  intros F Hj Hr. unfold is_job_running in Hr. apply existsb_exists in Hr. destruct Hr as [o [Ho So]].
  apply In_nth_error in Ho. destruct Ho as [k Hk].
  assert (Sp : o_st o = OProc) by (unfold is_ostate in So; destruct (o_st o); simpl in So; try discriminate; reflexivity).
  assert (Vo : vop (view_of x) j k o) by (exists (j_ops jb); split; auto; simpl; unfold jops; rewrite Hj; reflexivity).
  destruct (fe_proc _ _ F _ _ _ Vo Sp) as [[st [A _]] _]. simpl in A. unfold mview in A.
  destruct (nth_error (s_machs x) (o_mach o)) as [ms|] eqn:Em; [|discriminate]. simpl in A. inversion A.
  exists (o_mach o), ms. split; auto. rewrite H1. left; reflexivity.
Qed.

(* ... so a job whose location is a standalone / pre / post / AGV buffer is not in process *)
Theorem outside_not_running x j jb :
  WFS i x -> FE i x -> nth_error (s_jobs x) j = Some jb ->
  (forall m, j_loc jb <> BIn m) -> is_job_running jb = false.
Proof.
  intros W F Hj Hloc. destruct (is_job_running jb) eqn:Hr; auto. exfalso.
  destruct (running_inside _ _ _ F Hj Hr) as [m [ms [Hm Hin]]].
  destruct (ws_loc _ _ W _ _ Hj) as [b [Hb Hinb]].
  assert (Hg : get_buf x (BIn m) = Some (m_in ms)) by (simpl; rewrite Hm; reflexivity).
  apply (Hloc m). eapply ws_unique; eauto.
Qed.

(* the TRANSIT transitions of create_timed_transitions: the job is the AGV's claim and is ready for pickup *)
Theorem timed_transit_spec x t ts tr z :
  t_occ ts = OAt z -> timed_transport i x t ts = Ok [tr] -> tr_new tr = NT TTransit ->
  t_st ts = TWaiting /\ exists j jb, tr = mkTr (CT t) (NT TTransit) (Some j) /\ t_job ts = Some j
    /\ nth_error (s_jobs x) j = Some jb /\ is_ready i x j jb = Ok true.
Proof.
  unfold timed_transport. intros Ho H Hn. rewrite Ho in H.
  destruct (z <=? s_now x)%Z; [|discriminate].
  destruct (t_st ts) eqn:Es; simpl in H.
  - inversion H.
  - discriminate.
  - destruct (create_idle_to_pick i x t ts) as [[tr0|]|] eqn:Ec; simpl in H; inversion H; subst tr0.
    unfold create_idle_to_pick in Ec. rewrite Es in Ec. inv_all Ec; inversion Ec; subst; simpl in Hn; discriminate.
  - destruct (create_pickup_to_drop x t ts) as [[tr0|]|] eqn:Ec; simpl in H; inversion H; subst tr0.
    unfold create_pickup_to_drop in Ec. destruct (b_store (t_buf ts)) as [|j0 [|]]; try discriminate.
    inv_all Ec. inversion Ec; subst; simpl in Hn; discriminate.
  - inversion H; subst; simpl in Hn; discriminate.
  - destruct (create_idle_to_pick i x t ts) as [[tr0|]|] eqn:Ec; simpl in H; inversion H; subst tr0.
    unfold create_idle_to_pick in Ec. rewrite Es in Ec. inv_all Ec.
    + inversion Ec; subst. split; auto. apply of_opt_ok in E. apply get_job_ok in E0.
      exists v, v0. repeat split; auto.
    + inversion Ec; subst; simpl in Hn; discriminate.
Qed.

Lemma is_ready_location x j jb : is_ready i x j jb = Ok true -> forall m, j_loc jb <> BIn m.
Proof.
  unfold is_ready. intros H m E. inv_all H. inversion H as [Hb]. rewrite E in Hb. simpl in Hb. discriminate.
Qed.

(* both side conditions hold, in the state of creation, for the TRANSIT transitions the model creates *)
Theorem timed_transit_sides_at_creation x t ts tr z :
  WFS i x -> FE i x -> nth_error (s_trans x) t = Some ts ->
  t_occ ts = OAt z -> timed_transport i x t ts = Ok [tr] -> tr_new tr = NT TTransit ->
  transit_side_b tr x = true /\ transit_claim_b tr x = true.
Proof.
  intros W F Hts Ho H Hn.
  destruct (timed_transit_spec _ _ _ _ _ Ho H Hn) as [Hst [j [jb [-> [Hj [Hjb Hr]]]]]].
  split.
  - unfold transit_side_b; simpl. rewrite Hjb.
    rewrite (outside_not_running _ _ _ W F Hjb (is_ready_location _ _ _ Hr)). reflexivity.
  - unfold transit_claim_b; simpl. rewrite Hts, Hj. simpl. apply Nat.eqb_refl.
Qed.

End U.
