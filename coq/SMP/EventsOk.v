(* The event clauses of SM/Events.v that the monitors evaluate on every micro-event of the implementation are TRUE of
   the model: whenever the model applies a transition (in a state satisfying the run invariants), the clause holds of
   (state before, transition, state after).  Together with the correspondence replay (implementation = model on every
   recorded call) this makes the clauses theorems about every run of the model, and no clause can raise an alarm on
   behaviour that agrees with the model. *)
From Coq Require Import List ZArith Bool Arith Lia.
From JSL Require Import Base.Res Base.ListX SM.Types SM.Util SM.Handler SM.Step SM.Inv SM.Events
  SMP.ListLemmas SMP.Preserve SMP.Clock SMP.Post SMP.PostApply SMP.FeasView SMP.Feasible SMP.SampledOk SMP.ClockStep SMP.Frame SMP.Agv SMP.Reflect SMP.Setup SMP.WF SMP.StoreEff SMP.Claims.
Import ListNotations.
Open Scope Z_scope.

Section EO.
Variable sigma : oracle.
Variable i : inst.
Hypothesis Hnn : inst_nonneg_b i = true.

Lemma ekind_machine x tr k :
  ekind_of x tr = k -> k <> KOther ->
  (exists m ms s, tr_comp tr = CM m /\ nth_error (s_machs x) m = Some ms /\ tr_new tr = NM s /\
      match m_st ms, s with
      | MIdle, MSetup => k = KSetupEv | MSetup, MWorking => k = KWork
      | MWorking, MOutage => k = KMOut | MOutage, MIdle => k = KMIdle | _, _ => False end)
  \/ (exists t ts s, tr_comp tr = CT t /\ nth_error (s_trans x) t = Some ts /\ tr_new tr = NT s /\
      match t_st ts, s with
      | TIdle, TWorking => k = KDispatch | TPickup, TWaiting => k = KArrive
      | TWaiting, TWaiting => k = KRewait
      | TWaiting, TTransit | TPickup, TTransit => k = KTransit
      | TTransit, TOutage => k = KDeliver | TOutage, TIdle => k = KTIdle | _, _ => False end).
Proof.
  unfold ekind_of. intros H Hk. destruct (tr_comp tr) as [m|t|n]; cbv iota beta in H; [| |congruence].
  - destruct (tr_new tr) as [s|s]; cbv iota beta in H; [|congruence].
    destruct (nth_error (s_machs x) m) as [ms|] eqn:E; cbv iota beta in H; [|congruence].
    left. exists m, ms, s. repeat split; auto. destruct (m_st ms), s; congruence.
  - destruct (tr_new tr) as [s|s]; cbv iota beta in H; [congruence|].
    destruct (nth_error (s_trans x) t) as [ts|] eqn:E; cbv iota beta in H; [|congruence].
    right. exists t, ts, s. repeat split; auto. destruct (t_st ts), s; congruence.
Qed.

Lemma get_opcfg_nth j k oc : get_opcfg i j k = Ok oc -> exists ocs, nth_error (i_jobs i) j = Some ocs /\ nth_error ocs k = Some oc.
Proof.
  unfold get_opcfg. destruct (nth_error (i_jobs i) j) as [ocs|]; [|discriminate]. intros H. apply of_opt_ok in H. eauto.
Qed.

(* the operation a busy machine works on: the first not-done operation of the one job inside, recorded on this machine *)
Lemma busy_machine_op x m ms j jb k :
  FE i x -> nth_error (s_machs x) m = Some ms -> m_st ms <> MIdle -> mem_nat j (b_store (m_in ms)) = true ->
  nth_error (s_jobs x) j = Some jb -> first_not_done jb = Some k ->
  b_store (m_in ms) = [j] /\ exists o, nth_error (j_ops jb) k = Some o /\ o_st o = OProc /\ o_mach o = m.
Proof.
  intros F Hms Hst Hmem Hjb Hk.
  assert (Hv : v_m (view_of x) m = Some (m_st ms, b_store (m_in ms))) by (simpl; unfold mview; rewrite Hms; reflexivity).
  destruct (fe_hold _ _ F _ _ _ Hv) as [_ B]. destruct (B Hst) as [j0 [k0 [o [El [[ops [Ho1 Ho2]] [So Mo]]]]]].
  rewrite El in Hmem. simpl in Hmem. rewrite orb_false_r in Hmem. apply Nat.eqb_eq in Hmem. subst j0.
  split; [exact El|]. simpl in Ho1. unfold jops in Ho1. rewrite Hjb in Ho1. simpl in Ho1. inversion Ho1; subst ops.
  assert (P : Pat (j_ops jb)). { eapply (fe_pat _ _ F j). simpl. unfold jops. rewrite Hjb. reflexivity. }
  pose proof (first_not_done_is_proc _ _ _ _ P Hk Ho2 So) as E. subst k0. eauto.
Qed.

Lemma op_mach_cfg x j jb k o oc :
  FE i x -> nth_error (s_jobs x) j = Some jb -> nth_error (j_ops jb) k = Some o -> get_opcfg i j k = Ok oc -> o_mach o = oc_mach oc.
Proof.
  intros F Hjb Ho Hc. eapply (fe_mk _ _ F j k); eauto. exists (j_ops jb). split; auto. simpl. unfold jops. rewrite Hjb. reflexivity.
Qed.

(* C02: the start of processing *)
Theorem apply_ev_work x tr y :
  NO x -> FE i x -> apply_transition sigma i x tr = Ok y -> ev_work i x tr y = true.
Proof.
  intros N F H. pose proof (apply_preserves_NO sigma i Hnn _ _ _ N H) as Ny.
  unfold ev_work. destruct (ekind_of x tr) eqn:Ek; try reflexivity.
  destruct (ekind_machine _ _ _ Ek) as [[m [ms [s [Hc [Hms [Hn K]]]]]]|[t [ts [s [Hc [Hts [Hn K]]]]]]]; [congruence| |].
  2:{ destruct (t_st ts), s; try contradiction; discriminate. }
  rewrite Hc. assert (Hst : m_st ms = MSetup) by (destruct (m_st ms), s; try contradiction; try discriminate; reflexivity).
  destruct (apply_machine sigma i _ _ _ _ _ Hc Hms H) as [[A _]|[[_ [_ C]]|[[A _]|[A _]]]]; try congruence.
  destruct (post_setup_working sigma i _ _ _ _ _ Hms C) as [j [jb [k [oc [d [Ej [Hjb [Hk [Hoc [Hd [Hm' [Hj' [_ Hmem]]]]]]]]]]]]].
  rewrite Ej, Hm'. cbn [opt_b]. rewrite Hjb. cbn [opt_b]. rewrite Hj'. cbn [opt_b]. rewrite Hk. cbn [opt_b].
  destruct (get_opcfg_nth _ _ _ Hoc) as [ocs [E1 E2]]. rewrite E1. cbn [opt_b]. rewrite E2. cbn [opt_b].
  rewrite Hd. pose proof (tc_read_nonneg _ _ _ (no_sto _ Ny) (opcfg_nonneg i Hnn _ _ _ Hoc) Hd) as Hd0.
  assert (Hst' : m_st ms <> MIdle) by congruence.
  destruct (busy_machine_op _ _ _ _ _ _ F Hms Hst' Hmem Hjb Hk) as [_ [o [Ho [So Mo]]]].
  pose proof (op_mach_cfg _ _ _ _ _ _ F Hjb Ho Hoc) as Emk.
  replace (0 <=? d) with true by (symmetry; apply Z.leb_le; lia). simpl.
  rewrite Z.eqb_refl. simpl. replace (oc_mach oc =? m)%nat with true by (symmetry; apply Nat.eqb_eq; congruence). simpl.
  rewrite nth_upd_same by (apply nth_error_lt in Ho; exact Ho). simpl.
  unfold is_ostate. simpl. rewrite Nat.eqb_refl, !Z.eqb_refl. reflexivity.
Qed.

Lemma list_nat_eqb_refl l : list_nat_eqb l l = true.
Proof. induction l as [|a l IH]; simpl; auto. rewrite Nat.eqb_refl. exact IH. Qed.

Lemma idle_machine_empty x m ms : FE i x -> nth_error (s_machs x) m = Some ms -> m_st ms = MIdle -> b_store (m_in ms) = [].
Proof.
  intros F Hms Hst.
  assert (Hv : v_m (view_of x) m = Some (m_st ms, b_store (m_in ms))) by (simpl; unfold mview; rewrite Hms; reflexivity).
  destruct (fe_hold _ _ F _ _ _ Hv) as [A _]. auto.
Qed.

(* C09: the start of a setup *)
Theorem apply_ev_setup x tr y :
  NO x -> FE i x -> apply_transition sigma i x tr = Ok y -> ev_setup i x tr y = true.
Proof.
  intros N F H.
  unfold ev_setup. destruct (ekind_of x tr) eqn:Ek; try reflexivity.
  destruct (ekind_machine _ _ _ Ek) as [[m [ms [s [Hc [Hms [Hn K]]]]]]|[t [ts [s [Hc [Hts [Hn K]]]]]]]; [congruence| |].
  2:{ destruct (t_st ts), s; try contradiction; discriminate. }
  rewrite Hc. assert (Hst : m_st ms = MIdle) by (destruct (m_st ms), s; try contradiction; try discriminate; reflexivity).
  destruct (apply_machine sigma i _ _ _ _ _ Hc Hms H) as [[_ [_ C]]|[[A _]|[[A _]|[A _]]]]; try congruence.
  destruct (post_idle_setup sigma i _ _ _ _ _ Hms C) as [j [jb [k [oc [mc [sc [sd [Ej [Hjb [Hk [Hoc [Hmc [Hsl [Hsd [MM [JJ _]]]]]]]]]]]]]]]].
  destruct MM as [ms' [Hm' [S1 [S2 [S3 [S4 _]]]]]]. destruct JJ as [jb' [Hj' [_ Hops]]].
  rewrite Ej, Hms. cbn [opt_b]. rewrite Hm'. cbn [opt_b]. rewrite Hjb. cbn [opt_b]. rewrite Hj'. cbn [opt_b]. rewrite Hk. cbn [opt_b].
  destruct (get_opcfg_nth _ _ _ Hoc) as [ocs [E1 E2]]. rewrite E1. cbn [opt_b]. rewrite E2. cbn [opt_b].
  rewrite Hmc. cbn [opt_b]. rewrite Hsl. cbn [opt_b]. rewrite Hsd.
  pose proof (tc_read_nonneg _ _ _ (no_sto _ N) (setup_nonneg i Hnn _ _ _ _ _ Hmc Hsl) Hsd) as Hd0.
  replace (0 <=? sd) with true by (symmetry; apply Z.leb_le; lia).
  rewrite S1, S2, S3, S4, (idle_machine_empty _ _ _ F Hms Hst), Hops. simpl.
  destruct (first_not_done_spec _ _ Hk) as [o [Ho _]].
  rewrite nth_upd_same by (apply nth_error_lt in Ho; exact Ho). simpl.
  unfold is_ostate. simpl. rewrite !Nat.eqb_refl, !Z.eqb_refl. reflexivity.
Qed.

(* C02/C10: the end of processing *)
Theorem apply_ev_machine_outage x tr y :
  NO x -> FE i x -> apply_transition sigma i x tr = Ok y -> ev_machine_outage i x tr y = true.
Proof.
  intros N F H.
  unfold ev_machine_outage. destruct (ekind_of x tr) eqn:Ek; try reflexivity.
  destruct (ekind_machine _ _ _ Ek) as [[m [ms [s [Hc [Hms [Hn K]]]]]]|[t [ts [s [Hc [Hts [Hn K]]]]]]]; [congruence| |].
  2:{ destruct (t_st ts), s; try contradiction; discriminate. }
  rewrite Hc. assert (Hst : m_st ms = MWorking) by (destruct (m_st ms), s; try contradiction; try discriminate; reflexivity).
  destruct (apply_machine sigma i _ _ _ _ _ Hc Hms H) as [[A _]|[[A _]|[[_ [_ C]]|[A _]]]]; try congruence.
  destruct (post_working_outage sigma i _ _ _ _ _ Hms C) as [mc [outs [sto' [occ_for [j [jb [k [o [Hmc [Hno [Hocc [Ej [Hjb [Hk [Ho [Hm' [Hj' _]]]]]]]]]]]]]]]]].
  rewrite Ej, Hms. cbn [opt_b]. rewrite Hm'. cbn [opt_b]. rewrite Hjb. cbn [opt_b]. rewrite Hj'. cbn [opt_b]. rewrite Hk. cbn [opt_b].
  cbn [m_out m_occ m_st m_in]. unfold max_active_len. rewrite Hocc. rewrite Hmc. cbn [opt_b].
  pose proof (mach_out_nonneg i Hnn _ _ Hmc) as Hon.
  destruct (new_outage_states_ok sigma _ _ _ _ _ _ (no_sto _ N) Hon Hno) as [Hfr _].
  pose proof (occupied_time_nonneg _ _ _ Hfr Hocc) as H0.
  replace (0 <=? occ_for) with true by (symmetry; apply Z.leb_le; lia).
  rewrite (new_outage_states_sampled_ok sigma _ _ _ _ _ _ (no_sto _ N) Hon Hno).
  rewrite list_nat_eqb_refl, Ho. simpl.
  rewrite nth_upd_same by (apply nth_error_lt in Ho; exact Ho). simpl.
  destruct (first_proc_spec _ _ Hk) as [o2 [Ho2 So]]. assert (o2 = o) by congruence. subst o2.
  unfold is_ostate. simpl. rewrite So, !Z.eqb_refl, time_eqb_refl. reflexivity.
Qed.

Lemma released_ok_release os : released_ok os (map release_outage os) = true.
Proof.
  unfold released_ok. induction os as [|o os IH]; simpl; auto. rewrite IH.
  destruct o as [s e|l]; simpl; rewrite time_eqb_refl; reflexivity.
Qed.

(* C02/C10/C08: the release of the finished job *)
Theorem apply_ev_machine_release x tr y :
  NO x -> FE i x -> apply_transition sigma i x tr = Ok y -> ev_machine_release x tr y = true.
Proof.
  intros N F H.
  unfold ev_machine_release. destruct (ekind_of x tr) eqn:Ek; try reflexivity.
  destruct (ekind_machine _ _ _ Ek) as [[m [ms [s [Hc [Hms [Hn K]]]]]]|[t [ts [s [Hc [Hts [Hn K]]]]]]]; [congruence| |].
  2:{ destruct (t_st ts), s; try contradiction; discriminate. }
  rewrite Hc. assert (Hst : m_st ms = MOutage) by (destruct (m_st ms), s; try contradiction; try discriminate; reflexivity).
  destruct (apply_machine sigma i _ _ _ _ _ Hc Hms H) as [[A _]|[[A _]|[[A _]|[_ [_ C]]]]]; try congruence.
  destruct (post_outage_idle i _ _ _ _ _ Hms C) as [j [jb [k [o [Hhd [Hjb [Hk [Ho [MM [JJ _]]]]]]]]]].
  destruct MM as [ms' [Hm' [S1 [S2 [_ [_ [S3 [S4 _]]]]]]]]. destruct JJ as [jb' [Hj' [L Hops]]].
  assert (Hin : b_store (m_in ms) = [j]).
  { assert (Hv : v_m (view_of x) m = Some (m_st ms, b_store (m_in ms))) by (simpl; unfold mview; rewrite Hms; reflexivity).
    destruct (fe_hold _ _ F _ _ _ Hv) as [_ B]. destruct B as [j0 [k0 [o0 [El _]]]]; [congruence|].
    rewrite El in Hhd. simpl in Hhd. congruence. }
  rewrite Hms. cbn [opt_b]. rewrite Hm'. cbn [opt_b]. rewrite Hin. rewrite Hjb. cbn [opt_b]. rewrite Hj'. cbn [opt_b]. rewrite Hk. cbn [opt_b].
  rewrite S1, S2, S3, S4, Hin, L, Ho, Hops. unfold remove_nat. simpl. rewrite Nat.eqb_refl. simpl.
  rewrite list_nat_eqb_refl, released_ok_release, Nat.eqb_refl. simpl.
  rewrite nth_upd_same by (apply nth_error_lt in Ho; exact Ho). simpl.
  unfold is_ostate. simpl. rewrite time_eqb_refl, Z.eqb_refl. reflexivity.
Qed.

(* the clock never moves inside a transition *)
Theorem apply_ev_clock x tr y : apply_transition sigma i x tr = Ok y -> ev_clock x tr y = true.
Proof. intros H. unfold ev_clock. rewrite (apply_now sigma i _ _ _ H). apply Z.eqb_refl. Qed.

(* C10: AGV release *)
Theorem apply_ev_transport_release x tr y :
  NO x -> AG x -> apply_transition sigma i x tr = Ok y -> ev_transport_release x tr y = true.
Proof.
  intros N A H.
  unfold ev_transport_release. destruct (ekind_of x tr) eqn:Ek; try reflexivity.
  destruct (ekind_machine _ _ _ Ek) as [[m [ms [s [Hc [Hms [Hn K]]]]]]|[t [ts [s [Hc [Hts [Hn K]]]]]]]; [congruence| |].
  { destruct (m_st ms), s; try contradiction; discriminate. }
  rewrite Hc. assert (Hst : t_st ts = TOutage) by (destruct (t_st ts), s; try contradiction; try discriminate; reflexivity).
  destruct (apply_transport sigma i _ _ _ _ _ Hc Hts H) as [[B _]|[[B _]|[[[B|B] _]|[[[B|B] _]|[[_ [_ C]]|[B _]]]]]]; try congruence.
  unfold h_t_outage_idle in C. inversion C; subst y; clear C.
  rewrite Hts. cbn [opt_b]. rewrite set_trans_ctl_nth, Hts, Nat.eqb_refl. cbn [opt_b t_st t_out t_buf t_job].
  rewrite released_ok_release.
  pose proof (A _ _ (tview_of _ _ _ Hts)) as Ho. unfold holds_ok in Ho. simpl in Ho. rewrite Hst in Ho. rewrite Ho.
  destruct (no_trans _ N _ _ Hts) as [_ Hj]. rewrite Hj by auto. reflexivity.
Qed.

Lemma nth_indexed {A} (l : list A) : forall n k, nth_error (indexed n l) k = option_map (fun a => (n + k, a)%nat) (nth_error l k).
Proof.
  induction l as [|a l IH]; intros n [|k]; simpl; auto.
  - rewrite Nat.add_0_r. reflexivity.
  - rewrite IH. replace (S n + k)%nat with (n + S k)%nat by lia. reflexivity.
Qed.

Lemma indexed_length {A} (l : list A) : forall n, length (indexed n l) = length l.
Proof. induction l as [|a l IH]; intros n; simpl; auto. Qed.

Lemma same_none_length {A B} (l : list A) (l' : list B) :
  (forall n, nth_error l n = None <-> nth_error l' n = None) -> length l = length l'.
Proof.
  intros H. destruct (Nat.lt_trichotomy (length l) (length l')) as [L|[L|L]]; auto; exfalso.
  - assert (E : nth_error l (length l) = None) by (apply nth_error_None; lia). apply H in E. apply nth_error_None in E. lia.
  - assert (E : nth_error l' (length l') = None) by (apply nth_error_None; lia). apply H in E. apply nth_error_None in E. lia.
Qed.

Lemma mtl_none x m : mtl x m = None <-> nth_error (s_machs x) m = None.
Proof. unfold mtl. destruct (nth_error (s_machs x) m); simpl; split; congruence. Qed.

Lemma apply_machs_length x tr y : apply_transition sigma i x tr = Ok y -> length (s_machs x) = length (s_machs y).
Proof.
  intros H. apply same_none_length. intros n. rewrite <- !mtl_none.
  destruct (apply_mtl sigma i _ _ _ n H) as [E|[Hc Hn]]; [rewrite E; tauto|].
  destruct (nth_error (s_machs x) n) as [ms|] eqn:Hms; [|unfold apply_transition in H; rewrite Hc, Hms in H; discriminate].
  destruct (apply_machine sigma i _ _ _ _ _ Hc Hms H) as [[_ [_ C]]|[[_ [B _]]|[[_ [B _]]|[_ [B _]]]]]; try congruence.
  destruct (post_idle_setup sigma i _ _ _ _ _ Hms C) as [j [jb [k [oc [mc [sc [sd [_ [_ [_ [_ [_ [_ [_ [[ms' [Hm' _]] _]]]]]]]]]]]]]]].
  unfold mtl. rewrite Hms, Hm'. simpl. split; discriminate.
Qed.

(* C09 frame: the mounted tool changes at no other event than the machine's own setup *)
Theorem apply_ev_tool_frame x tr y : apply_transition sigma i x tr = Ok y -> ev_tool_frame x tr y = true.
Proof.
  intros H. pose proof (apply_machs_length _ _ _ H) as Hl.
  assert (G : forall m, (ekind_of x tr = KSetupEv /\ tr_comp tr = CM m) \/ ekind_of x tr <> KSetupEv ->
              forallb2 (fun '(n, a) b => Nat.eqb n m || Nat.eqb (m_tool a) (m_tool b)) (indexed O (s_machs x)) (s_machs y) = true
              /\ (ekind_of x tr <> KSetupEv -> forallb2 (fun a b => Nat.eqb (m_tool a) (m_tool b)) (s_machs x) (s_machs y) = true)).
  { intros m Hk. split.
    - apply forallb2_spec. split; [rewrite indexed_length; exact Hl|]. intros n [n0 a] b Ha Hb. rewrite nth_indexed in Ha.
      destruct (nth_error (s_machs x) n) as [a0|] eqn:Ea; [|discriminate]. simpl in Ha. inversion Ha; subst n0 a0.
      destruct (Nat.eqb_spec n m) as [|Hne]; [reflexivity|]. simpl.
      destruct (apply_mtl sigma i _ _ _ n H) as [E|[Hc Hn]].
      + unfold mtl in E. rewrite Ea, Hb in E. simpl in E. inversion E. apply Nat.eqb_refl.
      + exfalso. destruct Hk as [[_ Hc']|Hk]; [congruence|]. apply Hk. unfold ekind_of. rewrite Hc, Hn, Ea.
        destruct (apply_machine sigma i _ _ _ _ _ Hc Ea H) as [[B _]|[[_ [B _]]|[[_ [B _]]|[_ [B _]]]]]; try congruence. rewrite B. reflexivity.
    - intros Hk'. apply forallb2_spec. split; [exact Hl|]. intros n a b Ha Hb.
      destruct (apply_mtl sigma i _ _ _ n H) as [E|[Hc Hn]].
      + unfold mtl in E. rewrite Ha, Hb in E. simpl in E. inversion E. apply Nat.eqb_refl.
      + exfalso. apply Hk'. unfold ekind_of. rewrite Hc, Hn, Ha.
        destruct (apply_machine sigma i _ _ _ _ _ Hc Ha H) as [[B _]|[[_ [B _]]|[[_ [B _]]|[_ [B _]]]]]; try congruence. rewrite B. reflexivity. }
  unfold ev_tool_frame. destruct (ekind_of x tr) eqn:Ek;
    try (apply (G O); [right|]; congruence).
  destruct (ekind_machine _ _ _ Ek) as [[m [ms [s [Hc [Hms [Hn K]]]]]]|[t [ts [s [Hc [Hts [Hn K]]]]]]]; [congruence| |].
  - rewrite Hc. apply (G m). left. auto.
  - exfalso. destruct (t_st ts), s; try contradiction; discriminate.
Qed.

(* ---------- C08: stores only change by "remove one job here, append it there" ---------- *)
Lemma remove_nat_notin j l : ~ In j l -> remove_nat j l = l.
Proof.
  unfold remove_nat. induction l as [|a l IH]; simpl; intros H; auto.
  destruct (Nat.eqb_spec a j) as [->|Hne]; [exfalso; apply H; auto|]. simpl. rewrite IH; auto.
Qed.

Lemma store_change_same a : store_change_ok a a = true.
Proof. unfold store_change_ok. rewrite list_nat_eqb_refl. reflexivity. Qed.
Lemma store_change_removed j a : store_change_ok a (remove_nat j a) = true.
Proof.
  destruct (in_dec Nat.eq_dec j a) as [Hin|Hn]; [|rewrite remove_nat_notin by exact Hn; apply store_change_same].
  unfold store_change_ok. apply orb_true_iff. right. apply existsb_exists. exists j. split; auto. apply list_nat_eqb_refl.
Qed.
Lemma store_change_appended j a : store_change_ok a (a ++ [j]) = true.
Proof.
  unfold store_change_ok. apply orb_true_iff. left. apply orb_true_iff. right.
  destruct (a ++ [j]) eqn:E; [destruct a; discriminate|]. rewrite <- E, removelast_last. apply list_nat_eqb_refl.
Qed.

Lemma forallb2_map {A B C} (f : B -> C -> bool) (g : A -> B) (h : A -> C) l :
  forallb2 f (map g l) (map h l) = forallb (fun a => f (g a) (h a)) l.
Proof. induction l as [|a l IH]; simpl; auto. rewrite IH. reflexivity. Qed.

Lemma bst_store_at x L : store_at x L = match bst x L with Some l => l | None => [] end.
Proof. unfold store_at, bst. destruct (get_buf x L); reflexivity. Qed.

Lemma store_eff_none x tr y L : store_eff x tr y -> (bst x L = None <-> bst y L = None).
Proof.
  intros [E|[j [A [B [Hne [EA [EB [EO _]]]]]]]]; [rewrite E; tauto|].
  destruct (bid_eq_dec L A) as [->|NA]; [rewrite EA; destruct (bst x A); simpl; split; congruence|].
  destruct (bid_eq_dec L B) as [->|NB]; [rewrite EB; destruct (bst x B); simpl; split; congruence|].
  rewrite (EO L NA NB). tauto.
Qed.

Lemma omap_none {A B} (f : A -> B) o : option_map f o = None <-> o = None.
Proof. destruct o; simpl; split; congruence. Qed.

Lemma apply_bids x tr y : apply_transition sigma i x tr = Ok y -> bids_of y = bids_of x.
Proof.
  intros H. pose proof (apply_store_eff sigma i _ _ _ H) as S. unfold bids_of. f_equal; symmetry; apply same_none_length; intros n.
  - pose proof (store_eff_none _ _ _ (BStd n) S) as E. unfold bst in E. simpl in E. rewrite !omap_none in E. exact E.
  - pose proof (store_eff_none _ _ _ (BIn n) S) as E. unfold bst in E. simpl in E. rewrite !omap_none in E. exact E.
  - pose proof (store_eff_none _ _ _ (BAgv n) S) as E. unfold bst in E. simpl in E. rewrite !omap_none in E. exact E.
Qed.

Theorem apply_ev_stores x tr y : apply_transition sigma i x tr = Ok y -> ev_stores x tr y = true.
Proof.
  intros H. unfold ev_stores. rewrite !all_stores_bids, (apply_bids _ _ _ H), forallb2_map. apply forallb_forall. intros L _.
  rewrite !bst_store_at. destruct (apply_store_eff sigma i _ _ _ H) as [E|[j [A [B [Hne [EA [EB [EO _]]]]]]]].
  - rewrite E. apply store_change_same.
  - destruct (bid_eq_dec L A) as [->|NA]; [rewrite EA; destruct (bst x A); simpl; [apply store_change_removed|reflexivity]|].
    destruct (bid_eq_dec L B) as [->|NB]; [rewrite EB; destruct (bst x B); simpl; [apply store_change_appended|reflexivity]|].
    rewrite (EO L NA NB). apply store_change_same.
Qed.

(* ---------- C07: delivery ---------- *)
Lemma deliver_moved x tr t ts x' :
  h_t_transit_outage sigma i x tr t ts = Ok x' ->
  exists j x1 cur src dst B, tr_job tr = Some j /\ t_loc ts = LRoute cur src dst
    /\ (match dst with PM m => Some (BPre m) | PB n => Some (BStd n) | PT _ => None end) = Some B
    /\ B = (match dst with PM m => BPre m | PB n => BStd n | PT k => BAgv k end)
    /\ moved i x x1 j (BAgv t) B.
Proof.
  intros H. unfold h_t_transit_outage in H. inv_all H. inversion H; subst; clear H.
  apply of_opt_ok in E.
  destruct (t_loc ts) as [|cur src dst] eqn:El; [discriminate|]. inversion E1; subst v1.
  match goal with E : move_job _ _ _ (BAgv t) ?B = Ok ?y |- _ => rename E into Emv; rename y into x1; rename B into B0 end.
  assert (HB : (match dst with PM m => Some (BPre m) | PB n => Some (BStd n) | PT _ => None end) = Some B0
               /\ B0 = (match dst with PM m => BPre m | PB n => BStd n | PT k => BAgv k end) /\ BAgv t <> B0).
  { match goal with E' : match dst with PM _ => _ | PB _ => _ | PT _ => _ end = Ok B0 |- _ =>
      destruct dst; inv_all E'; inversion E'; subst; repeat split; congruence end. }
  destruct HB as [HB [HB2 Hne]].
  exists v, x1, cur, src, dst, B0. repeat split; auto; try (eapply move_job_moved; eauto).
Qed.

Theorem apply_ev_deliver x tr y :
  NO x -> AG x -> apply_transition sigma i x tr = Ok y -> ev_deliver i x tr y = true.
Proof.
  intros N A H.
  unfold ev_deliver. destruct (ekind_of x tr) eqn:Ek; try reflexivity.
  destruct (ekind_machine _ _ _ Ek) as [[m [ms [s [Hc [Hms [Hn K]]]]]]|[t [ts [s [Hc [Hts [Hn K]]]]]]]; [congruence| |].
  { destruct (m_st ms), s; try contradiction; discriminate. }
  rewrite Hc. assert (Hst : t_st ts = TTransit) by (destruct (t_st ts), s; try contradiction; try discriminate; reflexivity).
  destruct (apply_transport sigma i _ _ _ _ _ Hc Hts H) as [[B _]|[[B _]|[[[B|B] _]|[[_ [_ C]]|[[B _]|[B _]]]]]]; try congruence.
  destruct (deliver_moved _ _ _ _ _ C) as [j [x1 [cur [src [dst [B [Ej [El [HB [HB2 M]]]]]]]]]].
  destruct (post_deliver sigma i _ _ _ _ _ Hts C) as [j' [jb [cur' [src' [dst' [ac [B' [outs [sto' [occ_for [Ej' [Hjb [El' [Hac [EB' [Hno [Hocc [TT [Hbuf [Hj' _]]]]]]]]]]]]]]]]]]]].
  assert (j' = j) by congruence. subst j'. assert (dst' = dst) by congruence. subst dst'. assert (EBB : B' = B) by congruence. clear EB'. rewrite EBB in Hbuf, Hj'. clear EBB.
  destruct TT as [ts' [Hts' [S1 [S2 [S3 [S4 [S5 S6]]]]]]].
  destruct (mv_b _ _ _ _ _ _ M) as [b0 [b0' [c0 [Hb0 _]]]]. destruct (Hbuf _ Hb0) as [b1 [Hb1 Hst1]].
  destruct (mv_a _ _ _ _ _ _ M) as [a [a' [Ha [Hrm _]]]]. apply remove_from_buffer_ok in Hrm. destruct Hrm as [Hmem _].
  simpl in Ha. rewrite Hts in Ha. simpl in Ha. inversion Ha; subst a.
  pose proof (A _ _ (tview_of _ _ _ Hts)) as Ho. unfold holds_ok in Ho. simpl in Ho. rewrite Hst in Ho. destruct Ho as [j0 Ho].
  rewrite Ho in Hmem. simpl in Hmem. rewrite orb_false_r in Hmem. apply Nat.eqb_eq in Hmem. subst j0.
  rewrite Ej, Hts. cbn [opt_b]. rewrite Hts'. cbn [opt_b]. rewrite Hj'. cbn [opt_b]. rewrite El, HB. cbn [opt_b].
  rewrite Hb0. cbn [opt_b]. rewrite Hb1. cbn [opt_b]. rewrite Hac. cbn [opt_b].
  rewrite S1, S2, S3, S4, S5, S6, Ho, Hst1. unfold max_active_len. rewrite Hocc.
  pose proof (trans_out_nonneg i Hnn _ _ Hac) as Hon.
  destruct (new_outage_states_ok sigma _ _ _ _ _ _ (no_sto _ N) Hon Hno) as [Hfr _].
  pose proof (occupied_time_nonneg _ _ _ Hfr Hocc) as H0.
  replace (0 <=? occ_for) with true by (symmetry; apply Z.leb_le; lia).
  rewrite (new_outage_states_sampled_ok sigma _ _ _ _ _ _ (no_sto _ N) Hon Hno).
  rewrite !list_nat_eqb_refl. unfold remove_nat. simpl. rewrite Nat.eqb_refl. simpl.
  assert (Eb : bid_eqb B B = true) by (apply bid_eqb_eq; reflexivity). rewrite Eb.
  assert (Ep : place_eqb dst dst = true) by (destruct dst; simpl; apply Nat.eqb_refl). rewrite Ep.
  rewrite Z.eqb_refl. reflexivity.
Qed.

(* ---------- C07/C11: dispatch ---------- *)
Lemma place_eqb_refl p : place_eqb p p = true.
Proof. destruct p; simpl; apply Nat.eqb_refl. Qed.

(* everything the dispatch clause says holds of every applied dispatch of an unclaimed job - the travel time from where the AGV
   stands to where the job lies, the recorded route, the claim - except, possibly, its readiness conjunct (which is FALSE in some
   runs: Props/C11.v, C11_dispatch_only_to_ready_jobs_refuted) *)
Theorem apply_ev_dispatch x tr y :
  NO x -> (is_tw tr = true -> forall j, tr_job tr = Some j -> ~ In j (claims x)) ->
  apply_transition sigma i x tr = Ok y ->
  ev_dispatch i x tr y = true \/ dispatch_ready_conj i x tr = false.
Proof.
  intros N Hcl H.
  unfold ev_dispatch. destruct (ekind_of x tr) eqn:Ek; try (left; reflexivity).
  destruct (ekind_machine _ _ _ Ek) as [[m [ms [s [Hc [Hms [Hn K]]]]]]|[t [ts [s [Hc [Hts [Hn K]]]]]]]; [congruence| |].
  { exfalso. destruct (m_st ms), s; try contradiction; discriminate. }
  rewrite Hc. assert (Hst : t_st ts = TIdle) by (destruct (t_st ts), s; try contradiction; try discriminate; reflexivity).
  assert (Htw : is_tw tr = true) by (unfold is_tw; rewrite Hn; destruct (t_st ts), s; try contradiction; try discriminate; reflexivity).
  destruct (apply_transport sigma i _ _ _ _ _ Hc Hts H) as [[_ [_ C]]|[[B _]|[[[B|B] _]|[[[B|B] _]|[[B _]|[B _]]]]]]; try congruence.
  destruct (post_dispatch i _ _ _ _ _ Hts C) as [j [p [jb [target [c [ttp [Ej [El [Hjb [Hd [Htl [Hrd [Hts' _]]]]]]]]]]]]].
  unfold dispatch_ready_conj. rewrite Ej, Hts. cbn [opt_b]. rewrite Hts'. cbn [opt_b]. rewrite Hjb. cbn [opt_b].
  rewrite El, Hd, Htl. cbn [opt_b]. rewrite Hrd.
  pose proof (tc_read_nonneg _ _ _ (no_sto _ N) (travel_nonneg i Hnn _ _ _ Htl) Hrd) as H0.
  replace (0 <=? ttp) with true by (symmetry; apply Z.leb_le; lia).
  cbn [t_occ t_st t_job t_loc occ_is tstate_eqb opt_nat_eqb].
  rewrite Z.eqb_refl, Nat.eqb_refl, !place_eqb_refl.
  assert (Eb : bid_eqb (j_loc jb) (j_loc jb) = true) by (apply bid_eqb_eq; reflexivity). rewrite Eb.
  assert (Hm : mem_nat j (claims x) = false).
  { destruct (mem_nat j (claims x)) eqn:E; [|reflexivity]. exfalso. apply (Hcl Htw j Ej). apply mem_nat_In. exact E. }
  rewrite Hm. simpl.
  destruct (i_early i || match is_ready i x j jb with Ok r => r | Err _ => false end); [left|right]; reflexivity.
Qed.

End EO.
