(* C11, last sentence, the part that IS true: every dispatch OFFERED to the agent names a job that is ready for pickup (when early transport is
   disabled) in the state the offer is presented in - which is the state an accepted offer is applied in. The counterexample of Props/C11.v
   (C11_dispatch_only_to_ready_jobs_refuted) is a dispatch the simulator applies by itself (zero travel time), after other transitions of its batch.
   No hypothesis on the run: the offers of a result are offers computed from its state. *)
From Coq Require Import List ZArith Bool Arith Lia.
From JSL Require Import Base.Res Base.ListX SM.Types SM.Util SM.Handler SM.Step SM.Middleware SM.Events SMP.ListLemmas SMP.Offers SMP.StepInv SMP.Reflect.
Import ListNotations.
Local Open Scope Z_scope.

Section RO.
Variable sigma : oracle.
Variable i : inst.

Lemma offered_dispatch_ready x l tr :
  get_possible_transport_transition i x = Ok l -> In tr l ->
  tr_new tr = NT TWorking /\ dispatch_ready_conj i x tr = true.
Proof.
  unfold get_possible_transport_transition. intros H Hin.
  destruct (filterM _ (indexed 0 (s_trans x))) as [poss|] eqn:F1; simpl in H; [|discriminate].
  destruct (filterM _ _) as [transp|] eqn:F2 in H; simpl in H; [|discriminate].
  match type of H with bind ?e _ = _ => destruct e as [lon|] eqn:F3; simpl in H; [|discriminate] end.
  inversion H; subst; clear H.
  apply in_flat_map in Hin. destruct Hin as [[t ts] [Hp Hin]]. apply in_map_iff in Hin.
  destruct Hin as [[j jb] [<- Hl]]. split; [reflexivity|]. unfold dispatch_ready_conj. cbn [tr_job].
  destruct (i_early i) eqn:Ee.
  - inversion F3; subst. apply filter_In in Hl. destruct Hl as [Hc _].
    assert (Hjb : nth_error (s_jobs x) j = Some jb).
    { apply in_app_iff in Hc. destruct Hc as [Hc|Hc].
      - apply filter_In in Hc. destruct Hc as [Hc _]. apply in_indexed0; auto.
      - destruct (filterM_in _ _ _ _ F2 Hc) as [Hc' _]. apply filter_In in Hc'. destruct Hc' as [Hc' _]. apply in_indexed0; auto. }
    rewrite Hjb. reflexivity.
  - destruct (filterM_in _ _ _ _ F3 Hl) as [Hl' Hr]. apply filter_In in Hl'. destruct Hl' as [Hc _].
    assert (Hjb : nth_error (s_jobs x) j = Some jb).
    { apply in_app_iff in Hc. destruct Hc as [Hc|Hc].
      - apply filter_In in Hc. destruct Hc as [Hc _]. apply in_indexed0; auto.
      - destruct (filterM_in _ _ _ _ F2 Hc) as [Hc' _]. apply filter_In in Hc'. destruct Hc' as [Hc' _]. apply in_indexed0; auto. }
    rewrite Hjb. simpl in Hr. rewrite Hr. reflexivity.
Qed.

Lemma mapM_in_ok {A B} (f : A -> res B) : forall l r b, mapM f l = Ok r -> In b r -> exists a, In a l /\ f a = Ok b.
Proof.
  induction l as [|a l IH]; intros r b H Hb; simpl in H.
  - injection H as <-. destruct Hb.
  - destruct (f a) as [b0|] eqn:E; simpl in H; [|discriminate]. destruct (mapM f l) as [bs|] eqn:Em; simpl in H; [|discriminate].
    injection H as <-. destruct Hb as [Hb|Hb].
    + subst b0. exists a. split; [left; reflexivity|exact E].
    + destruct (IH bs b eq_refl Hb) as [a0 [A1 A2]]. exists a0. split; [right; exact A1|exact A2].
Qed.

Lemma offered_ready x full tr :
  get_possible_transitions i x = Ok full -> In tr full -> tr_new tr = NT TWorking -> dispatch_ready_conj i x tr = true.
Proof.
  unfold get_possible_transitions. intros H Hin Hn.
  destruct (filterM _ _) as [pj|] eqn:E1 in H; simpl in H; [|discriminate].
  destruct (get_possible_transport_transition i x) as [pt|] eqn:E2; simpl in H; [|discriminate].
  destruct (mapM _ pj) as [mt|] eqn:E3; simpl in H; [|discriminate]. inversion H; subst; clear H.
  apply in_app_iff in Hin. destruct Hin as [Hin|Hin].
  - exfalso. destruct (mapM_in_ok _ _ _ _ E3 Hin) as [[j jb] [_ Hf]].
    destruct (first_idle jb) as [k|]; simpl in Hf; [|discriminate]. destruct (nth_error (j_ops jb) k); simpl in Hf; [|discriminate].
    inversion Hf; subst. discriminate.
  - exact (proj2 (offered_dispatch_ready _ _ _ E2 Hin)).
Qed.

(* the offers of a result are offers of its state *)
Definition offers_from_state (r : result) : Prop :=
  forall tr, In tr (r_offers r) -> exists full, get_possible_transitions i (r_x r) = Ok full /\ In tr full.

Lemma exit_offers x x' offers lg lg' :
  (if all_in_output i x
   then match max_done_end x with
        | Ok (Some z) => SOk (set_now x z) [] lg
        | Ok None => SOk x [] lg
        | Err e => SRaise e end
   else match get_possible_transitions i x with
        | Ok offers => SOk x offers lg
        | Err e => SRaise e end) = SOk x' offers lg' -> offers_from_state (mkResult x' offers []).
Proof.
  intros H tr Hin. cbn [r_offers r_x] in *. destruct (all_in_output i x).
  - destruct (max_done_end x) as [[z|]|]; [| |discriminate]; injection H as E1 E2 E3; subst offers; destruct Hin.
  - destruct (get_possible_transitions i x) as [full|] eqn:Ef; [|discriminate]. injection H as E1 E2 E3. subst x' offers. eauto.
Qed.

Lemma timed_loop_offers : forall fuel x0 x timed lg x' offers lg',
  timed_loop sigma i fuel x0 x timed lg = SOk x' offers lg' -> offers_from_state (mkResult x' offers []).
Proof.
  induction fuel as [|f IH]; intros x0 x timed lg x' offers lg' H.
  - destruct timed; simpl in H; [eapply exit_offers; eauto|discriminate].
  - destruct timed as [|tr r]; [simpl in H; eapply exit_offers; eauto|]. cbn [timed_loop] in H.
    destruct (process_transitions sigma i (tr :: r) x 0 lg) as [[[x1 nerr] lg1]|]; [|discriminate].
    destruct (Nat.ltb 0 nerr); [discriminate|]. destruct (jump_to_event i x1) as [t|]; [|discriminate].
    destruct (create_timed_transitions i (set_now x1 t)); [|discriminate]. eapply IH; eauto.
Qed.

Lemma step_offers fuel x0 trs tm x' offers lg' : step sigma i fuel x0 trs tm = SOk x' offers lg' -> offers_from_state (mkResult x' offers []).
Proof.
  unfold step. intros H.
  destruct (match trs with [] => _ | _ => _ end) as [[[x1 nerr] lg1]|]; [|discriminate].
  destruct (Nat.ltb 0 nerr); [discriminate|]. destruct (run_time_machine i tm x1) as [t|]; [|discriminate].
  destruct (create_timed_transitions i (set_now x1 t)) as [timed|]; [|discriminate].
  destruct (get_possible_transitions i (set_now x1 t)) as [poss|]; [|discriminate].
  destruct (filter_teleport i (set_now x1 t) poss) as [tele|]; [|discriminate]. eapply timed_loop_offers; eauto.
Qed.

Lemma mw_step_offers fuel r m a r' m' lg : offers_from_state r -> mw_step sigma i fuel r m a = MOk r' m' lg -> offers_from_state r'.
Proof.
  intros Hr H. unfold mw_step in H. destruct (r_offers r) as [|tr rest] eqn:Eo; [discriminate|].
  destruct (negb ((a =? 0) || (a =? 1))); [discriminate|]. destruct (a =? 0).
  - destruct rest as [|tr2 rest].
    + destruct (step sigma i fuel (r_x r) [] TMForceJump) as [x offers lg0| | |] eqn:Es; try discriminate.
      pose proof (step_offers _ _ _ _ _ _ _ Es) as L. destruct offers.
      * destruct (all_in_output i x); [|discriminate]. inversion H; subst. intros tr0 [].
      * inversion H; subst. exact L.
    + inversion H; subst. intros tr0 Hin. cbn [r_offers r_x] in *. apply Hr. rewrite Eo. right. exact Hin.
  - destruct (step sigma i fuel (r_x r) [tr] TMJumpToEvent) as [x offers lg0| | |] eqn:Es; try discriminate.
    inversion H; subst. exact (step_offers _ _ _ _ _ _ _ Es).
Qed.

Theorem reach_offers fuel x0 joker0 ta r m : reach sigma i fuel x0 joker0 ta r m -> offers_from_state r.
Proof.
  intros H. induction H as [r m lg H|r m a r' m' lg H IH Hs].
  - unfold mw_reset in H. destruct (step sigma i fuel x0 [] TMJumpToEvent) as [x offers lg0| | |] eqn:Es; try discriminate.
    inversion H; subst. exact (step_offers _ _ _ _ _ _ _ Es).
  - eapply mw_step_offers; eauto.
Qed.

(* every dispatch on offer names a ready job (or early transport is allowed), in the state the offer is presented - and applied - in *)
Theorem offered_dispatches_are_ready fuel x0 joker0 ta r m tr :
  reach sigma i fuel x0 joker0 ta r m -> In tr (r_offers r) -> tr_new tr = NT TWorking -> dispatch_ready_conj i (r_x r) tr = true.
Proof.
  intros H Hin Hn. destruct (reach_offers _ _ _ _ _ _ H tr Hin) as [full [Hf Hi]]. eapply offered_ready; eauto.
Qed.

End RO.
