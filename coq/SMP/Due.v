(* C02/C07/C09/C10/C12: timed events fire exactly when they are due - the event clause ev_due (SM/Events.v) along every run.
   "Not late" is the clock invariant NO (an AGV's occupied_till is never in the past, a PROCESSING record never ends in the past)
   with BO (a busy machine's occupied_till is the end of its PROCESSING record, SMP/Durations.v); "not early" is a batch invariant:
   the simulator creates a timed transition only when occupied_till <= now, and nothing applied before it in the same batch touches
   its component. The stack of SMP/Transit.v (J10, Q9) is composed with BO/DUR and the two due facts. *)
From Coq Require Import List ZArith Bool Arith Lia.
From JSL Require Import Base.Res Base.ListX SM.Types SM.Util SM.Handler SM.Step SM.Middleware SM.Inv SM.Events
  SMP.ListLemmas SMP.Frame SMP.WF SMP.Preserve SMP.StepInv SMP.Clock SMP.ClockStep SMP.ClockMain SMP.LiftSide SMP.Agv SMP.OutputDone SMP.Post SMP.PostApply SMP.FeasView SMP.Feasible SMP.Offers SMP.Unique SMP.Reflect
  SMP.DepLists SMP.Prov SMP.StoreEff SMP.LiftProv SMP.ProvBatch SMP.Claims SMP.Durations SMP.Travel SMP.Hold SMP.Deliver SMP.OffersValid SMP.NoFail SMP.Release SMP.SampledOk SMP.EventsOk SMP.Transit.
Import ListNotations.
Close Scope Z_scope.

Section Due.
Variable sigma : oracle.
Variable i : inst.
Hypothesis Hnn : inst_nonneg_b i = true.

Definition timed_m (tr : transition) : Prop := tr_new tr = NM MWorking \/ tr_new tr = NM MOutage \/ tr_new tr = NM MIdle.
Definition timed_t (tr : transition) : Prop := tr_new tr = NT TOutage \/ tr_new tr = NT TIdle \/ tr_new tr = NT TWaiting.

Definition due_all (x : state) (tr : transition) : Prop :=
  (forall m, tr_comp tr = CM m -> timed_m tr -> exists st z l, mrec x m = Some (st, Time z, l) /\ (z <= s_now x)%Z)
  /\ (forall t, tr_comp tr = CT t -> timed_t tr ->
        exists st oc jb, tc x t = Some (st, oc, jb) /\ st <> TIdle /\ (st = TWaiting \/ exists z, oc = OAt z /\ (z <= s_now x)%Z)).

Lemma timed_not_dispatch tr : timed_m tr \/ timed_t tr -> is_tworking tr = false.
Proof. unfold is_tworking. intros [[H|[H|H]]|[H|[H|H]]]; rewrite H; reflexivity. Qed.

(* the component of a transition still to be applied is not the one of the transition applied now *)
Lemma other_component x tr0 R x' tr1 :
  Q (tr0 :: R) x -> apply_transition sigma i x tr0 = Ok x' -> In tr1 R -> is_tworking tr1 = false ->
  (forall t st oc jb, tr_comp tr1 = CT t -> tc x t = Some (st, oc, jb) -> st <> TIdle) ->
  tr_comp tr0 <> tr_comp tr1.
Proof.
  intros [ND _] H Hin Hw Hidle Hc0.
  assert (Hcore1 : In tr1 (core R)) by (apply in_core; auto).
  destruct (is_tworking tr0) eqn:Ew.
  - unfold is_tworking in Ew. destruct (tr_new tr0) as [s0|s0] eqn:En0; [discriminate|]. destruct s0; try discriminate.
    destruct (tr_comp tr0) as [m|t|n] eqn:Hc.
    + destruct (nth_error (s_machs x) m) as [ms|] eqn:Hms; [|unfold apply_transition in H; rewrite Hc, Hms in H; discriminate].
      destruct (apply_machine sigma i _ _ _ _ _ Hc Hms H) as [[_ [E _]]|[[_ [E _]]|[[_ [E _]]|[_ [E _]]]]]; rewrite En0 in E; discriminate.
    + destruct (nth_error (s_trans x) t) as [ts|] eqn:Hts; [|unfold apply_transition in H; rewrite Hc, Hts in H; discriminate].
      destruct (apply_transport sigma i _ _ _ _ _ Hc Hts H) as [[E _]|[[_ [E _]]|[[_ [E _]]|[[_ [E _]]|[[_ [E _]]|[_ [E _]]]]]]];
        try (rewrite En0 in E; discriminate).
      apply (Hidle t (t_st ts) (t_occ ts) (t_job ts) (eq_sym Hc0) (tc_of _ _ _ Hts)). exact E.
    + unfold apply_transition in H. rewrite Hc in H. destruct (nth_error (s_bufs x) n); discriminate.
  - rewrite core_cons, Ew in ND. simpl in ND. inversion ND as [|? ? Hnin _]. apply Hnin. rewrite Hc0. apply in_map. exact Hcore1.
Qed.

Lemma due_all_step x tr0 R x' tr1 :
  WFS i x -> WFS i x' -> Q (tr0 :: R) x -> apply_transition sigma i x tr0 = Ok x' -> In tr1 R -> due_all x tr1 -> due_all x' tr1.
Proof.
  intros W W' HQ H Hin [Dm Dt]. split.
  - intros m Hc1 Hk. destruct (Dm m Hc1 Hk) as [st [z [l [Hr Hz]]]].
    assert (Hn0 : tr_comp tr0 <> CM m).
    { rewrite <- Hc1. eapply other_component; eauto; [apply timed_not_dispatch; auto|]. intros t st0 oc jb Hc. rewrite Hc1 in Hc. discriminate. }
    assert (Hrec : exists l', mrec x' m = Some (st, Time z, l')).
    { destruct (tr_comp tr0) as [m0|t0|n0] eqn:Hc0.
      - exists l. rewrite (machine_tr_mrec_other sigma i _ _ _ m0 m H Hc0) by congruence. exact Hr.
      - destruct (transport_tr_frame sigma i _ _ _ _ H Hc0) as [_ A2].
        assert (Hlt : m < length (s_machs x')).
        { rewrite (ws_lm _ _ W'), <- (ws_lm _ _ W). unfold mrec in Hr. destruct (nth_error (s_machs x) m) eqn:E; [|discriminate]. eapply nth_error_lt; eauto. }
        destruct (nth_error (s_machs x') m) as [ms'|] eqn:E'; [|apply nth_error_None in E'; lia].
        destruct (A2 _ _ _ _ (mrec_of _ _ _ E')) as [l0 [G _]]. rewrite Hr in G. inversion G. exists (b_store (m_in ms')). rewrite (mrec_of _ _ _ E'). congruence.
      - unfold apply_transition in H. rewrite Hc0 in H. destruct (nth_error (s_bufs x) n0); discriminate. }
    destruct Hrec as [l' Hr']. exists st, z, l'. split; auto. rewrite (apply_now sigma i _ _ _ H). exact Hz.
  - intros t Hc1 Hk. destruct (Dt t Hc1 Hk) as [st [oc [jb [Htc [Hni Hz]]]]].
    assert (Hn0 : tr_comp tr0 <> CT t).
    { rewrite <- Hc1. eapply other_component; eauto; [apply timed_not_dispatch; auto|].
      intros t0 st0 oc0 jb0 Hc Htc0. rewrite Hc1 in Hc. inversion Hc; subst t0. rewrite Htc in Htc0. inversion Htc0; subst. exact Hni. }
    exists st, oc, jb. rewrite (apply_tc_other sigma i _ _ _ t H Hn0), (apply_now sigma i _ _ _ H). auto.
Qed.

(* offers (machine starts, dispatches) are not timed *)
Lemma OK3_due_all x tr : OK3 x tr -> due_all x tr.
Proof.
  intros [[m [j ->]]|[t [j ->]]]; split; intros k Hc Hk; unfold timed_m, timed_t in Hk; simpl in *;
    try discriminate; destruct Hk as [Hk|[Hk|Hk]]; discriminate.
Qed.

Lemma due_all_created x timed tele :
  J i x -> create_timed_transitions i x = Ok timed -> (forall tr, In tr tele -> OK3 x tr) ->
  forall tr, In tr (timed ++ tele) -> due_all x tr.
Proof.
  intros HJ H Htele tr Hin. apply in_app_iff in Hin. destruct Hin as [Hin|Hin]; [|apply OK3_due_all; auto].
  pose proof HJ as [W [_ Dn]].
  unfold create_timed_transitions in H.
  destruct (create_timed_machine_transitions i x) as [a|] eqn:Ea; simpl in H; [|discriminate].
  destruct (create_timed_transport_transitions i x) as [b|] eqn:Eb; simpl in H; [|discriminate].
  inversion H; subst; clear H. apply in_app_iff in Hin. destruct Hin as [Hin|Hin].
  - destruct (timed_machines_in _ _ _ _ _ _ Ea Hin) as [k [ms [Hms Htm]]]. simpl in Htm. split.
    + intros m Hc Hk. destruct (timed_machine_spec i _ _ _ _ Htm) as [[z [j [Ho [Hz [_ [Hc' _]]]]]]|[c [j [_ [_ [_ ->]]]]]].
      * rewrite Hc in Hc'. inversion Hc'; subst k. exists (m_st ms), z, (b_store (m_in ms)).
        split; [rewrite (mrec_of _ _ _ Hms), Ho; reflexivity|exact Hz].
      * unfold timed_m in Hk. simpl in Hk. destruct Hk as [Hk|[Hk|Hk]]; discriminate.
    + intros t Hc. destruct (timed_machines_comps i _ _ _ _ Ea) as [A1 _]. destruct (A1 _ Hin) as [[k0 [Hk0 _]] _]. congruence.
  - destruct (timed_transport_slot i x _ _ HJ Eb Hin) as [k [ts [Hts [Htt [Hc' Hocc]]]]]. split.
    + intros m Hc. congruence.
    + intros t Hc Hk. rewrite Hc in Hc'. inversion Hc'; subst k. exists (t_st ts), (t_occ ts), (t_job ts).
      split; [apply tc_of; exact Hts|].
      destruct Hocc as [[z Ho]|[b0 [k0 [d [Ho _]]]]].
      * unfold timed_transport in Htt. rewrite Ho in Htt.
        destruct (z <=? s_now x)%Z eqn:Ez; [|discriminate]. apply Z.leb_le in Ez.
        split; [|right; exists z; auto].
        intros Ei. rewrite Ei in Htt. simpl in Htt. discriminate.
      * destruct (Dn t (t_st ts) b0 k0 d (t_job ts)) as [Est _]; [rewrite (tc_of _ _ _ Hts), Ho; reflexivity|].
        split; [rewrite Est; discriminate|left; exact Est].
Qed.

(* ---------- the clause for one transition ---------- *)
Lemma due_machine x m ms :
  NO x -> FE i x -> BO x -> nth_error (s_machs x) m = Some ms -> m_st ms <> MIdle ->
  (exists st z l, mrec x m = Some (st, Time z, l) /\ (z <= s_now x)%Z) -> time_eqb (m_occ ms) (Time (s_now x)) = true.
Proof.
  intros N F B Hms Hst [st [z [l [Hr Hz]]]]. rewrite (mrec_of _ _ _ Hms) in Hr. inversion Hr as [[E1 E2 E3]].
  assert (Hv : v_m (view_of x) m = Some (m_st ms, b_store (m_in ms))) by (simpl; unfold mview; rewrite Hms; reflexivity).
  destruct (fe_hold _ _ F _ _ _ Hv) as [_ Bh]. destruct (Bh Hst) as [j [k [o [El [[ops [Ho1 Ho2]] [So _]]]]]].
  simpl in Ho1.
  assert (Hend : o_end o = m_occ ms).
  { apply (B m (m_st ms) (m_occ ms) (b_store (m_in ms)) j ops k o (mrec_of _ _ _ Hms) Hst); auto. rewrite El. left. reflexivity. }
  unfold jops in Ho1. destruct (nth_error (s_jobs x) j) as [jb|] eqn:Hjb; [|discriminate]. simpl in Ho1. inversion Ho1; subst ops.
  destruct (no_ops _ N j jb o Hjb (nth_error_In _ _ Ho2) So) as [z' [Ez' Hz']].
  rewrite E2 in Hend. rewrite Hend in Ez'. inversion Ez'; subst z'. rewrite E2. simpl. apply Z.eqb_eq. lia.
Qed.

Lemma due_agv x t ts :
  NO x -> nth_error (s_trans x) t = Some ts -> t_st ts <> TIdle -> t_st ts <> TWaiting ->
  (exists st oc jb, tc x t = Some (st, oc, jb) /\ st <> TIdle /\ (st = TWaiting \/ exists z, oc = OAt z /\ (z <= s_now x)%Z)) ->
  occ_is (t_occ ts) (s_now x) = true.
Proof.
  intros N Hts Hni Hnw [st [oc [jb [Htc [_ Hz]]]]]. rewrite (tc_of _ _ _ Hts) in Htc. inversion Htc as [[E1 E2 E3]].
  destruct Hz as [Hw|[z [Eo Hz]]]; [congruence|].
  destruct (no_trans _ N _ _ Hts) as [A _]. specialize (A Hni). rewrite E2, Eo in A. rewrite E2, Eo. simpl. apply Z.eqb_eq. lia.
Qed.

Theorem ev_due_holds x tr y : NO x -> FE i x -> BO x -> due_all x tr -> ev_due x tr y = true.
Proof.
  intros N F B [Dm Dt]. unfold ev_due. destruct (ekind_of x tr) eqn:Ek; try reflexivity;
    (destruct (ekind_machine _ _ _ Ek) as [[m [ms [s [Hc [Hms [Hn K]]]]]]|[t [ts [s [Hc [Hts [Hn K]]]]]]]; [congruence| |]);
    rewrite Hc; try reflexivity.
  all: try (exfalso; destruct (m_st ms), s; try contradiction; discriminate).
  all: try (exfalso; destruct (t_st ts), s; try contradiction; discriminate).
  - rewrite Hms. cbn [opt_b]. apply (due_machine x m ms N F B Hms); [destruct (m_st ms), s; try contradiction; discriminate|].
    apply Dm; auto. unfold timed_m. rewrite Hn. destruct (m_st ms), s; try contradiction; try discriminate; auto.
  - rewrite Hms. cbn [opt_b]. apply (due_machine x m ms N F B Hms); [destruct (m_st ms), s; try contradiction; discriminate|].
    apply Dm; auto. unfold timed_m. rewrite Hn. destruct (m_st ms), s; try contradiction; try discriminate; auto.
  - rewrite Hms. cbn [opt_b]. apply (due_machine x m ms N F B Hms); [destruct (m_st ms), s; try contradiction; discriminate|].
    apply Dm; auto. unfold timed_m. rewrite Hn. destruct (m_st ms), s; try contradiction; try discriminate; auto.
  - rewrite Hts. cbn [opt_b]. apply (due_agv x t ts N Hts); try (destruct (t_st ts), s; try contradiction; discriminate).
    apply Dt; auto. unfold timed_t. rewrite Hn. destruct (t_st ts), s; try contradiction; try discriminate; auto.
  - rewrite Hts. cbn [opt_b]. apply (due_agv x t ts N Hts); try (destruct (t_st ts), s; try contradiction; discriminate).
    apply Dt; auto. unfold timed_t. rewrite Hn. destruct (t_st ts), s; try contradiction; try discriminate; auto.
  - rewrite Hts. cbn [opt_b]. apply (due_agv x t ts N Hts); try (destruct (t_st ts), s; try contradiction; discriminate).
    apply Dt; auto. unfold timed_t. rewrite Hn. destruct (t_st ts), s; try contradiction; try discriminate; auto.
Qed.

(* ---------- lifting ---------- *)
Definition J11 (x : state) : Prop := J10 i x /\ BO x /\ DUR i x.
Definition Q11 (R : list transition) (x : state) : Prop :=
  Q9 i R x /\ (forall tr, In tr R -> due_fact x tr) /\ (forall tr, In tr R -> due_all x tr).

Lemma J10_J x : J10 i x -> J i x.
Proof. intros [[[Hj _] _] _]. exact Hj. Qed.
Lemma Q9_Q R x : Q9 i R x -> Q R x.
Proof. intros [[HQ _] _]. exact HQ. Qed.

Theorem J11_apply x tr R x' :
  NO x -> J11 x -> Q11 (tr :: R) x -> is_transition_valid x tr = Ok true -> apply_transition sigma i x tr = Ok x' ->
  J11 x' /\ Q11 R x' /\ side2 tr x' = true.
Proof.
  intros N [Hj [B D]] [HQ [Hd Hda]] Hv Ha.
  destruct (J10_apply sigma i Hnn _ _ _ _ N Hj HQ Hv Ha) as [Hj' [HQ' S]].
  pose proof (J10_J _ Hj) as Hj0. pose proof (J10_J _ Hj') as Hj0'. pose proof (Q9_Q _ _ HQ) as HQ0.
  destruct (apply_preserves_BD sigma i Hnn _ _ _ N Hj0 B D (Hd tr (or_introl eq_refl)) Hv Ha) as [B' D'].
  destruct Hj0 as [W _]. destruct Hj0' as [W' _].
  split; [split; [exact Hj'|split; assumption]|]. split; [|exact S]. split; [exact HQ'|]. split.
  - intros tr1 Hin. apply (due_fact_step sigma i x tr R x' tr1 W W' HQ0 Ha Hin). apply Hd. right. exact Hin.
  - intros tr1 Hin. apply (due_all_step x tr R x' tr1 W W' HQ0 Ha Hin). apply Hda. right. exact Hin.
Qed.

Lemma J11_now x t : J11 x -> (s_now x <= t)%Z -> J11 (set_now x t).
Proof. intros [Hj [B D]] H. split; [apply (J10_now i); auto|apply BO_DUR_set_now; auto]. Qed.

Lemma E11_end x : J11 x -> Q11 [] x -> BI x.
Proof. intros [Hj _] [HQ _]. eapply (E10_end i); eauto. Qed.

Lemma tele_ok3 x poss tele : get_possible_transitions i x = Ok poss -> filter_teleport i x poss = Ok tele -> forall tr, In tr tele -> OK3 x tr.
Proof.
  intros Hp Hf tr Hin. pose proof (tele_sub i _ _ _ Hf _ Hin) as Hi. destruct (offers_shape i _ _ _ Hp Hi); [left|right]; auto.
Qed.

Lemma Q11_timed x timed poss tele : NO x -> J11 x -> BI x -> create_timed_transitions i x = Ok timed ->
  get_possible_transitions i x = Ok poss -> filter_teleport i x poss = Ok tele -> Q11 (timed ++ tele) x.
Proof.
  intros N [Hj _] Hb H Hp Hf. pose proof (J10_J _ Hj) as Hj0. split; [eapply (Q10_timed i); eauto|]. split.
  - eapply due_created; eauto. eapply tele_sub; eauto.
  - eapply due_all_created; eauto. eapply tele_ok3; eauto.
Qed.

Lemma Q11_timed0 x timed : NO x -> J11 x -> BI x -> create_timed_transitions i x = Ok timed -> Q11 timed x.
Proof.
  intros N [Hj [B D]] Hb H. pose proof (J10_J _ Hj) as Hj0. split; [eapply (Q10_timed0 i); eauto|]. split.
  - assert (J3x : J3 i x) by (split; [exact Hj0|split; assumption]). destruct (Q3_timed0 i x timed N J3x Hb H) as [_ Hd]. exact Hd.
  - intros tr Hin. apply (due_all_created x timed [] Hj0 H (fun tr0 (Hf : In tr0 []) => match Hf with end)). rewrite app_nil_r. exact Hin.
Qed.

Lemma Q11_offer x o : J11 x -> BI x -> create_timed_transitions i x = Ok [] -> OK9 i x o -> Q11 [o] x.
Proof.
  intros [Hj _] Hb Hct Ho. split; [eapply (Q10_offer i); eauto|].
  assert (H3 : OK3 x o). { destruct Ho as [_ [full [Hfull Hin]]]. destruct (offers_shape i _ _ _ Hfull Hin); [left|right]; auto. }
  split; intros tr [<-|[]]; [apply OK3_due|apply OK3_due_all]; exact H3.
Qed.

(* every entry of every micro-log was applied exactly when it was due *)
Fixpoint chain_due (x : state) (lg : mlog) : Prop :=
  match lg with
  | [] => True
  | (tr, y) :: r => (exists x1, ceq x x1 /\ ev_due x1 tr y = true) /\ chain_due y r
  end.

Theorem run_due_ok fuel x0 joker0 ta r m a r' m' lg :
  clock_b x0 = true -> wfs_b i x0 = true -> fresh2_b i x0 = true -> nodep_b x0 = true -> pre_ok_b x0 = true ->
  reach sigma i fuel x0 joker0 ta r m -> mw_step sigma i fuel r m a = MOk r' m' lg -> chain_due (r_x r) lg.
Proof.
  intros C W Fr Dn Po H Hm. pose proof (clock_idle_unclaimed _ C) as Iu. apply NO_iff_clock_b in C.
  assert (Fr1 : fresh_b i x0 = true) by (unfold fresh2_b in Fr; apply andb_true_iff in Fr; destruct Fr as [Fr _]; apply andb_true_iff in Fr; tauto).
  assert (J0 : J11 x0) by (split; [split; [apply (J8_init i); auto|apply (RT0_init i); auto]|apply fresh_BO_DUR; auto]).
  pose proof (reach_micro_chain sigma i Hnn J11 Q11 side2 (OK9 i) BI J11_apply J11_now E11_end BI_now
                Q11_timed Q11_timed0 Q11_offer (offers_ok9 i)
                _ _ _ _ _ _ _ _ _ _ C J0 (BI_init _ Dn) H Hm) as Hch.
  clear -Hch Hnn. revert Hch. generalize (r_x r). induction lg as [|[tr y] rest IH]; intros x Hch; simpl in *; [exact I|].
  destruct Hch as [[x1 [Ex [N1 [[Hj [B D]] [[R [_ [_ HD]]] [_ Ha]]]]]] Hrest].
  split; [|apply IH; exact Hrest]. exists x1. split; [exact Ex|].
  destruct (J10_J _ Hj) as [_ [[F _] _]]. apply ev_due_holds; auto. apply HD. left. reflexivity.
Qed.

End Due.
