(* The event clauses over whole runs: every entry (tr, y) of the micro-log of every decision of every run was applied to a
   state x1 (the previous micro-state up to the clock: the time machine may have advanced it) with the event clauses of
   SM/Events.v true of (x1, tr, y): setup pays the matrix entry and mounts the tool (C09), no other event changes a tool
   (C09), processing is planned for exactly the drawn duration on the configured machine (C02), the end of processing
   samples the outages as configured and blocks for the longest one (C02/C10), the release stamps the end and appends the
   job to the post-buffer (C02/C08/C10), a delivery appends the job at the back of the route's destination, empties the AGV, drops the
   claim and blocks the AGV for its longest sampled outage (C07/C10), AGV release (C10), stores change by remove-one/append-one only (C08), the clock
   does not move inside a transition. The dispatch clause (C07/C11) holds of every entry too, up to its readiness conjunct,
   which is false in some runs (Props/C11.v). *)
From Coq Require Import List ZArith Bool Arith Lia.
From JSL Require Import Base.Res Base.ListX SM.Types SM.Util SM.Handler SM.Step SM.Middleware SM.Inv SM.Events
  SMP.ListLemmas SMP.Frame SMP.WF SMP.Preserve SMP.StepInv SMP.Clock SMP.ClockStep SMP.ClockMain SMP.LiftSide SMP.Agv SMP.OutputDone SMP.Post SMP.PostApply SMP.FeasView SMP.Feasible SMP.Offers SMP.Unique SMP.Reflect
  SMP.DepLists SMP.Prov SMP.StoreEff SMP.LiftProv SMP.ProvBatch SMP.Claims SMP.Durations SMP.Travel SMP.Hold SMP.Deliver SMP.OffersValid SMP.NoFail SMP.Release SMP.EventsOk.
Import ListNotations.
Close Scope Z_scope.

Section ER.
Variable sigma : oracle.
Variable i : inst.
Hypothesis Hnn : inst_nonneg_b i = true.

Definition events_ok (x : state) (tr : transition) (y : state) : bool :=
  ev_setup i x tr y && ev_tool_frame x tr y && ev_work i x tr y && ev_machine_outage i x tr y
  && ev_machine_release x tr y && ev_deliver i x tr y && ev_transport_release x tr y && ev_stores x tr y && ev_clock x tr y.

Fixpoint chain_events (x : state) (lg : mlog) : Prop :=
  match lg with
  | [] => True
  | (tr, y) :: r => (exists x1, ceq x x1 /\ events_ok x1 tr y = true
                                 /\ (ev_dispatch i x1 tr y = true \/ dispatch_ready_conj i x1 tr = false)) /\ chain_events y r
  end.

Theorem apply_events_ok x tr y :
  NO x -> FE i x -> AG x -> apply_transition sigma i x tr = Ok y -> events_ok x tr y = true.
Proof.
  intros N F A H. unfold events_ok.
  rewrite (apply_ev_setup sigma i Hnn _ _ _ N F H), (apply_ev_tool_frame sigma i _ _ _ H), (apply_ev_work sigma i Hnn _ _ _ N F H),
    (apply_ev_machine_outage sigma i Hnn _ _ _ N F H), (apply_ev_machine_release sigma i _ _ _ N F H), (apply_ev_deliver sigma i Hnn _ _ _ N A H),
    (apply_ev_transport_release sigma i _ _ _ N A H), (apply_ev_stores sigma i _ _ _ H), (apply_ev_clock sigma i _ _ _ H).
  reflexivity.
Qed.

Theorem run_events_ok fuel x0 joker0 ta r m a r' m' lg :
  clock_b x0 = true -> wfs_b i x0 = true -> fresh2_b i x0 = true -> nodep_b x0 = true -> pre_ok_b x0 = true ->
  reach sigma i fuel x0 joker0 ta r m -> mw_step sigma i fuel r m a = MOk r' m' lg -> chain_events (r_x r) lg.
Proof.
  intros C W Fr Dn Po H Hm. pose proof (clock_idle_unclaimed _ C) as Iu. apply NO_iff_clock_b in C.
  pose proof (reach_micro_chain sigma i Hnn (J8 i) (Q9 i) side2 (OK9 i) BI (J9_apply sigma i Hnn) (J8_now i) (E9_end i) BI_now
                (Q9_timed i) (Q9_timed0 i) (Q9_offer i) (offers_ok9 i)
                _ _ _ _ _ _ _ _ _ _ C (J8_init i _ W Fr Dn Iu Po) (BI_init _ Dn) H Hm) as Hch.
  clear -Hch Hnn. revert Hch. generalize (r_x r). induction lg as [|[tr y] rest IH]; intros x Hch; simpl in *; [exact I|].
  destruct Hch as [[x1 [Ex [N1 [Hj [[R HQ] [_ Ha]]]]]] Hrest].
  split; [|apply IH; exact Hrest]. exists x1. split; [exact Ex|].
  destruct Hj as [[[_ [[F [Ag _]] _]] _] _]. split; [apply apply_events_ok; auto|].
  apply (apply_ev_dispatch sigma i Hnn); auto. intros Htw j Ej Hin.
  destruct HQ as [[_ [[_ HC] _]] _]. destruct (HC tr (or_introl eq_refl) Htw) as [j' [Ej' Hno]].
  assert (j' = j) by congruence. subst j'. apply in_claims in Hin. destruct Hin as [t Ht]. exact (Hno t Ht).
Qed.

End ER.
