(* Provenance of applied transitions. Two small views - where a job lies (jloc) and the control triple of an
   AGV (phase, occupied_till, claim: tc) - and the EFFECT of one applied transition on them: an AGV's triple is
   changed only by transitions of that AGV, a job's location only by a machine taking it from its pre-buffer /
   releasing it to its post-buffer, by the pickup of exactly that job, or by the delivery from the carrying AGV.
   Used by SMP/ProvBatch.v to discharge the side conditions of C01/C04 for instances whose machine post-buffers
   are unordered (FLEX, the compiler's default). *)
From Coq Require Import List ZArith Bool Arith Lia.
From JSL Require Import Base.Res Base.ListX SM.Types SM.Util SM.Handler SM.Step SM.Middleware SM.Inv
  SMP.ListLemmas SMP.Frame SMP.WF SMP.Preserve SMP.StepInv SMP.Post SMP.PostApply.
Import ListNotations.
Close Scope Z_scope.

Definition jloc (x : state) (j : nat) : option bid := option_map j_loc (nth_error (s_jobs x) j).
Definition tc (x : state) (t : nat) : option (tstate * occ * option nat) :=
  option_map (fun ts => (t_st ts, t_occ ts, t_job ts)) (nth_error (s_trans x) t).

(* ---------- frames ---------- *)
Lemma jloc_with_sto x s j : jloc (with_sto x s) j = jloc x j. Proof. reflexivity. Qed.
Lemma jloc_set_now x z j : jloc (set_now x z) j = jloc x j. Proof. reflexivity. Qed.
Lemma tc_with_sto x s t : tc (with_sto x s) t = tc x t. Proof. reflexivity. Qed.
Lemma tc_set_now x z t : tc (set_now x z) t = tc x t. Proof. reflexivity. Qed.
Lemma tc_put_job x j jb t : tc (put_job x j jb) t = tc x t. Proof. reflexivity. Qed.

Lemma jloc_set_mach_ctl x m st oc tool outs j : jloc (set_mach_ctl x m st oc tool outs) j = jloc x j.
Proof. unfold jloc. destruct (set_mach_ctl_other x m st oc tool outs) as [H _]. rewrite H. reflexivity. Qed.
Lemma tc_set_mach_ctl x m st oc tool outs t : tc (set_mach_ctl x m st oc tool outs) t = tc x t.
Proof. unfold tc. destruct (set_mach_ctl_other x m st oc tool outs) as [_ [_ [H _]]]. rewrite H. reflexivity. Qed.
Lemma jloc_set_trans_ctl x t st oc loc jb outs j : jloc (set_trans_ctl x t st oc loc jb outs) j = jloc x j.
Proof. unfold jloc. destruct (set_trans_ctl_other x t st oc loc jb outs) as [H _]. rewrite H. reflexivity. Qed.

Lemma tc_set_trans_ctl x t st oc loc jb outs t' :
  tc (set_trans_ctl x t st oc loc jb outs) t' =
  (if Nat.eqb t' t then option_map (fun _ => (st, oc, jb)) (tc x t') else tc x t').
Proof.
  unfold tc. rewrite set_trans_ctl_nth, (Nat.eqb_sym t' t).
  destruct (nth_error (s_trans x) t') as [ts|]; [|destruct (Nat.eqb t t'); reflexivity].
  destruct (Nat.eqb t t'); reflexivity.
Qed.

Lemma jloc_put_job_same_loc x j jb jb1 j' :
  nth_error (s_jobs x) j = Some jb -> j_loc jb1 = j_loc jb -> jloc (put_job x j jb1) j' = jloc x j'.
Proof.
  intros Hj Hl. unfold jloc, put_job; simpl. rewrite nth_upd.
  destruct (Nat.eqb_spec j j') as [<-|Hne]; [|reflexivity].
  rewrite Hj. pose proof (nth_error_lt _ _ _ Hj) as Hlt. apply Nat.ltb_lt in Hlt. rewrite Hlt. simpl. congruence.
Qed.

Section Moved.
Variable i : inst.

Lemma jloc_moved x x1 j A B j' : moved i x x1 j A B -> jloc x1 j' = if Nat.eqb j' j then Some B else jloc x j'.
Proof.
  intros M. destruct (mv_job _ _ _ _ _ _ M) as [jb [Hjb Hjobs]]. unfold jloc. rewrite Hjobs, nth_upd, (Nat.eqb_sym j' j).
  destruct (Nat.eqb_spec j j') as [<-|Hne]; [|reflexivity].
  pose proof (nth_error_lt _ _ _ Hjb) as Hlt. apply Nat.ltb_lt in Hlt. rewrite Hlt. reflexivity.
Qed.

Lemma tc_moved x x1 j A B t : moved i x x1 j A B -> tc x1 t = tc x t.
Proof.
  intros M. unfold tc. destruct (nth_error (s_trans x1) t) as [ts1|] eqn:E1.
  - destruct (mv_trans _ _ _ _ _ _ M _ _ E1) as [ts0 [E0 [C1 [C2 [C3 [C4 C5]]]]]]. rewrite E0. simpl. congruence.
  - apply nth_error_None in E1. rewrite (mv_len_t _ _ _ _ _ _ M) in E1. apply nth_error_None in E1. rewrite E1. reflexivity.
Qed.

Lemma moved_in_source x x1 j A B : moved i x x1 j A B -> exists a, get_buf x A = Some a /\ In j (b_store a).
Proof.
  intros M. destruct (mv_a _ _ _ _ _ _ M) as [a [a' [H1 [H2 _]]]]. exists a. split; auto.
  apply remove_from_buffer_ok in H2. apply mem_nat_In. tauto.
Qed.

End Moved.

(* ---------- the effect of one applied transition ---------- *)
Section Eff.
Variable sigma : oracle.
Variable i : inst.

(* how job j' can have changed its place: from A (where it was stored) to B *)
Definition mv_kind (x : state) (tr : transition) (A B : bid) (j' : nat) : Prop :=
  (exists m, tr_comp tr = CM m /\ ((A = BPre m /\ B = BIn m) \/ (A = BIn m /\ B = BPost m)))
  \/ (exists t, tr_comp tr = CT t /\ tr_new tr = NT TTransit /\ tr_job tr = Some j' /\ jloc x j' = Some A /\ B = BAgv t
                /\ forall t', A <> BAgv t')
  \/ (exists t, tr_comp tr = CT t /\ tr_new tr = NT TOutage /\ A = BAgv t).

Definition loc_eff (x : state) (tr : transition) (x' : state) : Prop :=
  forall j', jloc x' j' = jloc x j'
             \/ exists A B a, get_buf x A = Some a /\ In j' (b_store a) /\ jloc x' j' = Some B /\ mv_kind x tr A B j'.

Lemma loc_eff_same x tr x' : (forall j', jloc x' j' = jloc x j') -> loc_eff x tr x'.
Proof. intros H j'. left. apply H. Qed.

Theorem apply_tc_other x tr x' t' :
  apply_transition sigma i x tr = Ok x' -> tr_comp tr <> CT t' -> tc x' t' = tc x t'.
Proof.
  intros H Hn.
  destruct (tr_comp tr) as [m|t|n] eqn:Hc.
  - destruct (nth_error (s_machs x) m) as [ms|] eqn:Hms; [|unfold apply_transition in H; rewrite Hc, Hms in H; discriminate].
    destruct (apply_machine sigma i _ _ _ _ _ Hc Hms H) as [[_ [_ C]]|[[_ [_ C]]|[[_ [_ C]]|[_ [_ C]]]]].
    + unfold h_m_idle_setup in C. inv_all C. inversion C; subst; clear C.
      assert (Hne : BPre m <> BIn m) by congruence.
      match goal with E' : move_job _ _ _ _ _ = Ok ?y |- _ => pose proof (move_job_moved i _ _ _ _ _ Hne E') as M end.
      rewrite tc_with_sto, tc_set_mach_ctl, (tc_moved i _ _ _ _ _ t' M). apply tc_put_job.
    + unfold h_m_setup_working in C. inv_all C. inversion C; subst; clear C.
      rewrite tc_with_sto, tc_set_mach_ctl. apply tc_put_job.
    + unfold h_m_working_outage in C. inv_all C. inversion C; subst; clear C.
      rewrite tc_with_sto, tc_set_mach_ctl. apply tc_put_job.
    + unfold h_m_outage_idle in C. inv_all C. inversion C; subst; clear C.
      assert (Hne : BIn m <> BPost m) by congruence.
      match goal with E' : move_job _ _ _ _ _ = Ok ?y |- _ => pose proof (move_job_moved i _ _ _ _ _ Hne E') as M end.
      rewrite tc_set_mach_ctl, (tc_moved i _ _ _ _ _ t' M). apply tc_put_job.
  - assert (Hne : t' <> t) by congruence. apply Nat.eqb_neq in Hne.
    destruct (nth_error (s_trans x) t) as [ts|] eqn:Hts; [|unfold apply_transition in H; rewrite Hc, Hts in H; discriminate].
    destruct (apply_transport sigma i _ _ _ _ _ Hc Hts H) as [[_ [_ C]]|[[_ [_ C]]|[[_ [_ C]]|[[_ [_ C]]|[[_ [_ C]]|[_ [_ C]]]]]]].
    + unfold h_t_idle_working in C. inv_all C. inversion C; subst; clear C. rewrite tc_set_trans_ctl, Hne. reflexivity.
    + unfold h_t_pickup_waiting in C. inv_all C. inversion C; subst; clear C. rewrite tc_set_trans_ctl, Hne. reflexivity.
    + destruct (post_to_transit sigma i _ _ _ _ _ Hts C) as [j [jb [sb [sc [Hj [Hjb [Hsb [Hsc [[p [_ [_ W]]]|R]]]]]]]]].
      * unfold h_t_waiting_waiting in W. inv_all W. inversion W; subst; clear W. rewrite tc_set_trans_ctl, Hne. reflexivity.
      * clear R. unfold h_t_to_transit in C. rewrite Hj in C. simpl in C. unfold get_job in C. rewrite Hjb in C. simpl in C.
        rewrite Hsb, Hsc in C. simpl in C. inv1 C. inv1 C.
        { unfold h_t_waiting_waiting in C. inv_all C. inversion C; subst; clear C. rewrite tc_set_trans_ctl, Hne. reflexivity. }
        inv_all C. inversion C; subst; clear C.
        assert (Hn2 : j_loc jb <> BAgv t) by (intros Eq; rewrite Eq in *; discriminate).
        match goal with E' : move_job _ _ _ _ _ = Ok ?y |- _ => pose proof (move_job_moved i _ _ _ _ _ Hn2 E') as M end.
        rewrite tc_with_sto, tc_set_trans_ctl, Hne. apply (tc_moved i _ _ _ _ _ t' M).
    + unfold h_t_transit_outage in C. inv_all C. inversion C; subst; clear C.
      match goal with E' : move_job _ _ _ (BAgv t) ?B = Ok ?y |- _ =>
        assert (Hn2 : BAgv t <> B) by
          (match goal with E'' : match ?d with PM _ => _ | PB _ => _ | PT _ => _ end = Ok B |- _ =>
             destruct d; inv_all E''; inversion E''; subst; congruence end);
        pose proof (move_job_moved i _ _ _ _ _ Hn2 E') as M end.
      rewrite tc_with_sto, tc_set_trans_ctl, Hne. apply (tc_moved i _ _ _ _ _ t' M).
    + unfold h_t_outage_idle in C. inversion C; subst; clear C. rewrite tc_set_trans_ctl, Hne. reflexivity.
    + unfold h_t_waiting_waiting in C. inv_all C. inversion C; subst; clear C. rewrite tc_set_trans_ctl, Hne. reflexivity.
  - unfold apply_transition in H. rewrite Hc in H. destruct (nth_error (s_bufs x) n); discriminate.
Qed.

Lemma jloc_of x j jb : nth_error (s_jobs x) j = Some jb -> jloc x j = Some (j_loc jb).
Proof. intros H. unfold jloc. rewrite H. reflexivity. Qed.

Theorem apply_loc_eff x tr x' : apply_transition sigma i x tr = Ok x' -> loc_eff x tr x'.
Proof.
  intros H.
  destruct (tr_comp tr) as [m|t|n] eqn:Hc.
  - destruct (nth_error (s_machs x) m) as [ms|] eqn:Hms; [|unfold apply_transition in H; rewrite Hc, Hms in H; discriminate].
    destruct (apply_machine sigma i _ _ _ _ _ Hc Hms H) as [[_ [_ C]]|[[_ [_ C]]|[[_ [_ C]]|[_ [_ C]]]]].
    + unfold h_m_idle_setup in C. inv_all C. inversion C; subst; clear C.
      match goal with E' : get_job x ?jn = Ok ?jb0 |- _ => apply get_job_ok in E'; rename E' into Ej; rename jn into j; rename jb0 into jb end.
      assert (Hne : BPre m <> BIn m) by congruence.
      match goal with E' : move_job _ _ _ _ _ = Ok ?y |- _ => pose proof (move_job_moved i _ _ _ _ _ Hne E') as M end.
      intros j'. rewrite jloc_with_sto, jloc_set_mach_ctl, (jloc_moved i _ _ _ _ _ j' M).
      destruct (Nat.eqb_spec j' j) as [->|Hn].
      * right. destruct (moved_in_source i _ _ _ _ _ M) as [a [Ha Hin]]. rewrite get_buf_put_job in Ha.
        exists (BPre m), (BIn m), a. split; auto. split; auto. split; auto. left. exists m. auto.
      * left. eapply jloc_put_job_same_loc; eauto.
    + unfold h_m_setup_working in C. inv_all C. inversion C; subst; clear C.
      match goal with E' : get_job x ?jn = Ok ?jb0 |- _ => apply get_job_ok in E'; rename E' into Ej end.
      apply loc_eff_same. intros j'. rewrite jloc_with_sto, jloc_set_mach_ctl. eapply jloc_put_job_same_loc; eauto.
    + unfold h_m_working_outage in C. inv_all C. inversion C; subst; clear C.
      match goal with E' : get_job x ?jn = Ok ?jb0 |- _ => apply get_job_ok in E'; rename E' into Ej end.
      apply loc_eff_same. intros j'. rewrite jloc_with_sto, jloc_set_mach_ctl. eapply jloc_put_job_same_loc; eauto.
    + unfold h_m_outage_idle in C. inv_all C. inversion C; subst; clear C.
      match goal with E' : get_job x ?jn = Ok ?jb0 |- _ => apply get_job_ok in E'; rename E' into Ej; rename jn into j; rename jb0 into jb end.
      assert (Hne : BIn m <> BPost m) by congruence.
      match goal with E' : move_job _ _ _ _ _ = Ok ?y |- _ => pose proof (move_job_moved i _ _ _ _ _ Hne E') as M end.
      intros j'. rewrite jloc_set_mach_ctl, (jloc_moved i _ _ _ _ _ j' M).
      destruct (Nat.eqb_spec j' j) as [->|Hn].
      * right. destruct (moved_in_source i _ _ _ _ _ M) as [a [Ha Hin]]. rewrite get_buf_put_job in Ha.
        exists (BIn m), (BPost m), a. split; auto. split; auto. split; auto. left. exists m. auto.
      * left. eapply jloc_put_job_same_loc; eauto.
  - destruct (nth_error (s_trans x) t) as [ts|] eqn:Hts; [|unfold apply_transition in H; rewrite Hc, Hts in H; discriminate].
    destruct (apply_transport sigma i _ _ _ _ _ Hc Hts H) as [[_ [_ C]]|[[_ [_ C]]|[[_ [Hnw C]]|[[_ [Hnw C]]|[[_ [_ C]]|[_ [_ C]]]]]]].
    + unfold h_t_idle_working in C. inv_all C. inversion C; subst; clear C.
      apply loc_eff_same. intros j'. apply jloc_set_trans_ctl.
    + unfold h_t_pickup_waiting in C. inv_all C. inversion C; subst; clear C.
      apply loc_eff_same. intros j'. apply jloc_set_trans_ctl.
    + destruct (post_to_transit sigma i _ _ _ _ _ Hts C) as [j [jb [sb [sc [Hj [Hjb [Hsb [Hsc _]]]]]]]].
      unfold h_t_to_transit in C. rewrite Hj in C. simpl in C. unfold get_job in C. rewrite Hjb in C. simpl in C.
      rewrite Hsb, Hsc in C. simpl in C. inv1 C. inv1 C.
      { unfold h_t_waiting_waiting in C. inv_all C. inversion C; subst; clear C.
        apply loc_eff_same. intros j'. apply jloc_set_trans_ctl. }
      inv_all C. inversion C; subst; clear C.
      assert (Hn2 : j_loc jb <> BAgv t) by (intros Eq; rewrite Eq in *; discriminate).
      assert (Hn3 : forall t', j_loc jb <> BAgv t') by (intros t' Eq; rewrite Eq in *; discriminate).
      match goal with E' : move_job _ _ _ _ _ = Ok ?y |- _ => pose proof (move_job_moved i _ _ _ _ _ Hn2 E') as M end.
      intros j'. rewrite jloc_with_sto, jloc_set_trans_ctl, (jloc_moved i _ _ _ _ _ j' M).
      destruct (Nat.eqb_spec j' j) as [->|Hn]; [|left; reflexivity].
      right. destruct (moved_in_source i _ _ _ _ _ M) as [a [Ha Hin]].
      exists (j_loc jb), (BAgv t), a. split; auto. split; auto. split; auto. right; left.
      exists t. repeat split; auto. apply jloc_of; auto.
    + unfold h_t_transit_outage in C. inv_all C. inversion C; subst; clear C.
      match goal with E' : move_job _ _ ?jn (BAgv t) ?B = Ok ?y |- _ =>
        rename jn into j;
        assert (Hn2 : BAgv t <> B) by
          (match goal with E'' : match ?d with PM _ => _ | PB _ => _ | PT _ => _ end = Ok B |- _ =>
             destruct d; inv_all E''; inversion E''; subst; congruence end);
        pose proof (move_job_moved i _ _ _ _ _ Hn2 E') as M end.
      intros j'. rewrite jloc_with_sto, jloc_set_trans_ctl, (jloc_moved i _ _ _ _ _ j' M).
      destruct (Nat.eqb_spec j' j) as [->|Hn]; [|left; reflexivity].
      right. destruct (moved_in_source i _ _ _ _ _ M) as [a [Ha Hin]].
      eexists (BAgv t), _, a. split; auto. split; auto. split; [reflexivity|]. right; right. exists t. auto.
    + unfold h_t_outage_idle in C. inversion C; subst; clear C.
      apply loc_eff_same. intros j'. apply jloc_set_trans_ctl.
    + unfold h_t_waiting_waiting in C. inv_all C. inversion C; subst; clear C.
      apply loc_eff_same. intros j'. apply jloc_set_trans_ctl.
  - unfold apply_transition in H. rewrite Hc in H. destruct (nth_error (s_bufs x) n); discriminate.
Qed.

Lemma tc_of x t ts : nth_error (s_trans x) t = Some ts -> tc x t = Some (t_st ts, t_occ ts, t_job ts).
Proof. intros H. unfold tc. rewrite H. reflexivity. Qed.

(* the AGV's own triple after its transition: occupied_till is a time, the old value, or the waiting time computed
   for a -> WAITING / -> TRANSIT transition; the claim is the old one, none, or - for a dispatch of an idle AGV -
   the job the transition names *)
Theorem apply_tc_self x tr x' t ts :
  apply_transition sigma i x tr = Ok x' -> tr_comp tr = CT t -> nth_error (s_trans x) t = Some ts ->
  exists st oc jb, tc x' t = Some (st, oc, jb)
    /\ ((exists z, oc = OAt z) \/ oc = t_occ ts
        \/ (get_waiting_time i x tr = Ok oc /\ (tr_new tr = NT TWaiting \/ tr_new tr = NT TTransit)))
    /\ (jb = t_job ts \/ jb = None \/ (tr_new tr = NT TWorking /\ t_st ts = TIdle /\ jb = tr_job tr /\ exists j, tr_job tr = Some j)).
Proof.
  intros H Hc Hts.
  destruct (apply_transport sigma i _ _ _ _ _ Hc Hts H) as [[Hst [Hnw C]]|[[_ [Hnw C]]|[[_ [Hnw C]]|[[_ [_ C]]|[[_ [_ C]]|[_ [Hnw C]]]]]]].
  - unfold h_t_idle_working in C. inv_all C. inversion C; subst; clear C.
    match goal with E' : of_opt _ (tr_job tr) = Ok ?jn |- _ => apply of_opt_ok in E'; rename E' into Ej end.
    rewrite tc_set_trans_ctl, Nat.eqb_refl, (tc_of _ _ _ Hts). simpl. do 3 eexists. split; [reflexivity|]. split; [eauto|].
    right; right. rewrite Ej. eauto 6.
  - unfold h_t_pickup_waiting in C. inv_all C. inversion C; subst; clear C.
    rewrite tc_set_trans_ctl, Nat.eqb_refl, (tc_of _ _ _ Hts). simpl. do 3 eexists. split; [reflexivity|]. split; [|auto].
    right; right. auto.
  - destruct (post_to_transit sigma i _ _ _ _ _ Hts C) as [j [jb [sb [sc [Hj [Hjb [Hsb [Hsc _]]]]]]]].
    unfold h_t_to_transit in C. rewrite Hj in C. simpl in C. unfold get_job in C. rewrite Hjb in C. simpl in C.
    rewrite Hsb, Hsc in C. simpl in C. inv1 C. inv1 C.
    { unfold h_t_waiting_waiting in C. inv_all C. inversion C; subst; clear C.
      rewrite tc_set_trans_ctl, Nat.eqb_refl, (tc_of _ _ _ Hts). simpl. do 3 eexists. split; [reflexivity|]. split; [|auto].
      right; right. auto. }
    inv_all C. inversion C; subst; clear C.
    assert (Hn2 : j_loc jb <> BAgv t) by (intros Eq; rewrite Eq in *; discriminate).
    match goal with E' : move_job _ _ _ _ _ = Ok ?y |- _ => pose proof (move_job_moved i _ _ _ _ _ Hn2 E') as M end.
    rewrite tc_with_sto, tc_set_trans_ctl, Nat.eqb_refl, (tc_moved i _ _ _ _ _ t M), (tc_of _ _ _ Hts). simpl.
    do 3 eexists. split; [reflexivity|]. split; [eauto|auto].
  - unfold h_t_transit_outage in C. inv_all C. inversion C; subst; clear C.
    match goal with E' : move_job _ _ _ (BAgv t) ?B = Ok ?y |- _ =>
      assert (Hn2 : BAgv t <> B) by
        (match goal with E'' : match ?d with PM _ => _ | PB _ => _ | PT _ => _ end = Ok B |- _ =>
           destruct d; inv_all E''; inversion E''; subst; congruence end);
      pose proof (move_job_moved i _ _ _ _ _ Hn2 E') as M end.
    rewrite tc_with_sto, tc_set_trans_ctl, Nat.eqb_refl, (tc_moved i _ _ _ _ _ t M), (tc_of _ _ _ Hts). simpl.
    do 3 eexists. split; [reflexivity|]. split; [eauto|auto].
  - unfold h_t_outage_idle in C. inversion C; subst; clear C.
    rewrite tc_set_trans_ctl, Nat.eqb_refl, (tc_of _ _ _ Hts). simpl. do 3 eexists. split; [reflexivity|]. split; auto.
  - unfold h_t_waiting_waiting in C. inv_all C. inversion C; subst; clear C.
    rewrite tc_set_trans_ctl, Nat.eqb_refl, (tc_of _ _ _ Hts). simpl. do 3 eexists. split; [reflexivity|]. split; [|auto].
    right; right. auto.
Qed.

(* applying a -> TRANSIT transition: the job keeps its operation records, the AGV its claim *)
Theorem apply_transit_spec x tr x' t ts :
  apply_transition sigma i x tr = Ok x' -> tr_comp tr = CT t -> tr_new tr = NT TTransit -> nth_error (s_trans x) t = Some ts ->
  exists j jb jb' ts', tr_job tr = Some j /\ nth_error (s_jobs x) j = Some jb /\ nth_error (s_jobs x') j = Some jb'
    /\ j_ops jb' = j_ops jb /\ nth_error (s_trans x') t = Some ts' /\ t_job ts' = t_job ts.
Proof.
  intros H Hc Hn Hts.
  destruct (apply_transport sigma i _ _ _ _ _ Hc Hts H) as [[_ [E _]]|[[_ [E _]]|[[_ [_ C]]|[[_ [E _]]|[[_ [E _]]|[_ [E _]]]]]]];
    try (rewrite Hn in E; discriminate).
  destruct (post_to_transit sigma i _ _ _ _ _ Hts C) as [j [jb [sb [sc [Hj [Hjb [Hsb [Hsc [[p [_ [_ W]]]|R]]]]]]]]].
  - unfold h_t_waiting_waiting in W. inv_all W. inversion W; subst; clear W.
    exists j, jb, jb. eexists. split; auto. split; auto.
    split; [destruct (set_trans_ctl_other x t TWaiting v (t_loc ts) (t_job ts) (t_out ts)) as [Hjj _]; rewrite Hjj; exact Hjb|].
    split; [reflexivity|]. split; [rewrite set_trans_ctl_nth, Hts, Nat.eqb_refl; reflexivity|reflexivity].
  - destruct R as [dst [c [trv [_ [_ [_ [_ [[ts' [A1 [A2 [A3 [A4 [A5 A6]]]]]] [_ [A7 _]]]]]]]]]].
    exists j, jb, (set_j_loc jb (BAgv t)), ts'. repeat split; auto.
Qed.

End Eff.
