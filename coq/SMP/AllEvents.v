(* The whole event vector of the monitors (SM/Events.v event_vector), for every micro-event of every run of every instance, against ONE
   witnessed pre-state: every clause holds, except that the dispatch clause may fail in its readiness conjunct (which is false in some
   runs: Props/C11.v C11_dispatch_only_to_ready_jobs_refuted). *)
From Coq Require Import List ZArith Bool Arith Lia.
From JSL Require Import Base.Res Base.ListX SM.Types SM.Util SM.Handler SM.Step SM.Middleware SM.Inv SM.Events
  SMP.ListLemmas SMP.Frame SMP.WF SMP.Preserve SMP.StepInv SMP.Clock SMP.ClockStep SMP.ClockMain SMP.LiftSide SMP.Agv SMP.OutputDone SMP.Post SMP.PostApply SMP.FeasView SMP.Feasible SMP.Offers SMP.Unique SMP.Reflect
  SMP.DepLists SMP.Prov SMP.StoreEff SMP.LiftProv SMP.ProvBatch SMP.Claims SMP.Durations SMP.Travel SMP.Hold SMP.Deliver SMP.OffersValid SMP.NoFail SMP.Release SMP.SampledOk SMP.EventsOk SMP.EventsRun SMP.Transit SMP.Due.
Import ListNotations.
Close Scope Z_scope.

Section All.
Variable sigma : oracle.
Variable i : inst.
Hypothesis Hnn : inst_nonneg_b i = true.

(* event_vector with the dispatch clause weakened by its readiness conjunct *)
Definition event_vector_up_to_readiness (x : state) (tr : transition) (y : state) : list bool :=
  [ ev_pre_release i x tr y; ev_setup i x tr y; ev_tool_frame x tr y; ev_due x tr y; ev_work i x tr y;
    ev_machine_outage i x tr y; ev_machine_release x tr y; ev_dispatch i x tr y || negb (dispatch_ready_conj i x tr); ev_transit i x tr y;
    ev_deliver i x tr y; ev_transport_release x tr y; ev_stores x tr y; ev_clock x tr y; ev_transit_release i x tr y;
    transit_side_b tr y; transit_claim_b tr y ].

Lemma vector_shape x tr y :
  length (event_vector i x tr y) = length (event_vector_up_to_readiness x tr y)
  /\ forall k, k <> 7 -> nth_error (event_vector_up_to_readiness x tr y) k = nth_error (event_vector i x tr y) k.
Proof.
  split; [reflexivity|]. intros k Hk. do 7 (destruct k as [|k]; [reflexivity|]). destruct k as [|k]; [congruence|]. reflexivity.
Qed.

Fixpoint chain_vector (x : state) (lg : mlog) : Prop :=
  match lg with
  | [] => True
  | (tr, y) :: r => (exists x1, ceq x x1 /\ forallb (fun b => b) (event_vector_up_to_readiness x1 tr y) = true) /\ chain_vector y r
  end.

Theorem run_event_vector_ok fuel x0 joker0 ta r m a r' m' lg :
  clock_b x0 = true -> wfs_b i x0 = true -> fresh2_b i x0 = true -> nodep_b x0 = true -> pre_ok_b x0 = true ->
  reach sigma i fuel x0 joker0 ta r m -> mw_step sigma i fuel r m a = MOk r' m' lg -> chain_vector (r_x r) lg.
Proof.
  intros C W Fr Dn Po H Hm. pose proof (clock_idle_unclaimed _ C) as Iu. apply NO_iff_clock_b in C.
  assert (Fr1 : fresh_b i x0 = true) by (unfold fresh2_b in Fr; apply andb_true_iff in Fr; destruct Fr as [Fr _]; apply andb_true_iff in Fr; tauto).
  assert (J0 : J11 i x0) by (split; [split; [apply (J8_init i); auto|apply (RT0_init i); auto]|apply fresh_BO_DUR; auto]).
  pose proof (reach_micro_chain sigma i Hnn (J11 i) (Q11 i) side2 (OK9 i) BI (J11_apply sigma i Hnn) (J11_now i) (E11_end i) BI_now
                (Q11_timed i) (Q11_timed0 i) (Q11_offer i) (offers_ok9 i)
                _ _ _ _ _ _ _ _ _ _ C J0 (BI_init _ Dn) H Hm) as Hch.
  clear -Hch Hnn. revert Hch. generalize (r_x r). induction lg as [|[tr y] rest IH]; intros x Hch; simpl in *; [exact I|].
  destruct Hch as [[x1 [Ex [N1 [Hj11 [[R HQ11] [Hv Ha]]]]]] Hrest].
  split; [|apply IH; exact Hrest]. exists x1. split; [exact Ex|].
  destruct (J11_apply sigma i Hnn _ _ _ _ N1 Hj11 HQ11 Hv Ha) as [_ [_ S2]].
  unfold side2 in S2. apply andb_true_iff in S2. destruct S2 as [S2a S2b].
  pose proof Hj11 as [Hj10 [B D]]. pose proof HQ11 as [HQ9 [_ HD]].
  pose proof Hj10 as [Hj8 R0]. pose proof Hj8 as [[[Wf [[F [Ag Od]] _]] _] [_ [_ [Rt _]]]].
  pose proof (apply_events_ok sigma i Hnn _ _ _ N1 F Ag Ha) as E9. unfold events_ok in E9. rewrite !andb_true_iff in E9.
  destruct E9 as [[[[[[[[E1 E2] E3] E4] E5] E6] E7] E8] E10].
  assert (Epre : ev_pre_release i x1 tr y = true) by (apply (wit_release sigma i); eauto).
  assert (Etr : ev_transit_release i x1 tr y = true) by (apply (transit_release_ok sigma i); auto).
  assert (Edue : ev_due x1 tr y = true) by (apply (ev_due_holds i); auto; apply HD; left; reflexivity).
  assert (Etransit : ev_transit i x1 tr y = true).
  { destruct HQ9 as [[[_ [HP _]] _] _]. eapply (apply_ev_transit sigma i Hnn); eauto. apply HP. left. reflexivity. }
  assert (Edisp : ev_dispatch i x1 tr y || negb (dispatch_ready_conj i x1 tr) = true).
  { destruct (apply_ev_dispatch sigma i Hnn x1 tr y N1) as [Ed|Ed]; auto.
    - intros Htw j Ej Hin. destruct HQ9 as [[_ [[_ HC] _]] _]. destruct (HC tr (or_introl eq_refl) Htw) as [j' [Ej' Hno]].
      assert (j' = j) by congruence. subst j'. apply in_claims in Hin. destruct Hin as [t Ht]. exact (Hno t Ht).
    - rewrite Ed. reflexivity.
    - rewrite Ed. apply orb_true_r. }
  unfold event_vector_up_to_readiness. simpl.
  rewrite Epre, E1, E2, Edue, E3, E4, E5, Edisp, Etransit, E6, E7, E8, E10, Etr, S2a, S2b. reflexivity.
Qed.

End All.
