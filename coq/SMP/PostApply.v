(* The post lemmas restated for state.apply_transition (the single entry point of every transition). *)
From Coq Require Import List ZArith Bool Arith Lia.
From JSL Require Import Base.Res Base.ListX SM.Types SM.Util SM.Handler SM.Step SM.Inv
  SMP.ListLemmas SMP.Frame SMP.WF SMP.Preserve SMP.Clock SMP.Post.
Import ListNotations.
Close Scope Z_scope.

Section PA.
Variable sigma : oracle.
Variable i : inst.

Lemma apply_machine x tr m ms x' :
  tr_comp tr = CM m -> nth_error (s_machs x) m = Some ms -> apply_transition sigma i x tr = Ok x' ->
  (m_st ms = MIdle /\ tr_new tr = NM MSetup /\ h_m_idle_setup sigma i x tr m ms = Ok x')
  \/ (m_st ms = MSetup /\ tr_new tr = NM MWorking /\ h_m_setup_working sigma i x tr m ms = Ok x')
  \/ (m_st ms = MWorking /\ tr_new tr = NM MOutage /\ h_m_working_outage sigma i x tr m ms = Ok x')
  \/ (m_st ms = MOutage /\ tr_new tr = NM MIdle /\ h_m_outage_idle i x tr m ms = Ok x').
Proof.
  intros Hc Hm H. unfold apply_transition in H. rewrite Hc, Hm in H.
  unfold handle_machine_transition, get_mach in H. rewrite Hm in H. simpl in H.
  destruct (m_st ms), (tr_new tr) as [[]|[]]; try discriminate; auto 10.
Qed.

Lemma apply_transport x tr t ts x' :
  tr_comp tr = CT t -> nth_error (s_trans x) t = Some ts -> apply_transition sigma i x tr = Ok x' ->
  (t_st ts = TIdle /\ tr_new tr = NT TWorking /\ h_t_idle_working i x tr t ts = Ok x')
  \/ (t_st ts = TPickup /\ tr_new tr = NT TWaiting /\ h_t_pickup_waiting i x tr t ts = Ok x')
  \/ ((t_st ts = TWaiting \/ t_st ts = TPickup) /\ tr_new tr = NT TTransit /\ h_t_to_transit sigma i x tr t ts = Ok x')
  \/ ((t_st ts = TTransit \/ t_st ts = TWorking) /\ tr_new tr = NT TOutage /\ h_t_transit_outage sigma i x tr t ts = Ok x')
  \/ (t_st ts = TOutage /\ tr_new tr = NT TIdle /\ h_t_outage_idle x tr t ts = Ok x')
  \/ (t_st ts = TWaiting /\ tr_new tr = NT TWaiting /\ h_t_waiting_waiting i x tr t ts = Ok x').
Proof.
  intros Hc Ht H. unfold apply_transition in H. rewrite Hc, Ht in H.
  unfold handle_transport_transition, get_trans in H. rewrite Ht in H. simpl in H.
  destruct (of_opt EInvalidValue (nth_error (i_trans i) t)); simpl in H; [|discriminate].
  destruct (t_st ts), (tr_new tr) as [[]|[]]; try discriminate; auto 12.
Qed.

End PA.
