(* Frame lemmas: what the state-update primitives of the model change and what they leave alone. *)
From Coq Require Import List ZArith Bool Arith Lia.
From JSL Require Import Base.Res Base.ListX SM.Types SM.Util SMP.ListLemmas.
Import ListNotations.

Lemma bid_eqb_eq a b : bid_eqb a b = true <-> a = b.
Proof.
  destruct a, b; simpl; split; intros H; try discriminate; try (apply Nat.eqb_eq in H; congruence);
    try (inversion H; subst; apply Nat.eqb_refl).
Qed.

Lemma bid_eq_dec (a b : bid) : {a = b} + {a <> b}.
Proof. decide equality; apply Nat.eq_dec. Qed.

(* ---------- get_buf after updates ---------- *)
Lemma get_buf_put_job x j jb L : get_buf (put_job x j jb) L = get_buf x L.
Proof. destruct L; reflexivity. Qed.
Lemma get_buf_set_sto x s L : get_buf (set_sto x s) L = get_buf x L.
Proof. destruct L; reflexivity. Qed.
Lemma get_buf_set_now x t L : get_buf (set_now x t) L = get_buf x L.
Proof. destruct L; reflexivity. Qed.

Lemma get_buf_set_mach_ctl x m st oc tool outs L :
  get_buf (set_mach_ctl x m st oc tool outs) L = get_buf x L.
Proof.
  unfold set_mach_ctl. destruct (nth_error (s_machs x) m) as [ms|] eqn:E; auto.
  destruct L as [n|k|k|k|t]; simpl; auto;
    rewrite nth_upd; destruct (Nat.eqb_spec m k); subst; auto;
    rewrite E; apply nth_error_lt in E; apply Nat.ltb_lt in E; rewrite E; reflexivity.
Qed.

Lemma get_buf_set_trans_ctl x t st oc loc jb outs L :
  get_buf (set_trans_ctl x t st oc loc jb outs) L = get_buf x L.
Proof.
  unfold set_trans_ctl. destruct (nth_error (s_trans x) t) as [ts|] eqn:E; auto.
  destruct L as [n|k|k|k|k]; simpl; auto.
  rewrite nth_upd; destruct (Nat.eqb_spec t k); subst; auto.
  rewrite E; apply nth_error_lt in E; apply Nat.ltb_lt in E; rewrite E; reflexivity.
Qed.

Lemma get_buf_set_buf_same x L b b0 : get_buf x L = Some b0 -> get_buf (set_buf x L b) L = Some b.
Proof.
  destruct L as [n|m|m|m|t]; simpl; intros H.
  - rewrite nth_upd_same; auto. eapply nth_error_lt; eauto.
  - destruct (nth_error (s_machs x) m) as [ms|] eqn:E; [|discriminate]. simpl.
    rewrite nth_upd_same; auto. eapply nth_error_lt; eauto.
  - destruct (nth_error (s_machs x) m) as [ms|] eqn:E; [|discriminate]. simpl.
    rewrite nth_upd_same; auto. eapply nth_error_lt; eauto.
  - destruct (nth_error (s_machs x) m) as [ms|] eqn:E; [|discriminate]. simpl.
    rewrite nth_upd_same; auto. eapply nth_error_lt; eauto.
  - destruct (nth_error (s_trans x) t) as [ts|] eqn:E; [|discriminate]. simpl.
    rewrite nth_upd_same; auto. eapply nth_error_lt; eauto.
Qed.

Lemma get_buf_set_buf_other x L L' b : L <> L' -> get_buf (set_buf x L b) L' = get_buf x L'.
Proof.
  intros Hne.
  destruct L as [n|m|m|m|t]; simpl.
  - destruct L' as [n'|k|k|k|k]; simpl; auto. rewrite nth_upd_other; auto; congruence.
  - destruct (nth_error (s_machs x) m) as [ms|] eqn:E; auto.
    destruct L' as [n'|k|k|k|k]; simpl; auto; rewrite nth_upd; destruct (Nat.eqb_spec m k); subst; auto;
      try congruence; rewrite E; apply nth_error_lt in E; apply Nat.ltb_lt in E; rewrite E; reflexivity.
  - destruct (nth_error (s_machs x) m) as [ms|] eqn:E; auto.
    destruct L' as [n'|k|k|k|k]; simpl; auto; rewrite nth_upd; destruct (Nat.eqb_spec m k); subst; auto;
      try congruence; rewrite E; apply nth_error_lt in E; apply Nat.ltb_lt in E; rewrite E; reflexivity.
  - destruct (nth_error (s_machs x) m) as [ms|] eqn:E; auto.
    destruct L' as [n'|k|k|k|k]; simpl; auto; rewrite nth_upd; destruct (Nat.eqb_spec m k); subst; auto;
      try congruence; rewrite E; apply nth_error_lt in E; apply Nat.ltb_lt in E; rewrite E; reflexivity.
  - destruct (nth_error (s_trans x) t) as [ts|] eqn:E; auto.
    destruct L' as [n'|k|k|k|k]; simpl; auto. rewrite nth_upd; destruct (Nat.eqb_spec t k); subst; auto;
      try congruence.
Qed.

(* ---------- things set_buf does not touch ---------- *)
Lemma set_buf_jobs x L b : s_jobs (set_buf x L b) = s_jobs x.
Proof. destruct L; simpl; auto; destruct (nth_error _ _); reflexivity. Qed.
Lemma set_buf_now x L b : s_now (set_buf x L b) = s_now x.
Proof. destruct L; simpl; auto; destruct (nth_error _ _); reflexivity. Qed.
Lemma set_buf_sto x L b : s_sto (set_buf x L b) = s_sto x.
Proof. destruct L; simpl; auto; destruct (nth_error _ _); reflexivity. Qed.
Lemma set_buf_len_machs x L b : length (s_machs (set_buf x L b)) = length (s_machs x).
Proof. destruct L; simpl; auto; destruct (nth_error _ _); simpl; auto; apply upd_length. Qed.
Lemma set_buf_len_trans x L b : length (s_trans (set_buf x L b)) = length (s_trans x).
Proof. destruct L; simpl; auto; destruct (nth_error _ _); simpl; auto; apply upd_length. Qed.
Lemma set_buf_len_bufs x L b : length (s_bufs (set_buf x L b)) = length (s_bufs x).
Proof. destruct L; simpl; auto; try (destruct (nth_error _ _); simpl; auto); apply upd_length. Qed.

(* machine / transport records after set_buf: only the named buffer field differs *)
Definition mach_ctl_eq (a b : machine) : Prop :=
  m_st a = m_st b /\ m_occ a = m_occ b /\ m_tool a = m_tool b /\ m_out a = m_out b.
Definition trans_ctl_eq (a b : transport) : Prop :=
  t_st a = t_st b /\ t_occ a = t_occ b /\ t_loc a = t_loc b /\ t_job a = t_job b /\ t_out a = t_out b.

Lemma mach_ctl_eq_refl a : mach_ctl_eq a a. Proof. repeat split. Qed.
Lemma trans_ctl_eq_refl a : trans_ctl_eq a a. Proof. repeat split. Qed.
Lemma mach_ctl_eq_trans a b c : mach_ctl_eq a b -> mach_ctl_eq b c -> mach_ctl_eq a c.
Proof. unfold mach_ctl_eq; intuition congruence. Qed.
Lemma trans_ctl_eq_trans a b c : trans_ctl_eq a b -> trans_ctl_eq b c -> trans_ctl_eq a c.
Proof. unfold trans_ctl_eq; intuition congruence. Qed.

Lemma set_buf_mach x L b m ms' :
  nth_error (s_machs (set_buf x L b)) m = Some ms' ->
  exists ms, nth_error (s_machs x) m = Some ms /\ mach_ctl_eq ms' ms.
Proof.
  assert (Triv : nth_error (s_machs x) m = Some ms' ->
                 exists ms, nth_error (s_machs x) m = Some ms /\ mach_ctl_eq ms' ms).
  { intros H. exists ms'. split; auto. apply mach_ctl_eq_refl. }
  destruct L as [n|k|k|k|t]; simpl; intros H; auto.
  4: destruct (nth_error (s_trans x) t); simpl in H; auto.
  all: destruct (nth_error (s_machs x) k) as [ms0|] eqn:E; simpl in H; auto.
  all: rewrite nth_upd in H; destruct (Nat.eqb_spec k m); subst; auto.
  all: destruct (Nat.ltb m (length (s_machs x))); inversion H; subst; exists ms0; split; auto; repeat split.
Qed.

Lemma set_buf_trans x L b t ts' :
  nth_error (s_trans (set_buf x L b)) t = Some ts' ->
  exists ts, nth_error (s_trans x) t = Some ts /\ trans_ctl_eq ts' ts.
Proof.
  assert (Triv : nth_error (s_trans x) t = Some ts' ->
                 exists ts, nth_error (s_trans x) t = Some ts /\ trans_ctl_eq ts' ts).
  { intros H. exists ts'. split; auto. apply trans_ctl_eq_refl. }
  destruct L as [n|k|k|k|k]; simpl; intros H; auto.
  1-3: destruct (nth_error (s_machs x) k); simpl in H; auto.
  destruct (nth_error (s_trans x) k) as [ts0|] eqn:E; simpl in H; auto.
  rewrite nth_upd in H; destruct (Nat.eqb_spec k t); subst; auto.
  destruct (Nat.ltb t (length (s_trans x))); inversion H; subst; exists ts0; split; auto; repeat split.
Qed.

(* the converse direction: every old machine/transport still exists *)
Lemma set_buf_mach_exists x L b m ms :
  nth_error (s_machs x) m = Some ms -> exists ms', nth_error (s_machs (set_buf x L b)) m = Some ms'.
Proof.
  intros H. assert (Hl : (m < length (s_machs (set_buf x L b)))%nat).
  { rewrite set_buf_len_machs. eapply nth_error_lt; eauto. }
  destruct (nth_error (s_machs (set_buf x L b)) m) eqn:E; eauto. apply nth_error_None in E. lia.
Qed.
Lemma set_buf_trans_exists x L b t ts :
  nth_error (s_trans x) t = Some ts -> exists ts', nth_error (s_trans (set_buf x L b)) t = Some ts'.
Proof.
  intros H. assert (Hl : (t < length (s_trans (set_buf x L b)))%nat).
  { rewrite set_buf_len_trans. eapply nth_error_lt; eauto. }
  destruct (nth_error (s_trans (set_buf x L b)) t) eqn:E; eauto. apply nth_error_None in E. lia.
Qed.

(* ---------- buffer primitives ---------- *)
Lemma put_in_buffer_ok b cap j b' :
  put_in_buffer b cap j = Ok b' ->
  b_store b' = b_store b ++ [j] /\ (lenZ (b_store b') <= cap)%Z
  /\ b_flag b' = (if (lenZ (b_store b') =? cap)%Z then FFull else FNotEmpty).
Proof.
  unfold put_in_buffer. destruct (cap <=? lenZ (b_store b))%Z eqn:E; [discriminate|].
  intros H; inversion H; subst; simpl. repeat split; auto.
  apply Z.leb_gt in E. rewrite lenZ_app. unfold lenZ at 2. simpl. lia.
Qed.

Lemma remove_from_buffer_ok b j b' :
  remove_from_buffer b j = Ok b' ->
  mem_nat j (b_store b) = true /\ b_store b' = remove_nat j (b_store b)
  /\ b_flag b' = (match b_store b' with [] => FEmpty | _ => FNotEmpty end).
Proof.
  unfold remove_from_buffer. destruct (mem_nat j (b_store b)) eqn:E; [|discriminate].
  intros H; inversion H; subst; simpl. repeat split; auto.
Qed.

(* ---------- move_job ---------- *)
Section Move.
Variable i : inst.

Record moved (x x' : state) (j : nat) (A B : bid) : Prop := {
  mv_a : exists a a', get_buf x A = Some a /\ remove_from_buffer a j = Ok a' /\ get_buf x' A = Some a';
  mv_b : exists b b' c, get_buf x B = Some b /\ get_bcfg i B = Some c /\ put_in_buffer b (bc_cap c) j = Ok b'
                        /\ get_buf x' B = Some b';
  mv_other : forall L, L <> A -> L <> B -> get_buf x' L = get_buf x L;
  mv_job : exists jb, nth_error (s_jobs x) j = Some jb /\ s_jobs x' = upd (s_jobs x) j (set_j_loc jb B);
  mv_now : s_now x' = s_now x;
  mv_sto : s_sto x' = s_sto x;
  mv_machs : forall m ms', nth_error (s_machs x') m = Some ms' ->
                           exists ms, nth_error (s_machs x) m = Some ms /\ mach_ctl_eq ms' ms;
  mv_trans : forall t ts', nth_error (s_trans x') t = Some ts' ->
                           exists ts, nth_error (s_trans x) t = Some ts /\ trans_ctl_eq ts' ts;
  mv_len_m : length (s_machs x') = length (s_machs x);
  mv_len_t : length (s_trans x') = length (s_trans x);
  mv_len_b : length (s_bufs x') = length (s_bufs x)
}.

Lemma move_job_moved x j A B x' : A <> B -> move_job i x j A B = Ok x' -> moved x x' j A B.
Proof.
  intros Hne H. unfold move_job in H.
  destruct (get_buf x A) as [a|] eqn:Ea; simpl in H; [|discriminate].
  destruct (remove_from_buffer a j) as [a'|] eqn:Er; simpl in H; [|discriminate].
  destruct (get_bcfg i B) as [c|] eqn:Ec; simpl in H; [|discriminate].
  destruct (get_buf x B) as [b|] eqn:Eb; simpl in H; [|discriminate].
  destruct (put_in_buffer b (bc_cap c) j) as [b'|] eqn:Ep; simpl in H; [|discriminate].
  unfold get_job in H. destruct (nth_error (s_jobs x) j) as [jb|] eqn:Ej; simpl in H; [|discriminate].
  inversion H; subst; clear H.
  constructor.
  - exists a, a'. repeat split; auto.
    rewrite get_buf_put_job, get_buf_set_buf_other by congruence. eapply get_buf_set_buf_same; eauto.
  - exists b, b', c. repeat split; auto.
    rewrite get_buf_put_job. eapply get_buf_set_buf_same. rewrite get_buf_set_buf_other by auto. eauto.
  - intros L H1 H2. rewrite get_buf_put_job, !get_buf_set_buf_other by congruence. reflexivity.
  - exists jb. split; auto. unfold put_job; simpl. rewrite !set_buf_jobs. reflexivity.
  - unfold put_job; simpl. rewrite !set_buf_now. reflexivity.
  - unfold put_job; simpl. rewrite !set_buf_sto. reflexivity.
  - intros m ms' Hm. unfold put_job in Hm; simpl in Hm.
    apply set_buf_mach in Hm. destruct Hm as [ms1 [H1 C1]].
    apply set_buf_mach in H1. destruct H1 as [ms0 [H0 C0]].
    exists ms0. split; auto. eapply mach_ctl_eq_trans; eauto.
  - intros t ts' Ht. unfold put_job in Ht; simpl in Ht.
    apply set_buf_trans in Ht. destruct Ht as [ts1 [H1 C1]].
    apply set_buf_trans in H1. destruct H1 as [ts0 [H0 C0]].
    exists ts0. split; auto. eapply trans_ctl_eq_trans; eauto.
  - unfold put_job; simpl. rewrite !set_buf_len_machs. reflexivity.
  - unfold put_job; simpl. rewrite !set_buf_len_trans. reflexivity.
  - unfold put_job; simpl. rewrite !set_buf_len_bufs. reflexivity.
Qed.

End Move.

(* ---------- control updates: records after set_mach_ctl / set_trans_ctl ---------- *)
Lemma set_mach_ctl_nth x m st oc tool outs k :
  nth_error (s_machs (set_mach_ctl x m st oc tool outs)) k =
  match nth_error (s_machs x) k with
  | Some ms => if Nat.eqb m k then Some (mkMachine st oc (m_pre ms) (m_in ms) (m_post ms) tool outs) else Some ms
  | None => None end.
Proof.
  unfold set_mach_ctl. destruct (nth_error (s_machs x) m) as [ms|] eqn:E.
  - simpl. rewrite nth_upd. destruct (Nat.eqb_spec m k); subst.
    + rewrite E. apply nth_error_lt in E. apply Nat.ltb_lt in E. rewrite E. reflexivity.
    + destruct (nth_error (s_machs x) k); reflexivity.
  - destruct (Nat.eqb_spec m k); subst.
    + rewrite E. reflexivity.
    + destruct (nth_error (s_machs x) k); reflexivity.
Qed.

Lemma set_trans_ctl_nth x t st oc loc jb outs k :
  nth_error (s_trans (set_trans_ctl x t st oc loc jb outs)) k =
  match nth_error (s_trans x) k with
  | Some ts => if Nat.eqb t k then Some (mkTransport st oc (t_buf ts) loc jb outs) else Some ts
  | None => None end.
Proof.
  unfold set_trans_ctl. destruct (nth_error (s_trans x) t) as [ts|] eqn:E.
  - simpl. rewrite nth_upd. destruct (Nat.eqb_spec t k); subst.
    + rewrite E. apply nth_error_lt in E. apply Nat.ltb_lt in E. rewrite E. reflexivity.
    + destruct (nth_error (s_trans x) k); reflexivity.
  - destruct (Nat.eqb_spec t k); subst.
    + rewrite E. reflexivity.
    + destruct (nth_error (s_trans x) k); reflexivity.
Qed.

Lemma set_mach_ctl_other x m st oc tool outs :
  s_jobs (set_mach_ctl x m st oc tool outs) = s_jobs x /\ s_now (set_mach_ctl x m st oc tool outs) = s_now x
  /\ s_trans (set_mach_ctl x m st oc tool outs) = s_trans x /\ s_bufs (set_mach_ctl x m st oc tool outs) = s_bufs x
  /\ s_sto (set_mach_ctl x m st oc tool outs) = s_sto x
  /\ length (s_machs (set_mach_ctl x m st oc tool outs)) = length (s_machs x).
Proof.
  unfold set_mach_ctl. destruct (nth_error (s_machs x) m); simpl; repeat split; auto. apply upd_length.
Qed.

Lemma set_trans_ctl_other x t st oc loc jb outs :
  s_jobs (set_trans_ctl x t st oc loc jb outs) = s_jobs x /\ s_now (set_trans_ctl x t st oc loc jb outs) = s_now x
  /\ s_machs (set_trans_ctl x t st oc loc jb outs) = s_machs x /\ s_bufs (set_trans_ctl x t st oc loc jb outs) = s_bufs x
  /\ s_sto (set_trans_ctl x t st oc loc jb outs) = s_sto x
  /\ length (s_trans (set_trans_ctl x t st oc loc jb outs)) = length (s_trans x).
Proof.
  unfold set_trans_ctl. destruct (nth_error (s_trans x) t); simpl; repeat split; auto. apply upd_length.
Qed.
