(* Generic lifting of an invariant P that is preserved by every VALIDATED applied transition whose
   (transition, post-state) satisfies a boolean side condition, and by forward clock moves: through
   process_state_transitions, the timed loop (any fuel), state.step, the middleware, and all states
   reachable under any action sequence with the side condition on every micro-log (reachG).
   Instantiated for C01 (SMP/FeasStep.v) and C04 (SMP/OutputDone.v). *)
From Coq Require Import List ZArith Bool Arith Lia.
From JSL Require Import Base.Res Base.ListX SM.Types SM.Util SM.Handler SM.Step SM.Middleware SM.Inv
  SMP.ListLemmas SMP.Frame SMP.WF SMP.Preserve SMP.StepInv SMP.Clock SMP.ClockStep SMP.ClockMain.
Import ListNotations.
Close Scope Z_scope.

Section S.
Variable sigma : oracle.
Variable i : inst.
Hypothesis Hnn : inst_nonneg_b i = true.
(* the invariant, the side condition (read on the transition and its post-state), and what is needed of them *)
Variable P : state -> Prop.
Variable side : transition -> state -> bool.
Hypothesis P_apply : forall x tr x', NO x -> P x -> is_transition_valid x tr = Ok true ->
  apply_transition sigma i x tr = Ok x' -> side tr x' = true -> P x'.
Hypothesis P_now : forall x t, P x -> (s_now x <= t)%Z -> P (set_now x t).

Definition sidesG (lg : mlog) : Prop := forall tr y, In (tr, y) lg -> side tr y = true.
Definition all_P (lg : mlog) : Prop := forall tr y, In (tr, y) lg -> NO y /\ P y.

Lemma all_P_snoc lg tr y : all_P lg -> NO y -> P y -> all_P (lg ++ [(tr, y)]).
Proof.
  intros H N F tr' y' Hin. apply in_app_iff in Hin. destruct Hin as [Hin|[E|[]]]; eauto. inversion E; subst; auto.
Qed.

Lemma process_log_ext : forall trs x n lg x' n' lg',
  process_transitions sigma i trs x n lg = Ok (x', n', lg') -> exists d, lg' = lg ++ d.
Proof.
  induction trs as [|tr r IH]; intros x n lg x' n' lg' H; simpl in H.
  - inversion H; subst. exists []. rewrite app_nil_r. reflexivity.
  - destruct (is_transition_valid x tr) as [v|e]; simpl in H; [|discriminate]. destruct v.
    + destruct (apply_transition sigma i x tr) as [x1|e]; simpl in H; [|discriminate].
      destruct (IH _ _ _ _ _ _ H) as [d Hd]. exists ((tr, x1) :: d). rewrite Hd, <- app_assoc. reflexivity.
    + eauto.
Qed.

Lemma process_PS : forall trs x n lg x' n' lg',
  NO x -> P x -> all_P lg -> process_transitions sigma i trs x n lg = Ok (x', n', lg') -> sidesG lg' ->
  NO x' /\ P x' /\ all_P lg' /\ s_now x' = s_now x.
Proof.
  induction trs as [|tr r IH]; intros x n lg x' n' lg' N F L H Hs; simpl in H.
  - inversion H; subst; auto.
  - destruct (is_transition_valid x tr) as [v|e] eqn:Ev; simpl in H; [|discriminate]. destruct v.
    + destruct (apply_transition sigma i x tr) as [x1|e] eqn:Ea; simpl in H; [|discriminate].
      pose proof (apply_preserves_NO sigma i Hnn _ _ _ N Ea) as N1.
      destruct (process_log_ext _ _ _ _ _ _ _ H) as [d Hd].
      assert (S1 : side tr x1 = true).
      { apply Hs. rewrite Hd. apply in_app_iff. left. apply in_app_iff. right. left. reflexivity. }
      pose proof (P_apply _ _ _ N F Ev Ea S1) as F1.
      destruct (IH _ _ _ _ _ _ N1 F1 (all_P_snoc _ _ _ L N1 F1) H Hs) as [A [B [C D]]].
      split; auto. split; auto. split; auto. rewrite D. eapply apply_now; eauto.
    + eapply IH; eauto.
Qed.

(* the result of a step: xq is the state before the clock adjustment of a terminal result *)
Definition result_P (lg : mlog) (x' : state) (offers : list transition) : Prop :=
  all_P lg /\ exists xq, NO xq /\ P xq /\ (x' = xq \/ (offers = [] /\ exists z, x' = set_now xq z)).

Lemma loop_exit_PS x x' offers lg lg' :
  NO x -> P x -> all_P lg ->
  (if all_in_output i x
   then match max_done_end x with
        | Ok (Some z) => SOk (set_now x z) [] lg
        | Ok None => SOk x [] lg
        | Err e => SRaise e end
   else match get_possible_transitions i x with
        | Ok offers => SOk x offers lg
        | Err e => SRaise e end) = SOk x' offers lg' -> result_P lg' x' offers.
Proof.
  intros N F L H. destruct (all_in_output i x).
  - destruct (max_done_end x) as [[z|]|]; [| |discriminate]; injection H as E1 E2 E3; subst x' offers lg';
      (split; [exact L|]); exists x; (split; [exact N|]); (split; [exact F|]); [right; eauto|left; reflexivity].
  - destruct (get_possible_transitions i x); [|discriminate]. injection H as E1 E2 E3. subst x' offers lg'.
    split; [exact L|]. exists x. split; [exact N|]. split; [exact F|]. left; reflexivity.
Qed.

Lemma timed_loop_log_ext fuel : forall x0 x timed lg x' offers lg',
  timed_loop sigma i fuel x0 x timed lg = SOk x' offers lg' -> exists d, lg' = lg ++ d.
Proof.
  induction fuel as [|f IH]; intros x0 x timed lg x' offers lg' H; simpl in H.
  - destruct timed; [|discriminate]. exists []. rewrite app_nil_r.
    destruct (all_in_output i x); [destruct (max_done_end x) as [[z|]|]|destruct (get_possible_transitions i x)];
      try discriminate; injection H; intros; subst; reflexivity.
  - destruct timed as [|t ts].
    + exists []. rewrite app_nil_r.
      destruct (all_in_output i x); [destruct (max_done_end x) as [[z|]|]|destruct (get_possible_transitions i x)];
        try discriminate; injection H; intros; subst; reflexivity.
    + destruct (process_transitions sigma i (t :: ts) x 0 lg) as [[[x1 nerr] lg1]|e] eqn:Ep; [|discriminate].
      destruct (Nat.ltb 0 nerr); [discriminate|].
      destruct (jump_to_event i x1) as [tt|e]; [|discriminate].
      destruct (create_timed_transitions i (set_now x1 tt)) as [timed'|e]; [|discriminate].
      destruct (process_log_ext _ _ _ _ _ _ _ Ep) as [d1 Hd1]. destruct (IH _ _ _ _ _ _ _ H) as [d2 Hd2].
      exists (d1 ++ d2). rewrite Hd2, Hd1, app_assoc. reflexivity.
Qed.

Lemma sidesG_prefix lg d : sidesG (lg ++ d) -> sidesG lg.
Proof. intros H tr y Hin. apply H. apply in_app_iff. left; auto. Qed.

Lemma timed_loop_PS fuel : forall x0 x timed lg x' offers lg',
  NO x -> P x -> all_P lg -> timed_loop sigma i fuel x0 x timed lg = SOk x' offers lg' -> sidesG lg' ->
  result_P lg' x' offers.
Proof.
  induction fuel as [|f IH]; intros x0 x timed lg x' offers lg' N F L H Hs; simpl in H.
  - destruct timed; [|discriminate]. eapply loop_exit_PS; eauto.
  - destruct timed as [|t ts]; [eapply loop_exit_PS; eauto|].
    destruct (process_transitions sigma i (t :: ts) x 0 lg) as [[[x1 nerr] lg1]|e] eqn:Ep; [|discriminate].
    destruct (Nat.ltb 0 nerr); [discriminate|].
    destruct (jump_to_event i x1) as [tt|e] eqn:Ej; [|discriminate].
    destruct (create_timed_transitions i (set_now x1 tt)) as [timed'|e]; [|discriminate].
    destruct (timed_loop_log_ext _ _ _ _ _ _ _ _ H) as [d Hd].
    assert (S1 : sidesG lg1) by (rewrite Hd in Hs; eapply sidesG_prefix; eauto).
    destruct (process_PS _ _ _ _ _ _ _ N F L Ep S1) as [N1 [F1 [L1 _]]].
    destruct (jump_to_event_ok i _ _ N1 Ej) as [Hle N2].
    eapply IH; [exact N2| |exact L1|exact H|exact Hs].
    apply P_now; auto.
Qed.

Theorem step_PS fuel x0 trs tm x' offers lg :
  tm <> TMJumpByOne -> NO x0 -> P x0 -> step sigma i fuel x0 trs tm = SOk x' offers lg -> sidesG lg ->
  result_P lg x' offers.
Proof.
  intros Htm N F H Hs. unfold step in H.
  destruct (match trs with [] => Ok (x0, 0, []) | _ :: _ => process_transitions sigma i (sorted_by_transport trs) x0 0 [] end)
    as [[[x1 nerr] lg1]|e] eqn:Ep; [|discriminate].
  destruct (Nat.ltb 0 nerr); [discriminate|].
  destruct (run_time_machine i tm x1) as [t|e] eqn:Et; [|discriminate].
  destruct (create_timed_transitions i (set_now x1 t)) as [timed|e]; [|discriminate].
  destruct (get_possible_transitions i (set_now x1 t)) as [poss|e]; [|discriminate].
  destruct (filter_teleport i (set_now x1 t) poss) as [tele|e]; [|discriminate].
  destruct (timed_loop_log_ext _ _ _ _ _ _ _ _ H) as [d Hd].
  assert (S1 : sidesG lg1) by (rewrite Hd in Hs; eapply sidesG_prefix; eauto).
  assert (H1 : NO x1 /\ P x1 /\ all_P lg1).
  { destruct trs.
    - inversion Ep; subst. split; [exact N|]. split; [exact F|]. intros tr y [].
    - destruct (process_PS _ _ _ _ _ _ _ N F (fun tr y (Hin : In (tr, y) []) => match Hin with end) Ep S1) as [A [B [C _]]]. auto. }
  destruct H1 as [N1 [F1 L1]].
  destruct (run_tm_ok i tm _ _ Htm N1 Et) as [Hle N2].
  eapply timed_loop_PS; [exact N2| |exact L1|exact H|exact Hs].
  apply P_now; auto.
Qed.

Theorem mw_step_PS fuel r m a r' m' lg :
  NO (r_x r) -> P (r_x r) -> mw_step sigma i fuel r m a = MOk r' m' lg -> sidesG lg ->
  result_P lg (r_x r') (r_offers r').
Proof.
  intros N F H Hs. unfold mw_step in H.
  destruct (r_offers r) as [|o1 rest]; [discriminate|].
  destruct (negb ((a =? 0)%Z || (a =? 1)%Z)); [discriminate|].
  destruct (a =? 0)%Z.
  - destruct rest as [|o2 rest].
    + destruct (step sigma i fuel (r_x r) [] TMForceJump) as [x' offers lg'| | |] eqn:Es; try discriminate.
      destruct offers.
      * destruct (all_in_output i x'); [|discriminate]. inversion H; subst. eapply step_PS; eauto; discriminate.
      * inversion H; subst. eapply step_PS; eauto; discriminate.
    + inversion H; subst; simpl. split; [intros tr y []|]. exists (r_x r). split; [exact N|]. split; [exact F|]. left; reflexivity.
  - destruct (step sigma i fuel (r_x r) [o1] TMJumpToEvent) as [x' offers lg'| | |] eqn:Es; try discriminate.
    inversion H; subst. eapply step_PS; eauto; discriminate.
Qed.

(* reachability with the side condition on every micro-log *)
Inductive reachG (fuel : nat) (x0 : state) (joker0 : Z) (ta : bool) : result -> mw -> Prop :=
| rg_reset r m lg : mw_reset sigma i fuel x0 joker0 ta (mkMw joker0 0 0 ta) = MOk r m lg -> sidesG lg -> reachG fuel x0 joker0 ta r m
| rg_step r m a r' m' lg : reachG fuel x0 joker0 ta r m -> mw_step sigma i fuel r m a = MOk r' m' lg -> sidesG lg ->
                            reachG fuel x0 joker0 ta r' m'.

Lemma reachG_inv fuel x0 joker0 ta r m :
  NO x0 -> P x0 -> reachG fuel x0 joker0 ta r m ->
  exists xq, NO xq /\ P xq /\ (r_x r = xq \/ (r_offers r = [] /\ exists z, r_x r = set_now xq z)).
Proof.
  intros N F H. induction H as [r m lg H Hs|r m a r' m' lg H IH Hm Hs].
  - unfold mw_reset in H.
    destruct (step sigma i fuel x0 [] TMJumpToEvent) as [x' offers lg'| | |] eqn:Es; try discriminate.
    inversion H; subst. simpl. destruct (step_PS fuel x0 [] TMJumpToEvent _ _ _ ltac:(discriminate) N F Es Hs) as [_ Q]. exact Q.
  - destruct IH as [xq [Nq [Fq [E|[E _]]]]].
    + subst xq. destruct (mw_step_PS _ _ _ _ _ _ _ Nq Fq Hm Hs) as [_ Q]. exact Q.
    + unfold mw_step in Hm. rewrite E in Hm. discriminate.
Qed.

(* executable form of the side condition and of reachG (for examples and the monitors) *)
Definition sidesG_b (lg : mlog) : bool := forallb (fun p => side (fst p) (snd p)) lg.

Lemma sidesG_b_sound lg : sidesG_b lg = true -> sidesG lg.
Proof. intros H tr y Hin. unfold sidesG_b in H. rewrite forallb_forall in H. apply (H (tr, y) Hin). Qed.

Definition runG (fuel : nat) (x0 : state) (joker0 : Z) (ta : bool) (acts : list Z) : option (result * mw) :=
  match mw_reset sigma i fuel x0 joker0 ta (mkMw joker0 0 0 ta) with
  | MOk r m lg =>
      if sidesG_b lg then
        fold_left (fun acc a => match acc with
                                | Some (r, m) => match mw_step sigma i fuel r m a with
                                                 | MOk r' m' lg' => if sidesG_b lg' then Some (r', m') else None
                                                 | _ => None end
                                | None => None end) acts (Some (r, m))
      else None
  | _ => None
  end.

Lemma runG_reach fuel x0 joker0 ta acts r m :
  runG fuel x0 joker0 ta acts = Some (r, m) -> reachG fuel x0 joker0 ta r m.
Proof.
  unfold runG. destruct (mw_reset sigma i fuel x0 joker0 ta (mkMw joker0 0 0 ta)) as [r0 m0 lg0| | |] eqn:Er; try discriminate.
  destruct (sidesG_b lg0) eqn:Es; [|discriminate].
  assert (R0 : reachG fuel x0 joker0 ta r0 m0) by (eapply rg_reset; eauto; apply sidesG_b_sound; auto).
  clear Er Es. revert r0 m0 R0. induction acts as [|a acts IH]; intros r0 m0 R0 H; simpl in H.
  - inversion H; subst; auto.
  - destruct (mw_step sigma i fuel r0 m0 a) as [r1 m1 lg1| | |] eqn:Em.
    + destruct (sidesG_b lg1) eqn:Es.
      * eapply IH; [|exact H]. eapply rg_step; eauto. apply sidesG_b_sound; auto.
      * exfalso. clear -H. induction acts; simpl in H; [discriminate|auto].
    + exfalso. clear -H. induction acts; simpl in H; [discriminate|auto].
    + exfalso. clear -H. induction acts; simpl in H; [discriminate|auto].
    + exfalso. clear -H. induction acts; simpl in H; [discriminate|auto].
Qed.

End S.
