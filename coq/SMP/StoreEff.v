(* What one applied transition does to the stores of all buffers: nothing, or exactly one job leaves one store and
   joins another one at the back (machine: pre -> internal, internal -> post; AGV: pickup from where the job lies,
   delivery into a pre-buffer or standalone buffer). *)
From Coq Require Import List ZArith Bool Arith Lia.
From JSL Require Import Base.Res Base.ListX SM.Types SM.Util SM.Handler SM.Step
  SMP.ListLemmas SMP.Frame SMP.WF SMP.Preserve SMP.Post SMP.PostApply SMP.Prov.
Import ListNotations.
Close Scope Z_scope.

Definition bst (x : state) (L : bid) : option (list nat) := option_map b_store (get_buf x L).

Lemma bst_of x L b : get_buf x L = Some b -> bst x L = Some (b_store b).
Proof. intros H. unfold bst. rewrite H. reflexivity. Qed.
Lemma bst_put_job x j jb L : bst (put_job x j jb) L = bst x L.
Proof. unfold bst. rewrite get_buf_put_job. reflexivity. Qed.
Lemma bst_with_sto x s L : bst (with_sto x s) L = bst x L.
Proof. unfold bst, with_sto. rewrite get_buf_set_sto. reflexivity. Qed.
Lemma bst_set_now x z L : bst (set_now x z) L = bst x L.
Proof. unfold bst. rewrite get_buf_set_now. reflexivity. Qed.
Lemma bst_set_mach_ctl x m st oc tool outs L : bst (set_mach_ctl x m st oc tool outs) L = bst x L.
Proof. unfold bst. rewrite get_buf_set_mach_ctl. reflexivity. Qed.
Lemma bst_set_trans_ctl x t st oc loc jb outs L : bst (set_trans_ctl x t st oc loc jb outs) L = bst x L.
Proof. unfold bst. rewrite get_buf_set_trans_ctl. reflexivity. Qed.

Definition store_eff (x : state) (tr : transition) (x' : state) : Prop :=
  (forall L, bst x' L = bst x L)
  \/ exists j A B, A <> B /\ bst x' A = option_map (remove_nat j) (bst x A)
       /\ bst x' B = option_map (fun l => l ++ [j]) (bst x B)
       /\ (forall L, L <> A -> L <> B -> bst x' L = bst x L)
       /\ ((exists m, tr_comp tr = CM m /\ ((A = BPre m /\ B = BIn m) \/ (A = BIn m /\ B = BPost m)))
           \/ (exists t, tr_comp tr = CT t /\ tr_new tr = NT TTransit /\ tr_job tr = Some j /\ jloc x j = Some A /\ B = BAgv t)
           \/ (exists t, tr_comp tr = CT t /\ tr_new tr = NT TOutage /\ A = BAgv t /\ forall m, B <> BPost m)).

Section SE.
Variable sigma : oracle.
Variable i : inst.

Lemma bst_moved x x1 j A B : moved i x x1 j A B ->
  bst x1 A = option_map (remove_nat j) (bst x A) /\ bst x1 B = option_map (fun l => l ++ [j]) (bst x B)
  /\ (forall L, L <> A -> L <> B -> bst x1 L = bst x L).
Proof.
  intros M. destruct (mv_a _ _ _ _ _ _ M) as [a [a' [A1 [A2 A3]]]]. apply remove_from_buffer_ok in A2. destruct A2 as [_ [A2 _]].
  destruct (mv_b _ _ _ _ _ _ M) as [b [b' [c [B1 [B2 [B3 B4]]]]]]. apply put_in_buffer_ok in B3. destruct B3 as [B3 _].
  split; [rewrite (bst_of _ _ _ A3), (bst_of _ _ _ A1); simpl; congruence|].
  split; [rewrite (bst_of _ _ _ B4), (bst_of _ _ _ B1); simpl; congruence|].
  intros L HA HB. unfold bst. rewrite (mv_other _ _ _ _ _ _ M L HA HB). reflexivity.
Qed.

Theorem apply_store_eff x tr x' : apply_transition sigma i x tr = Ok x' -> store_eff x tr x'.
Proof.
  intros H. destruct (tr_comp tr) as [m|t|n] eqn:Hc.
  - destruct (nth_error (s_machs x) m) as [ms|] eqn:Hms; [|unfold apply_transition in H; rewrite Hc, Hms in H; discriminate].
    destruct (apply_machine sigma i _ _ _ _ _ Hc Hms H) as [[_ [_ C]]|[[_ [_ C]]|[[_ [_ C]]|[_ [_ C]]]]].
    + right. unfold h_m_idle_setup in C. inv_all C. inversion C; subst; clear C.
      assert (Hne : BPre m <> BIn m) by congruence.
      match goal with E' : move_job _ _ ?jj _ _ = Ok ?y |- _ => pose proof (move_job_moved i _ _ _ _ _ Hne E') as M; exists jj, (BPre m), (BIn m) end.
      destruct (bst_moved _ _ _ _ _ M) as [M1 [M2 M3]]. split; [exact Hne|].
      split; [rewrite bst_with_sto, bst_set_mach_ctl, M1, bst_put_job; reflexivity|].
      split; [rewrite bst_with_sto, bst_set_mach_ctl, M2, bst_put_job; reflexivity|].
      split; [intros L HA HB; rewrite bst_with_sto, bst_set_mach_ctl, (M3 L HA HB), bst_put_job; reflexivity|].
      left. exists m. auto.
    + left. unfold h_m_setup_working in C. inv_all C. inversion C; subst; clear C.
      intros L. rewrite bst_with_sto, bst_set_mach_ctl, bst_put_job. reflexivity.
    + left. unfold h_m_working_outage in C. inv_all C. inversion C; subst; clear C.
      intros L. rewrite bst_with_sto, bst_set_mach_ctl, bst_put_job. reflexivity.
    + right. unfold h_m_outage_idle in C. inv_all C. inversion C; subst; clear C.
      assert (Hne : BIn m <> BPost m) by congruence.
      match goal with E' : move_job _ _ ?jj _ _ = Ok ?y |- _ => pose proof (move_job_moved i _ _ _ _ _ Hne E') as M; exists jj, (BIn m), (BPost m) end.
      destruct (bst_moved _ _ _ _ _ M) as [M1 [M2 M3]]. split; [exact Hne|].
      split; [rewrite bst_set_mach_ctl, M1, bst_put_job; reflexivity|].
      split; [rewrite bst_set_mach_ctl, M2, bst_put_job; reflexivity|].
      split; [intros L HA HB; rewrite bst_set_mach_ctl, (M3 L HA HB), bst_put_job; reflexivity|].
      left. exists m. auto.
  - destruct (nth_error (s_trans x) t) as [ts|] eqn:Hts; [|unfold apply_transition in H; rewrite Hc, Hts in H; discriminate].
    destruct (apply_transport sigma i _ _ _ _ _ Hc Hts H) as [[_ [_ C]]|[[_ [_ C]]|[[_ [Hn C]]|[[_ [Hn C]]|[[_ [_ C]]|[_ [_ C]]]]]]].
    + left. unfold h_t_idle_working in C. inv_all C. inversion C; subst; clear C. intros L. apply bst_set_trans_ctl.
    + left. unfold h_t_pickup_waiting in C. inv_all C. inversion C; subst; clear C. intros L. apply bst_set_trans_ctl.
    + destruct (post_to_transit sigma i _ _ _ _ _ Hts C) as [j [jb [sb [sc [Hj [Hjb [Hsb [Hsc _]]]]]]]].
      unfold h_t_to_transit in C. rewrite Hj in C. simpl in C. unfold get_job in C. rewrite Hjb in C. simpl in C.
      rewrite Hsb, Hsc in C. simpl in C. inv1 C. inv1 C.
      { left. unfold h_t_waiting_waiting in C. inv_all C. inversion C; subst; clear C. intros L. apply bst_set_trans_ctl. }
      right. inv_all C. inversion C; subst; clear C.
      assert (Hn2 : j_loc jb <> BAgv t) by (intros Eq; rewrite Eq in *; discriminate).
      match goal with E' : move_job _ _ _ _ _ = Ok ?y |- _ => pose proof (move_job_moved i _ _ _ _ _ Hn2 E') as M end.
      destruct (bst_moved _ _ _ _ _ M) as [M1 [M2 M3]]. exists j, (j_loc jb), (BAgv t). split; [exact Hn2|].
      split; [rewrite bst_with_sto, bst_set_trans_ctl, M1; reflexivity|].
      split; [rewrite bst_with_sto, bst_set_trans_ctl, M2; reflexivity|].
      split; [intros L HA HB; rewrite bst_with_sto, bst_set_trans_ctl, (M3 L HA HB); reflexivity|].
      right; left. exists t. split; auto. split; auto. split; auto. split; [apply jloc_of; auto|reflexivity].
    + right. unfold h_t_transit_outage in C. inv_all C. inversion C; subst; clear C.
      match goal with E' : move_job _ _ ?jj (BAgv t) ?B = Ok ?y |- _ =>
        assert (Hn2 : BAgv t <> B /\ forall m', B <> BPost m') by
          (match goal with E'' : match ?d with PM _ => _ | PB _ => _ | PT _ => _ end = Ok B |- _ =>
             destruct d; inv_all E''; inversion E''; subst; split; congruence end);
        pose proof (move_job_moved i _ _ _ _ _ (proj1 Hn2) E') as M; exists jj, (BAgv t), B end.
      destruct (bst_moved _ _ _ _ _ M) as [M1 [M2 M3]]. split; [exact (proj1 Hn2)|].
      split; [rewrite bst_with_sto, bst_set_trans_ctl, M1; reflexivity|].
      split; [rewrite bst_with_sto, bst_set_trans_ctl, M2; reflexivity|].
      split; [intros L HA HB; rewrite bst_with_sto, bst_set_trans_ctl, (M3 L HA HB); reflexivity|].
      right; right. exists t. split; auto. split; auto. split; [reflexivity|exact (proj2 Hn2)].
    + left. unfold h_t_outage_idle in C. inversion C; subst; clear C. intros L. apply bst_set_trans_ctl.
    + left. unfold h_t_waiting_waiting in C. inv_all C. inversion C; subst; clear C. intros L. apply bst_set_trans_ctl.
  - unfold apply_transition in H. rewrite Hc in H. destruct (nth_error (s_bufs x) n); discriminate.
Qed.

End SE.
