(* C04: a job that lies in an OUTPUT buffer has all its operations done (output_done_b) - hence a terminated
   episode (every job in an output buffer) has finished all work. Invariant OD, carried along with FE (C01) and
   AG (what an AGV holds); two side conditions on applied TRANSIT transitions, both monitored:
   transit_side_b (the job taken is not in process) and transit_claim_b (the job taken is the AGV's claim). *)
From Coq Require Import List ZArith Bool Arith Lia.
From JSL Require Import Base.Res Base.ListX SM.Types SM.Util SM.Handler SM.Step SM.Middleware SM.Inv
  SMP.ListLemmas SMP.Frame SMP.WF SMP.Preserve SMP.StepInv SMP.Clock SMP.ClockStep SMP.ClockMain SMP.Post SMP.PostApply
  SMP.LiftSide SMP.FeasView SMP.Feasible SMP.FeasSound SMP.Agv.
Import ListNotations.
Close Scope Z_scope.

Definition side2 (tr : transition) (y : state) : bool := transit_side_b tr y && transit_claim_b tr y.

Section OD.
Variable sigma : oracle.
Variable i : inst.
Hypothesis Hnn : inst_nonneg_b i = true.

Definition alldone (x : state) (j : nat) : Prop :=
  forall jb, nth_error (s_jobs x) j = Some jb -> all_operations_done jb = true.
Definition noidle (x : state) (j : nat) : Prop :=
  forall jb, nth_error (s_jobs x) j = Some jb -> no_operation_idle jb = true.
Definition out_dst (l : tloc) : bool :=
  match l with LRoute _ _ (PB n) => is_output i (BStd n) | _ => false end.

Definition carry_ok (x : state) (p : tstate * list nat * tloc * option nat) : Prop :=
  let '(st, l, loc, jb) := p in
  (out_dst loc = true -> forall j, In j l -> alldone x j) /\
  ((st = TPickup \/ st = TWaiting) -> out_dst loc = true -> forall j, jb = Some j -> noidle x j).

Record OD (x : state) : Prop := {
  od_out : forall j jb, nth_error (s_jobs x) j = Some jb -> is_output i (j_loc jb) = true -> all_operations_done jb = true;
  od_agv : forall t p, tview x t = Some p -> carry_ok x p
}.

Lemma carry_ok_same_ops x x' p :
  (forall j jb', nth_error (s_jobs x') j = Some jb' ->
     exists jb, nth_error (s_jobs x) j = Some jb /\
                (all_operations_done jb = true -> all_operations_done jb' = true) /\
                (no_operation_idle jb = true -> no_operation_idle jb' = true)) ->
  carry_ok x p -> carry_ok x' p.
Proof.
  intros H. destruct p as [[[st l] loc] jb]. intros [A B]. split.
  - intros Ho j Hj jb' Hjb'. destruct (H _ _ Hjb') as [jb0 [H0 [H1 _]]]. apply H1. apply (A Ho j Hj); auto.
  - intros Hs Ho j Hj jb' Hjb'. destruct (H _ _ Hjb') as [jb0 [H0 [_ H2]]]. apply H2. apply (B Hs Ho j Hj); auto.
Qed.

(* ---------- machine transitions: one job record changes, its job was NOT finished ---------- *)
Lemma OD_job_change x x' j jb jb' :
  OD x -> nth_error (s_jobs x) j = Some jb -> all_operations_done jb = false ->
  nth_error (s_jobs x') j = Some jb' ->
  (no_operation_idle jb = true -> no_operation_idle jb' = true) ->
  (is_output i (j_loc jb') = true -> j_loc jb' = j_loc jb) ->
  (forall j', j' <> j -> nth_error (s_jobs x') j' = nth_error (s_jobs x) j') ->
  (forall t, tview x' t = tview x t) ->
  OD x'.
Proof.
  intros O Hj Hnd Hj' Hidle Hloc Hothers Htv.
  assert (Hrel : forall j0 jb0', nth_error (s_jobs x') j0 = Some jb0' ->
     exists jb0, nth_error (s_jobs x) j0 = Some jb0 /\
                 (all_operations_done jb0 = true -> all_operations_done jb0' = true) /\
                 (no_operation_idle jb0 = true -> no_operation_idle jb0' = true)).
  { intros j0 jb0' H0. destruct (Nat.eq_dec j0 j) as [->|Hne].
    - rewrite Hj' in H0. inversion H0; subst jb0'. exists jb. split; auto. split; [congruence|auto].
    - rewrite (Hothers _ Hne) in H0. exists jb0'. auto. }
  constructor.
  - intros j0 jb0 H0 Ho. destruct (Nat.eq_dec j0 j) as [->|Hne].
    + rewrite Hj' in H0. inversion H0; subst jb0. exfalso.
      pose proof (od_out _ O _ _ Hj) as Q. rewrite <- (Hloc Ho) in Q. rewrite (Q Ho) in Hnd. discriminate.
    + rewrite (Hothers _ Hne) in H0. eapply od_out; eauto.
  - intros t p Hp. rewrite Htv in Hp. eapply carry_ok_same_ops; [exact Hrel|]. eapply od_agv; eauto.
Qed.

Lemma no_idle_upd ops k o' : forallb (fun o => negb (is_ostate OIdle o)) ops = true -> o_st o' <> OIdle ->
  forallb (fun o => negb (is_ostate OIdle o)) (upd ops k o') = true.
Proof.
  intros H Ho. apply forallb_upd; auto. unfold is_ostate. destruct (o_st o'); simpl; congruence.
Qed.

Lemma not_all_done jb k o : nth_error (j_ops jb) k = Some o -> o_st o <> ODone -> all_operations_done jb = false.
Proof.
  intros Hk Ho. unfold all_operations_done. destruct (forallb (is_ostate ODone) (j_ops jb)) eqn:E; auto.
  pose proof (forallb_nth _ _ _ _ E Hk) as Q. unfold is_ostate in Q. destruct (o_st o); simpl in Q; congruence.
Qed.

Lemma jobs_after_put_move_ctl x j jb1 A B x1 (Hne : A <> B) :
  move_job i (put_job x j jb1) j A B = Ok x1 -> j < length (s_jobs x) ->
  nth_error (s_jobs x1) j = Some (set_j_loc jb1 B) /\
  forall j', j' <> j -> nth_error (s_jobs x1) j' = nth_error (s_jobs x) j'.
Proof.
  intros Hm Hl. split.
  - eapply moved_job_record; eauto. unfold put_job; simpl. apply nth_upd_same; auto.
  - intros j' Hn. rewrite (frame_jobs_move i _ _ _ _ _ j' Hne Hm Hn). apply frame_jobs_put; auto.
Qed.

Lemma OD_machine x tr m ms x' :
  OD x -> tr_comp tr = CM m -> nth_error (s_machs x) m = Some ms -> apply_transition sigma i x tr = Ok x' -> OD x'.
Proof.
  intros O Hc Hms H.
  destruct (apply_machine sigma i _ _ _ _ _ Hc Hms H) as [[_ [_ C]]|[[_ [_ C]]|[[_ [_ C]]|[_ [_ C]]]]].
  - (* IDLE -> SETUP *)
    unfold h_m_idle_setup in C. inv_all C. inversion C; subst; clear C.
    apply of_opt_ok in E, E2. apply get_job_ok in E0.
    destruct (first_not_done_spec _ _ E2) as [o [Ho [So _]]].
    assert (Hne : BPre m <> BIn m) by congruence.
    match goal with E' : move_job _ _ _ _ _ = Ok ?y |- _ =>
      pose proof (move_job_moved i _ _ _ _ _ Hne E') as M;
      destruct (jobs_after_put_move_ctl _ _ _ _ _ _ Hne E' (nth_error_lt _ _ _ E0)) as [J1 J2] end.
    eapply (OD_job_change x _ v v0); [exact O|exact E0| | | | | |].
    + eapply not_all_done; eauto.
    + simpl. destruct (set_mach_ctl_other v6 m MSetup (Time (s_now x + z)%Z) (oc_tool v3) (m_out ms)) as [Hj _]. rewrite Hj. exact J1.
    + simpl. intros Hi. apply no_idle_upd; auto. simpl; discriminate.
    + simpl. discriminate.
    + intros j' Hn. simpl. destruct (set_mach_ctl_other v6 m MSetup (Time (s_now x + z)%Z) (oc_tool v3) (m_out ms)) as [Hj _]. rewrite Hj. auto.
    + intros t. rewrite tview_with_sto, tview_set_mach_ctl. rewrite (tview_moved_other i _ _ _ _ _ t M) by congruence. apply tview_put_job.
  - (* SETUP -> WORKING *)
    unfold h_m_setup_working in C. inv_all C. inversion C; subst; clear C.
    apply of_opt_ok in E, E2. apply get_job_ok in E0.
    destruct (first_not_done_spec _ _ E2) as [o [Ho [So _]]].
    eapply (OD_job_change x _ v v0); [exact O|exact E0| | | | | |].
    + eapply not_all_done; eauto.
    + simpl. match goal with |- nth_error (s_jobs (set_mach_ctl ?y ?a ?b ?c ?d ?e)) _ = _ =>
        destruct (set_mach_ctl_other y a b c d e) as [Hj _]; rewrite Hj end. eapply put_job_same; eauto.
    + simpl. intros Hi. apply no_idle_upd; auto. simpl; discriminate.
    + simpl. auto.
    + intros j' Hn. simpl. match goal with |- nth_error (s_jobs (set_mach_ctl ?y ?a ?b ?c ?d ?e)) _ = _ =>
        destruct (set_mach_ctl_other y a b c d e) as [Hj _]; rewrite Hj end. apply frame_jobs_put; auto.
    + intros t. rewrite tview_with_sto, tview_set_mach_ctl. apply tview_put_job.
  - (* WORKING -> OUTAGE *)
    unfold h_m_working_outage in C. inv_all C. inversion C; subst; clear C.
    apply of_opt_ok in E2, E4, E5. apply get_job_ok in E3.
    destruct (first_proc_spec _ _ E4) as [o [Ho So]]. rewrite E5 in Ho. inversion Ho; subst o.
    eapply (OD_job_change x _ v1 v2); [exact O|exact E3| | | | | |].
    + eapply not_all_done; eauto. congruence.
    + simpl. match goal with |- nth_error (s_jobs (set_mach_ctl ?y ?a ?b ?c ?d ?e)) _ = _ =>
        destruct (set_mach_ctl_other y a b c d e) as [Hj _]; rewrite Hj end. eapply put_job_same; eauto.
    + simpl. intros Hi. apply no_idle_upd; auto. simpl. congruence.
    + simpl. auto.
    + intros j' Hn. simpl. match goal with |- nth_error (s_jobs (set_mach_ctl ?y ?a ?b ?c ?d ?e)) _ = _ =>
        destruct (set_mach_ctl_other y a b c d e) as [Hj _]; rewrite Hj end. apply frame_jobs_put; auto.
    + intros t. rewrite tview_with_sto, tview_set_mach_ctl. apply tview_put_job.
  - (* OUTAGE -> IDLE *)
    unfold h_m_outage_idle in C. inv_all C. inversion C; subst; clear C.
    apply of_opt_ok in E, E1, E2. apply get_job_ok in E0.
    destruct (first_proc_spec _ _ E1) as [o [Ho So]]. rewrite E2 in Ho. inversion Ho; subst o.
    assert (Hne : BIn m <> BPost m) by congruence.
    match goal with E' : move_job _ _ _ _ _ = Ok ?y |- _ =>
      pose proof (move_job_moved i _ _ _ _ _ Hne E') as M;
      destruct (jobs_after_put_move_ctl _ _ _ _ _ _ Hne E' (nth_error_lt _ _ _ E0)) as [J1 J2] end.
    eapply (OD_job_change x _ v v0); [exact O|exact E0| | | | | |].
    + eapply not_all_done; eauto. congruence.
    + match goal with |- nth_error (s_jobs (set_mach_ctl ?y ?a ?b ?c ?d ?e)) _ = _ =>
        destruct (set_mach_ctl_other y a b c d e) as [Hj _]; rewrite Hj end. exact J1.
    + simpl. intros Hi. apply no_idle_upd; auto. simpl; discriminate.
    + simpl. discriminate.
    + intros j' Hn. match goal with |- nth_error (s_jobs (set_mach_ctl ?y ?a ?b ?c ?d ?e)) _ = _ =>
        destruct (set_mach_ctl_other y a b c d e) as [Hj _]; rewrite Hj end. auto.
    + intros t. rewrite tview_set_mach_ctl. rewrite (tview_moved_other i _ _ _ _ _ t M) by congruence. apply tview_put_job.
Qed.

(* ---------- transport transitions: no operation record changes ---------- *)
Lemma OD_transport_change x x' t :
  OD x ->
  (forall j jb', nth_error (s_jobs x') j = Some jb' ->
     exists jb, nth_error (s_jobs x) j = Some jb /\ j_ops jb' = j_ops jb /\
                (j_loc jb' = j_loc jb \/ (is_output i (j_loc jb') = true -> all_operations_done jb' = true))) ->
  (forall t', t' <> t -> tview x' t' = tview x t') ->
  (forall p, tview x' t = Some p -> carry_ok x' p) ->
  OD x'.
Proof.
  intros O Hjobs Hothers Ht.
  assert (Hrel : forall j0 jb0', nth_error (s_jobs x') j0 = Some jb0' ->
     exists jb0, nth_error (s_jobs x) j0 = Some jb0 /\
                 (all_operations_done jb0 = true -> all_operations_done jb0' = true) /\
                 (no_operation_idle jb0 = true -> no_operation_idle jb0' = true)).
  { intros j0 jb0' H0. destruct (Hjobs _ _ H0) as [jb0 [A [B _]]]. exists jb0. split; auto.
    unfold all_operations_done, no_operation_idle. rewrite B. auto. }
  constructor.
  - intros j jb' Hj Ho. destruct (Hjobs _ _ Hj) as [jb [A [B [C|C]]]]; auto.
    unfold all_operations_done. rewrite B. apply (od_out _ O _ _ A). rewrite <- C. auto.
  - intros t' p Hp. destruct (Nat.eq_dec t' t) as [->|Hne]; [auto|].
    rewrite (Hothers _ Hne) in Hp. eapply carry_ok_same_ops; [exact Hrel|]. eapply od_agv; eauto.
Qed.

Lemma jobs_same_rel x x' : s_jobs x' = s_jobs x ->
  forall j jb', nth_error (s_jobs x') j = Some jb' ->
     exists jb, nth_error (s_jobs x) j = Some jb /\ j_ops jb' = j_ops jb /\
                (j_loc jb' = j_loc jb \/ (is_output i (j_loc jb') = true -> all_operations_done jb' = true)).
Proof. intros E j jb' H. rewrite E in H. exists jb'. auto. Qed.

(* the AGV changes control fields only; its new record is given *)
Lemma OD_ctl x t ts st oc loc jb outs :
  OD x -> nth_error (s_trans x) t = Some ts ->
  carry_ok x (st, b_store (t_buf ts), loc, jb) ->
  OD (set_trans_ctl x t st oc loc jb outs).
Proof.
  intros O Hts Hc.
  assert (Ej : s_jobs (set_trans_ctl x t st oc loc jb outs) = s_jobs x) by apply set_trans_ctl_other.
  eapply (OD_transport_change x _ t); eauto.
  - apply jobs_same_rel; auto.
  - intros t' Hne. rewrite tview_set_trans_ctl. destruct (Nat.eqb_spec t' t); [congruence|reflexivity].
  - intros p Hp. rewrite tview_set_trans_ctl, Nat.eqb_refl, (tview_of _ _ _ Hts) in Hp. simpl in Hp. inversion Hp; subst p.
    eapply carry_ok_same_ops; [|exact Hc]. intros j jb' Hj. rewrite Ej in Hj. exists jb'. auto.
Qed.

Lemma dest_idle_out jb n : dest_idle i jb = Ok (PB n) -> no_operation_idle jb = true.
Proof.
  unfold dest_idle. destruct (no_operation_idle jb); auto. intros H. inv_all H. inversion H.
Qed.

Lemma done_of_noidle_notrunning jb :
  Pat (j_ops jb) -> no_operation_idle jb = true -> is_job_running jb = false -> all_operations_done jb = true.
Proof.
  intros [P1 _] Hi Hr. unfold all_operations_done. apply forallb_forall. intros o Ho.
  apply In_nth_error in Ho. destruct Ho as [k Hk].
  unfold no_operation_idle in Hi. pose proof (forallb_nth _ _ _ _ Hi Hk) as Q1.
  unfold is_job_running in Hr.
  assert (Q2 : is_ostate OProc o = false).
  { destruct (is_ostate OProc o) eqn:E; auto. exfalso.
    assert (existsb (is_ostate OProc) (j_ops jb) = true) by (apply existsb_exists; exists o; split; [eapply nth_error_In; eauto|auto]).
    congruence. }
  pose proof (P1 _ _ Hk) as Q3. unfold is_ostate in *. destruct (o_st o); simpl in *; try discriminate; auto; congruence.
Qed.

Lemma OD_transport x tr t ts x' :
  FE i x -> AG x -> OD x -> tr_comp tr = CT t -> nth_error (s_trans x) t = Some ts ->
  apply_transition sigma i x tr = Ok x' -> side2 tr x' = true -> OD x'.
Proof.
  intros F A O Hc Hts H Hside.
  pose proof (od_agv _ O _ _ (tview_of _ _ _ Hts)) as [Ocarry Oclaim].
  destruct (apply_transport sigma i _ _ _ _ _ Hc Hts H) as [[S [N C]]|[[S [N C]]|[[S [N C]]|[[S [N C]]|[[S [N C]]|[S [N C]]]]]]].
  - (* dispatch *)
    unfold h_t_idle_working in C. inv_all C. inversion C; subst; clear C.
    apply of_opt_ok in E. apply get_job_ok in E1.
    eapply OD_ctl; eauto. split.
    + intros _ j Hj. rewrite (AG_phase_empty _ _ _ A Hts ltac:(congruence)) in Hj. destruct Hj.
    + intros _ Ho j Hj. inversion Hj; subst j. intros jb Hjb. rewrite E1 in Hjb. inversion Hjb; subst jb.
      simpl in Ho. destruct v2 as [|n|]; try discriminate. eapply dest_idle_out; eauto.
  - (* PICKUP -> WAITING *)
    unfold h_t_pickup_waiting in C. inv_all C. inversion C; subst; clear C.
    eapply OD_ctl; eauto. split; [exact Ocarry|]. intros _ Ho j Hj. apply Oclaim; auto.
  - (* -> TRANSIT *)
    unfold h_t_to_transit in C. inv1 C. inv1 C. inv1 C. inv1 C. inv1 C.
    apply of_opt_ok in E. apply get_job_ok in E0.
    inv1 C.
    + unfold h_t_waiting_waiting in C. inv_all C. inversion C; subst; clear C.
      eapply OD_ctl; eauto. split; [exact Ocarry|]. intros _ Ho j0 Hj0. apply Oclaim; auto; destruct S; auto.
    + inv_all C. inversion C; subst; clear C.
      rename v into j. rename v0 into jb.
      match goal with E' : move_job _ _ _ ?A0 (BAgv t) = Ok ?y |- _ =>
        assert (Hne : A0 <> BAgv t) by (intros Eq; rewrite Eq in *; discriminate);
        assert (HA : forall t0, BAgv t0 <> A0) by (intros t0 Eq; rewrite <- Eq in *; discriminate);
        pose proof (move_job_moved i _ _ _ _ _ Hne E') as M; rename E' into Emv; rename y into x1 end.
      assert (Hj' : nth_error (s_jobs (with_sto (set_trans_ctl x1 t TTransit (OAt (s_now x + z)%Z) (t_loc ts) (t_job ts) (t_out ts)) l)) j
                    = Some (set_j_loc jb (BAgv t))).
      { simpl. destruct (set_trans_ctl_other x1 t TTransit (OAt (s_now x + z)%Z) (t_loc ts) (t_job ts) (t_out ts)) as [Hj _].
        rewrite Hj. eapply moved_job_record; eauto. }
      (* the two side conditions, read back *)
      unfold side2 in Hside. apply andb_true_iff in Hside. destruct Hside as [Hs1 Hs2].
      assert (Hrun : is_job_running jb = false).
      { unfold transit_side_b in Hs1. rewrite N, E, Hj' in Hs1. simpl in Hs1. apply negb_true_iff in Hs1. exact Hs1. }
      assert (Hclaim : t_job ts = Some j).
      { unfold transit_claim_b in Hs2. rewrite Hc, N in Hs2.
        assert (Ht' : nth_error (s_trans (with_sto (set_trans_ctl x1 t TTransit (OAt (s_now x + z)%Z) (t_loc ts) (t_job ts) (t_out ts)) l)) t
                      = Some (mkTransport TTransit (OAt (s_now x + z)%Z)
                                (match nth_error (s_trans x1) t with Some q => t_buf q | None => t_buf ts end)
                                (t_loc ts) (t_job ts) (t_out ts))).
        { simpl. rewrite set_trans_ctl_nth.
          destruct (nth_error (s_trans x1) t) as [q|] eqn:Eq.
          - rewrite Nat.eqb_refl. reflexivity.
          - exfalso. apply nth_error_None in Eq. rewrite (mv_len_t _ _ _ _ _ _ M) in Eq. apply nth_error_lt in Hts. lia. }
        rewrite Ht' in Hs2. simpl in Hs2. rewrite E in Hs2. destruct (t_job ts) as [j2|]; simpl in Hs2; [|discriminate].
        apply Nat.eqb_eq in Hs2. congruence. }
      eapply (OD_transport_change x _ t); eauto.
      * intros j0 jb0' H0. simpl in H0.
        destruct (set_trans_ctl_other x1 t TTransit (OAt (s_now x + z)%Z) (t_loc ts) (t_job ts) (t_out ts)) as [Hjj _].
        rewrite Hjj in H0. destruct (Nat.eq_dec j0 j) as [->|Hn].
        -- rewrite (moved_job_record i _ _ _ _ _ _ Hne Emv E0) in H0. inversion H0; subst jb0'.
           exists jb. split; auto. split; [reflexivity|]. right. simpl. discriminate.
        -- rewrite (frame_jobs_move i _ _ _ _ _ j0 Hne Emv Hn) in H0. exists jb0'. auto.
      * intros t' Hn. rewrite tview_with_sto, tview_set_trans_ctl. destruct (Nat.eqb_spec t' t); [congruence|].
        apply (tview_moved_other i _ _ _ _ _ t' M); [apply HA|congruence].
      * intros p Hp. rewrite tview_with_sto, tview_set_trans_ctl, Nat.eqb_refl in Hp.
        rewrite (tview_moved_target i _ _ _ _ _ _ _ _ _ M (tview_of _ _ _ Hts)) in Hp. simpl in Hp. inversion Hp; subst p. clear Hp.
        rewrite (AG_phase_empty _ _ _ A Hts ltac:(destruct S; congruence)). simpl. split.
        -- intros Ho j0 [<-|[]]. intros jb0 Hjb0. rewrite Hj' in Hjb0. inversion Hjb0; subst jb0.
           unfold all_operations_done. simpl.
           apply (done_of_noidle_notrunning jb); auto.
           ++ eapply (fe_pat _ _ F j). simpl. unfold jops. rewrite E0. reflexivity.
           ++ apply (Oclaim ltac:(destruct S; auto) Ho j Hclaim); auto.
        -- intros [Q|Q]; discriminate.
  - (* delivery *)
    unfold h_t_transit_outage in C. inv_all C. inversion C; subst; clear C.
    apply of_opt_ok in E. apply get_job_ok in E0.
    rename v into j. rename v0 into jb.
    match goal with E' : move_job _ _ _ (BAgv t) ?B = Ok ?y |- _ => rename E' into Emv; rename y into x1; rename B into B0 end.
    destruct (t_loc ts) as [|cur src dst] eqn:El; [discriminate|]. inversion E1; subst v1.
    assert (HB : BAgv t <> B0 /\ (forall t', BAgv t' <> B0) /\ (is_output i B0 = true -> out_dst (LRoute cur src dst) = true)).
    { match goal with E' : match dst with PM _ => _ | PB _ => _ | PT _ => _ end = Ok B0 |- _ =>
        destruct dst; inv_all E'; inversion E'; subst; (split; [congruence|]); (split; [congruence|]); simpl; auto end. }
    destruct HB as [Hne [HB Hout]].
    pose proof (move_job_moved i _ _ _ _ _ Hne Emv) as M.
    destruct (tview_moved_source i _ _ _ _ _ _ _ _ _ M (tview_of _ _ _ Hts)) as [Hv Hin].
    eapply (OD_transport_change x _ t); eauto.
    + intros j0 jb0' H0. simpl in H0.
      match type of H0 with nth_error (s_jobs (set_trans_ctl ?y ?a ?b ?c ?d ?e ?f)) _ = _ =>
        destruct (set_trans_ctl_other y a b c d e f) as [Hjj _]; rewrite Hjj in H0 end.
      destruct (Nat.eq_dec j0 j) as [->|Hn].
      * rewrite (moved_job_record i _ _ _ _ _ _ Hne Emv E0) in H0. inversion H0; subst jb0'.
        exists jb. split; auto. split; [reflexivity|]. right. simpl. intros Ho.
        unfold all_operations_done. simpl. apply (Ocarry (Hout Ho) j Hin); auto.
      * rewrite (frame_jobs_move i _ _ _ _ _ j0 Hne Emv Hn) in H0. exists jb0'. auto.
    + intros t' Hn. rewrite tview_with_sto, tview_set_trans_ctl. destruct (Nat.eqb_spec t' t); [congruence|].
      apply (tview_moved_other i _ _ _ _ _ t' M); [congruence|apply HB].
    + intros p Hp. rewrite tview_with_sto, tview_set_trans_ctl, Nat.eqb_refl, Hv in Hp. simpl in Hp. inversion Hp; subst p. clear Hp.
      simpl. split; [discriminate|]. intros [Q|Q]; discriminate.
  - (* OUTAGE -> IDLE *)
    unfold h_t_outage_idle in C. inversion C; subst.
    eapply OD_ctl; eauto. split; [exact Ocarry|]. intros [Q|Q]; discriminate.
  - (* WAITING -> WAITING *)
    unfold h_t_waiting_waiting in C. inv_all C. inversion C; subst; clear C.
    eapply OD_ctl; eauto. split; [exact Ocarry|]. intros _ Ho j Hj. apply Oclaim; auto.
Qed.

Theorem apply_preserves_OD x tr x' :
  FE i x -> AG x -> OD x -> apply_transition sigma i x tr = Ok x' -> side2 tr x' = true -> OD x'.
Proof.
  intros F A O H Hs. destruct (tr_comp tr) as [m|t|n] eqn:Hc.
  - destruct (nth_error (s_machs x) m) as [ms|] eqn:Hms; [|unfold apply_transition in H; rewrite Hc, Hms in H; discriminate].
    eapply OD_machine; eauto.
  - destruct (nth_error (s_trans x) t) as [ts|] eqn:Hts; [|unfold apply_transition in H; rewrite Hc, Hts in H; discriminate].
    eapply OD_transport; eauto.
  - unfold apply_transition in H. rewrite Hc in H. destruct (nth_error (s_bufs x) n); discriminate.
Qed.

(* ---------- FE, AG and OD together ---------- *)
Definition INV (x : state) : Prop := FE i x /\ AG x /\ OD x.

Lemma side2_parts tr y : side2 tr y = true -> transit_side_b tr y = true /\ transit_claim_b tr y = true.
Proof. unfold side2. apply andb_true_iff. Qed.

Lemma INV_apply x tr x' :
  NO x -> INV x -> is_transition_valid x tr = Ok true -> apply_transition sigma i x tr = Ok x' ->
  side2 tr x' = true -> INV x'.
Proof.
  intros N [F [A O]] Hv Ha Hs. destruct (side2_parts _ _ Hs) as [S1 _].
  split; [eapply apply_preserves_FE; eauto|]. split; [eapply apply_preserves_AG; eauto|].
  eapply apply_preserves_OD; eauto.
Qed.

Lemma OD_set_now x t : OD x -> OD (set_now x t).
Proof. intros [A B]. constructor; [exact A|]. intros t0 p Hp. apply (B t0 p Hp). Qed.

Lemma INV_now x t : INV x -> (s_now x <= t)%Z -> INV (set_now x t).
Proof.
  intros [F [A O]] H. split; [apply FE_set_now; auto|]. split; [apply AG_set_now; auto|apply OD_set_now; auto].
Qed.

Lemma fresh2_INV x : fresh2_b i x = true -> INV x.
Proof.
  intros H. unfold fresh2_b in H. apply andb_true_iff in H. destruct H as [H H3]. apply andb_true_iff in H. destruct H as [H1 H2].
  split; [apply fresh_FE; auto|].
  assert (Hidle : forall t ts, nth_error (s_trans x) t = Some ts -> t_st ts = TIdle /\ b_store (t_buf ts) = []).
  { intros t ts Ht. pose proof (forallb_nth _ _ _ _ H3 Ht) as Q. simpl in Q. apply andb_true_iff in Q. destruct Q as [Q1 Q2].
    split; [destruct (t_st ts); simpl in Q1; try discriminate; reflexivity|destruct (b_store (t_buf ts)); [reflexivity|discriminate]]. }
  split.
  - intros t p Hp. unfold tview in Hp. destruct (nth_error (s_trans x) t) as [ts|] eqn:E; [|discriminate].
    simpl in Hp. inversion Hp; subst p. destruct (Hidle _ _ E) as [A B]. unfold holds_ok; simpl. rewrite A. exact B.
  - constructor.
    + intros j jb Hj Ho. pose proof (forallb_nth _ _ _ _ H2 Hj) as Q. simpl in Q. rewrite Ho in Q. simpl in Q. exact Q.
    + intros t p Hp. unfold tview in Hp. destruct (nth_error (s_trans x) t) as [ts|] eqn:E; [|discriminate].
      simpl in Hp. inversion Hp; subst p. destruct (Hidle _ _ E) as [A B]. simpl. rewrite A, B. split.
      * intros _ j [].
      * intros [Q|Q]; discriminate.
Qed.

Lemma OD_output_done x : OD x -> output_done_b i x = true.
Proof.
  intros O. unfold output_done_b. apply forallb_forall. intros jb Hin. apply In_nth_error in Hin. destruct Hin as [j Hj].
  destruct (is_output i (j_loc jb)) eqn:E; auto. eapply od_out; eauto.
Qed.

Definition sides2 : mlog -> Prop := sidesG side2.
Definition reachS2 : nat -> state -> Z -> bool -> result -> mw -> Prop := reachG sigma i side2.

(* every job that lies in an output buffer is finished, in every state reachable from a compiled initial state
   under any action sequence (with the two monitored side conditions) ... *)
Theorem reachS2_output_done fuel x0 joker0 ta r m :
  clock_b x0 = true -> fresh2_b i x0 = true -> reachS2 fuel x0 joker0 ta r m -> output_done_b i (r_x r) = true.
Proof.
  intros C Fr H. apply NO_iff_clock_b in C.
  destruct (reachG_inv sigma i Hnn INV side2 INV_apply INV_now _ _ _ _ _ _ C (fresh2_INV _ Fr) H)
    as [xq [Nq [[_ [_ Oq]] [E|[_ [z E]]]]]]; rewrite E.
  - apply OD_output_done; auto.
  - apply OD_output_done. apply OD_set_now; auto.
Qed.

(* ... so a terminated episode (every job in an output buffer) has finished every operation of every job *)
Theorem reachS2_terminated_all_done fuel x0 joker0 ta r m :
  clock_b x0 = true -> fresh2_b i x0 = true -> reachS2 fuel x0 joker0 ta r m ->
  all_in_output i (r_x r) = true -> forallb all_operations_done (s_jobs (r_x r)) = true.
Proof.
  intros C Fr H Hout. pose proof (reachS2_output_done _ _ _ _ _ _ C Fr H) as Hod.
  unfold all_in_output in Hout. rewrite forallb_forall in *.
  intros jb Hin. specialize (Hout jb Hin). apply andb_true_iff in Hout. tauto.
Qed.

End OD.
