(* C09 over whole runs: on every machine the operations that were started form a sequence (in the order the machine
   took them) in which each one starts no earlier than the end of the one before plus the setup-matrix entry
   [tool of the one before -> its own tool] (the first one: [tool mounted initially -> its own tool] after the initial
   time), for deterministic matrix entries. The sequence is a ghost carried by the invariant SEQ; the mounted tool is
   the tool of the newest member. Carried with the invariants of SMP/Durations.v through SMP/LiftProv.v; what makes
   it go through is that SETUP -> WORKING is applied exactly when the setup time has elapsed (due where created,
   untouched inside its batch, and not late by the clock invariant). *)
From Coq Require Import List ZArith Bool Arith Lia.
From JSL Require Import Base.Res Base.ListX SM.Types SM.Util SM.Handler SM.Step SM.Middleware SM.Inv
  SMP.ListLemmas SMP.Frame SMP.WF SMP.Preserve SMP.StepInv SMP.Clock SMP.ClockStep SMP.ClockMain SMP.Post SMP.PostApply
  SMP.LiftSide SMP.FeasView SMP.Feasible SMP.FeasSound SMP.Agv SMP.OutputDone SMP.Offers SMP.Unique SMP.Reflect
  SMP.Prov SMP.LiftProv SMP.ProvBatch SMP.Durations.
Import ListNotations.
Close Scope Z_scope.

(* the tool mounted on a machine *)
Definition mtl (x : state) (m : nat) : option nat := option_map m_tool (nth_error (s_machs x) m).

Lemma mtl_of x m ms : nth_error (s_machs x) m = Some ms -> mtl x m = Some (m_tool ms).
Proof. intros H. unfold mtl. rewrite H. reflexivity. Qed.
Lemma mtl_put_job x j jb m : mtl (put_job x j jb) m = mtl x m. Proof. reflexivity. Qed.
Lemma mtl_with_sto x s m : mtl (with_sto x s) m = mtl x m. Proof. reflexivity. Qed.
Lemma mtl_set_now x z m : mtl (set_now x z) m = mtl x m. Proof. reflexivity. Qed.
Lemma mtl_set_trans_ctl x t st oc loc jb outs m : mtl (set_trans_ctl x t st oc loc jb outs) m = mtl x m.
Proof. unfold mtl. destruct (set_trans_ctl_other x t st oc loc jb outs) as [_ [_ [H _]]]. rewrite H. reflexivity. Qed.
Lemma mtl_set_mach_ctl x m st oc tool outs m' :
  mtl (set_mach_ctl x m st oc tool outs) m' = if Nat.eqb m m' then option_map (fun _ => tool) (mtl x m') else mtl x m'.
Proof.
  unfold mtl. rewrite set_mach_ctl_nth. destruct (nth_error (s_machs x) m') as [ms|]; [|destruct (Nat.eqb m m'); reflexivity].
  destruct (Nat.eqb m m'); reflexivity.
Qed.

Section Mv.
Variable i : inst.
Lemma mtl_moved x x1 j A B m : moved i x x1 j A B -> mtl x1 m = mtl x m.
Proof.
  intros M. unfold mtl. destruct (nth_error (s_machs x1) m) as [ms1|] eqn:E1.
  - destruct (mv_machs _ _ _ _ _ _ M _ _ E1) as [ms0 [E0 [_ [_ [C3 _]]]]]. rewrite E0. simpl. congruence.
  - apply nth_error_None in E1. rewrite (mv_len_m _ _ _ _ _ _ M) in E1. apply nth_error_None in E1. rewrite E1. reflexivity.
Qed.
End Mv.

Section T.
Variable sigma : oracle.
Variable i : inst.

(* the mounted tool changes only at the machine's own IDLE -> SETUP *)
Lemma apply_mtl x tr x' m' :
  apply_transition sigma i x tr = Ok x' -> mtl x' m' = mtl x m' \/ (tr_comp tr = CM m' /\ tr_new tr = NM MSetup).
Proof.
  intros H. destruct (tr_comp tr) as [m|t|n] eqn:Hc.
  - destruct (nth_error (s_machs x) m) as [ms|] eqn:Hms; [|unfold apply_transition in H; rewrite Hc, Hms in H; discriminate].
    destruct (apply_machine sigma i _ _ _ _ _ Hc Hms H) as [[_ [Hn C]]|[[_ [_ C]]|[[_ [_ C]]|[_ [_ C]]]]].
    + destruct (Nat.eq_dec m m') as [->|Hd]; [right; auto|left].
      unfold h_m_idle_setup in C. inv_all C. inversion C; subst; clear C.
      assert (Hne : BPre m <> BIn m) by congruence.
      match goal with E' : move_job _ _ _ _ _ = Ok ?y |- _ => pose proof (move_job_moved i _ _ _ _ _ Hne E') as M end.
      rewrite mtl_with_sto, mtl_set_mach_ctl. apply Nat.eqb_neq in Hd. rewrite Hd.
      rewrite (mtl_moved i _ _ _ _ _ m' M). apply mtl_put_job.
    + left. unfold h_m_setup_working in C. inv_all C. inversion C; subst; clear C.
      rewrite mtl_with_sto, mtl_set_mach_ctl, mtl_put_job. destruct (Nat.eqb_spec m m') as [<-|]; [|reflexivity].
      rewrite (mtl_of _ _ _ Hms). reflexivity.
    + left. unfold h_m_working_outage in C. inv_all C. inversion C; subst; clear C.
      rewrite mtl_with_sto, mtl_set_mach_ctl, mtl_put_job. destruct (Nat.eqb_spec m m') as [<-|]; [|reflexivity].
      rewrite (mtl_of _ _ _ Hms). reflexivity.
    + left. unfold h_m_outage_idle in C. inv_all C. inversion C; subst; clear C.
      assert (Hne : BIn m <> BPost m) by congruence.
      match goal with E' : move_job _ _ _ _ _ = Ok ?y |- _ => pose proof (move_job_moved i _ _ _ _ _ Hne E') as M end.
      rewrite mtl_set_mach_ctl, (mtl_moved i _ _ _ _ _ m' M), mtl_put_job. destruct (Nat.eqb_spec m m') as [<-|]; [|reflexivity].
      rewrite (mtl_of _ _ _ Hms). reflexivity.
  - left.
    destruct (nth_error (s_trans x) t) as [ts|] eqn:Hts; [|unfold apply_transition in H; rewrite Hc, Hts in H; discriminate].
    destruct (apply_transport sigma i _ _ _ _ _ Hc Hts H) as [[_ [_ C]]|[[_ [_ C]]|[[_ [_ C]]|[[_ [_ C]]|[[_ [_ C]]|[_ [_ C]]]]]]].
    + unfold h_t_idle_working in C. inv_all C. inversion C; subst; clear C. apply mtl_set_trans_ctl.
    + unfold h_t_pickup_waiting in C. inv_all C. inversion C; subst; clear C. apply mtl_set_trans_ctl.
    + destruct (post_to_transit sigma i _ _ _ _ _ Hts C) as [j [jb [sb [sc [Hj [Hjb [Hsb [Hsc _]]]]]]]].
      unfold h_t_to_transit in C. rewrite Hj in C. simpl in C. unfold get_job in C. rewrite Hjb in C. simpl in C.
      rewrite Hsb, Hsc in C. simpl in C. inv1 C. inv1 C.
      { unfold h_t_waiting_waiting in C. inv_all C. inversion C; subst; clear C. apply mtl_set_trans_ctl. }
      inv_all C. inversion C; subst; clear C.
      assert (Hn2 : j_loc jb <> BAgv t) by (intros Eq; rewrite Eq in *; discriminate).
      match goal with E' : move_job _ _ _ _ _ = Ok ?y |- _ => pose proof (move_job_moved i _ _ _ _ _ Hn2 E') as M end.
      rewrite mtl_with_sto, mtl_set_trans_ctl. apply (mtl_moved i _ _ _ _ _ m' M).
    + unfold h_t_transit_outage in C. inv_all C. inversion C; subst; clear C.
      match goal with E' : move_job _ _ _ (BAgv t) ?B = Ok ?y |- _ =>
        assert (Hn2 : BAgv t <> B) by
          (match goal with E'' : match ?d with PM _ => _ | PB _ => _ | PT _ => _ end = Ok B |- _ =>
             destruct d; inv_all E''; inversion E''; subst; congruence end);
        pose proof (move_job_moved i _ _ _ _ _ Hn2 E') as M end.
      rewrite mtl_with_sto, mtl_set_trans_ctl. apply (mtl_moved i _ _ _ _ _ m' M).
    + unfold h_t_outage_idle in C. inversion C; subst; clear C. apply mtl_set_trans_ctl.
    + unfold h_t_waiting_waiting in C. inv_all C. inversion C; subst; clear C. apply mtl_set_trans_ctl.
  - unfold apply_transition in H. rewrite Hc in H. destruct (nth_error (s_bufs x) n); discriminate.
Qed.

End T.

(* ---------- the sequence invariant ---------- *)
Definition cref := (nat * nat)%type.
Definition crec (x : state) (c : cref) (o : op) : Prop := vop (view_of x) (fst c) (snd c) o.

Lemma crec_fun x c o o2 : crec x c o -> crec x c o2 -> o = o2.
Proof. apply vop_fun. Qed.

Lemma cref_dec (a b : cref) : {a = b} + {a <> b}.
Proof. decide equality; apply Nat.eq_dec. Qed.

Section S.
Variable sigma : oracle.
Variable i : inst.
Hypothesis Hnn : inst_nonneg_b i = true.
Variable tool0 : nat -> nat.
Variable t0 : Z.

Definition ctool (c : cref) (a : nat) : Prop := exists oc, get_opcfg i (fst c) (snd c) = Ok oc /\ oc_tool oc = a.

(* c was set up on m from tool a, the machine being free since e: for a deterministic matrix entry sd, its processing
   started at e + sd or later (while it is still in SETUP: the machine is blocked until e + sd or later) *)
Definition GAP (x : state) (m : nat) (a : nat) (e : Z) (c : cref) : Prop :=
  forall o oc mc sd, crec x c o -> get_opcfg i (fst c) (snd c) = Ok oc -> nth_error (i_machs i) m = Some mc ->
    setup_lookup (mc_setup mc) a (oc_tool oc) = Some (Det sd) ->
    (o_st o = ODone -> exists s, o_start o = Time s /\ (e + sd <= s)%Z)
    /\ (o_st o = OProc -> forall st occ l, mrec x m = Some (st, occ, l) ->
          (st = MSetup -> exists z, occ = Time z /\ (e + sd <= z)%Z)
          /\ (st <> MSetup -> exists s, o_start o = Time s /\ (e + sd <= s)%Z)).

Record SEQ (x : state) (g : nat -> list cref) : Prop := {
  sq_in : forall c o, crec x c o -> o_st o <> OIdle -> In c (g (o_mach o));
  sq_mem : forall m c, In c (g m) -> exists o, crec x c o /\ o_st o <> OIdle /\ o_mach o = m;
  sq_nodup : forall m, NoDup (g m);
  sq_tool : forall m ms, nth_error (s_machs x) m = Some ms ->
              match g m with c :: _ => ctool c (m_tool ms) | [] => m_tool ms = tool0 m end;
  sq_adj : forall m n c2 c1, nth_error (g m) n = Some c2 -> nth_error (g m) (S n) = Some c1 ->
              exists o1 e, crec x c1 o1 /\ o_st o1 = ODone /\ o_end o1 = Time e
                           /\ (forall o2, crec x c2 o2 -> tle (Time e) (o_start o2))
                           /\ (forall a, ctool c1 a -> GAP x m a e c2);
  sq_first : forall m n c, nth_error (g m) n = Some c -> length (g m) = S n ->
              (forall o, crec x c o -> tle (Time t0) (o_start o)) /\ GAP x m (tool0 m) t0 c
}.

(* nothing recorded changes, machines keep phase and occupied_till, tools stay *)
Lemma SEQ_frame x x' g :
  (forall j, jops x' j = jops x j) ->
  (forall m st oc l1, mrec x' m = Some (st, oc, l1) -> exists l0, mrec x m = Some (st, oc, l0)) ->
  (forall m, mtl x' m = mtl x m) -> SEQ x g -> SEQ x' g.
Proof.
  intros Hj Hm Ht S.
  assert (Hc : forall c o, crec x' c o <-> crec x c o).
  { intros c o. unfold crec, vop. simpl. rewrite Hj. tauto. }
  assert (Hg : forall m a e c, GAP x m a e c -> GAP x' m a e c).
  { intros m a e c G o oc mc sd Ho Hoc Hmc Hs. apply Hc in Ho. destruct (G o oc mc sd Ho Hoc Hmc Hs) as [G1 G2]. split; auto.
    intros So st occ l Hr. destruct (Hm _ _ _ _ Hr) as [l0 Hr0]. eapply G2; eauto. }
  constructor.
  - intros c o Ho. apply Hc in Ho. apply (sq_in _ _ S); auto.
  - intros m c Hin. destruct (sq_mem _ _ S m c Hin) as [o [A B]]. exists o. split; auto. apply Hc; auto.
  - apply (sq_nodup _ _ S).
  - intros m ms Hms. pose proof (Ht m) as E. rewrite (mtl_of _ _ _ Hms) in E. unfold mtl in E.
    destruct (nth_error (s_machs x) m) as [ms0|] eqn:E0; [|discriminate]. simpl in E. inversion E as [E1].
    rewrite E1. apply (sq_tool _ _ S m ms0 E0).
  - intros m n c2 c1 H2 H1. destruct (sq_adj _ _ S m n c2 c1 H2 H1) as [o1 [e [A1 [A2 [A3 [A4 A5]]]]]].
    exists o1, e. split; [apply Hc; auto|]. split; auto. split; auto. split.
    + intros o2 Ho2. apply Hc in Ho2. auto.
    + intros a Ha. apply Hg. auto.
  - intros m n c Hn Hl. destruct (sq_first _ _ S m n c Hn Hl) as [A1 A2]. split.
    + intros o Ho. apply Hc in Ho. auto.
    + apply Hg. auto.
Qed.

Lemma SEQ_set_now x g z : SEQ x g -> SEQ (set_now x z) g.
Proof.
  apply SEQ_frame; auto.
  - intros m st oc l H. rewrite mrec_set_now in H. eauto.
Qed.

(* ---------- one record (j,k) changes ---------- *)
Lemma crec_upd x x' j k ops o o' :
  jops x j = Some ops -> nth_error ops k = Some o ->
  (forall j', j' <> j -> jops x' j' = jops x j') -> jops x' j = Some (upd ops k o') ->
  forall c o0, crec x' c o0 <-> (if cref_dec c (j, k) then o0 = o' else crec x c o0).
Proof.
  intros Hops Ho Hjo Hjj [j0 k0] o0. assert (Hk : k < length ops) by (eapply nth_error_lt; eauto).
  unfold crec, vop. simpl. destruct (cref_dec (j0, k0) (j, k)) as [E|N].
  - inversion E; subst j0 k0. split.
    + intros [ops0 [A B]]. rewrite Hjj in A. inversion A; subst ops0. rewrite nth_upd_same in B by auto. congruence.
    + intros ->. exists (upd ops k o'). split; auto. apply nth_upd_same; auto.
  - destruct (Nat.eq_dec j0 j) as [->|Hn].
    + assert (Hnk : k <> k0) by congruence. rewrite Hjj, Hops. split; intros [ops0 [A B]]; inversion A; subst ops0.
      * rewrite nth_upd_other in B by auto. eauto.
      * exists (upd ops k o'). split; auto. rewrite nth_upd_other by auto. auto.
    + rewrite (Hjo _ Hn). tauto.
Qed.

Lemma GAP_keep x x' m a e c :
  (forall o, crec x' c o -> crec x c o /\
      (o_st o = OProc -> forall st occ l, mrec x' m = Some (st, occ, l) -> exists l0, mrec x m = Some (st, occ, l0))) ->
  GAP x m a e c -> GAP x' m a e c.
Proof.
  intros H G o oc mc sd Ho Hoc Hmc Hs. destruct (H o Ho) as [Ho0 Hm]. destruct (G o oc mc sd Ho0 Hoc Hmc Hs) as [G1 G2].
  split; auto. intros So st occ l Hr. destruct (Hm So _ _ _ Hr) as [l0 Hr0]. eapply G2; eauto.
Qed.

Lemma tool_frame x x' (g : nat -> list cref) m :
  mtl x' m = mtl x m ->
  (forall ms, nth_error (s_machs x) m = Some ms -> match g m with c :: _ => ctool c (m_tool ms) | [] => m_tool ms = tool0 m end) ->
  forall ms, nth_error (s_machs x') m = Some ms -> match g m with c :: _ => ctool c (m_tool ms) | [] => m_tool ms = tool0 m end.
Proof.
  intros E H ms Hms. rewrite (mtl_of _ _ _ Hms) in E. unfold mtl in E.
  destruct (nth_error (s_machs x) m) as [ms0|] eqn:E0; [|discriminate]. simpl in E. inversion E as [E1]. rewrite E1. apply H. reflexivity.
Qed.

(* the record in process on m changes (start / end / state), the sequence stays *)
Lemma SEQ_upd_same x x' g j k ops o o' m :
  SEQ x g ->
  jops x j = Some ops -> nth_error ops k = Some o ->
  (forall j', j' <> j -> jops x' j' = jops x j') -> jops x' j = Some (upd ops k o') ->
  (forall m', m' <> m -> mrec x' m' = mrec x m') ->
  (forall m', mtl x' m' = mtl x m') ->
  o_st o = OProc -> o_mach o = m -> o_mach o' = m -> o_st o' <> OIdle ->
  (forall c0 o0, crec x c0 o0 -> o_st o0 = OProc -> o_mach o0 = m -> c0 = (j, k)) ->
  (forall e, tle (Time e) (o_start o) -> tle (Time e) (o_start o')) ->
  (forall a e, GAP x m a e (j, k) -> GAP x' m a e (j, k)) ->
  SEQ x' g.
Proof.
  intros S Hops Ho Hjo Hjj Hmo Hto So Hm Hm' So' Huniq Hst Hgap.
  pose proof (crec_upd x x' j k ops o o' Hops Ho Hjo Hjj) as Hc.
  assert (Hrec : crec x (j, k) o) by (exists ops; simpl; auto).
  assert (Old : forall c o0, c <> (j, k) -> crec x' c o0 -> crec x c o0).
  { intros c o0 Hn H. apply Hc in H. destruct (cref_dec c (j, k)); [contradiction|auto]. }
  assert (New : forall c o0, c <> (j, k) -> crec x c o0 -> crec x' c o0).
  { intros c o0 Hn H. apply Hc. destruct (cref_dec c (j, k)); [contradiction|auto]. }
  assert (Newc : crec x' (j, k) o') by (apply Hc; destruct (cref_dec (j, k) (j, k)); [reflexivity|congruence]).
  assert (Only : forall o0, crec x' (j, k) o0 -> o0 = o').
  { intros o0 H. apply Hc in H. destruct (cref_dec (j, k) (j, k)); [auto|congruence]. }
  assert (Fact1 : forall m0, In (j, k) (g m0) -> m0 = m).
  { intros m0 Hin. destruct (sq_mem _ _ S _ _ Hin) as [o0 [A [_ B]]]. rewrite (crec_fun _ _ _ _ A Hrec) in B. congruence. }
  assert (GO : forall m0 a e c2, c2 <> (j, k) -> In c2 (g m0) -> GAP x m0 a e c2 -> GAP x' m0 a e c2).
  { intros m0 a e c2 Hn Hin. apply GAP_keep. intros o2 Ho2. split; [apply Old; auto|].
    intros S2 st occ l Hr. destruct (Nat.eq_dec m0 m) as [->|Hd]; [|rewrite (Hmo _ Hd) in Hr; eauto].
    exfalso. apply Hn. apply (Huniq c2 o2); auto.
    destruct (sq_mem _ _ S _ _ Hin) as [o3 [A [_ B]]]. rewrite (crec_fun _ _ _ _ (Old _ _ Hn Ho2) A). exact B. }
  constructor.
  - intros c o0 H0 Hs. destruct (cref_dec c (j, k)) as [->|Hn].
    + rewrite (Only _ H0), Hm', <- Hm. apply (sq_in _ _ S (j, k) o Hrec). congruence.
    + apply (sq_in _ _ S c o0); auto.
  - intros m0 c Hin. destruct (cref_dec c (j, k)) as [->|Hn].
    + exists o'. split; auto. split; auto. rewrite (Fact1 _ Hin). auto.
    + destruct (sq_mem _ _ S _ _ Hin) as [o0 [A B]]. exists o0. split; auto.
  - apply (sq_nodup _ _ S).
  - intros m0. apply (tool_frame x x' g m0 (Hto m0)). apply (sq_tool _ _ S).
  - intros m0 n c2 c1 H2 H1. destruct (sq_adj _ _ S m0 n c2 c1 H2 H1) as [o1 [e [A1 [A2 [A3 [A4 A5]]]]]].
    assert (Hn1 : c1 <> (j, k)).
    { intros ->. rewrite (crec_fun _ _ _ _ A1 Hrec) in A2. congruence. }
    exists o1, e. split; [apply New; auto|]. split; auto. split; auto. split.
    + intros o2 Ho2. destruct (cref_dec c2 (j, k)) as [->|Hn2].
      * rewrite (Only _ Ho2). apply Hst. apply A4. auto.
      * apply A4. apply Old; auto.
    + intros a Ha. destruct (cref_dec c2 (j, k)) as [->|Hn2].
      * rewrite (Fact1 m0 (nth_error_In _ _ H2)) in *. apply Hgap. auto.
      * apply GO; auto. eapply nth_error_In; eauto.
  - intros m0 n c Hn Hl. destruct (sq_first _ _ S m0 n c Hn Hl) as [A1 A2]. split.
    + intros o0 H0. destruct (cref_dec c (j, k)) as [->|Hnc].
      * rewrite (Only _ H0). apply Hst. apply A1. auto.
      * apply A1. apply Old; auto.
    + destruct (cref_dec c (j, k)) as [->|Hnc].
      * rewrite (Fact1 m0 (nth_error_In _ _ Hn)) in *. apply Hgap. auto.
      * apply GO; auto. eapply nth_error_In; eauto.
Qed.

(* ---------- IDLE -> SETUP: the record joins the machine's sequence ---------- *)
Definition gpush (g : nat -> list cref) (m : nat) (c : cref) : nat -> list cref :=
  fun m' => if Nat.eqb m' m then c :: g m else g m'.

Lemma ctool_fun c a b : ctool c a -> ctool c b -> a = b.
Proof. intros [oc [A1 A2]] [oc' [B1 B2]]. congruence. Qed.

Lemma SEQ_upd_setup x x' g j k ops o m oc mc sc sd ms :
  SEQ x g -> FE i x ->
  jops x j = Some ops -> nth_error ops k = Some o -> o_st o = OIdle ->
  (forall j', j' <> j -> jops x' j' = jops x j') ->
  jops x' j = Some (upd ops k (mkOp m (Time (s_now x)) (Time (s_now x + sd)%Z) OProc)) ->
  (forall m', m' <> m -> mrec x' m' = mrec x m') ->
  (forall m', m' <> m -> mtl x' m' = mtl x m') ->
  nth_error (s_machs x) m = Some ms -> m_st ms = MIdle ->
  get_opcfg i j k = Ok oc -> nth_error (i_machs i) m = Some mc ->
  setup_lookup (mc_setup mc) (m_tool ms) (oc_tool oc) = Some sc -> tc_read (s_sto x) sc = Ok sd ->
  mtl x' m = Some (oc_tool oc) ->
  (exists l, mrec x' m = Some (MSetup, Time (s_now x + sd)%Z, l)) ->
  (t0 <= s_now x)%Z ->
  SEQ x' (gpush g m (j, k)).
Proof.
  intros Sq F Hops Ho So Hjo Hjj Hmo Hto Hms Hst Hoc Hmc Hsc Hsd Htl [l' Hr'] Ht0.
  set (o' := mkOp m (Time (s_now x)) (Time (s_now x + sd)%Z) OProc) in *.
  pose proof (crec_upd x x' j k ops o o' Hops Ho Hjo Hjj) as Hc.
  assert (Hrec : crec x (j, k) o) by (exists ops; simpl; auto).
  assert (Old : forall c o0, c <> (j, k) -> crec x' c o0 -> crec x c o0).
  { intros c o0 Hn H. apply Hc in H. destruct (cref_dec c (j, k)); [contradiction|auto]. }
  assert (New : forall c o0, c <> (j, k) -> crec x c o0 -> crec x' c o0).
  { intros c o0 Hn H. apply Hc. destruct (cref_dec c (j, k)); [contradiction|auto]. }
  assert (Newc : crec x' (j, k) o') by (apply Hc; destruct (cref_dec (j, k) (j, k)); [reflexivity|congruence]).
  assert (Only : forall o0, crec x' (j, k) o0 -> o0 = o').
  { intros o0 H. apply Hc in H. destruct (cref_dec (j, k) (j, k)); [auto|congruence]. }
  assert (Notin : forall m0, ~ In (j, k) (g m0)).
  { intros m0 Hin. destruct (sq_mem _ _ Sq _ _ Hin) as [o0 [A [B _]]]. rewrite (crec_fun _ _ _ _ A Hrec) in B. congruence. }
  assert (Hv : mview x m = Some (MIdle, b_store (m_in ms))) by (unfold mview; rewrite Hms; simpl; rewrite Hst; reflexivity).
  assert (AllDone : forall c0 o0, In c0 (g m) -> crec x c0 o0 -> o_st o0 = ODone /\ exists e, o_end o0 = Time e /\ (e <= s_now x)%Z).
  { intros c0 o0 Hin H0. destruct (sq_mem _ _ Sq _ _ Hin) as [o3 [A [B C]]]. rewrite (crec_fun _ _ _ _ A H0) in B, C.
    destruct (o_st o0) eqn:Es; try congruence.
    - exfalso. destruct (fe_proc _ _ F _ _ _ H0 Es) as [[st [A1 A2]] _]. simpl in A1. rewrite C, Hv in A1. inversion A1. congruence.
    - split; auto. destruct (fe_past _ _ F _ _ _ H0) as [P1 _]. destruct (tle_is_time _ _ (P1 Es)) as [a [b [E1 [E2 L]]]].
      inversion E2; subst b. simpl in L. eauto.
    - exfalso. destruct H0 as [ops0 [V1 V2]]. destruct (fe_pat _ _ F _ _ V1) as [Q0 _]. eapply Q0; eauto. }
  assert (GO : forall m0 a e c2, In c2 (g m0) -> GAP x m0 a e c2 -> GAP x' m0 a e c2).
  { intros m0 a e c2 Hin. assert (Hn : c2 <> (j, k)) by (intros ->; eapply Notin; eauto).
    apply GAP_keep. intros o2 Ho2. split; [apply Old; auto|].
    intros S2 st occ l Hr. destruct (Nat.eq_dec m0 m) as [->|Hd]; [|rewrite (Hmo _ Hd) in Hr; eauto].
    exfalso. destruct (AllDone c2 o2 Hin (Old _ _ Hn Ho2)) as [D _]. congruence. }
  assert (GN : forall a e, a = m_tool ms -> (e <= s_now x)%Z -> GAP x' m a e (j, k)).
  { intros a e -> He o2 oc2 mc2 sd2 Ho2 Hoc2 Hmc2 Hs2. rewrite (Only _ Ho2). simpl in Hoc2.
    rewrite Hoc in Hoc2. inversion Hoc2; subst oc2. rewrite Hmc in Hmc2. inversion Hmc2; subst mc2.
    rewrite Hsc in Hs2. inversion Hs2; subst sc. simpl in Hsd. inversion Hsd; subst sd2.
    split; [simpl; discriminate|]. intros _ st occ l Hr. rewrite Hr' in Hr. inversion Hr; subst st occ l.
    split; [intros _; exists (s_now x + sd)%Z; split; [reflexivity|lia]|congruence]. }
  assert (AdjKeep : forall m0 n c2 c1, nth_error (g m0) n = Some c2 -> nth_error (g m0) (S n) = Some c1 ->
            exists o1 e, crec x' c1 o1 /\ o_st o1 = ODone /\ o_end o1 = Time e
                         /\ (forall o2, crec x' c2 o2 -> tle (Time e) (o_start o2))
                         /\ (forall a, ctool c1 a -> GAP x' m0 a e c2)).
  { intros m0 n c2 c1 H2 H1. destruct (sq_adj _ _ Sq m0 n c2 c1 H2 H1) as [o1 [e [A1 [A2 [A3 [A4 A5]]]]]].
    assert (N1 : c1 <> (j, k)) by (intros ->; eapply Notin; eapply nth_error_In; eauto).
    assert (N2 : c2 <> (j, k)) by (intros ->; eapply Notin; eapply nth_error_In; eauto).
    exists o1, e. split; [apply New; auto|]. split; auto. split; auto. split.
    - intros o2 Ho2. apply A4. apply Old; auto.
    - intros a Ha. apply GO; auto. eapply nth_error_In; eauto. }
  assert (FirstKeep : forall m0 n c, nth_error (g m0) n = Some c -> length (g m0) = S n ->
            (forall o0, crec x' c o0 -> tle (Time t0) (o_start o0)) /\ GAP x' m0 (tool0 m0) t0 c).
  { intros m0 n c Hn Hl. destruct (sq_first _ _ Sq m0 n c Hn Hl) as [A1 A2].
    assert (N1 : c <> (j, k)) by (intros ->; eapply Notin; eapply nth_error_In; eauto). split.
    - intros o0 H0. apply A1. apply Old; auto.
    - apply GO; auto. eapply nth_error_In; eauto. }
  constructor.
  - intros c o0 H0 Hs. unfold gpush. destruct (cref_dec c (j, k)) as [->|Hn].
    + rewrite (Only _ H0). simpl. rewrite Nat.eqb_refl. left. reflexivity.
    + pose proof (sq_in _ _ Sq c o0 (Old _ _ Hn H0) Hs) as Hin. destruct (Nat.eqb_spec (o_mach o0) m) as [E|E]; [right; rewrite <- E|]; auto.
  - intros m0 c Hin. unfold gpush in Hin. destruct (Nat.eqb_spec m0 m) as [->|E].
    + destruct Hin as [<-|Hin]; [exists o'; split; auto; split; [simpl; discriminate|reflexivity]|].
      destruct (sq_mem _ _ Sq _ _ Hin) as [o0 [A B]]. exists o0. split; auto. apply New; auto. intros ->. eapply Notin; eauto.
    + destruct (sq_mem _ _ Sq _ _ Hin) as [o0 [A B]]. exists o0. split; auto. apply New; auto. intros ->. eapply Notin; eauto.
  - intros m0. unfold gpush. destruct (Nat.eqb_spec m0 m) as [->|E]; [|apply (sq_nodup _ _ Sq)].
    constructor; [apply Notin|apply (sq_nodup _ _ Sq)].
  - intros m0 ms0 Hms0. unfold gpush. destruct (Nat.eqb_spec m0 m) as [->|E].
    + rewrite (mtl_of _ _ _ Hms0) in Htl. inversion Htl as [E1]. exists oc. auto.
    + apply (tool_frame x x' g m0 (Hto _ E) (sq_tool _ _ Sq m0) ms0 Hms0).
  - intros m0 n c2 c1 H2 H1. unfold gpush in H2, H1. destruct (Nat.eqb_spec m0 m) as [->|E]; [|apply AdjKeep with (n := n); auto].
    destruct n as [|n]; [|change (nth_error (g m) n = Some c2) in H2; change (nth_error (g m) (Datatypes.S n) = Some c1) in H1; apply AdjKeep with (n := n); auto].
    change (nth_error (g m) 0 = Some c1) in H1. simpl in H2. inversion H2; subst c2.
    assert (Hin1 : In c1 (g m)) by (eapply nth_error_In; eauto).
    destruct (sq_mem _ _ Sq _ _ Hin1) as [o1 [A1 _]]. destruct (AllDone _ _ Hin1 A1) as [D [e [Ee Le]]].
    exists o1, e. split; [apply New; auto; intros ->; eapply Notin; eauto|]. split; auto. split; auto. split.
    + intros o2 Ho2. rewrite (Only _ Ho2). simpl. apply tle_Time. exact Le.
    + intros a Ha. apply GN; auto. pose proof (sq_tool _ _ Sq m ms Hms) as Ht. destruct (g m) as [|c0 r]; [discriminate|].
      simpl in H1. inversion H1; subst c0. eapply ctool_fun; eauto.
  - intros m0 n c Hn Hl. unfold gpush in Hn, Hl. destruct (Nat.eqb_spec m0 m) as [->|E]; [|apply FirstKeep with (n := n); auto].
    destruct n as [|n].
    + simpl in Hn, Hl. inversion Hn; subst c. assert (Eg : g m = []) by (destruct (g m); [reflexivity|simpl in Hl; lia]).
      pose proof (sq_tool _ _ Sq m ms Hms) as Ht. rewrite Eg in Ht. split.
      * intros o0 H0. rewrite (Only _ H0). simpl. apply tle_Time. exact Ht0.
      * apply GN; auto.
    + simpl in Hn, Hl. apply FirstKeep with (n := n); auto.
Qed.

(* ---------- one applied transition ---------- *)
Definition due_w (x : state) (tr : transition) : Prop :=
  forall m, tr_comp tr = CM m -> tr_new tr = NM MWorking ->
  exists st z l, mrec x m = Some (st, Time z, l) /\ (z <= s_now x)%Z.

Lemma crec_of x j jb k o : nth_error (s_jobs x) j = Some jb -> nth_error (j_ops jb) k = Some o -> crec x (j, k) o.
Proof. intros A B. apply vop_of with (jb := jb); auto. Qed.

Theorem machine_preserves_SEQ x tr x' m ms g :
  NO x -> J i x -> SEQ x g -> (t0 <= s_now x)%Z -> due_w x tr -> due_fact x tr -> is_transition_valid x tr = Ok true ->
  tr_comp tr = CM m -> nth_error (s_machs x) m = Some ms -> apply_transition sigma i x tr = Ok x' -> exists g', SEQ x' g'.
Proof.
  intros N [W [[F _] _]] Sq Ht0 Hdue Hdf Hval Hc Hms H.
  assert (Hmo : forall m', m' <> m -> mrec x' m' = mrec x m') by (intros m' Hn; eapply machine_tr_mrec_other; eauto).
  assert (Hto : forall m', m' <> m -> mtl x' m' = mtl x m').
  { intros m' Hn. destruct (apply_mtl sigma i _ _ _ m' H) as [E|[E _]]; auto. rewrite Hc in E. congruence. }
  assert (Hta : tr_new tr <> NM MSetup -> forall m', mtl x' m' = mtl x m').
  { intros Hn m'. destruct (apply_mtl sigma i _ _ _ m' H) as [E|[_ E]]; [auto|congruence]. }
  destruct (apply_machine sigma i _ _ _ _ _ Hc Hms H) as [[Hst [Hnw C]]|[[Hst [Hnw C]]|[[Hst [Hnw C]]|[Hst [Hnw C]]]]].
  - (* IDLE -> SETUP *)
    destruct (post_idle_setup sigma i _ _ _ _ _ Hms C) as [j [jb [k [oc [mc [sc [sd [Hj [Hjb [Hk [Hoc [Hmc [Hsc [Hsd [[ms' [M1 [M2 [M3 [M4 [M5 _]]]]]] [[jb' [J1 [J2 J3]]] Hnow]]]]]]]]]]]]]]]].
    destruct (first_not_done_spec _ _ Hk) as [o [Ho [So Hbefore]]].
    assert (Hm : o_mach o = m).
    { unfold is_transition_valid in Hval. rewrite Hc, Hms in Hval. unfold is_machine_transition_valid in Hval.
      rewrite Hst, Hnw in Hval. simpl in Hval. rewrite Hj in Hval. unfold get_job in Hval. rewrite Hjb in Hval. simpl in Hval.
      rewrite Hk in Hval. simpl in Hval. rewrite Ho in Hval. simpl in Hval. inversion Hval. apply Nat.eqb_eq. auto. }
    assert (Hv : mview x m = Some (MIdle, b_store (m_in ms))) by (unfold mview; rewrite Hms; simpl; rewrite Hst; reflexivity).
    assert (P : Pat (j_ops jb)) by (eapply (fe_pat _ _ F j); simpl; apply jops_of; auto).
    assert (Sidle : o_st o = OIdle).
    { destruct (o_st o) eqn:Es; auto; try congruence.
      - exfalso. destruct (fe_proc _ _ F _ _ _ (vop_of _ _ _ _ _ Hjb Ho) Es) as [[st0 [A A']] _]. simpl in A. rewrite Hm, Hv in A. inversion A. congruence.
      - exfalso. destruct P as [Q0 _]. eapply Q0; eauto. }
    exists (gpush g m (j, k)).
    apply (SEQ_upd_setup x x' g j k (j_ops jb) o m oc mc sc sd ms Sq F); auto.
    + apply jops_of; auto.
    + intros j' Hn. destruct (machine_tr_jops_other sigma i _ _ _ _ _ j' H Hc Hms) as [G|[[_ G]|[G _]]]; auto; [congruence|rewrite Hnw in G; discriminate].
    + rewrite (jops_of _ _ _ J1), J3. reflexivity.
    + rewrite (mtl_of _ _ _ M1), M4. reflexivity.
    + exists (b_store (m_in ms')). rewrite (mrec_of _ _ _ M1), M2, M3. reflexivity.
  - (* SETUP -> WORKING *)
    destruct (post_setup_working sigma i _ _ _ _ _ Hms C) as [j [jb [k [oc [d0 [Hj [Hjb [Hk [Hoc [Hd0 [M1 [J1 [Hnow Hmem]]]]]]]]]]]]].
    destruct (busy_machine_job i x m ms F Hms ltac:(congruence)) as [j1 [jb1 [k1 [o1 [B1 [B2 [B3 [B4 [B5 [P [Q1 Q2]]]]]]]]]]].
    apply mem_nat_In in Hmem. rewrite B1 in Hmem. destruct Hmem as [Ej|[]]. subst j1.
    rewrite Hjb in B2. inversion B2; subst jb1. pose proof (Q1 _ Hk) as Ek. subst k1.
    destruct (busy_facts i x m ms j jb k o1 W F Hms ltac:(congruence) B1 Hjb B3 B4 P) as [X1 [X2 X3]].
    destruct (Hdue m Hc Hnw) as [st [z [l [Hr Hz]]]]. rewrite (mrec_of _ _ _ Hms) in Hr. inversion Hr as [[R1 R2 R3]].
    set (o' := mkOp m (Time (s_now x)) (Time (s_now x + d0)%Z) OProc) in *.
    assert (Hjj : jops x' j = Some (upd (j_ops jb) k o')) by (rewrite (jops_of _ _ _ J1); reflexivity).
    exists g.
    apply (SEQ_upd_same x x' g j k (j_ops jb) o1 o' m Sq (jops_of _ _ _ Hjb) B3); auto.
    + intros j' Hn. destruct (machine_tr_jops_other sigma i _ _ _ _ _ j' H Hc Hms) as [G|[[_ G]|[G _]]]; auto; [congruence|rewrite Hnw in G; discriminate].
    + apply Hta. rewrite Hnw. discriminate.
    + simpl. discriminate.
    + intros [j0 k0] o0 [ops0 [V1 V2]] S0 Em. simpl in V1, V2. destruct (X3 _ _ _ _ V1 V2 S0 Em). congruence.
    + intros e He. destruct (fe_past _ _ F _ _ _ (vop_of _ _ _ _ _ Hjb B3)) as [_ P2]. simpl in P2. exact (tle_trans _ _ _ He (P2 B4)).
    + intros a e G o2 oc2 mc2 sd2 Ho2 Hoc2 Hmc2 Hs2.
      assert (E2 : o2 = o').
      { destruct Ho2 as [ops2 [V1 V2]]. simpl in V1, V2. rewrite Hjj in V1. inversion V1; subst ops2.
        rewrite nth_upd_same in V2 by (eapply nth_error_lt; eauto). congruence. }
      subst o2. destruct (G o1 oc2 mc2 sd2 (crec_of _ _ _ _ _ Hjb B3) Hoc2 Hmc2 Hs2) as [_ G2].
      destruct (G2 B4 _ _ _ (mrec_of _ _ _ Hms)) as [G3 _]. destruct (G3 Hst) as [z' [Ez' Lz']].
      rewrite Ez' in R2. inversion R2; subst z'.
      split; [simpl; discriminate|]. intros _ st0 occ0 l0 Hr0. rewrite (mrec_of _ _ _ M1) in Hr0. simpl in Hr0. inversion Hr0; subst.
      split; [discriminate|]. intros _. exists (s_now x). split; [reflexivity|lia].
  - (* WORKING -> OUTAGE *)
    destruct (post_working_outage sigma i _ _ _ _ _ Hms C) as [mc [outs [sto' [occ_for [j [jb [k [o [Hmc [Hos [Hocc [Hj [Hjb [Hk [Ho [M1 [J1 Hnow]]]]]]]]]]]]]]]]].
    destruct (busy_machine_job i x m ms F Hms ltac:(congruence)) as [j1 [jb1 [k1 [o1 [B1 [B2 [B3 [B4 [B5 [P [Q1 Q2]]]]]]]]]]].
    destruct (Hdf m Hc (or_introl Hnw)) as [st [z [l [Hr [Hz Hjob]]]]]. destruct (Hjob Hnw) as [j' [Hj' Hloc]].
    rewrite Hj in Hj'. inversion Hj'; subst j'.
    assert (Ej : j = j1).
    { destruct (ws_loc _ _ W _ _ Hjb) as [b [Hb Hinb]]. rewrite (jloc_of _ _ _ Hjb) in Hloc. inversion Hloc as [Hl]. rewrite Hl in Hb.
      simpl in Hb. rewrite Hms in Hb. simpl in Hb. inversion Hb; subst b. rewrite B1 in Hinb. destruct Hinb as [E|[]]; auto. }
    subst j1. rewrite Hjb in B2. inversion B2; subst jb1. pose proof (Q2 _ Hk) as Ek. subst k1. rewrite Ho in B3. inversion B3; subst o1.
    destruct (busy_facts i x m ms j jb k o W F Hms ltac:(congruence) B1 Hjb Ho B4 P) as [X1 [X2 X3]].
    set (o' := set_op_end o (Time (s_now x + occ_for)%Z)) in *.
    assert (Hjj : jops x' j = Some (upd (j_ops jb) k o')) by (rewrite (jops_of _ _ _ J1); reflexivity).
    exists g.
    apply (SEQ_upd_same x x' g j k (j_ops jb) o o' m Sq (jops_of _ _ _ Hjb) Ho); auto.
    + intros j' Hn. destruct (machine_tr_jops_other sigma i _ _ _ _ _ j' H Hc Hms) as [G|[[_ G]|[G _]]]; auto; [congruence|rewrite Hnw in G; discriminate].
    + apply Hta. rewrite Hnw. discriminate.
    + simpl. rewrite B4. discriminate.
    + intros [j0 k0] o0 [ops0 [V1 V2]] S0 Em. simpl in V1, V2. destruct (X3 _ _ _ _ V1 V2 S0 Em). congruence.
    + intros a e G o2 oc2 mc2 sd2 Ho2 Hoc2 Hmc2 Hs2.
      assert (E2 : o2 = o').
      { destruct Ho2 as [ops2 [V1 V2]]. simpl in V1, V2. rewrite Hjj in V1. inversion V1; subst ops2.
        rewrite nth_upd_same in V2 by (eapply nth_error_lt; eauto). congruence. }
      subst o2. destruct (G o oc2 mc2 sd2 (crec_of _ _ _ _ _ Hjb Ho) Hoc2 Hmc2 Hs2) as [_ G2].
      destruct (G2 B4 _ _ _ (mrec_of _ _ _ Hms)) as [_ G3]. destruct (G3 ltac:(congruence)) as [s [Es Ls]].
      split; [simpl; rewrite B4; discriminate|]. intros _ st0 occ0 l0 Hr0. rewrite (mrec_of _ _ _ M1) in Hr0. simpl in Hr0. inversion Hr0; subst.
      split; [discriminate|]. intros _. exists s. split; auto.
  - (* OUTAGE -> IDLE *)
    destruct (post_outage_idle i _ _ _ _ _ Hms C) as [j [jb [k [o [Hhd [Hjb [Hk [Ho [[ms' [M1 [M2 [_ [_ [M3 [_ [M4 _]]]]]]]] [[jb' [J1 [J2 J3]]] Hnow]]]]]]]]]].
    destruct (busy_machine_job i x m ms F Hms ltac:(congruence)) as [j1 [jb1 [k1 [o1 [B1 [B2 [B3 [B4 [B5 [P [Q1 Q2]]]]]]]]]]].
    rewrite B1 in Hhd. simpl in Hhd. inversion Hhd; subst j1.
    rewrite Hjb in B2. inversion B2; subst jb1. pose proof (Q2 _ Hk) as Ek. subst k1. rewrite Ho in B3. inversion B3; subst o1.
    destruct (busy_facts i x m ms j jb k o W F Hms ltac:(congruence) B1 Hjb Ho B4 P) as [X1 [X2 X3]].
    set (o' := mkOp (o_mach o) (o_start o) (Time (s_now x)) ODone) in *.
    assert (Hjj : jops x' j = Some (upd (j_ops jb) k o')) by (rewrite (jops_of _ _ _ J1), J3; reflexivity).
    exists g.
    apply (SEQ_upd_same x x' g j k (j_ops jb) o o' m Sq (jops_of _ _ _ Hjb) Ho); auto.
    + intros j' Hn. destruct (machine_tr_jops_other sigma i _ _ _ _ _ j' H Hc Hms) as [G|[[G _]|[_ G]]]; auto; [congruence|].
      rewrite B1 in G. simpl in G. congruence.
    + apply Hta. rewrite Hnw. discriminate.
    + simpl. discriminate.
    + intros [j0 k0] o0 [ops0 [V1 V2]] S0 Em. simpl in V1, V2. destruct (X3 _ _ _ _ V1 V2 S0 Em). congruence.
    + intros a e G o2 oc2 mc2 sd2 Ho2 Hoc2 Hmc2 Hs2.
      assert (E2 : o2 = o').
      { destruct Ho2 as [ops2 [V1 V2]]. simpl in V1, V2. rewrite Hjj in V1. inversion V1; subst ops2.
        rewrite nth_upd_same in V2 by (eapply nth_error_lt; eauto). congruence. }
      subst o2. destruct (G o oc2 mc2 sd2 (crec_of _ _ _ _ _ Hjb Ho) Hoc2 Hmc2 Hs2) as [_ G2].
      destruct (G2 B4 _ _ _ (mrec_of _ _ _ Hms)) as [_ G3]. destruct (G3 ltac:(congruence)) as [s [Es Ls]].
      split; [|simpl; discriminate]. intros _. exists s. split; auto.
Qed.

Theorem apply_preserves_SEQ x tr x' g :
  NO x -> J i x -> SEQ x g -> (t0 <= s_now x)%Z -> due_w x tr -> due_fact x tr -> is_transition_valid x tr = Ok true ->
  apply_transition sigma i x tr = Ok x' -> exists g', SEQ x' g'.
Proof.
  intros N Hj Sq Ht0 Hdue Hdf Hv H. destruct (tr_comp tr) as [m|t|n] eqn:Hc.
  - destruct (nth_error (s_machs x) m) as [ms|] eqn:Hms; [|unfold apply_transition in H; rewrite Hc, Hms in H; discriminate].
    eapply machine_preserves_SEQ; eauto.
  - exists g. destruct (transport_tr_frame sigma i _ _ _ _ H Hc) as [A1 A2]. apply (SEQ_frame x x' g); auto.
    + intros m st oc l1 Hr. destruct (A2 _ _ _ _ Hr) as [l0 [G _]]. eauto.
    + intros m. destruct (apply_mtl sigma i _ _ _ m H) as [E|[E _]]; auto. rewrite Hc in E. discriminate.
  - unfold apply_transition in H. rewrite Hc in H. destruct (nth_error (s_bufs x) n); discriminate.
Qed.

(* ---------- the batch invariant: SETUP -> WORKING stays due until it is applied ---------- *)
Definition Q6 (R : list transition) (x : state) : Prop := Q3 R x /\ forall tr, In tr R -> due_w x tr.
Definition J6 (x : state) : Prop := J3 i x /\ (t0 <= s_now x)%Z /\ exists g, SEQ x g.

Lemma due_w_step x tr0 R x' tr1 :
  WFS i x -> WFS i x' -> Q (tr0 :: R) x -> apply_transition sigma i x tr0 = Ok x' -> In tr1 R -> due_w x tr1 -> due_w x' tr1.
Proof.
  intros W W' [ND [HP _]] H Hin Hd m Hc1 Hk. destruct (Hd m Hc1 Hk) as [st [z [l [Hr Hz]]]].
  assert (Hcore1 : In tr1 (core R)) by (apply in_core; auto; unfold is_tworking; rewrite Hk; reflexivity).
  assert (Hn0 : tr_comp tr0 <> CM m).
  { intros Hc0. destruct (is_tworking tr0) eqn:Ew.
    - unfold is_tworking in Ew. destruct (tr_new tr0) as [s0|s0] eqn:En0; [discriminate|].
      destruct (nth_error (s_machs x) m) as [ms|] eqn:Hms; [|unfold apply_transition in H; rewrite Hc0, Hms in H; discriminate].
      destruct (apply_machine sigma i _ _ _ _ _ Hc0 Hms H) as [[_ [E _]]|[[_ [E _]]|[[_ [E _]]|[_ [E _]]]]]; rewrite En0 in E; discriminate.
    - rewrite core_cons, Ew in ND. simpl in ND. inversion ND as [|? ? Hnin _]. apply Hnin. rewrite Hc0, <- Hc1. apply in_map. exact Hcore1. }
  assert (Hrec : exists l', mrec x' m = Some (st, Time z, l')).
  { destruct (tr_comp tr0) as [m0|t0'|n0] eqn:Hc0.
    - exists l. rewrite (machine_tr_mrec_other sigma i _ _ _ m0 m H Hc0) by congruence. exact Hr.
    - destruct (transport_tr_frame sigma i _ _ _ _ H Hc0) as [_ A2].
      assert (Hlt : m < length (s_machs x')).
      { rewrite (ws_lm _ _ W'), <- (ws_lm _ _ W). unfold mrec in Hr. destruct (nth_error (s_machs x) m) eqn:E; [|discriminate]. eapply nth_error_lt; eauto. }
      destruct (nth_error (s_machs x') m) as [ms'|] eqn:E'; [|apply nth_error_None in E'; lia].
      destruct (A2 _ _ _ _ (mrec_of _ _ _ E')) as [l0 [G _]]. rewrite Hr in G. inversion G. exists (b_store (m_in ms')). rewrite (mrec_of _ _ _ E'). congruence.
    - unfold apply_transition in H. rewrite Hc0 in H. destruct (nth_error (s_bufs x) n0); discriminate. }
  destruct Hrec as [l' Hr']. exists st, z, l'. split; auto. rewrite (apply_now sigma i _ _ _ H). exact Hz.
Qed.

Theorem J6_apply x tr R x' :
  NO x -> J6 x -> Q6 (tr :: R) x -> is_transition_valid x tr = Ok true -> apply_transition sigma i x tr = Ok x' ->
  J6 x' /\ Q6 R x' /\ side2 tr x' = true.
Proof.
  intros N [Hj3 [Ht0 [g Sq]]] [HQ3 Hdue] Hv Ha.
  destruct (J3_apply sigma i Hnn _ _ _ _ N Hj3 HQ3 Hv Ha) as [Hj3' [HQ3' Sd]].
  destruct Hj3 as [Hj [B D]]. destruct HQ3 as [HQ Hdf].
  destruct (apply_preserves_SEQ _ _ _ _ N Hj Sq Ht0 (Hdue tr (or_introl eq_refl)) (Hdf tr (or_introl eq_refl)) Hv Ha) as [g' Sq'].
  split; [split; [auto|split; [rewrite (apply_now sigma i _ _ _ Ha); auto|eauto]]|]. split; [|exact Sd]. split; [exact HQ3'|].
  intros tr1 Hin. destruct Hj as [W _]. destruct Hj3' as [[W' _] _]. apply (due_w_step x tr R x' tr1 W W' HQ Ha Hin). apply Hdue. right; auto.
Qed.

Lemma J6_now x t : J6 x -> (s_now x <= t)%Z -> J6 (set_now x t).
Proof.
  intros [Hj [Ht0 [g Sq]]] H. split; [apply J3_now; auto|]. split; [simpl; lia|]. exists g. apply SEQ_set_now; auto.
Qed.

(* ---------- creation ---------- *)
Lemma OK3_due_w x tr : OK3 x tr -> due_w x tr.
Proof. intros [[m [j ->]]|[t [j ->]]] m0 Hc Hk; simpl in *; discriminate. Qed.

Lemma due_w_timed x timed : J i x -> create_timed_transitions i x = Ok timed -> forall tr, In tr timed -> due_w x tr.
Proof.
  intros HJ H tr Hin. pose proof HJ as [W [_ Dn]]. unfold create_timed_transitions in H.
  destruct (create_timed_machine_transitions i x) as [a|] eqn:Ea; simpl in H; [|discriminate].
  destruct (create_timed_transport_transitions i x) as [b|] eqn:Eb; simpl in H; [|discriminate].
  inversion H; subst; clear H. apply in_app_iff in Hin. destruct Hin as [Hin|Hin].
  - destruct (timed_machines_in i _ _ _ _ _ Ea Hin) as [k [ms [Hms Htm]]]. simpl in Htm.
    intros m Hc Hk. destruct (timed_machine_spec i _ _ _ _ Htm) as [[z [j [Ho [Hz [Hhd [Hc' [Hj _]]]]]]]|[c [j [_ [_ [_ ->]]]]]].
    + rewrite Hc in Hc'. inversion Hc'; subst k. exists (m_st ms), z, (b_store (m_in ms)).
      split; [rewrite (mrec_of _ _ _ Hms), Ho; reflexivity|auto].
    + simpl in Hk. discriminate.
  - destruct (timed_transport_comp i x _ _ HJ Eb Hin) as [k Hc']. intros m Hc. rewrite Hc in Hc'. discriminate.
Qed.

Lemma Q6_timed x timed poss tele : NO x -> J6 x -> BI x -> create_timed_transitions i x = Ok timed ->
  get_possible_transitions i x = Ok poss -> filter_teleport i x poss = Ok tele -> Q6 (timed ++ tele) x.
Proof.
  intros N [Hj3 _] Hb H Hp Hf. split; [eapply Q3_timed; eauto|]. destruct Hj3 as [Hj _].
  intros tr Hin. apply in_app_iff in Hin. destruct Hin as [Hin|Hin]; [eapply due_w_timed; eauto|].
  apply (OK3_due_w x). pose proof (tele_sub i _ _ _ Hf _ Hin) as Hin'.
  destruct (offers_shape i _ _ _ Hp Hin'); [left|right]; auto.
Qed.

Lemma Q6_timed0 x timed : NO x -> J6 x -> BI x -> create_timed_transitions i x = Ok timed -> Q6 timed x.
Proof.
  intros N [Hj3 _] Hb H. split; [eapply Q3_timed0; eauto|]. destruct Hj3 as [Hj _]. eapply due_w_timed; eauto.
Qed.

Lemma E6_end x : J6 x -> Q6 [] x -> BI x.
Proof. intros [Hj3 _] [HQ _]. apply (E3_end i x); auto. Qed.

Lemma Q6_offer x o : J6 x -> BI x -> create_timed_transitions i x = Ok [] -> OK3 x o -> Q6 [o] x.
Proof.
  intros [Hj3 _] Hb Hct Ho. split; [apply (Q3_offer i); auto|]. intros tr [<-|[]]. apply OK3_due_w; auto.
Qed.

(* ---------- a fresh state: nothing started, every machine has its initial tool ---------- *)
Lemma fresh_SEQ x : fresh_b i x = true ->
  (forall m ms, nth_error (s_machs x) m = Some ms -> m_tool ms = tool0 m) -> SEQ x (fun _ => []).
Proof.
  intros Fr Ht. unfold fresh_b in Fr. apply andb_true_iff in Fr. destruct Fr as [Fr _]. apply andb_true_iff in Fr. destruct Fr as [F1 _].
  assert (Idle : forall c o, crec x c o -> o_st o = OIdle).
  { intros [j k] o [ops [H1 H2]]. simpl in H1, H2. destruct (jops_inv _ _ _ H1) as [jb [Hjb <-]].
    pose proof (forallb_nth _ _ _ _ F1 Hjb) as Q0. simpl in Q0. pose proof (forallb_nth _ _ _ _ Q0 H2) as Q1.
    unfold is_ostate in Q1. destruct (o_st o); simpl in Q1; try discriminate. reflexivity. }
  constructor.
  - intros c o Ho Hs. exfalso. apply Hs. eapply Idle; eauto.
  - intros m c [].
  - intros m. constructor.
  - intros m ms Hms. apply Ht; auto.
  - intros m n c2 c1 H2. destruct n; discriminate.
  - intros m n c Hn. destruct n; discriminate.
Qed.

(* ---------- every run ---------- *)
Theorem run_setup_sequence fuel x0 joker0 ta r m :
  clock_b x0 = true -> wfs_b i x0 = true -> fresh2_b i x0 = true -> nodep_b x0 = true ->
  (forall m ms, nth_error (s_machs x0) m = Some ms -> m_tool ms = tool0 m) -> t0 = s_now x0 ->
  reach sigma i fuel x0 joker0 ta r m -> exists g, SEQ (r_x r) g.
Proof.
  intros C W Fr Dn Ht Et H. apply NO_iff_clock_b in C.
  assert (Fr1 : fresh_b i x0 = true) by (unfold fresh2_b in Fr; apply andb_true_iff in Fr; destruct Fr as [Fr _]; apply andb_true_iff in Fr; tauto).
  assert (J0 : J6 x0).
  { split; [split; [apply J_init; auto|apply (fresh_BO_DUR i); auto]|]. split; [lia|]. exists (fun _ => []). apply fresh_SEQ; auto. }
  destruct (reach_reachG sigma i Hnn J6 Q6 side2 OK3 BI J6_apply J6_now E6_end BI_now Q6_timed Q6_timed0 Q6_offer (offers_ok3 i) _ _ _ _ _ _ C J0 (BI_init _ Dn) H)
    as [_ [_ [xq [Nq [[_ [_ [g Sq]]] [E|[_ [z E]]]]]]]]; rewrite E; exists g; auto. apply SEQ_set_now; auto.
Qed.

Theorem run_micro_setup_sequence fuel x0 joker0 ta r m a r' m' lg :
  clock_b x0 = true -> wfs_b i x0 = true -> fresh2_b i x0 = true -> nodep_b x0 = true ->
  (forall m ms, nth_error (s_machs x0) m = Some ms -> m_tool ms = tool0 m) -> t0 = s_now x0 ->
  reach sigma i fuel x0 joker0 ta r m -> mw_step sigma i fuel r m a = MOk r' m' lg ->
  forall tr y, In (tr, y) lg -> exists g, SEQ y g.
Proof.
  intros C W Fr Dn Ht Et H Hm tr y Hin. apply NO_iff_clock_b in C.
  assert (Fr1 : fresh_b i x0 = true) by (unfold fresh2_b in Fr; apply andb_true_iff in Fr; destruct Fr as [Fr _]; apply andb_true_iff in Fr; tauto).
  assert (J0 : J6 x0).
  { split; [split; [apply J_init; auto|apply (fresh_BO_DUR i); auto]|]. split; [lia|]. exists (fun _ => []). apply fresh_SEQ; auto. }
  destruct (reach_micro_J sigma i Hnn J6 Q6 side2 OK3 BI J6_apply J6_now E6_end BI_now Q6_timed Q6_timed0 Q6_offer (offers_ok3 i) _ _ _ _ _ _ _ _ _ _ C J0 (BI_init _ Dn) H Hm _ _ Hin)
    as [[_ [_ Sy]] _]. exact Sy.
Qed.

(* ---------- the statement on the records alone (clause setup_gap_b) ---------- *)
Lemma in_indexed_of {A} (l : list A) : forall n k a, nth_error l k = Some a -> In (n + k, a) (indexed n l).
Proof.
  induction l as [|h r IH]; intros n k a H; destruct k; simpl in H; try discriminate.
  - inversion H; subst. rewrite Nat.add_0_r. left. reflexivity.
  - right. replace (n + S k) with (S n + k) by lia. apply IH. auto.
Qed.

Lemma in_all_recs x c o : In (c, o) (all_recs x) <-> crec x c o.
Proof.
  unfold all_recs. rewrite in_flat_map. split.
  - intros [[j jb] [Hj Hin]]. simpl in Hin. apply in_map_iff in Hin. destruct Hin as [[k o0] [E Hk]]. simpl in E. inversion E; subst.
    apply in_indexed_nth in Hj. apply in_indexed_nth in Hk. rewrite Nat.sub_0_r in Hj, Hk. destruct Hj as [_ Hj]. destruct Hk as [_ Hk].
    eapply crec_of; eauto.
  - destruct c as [j k]. intros [ops [H1 H2]]. simpl in H1, H2. destruct (jops_inv _ _ _ H1) as [jb [Hjb <-]].
    exists (j, jb). split; [apply (in_indexed_of _ 0 j jb Hjb)|]. simpl. apply in_map_iff. exists (k, o). split; auto.
    apply (in_indexed_of _ 0 k o H2).
Qed.

Lemma started_time x c o : FE i x -> crec x c o -> o_st o <> OIdle -> exists s e, o_start o = Time s /\ o_end o = Time e /\ (s <= e)%Z.
Proof. intros F H Hs. destruct (tle_is_time _ _ (fe_times _ _ F _ _ _ H Hs)) as [s [e [A [B C]]]]. eauto. Qed.

(* along a machine's sequence (newest first) start times do not increase *)
Lemma SEQ_mono x g m : FE i x -> SEQ x g ->
  forall d n ca cb oa ob, nth_error (g m) n = Some ca -> nth_error (g m) (n + d) = Some cb -> crec x ca oa -> crec x cb ob ->
    tle (o_start ob) (o_start oa).
Proof.
  intros F Sq. induction d as [|d IH]; intros n ca cb oa ob Ha Hb Hoa Hob.
  - rewrite Nat.add_0_r in Hb. rewrite Ha in Hb. inversion Hb; subst cb. rewrite (crec_fun _ _ _ _ Hob Hoa).
    destruct (sq_mem _ _ Sq _ _ (nth_error_In _ _ Ha)) as [o3 [A [B _]]]. rewrite (crec_fun _ _ _ _ A Hoa) in B.
    destruct (started_time _ _ _ F Hoa B) as [s [e [E1 _]]]. rewrite E1. apply tle_Time. lia.
  - replace (n + Datatypes.S d) with (Datatypes.S (n + d)) in Hb by lia.
    destruct (nth_error (g m) (n + d)) as [cm|] eqn:Em.
    2:{ apply nth_error_None in Em. assert (nth_error (g m) (Datatypes.S (n + d)) = None) by (apply nth_error_None; lia). congruence. }
    destruct (sq_mem _ _ Sq _ _ (nth_error_In _ _ Em)) as [om [Hom _]].
    destruct (sq_adj _ _ Sq m (n + d) cm cb Em Hb) as [o1 [e [A1 [A2 [A3 [A4 _]]]]]].
    rewrite (crec_fun _ _ _ _ A1 Hob) in A2, A3.
    destruct (started_time _ _ _ F Hob ltac:(congruence)) as [s [e' [E1 [E2 L]]]]. rewrite E2 in A3. inversion A3; subst e'.
    apply tle_trans with (b := Time e); [rewrite E1; apply tle_Time; auto|].
    apply tle_trans with (b := o_start om); [apply A4; auto|]. apply (IH n ca cm oa om); auto.
Qed.

Lemma SEQ_pairs x g c1 c2 o1 o2 m s1 s2 a sd mc oc2 :
  FE i x -> SEQ x g -> crec x c1 o1 -> crec x c2 o2 -> o_st o1 = ODone -> o_st o2 = ODone -> o_mach o1 = m -> o_mach o2 = m ->
  c1 <> c2 -> o_start o1 = Time s1 -> o_start o2 = Time s2 -> (s1 < s2)%Z ->
  (forall q oq sq, crec x q oq -> o_st oq <> OIdle -> o_mach oq = m -> q <> c1 -> q <> c2 -> o_start oq = Time sq ->
     ~ (s1 <= sq /\ sq <= s2)%Z) ->
  ctool c1 a -> get_opcfg i (fst c2) (snd c2) = Ok oc2 -> nth_error (i_machs i) m = Some mc ->
  setup_lookup (mc_setup mc) a (oc_tool oc2) = Some (Det sd) ->
  exists e1, o_end o1 = Time e1 /\ (e1 + sd <= s2)%Z.
Proof.
  intros F Sq H1 H2 D1 D2 M1 M2 Hne S1 S2 Hlt Hno Ha Hoc Hmc Hs.
  assert (I1 : In c1 (g m)) by (rewrite <- M1; apply (sq_in _ _ Sq c1 o1 H1); congruence).
  assert (I2 : In c2 (g m)) by (rewrite <- M2; apply (sq_in _ _ Sq c2 o2 H2); congruence).
  destruct (In_nth_error _ _ I1) as [n1 N1]. destruct (In_nth_error _ _ I2) as [n2 N2].
  destruct (Nat.lt_trichotomy n1 n2) as [L|[E|L]].
  - exfalso. pose proof (SEQ_mono x g m F Sq (n2 - n1) n1 c1 c2 o1 o2 N1 ltac:(replace (n1 + (n2 - n1)) with n2 by lia; auto) H1 H2) as T.
    rewrite S1, S2 in T. apply tle_Time in T. lia.
  - exfalso. subst n2. congruence.
  - destruct (Nat.eq_dec n1 (Datatypes.S n2)) as [->|Hd].
    + destruct (sq_adj _ _ Sq m n2 c2 c1 N2 N1) as [o1' [e [A1 [A2 [A3 [A4 A5]]]]]].
      rewrite (crec_fun _ _ _ _ A1 H1) in A3. exists e. split; auto.
      destruct (A5 a Ha o2 oc2 mc sd H2 Hoc Hmc Hs) as [G1 _]. destruct (G1 D2) as [s [Es Ls]]. rewrite S2 in Es. inversion Es; subst s. exact Ls.
    + exfalso. destruct (nth_error (g m) (Datatypes.S n2)) as [q|] eqn:Eq.
      2:{ apply nth_error_None in Eq. assert (nth_error (g m) n1 = None) by (apply nth_error_None; lia). congruence. }
      destruct (sq_mem _ _ Sq _ _ (nth_error_In _ _ Eq)) as [oq [Hq [Sq1 Mq]]].
      destruct (started_time _ _ _ F Hq Sq1) as [sq [eq [Esq _]]].
      pose proof (proj1 (NoDup_nth_error (g m)) (sq_nodup _ _ Sq m)) as ND.
      assert (Hl1 : n1 < length (g m)) by (eapply nth_error_lt; eauto).
      assert (Hl2 : n2 < length (g m)) by (eapply nth_error_lt; eauto).
      assert (Q1 : q <> c1).
      { intros ->. assert (n1 = Datatypes.S n2) by (apply ND; [auto|congruence]). lia. }
      assert (Q2 : q <> c2).
      { intros ->. assert (n2 = Datatypes.S n2) by (apply ND; [auto|congruence]). lia. }
      apply (Hno q oq sq Hq Sq1 Mq Q1 Q2 Esq). split.
      * pose proof (SEQ_mono x g m F Sq (n1 - Datatypes.S n2) (Datatypes.S n2) q c1 oq o1 Eq
                      ltac:(replace (Datatypes.S n2 + (n1 - Datatypes.S n2)) with n1 by lia; auto) Hq H1) as T.
        rewrite S1, Esq in T. apply tle_Time in T. exact T.
      * pose proof (SEQ_mono x g m F Sq 1 n2 c2 q o2 oq N2 ltac:(replace (n2 + 1) with (Datatypes.S n2) by lia; auto) H2 Hq) as T.
        rewrite S2, Esq in T. apply tle_Time in T. exact T.
Qed.

Lemma cref_eqb_eq a b : cref_eqb a b = true <-> a = b.
Proof.
  destruct a as [a1 a2], b as [b1 b2]. unfold cref_eqb. simpl. rewrite andb_true_iff, !Nat.eqb_eq. split; [intros [-> ->]; reflexivity|intros E; inversion E; auto].
Qed.

Lemma is_ostate_eq s o : is_ostate s o = true <-> o_st o = s.
Proof. unfold is_ostate. destruct (o_st o), s; simpl; split; intros H; try discriminate; auto. Qed.

Theorem SEQ_setup_gap_b x g : FE i x -> SEQ x g -> setup_gap_b i x = true.
Proof.
  intros F Sq. unfold setup_gap_b. apply forallb_forall. intros [c2 o2] In2. apply forallb_forall. intros [c1 o1] In1.
  apply in_all_recs in In1. apply in_all_recs in In2. unfold setup_pair_b. simpl fst. simpl snd.
  destruct (is_ostate ODone o1 && is_ostate ODone o2 && Nat.eqb (o_mach o1) (o_mach o2) && negb (cref_eqb c1 c2)) eqn:Ec; [|reflexivity].
  apply andb_true_iff in Ec. destruct Ec as [Ec Hne]. apply andb_true_iff in Ec. destruct Ec as [Ec Hm]. apply andb_true_iff in Ec. destruct Ec as [D1 D2].
  apply is_ostate_eq in D1. apply is_ostate_eq in D2. apply Nat.eqb_eq in Hm.
  assert (Hne' : c1 <> c2) by (intros E; apply cref_eqb_eq in E; rewrite E in Hne; discriminate).
  destruct (started_time _ _ _ F In1 ltac:(congruence)) as [s1 [e1 [S1 [E1 _]]]].
  destruct (started_time _ _ _ F In2 ltac:(congruence)) as [s2 [e2 [S2 _]]].
  rewrite S1, E1, S2.
  match goal with |- (if ?c then _ else _) = true => destruct c eqn:Ei; [|reflexivity] end.
  apply andb_true_iff in Ei. destruct Ei as [Hlt Hex]. apply Z.ltb_lt in Hlt. apply negb_true_iff in Hex.
  destruct (get_opcfg i (fst c1) (snd c1)) as [oc1|] eqn:Eoc1; [|reflexivity].
  unfold setup_entry. destruct (nth_error (i_machs i) (o_mach o2)) as [mc|] eqn:Emc; [|reflexivity].
  destruct (get_opcfg i (fst c2) (snd c2)) as [oc2|] eqn:Eoc2; [|reflexivity].
  destruct (setup_lookup (mc_setup mc) (oc_tool oc1) (oc_tool oc2)) as [[sd|]|] eqn:Es; try reflexivity.
  apply Z.leb_le.
  destruct (SEQ_pairs x g c1 c2 o1 o2 (o_mach o2) s1 s2 (oc_tool oc1) sd mc oc2 F Sq In1 In2 D1 D2 Hm eq_refl Hne' S1 S2 Hlt) as [e [Ee Le]]; auto.
  - intros q oq sq Hq Sq1 Mq Q1 Q2 Esq [B1 B2].
    assert (Hf : existsb (fun q0 => started_on (o_mach o2) q0 && negb (cref_eqb (fst q0) c1) && negb (cref_eqb (fst q0) c2)
                                      && between_b s1 s2 q0) (all_recs x) = true).
    { apply existsb_exists. exists (q, oq). split; [apply in_all_recs; auto|]. simpl.
      assert (T1 : started_on (o_mach o2) (q, oq) = true).
      { unfold started_on. simpl. apply andb_true_iff. split; [|apply Nat.eqb_eq; auto].
        apply negb_true_iff. destruct (is_ostate OIdle oq) eqn:Ei; auto. apply is_ostate_eq in Ei. congruence. }
      assert (T2 : negb (cref_eqb q c1) = true) by (apply negb_true_iff; destruct (cref_eqb q c1) eqn:Eq; auto; apply cref_eqb_eq in Eq; congruence).
      assert (T3 : negb (cref_eqb q c2) = true) by (apply negb_true_iff; destruct (cref_eqb q c2) eqn:Eq; auto; apply cref_eqb_eq in Eq; congruence).
      assert (T4 : between_b s1 s2 (q, oq) = true).
      { unfold between_b. simpl. rewrite Esq. apply andb_true_iff. split; apply Z.leb_le; auto. }
      rewrite T1, T2, T3, T4. reflexivity. }
    simpl in Hex. rewrite Hf in Hex. discriminate.
  - exists oc1. auto.
  - rewrite E1 in Ee. inversion Ee; subst e. exact Le.
Qed.

Theorem run_setup_gap fuel x0 joker0 ta r m :
  clock_b x0 = true -> wfs_b i x0 = true -> fresh2_b i x0 = true -> nodep_b x0 = true ->
  (forall m ms, nth_error (s_machs x0) m = Some ms -> m_tool ms = tool0 m) -> t0 = s_now x0 ->
  reach sigma i fuel x0 joker0 ta r m -> setup_gap_b i (r_x r) = true.
Proof.
  intros C W Fr Dn Ht Et H. apply NO_iff_clock_b in C.
  assert (Fr1 : fresh_b i x0 = true) by (unfold fresh2_b in Fr; apply andb_true_iff in Fr; destruct Fr as [Fr _]; apply andb_true_iff in Fr; tauto).
  assert (J0 : J6 x0).
  { split; [split; [apply J_init; auto|apply (fresh_BO_DUR i); auto]|]. split; [lia|]. exists (fun _ => []). apply fresh_SEQ; auto. }
  destruct (reach_reachG sigma i Hnn J6 Q6 side2 OK3 BI J6_apply J6_now E6_end BI_now Q6_timed Q6_timed0 Q6_offer (offers_ok3 i) _ _ _ _ _ _ C J0 (BI_init _ Dn) H)
    as [_ [_ [xq [Nq [[[[_ [[Fq _] _]] _] [_ [g Sq]]] [E|[_ [z E]]]]]]]]; rewrite E.
  - eapply SEQ_setup_gap_b; eauto.
  - exact (SEQ_setup_gap_b _ _ Fq Sq).
Qed.

Theorem run_micro_setup_gap fuel x0 joker0 ta r m a r' m' lg :
  clock_b x0 = true -> wfs_b i x0 = true -> fresh2_b i x0 = true -> nodep_b x0 = true ->
  (forall m ms, nth_error (s_machs x0) m = Some ms -> m_tool ms = tool0 m) -> t0 = s_now x0 ->
  reach sigma i fuel x0 joker0 ta r m -> mw_step sigma i fuel r m a = MOk r' m' lg ->
  forall tr y, In (tr, y) lg -> setup_gap_b i y = true.
Proof.
  intros C W Fr Dn Ht Et H Hm tr y Hin. apply NO_iff_clock_b in C.
  assert (Fr1 : fresh_b i x0 = true) by (unfold fresh2_b in Fr; apply andb_true_iff in Fr; destruct Fr as [Fr _]; apply andb_true_iff in Fr; tauto).
  assert (J0 : J6 x0).
  { split; [split; [apply J_init; auto|apply (fresh_BO_DUR i); auto]|]. split; [lia|]. exists (fun _ => []). apply fresh_SEQ; auto. }
  destruct (reach_micro_J sigma i Hnn J6 Q6 side2 OK3 BI J6_apply J6_now E6_end BI_now Q6_timed Q6_timed0 Q6_offer (offers_ok3 i) _ _ _ _ _ _ _ _ _ _ C J0 (BI_init _ Dn) H Hm _ _ Hin)
    as [[[[_ [[Fy _] _]] _] [_ [g Sy]]] _]. eapply SEQ_setup_gap_b; eauto.
Qed.
End S.
