(* C12 in the vocabulary of the monitors: reflection of the clock invariant and the statements over
   reachable states. *)
From Coq Require Import List ZArith Bool Arith Lia.
From JSL Require Import Base.Res Base.ListX SM.Types SM.Util SM.Handler SM.Step SM.Middleware SM.Inv
  SMP.ListLemmas SMP.Frame SMP.WF SMP.Preserve SMP.StepInv SMP.Clock SMP.ClockStep.
Import ListNotations.
Close Scope Z_scope.

Lemma time_leb_now now t : time_leb (Time now) t = true <-> exists z, t = Time z /\ (now <= z)%Z.
Proof.
  destruct t as [|z]; simpl; split; intros H; try discriminate.
  - destruct H as [z [H _]]; discriminate.
  - exists z. split; auto. apply Z.leb_le; auto.
  - destruct H as [z' [E H]]. inversion E; subst. apply Z.leb_le; auto.
Qed.

Theorem NO_iff_clock_b x : clock_b x = true <-> NO x.
Proof.
  unfold clock_b, no_overdue_b, idle_unclaimed_b, sto_ok_b. rewrite !andb_true_iff, !forallb_forall. split.
  - intros [[[H1 H2] H3] H4]. constructor.
    + intros j jb o Hj Ho Hs. assert (Hin : In o (flat_map j_ops (s_jobs x))).
      { apply in_flat_map. exists jb. split; auto. eapply nth_error_In; eauto. }
      specialize (H1 _ Hin). unfold is_ostate in H1. rewrite Hs in H1. simpl in H1. apply time_leb_now; auto.
    + intros t ts Ht. apply nth_error_In in Ht. specialize (H2 _ Ht). specialize (H3 _ Ht). split.
      * intros Hst. destruct (t_st ts); try congruence; destruct (t_occ ts); auto; try discriminate; apply Z.leb_le; auto.
      * intros [Hs|Hs]; rewrite Hs in H3; destruct (t_job ts); simpl in H3; auto; discriminate.
    + intros v k Hin. specialize (H4 _ Hin). simpl in H4. apply Z.leb_le; auto.
  - intros N. repeat split.
    + intros o Hin. apply in_flat_map in Hin. destruct Hin as [jb [Hjb Ho]]. apply In_nth_error in Hjb.
      destruct Hjb as [j Hj]. unfold is_ostate. destruct (ostate_eqb (o_st o) OProc) eqn:E; auto.
      apply time_leb_now. eapply (no_ops _ N); eauto. destruct (o_st o); simpl in E; try discriminate; auto.
    + intros ts Hin. apply In_nth_error in Hin. destruct Hin as [t Ht]. pose proof (no_trans _ N _ _ Ht) as [A _].
      destruct (t_st ts) eqn:Es; auto;
        (assert (A' := A ltac:(discriminate)); destruct (t_occ ts); try contradiction; try (apply Z.leb_le; assumption); auto).
    + intros ts Hin. apply In_nth_error in Hin. destruct Hin as [t Ht]. pose proof (no_trans _ N _ _ Ht) as [_ B].
      destruct (t_st ts) eqn:Es; auto; rewrite B; auto.
    + intros [v k] Hin. simpl. apply Z.leb_le. eapply (no_sto _ N); eauto.
Qed.

Section M.
Variable sigma : oracle.
Variable i : inst.
Hypothesis Hnn : inst_nonneg_b i = true.

(* every live result the environment can reach satisfies the clock invariant *)
Theorem reach_NO fuel x0 joker0 ta r m :
  NO x0 -> reach sigma i fuel x0 joker0 ta r m -> r_offers r <> [] -> NO (r_x r).
Proof.
  intros Hx H. induction H as [r m lg H|r m a r' m' lg H IH Hs]; intros Hne.
  - unfold mw_reset in H.
    destruct (step sigma i fuel x0 [] TMJumpToEvent) as [x' offers lg'| | |] eqn:Es; try discriminate.
    assert (Hr : result_ok i (s_now x0) lg' x' offers) by (eapply step_NO; eauto; discriminate).
    inversion H; subst. simpl in *. eapply result_ok_live; eauto.
  - assert (Hoff : r_offers r <> []).
    { unfold mw_step in Hs. destruct (r_offers r); [discriminate|congruence]. }
    pose proof (mw_step_NO sigma i Hnn _ _ _ _ _ _ _ (IH Hoff) Hs) as Hr. eapply result_ok_live; eauto.
Qed.

(* C12_monotone / C12_no_overdue for one agent decision from a reachable live state *)
Theorem reach_step_clock fuel x0 joker0 ta r m a r' m' lg :
  NO x0 -> reach sigma i fuel x0 joker0 ta r m -> mw_step sigma i fuel r m a = MOk r' m' lg ->
  (forall tr y, In (tr, y) lg -> clock_b y = true)
  /\ exists xq, chain (s_now (r_x r)) lg (s_now xq) /\ clock_b xq = true
       /\ (r_x r' = xq \/ (r_offers r' = [] /\ all_in_output i xq = true /\ exists z, r_x r' = set_now xq z)).
Proof.
  intros Hx Hr Hs.
  assert (Hoff : r_offers r <> []).
  { unfold mw_step in Hs. destruct (r_offers r); [discriminate|congruence]. }
  pose proof (reach_NO _ _ _ _ _ _ Hx Hr Hoff) as N.
  destruct (mw_step_NO sigma i Hnn _ _ _ _ _ _ _ N Hs) as [A [xq [Nq [Cq D]]]].
  split.
  - intros tr y Hin. apply NO_iff_clock_b. eapply A; eauto.
  - exists xq. split; auto. split; [apply NO_iff_clock_b; auto|auto].
Qed.

End M.
