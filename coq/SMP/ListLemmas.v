(* Lemmas about the list helpers of Base/ListX.v *)
From Coq Require Import List ZArith Bool Arith Lia.
From JSL Require Import Base.Res Base.ListX.
Import ListNotations.

Lemma upd_length {A} (l : list A) n a : length (upd l n a) = length l.
Proof. revert n; induction l as [|h t IH]; intros [|n]; simpl; auto. Qed.

Lemma nth_upd_same {A} (l : list A) n a : n < length l -> nth_error (upd l n a) n = Some a.
Proof. revert n; induction l as [|h t IH]; intros [|n] H; simpl in *; try lia; auto. apply IH; lia. Qed.

Lemma nth_upd_other {A} (l : list A) n k a : n <> k -> nth_error (upd l n a) k = nth_error l k.
Proof.
  revert n k; induction l as [|h t IH]; intros [|n] [|k] H; simpl; auto; try congruence.
Qed.

Lemma nth_upd {A} (l : list A) n k a :
  nth_error (upd l n a) k = if Nat.eqb n k then (if Nat.ltb n (length l) then Some a else None) else nth_error l k.
Proof.
  destruct (Nat.eqb_spec n k) as [->|Hne].
  - destruct (Nat.ltb_spec k (length l)).
    + apply nth_upd_same; auto.
    + apply nth_error_None. rewrite upd_length; lia.
  - apply nth_upd_other; auto.
Qed.

Lemma nth_error_lt {A} (l : list A) n a : nth_error l n = Some a -> n < length l.
Proof. intros H. apply nth_error_Some. congruence. Qed.

Lemma upd_same_id {A} (l : list A) n a : nth_error l n = Some a -> upd l n a = l.
Proof. revert n; induction l as [|h t IH]; intros [|n] H; simpl in *; try discriminate; [congruence|f_equal; auto]. Qed.

Lemma In_upd {A} (l : list A) n a y : In y (upd l n a) -> y = a \/ In y l.
Proof.
  revert n; induction l as [|h t IH]; intros [|n] H; simpl in *; auto.
  - destruct H; auto.
  - destruct H as [H|H]; auto. apply IH in H. tauto.
Qed.

(* sums *)
Lemma sum_upd {A} (f : A -> nat) (l : list A) n old a :
  nth_error l n = Some old -> sum_nat (map f (upd l n a)) + f old = sum_nat (map f l) + f a.
Proof.
  revert n; induction l as [|h t IH]; intros [|n] H; simpl in *; try discriminate.
  - inversion H; subst. lia.
  - specialize (IH _ H). lia.
Qed.

Lemma sum_ge {A} (f : A -> nat) (l : list A) n a : nth_error l n = Some a -> f a <= sum_nat (map f l).
Proof.
  revert n; induction l as [|h t IH]; intros [|n] H; simpl in *; try discriminate.
  - inversion H; subst. lia.
  - specialize (IH _ H). lia.
Qed.

Lemma sum_nat_app l1 l2 : sum_nat (l1 ++ l2) = sum_nat l1 + sum_nat l2.
Proof. induction l1; simpl; lia. Qed.

(* counting *)
Lemma count_app j l1 l2 : count_nat j (l1 ++ l2) = count_nat j l1 + count_nat j l2.
Proof. induction l1; simpl; lia. Qed.

Lemma count_remove_same j l : count_nat j (remove_nat j l) = 0.
Proof.
  induction l as [|h t IH]; simpl; auto.
  unfold remove_nat in *. simpl. destruct (Nat.eqb_spec h j); simpl; auto.
  destruct (Nat.eqb_spec h j); try congruence. simpl. auto.
Qed.

Lemma count_remove_other j k l : k <> j -> count_nat k (remove_nat j l) = count_nat k l.
Proof.
  intros Hne. induction l as [|h t IH]; simpl; auto.
  unfold remove_nat in *. simpl. destruct (Nat.eqb_spec h j); simpl.
  - subst. destruct (Nat.eqb_spec j k); try congruence. simpl. auto.
  - rewrite IH. reflexivity.
Qed.

Lemma mem_nat_In j l : mem_nat j l = true <-> In j l.
Proof.
  unfold mem_nat. rewrite existsb_exists. split.
  - intros [x [H1 H2]]. apply Nat.eqb_eq in H2. subst. auto.
  - intros H. exists j. split; auto. apply Nat.eqb_refl.
Qed.

Lemma mem_count j l : mem_nat j l = true <-> 1 <= count_nat j l.
Proof.
  rewrite mem_nat_In. induction l as [|h t IH]; simpl.
  - split; [tauto|lia].
  - destruct (Nat.eqb_spec h j).
    + subst. split; [lia|auto].
    + split.
      * intros [H|H]; [congruence|]. apply IH in H. lia.
      * intros H. right. apply IH. lia.
Qed.

Lemma count_zero_not_in j l : count_nat j l = 0 <-> ~ In j l.
Proof.
  pose proof (mem_count j l) as H. rewrite mem_nat_In in H. split; intros H1.
  - intros H2. apply H in H2. lia.
  - destruct (count_nat j l) eqn:E; auto. exfalso. apply H1. apply H. lia.
Qed.

Lemma In_remove_nat j k l : In k (remove_nat j l) <-> In k l /\ k <> j.
Proof.
  unfold remove_nat. rewrite filter_In. split; intros [H1 H2]; split; auto.
  - apply negb_true_iff in H2. apply Nat.eqb_neq in H2. auto.
  - apply negb_true_iff. apply Nat.eqb_neq. auto.
Qed.

Lemma mem_remove_other j k l : k <> j -> mem_nat k (remove_nat j l) = mem_nat k l.
Proof.
  intros Hne. apply eq_true_iff_eq. rewrite !mem_nat_In, In_remove_nat. tauto.
Qed.

Lemma mem_app j l1 l2 : mem_nat j (l1 ++ l2) = mem_nat j l1 || mem_nat j l2.
Proof. unfold mem_nat. apply existsb_app. Qed.

Lemma remove_nat_length j l : length (remove_nat j l) <= length l.
Proof. unfold remove_nat. induction l; simpl; auto. destruct (negb _); simpl; lia. Qed.

Lemma remove_single j : remove_nat j [j] = [].
Proof. unfold remove_nat; simpl. rewrite Nat.eqb_refl. reflexivity. Qed.

Lemma lenZ_app {A} (l1 l2 : list A) : lenZ (l1 ++ l2) = (lenZ l1 + lenZ l2)%Z.
Proof. unfold lenZ. rewrite app_length. lia. Qed.

Lemma lenZ_nonneg {A} (l : list A) : (0 <= lenZ l)%Z.
Proof. unfold lenZ. lia. Qed.

Lemma find_idx_some {A} (p : A -> bool) l k :
  find_idx p l = Some k -> exists a, nth_error l k = Some a /\ p a = true /\
                                     forall n b, n < k -> nth_error l n = Some b -> p b = false.
Proof.
  revert k; induction l as [|h t IH]; intros k H; simpl in H; [discriminate|].
  destruct (p h) eqn:Eh.
  - inversion H; subst. exists h. repeat split; auto. intros n b Hn; lia.
  - destruct (find_idx p t) as [n|] eqn:Et; [|discriminate]. inversion H; subst.
    destruct (IH _ eq_refl) as [a [H1 [H2 H3]]]. exists a. repeat split; auto.
    intros [|m] b Hm Hb; simpl in Hb.
    + inversion Hb; subst; auto.
    + eapply H3; eauto. lia.
Qed.

Lemma find_idx_none {A} (p : A -> bool) l : find_idx p l = None -> forallb (fun a => negb (p a)) l = true.
Proof.
  induction l as [|h t IH]; simpl; auto. destruct (p h); [discriminate|].
  destruct (find_idx p t); [discriminate|]. auto.
Qed.

Lemma forallb_upd {A} (f : A -> bool) l n a : forallb f l = true -> f a = true -> forallb f (upd l n a) = true.
Proof.
  revert n; induction l as [|h t IH]; intros [|n] H Ha; simpl in *; auto;
    apply andb_true_iff in H; destruct H; apply andb_true_iff; split; auto.
Qed.

Lemma forallb_nth {A} (f : A -> bool) l n a : forallb f l = true -> nth_error l n = Some a -> f a = true.
Proof. intros H Hn. rewrite forallb_forall in H. apply H. eapply nth_error_In; eauto. Qed.

Lemma hd_error_nth {A} (l : list A) : hd_error l = nth_error l 0.
Proof. destruct l; reflexivity. Qed.
