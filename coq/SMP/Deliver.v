(* Jobs are delivered to the machine of their next operation (C07), and therefore the IDLE -> SETUP transitions a machine
   creates by itself from an ORDERED pre-buffer are valid (C05 for every instance): invariants
     PRE  - a job lying in the pre-buffer of machine m has its first not-done operation on m;
     RTE  - the route of an AGV that has claimed job j ends at the machine of j's first IDLE operation;
     CLOC - a claimed job does not lie in a pre-buffer.
   RTE is set up by the dispatch (dest_idle), survives because a claimed job cannot start a setup (CLOC), and gives PRE at
   the delivery (the delivered job is the AGV's claim - HOLD - and is not in process). Carried with the invariants of
   ProvBatch.v, Hold.v (HOLD) and Claims.v (a job is claimed by at most one AGV) through LiftProv.v. *)
From Coq Require Import List ZArith Bool Arith Lia.
From JSL Require Import Base.Res Base.ListX SM.Types SM.Util SM.Handler SM.Step SM.Middleware SM.Inv
  SMP.ListLemmas SMP.Frame SMP.WF SMP.Preserve SMP.StepInv SMP.Clock SMP.ClockStep SMP.ClockMain SMP.Post SMP.PostApply
  SMP.LiftSide SMP.FeasView SMP.Feasible SMP.FeasSound SMP.Agv SMP.OutputDone SMP.Offers SMP.Unique SMP.Reflect
  SMP.DepLists SMP.Prov SMP.StoreEff SMP.LiftProv SMP.ProvBatch SMP.Claims SMP.Durations SMP.Travel SMP.Hold.
Import ListNotations.
Close Scope Z_scope.

(* route / place and claim of an AGV *)
Definition tr2 (x : state) (t : nat) : option (tloc * option nat) :=
  option_map (fun ts => (t_loc ts, t_job ts)) (nth_error (s_trans x) t).

Lemma tr2_of x t ts : nth_error (s_trans x) t = Some ts -> tr2 x t = Some (t_loc ts, t_job ts).
Proof. intros H. unfold tr2. rewrite H. reflexivity. Qed.
Lemma tr2_put_job x j jb t : tr2 (put_job x j jb) t = tr2 x t. Proof. reflexivity. Qed.
Lemma tr2_with_sto x s t : tr2 (with_sto x s) t = tr2 x t. Proof. reflexivity. Qed.
Lemma tr2_set_now x z t : tr2 (set_now x z) t = tr2 x t. Proof. reflexivity. Qed.
Lemma tr2_set_mach_ctl x m st oc tool outs t : tr2 (set_mach_ctl x m st oc tool outs) t = tr2 x t.
Proof. unfold tr2. destruct (set_mach_ctl_other x m st oc tool outs) as [_ [_ [H _]]]. rewrite H. reflexivity. Qed.
Lemma tr2_set_trans_ctl x t st oc loc jb outs t' :
  tr2 (set_trans_ctl x t st oc loc jb outs) t' = (if Nat.eqb t' t then option_map (fun _ => (loc, jb)) (tr2 x t') else tr2 x t').
Proof.
  unfold tr2. rewrite set_trans_ctl_nth, (Nat.eqb_sym t' t).
  destruct (nth_error (s_trans x) t') as [ts|]; [|destruct (Nat.eqb t t'); reflexivity].
  destruct (Nat.eqb t t'); reflexivity.
Qed.

Section Mv.
Variable i : inst.
Lemma tr2_moved x x1 j A B t : moved i x x1 j A B -> tr2 x1 t = tr2 x t.
Proof.
  intros M. unfold tr2. destruct (nth_error (s_trans x1) t) as [ts1|] eqn:E1.
  - destruct (mv_trans _ _ _ _ _ _ M _ _ E1) as [ts0 [E0 [_ [_ [C3 [C4 _]]]]]]. rewrite E0. simpl. congruence.
  - apply nth_error_None in E1. rewrite (mv_len_t _ _ _ _ _ _ M) in E1. apply nth_error_None in E1. rewrite E1. reflexivity.
Qed.
End Mv.

(* updating a record that the predicate rejects before and after does not move the first accepted one *)
Lemma find_idx_upd {A} (p : A -> bool) (l : list A) k o o' :
  nth_error l k = Some o -> p o = false -> p o' = false -> find_idx p (upd l k o') = find_idx p l.
Proof.
  revert k. induction l as [|h t IH]; intros k Hk Ho Ho'; destruct k; simpl in *; try discriminate.
  - inversion Hk; subst h. rewrite Ho, Ho'. reflexivity.
  - destruct (p h); [reflexivity|]. rewrite (IH k Hk Ho Ho'). reflexivity.
Qed.

Lemma first_upd_keep {A} (p : A -> bool) (l : list A) k o o' n a :
  nth_error l k = Some o -> p o = false -> p o' = false -> find_idx p l = Some n -> nth_error l n = Some a ->
  find_idx p (upd l k o') = Some n /\ nth_error (upd l k o') n = Some a.
Proof.
  intros Hk Ho Ho' Hf Hn. split; [rewrite (find_idx_upd p l k o o' Hk Ho Ho'); exact Hf|].
  rewrite nth_upd_other; auto. intros ->. apply find_idx_some in Hf. destruct Hf as [a0 [H1 [H2 _]]]. rewrite Hk in H1. inversion H1; subst a0. congruence.
Qed.

Section DL.
Variable sigma : oracle.
Variable i : inst.
Hypothesis Hnn : inst_nonneg_b i = true.

(* ---------- what one transition does to routes and claims ---------- *)
Lemma apply_tr2 x tr x' t :
  apply_transition sigma i x tr = Ok x' ->
  tr2 x' t = tr2 x t
  \/ (tr_comp tr = CT t /\ tr_new tr = NT TWorking /\ exists j jb p target, tr_job tr = Some j /\ nth_error (s_jobs x) j = Some jb
        /\ dest_idle i jb = Ok target /\ tr2 x' t = Some (LRoute p (j_loc jb) target, Some j))
  \/ (tr_comp tr = CT t /\ tr_new tr = NT TOutage /\ exists dst, tr2 x' t = Some (LAt dst, None)).
Proof.
  intros H. destruct (tr_comp tr) as [m|t0|n] eqn:Hc.
  - left. destruct (nth_error (s_machs x) m) as [ms|] eqn:Hms; [|unfold apply_transition in H; rewrite Hc, Hms in H; discriminate].
    destruct (apply_machine sigma i _ _ _ _ _ Hc Hms H) as [[_ [_ C]]|[[_ [_ C]]|[[_ [_ C]]|[_ [_ C]]]]].
    + unfold h_m_idle_setup in C. inv_all C. inversion C; subst; clear C.
      assert (Hne : BPre m <> BIn m) by congruence.
      match goal with E' : move_job _ _ _ _ _ = Ok ?y |- _ => pose proof (move_job_moved i _ _ _ _ _ Hne E') as M end.
      rewrite tr2_with_sto, tr2_set_mach_ctl, (tr2_moved i _ _ _ _ _ t M). apply tr2_put_job.
    + unfold h_m_setup_working in C. inv_all C. inversion C; subst; clear C. rewrite tr2_with_sto, tr2_set_mach_ctl. apply tr2_put_job.
    + unfold h_m_working_outage in C. inv_all C. inversion C; subst; clear C. rewrite tr2_with_sto, tr2_set_mach_ctl. apply tr2_put_job.
    + unfold h_m_outage_idle in C. inv_all C. inversion C; subst; clear C.
      assert (Hne : BIn m <> BPost m) by congruence.
      match goal with E' : move_job _ _ _ _ _ = Ok ?y |- _ => pose proof (move_job_moved i _ _ _ _ _ Hne E') as M end.
      rewrite tr2_set_mach_ctl, (tr2_moved i _ _ _ _ _ t M). apply tr2_put_job.
  - destruct (nth_error (s_trans x) t0) as [ts|] eqn:Hts; [|unfold apply_transition in H; rewrite Hc, Hts in H; discriminate].
    destruct (Nat.eq_dec t t0) as [->|Hd].
    2:{ left. assert (Eb : Nat.eqb t t0 = false) by (apply Nat.eqb_neq; auto).
        destruct (apply_transport sigma i _ _ _ _ _ Hc Hts H) as [[_ [_ C]]|[[_ [_ C]]|[[_ [_ C]]|[[_ [_ C]]|[[_ [_ C]]|[_ [_ C]]]]]]].
        - unfold h_t_idle_working in C. inv_all C. inversion C; subst; clear C. rewrite tr2_set_trans_ctl, Eb. reflexivity.
        - unfold h_t_pickup_waiting in C. inv_all C. inversion C; subst; clear C. rewrite tr2_set_trans_ctl, Eb. reflexivity.
        - destruct (post_to_transit sigma i _ _ _ _ _ Hts C) as [j [jb [sb [sc [Hj [Hjb [Hsb [Hsc _]]]]]]]].
          unfold h_t_to_transit in C. rewrite Hj in C. simpl in C. unfold get_job in C. rewrite Hjb in C. simpl in C.
          rewrite Hsb, Hsc in C. simpl in C. inv1 C. inv1 C.
          { unfold h_t_waiting_waiting in C. inv_all C. inversion C; subst; clear C. rewrite tr2_set_trans_ctl, Eb. reflexivity. }
          inv_all C. inversion C; subst; clear C.
          assert (Hn2 : j_loc jb <> BAgv t0) by (intros Eq; rewrite Eq in *; discriminate).
          match goal with E' : move_job _ _ _ _ _ = Ok ?y |- _ => pose proof (move_job_moved i _ _ _ _ _ Hn2 E') as M end.
          rewrite tr2_with_sto, tr2_set_trans_ctl, Eb. apply (tr2_moved i _ _ _ _ _ t M).
        - unfold h_t_transit_outage in C. inv_all C. inversion C; subst; clear C.
          match goal with E' : move_job _ _ _ (BAgv t0) ?B = Ok ?y |- _ =>
            assert (Hn2 : BAgv t0 <> B) by
              (match goal with E'' : match ?d with PM _ => _ | PB _ => _ | PT _ => _ end = Ok B |- _ =>
                 destruct d; inv_all E''; inversion E''; subst; congruence end);
            pose proof (move_job_moved i _ _ _ _ _ Hn2 E') as M end.
          rewrite tr2_with_sto, tr2_set_trans_ctl, Eb. apply (tr2_moved i _ _ _ _ _ t M).
        - unfold h_t_outage_idle in C. inversion C; subst; clear C. rewrite tr2_set_trans_ctl, Eb. reflexivity.
        - unfold h_t_waiting_waiting in C. inv_all C. inversion C; subst; clear C. rewrite tr2_set_trans_ctl, Eb. reflexivity. }
    destruct (apply_transport sigma i _ _ _ _ _ Hc Hts H) as [[_ [Hn C]]|[[_ [_ C]]|[[_ [_ C]]|[[_ [Hn C]]|[[_ [_ C]]|[_ [_ C]]]]]]].
    + right; left. split; auto. split; auto.
      destruct (post_dispatch i _ _ _ _ _ Hts C) as [j [p0 [jb [tg [c0 [ttp [Hj [_ [Hjb [Hdst [_ [_ [Hrec _]]]]]]]]]]]]].
      exists j, jb, p0, tg. split; auto. split; auto. split; auto. rewrite (tr2_of _ _ _ Hrec). reflexivity.
    + left. unfold h_t_pickup_waiting in C. inv_all C. inversion C; subst; clear C.
      rewrite tr2_set_trans_ctl, Nat.eqb_refl, (tr2_of _ _ _ Hts). reflexivity.
    + left. destruct (post_to_transit sigma i _ _ _ _ _ Hts C) as [j [jb [sb [sc [Hj [Hjb [Hsb [Hsc _]]]]]]]].
      unfold h_t_to_transit in C. rewrite Hj in C. simpl in C. unfold get_job in C. rewrite Hjb in C. simpl in C.
      rewrite Hsb, Hsc in C. simpl in C. inv1 C. inv1 C.
      { unfold h_t_waiting_waiting in C. inv_all C. inversion C; subst; clear C.
        rewrite tr2_set_trans_ctl, Nat.eqb_refl, (tr2_of _ _ _ Hts). reflexivity. }
      inv_all C. inversion C; subst; clear C.
      assert (Hn2 : j_loc jb <> BAgv t0) by (intros Eq; rewrite Eq in *; discriminate).
      match goal with E' : move_job _ _ _ _ _ = Ok ?y |- _ => pose proof (move_job_moved i _ _ _ _ _ Hn2 E') as M end.
      rewrite tr2_with_sto, tr2_set_trans_ctl, Nat.eqb_refl, (tr2_moved i _ _ _ _ _ t0 M), (tr2_of _ _ _ Hts). reflexivity.
    + right; right. split; auto. split; auto.
      destruct (post_deliver sigma i _ _ _ _ _ Hts C) as [j [jb [cur [src [dst [ac [B [outs [sto' [occ_for [_ [_ [_ [_ [_ [_ [_ [[ts' [Hts' [_ [_ [Hl [Hjob _]]]]]] _]]]]]]]]]]]]]]]]]].
      exists dst. rewrite (tr2_of _ _ _ Hts'), Hl, Hjob. reflexivity.
    + left. unfold h_t_outage_idle in C. inversion C; subst; clear C.
      rewrite tr2_set_trans_ctl, Nat.eqb_refl, (tr2_of _ _ _ Hts). reflexivity.
    + left. unfold h_t_waiting_waiting in C. inv_all C. inversion C; subst; clear C.
      rewrite tr2_set_trans_ctl, Nat.eqb_refl, (tr2_of _ _ _ Hts). reflexivity.
  - unfold apply_transition in H. rewrite Hc in H. destruct (nth_error (s_bufs x) n); discriminate.
Qed.


(* ---------- what one transition does to the operation records of a job ---------- *)
Lemma jops_eff x tr x' j' :
  WFS i x -> FE i x -> apply_transition sigma i x tr = Ok x' ->
  jops x' j' = jops x j'
  \/ exists m ops k o o', tr_comp tr = CM m /\ jops x j' = Some ops /\ jops x' j' = Some (upd ops k o') /\ nth_error ops k = Some o
       /\ o_st o' <> OIdle /\ (forall m0, jloc x' j' <> Some (BPre m0))
       /\ ((tr_new tr = NM MSetup /\ jloc x j' = Some (BPre m)) \/ o_st o = OProc).
Proof.
  intros W F H. destruct (tr_comp tr) as [m|t|n] eqn:Hc.
  - destruct (nth_error (s_machs x) m) as [ms|] eqn:Hms; [|unfold apply_transition in H; rewrite Hc, Hms in H; discriminate].
    destruct (machine_tr_jops_other sigma i _ _ _ _ _ j' H Hc Hms) as [Same|Chg]; [left; exact Same|right].
    destruct (apply_machine sigma i _ _ _ _ _ Hc Hms H) as [[Hst [Hnw C]]|[[Hst [Hnw C]]|[[Hst [Hnw C]]|[Hst [Hnw C]]]]].
    + destruct (post_idle_setup sigma i _ _ _ _ _ Hms C) as [j [jb [k [oc [mc [sc [sd [Hj [Hjb [Hk [Hoc [Hmc [Hsc [Hsd [[ms' [M1 [M2 [M3 [M4 [M5 _]]]]]] [[jb' [J1 [J2 J3]]] Hnow]]]]]]]]]]]]]]]].
      assert (Ej : j' = j) by (destruct Chg as [[_ E]|[E _]]; [congruence|rewrite Hnw in E; discriminate]). subst j'.
      destruct (first_not_done_spec _ _ Hk) as [o [Ho _]].
      destruct (idle_setup_guard sigma i _ _ _ _ _ C) as [j0 [Hj0 Hin]]. rewrite Hj in Hj0. inversion Hj0; subst j0.
      exists m, (j_ops jb), k, o, (mkOp m (Time (s_now x)) (Time (s_now x + sd)%Z) OProc).
      split; auto. split; [apply jops_of; auto|]. split; [rewrite (jops_of _ _ _ J1), J3; reflexivity|]. split; auto.
      split; [simpl; discriminate|]. split; [intros m0; rewrite (jloc_of _ _ _ J1), J2; discriminate|].
      left. split; auto. eapply (stored_loc i); eauto. simpl. rewrite Hms. reflexivity.
    + destruct (post_setup_working sigma i _ _ _ _ _ Hms C) as [j [jb [k [oc [d0 [Hj [Hjb [Hk [_ [_ [M1 [J1 [_ Hmem]]]]]]]]]]]]].
      assert (Ej : j' = j) by (destruct Chg as [[_ E]|[E _]]; [congruence|rewrite Hnw in E; discriminate]). subst j'.
      destruct (busy_machine_job i x m ms F Hms ltac:(congruence)) as [j1 [jb1 [k1 [o1 [B1 [B2 [B3 [B4 [B5 [P [Q1 Q2]]]]]]]]]]].
      apply mem_nat_In in Hmem. pose proof Hmem as Hmem'. rewrite B1 in Hmem. destruct Hmem as [Ej|[]]. subst j1.
      rewrite Hjb in B2. inversion B2; subst jb1. pose proof (Q1 _ Hk) as Ek. subst k1.
      exists m, (j_ops jb), k, o1, (mkOp m (Time (s_now x)) (Time (s_now x + d0)%Z) OProc).
      split; auto. split; [apply jops_of; auto|]. split; [rewrite (jops_of _ _ _ J1); reflexivity|]. split; auto.
      split; [simpl; discriminate|]. split; [|right; auto].
      intros m0. rewrite (jloc_of _ _ _ J1). simpl. rewrite <- (jloc_of _ _ _ Hjb).
      assert (Hloc : jloc x j = Some (BIn m)) by (eapply (stored_loc i); eauto; simpl; rewrite Hms; reflexivity).
      rewrite Hloc. discriminate.
    + destruct (post_working_outage sigma i _ _ _ _ _ Hms C) as [mc [outs [sto' [occ_for [j [jb [k [o [_ [_ [_ [Hj [Hjb [Hk [Ho [M1 [J1 _]]]]]]]]]]]]]]]]].
      assert (Ej : j' = j) by (destruct Chg as [[_ E]|[E _]]; [congruence|rewrite Hnw in E; discriminate]). subst j'.
      destruct (first_proc_spec _ _ Hk) as [o0 [Ho0 So0]]. rewrite Ho in Ho0. inversion Ho0; subst o0.
      destruct (fe_proc _ _ F _ _ _ (vop_of _ _ _ _ _ Hjb Ho) So0) as [[st0 [A1 _]] _]. simpl in A1.
      exists m, (j_ops jb), k, o, (set_op_end o (Time (s_now x + occ_for)%Z)).
      split; auto. split; [apply jops_of; auto|]. split; [rewrite (jops_of _ _ _ J1); reflexivity|]. split; auto.
      split; [simpl; rewrite So0; discriminate|]. split; [|right; auto].
      intros m0. rewrite (jloc_of _ _ _ J1). simpl. rewrite <- (jloc_of _ _ _ Hjb).
      unfold mview in A1. destruct (nth_error (s_machs x) (o_mach o)) as [ms0|] eqn:Hms0; [|discriminate]. simpl in A1. inversion A1 as [[A2 A3]].
      assert (Hloc : jloc x j = Some (BIn (o_mach o))) by (eapply (stored_loc i); eauto; [simpl; rewrite Hms0; reflexivity|rewrite A3; left; reflexivity]).
      rewrite Hloc. discriminate.
    + destruct (post_outage_idle i _ _ _ _ _ Hms C) as [j [jb [k [o [Hhd [Hjb [Hk [Ho [_ [[jb' [J1 [J2 J3]]] _]]]]]]]]]].
      assert (Ej : j' = j).
      { destruct Chg as [[E _]|[_ E]]; [congruence|]. rewrite Hhd in E. congruence. }
      subst j'. destruct (first_proc_spec _ _ Hk) as [o0 [Ho0 So0]]. rewrite Ho in Ho0. inversion Ho0; subst o0.
      exists m, (j_ops jb), k, o, (mkOp (o_mach o) (o_start o) (Time (s_now x)) ODone).
      split; auto. split; [apply jops_of; auto|]. split; [rewrite (jops_of _ _ _ J1), J3; reflexivity|]. split; auto.
      split; [simpl; discriminate|]. split; [|right; auto].
      intros m0. rewrite (jloc_of _ _ _ J1), J2. discriminate.
  - left. destruct (transport_tr_frame sigma i _ _ _ _ H Hc) as [A1 _]. apply A1.
  - unfold apply_transition in H. rewrite Hc in H. destruct (nth_error (s_bufs x) n); discriminate.
Qed.


(* ---------- the invariants ---------- *)
Definition PRE (x : state) : Prop := forall j ops m, jops x j = Some ops -> jloc x j = Some (BPre m) ->
  exists k o, find_idx nd ops = Some k /\ nth_error ops k = Some o /\ o_mach o = m.
Definition RTE (x : state) : Prop := forall t p src m j ops, tr2 x t = Some (LRoute p src (PM m), Some j) -> jops x j = Some ops ->
  exists k o, find_idx (is_ostate OIdle) ops = Some k /\ nth_error ops k = Some o /\ o_mach o = m.
Definition CLOC (x : state) : Prop := forall t loc j m, tr2 x t = Some (loc, Some j) -> jloc x j <> Some (BPre m).

Lemma tr2_claim x t loc j : tr2 x t = Some (loc, Some j) -> claim x t j.
Proof.
  unfold tr2. destruct (nth_error (s_trans x) t) as [ts|] eqn:E; simpl; intros H; inversion H.
  exists (t_st ts), (t_occ ts). rewrite (tc_of _ _ _ E). congruence.
Qed.

Lemma find_idx_ext {A} (p q : A -> bool) l : (forall a, In a l -> p a = q a) -> find_idx p l = find_idx q l.
Proof.
  induction l as [|h t IH]; intros H; simpl; auto. rewrite (H h (or_introl eq_refl)).
  rewrite IH by (intros a Ha; apply H; right; exact Ha). reflexivity.
Qed.

(* for a job that is not in process the first not-done operation is the first idle one *)
Lemma not_running_first x j jb :
  WFS i x -> FE i x -> nth_error (s_jobs x) j = Some jb -> (forall m, j_loc jb <> BIn m) ->
  find_idx nd (j_ops jb) = find_idx (is_ostate OIdle) (j_ops jb).
Proof.
  intros W F Hjb Hloc. pose proof (outside_not_running i x j jb W F Hjb Hloc) as Hr.
  assert (P : Pat (j_ops jb)) by (eapply (fe_pat _ _ F j); simpl; apply jops_of; auto). destruct P as [P1 _].
  apply find_idx_ext. intros o Ho. apply In_nth_error in Ho. destruct Ho as [k Hk].
  unfold nd, is_ostate. destruct (o_st o) eqn:Es; simpl; auto.
  - exfalso. unfold is_job_running in Hr. assert (Hex : existsb (is_ostate OProc) (j_ops jb) = true).
    { apply existsb_exists. exists o. split; [eapply nth_error_In; eauto|unfold is_ostate; rewrite Es; reflexivity]. }
    congruence.
  - exfalso. eapply P1; eauto.
Qed.

(* the job whose place a delivery changes is the job the transition names; the route's end decides where it goes *)
Lemma deliver_job x tr x' t ts j' :
  apply_transition sigma i x tr = Ok x' -> tr_comp tr = CT t -> tr_new tr = NT TOutage -> nth_error (s_trans x) t = Some ts ->
  jloc x' j' <> jloc x j' ->
  tr_job tr = Some j' /\ exists cur src dst, t_loc ts = LRoute cur src dst
     /\ jloc x' j' = Some (match dst with PM m => BPre m | PB n => BStd n | PT k => BAgv k end).
Proof.
  intros H Hc Hn Hts Hch.
  destruct (apply_transport sigma i _ _ _ _ _ Hc Hts H) as [[_ [E0 _]]|[[_ [E0 _]]|[[_ [E0 _]]|[[_ [_ C]]|[[_ [E0 _]]|[_ [E0 _]]]]]]];
    try (rewrite Hn in E0; discriminate).
  destruct (post_deliver sigma i _ _ _ _ _ Hts C) as [j0 [jb [cur [src [dst [ac [B [outs [sto' [occ_for [Hj0 [Hjb [Hl [_ [HB _]]]]]]]]]]]]]]].
  unfold h_t_transit_outage in C. inv_all C. injection C as Ex.
  match goal with E' : of_opt _ (tr_job tr) = Ok ?jn |- _ => apply of_opt_ok in E'; rewrite Hj0 in E'; inversion E'; subst jn end.
  match goal with E' : move_job _ _ j0 (BAgv t) ?B0 = Ok ?y |- _ =>
    assert (Hn2 : BAgv t <> B0 /\ B0 = (match dst with PM m => BPre m | PB n => BStd n | PT k => BAgv k end)) by
      (match goal with E'' : match ?d with PM _ => _ | PB _ => _ | PT _ => _ end = Ok B0, El : match t_loc ts with LRoute _ _ _ => _ | LAt _ => _ end = Ok ?d |- _ =>
         rewrite Hl in El; inversion El; subst d; destruct dst; inv_all E''; inversion E''; subst; split; congruence end);
    pose proof (move_job_moved i _ _ _ _ _ (proj1 Hn2) E') as M end.
  destruct Hn2 as [_ EB].
  assert (Hjl : forall j1, jloc x' j1 = if Nat.eqb j1 j0 then Some B else jloc x j1).
  { intros j1. rewrite <- Ex. rewrite jloc_with_sto, jloc_set_trans_ctl. rewrite (jloc_moved i _ _ _ _ _ j1 M). rewrite HB, <- EB. reflexivity. }
  rewrite Hjl in Hch. destruct (Nat.eqb_spec j' j0) as [->|Hne]; [|contradiction].
  split; auto. exists cur, src, dst. split; auto. rewrite Hjl, Nat.eqb_refl, HB. reflexivity.
Qed.

Theorem apply_preserves_PRE x tr x' :
  WFS i x -> FE i x -> HOLD x -> PRE x -> RTE x -> apply_transition sigma i x tr = Ok x' -> PRE x'.
Proof.
  intros W F Hd P R H j ops' m Hops' Hloc'.
  destruct (jops_eff x tr x' j W F H) as [Same|[m0 [ops [k [o [o' [_ [_ [_ [_ [_ [Hnp _]]]]]]]]]]]]; [|exfalso; exact (Hnp m Hloc')].
  rewrite Same in Hops'.
  destruct (apply_loc_eff sigma i _ _ _ H j) as [SameL|[A [B [a [Ha [Hina [HB Hk]]]]]]]; [rewrite SameL in Hloc'; eauto|].
  rewrite Hloc' in HB. inversion HB; subst B.
  destruct Hk as [[m1 [_ [[_ E]|[_ E]]]]|[[t1 [_ [_ [_ [_ [E _]]]]]]|[t1 [Hc [Hn EA]]]]]; try discriminate. subst A.
  (* a delivery by AGV t1: the delivered job is its claim and is not in process, the route ends at m *)
  destruct (nth_error (s_trans x) t1) as [ts|] eqn:Hts; [|unfold apply_transition in H; rewrite Hc, Hts in H; discriminate].
  simpl in Ha. rewrite Hts in Ha. simpl in Ha. inversion Ha; subst a.
  pose proof (Hd t1 _ _ _ _ j (tview_of _ _ _ Hts) Hina) as Hjob.
  assert (Hl0 : jloc x j = Some (BAgv t1)) by (eapply (stored_loc i); eauto; simpl; rewrite Hts; reflexivity).
  destruct (deliver_job x tr x' t1 ts j H Hc Hn Hts ltac:(rewrite Hloc', Hl0; discriminate)) as [_ [cur [src [dst [Hl Hnew]]]]].
  rewrite Hloc' in Hnew. destruct dst as [m2|n2|k2]; inversion Hnew; subst m2.
  destruct (R t1 cur src m j ops' ltac:(rewrite (tr2_of _ _ _ Hts), Hl, Hjob; reflexivity) Hops') as [k [o [Hk [Ho Hm]]]].
  exists k, o. split; auto.
  destruct (jops_inv _ _ _ Hops') as [jb [Hjb <-]].
  rewrite (not_running_first x j jb W F Hjb); auto.
  intros m2 E. rewrite (jloc_of _ _ _ Hjb), E in Hl0. discriminate.
Qed.


Theorem apply_preserves_RTE x tr x' :
  WFS i x -> FE i x -> RTE x -> CLOC x -> apply_transition sigma i x tr = Ok x' -> RTE x'.
Proof.
  intros W F R CL H t p src m j ops' Ht' Hops'.
  destruct (apply_tr2 x tr x' t H) as [Same|[[Hc [Hn [j0 [jb [p0 [tg [Hj0 [Hjb [Hdst E]]]]]]]]]|[_ [_ [dst E]]]]].
  - rewrite Same in Ht'.
    destruct (jops_eff x tr x' j W F H) as [SameJ|[m0 [ops [k [o [o' [_ [Hops [Hops2 [Ho [So' [_ Hkind]]]]]]]]]]]].
    + rewrite SameJ in Hops'. eauto.
    + destruct Hkind as [[_ Hpre]|So].
      * exfalso. exact (CL t _ j m0 Ht' Hpre).
      * destruct (R t p src m j ops Ht' Hops) as [k1 [o1 [Hk1 [Ho1 Hm1]]]].
        rewrite Hops2 in Hops'. inversion Hops'; subst ops'.
        destruct (first_upd_keep (is_ostate OIdle) ops k o o' k1 o1 Ho) as [A1 A2]; auto.
        -- unfold is_ostate. rewrite So. reflexivity.
        -- unfold is_ostate. destruct (o_st o'); simpl; auto. congruence.
        -- exists k1, o1. auto.
  - rewrite E in Ht'. inversion Ht'; subst. 
    assert (SameJ : jops x' j = jops x j).
    { destruct (jops_eff x tr x' j W F H) as [SameJ|[m0 [ops [k [o [o' [Hcm _]]]]]]]; auto. rewrite Hc in Hcm. discriminate. }
    rewrite SameJ, (jops_of _ _ _ Hjb) in Hops'. inversion Hops'; subst ops'.
    unfold dest_idle in Hdst. destruct (no_operation_idle jb); [inv_all Hdst; inversion Hdst|].
    unfold first_idle in Hdst. destruct (find_idx (is_ostate OIdle) (j_ops jb)) as [k|] eqn:Ek; simpl in Hdst; [|discriminate].
    destruct (nth_error (j_ops jb) k) as [o|] eqn:Eo; simpl in Hdst; [|discriminate]. inversion Hdst; subst. eauto.
  - rewrite E in Ht'. discriminate.
Qed.

Lemma deliver_drops_claim x tr x' t ts :
  apply_transition sigma i x tr = Ok x' -> tr_comp tr = CT t -> tr_new tr = NT TOutage -> nth_error (s_trans x) t = Some ts ->
  exists dst, tr2 x' t = Some (LAt dst, None).
Proof.
  intros H Hc Hn Hts.
  destruct (apply_transport sigma i _ _ _ _ _ Hc Hts H) as [[_ [E0 _]]|[[_ [E0 _]]|[[_ [E0 _]]|[[_ [_ C]]|[[_ [E0 _]]|[_ [E0 _]]]]]]];
    try (rewrite Hn in E0; discriminate).
  destruct (post_deliver sigma i _ _ _ _ _ Hts C) as [j [jb [cur [src [dst [ac [B [outs [sto' [occ_for [_ [_ [_ [_ [_ [_ [_ [[ts' [Hts' [_ [_ [Hl [Hjob _]]]]]] _]]]]]]]]]]]]]]]]]].
  exists dst. rewrite (tr2_of _ _ _ Hts'), Hl, Hjob. reflexivity.
Qed.

Theorem apply_preserves_CLOC x tr x' :
  WFS i x -> HOLD x -> CLM x -> CLOC x ->
  (is_tworking tr = true -> exists j, tr_job tr = Some j /\ forall m, jloc x j <> Some (BPre m)) ->
  apply_transition sigma i x tr = Ok x' -> CLOC x'.
Proof.
  intros W Hd C CL Hdisp H t loc j m Ht' Hloc'.
  destruct (apply_loc_eff sigma i _ _ _ H j) as [SameL|[A [B [a [Ha [Hina [HB Hk]]]]]]].
  - rewrite SameL in Hloc'.
    destruct (apply_tr2 x tr x' t H) as [Same|[[Hc [Hn [j0 [jb [p0 [tg [Hj0 [_ [_ E]]]]]]]]]|[_ [_ [dst E]]]]].
    + rewrite Same in Ht'. exact (CL t loc j m Ht' Hloc').
    + rewrite E in Ht'. inversion Ht'; subst.
      destruct (Hdisp ltac:(unfold is_tworking; rewrite Hn; reflexivity)) as [j1 [Hj1 Hnp]]. rewrite Hj0 in Hj1. inversion Hj1; subst j1.
      exact (Hnp m Hloc').
    + rewrite E in Ht'. discriminate.
  - rewrite Hloc' in HB. inversion HB; subst B.
    destruct Hk as [[m1 [_ [[_ E]|[_ E]]]]|[[t1 [_ [_ [_ [_ [E _]]]]]]|[t1 [Hc [Hn EA]]]]]; try discriminate. subst A.
    destruct (nth_error (s_trans x) t1) as [ts|] eqn:Hts; [|unfold apply_transition in H; rewrite Hc, Hts in H; discriminate].
    simpl in Ha. rewrite Hts in Ha. simpl in Ha. inversion Ha; subst a.
    pose proof (Hd t1 _ _ _ _ j (tview_of _ _ _ Hts) Hina) as Hjob.
    destruct (deliver_drops_claim x tr x' t1 ts H Hc Hn Hts) as [dst Ed].
    destruct (Nat.eq_dec t t1) as [->|Hne]; [rewrite Ed in Ht'; discriminate|].
    destruct (apply_tr2 x tr x' t H) as [Same|[[Hc2 _]|[Hc2 _]]]; try (rewrite Hc in Hc2; inversion Hc2; congruence).
    rewrite Same in Ht'. apply Hne. apply (C t t1 j); [eapply tr2_claim; eauto|].
    exists (t_st ts), (t_occ ts). rewrite (tc_of _ _ _ Hts), Hjob. reflexivity.
Qed.

Lemma PRE_set_now x z : PRE x -> PRE (set_now x z). Proof. intros P j ops m H1 H2. exact (P j ops m H1 H2). Qed.
Lemma RTE_set_now x z : RTE x -> RTE (set_now x z). Proof. intros P t p src m j ops H1 H2. exact (P t p src m j ops H1 H2). Qed.
Lemma CLOC_set_now x z : CLOC x -> CLOC (set_now x z). Proof. intros P t loc j m H1 H2. exact (P t loc j m H1 H2). Qed.


(* ---------- the jobs AGVs are offered for ---------- *)
Definition cand (x : state) (j : nat) : Prop :=
  exists jb, nth_error (s_jobs x) j = Some jb
    /\ (is_job_running jb = true \/ (is_job_running jb = false /\ is_transportable i x jb = Ok true)).

Lemma transport_offers_cand x l tr :
  get_possible_transport_transition i x = Ok l -> In tr l -> exists j, tr_job tr = Some j /\ cand x j.
Proof.
  unfold get_possible_transport_transition. intros H Hin.
  destruct (filterM _ (indexed 0 (s_trans x))) as [poss|] eqn:F1; simpl in H; [|discriminate].
  destruct (filterM _ _) as [transp|] eqn:F2 in H; simpl in H; [|discriminate].
  match type of H with bind ?e _ = _ => destruct e as [lon|] eqn:F3; simpl in H; [|discriminate] end.
  inversion H; subst; clear H.
  apply in_flat_map in Hin. destruct Hin as [[t ts] [Hp Hin]]. apply in_map_iff in Hin.
  destruct Hin as [[j jb] [<- Hl]]. exists j. split; [reflexivity|].
  assert (Hlon : In (j, jb) (filter (fun '(j0, _) => negb (mem_nat j0
              (flat_map (fun ts0 => match t_job ts0 with Some j1 => [j1] | None => [] end) (s_trans x))))
              (filter (fun '(_, jb0) => is_job_running jb0) (indexed 0 (s_jobs x)) ++ transp))).
  { destruct (i_early i).
    - inversion F3; subst. auto.
    - destruct (filterM_in _ _ _ _ F3 Hl). auto. }
  apply filter_In in Hlon. destruct Hlon as [Hc _]. exists jb.
  apply in_app_iff in Hc. destruct Hc as [Hc|Hc].
  - apply filter_In in Hc. destruct Hc as [Hc Hr]. split; [apply in_indexed0; auto|left; exact Hr].
  - destruct (filterM_in _ _ _ _ F2 Hc) as [Hc' Htr]. apply filter_In in Hc'. destruct Hc' as [Hc' Hr].
    split; [apply in_indexed0; auto|right]. split; [apply negb_true_iff; exact Hr|exact Htr].
Qed.

Lemma cand_not_pre x j : WFS i x -> FE i x -> PRE x -> cand x j -> forall m, jloc x j <> Some (BPre m).
Proof.
  intros W F P [jb [Hjb Hc]] m Hloc. rewrite (jloc_of _ _ _ Hjb) in Hloc. inversion Hloc as [Hl].
  destruct Hc as [Hr|[Hr Ht]].
  - destruct (running_inside i _ _ _ F Hjb Hr) as [m0 [ms [Hms Hin]]].
    assert (E : jloc x j = Some (BIn m0)) by (eapply (stored_loc i); eauto; simpl; rewrite Hms; reflexivity).
    rewrite (jloc_of _ _ _ Hjb), Hl in E. discriminate.
  - destruct (P j (j_ops jb) m (jops_of _ _ _ Hjb) ltac:(rewrite (jloc_of _ _ _ Hjb), Hl; reflexivity)) as [k [o [Hk [Ho Hm]]]].
    rewrite (not_running_first x j jb W F Hjb) in Hk by (intros m0 E; rewrite E in Hl; discriminate).
    unfold is_transportable in Ht. destruct (job_is_done i jb); [discriminate|].
    destruct (all_operations_done jb) eqn:Ead.
    + (* all done, yet a first idle operation *)
      apply find_idx_some in Hk. destruct Hk as [o0 [H1 [H2 _]]]. unfold all_operations_done in Ead.
      pose proof (forallb_nth _ _ _ _ Ead H1) as Q0. unfold is_ostate in *. destruct (o_st o0); simpl in *; discriminate.
    + unfold first_idle in Ht. rewrite Hk in Ht. simpl in Ht. rewrite Ho in Ht. simpl in Ht.
      destruct (get_mach x (o_mach o)); simpl in Ht; [|discriminate]. inversion Ht as [Hb].
      unfold is_job_at_machine in Hb. rewrite Hl, Hm in Hb. 
      assert (Eb : bid_eqb (BPre m) (BPre m) = true) by (simpl; apply Nat.eqb_refl). rewrite Eb in Hb. discriminate.
Qed.

(* ---------- the lifting ---------- *)
Definition J8 (x : state) : Prop := JH i x /\ JC x /\ PRE x /\ RTE x /\ CLOC x.
Definition disp_fact (x : state) (tr : transition) : Prop :=
  is_tworking tr = true -> exists j, tr_job tr = Some j /\ forall m, jloc x j <> Some (BPre m).
Definition Q8 (R : list transition) (x : state) : Prop := Q R x /\ QC R x /\ forall tr, In tr R -> disp_fact x tr.

Theorem J8_apply x tr R x' :
  NO x -> J8 x -> Q8 (tr :: R) x -> is_transition_valid x tr = Ok true -> apply_transition sigma i x tr = Ok x' ->
  J8 x' /\ Q8 R x' /\ side2 tr x' = true.
Proof.
  intros N [Hjh [Hjc [P [Rt CL]]]] [HQ [HQC HD]] Hv Ha.
  destruct (JH_apply sigma i Hnn _ _ _ _ N Hjh HQ Hv Ha) as [Hjh' [HQ' S]].
  destruct (JC_apply sigma i _ _ _ _ N Hjc HQC Hv Ha) as [Hjc' [HQC' _]].
  pose proof Hjh as [[W [[F _] _]] Hd]. pose proof Hjc as [C _].
  split; [|split; [|exact S]].
  - split; auto. split; auto. split; [eapply apply_preserves_PRE; eauto|].
    split; [eapply apply_preserves_RTE; eauto|]. eapply apply_preserves_CLOC; eauto. apply HD. left; reflexivity.
  - split; auto. split; auto. intros tr1 Hin Ht. destruct (HD tr1 (or_intror Hin) Ht) as [j [Hj Hnp]]. exists j. split; auto.
    intros m Hloc'. destruct (apply_loc_eff sigma i _ _ _ Ha j) as [SameL|[A [B [a [Hga [Hina [HB Hk]]]]]]]; [rewrite SameL in Hloc'; exact (Hnp m Hloc')|].
    rewrite Hloc' in HB. inversion HB; subst B.
    destruct Hk as [[m1 [_ [[_ E]|[_ E]]]]|[[t1 [_ [_ [_ [_ [E _]]]]]]|[t1 [Hc [Hn EA]]]]]; try discriminate. subst A.
    destruct (nth_error (s_trans x) t1) as [ts|] eqn:Hts; [|unfold apply_transition in Ha; rewrite Hc, Hts in Ha; discriminate].
    simpl in Hga. rewrite Hts in Hga. simpl in Hga. inversion Hga; subst a.
    pose proof (Hd t1 _ _ _ _ j (tview_of _ _ _ Hts) Hina) as Hjob.
    destruct HQC as [_ HP]. destruct (HP tr1 (or_intror Hin) Ht) as [j1 [Hj1 Hun]]. rewrite Hj in Hj1. inversion Hj1; subst j1.
    apply (Hun t1). exists (t_st ts), (t_occ ts). rewrite (tc_of _ _ _ Hts), Hjob. reflexivity.
Qed.

Lemma J8_now x t : J8 x -> (s_now x <= t)%Z -> J8 (set_now x t).
Proof.
  intros [Hjh [Hjc [P [Rt CL]]]] H. split; [apply (JH_now i); auto|]. split; [apply JC_now; auto|].
  split; [apply PRE_set_now; auto|]. split; [apply RTE_set_now; auto|apply CLOC_set_now; auto].
Qed.

Lemma E8_end x : J8 x -> Q8 [] x -> BI x.
Proof. intros [[Hj _] _] [HQ _]. eapply BI_end; eauto. Qed.

Definition OK8 (x : state) (tr : transition) : Prop :=
  offer_shape tr /\ OKC x tr /\ (is_tworking tr = true -> exists j, tr_job tr = Some j /\ cand x j).

Lemma poss_cand x poss tr :
  get_possible_transitions i x = Ok poss -> In tr poss -> is_tworking tr = true -> exists j, tr_job tr = Some j /\ cand x j.
Proof.
  unfold get_possible_transitions. intros H Hin Ht.
  destruct (filterM _ _) as [pj|] eqn:E1 in H; simpl in H; [|discriminate].
  destruct (get_possible_transport_transition i x) as [pt|] eqn:E2; simpl in H; [|discriminate].
  destruct (mapM _ pj) as [mt|] eqn:E3 in H; simpl in H; [|discriminate].
  inversion H; subst; clear H. apply in_app_iff in Hin. destruct Hin as [Hin|Hin].
  - exfalso. destruct (mapM_in' _ _ _ _ E3 Hin) as [[j jb] [_ Hf]]. simpl in Hf. inv_all Hf. inversion Hf; subst. discriminate.
  - eapply transport_offers_cand; eauto.
Qed.

Lemma offers_ok8 x offers : get_possible_transitions i x = Ok offers -> Forall (OK8 x) offers.
Proof.
  intros H. apply Forall_forall. intros tr Hin. split; [exact (offers_shape i _ _ _ H Hin)|]. split.
  - pose proof (offers_okc i _ _ H) as Hc. rewrite Forall_forall in Hc. auto.
  - intros Ht. eapply poss_cand; eauto.
Qed.


(* ---------- creation ---------- *)
Lemma tele_sub8 x poss tele : filter_teleport i x poss = Ok tele -> forall tr, In tr tele -> In tr poss.
Proof. apply (tele_sub i). Qed.

Lemma Q8_timed x timed poss tele : NO x -> J8 x -> BI x -> create_timed_transitions i x = Ok timed ->
  get_possible_transitions i x = Ok poss -> filter_teleport i x poss = Ok tele -> Q8 (timed ++ tele) x.
Proof.
  intros N [[Hj Hd] [Hjc [P _]]] Hb Hct Hp Hf. split; [eapply (Q_timed i); eauto|]. split; [eapply QC_timed; eauto|].
  intros tr Hin Ht. apply in_app_iff in Hin. destruct Hin as [Hin|Hin].
  - exfalso. destruct Hjc as [_ Dk]. pose proof (timed_not_tw i x timed Dk Hct tr Hin) as E. unfold is_tw in E. unfold is_tworking in Ht. congruence.
  - destruct (poss_cand x poss tr Hp (tele_sub8 _ _ _ Hf _ Hin) Ht) as [j [Hj0 Hc]]. exists j. split; auto.
    destruct Hj as [W [[F _] _]]. eapply cand_not_pre; eauto.
Qed.

Lemma Q8_timed0 x timed : NO x -> J8 x -> BI x -> create_timed_transitions i x = Ok timed -> Q8 timed x.
Proof.
  intros N [[Hj Hd] [Hjc _]] Hb Hct. split; [eapply (Q_timed0 i); eauto|]. split; [eapply QC_timed0; eauto|].
  intros tr Hin Ht. exfalso. destruct Hjc as [_ Dk]. pose proof (timed_not_tw i x timed Dk Hct tr Hin) as E. unfold is_tw in E. unfold is_tworking in Ht. congruence.
Qed.

Lemma Q8_offer x o : J8 x -> BI x -> create_timed_transitions i x = Ok [] -> OK8 x o -> Q8 [o] x.
Proof.
  intros [[Hj Hd] [Hjc [P _]]] Hb Hct [Hs [Hc Hk]]. split; [apply (Q_offer i); auto|]. split; [apply QC_offer; auto|].
  intros tr [<-|[]] Ht. destruct (Hk Ht) as [j [Hj0 Hcd]]. exists j. split; auto.
  destruct Hj as [W [[F _] _]]. eapply cand_not_pre; eauto.
Qed.

(* ---------- initial states, the boolean clause ---------- *)
Lemma pre_ok_b_PRE x : pre_ok_b x = true <-> PRE x.
Proof.
  unfold pre_ok_b, PRE. rewrite forallb_forall. split.
  - intros H j ops m Hops Hloc. destruct (jops_inv _ _ _ Hops) as [jb [Hjb <-]]. rewrite (jloc_of _ _ _ Hjb) in Hloc. inversion Hloc as [Hl].
    specialize (H jb (nth_error_In _ _ Hjb)). rewrite Hl in H. rewrite <- first_not_done_nd.
    destruct (first_not_done jb) as [k|]; [|discriminate]. destruct (nth_error (j_ops jb) k) as [o|] eqn:Eo; [|discriminate].
    apply Nat.eqb_eq in H. eauto.
  - intros H jb Hin. apply In_nth_error in Hin. destruct Hin as [j Hjb]. destruct (j_loc jb) as [n|m|m|m|t] eqn:El; auto.
    destruct (H j (j_ops jb) m (jops_of _ _ _ Hjb) ltac:(rewrite (jloc_of _ _ _ Hjb), El; reflexivity)) as [k [o [Hk [Ho Hm]]]].
    rewrite <- first_not_done_nd in Hk. rewrite Hk, Ho. apply Nat.eqb_eq. exact Hm.
Qed.

Lemma no_claims x t : fresh2_b i x = true -> idle_unclaimed_b x = true -> forall ts, nth_error (s_trans x) t = Some ts -> t_job ts = None.
Proof.
  intros Fr Iu ts Hts. unfold fresh2_b in Fr. apply andb_true_iff in Fr. destruct Fr as [_ F3].
  pose proof (forallb_nth _ _ _ _ F3 Hts) as Q0. simpl in Q0. apply andb_true_iff in Q0. destruct Q0 as [Q0 _].
  pose proof (forallb_nth _ _ _ _ Iu Hts) as Q1. simpl in Q1.
  destruct (t_st ts); simpl in Q0; try discriminate. destruct (t_job ts); simpl in Q1; [discriminate|reflexivity].
Qed.

Lemma J8_init x0 :
  wfs_b i x0 = true -> fresh2_b i x0 = true -> nodep_b x0 = true -> idle_unclaimed_b x0 = true -> pre_ok_b x0 = true -> J8 x0.
Proof.
  intros W Fr D Iu Po.
  assert (NC : forall t st oc j, tc x0 t <> Some (st, oc, Some j)).
  { intros t st oc j Htc. unfold tc in Htc. destruct (nth_error (s_trans x0) t) as [ts|] eqn:Hts; [|discriminate]. simpl in Htc. inversion Htc.
    rewrite (no_claims x0 t Fr Iu ts Hts) in *. discriminate. }
  assert (NC2 : forall t loc j, tr2 x0 t <> Some (loc, Some j)).
  { intros t loc j Ht. unfold tr2 in Ht. destruct (nth_error (s_trans x0) t) as [ts|] eqn:Hts; [|discriminate]. simpl in Ht. inversion Ht.
    rewrite (no_claims x0 t Fr Iu ts Hts) in *. discriminate. }
  split; [split; [apply (J_init i); auto|apply (fresh2_HOLD i); auto]|]. split; [split|].
  - intros t t' j [st [oc H1]] _. exfalso. exact (NC _ _ _ _ H1).
  - apply depk_b_DEPK. apply nodep_depk. auto.
  - split; [apply pre_ok_b_PRE; auto|]. split.
    + intros t p src m j ops Ht _. exfalso. exact (NC2 _ _ _ Ht).
    + intros t loc j m Ht _. exact (NC2 _ _ _ Ht).
Qed.

Lemma clock_idle_unclaimed x : clock_b x = true -> idle_unclaimed_b x = true.
Proof. unfold clock_b. intros H. apply andb_true_iff in H. destruct H as [H _]. apply andb_true_iff in H. tauto. Qed.

(* ---------- every run: jobs in a pre-buffer wait for their next operation there ---------- *)
Theorem run_pre_ok fuel x0 joker0 ta r m :
  clock_b x0 = true -> wfs_b i x0 = true -> fresh2_b i x0 = true -> nodep_b x0 = true ->
  pre_ok_b x0 = true -> reach sigma i fuel x0 joker0 ta r m -> pre_ok_b (r_x r) = true.
Proof.
  intros C W Fr D Po H. pose proof (clock_idle_unclaimed _ C) as Iu. apply NO_iff_clock_b in C.
  destruct (reach_reachG sigma i Hnn J8 Q8 side2 OK8 BI J8_apply J8_now E8_end BI_now Q8_timed Q8_timed0 Q8_offer offers_ok8
              _ _ _ _ _ _ C (J8_init _ W Fr D Iu Po) (BI_init _ D) H) as [_ [_ [xq [Nq [[_ [_ [Pq _]]] [E|[_ [z E]]]]]]]]; rewrite E.
  - apply pre_ok_b_PRE; auto.
  - exact (proj2 (pre_ok_b_PRE _) Pq).
Qed.

Theorem run_micro_pre_ok fuel x0 joker0 ta r m a r' m' lg :
  clock_b x0 = true -> wfs_b i x0 = true -> fresh2_b i x0 = true -> nodep_b x0 = true ->
  pre_ok_b x0 = true -> reach sigma i fuel x0 joker0 ta r m -> mw_step sigma i fuel r m a = MOk r' m' lg ->
  forall tr y, In (tr, y) lg -> pre_ok_b y = true.
Proof.
  intros C W Fr D Po H Hm tr y Hin. pose proof (clock_idle_unclaimed _ C) as Iu. apply NO_iff_clock_b in C.
  destruct (reach_micro_J sigma i Hnn J8 Q8 side2 OK8 BI J8_apply J8_now E8_end BI_now Q8_timed Q8_timed0 Q8_offer offers_ok8
              _ _ _ _ _ _ _ _ _ _ C (J8_init _ W Fr D Iu Po) (BI_init _ D) H Hm _ _ Hin) as [[_ [_ [Py _]]] _].
  apply pre_ok_b_PRE; auto.
Qed.

End DL.
