(* C01: the Prop-level invariant FE implies the boolean clause feasible_b the monitors evaluate, and
   the compiler's initial states (fresh_b) satisfy FE. *)
From Coq Require Import List ZArith Bool Arith Lia.
From JSL Require Import Base.Res Base.ListX SM.Types SM.Util SM.Handler SM.Step SM.Inv
  SMP.ListLemmas SMP.FeasView SMP.Feasible.
Import ListNotations.
Close Scope Z_scope.

(* ---------- list lemmas ---------- *)
Lemma forallb2_nth {A B} (f : A -> B -> bool) l l' :
  length l = length l' ->
  (forall n a b, nth_error l n = Some a -> nth_error l' n = Some b -> f a b = true) ->
  forallb2 f l l' = true.
Proof.
  revert l'; induction l as [|a r IH]; intros [|b r'] Hl H; simpl in *; try discriminate; auto.
  rewrite (H 0 a b) by reflexivity. simpl. apply IH; [lia|]. intros n a' b' Ha Hb. apply (H (S n)); auto.
Qed.

Lemma forallb2_length {A B} (f : A -> B -> bool) l l' : forallb2 f l l' = true -> length l = length l'.
Proof.
  revert l'; induction l as [|a r IH]; intros [|b r'] H; simpl in *; try discriminate; auto.
  apply andb_true_iff in H. destruct H. f_equal; auto.
Qed.

Lemma forallb2_get {A B} (f : A -> B -> bool) l l' n a b :
  forallb2 f l l' = true -> nth_error l n = Some a -> nth_error l' n = Some b -> f a b = true.
Proof.
  revert l' n; induction l as [|x r IH]; intros [|y r'] [|n] H Ha Hb; simpl in *; try discriminate.
  - apply andb_true_iff in H. destruct H. inversion Ha; inversion Hb; subst; auto.
  - apply andb_true_iff in H. destruct H. eauto.
Qed.

Lemma same_none_same_length {A B} (l : list A) (l' : list B) :
  (forall n, nth_error l n = None <-> nth_error l' n = None) -> length l = length l'.
Proof.
  intros H.
  assert (A1 : length l' <= length l) by (apply nth_error_None; apply H; apply nth_error_None; lia).
  assert (A2 : length l <= length l') by (apply nth_error_None; apply H; apply nth_error_None; lia).
  lia.
Qed.

Lemma pairwise_app {A} (f : A -> A -> bool) l1 l2 :
  pairwise f l1 = true -> pairwise f l2 = true -> (forall a b, In a l1 -> In b l2 -> f a b = true) ->
  pairwise f (l1 ++ l2) = true.
Proof.
  induction l1 as [|h t IH]; intros H1 H2 H; simpl in *; auto.
  apply andb_true_iff in H1. destruct H1 as [H1 H1'].
  apply andb_true_iff. split.
  - rewrite forallb_app. apply andb_true_iff. split; auto. apply forallb_forall. intros b Hb. apply H; auto.
  - apply IH; auto.
Qed.

(* pairwise over the selected elements of one list, from the index-wise statement *)
Lemma pairwise_filter_nth {A} (f : A -> A -> bool) (p : A -> bool) l :
  (forall n m a b, n < m -> nth_error l n = Some a -> nth_error l m = Some b -> p a = true -> p b = true -> f a b = true) ->
  pairwise f (filter p l) = true.
Proof.
  induction l as [|h t IH]; intros H; simpl; auto.
  assert (Ht : pairwise f (filter p t) = true).
  { apply IH. intros n m a b Hnm Ha Hb. apply (H (S n) (S m)); auto. lia. }
  destruct (p h) eqn:Eh; auto. simpl. rewrite Ht, andb_true_r.
  apply forallb_forall. intros b Hb. apply filter_In in Hb. destruct Hb as [Hb Pb].
  apply In_nth_error in Hb. destruct Hb as [m Hm]. apply (H 0 (S m) h b); auto. lia.
Qed.

Lemma pairwise_filter_flat {A B} (f : B -> B -> bool) (p : B -> bool) (g : A -> list B) l :
  (forall j a, nth_error l j = Some a -> pairwise f (filter p (g a)) = true) ->
  (forall j j' a a' u v, j < j' -> nth_error l j = Some a -> nth_error l j' = Some a' -> In u (g a) -> In v (g a') ->
                         p u = true -> p v = true -> f u v = true) ->
  pairwise f (filter p (flat_map g l)) = true.
Proof.
  induction l as [|h t IH]; intros H1 H2; simpl; auto.
  rewrite filter_app. apply pairwise_app.
  - apply (H1 0 h); reflexivity.
  - apply IH.
    + intros j a Ha. apply (H1 (S j)); auto.
    + intros j j' a a' u v Hj Ha Ha'. apply (H2 (S j) (S j')); auto. lia.
  - intros u v Hu Hv. apply filter_In in Hu, Hv. destruct Hu as [Hu Pu], Hv as [Hv Pv].
    apply in_flat_map in Hv. destruct Hv as [a' [Ha' Hv]]. apply In_nth_error in Ha'. destruct Ha' as [j' Hj'].
    apply (H2 0 (S j') h a' u v); auto. lia.
Qed.

Lemma chain_of_nth ops :
  (forall n a b, nth_error ops n = Some a -> nth_error ops (S n) = Some b -> nonidle a = true -> nonidle b = true ->
                 time_leb (o_end a) (o_start b) = true) ->
  chain_ok ops = true.
Proof.
  induction ops as [|a r IH]; intros H; [reflexivity|].
  destruct r as [|b r']; [reflexivity|].
  change (chain_ok (a :: b :: r')) with
    ((if nonidle a && nonidle b then time_leb (o_end a) (o_start b) else true) && chain_ok (b :: r')).
  apply andb_true_iff. split.
  - destruct (nonidle a) eqn:Na, (nonidle b) eqn:Nb; simpl; auto. apply (H 0 a b); auto.
  - apply IH. intros n x y Hx Hy. apply (H (S n)); auto.
Qed.

Lemma nonidle_iff o : nonidle o = true <-> o_st o <> OIdle.
Proof. unfold nonidle, is_ostate. destruct (o_st o); simpl; split; intros; try congruence; auto. Qed.

Section Sound.
Variable i : inst.

(* any two distinct records on one machine are disjoint *)
Lemma FE_disjoint v j k o j' k' o' :
  FEV i v -> vop v j k o -> vop v j' k' o' -> (j, k) <> (j', k') -> o_st o <> OIdle -> o_st o' <> OIdle ->
  o_mach o = o_mach o' -> disjoint o o' = true.
Proof.
  intros F H H' Hne S S' M. unfold disjoint. apply orb_true_iff.
  assert (T : o_st o <> OTransport) by (destruct H as [ops [A B]]; destruct (fe_pat _ _ F _ _ A) as [Q _]; eauto).
  assert (T' : o_st o' <> OTransport) by (destruct H' as [ops [A B]]; destruct (fe_pat _ _ F _ _ A) as [Q _]; eauto).
  destruct (o_st o) eqn:E; try congruence.
  - (* o is PROCESSING *)
    destruct (fe_proc _ _ F _ _ _ H E) as [_ C]. destruct (C _ _ _ H' ltac:(congruence) S' ltac:(congruence)) as [_ D]. right. exact D.
  - destruct (o_st o') eqn:E'; try congruence.
    + destruct (fe_proc _ _ F _ _ _ H' E') as [_ C]. destruct (C _ _ _ H Hne ltac:(congruence) M) as [_ D]. left. exact D.
    + eapply (fe_done _ _ F j k o j' k' o'); eauto.
Qed.

Theorem FE_feasible x : FE i x -> feasible_b i x = true.
Proof.
  intros F. unfold feasible_b. apply andb_true_iff. split.
  - (* per job *)
    assert (Hlen : length (s_jobs x) = length (i_jobs i)).
    { apply same_none_same_length. intros n. pose proof (fe_shape _ _ F n) as Hs. simpl in Hs. unfold jops in Hs.
      destruct (nth_error (s_jobs x) n), (nth_error (i_jobs i) n); simpl in Hs; try discriminate; split; intros; congruence. }
    apply forallb2_nth; auto. intros j jb cs Hj Hc.
    assert (Hops : v_ops (view_of x) j = Some (j_ops jb)) by (simpl; unfold jops; rewrite Hj; reflexivity).
    pose proof (fe_pat _ _ F _ _ Hops) as P.
    unfold job_ok. repeat (apply andb_true_iff; split).
    + apply Pat_pattern; auto.
    + apply forallb_forall. intros o Ho. apply In_nth_error in Ho. destruct Ho as [k Hk].
      assert (Vo : vop (view_of x) j k o) by (exists (j_ops jb); auto).
      unfold op_times_ok. destruct (o_st o) eqn:E; auto.
      * apply (fe_times _ _ F _ _ _ Vo). congruence.
      * apply (fe_times _ _ F _ _ _ Vo). congruence.
      * exfalso. destruct P as [Q _]. eapply Q; eauto.
    + apply chain_of_nth. intros n a b Ha Hb Na Nb. apply nonidle_iff in Na, Nb. eapply (fe_chain _ _ F); eauto.
    + pose proof (fe_shape _ _ F j) as Hs. rewrite Hops, Hc in Hs. simpl in Hs. inversion Hs as [Hl].
      apply forallb2_nth; auto. intros k o oc Ho Hoc. unfold op_machine_ok. apply Nat.eqb_eq.
      eapply (fe_mk _ _ F j k o oc); [exists (j_ops jb); auto|]. unfold get_opcfg. rewrite Hc, Hoc. reflexivity.
  - (* per machine *)
    apply forallb_forall. intros m _. unfold machine_ops.
    apply pairwise_filter_flat.
    + intros j jb Hj. apply pairwise_filter_nth. intros n q a b Hnq Ha Hb Pa Pb.
      apply andb_true_iff in Pa, Pb. destruct Pa as [Na Ma], Pb as [Nb Mb].
      apply nonidle_iff in Na, Nb. apply Nat.eqb_eq in Ma, Mb.
      assert (Hops : v_ops (view_of x) j = Some (j_ops jb)) by (simpl; unfold jops; rewrite Hj; reflexivity).
      eapply (FE_disjoint _ j n a j q b F); eauto; try (exists (j_ops jb); auto); try congruence.
      intros Q; inversion Q; lia.
    + intros j j' jb jb' u w Hjj Hj Hj' Hu Hw Pu Pw.
      apply andb_true_iff in Pu, Pw. destruct Pu as [Nu Mu], Pw as [Nw Mw].
      apply nonidle_iff in Nu, Nw. apply Nat.eqb_eq in Mu, Mw.
      apply In_nth_error in Hu, Hw. destruct Hu as [k Hk], Hw as [k' Hk'].
      eapply (FE_disjoint _ j k u j' k' w F); eauto; try congruence.
      * exists (j_ops jb). split; auto. simpl; unfold jops; rewrite Hj; reflexivity.
      * exists (j_ops jb'). split; auto. simpl; unfold jops; rewrite Hj'; reflexivity.
      * intros Q; inversion Q; lia.
Qed.

(* two more clauses of the monitor vector follow from the invariant *)
Theorem FE_mach_hold x : FE i x -> mach_hold_b x = true.
Proof.
  intros F. unfold mach_hold_b. apply forallb_forall. intros ms Hin. apply In_nth_error in Hin. destruct Hin as [m Hm].
  assert (Hv : mview x m = Some (m_st ms, b_store (m_in ms))) by (unfold mview; rewrite Hm; reflexivity).
  destruct (fe_hold _ _ F _ _ _ Hv) as [A B].
  destruct (m_st ms) eqn:Es.
  - rewrite A by reflexivity. reflexivity.
  - destruct (B ltac:(discriminate)) as [j [k [o [E _]]]]. rewrite E. reflexivity.
  - destruct (B ltac:(discriminate)) as [j [k [o [E _]]]]. rewrite E. reflexivity.
  - destruct (B ltac:(discriminate)) as [j [k [o [E _]]]]. rewrite E. reflexivity.
Qed.

Theorem FE_past x : FE i x -> past_b x = true.
Proof.
  intros F. unfold past_b. apply forallb_forall. intros o Hin. apply in_flat_map in Hin. destruct Hin as [jb [Hjb Ho]].
  apply In_nth_error in Hjb. destruct Hjb as [j Hj]. apply In_nth_error in Ho. destruct Ho as [k Hk].
  assert (Vo : vop (view_of x) j k o) by (exists (j_ops jb); split; auto; simpl; unfold jops; rewrite Hj; reflexivity).
  destruct (fe_past _ _ F _ _ _ Vo) as [A B].
  destruct (o_st o) eqn:Es; auto.
  - apply B; reflexivity.
  - apply andb_true_iff. split; [|apply A; reflexivity].
    eapply tle_trans; [|apply A; reflexivity]. apply (fe_times _ _ F _ _ _ Vo). congruence.
Qed.

(* the compiler's initial states *)
Theorem fresh_FE x : fresh_b i x = true -> FE i x.
Proof.
  intros H. unfold fresh_b in H. apply andb_true_iff in H. destruct H as [H H3]. apply andb_true_iff in H. destruct H as [H1 H2].
  assert (Idle : forall j k o, vop (view_of x) j k o -> o_st o = OIdle).
  { intros j k o [ops [A B]]. simpl in A. unfold jops in A. destruct (nth_error (s_jobs x) j) as [jb|] eqn:Ej; [|discriminate].
    simpl in A. inversion A; subst ops. pose proof (forallb_nth _ _ _ _ H1 Ej) as Q. simpl in Q.
    pose proof (forallb_nth _ _ _ _ Q B) as R. unfold is_ostate in R. destruct (o_st o); simpl in R; try discriminate; auto. }
  constructor.
  - intros j ops A. split.
    + intros n a Hn. rewrite (Idle j n a) by (exists ops; auto). discriminate.
    + intros n m a b _ _ Hb. right. apply (Idle j m b). exists ops; auto.
  - intros j k o V S. exfalso. apply S. eauto.
  - intros j ops n a b A Ha _ S. exfalso. apply S. apply (Idle j n a). exists ops; auto.
  - intros j k o oc [ops [A B]] Hc. simpl in A. unfold jops in A. destruct (nth_error (s_jobs x) j) as [jb|] eqn:Ej; [|discriminate].
    simpl in A. inversion A; subst ops. unfold get_opcfg in Hc. destruct (nth_error (i_jobs i) j) as [cs|] eqn:Ec; [|discriminate].
    destruct (nth_error cs k) as [oc'|] eqn:Ek; simpl in Hc; inversion Hc; subst oc'.
    pose proof (forallb2_get _ _ _ _ _ _ H3 Ej Ec) as Q. simpl in Q.
    pose proof (forallb2_get _ _ _ _ _ _ Q B Ek) as R. unfold op_machine_ok in R. apply Nat.eqb_eq; auto.
  - intros j. simpl. unfold jops. pose proof (forallb2_length _ _ _ H3) as Hl.
    destruct (nth_error (s_jobs x) j) as [jb|] eqn:Ej, (nth_error (i_jobs i) j) as [cs|] eqn:Ec; simpl; auto.
    + pose proof (forallb2_get _ _ _ _ _ _ H3 Ej Ec) as Q. simpl in Q. apply forallb2_length in Q. congruence.
    + apply nth_error_lt in Ej. apply nth_error_None in Ec. lia.
    + apply nth_error_lt in Ec. apply nth_error_None in Ej. lia.
  - intros j k o V. rewrite (Idle _ _ _ V). split; discriminate.
  - intros j k o V S. rewrite (Idle _ _ _ V) in S. discriminate.
  - intros j k o j' k' o' V _ _ S. rewrite (Idle _ _ _ V) in S. discriminate.
  - intros m st l A. simpl in A. unfold mview in A. destruct (nth_error (s_machs x) m) as [ms|] eqn:Em; [|discriminate].
    simpl in A. inversion A; subst st l. pose proof (forallb_nth _ _ _ _ H2 Em) as Q. simpl in Q.
    apply andb_true_iff in Q. destruct Q as [Q1 Q2].
    assert (Es : m_st ms = MIdle) by (destruct (m_st ms); simpl in Q1; try discriminate; auto).
    split; [|congruence]. intros _. destruct (b_store (m_in ms)); [auto|discriminate].
Qed.

End Sound.
