(* Every applied transition preserves the store invariants WFS (conservation of jobs, location,
   capacity, flags) - no side condition, for every instance, oracle and transition. *)
From Coq Require Import List ZArith Bool Arith Lia.
From JSL Require Import Base.Res Base.ListX SM.Types SM.Util SM.Handler SM.Step SM.Inv
  SMP.ListLemmas SMP.Frame SMP.WF.
Import ListNotations.
Close Scope Z_scope.

Lemma of_opt_ok {A} e (o : option A) a : of_opt e o = Ok a -> o = Some a.
Proof. destruct o; simpl; intros H; inversion H; auto. Qed.
Lemma guard_ok b e u : guard b e = Ok u -> b = true.
Proof. destruct b; simpl; intros H; [auto|discriminate]. Qed.
Lemma get_job_ok x j jb : get_job x j = Ok jb -> nth_error (s_jobs x) j = Some jb.
Proof. apply of_opt_ok. Qed.
Lemma get_mach_ok x j jb : get_mach x j = Ok jb -> nth_error (s_machs x) j = Some jb.
Proof. apply of_opt_ok. Qed.
Lemma get_trans_ok x j jb : get_trans x j = Ok jb -> nth_error (s_trans x) j = Some jb.
Proof. apply of_opt_ok. Qed.

(* invert one monadic bind in hypothesis H *)
Ltac inv1 H :=
  match type of H with
  | bind ?e _ = Ok _ =>
      let E := fresh "E" in
      destruct e as [?v|?] eqn:E; simpl in H; [|discriminate]
  | (if ?b then _ else _) = Ok _ => let E := fresh "E" in destruct b eqn:E
  | (let '(_, _) := ?p in _) = Ok _ => destruct p
  | Err _ = Ok _ => discriminate
  end.
Ltac inv_all H := repeat (inv1 H).

Section Pres.
Variable sigma : oracle.
Variable i : inst.

Lemma same_put_job x j jb jb' :
  nth_error (s_jobs x) j = Some jb -> j_loc jb' = j_loc jb -> same_stores x (put_job x j jb').
Proof.
  intros Hj Hl. constructor.
  - intros L. apply get_buf_put_job.
  - reflexivity.
  - reflexivity.
  - reflexivity.
  - unfold put_job; simpl. apply upd_length.
  - intros k kb Hk. unfold put_job in Hk; simpl in Hk. rewrite nth_upd in Hk.
    destruct (Nat.eqb_spec j k) as [->|Hne].
    + destruct (Nat.ltb k (length (s_jobs x))); inversion Hk; subst. eauto.
    + eauto.
Qed.

Lemma same_set_mach_ctl x m st oc tool outs : same_stores x (set_mach_ctl x m st oc tool outs).
Proof.
  destruct (set_mach_ctl_other x m st oc tool outs) as [H1 [H2 [H3 [H4 [H5 H6]]]]].
  constructor.
  - intros L. apply get_buf_set_mach_ctl.
  - congruence.
  - congruence.
  - congruence.
  - congruence.
  - intros j jb' Hj. rewrite H1 in Hj. eauto.
Qed.

Lemma same_set_trans_ctl x t st oc loc jb outs : same_stores x (set_trans_ctl x t st oc loc jb outs).
Proof.
  destruct (set_trans_ctl_other x t st oc loc jb outs) as [H1 [H2 [H3 [H4 [H5 H6]]]]].
  constructor.
  - intros L. apply get_buf_set_trans_ctl.
  - congruence.
  - congruence.
  - congruence.
  - congruence.
  - intros j jb' Hj. rewrite H1 in Hj. eauto.
Qed.

Lemma same_set_sto x s : same_stores x (set_sto x s).
Proof. constructor; try reflexivity. intros; eauto. Qed.

Lemma same_set_now x t : same_stores x (set_now x t).
Proof. constructor; try reflexivity. intros; eauto. Qed.

Lemma set_op_loc jb k o : j_loc (set_op jb k o) = j_loc jb.
Proof. reflexivity. Qed.

(* WFS is insensitive to a move preceded/followed by store-neutral updates *)
Lemma WFS_move x j A B x1 : A <> B -> WFS i x -> move_job i x j A B = Ok x1 -> WFS i x1.
Proof. intros Hne W H. exact (WFS_moved i x x1 j A B Hne W (move_job_moved i x j A B x1 Hne H)). Qed.

(* ---------- machine handlers ---------- *)
Lemma pres_m_idle_setup x tr m ms x' : WFS i x -> h_m_idle_setup sigma i x tr m ms = Ok x' -> WFS i x'.
Proof.
  intros W H. unfold h_m_idle_setup in H. inv_all H.
  inversion H; subst; clear H.
  apply get_job_ok in E0.
  eapply WFS_same; [|apply same_set_sto].
  eapply WFS_same; [|apply same_set_mach_ctl].
  eapply WFS_move; [| |eauto]; [congruence|].
  eapply WFS_same; [eauto|]. eapply same_put_job; eauto.
Qed.

Lemma pres_m_setup_working x tr m ms x' : WFS i x -> h_m_setup_working sigma i x tr m ms = Ok x' -> WFS i x'.
Proof.
  intros W H. unfold h_m_setup_working in H. inv_all H.
  inversion H; subst; clear H. apply get_job_ok in E0.
  eapply WFS_same; [|apply same_set_sto].
  eapply WFS_same; [|apply same_set_mach_ctl].
  eapply WFS_same; [eauto|]. eapply same_put_job; eauto.
Qed.

Lemma pres_m_working_outage x tr m ms x' : WFS i x -> h_m_working_outage sigma i x tr m ms = Ok x' -> WFS i x'.
Proof.
  intros W H. unfold h_m_working_outage in H. inv_all H.
  inversion H; subst; clear H.
  match goal with E : get_job _ _ = Ok _ |- _ => apply get_job_ok in E end.
  eapply WFS_same; [|apply same_set_sto].
  eapply WFS_same; [|apply same_set_mach_ctl].
  eapply WFS_same; [eauto|]. eapply same_put_job; eauto.
Qed.

Lemma pres_m_outage_idle x tr m ms x' : WFS i x -> h_m_outage_idle i x tr m ms = Ok x' -> WFS i x'.
Proof.
  intros W H. unfold h_m_outage_idle in H. inv_all H.
  inversion H; subst; clear H.
  match goal with E : get_job _ _ = Ok _ |- _ => apply get_job_ok in E end.
  eapply WFS_same; [|apply same_set_mach_ctl].
  eapply WFS_move; [| |eauto]; [congruence|].
  eapply WFS_same; [eauto|]. eapply same_put_job; eauto.
Qed.

Lemma pres_machine x tr m x' : WFS i x -> handle_machine_transition sigma i x tr m = Ok x' -> WFS i x'.
Proof.
  intros W H. unfold handle_machine_transition in H. inv1 H.
  destruct (m_st v), (tr_new tr) as [[]|[]]; try discriminate.
  - eapply pres_m_idle_setup; eauto.
  - eapply pres_m_setup_working; eauto.
  - eapply pres_m_working_outage; eauto.
  - eapply pres_m_outage_idle; eauto.
Qed.

(* ---------- transport handlers ---------- *)
Lemma pres_t_waiting_waiting x tr t ts x' : WFS i x -> h_t_waiting_waiting i x tr t ts = Ok x' -> WFS i x'.
Proof.
  intros W H. unfold h_t_waiting_waiting in H. inv_all H. inversion H; subst.
  eapply WFS_same; [eauto|apply same_set_trans_ctl].
Qed.

Lemma pres_t_pickup_waiting x tr t ts x' : WFS i x -> h_t_pickup_waiting i x tr t ts = Ok x' -> WFS i x'.
Proof.
  intros W H. unfold h_t_pickup_waiting in H. inv_all H. inversion H; subst.
  eapply WFS_same; [eauto|apply same_set_trans_ctl].
Qed.

Lemma pres_t_idle_working x tr t ts x' : WFS i x -> h_t_idle_working i x tr t ts = Ok x' -> WFS i x'.
Proof.
  intros W H. unfold h_t_idle_working in H. inv_all H. inversion H; subst.
  eapply WFS_same; [eauto|apply same_set_trans_ctl].
Qed.

Lemma pres_t_outage_idle x tr t ts x' : WFS i x -> h_t_outage_idle x tr t ts = Ok x' -> WFS i x'.
Proof.
  intros W H. unfold h_t_outage_idle in H. inversion H; subst.
  eapply WFS_same; [eauto|apply same_set_trans_ctl].
Qed.

Lemma pres_t_to_transit x tr t ts x' : WFS i x -> h_t_to_transit sigma i x tr t ts = Ok x' -> WFS i x'.
Proof.
  intros W H. unfold h_t_to_transit in H.
  inv1 H. inv1 H. inv1 H. inv1 H. inv1 H. inv1 H.
  - eapply pres_t_waiting_waiting; eauto.
  - inv_all H. inversion H; subst; clear H.
    eapply WFS_same; [|apply same_set_sto].
    eapply WFS_same; [|apply same_set_trans_ctl].
    eapply WFS_move; [| |eauto]; auto.
    intros Eq. rewrite Eq in *. discriminate.
Qed.

Lemma pres_t_transit_outage x tr t ts x' : WFS i x -> h_t_transit_outage sigma i x tr t ts = Ok x' -> WFS i x'.
Proof.
  intros W H. unfold h_t_transit_outage in H. inv_all H.
  inversion H; subst; clear H.
  eapply WFS_same; [|apply same_set_sto].
  eapply WFS_same; [|apply same_set_trans_ctl].
  eapply WFS_move; [| |eauto]; auto.
  match goal with E : match ?d with PM _ => _ | PB _ => _ | PT _ => _ end = Ok ?B |- BAgv _ <> ?B =>
    destruct d; inv_all E; inversion E; subst; congruence end.
Qed.

Lemma pres_transport x tr t x' : WFS i x -> handle_transport_transition sigma i x tr t = Ok x' -> WFS i x'.
Proof.
  intros W H. unfold handle_transport_transition in H. inv1 H. inv1 H.
  destruct (t_st v), (tr_new tr) as [[]|[]]; try discriminate.
  - eapply pres_t_idle_working; eauto.
  - eapply pres_t_transit_outage; eauto.
  - eapply pres_t_to_transit; eauto.
  - eapply pres_t_pickup_waiting; eauto.
  - eapply pres_t_transit_outage; eauto.
  - eapply pres_t_outage_idle; eauto.
  - eapply pres_t_to_transit; eauto.
  - eapply pres_t_waiting_waiting; eauto.
Qed.

(* C03/C08 one-step: every applied transition preserves the store invariants *)
Theorem apply_preserves_WFS x tr x' : WFS i x -> apply_transition sigma i x tr = Ok x' -> WFS i x'.
Proof.
  intros W H. unfold apply_transition in H.
  destruct (tr_comp tr) as [m|t|n].
  - destruct (nth_error (s_machs x) m); [|discriminate]. eapply pres_machine; eauto.
  - destruct (nth_error (s_trans x) t); [|discriminate]. eapply pres_transport; eauto.
  - destruct (nth_error (s_bufs x) n); discriminate.
Qed.

End Pres.
