(* C03: an AGV holds only the job it has claimed (agv_hold_b) - in every state and micro-state of every run on
   instances with unordered or capacity-one machine post-buffers. The job an AGV takes is its claim (derived in
   SMP/ProvBatch.v from the provenance of the -> TRANSIT transitions); nothing else puts a job on an AGV, and the
   claim is only dropped together with the job. *)
From Coq Require Import List ZArith Bool Arith Lia.
From JSL Require Import Base.Res Base.ListX SM.Types SM.Util SM.Handler SM.Step SM.Middleware SM.Inv
  SMP.ListLemmas SMP.Frame SMP.WF SMP.Preserve SMP.StepInv SMP.Clock SMP.ClockStep SMP.ClockMain SMP.Post SMP.PostApply
  SMP.LiftSide SMP.FeasView SMP.Feasible SMP.FeasSound SMP.Agv SMP.OutputDone SMP.Offers SMP.Unique SMP.Reflect
  SMP.Prov SMP.LiftProv SMP.ProvBatch.
Import ListNotations.
Close Scope Z_scope.

Definition HOLD (x : state) : Prop := forall t st l loc jb j, tview x t = Some (st, l, loc, jb) -> In j l -> jb = Some j.

Section H.
Variable sigma : oracle.
Variable i : inst.
Hypothesis Hnn : inst_nonneg_b i = true.

Lemma HOLD_frame x x' : HOLD x -> (forall t, tview x' t = tview x t) -> HOLD x'.
Proof. intros A H t st l loc jb j Hp. rewrite H in Hp. eauto. Qed.

(* the AGV's control fields change while it is empty *)
Lemma HOLD_ctl_empty x t ts st oc loc jb outs :
  HOLD x -> nth_error (s_trans x) t = Some ts -> b_store (t_buf ts) = [] -> HOLD (set_trans_ctl x t st oc loc jb outs).
Proof.
  intros A Hts He t' st' l' loc' jb' j Hp Hin. rewrite tview_set_trans_ctl in Hp. destruct (Nat.eqb_spec t' t) as [->|Hne]; [|eauto].
  rewrite (tview_of _ _ _ Hts) in Hp. simpl in Hp. inversion Hp; subst. rewrite He in Hin. destruct Hin.
Qed.

Theorem apply_preserves_HOLD x tr R x' :
  AG x -> HOLD x -> pend x R tr -> apply_transition sigma i x tr = Ok x' -> HOLD x'.
Proof.
  intros A Hd Hpend H.
  destruct (tr_comp tr) as [m|t|n] eqn:Hc.
  - destruct (nth_error (s_machs x) m) as [ms|] eqn:Hms; [|unfold apply_transition in H; rewrite Hc, Hms in H; discriminate].
    destruct (apply_machine sigma i _ _ _ _ _ Hc Hms H) as [[_ [_ C]]|[[_ [_ C]]|[[_ [_ C]]|[_ [_ C]]]]].
    + unfold h_m_idle_setup in C. inv_all C. inversion C; subst; clear C.
      assert (Hne : BPre m <> BIn m) by congruence.
      match goal with E' : move_job _ _ _ _ _ = Ok ?y |- _ => pose proof (move_job_moved i _ _ _ _ _ Hne E') as M end.
      eapply HOLD_frame; [exact Hd|]. intros t. rewrite tview_with_sto, tview_set_mach_ctl.
      rewrite (tview_moved_other i _ _ _ _ _ t M) by congruence. apply tview_put_job.
    + unfold h_m_setup_working in C. inv_all C. inversion C; subst; clear C.
      eapply HOLD_frame; [exact Hd|]. intros t. rewrite tview_with_sto, tview_set_mach_ctl. apply tview_put_job.
    + unfold h_m_working_outage in C. inv_all C. inversion C; subst; clear C.
      eapply HOLD_frame; [exact Hd|]. intros t. rewrite tview_with_sto, tview_set_mach_ctl. apply tview_put_job.
    + unfold h_m_outage_idle in C. inv_all C. inversion C; subst; clear C.
      assert (Hne : BIn m <> BPost m) by congruence.
      match goal with E' : move_job _ _ _ _ _ = Ok ?y |- _ => pose proof (move_job_moved i _ _ _ _ _ Hne E') as M end.
      eapply HOLD_frame; [exact Hd|]. intros t. rewrite tview_set_mach_ctl.
      rewrite (tview_moved_other i _ _ _ _ _ t M) by congruence. apply tview_put_job.
  - destruct (nth_error (s_trans x) t) as [ts|] eqn:Hts; [|unfold apply_transition in H; rewrite Hc, Hts in H; discriminate].
    destruct (apply_transport sigma i _ _ _ _ _ Hc Hts H) as [[S [Hnw C]]|[[S [Hnw C]]|[[S [Hnw C]]|[[S [Hnw C]]|[[S [Hnw C]]|[S [Hnw C]]]]]]].
    + unfold h_t_idle_working in C. inv_all C. inversion C; subst. eapply HOLD_ctl_empty; eauto. eapply AG_phase_empty; eauto. congruence.
    + unfold h_t_pickup_waiting in C. inv_all C. inversion C; subst. eapply HOLD_ctl_empty; eauto. eapply AG_phase_empty; eauto. congruence.
    + (* -> TRANSIT: the job taken is the claim *)
      assert (He : b_store (t_buf ts) = []) by (eapply AG_phase_empty; eauto; destruct S; congruence).
      destruct (Hpend Hnw) as [t1 [j1 [oc1 [Hc1 [Hj1 [Htc _]]]]]]. rewrite Hc in Hc1. inversion Hc1; subst t1.
      rewrite (tc_of _ _ _ Hts) in Htc. inversion Htc as [[Z1 Z2 Z3]].
      destruct (post_to_transit sigma i _ _ _ _ _ Hts C) as [j [jb0 [sb [sc [Hj [Hjb [Hsb [Hsc [[p [_ [_ Wt]]]|Rp]]]]]]]]].
      * unfold h_t_waiting_waiting in Wt. inv_all Wt. inversion Wt; subst. eapply HOLD_ctl_empty; eauto.
      * rewrite Hj in Hj1. inversion Hj1; subst j1.
        unfold h_t_to_transit in C. rewrite Hj in C. simpl in C. unfold get_job in C. rewrite Hjb in C. simpl in C.
        rewrite Hsb, Hsc in C. simpl in C. inv1 C. inv1 C.
        { exfalso. destruct Rp as [dst [c0 [trv [Hpos _]]]]. destruct (index_of j (b_store sb)) as [p|] eqn:Ei; simpl in E; [|discriminate].
          rewrite (Hpos p eq_refl) in E. simpl in E. discriminate. }
        inv_all C. inversion C; subst; clear C.
        match goal with E' : move_job _ _ _ ?A0 (BAgv t) = Ok ?y |- _ =>
          assert (Hne : A0 <> BAgv t) by (intros Eq; rewrite Eq in *; discriminate);
          assert (HA : forall t0, BAgv t0 <> A0) by (intros t0 Eq; rewrite <- Eq in *; discriminate);
          pose proof (move_job_moved i _ _ _ _ _ Hne E') as M end.
        intros t' st' l' loc' jb' j' Hp Hin. rewrite tview_with_sto, tview_set_trans_ctl in Hp.
        destruct (Nat.eqb_spec t' t) as [->|Hn].
        -- rewrite (tview_moved_target i _ _ _ _ _ _ _ _ _ M (tview_of _ _ _ Hts)) in Hp. simpl in Hp. inversion Hp; subst.
           rewrite He in Hin. simpl in Hin. destruct Hin as [<-|[]]. exact Z3.
        -- rewrite (tview_moved_other i _ _ _ _ _ t' M) in Hp; [eauto|apply HA|congruence].
    + (* delivery: the AGV is empty afterwards *)
      unfold h_t_transit_outage in C. inv_all C. inversion C; subst; clear C.
      match goal with E' : move_job _ _ _ (BAgv t) ?B = Ok ?y |- _ => rename E' into Emv; rename B into B0 end.
      assert (HB : BAgv t <> B0 /\ forall t', BAgv t' <> B0).
      { match goal with E' : match ?dst with PM _ => _ | PB _ => _ | PT _ => _ end = Ok B0 |- _ =>
          destruct dst; inv_all E'; inversion E'; subst; split; congruence end. }
      destruct HB as [Hne HB].
      pose proof (move_job_moved i _ _ _ _ _ Hne Emv) as M.
      intros t' st' l' loc' jb' j' Hp Hin. rewrite tview_with_sto, tview_set_trans_ctl in Hp.
      destruct (Nat.eqb_spec t' t) as [->|Hn].
      * destruct (tview_moved_source i _ _ _ _ _ _ _ _ _ M (tview_of _ _ _ Hts)) as [Hv Hin0].
        rewrite Hv in Hp. simpl in Hp. inversion Hp; subst. exfalso.
        pose proof (A _ _ (tview_of _ _ _ Hts)) as Q0. unfold holds_ok in Q0; simpl in Q0.
        destruct S as [S|S]; rewrite S in Q0.
        -- destruct Q0 as [j0 Q0]. rewrite Q0 in *. destruct Hin0 as [<-|[]]. rewrite remove_single in Hin. destruct Hin.
        -- rewrite Q0 in Hin0. destruct Hin0.
      * rewrite (tview_moved_other i _ _ _ _ _ t' M) in Hp; [eauto|congruence|apply HB].
    + unfold h_t_outage_idle in C. inversion C; subst. eapply HOLD_ctl_empty; eauto. eapply AG_phase_empty; eauto. congruence.
    + unfold h_t_waiting_waiting in C. inv_all C. inversion C; subst. eapply HOLD_ctl_empty; eauto. eapply AG_phase_empty; eauto. congruence.
  - unfold apply_transition in H. rewrite Hc in H. destruct (nth_error (s_bufs x) n); discriminate.
Qed.

Lemma HOLD_set_now x z : HOLD x -> HOLD (set_now x z).
Proof. intros A. eapply HOLD_frame; eauto. Qed.

(* ---------- lifting ---------- *)
Definition JH (x : state) : Prop := J i x /\ HOLD x.

Theorem JH_apply x tr R x' :
  NO x -> JH x -> Q (tr :: R) x -> is_transition_valid x tr = Ok true -> apply_transition sigma i x tr = Ok x' ->
  JH x' /\ Q R x' /\ side2 tr x' = true.
Proof.
  intros N [Hj Hd] HQ Hv Ha. destruct (J_apply sigma i Hnn _ _ _ _ N Hj HQ Hv Ha) as [Hj' [HQ' S]].
  split; [split; auto|auto]. destruct Hj as [_ [[_ [A _]] _]]. destruct HQ as [_ [HP _]].
  eapply apply_preserves_HOLD; eauto. apply HP. left; reflexivity.
Qed.

Lemma JH_now x t : JH x -> (s_now x <= t)%Z -> JH (set_now x t).
Proof. intros [Hj Hd] H. split; [apply J_now; auto|apply HOLD_set_now; auto]. Qed.

Lemma QH_timed x timed poss tele : NO x -> JH x -> BI x -> create_timed_transitions i x = Ok timed ->
  get_possible_transitions i x = Ok poss -> filter_teleport i x poss = Ok tele -> Q (timed ++ tele) x.
Proof. intros N [Hj _]. apply (Q_timed i); auto. Qed.
Lemma QH_timed0 x timed : NO x -> JH x -> BI x -> create_timed_transitions i x = Ok timed -> Q timed x.
Proof. intros N [Hj _]. apply (Q_timed0 i); auto. Qed.
Lemma QH_offer x o : JH x -> BI x -> create_timed_transitions i x = Ok [] -> offer_shape o -> Q [o] x.
Proof. intros [Hj _]. apply (Q_offer i); auto. Qed.
Lemma EH_end x : JH x -> Q [] x -> BI x.
Proof. intros [Hj _]. apply (BI_end i); auto. Qed.

(* agv_hold_b from the invariants *)
Lemma JH_agv_hold_b x : NO x -> JH x -> agv_hold_b x = true.
Proof.
  intros N [[_ [[_ [A _]] _]] Hd]. unfold agv_hold_b. apply forallb_forall. intros ts Hin. apply In_nth_error in Hin. destruct Hin as [t Ht].
  pose proof (A _ _ (tview_of _ _ _ Ht)) as Q0. unfold holds_ok in Q0; simpl in Q0.
  pose proof (no_trans _ N _ _ Ht) as Nt.
  destruct (t_st ts) eqn:Es.
  - rewrite Q0. simpl. destruct Nt as [_ Nt]. rewrite (Nt (or_introl Es)). reflexivity.
  - rewrite Q0. reflexivity.
  - rewrite Q0. reflexivity.
  - destruct Q0 as [j Q0]. rewrite Q0. rewrite (Hd t _ _ _ _ j (tview_of _ _ _ Ht)); [simpl; apply Nat.eqb_refl|rewrite Q0; left; reflexivity].
  - rewrite Q0. reflexivity.
  - rewrite Q0. reflexivity.
Qed.

Lemma fresh2_HOLD x : fresh2_b i x = true -> HOLD x.
Proof.
  intros Fr t st l loc jb j Hv Hin. unfold fresh2_b in Fr. apply andb_true_iff in Fr. destruct Fr as [_ F3].
  unfold tview in Hv. destruct (nth_error (s_trans x) t) as [ts|] eqn:E; [|discriminate]. simpl in Hv. inversion Hv; subst.
  pose proof (forallb_nth _ _ _ _ F3 E) as Q0. simpl in Q0. apply andb_true_iff in Q0. destruct Q0 as [_ Q0].
  destruct (b_store (t_buf ts)); [destruct Hin|discriminate].
Qed.

Theorem run_agv_hold fuel x0 joker0 ta r m :
  clock_b x0 = true -> wfs_b i x0 = true -> fresh2_b i x0 = true -> nodep_b x0 = true ->
  reach sigma i fuel x0 joker0 ta r m -> agv_hold_b (r_x r) = true.
Proof.
  intros C W Fr Dn H. apply NO_iff_clock_b in C.
  assert (J0 : JH x0) by (split; [apply J_init; auto|apply fresh2_HOLD; auto]).
  destruct (reach_reachG sigma i Hnn JH Q side2 (fun _ => offer_shape) BI JH_apply JH_now EH_end BI_now QH_timed QH_timed0 QH_offer (offers_shape' i) _ _ _ _ _ _ C J0 (BI_init _ Dn) H) as [_ [_ [xq [Nq [Jq [E|[_ [z E]]]]]]]]; rewrite E.
  - apply JH_agv_hold_b; auto.
  - exact (JH_agv_hold_b _ Nq Jq).
Qed.

End H.
