(* C12: the clock invariant "nothing pending lies in the past" (I4) is preserved by every transition
   and by the time machines; simulated time never decreases while an episode runs. No side condition. *)
From Coq Require Import List ZArith Bool Arith Lia.
From JSL Require Import Base.Res Base.ListX SM.Types SM.Util SM.Handler SM.Step SM.Middleware SM.Inv
  SMP.ListLemmas SMP.Frame SMP.WF SMP.Preserve.
Import ListNotations.
Close Scope Z_scope.

(* ---------- non-negative durations ---------- *)
Definition tc_nonneg (c : tcfg) : bool := match c with Det z => (0 <=? z)%Z | Stoch _ => true end.

Definition inst_nonneg_b (i : inst) : bool :=
  forallb (forallb (fun oc => tc_nonneg (oc_dur oc))) (i_jobs i)
  && forallb (fun mc => forallb (fun e => tc_nonneg (snd e)) (mc_setup mc)
                        && forallb (fun o => tc_nonneg (og_dur o)) (mc_out mc)) (i_machs i)
  && forallb (fun ac => forallb (fun o => tc_nonneg (og_dur o)) (ac_out ac)) (i_trans i)
  && forallb (fun e => tc_nonneg (snd e)) (i_travel i).

Definition sto_nonneg (sto : list (Z * nat)) : Prop := forall v k, In (v, k) sto -> (0 <= v)%Z.
Definition sto_nonneg_b (sto : list (Z * nat)) : bool := forallb (fun p => (0 <=? fst p)%Z) sto.

Lemma sto_nonneg_b_spec sto : sto_nonneg_b sto = true <-> sto_nonneg sto.
Proof.
  unfold sto_nonneg_b, sto_nonneg. rewrite forallb_forall. split.
  - intros H v k Hin. specialize (H _ Hin). simpl in H. apply Z.leb_le; auto.
  - intros H [v k] Hin. simpl. apply Z.leb_le. eauto.
Qed.

Section Sto.
Variable sigma : oracle.

Lemma sto_read_nonneg sto id v : sto_nonneg sto -> sto_read sto id = Ok v -> (0 <= v)%Z.
Proof.
  unfold sto_read. intros H. destruct (nth_error sto id) as [[v' k]|] eqn:E; intros Hr; inversion Hr; subst.
  eapply H. eapply nth_error_In; eauto.
Qed.

Lemma sto_update_nonneg sto id sto' : sto_nonneg sto -> sto_update sigma sto id = Ok sto' -> sto_nonneg sto'.
Proof.
  unfold sto_update. intros H. destruct (nth_error sto id) as [[v' k]|] eqn:E; intros Hr; inversion Hr; subst.
  intros v k0 Hin. apply In_upd in Hin. destruct Hin as [Eq|Hin]; [inversion Eq; lia|eauto].
Qed.

Lemma tc_read_nonneg sto c v : sto_nonneg sto -> tc_nonneg c = true -> tc_read sto c = Ok v -> (0 <= v)%Z.
Proof.
  destruct c; simpl; intros H Hc Hr.
  - inversion Hr; subst. apply Z.leb_le; auto.
  - eapply sto_read_nonneg; eauto.
Qed.

Lemma tc_update_read_nonneg sto c v sto' :
  sto_nonneg sto -> tc_nonneg c = true -> tc_update_read sigma sto c = Ok (v, sto') -> (0 <= v)%Z /\ sto_nonneg sto'.
Proof.
  destruct c; simpl; intros H Hc Hr.
  - inversion Hr; subst. split; auto. apply Z.leb_le; auto.
  - destruct (sto_update sigma sto id) as [s1|] eqn:E1; simpl in Hr; [|discriminate].
    destruct (sto_read s1 id) as [v1|] eqn:E2; simpl in Hr; [|discriminate].
    inversion Hr; subst. pose proof (sto_update_nonneg _ _ _ H E1). split; auto. eapply sto_read_nonneg; eauto.
Qed.

Lemma tc_read_update_nonneg sto c v sto' :
  sto_nonneg sto -> tc_nonneg c = true -> tc_read_update sigma sto c = Ok (v, sto') -> (0 <= v)%Z /\ sto_nonneg sto'.
Proof.
  destruct c; simpl; intros H Hc Hr.
  - inversion Hr; subst. split; auto. apply Z.leb_le; auto.
  - destruct (sto_read sto id) as [v1|] eqn:E2; simpl in Hr; [|discriminate].
    destruct (sto_update sigma sto id) as [s1|] eqn:E1; simpl in Hr; [|discriminate].
    inversion Hr; subst. split; [eapply sto_read_nonneg; eauto|eapply sto_update_nonneg; eauto].
Qed.

(* sampled outages: untouched or started now with non-negative length *)
Definition oact_fresh (now : Z) (o : oact) : Prop :=
  match o with OActive (Time s) (Time e) => s = now /\ (s <= e)%Z | OActive _ _ => False | OInactive _ => True end.

Lemma sample_outage_ok now sto c o o' sto' :
  sto_nonneg sto -> tc_nonneg (og_dur c) = true -> sample_outage sigma now sto c o = Ok (o', sto') ->
  oact_fresh now o' /\ sto_nonneg sto'.
Proof.
  intros Hs Hc H. unfold sample_outage in H. destruct o as [s e|l]; [discriminate|].
  destruct (og_freq c) as [f|id].
  - simpl in H. destruct (now - match l with NoTime => 0 | Time z => z end <=? f)%Z.
    + destruct (tc_update_read sigma sto (og_dur c)) as [[d s2]|] eqn:E; simpl in H; [|discriminate].
      inversion H; subst. destruct (tc_update_read_nonneg _ _ _ _ Hs Hc E). split; auto. simpl. lia.
    + inversion H; subst. simpl. auto.
  - destruct (sto_read sto id) as [v|] eqn:Er; simpl in H; [|discriminate].
    destruct (v <? now - match l with NoTime => 0 | Time z => z end)%Z.
    + destruct (sto_update sigma sto id) as [s1|] eqn:Eu; simpl in H; [|discriminate].
      pose proof (sto_update_nonneg _ _ _ Hs Eu) as Hs1.
      destruct (tc_update_read sigma s1 (og_dur c)) as [[d s2]|] eqn:E; simpl in H; [|discriminate].
      inversion H; subst. destruct (tc_update_read_nonneg _ _ _ _ Hs1 Hc E). split; auto. simpl. lia.
    + simpl in H. inversion H; subst. simpl. auto.
Qed.

Lemma new_outage_states_ok now : forall cs sto os outs sto',
  sto_nonneg sto -> forallb (fun o => tc_nonneg (og_dur o)) cs = true ->
  new_outage_states sigma now sto cs os = Ok (outs, sto') ->
  Forall (oact_fresh now) outs /\ sto_nonneg sto'.
Proof.
  induction cs as [|c cs IH]; intros sto os outs sto' Hs Hc H; simpl in H.
  - inversion H; subst. split; auto.
  - destruct os as [|o os]; [discriminate|]. simpl in Hc. apply andb_true_iff in Hc. destruct Hc as [Hc1 Hc2].
    destruct (sample_outage sigma now sto c o) as [[o' s1]|] eqn:E1; simpl in H; [|discriminate].
    destruct (sample_outage_ok _ _ _ _ _ _ Hs Hc1 E1) as [F1 Hs1].
    destruct (new_outage_states sigma now s1 cs os) as [[r s2]|] eqn:E2; simpl in H; [|discriminate].
    inversion H; subst. destruct (IH _ _ _ _ Hs1 Hc2 E2). split; auto.
Qed.

Lemma active_lengths_nonneg now : forall outs l,
  Forall (oact_fresh now) outs -> active_lengths outs = Ok l -> Forall (fun z => (0 <= z)%Z) l.
Proof.
  induction outs as [|o outs IH]; intros l HF H; simpl in H.
  - inversion H; subst. constructor.
  - inversion HF; subst. destruct o as [[|s] [|e]|lt]; simpl in *; try discriminate; try tauto.
    + destruct (active_lengths outs) as [l1|] eqn:E; simpl in H; [|discriminate]. inversion H; subst.
      constructor; [lia|]. eauto.
    + eauto.
Qed.

Lemma fold_max_ge l : forall h, (h <= fold_left Z.max l h)%Z.
Proof. induction l as [|a l IH]; intros h; simpl; [lia|]. specialize (IH (Z.max h a)). lia. Qed.

Lemma occupied_time_nonneg now outs v :
  Forall (oact_fresh now) outs -> occupied_time outs = Ok v -> (0 <= v)%Z.
Proof.
  intros HF H. unfold occupied_time in H.
  destruct (active_lengths outs) as [l|] eqn:E; simpl in H; [|discriminate].
  pose proof (active_lengths_nonneg _ _ _ HF E) as Hl. inversion H; subst.
  destruct l as [|h t]; [lia|]. inversion Hl; subst. pose proof (fold_max_ge t h). lia.
Qed.

End Sto.

(* ---------- the clock invariant ---------- *)
Definition trans_clock_ok (now : Z) (ts : transport) : Prop :=
  (t_st ts <> TIdle -> match t_occ ts with OAt z => (now <= z)%Z | ODep _ _ _ => True | ONo => False end)
  /\ ((t_st ts = TIdle \/ t_st ts = TOutage) -> t_job ts = None).

Definition op_clock_ok (now : Z) (o : op) : Prop :=
  o_st o = OProc -> exists z, o_end o = Time z /\ (now <= z)%Z.

Record NO (x : state) : Prop := {
  no_ops : forall j jb o, nth_error (s_jobs x) j = Some jb -> In o (j_ops jb) -> op_clock_ok (s_now x) o;
  no_trans : forall t ts, nth_error (s_trans x) t = Some ts -> trans_clock_ok (s_now x) ts;
  no_sto : sto_nonneg (s_sto x)
}.

(* generic update lemma: new operation records / transport records must be fine, old ones are *)
Lemma NO_update x x' :
  NO x -> s_now x' = s_now x -> sto_nonneg (s_sto x') ->
  (forall k kb' o, nth_error (s_jobs x') k = Some kb' -> In o (j_ops kb') ->
      (exists kb, nth_error (s_jobs x) k = Some kb /\ In o (j_ops kb)) \/ op_clock_ok (s_now x) o) ->
  (forall t ts', nth_error (s_trans x') t = Some ts' ->
      (exists ts, nth_error (s_trans x) t = Some ts /\ trans_ctl_eq ts' ts) \/ trans_clock_ok (s_now x) ts') ->
  NO x'.
Proof.
  intros N Hn Hs Hj Ht. constructor; auto.
  - intros j jb o Hjb Ho. rewrite Hn. destruct (Hj _ _ _ Hjb Ho) as [[kb [H1 H2]]|H]; auto.
    eapply no_ops; eauto.
  - intros t ts' Hts. rewrite Hn. destruct (Ht _ _ Hts) as [[ts [H1 [E1 [E2 [E3 [E4 E5]]]]]]|H]; auto.
    pose proof (no_trans _ N _ _ H1) as [A B]. unfold trans_clock_ok. rewrite E1, E2, E4. split; auto.
Qed.

Section Pres.
Variable sigma : oracle.
Variable i : inst.
Hypothesis Hnn : inst_nonneg_b i = true.

Lemma nn_parts :
  forallb (forallb (fun oc => tc_nonneg (oc_dur oc))) (i_jobs i) = true
  /\ forallb (fun mc => forallb (fun e => tc_nonneg (snd e)) (mc_setup mc)
                        && forallb (fun o => tc_nonneg (og_dur o)) (mc_out mc)) (i_machs i) = true
  /\ forallb (fun ac => forallb (fun o => tc_nonneg (og_dur o)) (ac_out ac)) (i_trans i) = true
  /\ forallb (fun e => tc_nonneg (snd e)) (i_travel i) = true.
Proof. unfold inst_nonneg_b in Hnn. rewrite !andb_true_iff in Hnn. tauto. Qed.

Lemma opcfg_nonneg j k oc : get_opcfg i j k = Ok oc -> tc_nonneg (oc_dur oc) = true.
Proof.
  unfold get_opcfg. destruct (nth_error (i_jobs i) j) as [ops|] eqn:E; [|discriminate]. intros H.
  apply of_opt_ok in H. destruct nn_parts as [H1 _].
  pose proof (forallb_nth _ _ _ _ H1 E) as H2. simpl in H2. exact (forallb_nth _ _ _ _ H2 H).
Qed.

Lemma setup_lookup_in st a b c : setup_lookup st a b = Some c -> In ((a, b), c) st \/ exists a' b', In ((a', b'), c) st.
Proof.
  induction st as [|[[p q] c'] r IH]; simpl; [discriminate|].
  destruct (Nat.eqb p a && Nat.eqb q b); intros H.
  - inversion H; subst. right. eauto.
  - destruct (IH H) as [H1|[a' [b' H1]]]; right; eauto.
Qed.

Lemma setup_nonneg m mc a b c :
  nth_error (i_machs i) m = Some mc -> setup_lookup (mc_setup mc) a b = Some c -> tc_nonneg c = true.
Proof.
  intros Hm Hl. destruct nn_parts as [_ [H2 _]]. pose proof (forallb_nth _ _ _ _ H2 Hm) as H. simpl in H.
  apply andb_true_iff in H. destruct H as [H _]. rewrite forallb_forall in H.
  destruct (setup_lookup_in _ _ _ _ Hl) as [Hin|[a' [b' Hin]]]; apply H in Hin; auto.
Qed.

Lemma travel_lookup_in tt a b c : travel_lookup tt a b = Some c -> exists k, In (k, c) tt.
Proof.
  induction tt as [|[[p q] c'] r IH]; simpl; [discriminate|].
  destruct (place_eqb p a && place_eqb q b); intros H.
  - inversion H; subst. eauto.
  - destruct (IH H) as [k Hk]. eauto.
Qed.

Lemma travel_nonneg a b c : travel_lookup (i_travel i) a b = Some c -> tc_nonneg c = true.
Proof.
  intros Hl. destruct nn_parts as [_ [_ [_ H4]]]. rewrite forallb_forall in H4.
  destruct (travel_lookup_in _ _ _ _ Hl) as [k Hk]. apply H4 in Hk. auto.
Qed.

Lemma mach_out_nonneg m mc : nth_error (i_machs i) m = Some mc -> forallb (fun o => tc_nonneg (og_dur o)) (mc_out mc) = true.
Proof.
  intros Hm. destruct nn_parts as [_ [H2 _]]. pose proof (forallb_nth _ _ _ _ H2 Hm) as H. simpl in H.
  apply andb_true_iff in H. tauto.
Qed.

Lemma trans_out_nonneg t ac : nth_error (i_trans i) t = Some ac -> forallb (fun o => tc_nonneg (og_dur o)) (ac_out ac) = true.
Proof. intros Hm. destruct nn_parts as [_ [_ [H3 _]]]. exact (forallb_nth _ _ _ _ H3 Hm). Qed.

(* jobs after a move: same operation records *)
Lemma move_job_ops x j A B x1 : A <> B -> move_job i x j A B = Ok x1 ->
  forall k kb', nth_error (s_jobs x1) k = Some kb' -> exists kb, nth_error (s_jobs x) k = Some kb /\ j_ops kb' = j_ops kb.
Proof.
  intros Hne H k kb' Hk. pose proof (move_job_moved i _ _ _ _ _ Hne H) as M.
  destruct (mv_job _ _ _ _ _ _ M) as [jb [Hj Hjobs]]. rewrite Hjobs, nth_upd in Hk.
  destruct (Nat.eqb_spec j k) as [->|Hnk].
  - destruct (Nat.ltb k (length (s_jobs x))); inversion Hk; subst. eauto.
  - eauto.
Qed.

Lemma put_job_ops x j jb jb1 k kb' o :
  nth_error (s_jobs x) j = Some jb ->
  (forall o, In o (j_ops jb1) -> In o (j_ops jb) \/ op_clock_ok (s_now x) o) ->
  nth_error (s_jobs (put_job x j jb1)) k = Some kb' -> In o (j_ops kb') ->
  (exists kb, nth_error (s_jobs x) k = Some kb /\ In o (j_ops kb)) \/ op_clock_ok (s_now x) o.
Proof.
  intros Hj Hops Hk Ho. unfold put_job in Hk; simpl in Hk. rewrite nth_upd in Hk.
  destruct (Nat.eqb_spec j k) as [->|Hnk].
  - destruct (Nat.ltb k (length (s_jobs x))); inversion Hk; subst.
    destruct (Hops _ Ho); eauto.
  - eauto.
Qed.

Lemma set_op_ops jb k o' o now :
  op_clock_ok now o' -> In o (j_ops (set_op jb k o')) -> In o (j_ops jb) \/ op_clock_ok now o.
Proof. intros Ho' Hin. unfold set_op in Hin; simpl in Hin. apply In_upd in Hin. destruct Hin; subst; auto. Qed.

(* machine handlers do not touch transports *)
Lemma mach_ctl_trans x m st oc tool outs : s_trans (set_mach_ctl x m st oc tool outs) = s_trans x.
Proof. apply set_mach_ctl_other. Qed.

Ltac finish_trans_same :=
  intros t ts' Hts; left; eexists; split; [eauto|apply trans_ctl_eq_refl].

Lemma pres_NO_m_idle_setup x tr m ms x' : NO x -> h_m_idle_setup sigma i x tr m ms = Ok x' -> NO x'.
Proof.
  intros N H. unfold h_m_idle_setup in H. inv_all H. inversion H; subst; clear H.
  apply get_job_ok in E0.
  assert (Hsc : tc_nonneg v5 = true) by (apply of_opt_ok in E4, E5; eapply setup_nonneg; eauto).
  destruct (tc_read_update_nonneg _ _ _ _ _ (no_sto _ N) Hsc E6) as [Hz Hs'].
  assert (Hne : BPre m <> BIn m) by congruence.
  pose proof (move_job_moved i _ _ _ _ _ Hne E7) as M.
  apply NO_update with (x := x); auto.
  - simpl. destruct (set_mach_ctl_other v6 m MSetup (Time (s_now x + z)) (oc_tool v3) (m_out ms)) as [_ [Hn _]].
    rewrite Hn, (mv_now _ _ _ _ _ _ M). reflexivity.
  - intros k kb' o Hk Ho. simpl in Hk.
    destruct (set_mach_ctl_other v6 m MSetup (Time (s_now x + z)) (oc_tool v3) (m_out ms)) as [Hj _].
    rewrite Hj in Hk. destruct (move_job_ops _ _ _ _ _ Hne E7 _ _ Hk) as [kb [Hkb Eo]]. rewrite Eo in Ho.
    refine (put_job_ops _ _ _ _ _ _ _ E0 _ Hkb Ho). intros o0 Ho0. eapply set_op_ops; [|exact Ho0].
    intros _. simpl. eexists; split; eauto. lia.
  - intros t ts' Hts. simpl in Hts. rewrite mach_ctl_trans in Hts.
    destruct (mv_trans _ _ _ _ _ _ M _ _ Hts) as [ts [H1 H2]]. left. exists ts. split; auto.
Qed.

Lemma pres_NO_m_setup_working x tr m ms x' : NO x -> h_m_setup_working sigma i x tr m ms = Ok x' -> NO x'.
Proof.
  intros N H. unfold h_m_setup_working in H. inv_all H. inversion H; subst; clear H.
  apply get_job_ok in E0.
  pose proof (opcfg_nonneg _ _ _ E3) as Hd.
  destruct (tc_update_read_nonneg _ _ _ _ _ (no_sto _ N) Hd E4) as [Hz Hs'].
  apply NO_update with (x := x); auto.
  - simpl. destruct (set_mach_ctl_other (put_job x v (set_op v0 v2 (mkOp m (Time (s_now x)) (Time (s_now x + z)) OProc)))
                       m MWorking (Time (s_now x + z)) (m_tool ms) (m_out ms)) as [_ [Hn _]]. rewrite Hn. reflexivity.
  - intros k kb' o Hk Ho. simpl in Hk.
    destruct (set_mach_ctl_other (put_job x v (set_op v0 v2 (mkOp m (Time (s_now x)) (Time (s_now x + z)) OProc)))
                m MWorking (Time (s_now x + z)) (m_tool ms) (m_out ms)) as [Hj _]. rewrite Hj in Hk.
    refine (put_job_ops _ _ _ _ _ _ _ E0 _ Hk Ho). intros o0 Ho0. eapply set_op_ops; [|exact Ho0].
    intros _. simpl. eexists; split; eauto. lia.
  - intros t ts' Hts. simpl in Hts. rewrite mach_ctl_trans in Hts. left. eexists; split; eauto. apply trans_ctl_eq_refl.
Qed.

Lemma pres_NO_m_working_outage x tr m ms x' : NO x -> h_m_working_outage sigma i x tr m ms = Ok x' -> NO x'.
Proof.
  intros N H. unfold h_m_working_outage in H. inv_all H. inversion H; subst; clear H.
  apply get_job_ok in E3. apply of_opt_ok in E.
  destruct (new_outage_states_ok _ _ _ _ _ _ _ (no_sto _ N) (mach_out_nonneg _ _ E) E0) as [HF Hs'].
  pose proof (occupied_time_nonneg _ _ _ HF E1) as Hz.
  apply NO_update with (x := x); auto.
  - simpl. match goal with |- s_now (set_mach_ctl ?y ?a ?b ?c ?d ?e) = _ =>
      destruct (set_mach_ctl_other y a b c d e) as [_ [Hn _]]; rewrite Hn end. reflexivity.
  - intros k kb' o Hk Ho. simpl in Hk.
    match type of Hk with nth_error (s_jobs (set_mach_ctl ?y ?a ?b ?c ?d ?e)) _ = _ =>
      destruct (set_mach_ctl_other y a b c d e) as [Hj _]; rewrite Hj in Hk end.
    refine (put_job_ops _ _ _ _ _ _ _ E3 _ Hk Ho). intros o0 Ho0. eapply set_op_ops; [|exact Ho0].
    intros _. simpl. eexists; split; eauto. lia.
  - intros t ts' Hts. simpl in Hts. rewrite mach_ctl_trans in Hts. left. eexists; split; eauto. apply trans_ctl_eq_refl.
Qed.

Lemma pres_NO_m_outage_idle x tr m ms x' : NO x -> h_m_outage_idle i x tr m ms = Ok x' -> NO x'.
Proof.
  intros N H. unfold h_m_outage_idle in H. inv_all H. inversion H; subst; clear H.
  apply get_job_ok in E0.
  assert (Hne : BIn m <> BPost m) by congruence.
  pose proof (move_job_moved i _ _ _ _ _ Hne E4) as M.
  apply NO_update with (x := x); auto.
  - match goal with |- s_now (set_mach_ctl ?y ?a ?b ?c ?d ?e) = _ =>
      destruct (set_mach_ctl_other y a b c d e) as [_ [Hn _]]; rewrite Hn end.
    rewrite (mv_now _ _ _ _ _ _ M). reflexivity.
  - match goal with |- sto_nonneg (s_sto (set_mach_ctl ?y ?a ?b ?c ?d ?e)) =>
      destruct (set_mach_ctl_other y a b c d e) as [_ [_ [_ [_ [Hs _]]]]]; rewrite Hs end.
    rewrite (mv_sto _ _ _ _ _ _ M). simpl. apply N.
  - intros k kb' o Hk Ho.
    match type of Hk with nth_error (s_jobs (set_mach_ctl ?y ?a ?b ?c ?d ?e)) _ = _ =>
      destruct (set_mach_ctl_other y a b c d e) as [Hj _]; rewrite Hj in Hk end.
    destruct (move_job_ops _ _ _ _ _ Hne E4 _ _ Hk) as [kb [Hkb Eo]]. rewrite Eo in Ho.
    refine (put_job_ops _ _ _ _ _ _ _ E0 _ Hkb Ho). intros o0 Ho0. eapply set_op_ops; [|exact Ho0].
    intros Hc. simpl in Hc. discriminate.
  - intros t ts' Hts. rewrite mach_ctl_trans in Hts.
    destruct (mv_trans _ _ _ _ _ _ M _ _ Hts) as [ts [H1 H2]]. left. exists ts. split; auto.
Qed.

Lemma pres_NO_machine x tr m x' : NO x -> handle_machine_transition sigma i x tr m = Ok x' -> NO x'.
Proof.
  intros W H. unfold handle_machine_transition in H. inv1 H.
  destruct (m_st v), (tr_new tr) as [[]|[]]; try discriminate.
  - eapply pres_NO_m_idle_setup; eauto.
  - eapply pres_NO_m_setup_working; eauto.
  - eapply pres_NO_m_working_outage; eauto.
  - eapply pres_NO_m_outage_idle; eauto.
Qed.

(* ---------- transports ---------- *)

(* transports after set_trans_ctl: the updated one or an old one *)
Lemma trans_after_ctl x t st oc loc jb outs k ts' :
  nth_error (s_trans (set_trans_ctl x t st oc loc jb outs)) k = Some ts' ->
  (exists ts, nth_error (s_trans x) k = Some ts /\ ts' = ts /\ k <> t)
  \/ (k = t /\ exists ts, nth_error (s_trans x) t = Some ts /\ ts' = mkTransport st oc (t_buf ts) loc jb outs).
Proof.
  rewrite set_trans_ctl_nth. destruct (nth_error (s_trans x) k) as [ts|] eqn:E; [|discriminate].
  destruct (Nat.eqb_spec t k) as [->|Hne]; intros H; inversion H; subst; clear H.
  - right. split; auto. eauto.
  - left. eexists. repeat split; eauto.
Qed.

Lemma jobs_after_trans_ctl x t st oc loc jb outs : s_jobs (set_trans_ctl x t st oc loc jb outs) = s_jobs x.
Proof. apply set_trans_ctl_other. Qed.

(* a transport-control update with a fine new record preserves NO *)
Lemma NO_set_trans_ctl x t st oc loc jb outs :
  NO x -> (forall ts, nth_error (s_trans x) t = Some ts -> trans_clock_ok (s_now x) (mkTransport st oc (t_buf ts) loc jb outs)) ->
  NO (set_trans_ctl x t st oc loc jb outs).
Proof.
  intros N Hnew. destruct (set_trans_ctl_other x t st oc loc jb outs) as [Hj [Hn [_ [_ [Hs _]]]]].
  apply NO_update with (x := x); auto.
  - rewrite Hs. apply N.
  - intros k kb' o Hk Ho. rewrite Hj in Hk. left. eauto.
  - intros k ts' Hk. destruct (trans_after_ctl _ _ _ _ _ _ _ _ _ Hk) as [[ts [H1 [H2 _]]]|[-> [ts [H1 H2]]]]; subst.
    + left. exists ts. split; auto. apply trans_ctl_eq_refl.
    + right. auto.
Qed.

Lemma NO_set_sto x s : NO x -> sto_nonneg s -> NO (set_sto x s).
Proof.
  intros N Hs. apply NO_update with (x := x); auto.
  - intros k kb' o Hk Ho. left. eauto.
  - intros t ts' Ht. left. exists ts'. split; auto. apply trans_ctl_eq_refl.
Qed.

(* _get_waiting_time returns a value that is not in the past *)
Lemma waiting_time_ok x tr oc :
  NO x -> get_waiting_time i x tr = Ok oc ->
  match oc with OAt z => (s_now x <= z)%Z | ODep _ _ _ => True | ONo => False end.
Proof.
  intros N H. unfold get_waiting_time in H. inv1 H. inv1 H. inv1 H.
  apply get_job_ok in E0.
  destruct (j_loc v0) as [n|m|m|m|t].
  - inversion H; subst. lia.
  - inv1 H. destruct (mem_nat v (b_store (m_post v2))).
    + inv1 H. destruct v3.
      * inversion H; subst; lia.
      * inv1 H. inv1 H. destruct (job_is_done i v4); [inversion H; subst; lia|].
        destruct (first_transport_with_job x v3) as [t0|] eqn:Ef; inversion H; subst; auto.
        unfold first_transport_with_job in Ef. apply find_some in Ef. destruct Ef as [Hin Hj].
        apply In_nth_error in Hin. destruct Hin as [n Hn]. pose proof (no_trans _ N _ _ Hn) as [A B].
        assert (Hst : t_st t0 <> TIdle).
        { intros Hi. specialize (B (or_introl Hi)). rewrite B in Hj. discriminate. }
        specialize (A Hst). destruct (t_occ t0); auto.
    + inv1 H. inv1 H. inversion H; subst. apply of_opt_ok in E3, E4.
      apply find_idx_some in E3. destruct E3 as [a [Ha [Hp _]]]. rewrite Ha in E4. inversion E4; subst.
      apply nth_error_In in Ha. unfold is_ostate in Hp.
      assert (Hs : o_st v4 = OProc) by (destruct (o_st v4); simpl in Hp; try discriminate; auto).
      destruct (no_ops _ N _ _ _ E0 Ha Hs) as [z [Ez Hz]]. rewrite Ez. simpl. auto.
  - inv1 H. destruct (mem_nat v (b_store (m_post v2))).
    + inv1 H. destruct v3.
      * inversion H; subst; lia.
      * inv1 H. inv1 H. destruct (job_is_done i v4); [inversion H; subst; lia|].
        destruct (first_transport_with_job x v3) as [t0|] eqn:Ef; inversion H; subst; auto.
        unfold first_transport_with_job in Ef. apply find_some in Ef. destruct Ef as [Hin Hj].
        apply In_nth_error in Hin. destruct Hin as [n Hn]. pose proof (no_trans _ N _ _ Hn) as [A B].
        assert (Hst : t_st t0 <> TIdle).
        { intros Hi. specialize (B (or_introl Hi)). rewrite B in Hj. discriminate. }
        specialize (A Hst). destruct (t_occ t0); auto.
    + inv1 H. inv1 H. inversion H; subst. apply of_opt_ok in E3, E4.
      apply find_idx_some in E3. destruct E3 as [a [Ha [Hp _]]]. rewrite Ha in E4. inversion E4; subst.
      apply nth_error_In in Ha. unfold is_ostate in Hp.
      assert (Hs : o_st v4 = OProc) by (destruct (o_st v4); simpl in Hp; try discriminate; auto).
      destruct (no_ops _ N _ _ _ E0 Ha Hs) as [z [Ez Hz]]. rewrite Ez. simpl. auto.
  - inv1 H. destruct (mem_nat v (b_store (m_post v2))).
    + inv1 H. destruct v3.
      * inversion H; subst; lia.
      * inv1 H. inv1 H. destruct (job_is_done i v4); [inversion H; subst; lia|].
        destruct (first_transport_with_job x v3) as [t0|] eqn:Ef; inversion H; subst; auto.
        unfold first_transport_with_job in Ef. apply find_some in Ef. destruct Ef as [Hin Hj].
        apply In_nth_error in Hin. destruct Hin as [n Hn]. pose proof (no_trans _ N _ _ Hn) as [A B].
        assert (Hst : t_st t0 <> TIdle).
        { intros Hi. specialize (B (or_introl Hi)). rewrite B in Hj. discriminate. }
        specialize (A Hst). destruct (t_occ t0); auto.
    + inv1 H. inv1 H. inversion H; subst. apply of_opt_ok in E3, E4.
      apply find_idx_some in E3. destruct E3 as [a [Ha [Hp _]]]. rewrite Ha in E4. inversion E4; subst.
      apply nth_error_In in Ha. unfold is_ostate in Hp.
      assert (Hs : o_st v4 = OProc) by (destruct (o_st v4); simpl in Hp; try discriminate; auto).
      destruct (no_ops _ N _ _ _ E0 Ha Hs) as [z [Ez Hz]]. rewrite Ez. simpl. auto.
  - discriminate.
Qed.

Lemma pres_NO_t_waiting_waiting x tr t ts x' :
  NO x -> nth_error (s_trans x) t = Some ts -> t_st ts <> TIdle -> t_st ts <> TOutage ->
  h_t_waiting_waiting i x tr t ts = Ok x' -> NO x'.
Proof.
  intros N Hts Hi Ho H. unfold h_t_waiting_waiting in H. inv1 H. inversion H; subst.
  pose proof (waiting_time_ok _ _ _ N E) as Hoc.
  apply NO_set_trans_ctl; auto. intros ts0 H0. split; simpl.
  - intros _. exact Hoc.
  - intros [Hc|Hc]; discriminate.
Qed.

Lemma pres_NO_t_pickup_waiting x tr t ts x' :
  NO x -> h_t_pickup_waiting i x tr t ts = Ok x' -> NO x'.
Proof.
  intros N H. unfold h_t_pickup_waiting in H. inv1 H. inv1 H. inversion H; subst.
  pose proof (waiting_time_ok _ _ _ N E0) as Hoc.
  apply NO_set_trans_ctl; auto. intros ts0 H0. split; simpl.
  - intros _. exact Hoc.
  - intros [Hc|Hc]; discriminate.
Qed.

Lemma pres_NO_t_idle_working x tr t ts x' : NO x -> h_t_idle_working i x tr t ts = Ok x' -> NO x'.
Proof.
  intros N H. unfold h_t_idle_working in H. inv_all H. inversion H; subst.
  apply of_opt_ok in E5. pose proof (travel_nonneg _ _ _ E5) as Hc.
  pose proof (tc_read_nonneg _ _ _ (no_sto _ N) Hc E6) as Hz.
  apply NO_set_trans_ctl; auto. intros ts0 H0. split; simpl.
  - intros _. lia.
  - intros [Hc'|Hc']; discriminate.
Qed.

Lemma pres_NO_t_outage_idle x tr t ts x' :
  NO x -> nth_error (s_trans x) t = Some ts -> t_st ts = TOutage -> h_t_outage_idle x tr t ts = Ok x' -> NO x'.
Proof.
  intros N Hts Hst H. unfold h_t_outage_idle in H. inversion H; subst.
  pose proof (no_trans _ N _ _ Hts) as [A B].
  apply NO_set_trans_ctl; auto. intros ts0 H0. split; simpl.
  - intros Hc; congruence.
  - intros _. apply B. auto.
Qed.

Lemma travel_from_spec_nonneg sto a b v sto' :
  sto_nonneg sto -> travel_from_spec sigma i sto a b = Ok (v, sto') -> (0 <= v)%Z /\ sto_nonneg sto'.
Proof.
  intros Hs H. unfold travel_from_spec in H.
  destruct a, b; try discriminate;
    (inv1 H; apply of_opt_ok in E; pose proof (travel_nonneg _ _ _ E) as Hc;
     eapply tc_update_read_nonneg; eauto).
Qed.

Lemma pres_NO_t_to_transit x tr t ts x' :
  NO x -> nth_error (s_trans x) t = Some ts -> t_st ts <> TIdle -> t_st ts <> TOutage ->
  h_t_to_transit sigma i x tr t ts = Ok x' -> NO x'.
Proof.
  intros N Hts Hi Ho H. unfold h_t_to_transit in H.
  inv1 H. inv1 H. inv1 H. inv1 H. inv1 H. inv1 H.
  - eapply pres_NO_t_waiting_waiting; eauto.
  - inv_all H. inversion H; subst; clear H.
    match goal with E : travel_from_spec _ _ _ _ _ = Ok _ |- _ =>
      destruct (travel_from_spec_nonneg _ _ _ _ _ (no_sto _ N) E) as [Hz Hs'] end.
    assert (Hne : j_loc v0 <> BAgv t) by (intros Eq; rewrite Eq in *; discriminate).
    match goal with E : move_job _ _ _ _ _ = Ok ?y |- _ =>
      pose proof (move_job_moved i _ _ _ _ _ Hne E) as M; pose proof (move_job_ops _ _ _ _ _ Hne E) as MO;
      assert (N1 : NO y) end.
    { apply NO_update with (x := x); auto.
      - apply (mv_now _ _ _ _ _ _ M).
      - rewrite (mv_sto _ _ _ _ _ _ M). apply N.
      - intros k kb' o Hk Hin. destruct (MO _ _ Hk) as [kb [Hkb Eo]].
        rewrite Eo in Hin. left; eauto.
      - intros k ts' Hk. left. apply (mv_trans _ _ _ _ _ _ M _ _ Hk). }
    apply NO_set_sto; auto.
    apply NO_set_trans_ctl; auto. intros ts0 H0. rewrite (mv_now _ _ _ _ _ _ M). split; simpl.
    + intros _. lia.
    + intros [Hc|Hc]; discriminate.
Qed.
(*
        rewrite Eo in Hin. left; eauto.
      - intros k ts' Hk. left. apply (mv_trans _ _ _ _ _ _ M _ _ Hk). }
    apply NO_set_trans_ctl; auto. intros ts0 H0. rewrite (mv_now _ _ _ _ _ _ M). split; simpl.
    + intros _. lia.
    + intros [Hc|Hc]; discriminate.
Qed. *)

Lemma pres_NO_t_transit_outage x tr t ts x' : NO x -> h_t_transit_outage sigma i x tr t ts = Ok x' -> NO x'.
Proof.
  intros N H. unfold h_t_transit_outage in H. inv_all H. inversion H; subst; clear H.
  match goal with E : of_opt _ (nth_error (i_trans i) t) = Ok _ |- _ => apply of_opt_ok in E; rename E into Eac end.
  match goal with E : new_outage_states _ _ _ _ _ = Ok _ |- _ =>
    destruct (new_outage_states_ok _ _ _ _ _ _ _ (no_sto _ N) (trans_out_nonneg _ _ Eac) E) as [HF Hs'] end.
  match goal with E : occupied_time _ = Ok _ |- _ => pose proof (occupied_time_nonneg _ _ _ HF E) as Hz end.
  match goal with E : move_job _ _ _ (BAgv t) ?B = Ok ?y |- _ =>
    assert (Hne : BAgv t <> B);
    [ match goal with E' : match ?d with PM _ => _ | PB _ => _ | PT _ => _ end = Ok B |- _ =>
        destruct d; inv_all E'; inversion E'; subst; congruence end
    | pose proof (move_job_moved i _ _ _ _ _ Hne E) as M; pose proof (move_job_ops _ _ _ _ _ Hne E) as MO;
      assert (N1 : NO y) ] end.
  { apply NO_update with (x := x); auto.
    - apply (mv_now _ _ _ _ _ _ M).
    - rewrite (mv_sto _ _ _ _ _ _ M). apply N.
    - intros k kb' o Hk Hin. destruct (MO _ _ Hk) as [kb [Hkb Eo]].
      rewrite Eo in Hin. left; eauto.
    - intros k ts' Hk. left. apply (mv_trans _ _ _ _ _ _ M _ _ Hk). }
  apply NO_set_sto; auto.
  apply NO_set_trans_ctl; auto. intros ts0 H0. rewrite (mv_now _ _ _ _ _ _ M). split; simpl.
  - intros _. lia.
  - intros _. reflexivity.
Qed.

Lemma pres_NO_transport x tr t x' : NO x -> handle_transport_transition sigma i x tr t = Ok x' -> NO x'.
Proof.
  intros W H. unfold handle_transport_transition in H. inv1 H. inv1 H. apply get_trans_ok in E.
  destruct (t_st v) eqn:Est, (tr_new tr) as [[]|[]]; try discriminate.
  - eapply pres_NO_t_idle_working; eauto.
  - eapply pres_NO_t_transit_outage; eauto.
  - eapply pres_NO_t_to_transit; eauto; congruence.
  - eapply pres_NO_t_pickup_waiting; eauto.
  - eapply pres_NO_t_transit_outage; eauto.
  - eapply pres_NO_t_outage_idle; eauto.
  - eapply pres_NO_t_to_transit; eauto; congruence.
  - eapply pres_NO_t_waiting_waiting; eauto; congruence.
Qed.

(* every applied transition preserves the clock invariant and leaves the clock alone *)
Theorem apply_preserves_NO x tr x' : NO x -> apply_transition sigma i x tr = Ok x' -> NO x'.
Proof.
  intros W H. unfold apply_transition in H.
  destruct (tr_comp tr) as [m|t|n].
  - destruct (nth_error (s_machs x) m); [|discriminate]. eapply pres_NO_machine; eauto.
  - destruct (nth_error (s_trans x) t); [|discriminate]. eapply pres_NO_transport; eauto.
  - destruct (nth_error (s_bufs x) n); discriminate.
Qed.

(* ---------- time machines ---------- *)
Lemma fold_min_le l : forall h, (fold_left Z.min l h <= h)%Z /\ forall a, In a l -> (fold_left Z.min l h <= a)%Z.
Proof.
  induction l as [|a l IH]; intros h; simpl; [split; [lia|tauto]|].
  destruct (IH (Z.min h a)) as [H1 H2]. split; [lia|]. intros b [->|Hb]; [lia|auto].
Qed.

Lemma fold_min_in l : forall h, fold_left Z.min l h = h \/ In (fold_left Z.min l h) l.
Proof.
  induction l as [|a l IH]; intros h; simpl; auto.
  destruct (IH (Z.min h a)) as [H|H]; auto.
  rewrite H. destruct (Z.min_spec h a) as [[_ E]|[_ E]]; rewrite E; auto.
Qed.

Lemma mapM_in {A B} (f : A -> res B) l r b : mapM f l = Ok r -> In b r -> exists a, In a l /\ f a = Ok b.
Proof.
  revert r; induction l as [|a l IH]; intros r H Hb; simpl in H.
  - inversion H; subst. destruct Hb.
  - destruct (f a) as [b0|] eqn:E; simpl in H; [|discriminate].
    destruct (mapM f l) as [bs|] eqn:E2; simpl in H; [|discriminate]. inversion H; subst.
    destruct Hb as [->|Hb]; [exists a; split; [left|]; auto|].
    destruct (IH _ eq_refl Hb) as [a' [H1 H2]]. exists a'. split; [right|]; auto.
Qed.

Lemma mapM_all {A B} (f : A -> res B) l r a : mapM f l = Ok r -> In a l -> exists b, f a = Ok b /\ In b r.
Proof.
  revert r; induction l as [|a0 l IH]; intros r H Ha; simpl in H; [destruct Ha|].
  destruct (f a0) as [b0|] eqn:E; simpl in H; [|discriminate].
  destruct (mapM f l) as [bs|] eqn:E2; simpl in H; [|discriminate]. inversion H; subst.
  destruct Ha as [->|Ha]; [exists b0; split; auto; left; auto|].
  destruct (IH _ eq_refl Ha) as [b [H1 H2]]. exists b. split; auto. right; auto.
Qed.

(* every pending time is >= now; every PROCESSING end and every non-idle AGV time is pending *)
Lemma pending_ge_now x p z : NO x -> pending_times x = Ok p -> In z p -> (s_now x <= z)%Z.
Proof.
  intros N H Hz. unfold pending_times in H.
  destruct (mapM _ (filter (is_ostate OProc) (flat_map j_ops (s_jobs x)))) as [ops|] eqn:E1; simpl in H; [|discriminate].
  destruct (mapM _ _) as [trs|] eqn:E2 in H; simpl in H; [|discriminate]. inversion H; subst.
  apply in_app_iff in Hz. destruct Hz as [Hz|Hz].
  - destruct (mapM_in _ _ _ _ E1 Hz) as [o [Ho Hf]]. apply filter_In in Ho. destruct Ho as [Ho Hp].
    apply in_flat_map in Ho. destruct Ho as [jb [Hjb Ho]]. apply In_nth_error in Hjb. destruct Hjb as [j Hj].
    unfold is_ostate in Hp. assert (Hs : o_st o = OProc) by (destruct (o_st o); simpl in Hp; try discriminate; auto).
    destruct (no_ops _ N _ _ _ Hj Ho Hs) as [z' [Ez Hle]]. rewrite Ez in Hf. simpl in Hf. inversion Hf; subst. auto.
  - destruct (mapM_in _ _ _ _ E2 Hz) as [ts [Hts Hf]]. apply filter_In in Hts. destruct Hts as [Hts Hd].
    apply filter_In in Hts. destruct Hts as [Hts Hi]. apply In_nth_error in Hts. destruct Hts as [t Ht].
    pose proof (no_trans _ N _ _ Ht) as [A _].
    assert (Hst : t_st ts <> TIdle) by (intros Hc; rewrite Hc in Hi; discriminate).
    specialize (A Hst). destruct (t_occ ts); try discriminate. inversion Hf; subst. auto.
Qed.

Lemma pending_covers_ops x p j jb o : pending_times x = Ok p -> nth_error (s_jobs x) j = Some jb -> In o (j_ops jb) ->
  o_st o = OProc -> exists z, o_end o = Time z /\ In z p.
Proof.
  intros H Hj Ho Hs. unfold pending_times in H.
  destruct (mapM _ (filter (is_ostate OProc) (flat_map j_ops (s_jobs x)))) as [ops|] eqn:E1; simpl in H; [|discriminate].
  destruct (mapM _ _) as [trs|] eqn:E2 in H; simpl in H; [|discriminate]. inversion H; subst.
  assert (Hin : In o (filter (is_ostate OProc) (flat_map j_ops (s_jobs x)))).
  { apply filter_In. split; [apply in_flat_map; exists jb; split; auto; eapply nth_error_In; eauto|].
    unfold is_ostate. rewrite Hs. reflexivity. }
  destruct (mapM_all _ _ _ _ E1 Hin) as [z [Hz Hzin]]. unfold time_z in Hz.
  destruct (o_end o) as [|z']; [discriminate|]. inversion Hz; subst. exists z. split; auto. apply in_app_iff; auto.
Qed.

Lemma pending_covers_trans x p t ts z : pending_times x = Ok p -> nth_error (s_trans x) t = Some ts ->
  t_st ts <> TIdle -> t_occ ts = OAt z -> In z p.
Proof.
  intros H Ht Hs Ho. unfold pending_times in H.
  destruct (mapM _ (filter (is_ostate OProc) (flat_map j_ops (s_jobs x)))) as [ops|] eqn:E1; simpl in H; [|discriminate].
  destruct (mapM _ _) as [trs|] eqn:E2 in H; simpl in H; [|discriminate]. inversion H; subst.
  match type of E2 with mapM _ ?l = _ => assert (Hin : In ts l) end.
  { apply filter_In. split; [apply filter_In; split; [eapply nth_error_In; eauto|]|].
    - destruct (t_st ts); simpl; auto; congruence.
    - rewrite Ho. reflexivity. }
  destruct (mapM_all _ _ _ _ E2 Hin) as [z' [Hz Hzin]]. rewrite Ho in Hz. inversion Hz; subst.
  apply in_app_iff; auto.
Qed.

(* the forcing time machine: never backwards, never past anything pending *)
Lemma force_jump_ok x t : NO x -> force_jump_to_event x = Ok t -> (s_now x <= t)%Z /\ NO (set_now x t).
Proof.
  intros N H. unfold force_jump_to_event in H.
  destruct (pending_times x) as [p|] eqn:Ep; simpl in H; [|discriminate].
  assert (Hge : forall z, In z p -> (s_now x <= z)%Z) by (intros; eapply pending_ge_now; eauto).
  assert (Hmin : (s_now x <= t)%Z /\ forall z, In z p -> (t <= z)%Z).
  { destruct p as [|h r]; inversion H; subst.
    - split; [lia|]. intros z [].
    - simpl. destruct (fold_min_le r h) as [H1 H2]. split.
      + destruct (fold_min_in r h) as [E|Hi]; [rewrite E; apply Hge; left; auto|apply Hge; right; auto].
      + intros z [->|Hz]; auto. }
  destruct Hmin as [Hle Hall]. split; auto.
  constructor; simpl.
  - intros j jb o Hj Ho Hs. destruct (pending_covers_ops _ _ _ _ _ Ep Hj Ho Hs) as [z [Ez Hz]].
    exists z. split; auto.
  - intros k ts Hk. pose proof (no_trans _ N _ _ Hk) as [A B]. split; auto.
    intros Hst. specialize (A Hst). destruct (t_occ ts) eqn:Eo; auto.
    apply Hall. eapply pending_covers_trans; eauto.
  - apply N.
Qed.

Lemma jump_to_event_ok x t : NO x -> jump_to_event i x = Ok t -> (s_now x <= t)%Z /\ NO (set_now x t).
Proof.
  intros N H. unfold jump_to_event in H. inv1 H.
  destruct (Nat.ltb 0 v).
  - inversion H; subst. split; [lia|]. destruct x; simpl; exact N.
  - apply force_jump_ok; auto.
Qed.

Lemma run_tm_ok tm x t : tm <> TMJumpByOne -> NO x -> run_time_machine i tm x = Ok t ->
  (s_now x <= t)%Z /\ NO (set_now x t).
Proof.
  intros Htm N H. destruct tm; simpl in H; [apply jump_to_event_ok|apply force_jump_ok|congruence]; auto.
Qed.

End Pres.
