(* The event clause sampled_ok (SM/Events.v), which the monitors evaluate on every outage-sampling transition of the
   implementation, is true of what the model's sampler returns: the clause never raises an alarm on behaviour that agrees
   with the model. *)
From Coq Require Import List ZArith Bool Arith Lia.
From JSL Require Import Base.Res Base.ListX SM.Types SM.Util SM.Events SMP.ListLemmas SMP.Clock.
Import ListNotations.
Open Scope Z_scope.

Section SO.
Variable sigma : oracle.

Lemma time_eqb_refl t : time_eqb t t = true.
Proof. destruct t; simpl; auto. apply Z.eqb_refl. Qed.

Lemma sample_clause now sto c o o' sto' :
  sto_nonneg sto -> tc_nonneg (og_dur c) = true -> sample_outage sigma now sto c o = Ok (o', sto') ->
  (match o, o' with
   | OInactive l1, OInactive l2 =>
       time_eqb l1 l2 && (match det_due now c o with Some true => false | _ => true end)
   | OInactive _, OActive (Time s) (Time e) =>
       (s =? now) && (s <=? e)
       && (match det_due now c o with Some false => false | _ => true end)
       && (match og_dur c with Det d => e =? now + d | _ => true end)
   | _, _ => false end) = true /\ sto_nonneg sto'.
Proof.
  intros Hs Hc H. unfold sample_outage in H. destruct o as [s e|l]; [discriminate|]. unfold det_due.
  destruct (og_freq c) as [f|id].
  - simpl in H. destruct (now - match l with NoTime => 0 | Time z => z end <=? f) eqn:Ed.
    + destruct (tc_update_read sigma sto (og_dur c)) as [[d s2]|] eqn:E; simpl in H; [|discriminate].
      inversion H; subst. destruct (tc_update_read_nonneg sigma _ _ _ _ Hs Hc E) as [Hd Hs2]. split; auto.
      rewrite Z.eqb_refl. simpl. replace (now <=? now + d) with true by (symmetry; apply Z.leb_le; lia). simpl.
      destruct (og_dur c) as [d0|id0]; [|reflexivity]. simpl in E. inversion E; subst. apply Z.eqb_refl.
    + inversion H; subst. split; auto. rewrite time_eqb_refl. reflexivity.
  - destruct (sto_read sto id) as [v|] eqn:Er; simpl in H; [|discriminate].
    destruct (v <? now - match l with NoTime => 0 | Time z => z end).
    + destruct (sto_update sigma sto id) as [s1|] eqn:Eu; simpl in H; [|discriminate].
      pose proof (sto_update_nonneg sigma _ _ _ Hs Eu) as Hs1.
      destruct (tc_update_read sigma s1 (og_dur c)) as [[d s2]|] eqn:E; simpl in H; [|discriminate].
      inversion H; subst. destruct (tc_update_read_nonneg sigma _ _ _ _ Hs1 Hc E) as [Hd Hs2]. split; auto.
      rewrite Z.eqb_refl. simpl. replace (now <=? now + d) with true by (symmetry; apply Z.leb_le; lia). simpl.
      destruct (og_dur c) as [d0|id0]; [|reflexivity]. simpl in E. inversion E; subst. apply Z.eqb_refl.
    + simpl in H. inversion H; subst. split; auto. rewrite time_eqb_refl. reflexivity.
Qed.

Theorem new_outage_states_sampled_ok now : forall cs sto os outs sto',
  sto_nonneg sto -> forallb (fun o => tc_nonneg (og_dur o)) cs = true ->
  new_outage_states sigma now sto cs os = Ok (outs, sto') -> sampled_ok now cs os outs = true.
Proof.
  induction cs as [|c cs IH]; intros sto os outs sto' Hs Hc H; simpl in H.
  - inversion H; subst. reflexivity.
  - destruct os as [|o os]; [discriminate|]. simpl in Hc. apply andb_true_iff in Hc. destruct Hc as [Hc1 Hc2].
    destruct (sample_outage sigma now sto c o) as [[o' s1]|] eqn:E1; simpl in H; [|discriminate].
    destruct (sample_clause _ _ _ _ _ _ Hs Hc1 E1) as [F1 Hs1].
    destruct (new_outage_states sigma now s1 cs os) as [[r s2]|] eqn:E2; simpl in H; [|discriminate].
    inversion H; subst. unfold sampled_ok. simpl. apply andb_true_iff. split; [exact F1|]. exact (IH _ _ _ _ Hs1 Hc2 E2).
Qed.

End SO.
