(* C01 lifted: the feasibility invariant along every micro-state of state.step, the middleware and all
   states reachable under any action sequence - provided no applied TRANSIT transition took a job in
   process (sides, a predicate on the recorded micro-log the monitors evaluate on the implementation). *)
From Coq Require Import List ZArith Bool Arith Lia.
From JSL Require Import Base.Res Base.ListX SM.Types SM.Util SM.Handler SM.Step SM.Middleware SM.Inv
  SMP.ListLemmas SMP.Frame SMP.WF SMP.Preserve SMP.StepInv SMP.Clock SMP.ClockStep SMP.ClockMain SMP.FeasView SMP.Feasible SMP.FeasSound.
Import ListNotations.
Close Scope Z_scope.

Section S.
Variable sigma : oracle.
Variable i : inst.
Hypothesis Hnn : inst_nonneg_b i = true.

Definition sides (lg : mlog) : Prop := forall tr y, In (tr, y) lg -> transit_side_b tr y = true.
Definition all_FE (lg : mlog) : Prop := forall tr y, In (tr, y) lg -> NO y /\ FE i y.

Lemma all_FE_snoc lg tr y : all_FE lg -> NO y -> FE i y -> all_FE (lg ++ [(tr, y)]).
Proof.
  intros H N F tr' y' Hin. apply in_app_iff in Hin. destruct Hin as [Hin|[E|[]]]; eauto. inversion E; subst; auto.
Qed.

Lemma process_log_ext : forall trs x n lg x' n' lg',
  process_transitions sigma i trs x n lg = Ok (x', n', lg') -> exists d, lg' = lg ++ d.
Proof.
  induction trs as [|tr r IH]; intros x n lg x' n' lg' H; simpl in H.
  - inversion H; subst. exists []. rewrite app_nil_r. reflexivity.
  - destruct (is_transition_valid x tr) as [v|e]; simpl in H; [|discriminate]. destruct v.
    + destruct (apply_transition sigma i x tr) as [x1|e]; simpl in H; [|discriminate].
      destruct (IH _ _ _ _ _ _ H) as [d Hd]. exists ((tr, x1) :: d). rewrite Hd, <- app_assoc. reflexivity.
    + eauto.
Qed.

Lemma process_FE : forall trs x n lg x' n' lg',
  NO x -> FE i x -> all_FE lg -> process_transitions sigma i trs x n lg = Ok (x', n', lg') -> sides lg' ->
  NO x' /\ FE i x' /\ all_FE lg' /\ s_now x' = s_now x.
Proof.
  induction trs as [|tr r IH]; intros x n lg x' n' lg' N F L H Hs; simpl in H.
  - inversion H; subst; auto.
  - destruct (is_transition_valid x tr) as [v|e] eqn:Ev; simpl in H; [|discriminate]. destruct v.
    + destruct (apply_transition sigma i x tr) as [x1|e] eqn:Ea; simpl in H; [|discriminate].
      pose proof (apply_preserves_NO sigma i Hnn _ _ _ N Ea) as N1.
      destruct (process_log_ext _ _ _ _ _ _ _ H) as [d Hd].
      assert (S1 : transit_side_b tr x1 = true).
      { apply Hs. rewrite Hd. apply in_app_iff. left. apply in_app_iff. right. left. reflexivity. }
      pose proof (apply_preserves_FE sigma i Hnn _ _ _ N F Ev Ea S1) as F1.
      destruct (IH _ _ _ _ _ _ N1 F1 (all_FE_snoc _ _ _ L N1 F1) H Hs) as [A [B [C D]]].
      split; auto. split; auto. split; auto. rewrite D. eapply apply_now; eauto.
    + eapply IH; eauto.
Qed.

(* the result of a step: xq is the state before the clock adjustment of a terminal result *)
Definition result_FE (lg : mlog) (x' : state) (offers : list transition) : Prop :=
  all_FE lg /\ exists xq, NO xq /\ FE i xq /\ (x' = xq \/ (offers = [] /\ exists z, x' = set_now xq z)).

Lemma loop_exit_FE x x' offers lg lg' :
  NO x -> FE i x -> all_FE lg ->
  (if all_in_output i x
   then match max_done_end x with
        | Ok (Some z) => SOk (set_now x z) [] lg
        | Ok None => SOk x [] lg
        | Err e => SRaise e end
   else match get_possible_transitions i x with
        | Ok offers => SOk x offers lg
        | Err e => SRaise e end) = SOk x' offers lg' -> result_FE lg' x' offers.
Proof.
  intros N F L H. destruct (all_in_output i x).
  - destruct (max_done_end x) as [[z|]|]; [| |discriminate]; injection H as E1 E2 E3; subst x' offers lg';
      (split; [exact L|]); exists x; (split; [exact N|]); (split; [exact F|]); [right; eauto|left; reflexivity].
  - destruct (get_possible_transitions i x); [|discriminate]. injection H as E1 E2 E3. subst x' offers lg'.
    split; [exact L|]. exists x. split; [exact N|]. split; [exact F|]. left; reflexivity.
Qed.

Lemma timed_loop_log_ext fuel : forall x0 x timed lg x' offers lg',
  timed_loop sigma i fuel x0 x timed lg = SOk x' offers lg' -> exists d, lg' = lg ++ d.
Proof.
  induction fuel as [|f IH]; intros x0 x timed lg x' offers lg' H; simpl in H.
  - destruct timed; [|discriminate]. exists []. rewrite app_nil_r.
    destruct (all_in_output i x); [destruct (max_done_end x) as [[z|]|]|destruct (get_possible_transitions i x)];
      try discriminate; injection H; intros; subst; reflexivity.
  - destruct timed as [|t ts].
    + exists []. rewrite app_nil_r.
      destruct (all_in_output i x); [destruct (max_done_end x) as [[z|]|]|destruct (get_possible_transitions i x)];
        try discriminate; injection H; intros; subst; reflexivity.
    + destruct (process_transitions sigma i (t :: ts) x 0 lg) as [[[x1 nerr] lg1]|e] eqn:Ep; [|discriminate].
      destruct (Nat.ltb 0 nerr); [discriminate|].
      destruct (jump_to_event i x1) as [tt|e]; [|discriminate].
      destruct (create_timed_transitions i (set_now x1 tt)) as [timed'|e]; [|discriminate].
      destruct (process_log_ext _ _ _ _ _ _ _ Ep) as [d1 Hd1]. destruct (IH _ _ _ _ _ _ _ H) as [d2 Hd2].
      exists (d1 ++ d2). rewrite Hd2, Hd1, app_assoc. reflexivity.
Qed.

Lemma sides_prefix lg d : sides (lg ++ d) -> sides lg.
Proof. intros H tr y Hin. apply H. apply in_app_iff. left; auto. Qed.

Lemma timed_loop_FE fuel : forall x0 x timed lg x' offers lg',
  NO x -> FE i x -> all_FE lg -> timed_loop sigma i fuel x0 x timed lg = SOk x' offers lg' -> sides lg' ->
  result_FE lg' x' offers.
Proof.
  induction fuel as [|f IH]; intros x0 x timed lg x' offers lg' N F L H Hs; simpl in H.
  - destruct timed; [|discriminate]. eapply loop_exit_FE; eauto.
  - destruct timed as [|t ts]; [eapply loop_exit_FE; eauto|].
    destruct (process_transitions sigma i (t :: ts) x 0 lg) as [[[x1 nerr] lg1]|e] eqn:Ep; [|discriminate].
    destruct (Nat.ltb 0 nerr); [discriminate|].
    destruct (jump_to_event i x1) as [tt|e] eqn:Ej; [|discriminate].
    destruct (create_timed_transitions i (set_now x1 tt)) as [timed'|e]; [|discriminate].
    destruct (timed_loop_log_ext _ _ _ _ _ _ _ _ H) as [d Hd].
    assert (S1 : sides lg1) by (rewrite Hd in Hs; eapply sides_prefix; eauto).
    destruct (process_FE _ _ _ _ _ _ _ N F L Ep S1) as [N1 [F1 [L1 _]]].
    destruct (jump_to_event_ok i _ _ N1 Ej) as [Hle N2].
    eapply IH; [exact N2| |exact L1|exact H|exact Hs].
    apply FE_set_now; auto.
Qed.

Theorem step_FE fuel x0 trs tm x' offers lg :
  tm <> TMJumpByOne -> NO x0 -> FE i x0 -> step sigma i fuel x0 trs tm = SOk x' offers lg -> sides lg ->
  result_FE lg x' offers.
Proof.
  intros Htm N F H Hs. unfold step in H.
  destruct (match trs with [] => Ok (x0, 0, []) | _ :: _ => process_transitions sigma i (sorted_by_transport trs) x0 0 [] end)
    as [[[x1 nerr] lg1]|e] eqn:Ep; [|discriminate].
  destruct (Nat.ltb 0 nerr); [discriminate|].
  destruct (run_time_machine i tm x1) as [t|e] eqn:Et; [|discriminate].
  destruct (create_timed_transitions i (set_now x1 t)) as [timed|e]; [|discriminate].
  destruct (get_possible_transitions i (set_now x1 t)) as [poss|e]; [|discriminate].
  destruct (filter_teleport i (set_now x1 t) poss) as [tele|e]; [|discriminate].
  destruct (timed_loop_log_ext _ _ _ _ _ _ _ _ H) as [d Hd].
  assert (S1 : sides lg1) by (rewrite Hd in Hs; eapply sides_prefix; eauto).
  assert (H1 : NO x1 /\ FE i x1 /\ all_FE lg1).
  { destruct trs.
    - inversion Ep; subst. split; [exact N|]. split; [exact F|]. intros tr y [].
    - destruct (process_FE _ _ _ _ _ _ _ N F (fun tr y (Hin : In (tr, y) []) => match Hin with end) Ep S1) as [A [B [C _]]]. auto. }
  destruct H1 as [N1 [F1 L1]].
  destruct (run_tm_ok i tm _ _ Htm N1 Et) as [Hle N2].
  eapply timed_loop_FE; [exact N2| |exact L1|exact H|exact Hs].
  apply FE_set_now; auto.
Qed.

Theorem mw_step_FE fuel r m a r' m' lg :
  NO (r_x r) -> FE i (r_x r) -> mw_step sigma i fuel r m a = MOk r' m' lg -> sides lg ->
  result_FE lg (r_x r') (r_offers r').
Proof.
  intros N F H Hs. unfold mw_step in H.
  destruct (r_offers r) as [|o1 rest]; [discriminate|].
  destruct (negb ((a =? 0)%Z || (a =? 1)%Z)); [discriminate|].
  destruct (a =? 0)%Z.
  - destruct rest as [|o2 rest].
    + destruct (step sigma i fuel (r_x r) [] TMForceJump) as [x' offers lg'| | |] eqn:Es; try discriminate.
      destruct offers.
      * destruct (all_in_output i x'); [|discriminate]. inversion H; subst. eapply step_FE; eauto; discriminate.
      * inversion H; subst. eapply step_FE; eauto; discriminate.
    + inversion H; subst; simpl. split; [intros tr y []|]. exists (r_x r). split; [exact N|]. split; [exact F|]. left; reflexivity.
  - destruct (step sigma i fuel (r_x r) [o1] TMJumpToEvent) as [x' offers lg'| | |] eqn:Es; try discriminate.
    inversion H; subst. eapply step_FE; eauto; discriminate.
Qed.

(* reachability with the side condition on every micro-log *)
Inductive reachS (fuel : nat) (x0 : state) (joker0 : Z) (ta : bool) : result -> mw -> Prop :=
| rs_reset r m lg : mw_reset sigma i fuel x0 joker0 ta (mkMw joker0 0 0 ta) = MOk r m lg -> sides lg -> reachS fuel x0 joker0 ta r m
| rs_step r m a r' m' lg : reachS fuel x0 joker0 ta r m -> mw_step sigma i fuel r m a = MOk r' m' lg -> sides lg ->
                            reachS fuel x0 joker0 ta r' m'.

Lemma reachS_inv fuel x0 joker0 ta r m :
  NO x0 -> FE i x0 -> reachS fuel x0 joker0 ta r m ->
  exists xq, NO xq /\ FE i xq /\ (r_x r = xq \/ (r_offers r = [] /\ exists z, r_x r = set_now xq z)).
Proof.
  intros N F H. induction H as [r m lg H Hs|r m a r' m' lg H IH Hm Hs].
  - unfold mw_reset in H.
    destruct (step sigma i fuel x0 [] TMJumpToEvent) as [x' offers lg'| | |] eqn:Es; try discriminate.
    inversion H; subst. simpl. destruct (step_FE fuel x0 [] TMJumpToEvent _ _ _ ltac:(discriminate) N F Es Hs) as [_ Q]. exact Q.
  - destruct IH as [xq [Nq [Fq [E|[E _]]]]].
    + subst xq. destruct (mw_step_FE _ _ _ _ _ _ _ Nq Fq Hm Hs) as [_ Q]. exact Q.
    + unfold mw_step in Hm. rewrite E in Hm. discriminate.
Qed.

Lemma feasible_set_now x z : feasible_b i (set_now x z) = feasible_b i x.
Proof. reflexivity. Qed.

(* every state the environment reaches from a fresh state, under ANY action sequence of ANY length, is a
   feasible schedule - as is every intermediate micro-state *)
Theorem reachS_feasible fuel x0 joker0 ta r m :
  clock_b x0 = true -> fresh_b i x0 = true -> reachS fuel x0 joker0 ta r m -> feasible_b i (r_x r) = true.
Proof.
  intros C Fr H. apply NO_iff_clock_b in C.
  destruct (reachS_inv _ _ _ _ _ _ C (fresh_FE i _ Fr) H) as [xq [Nq [Fq [E|[_ [z E]]]]]]; rewrite E.
  - apply FE_feasible; auto.
  - rewrite feasible_set_now. apply FE_feasible; auto.
Qed.

(* the same for the other clauses that follow from FE *)
Theorem reachS_mach_hold_past fuel x0 joker0 ta r m :
  clock_b x0 = true -> fresh_b i x0 = true -> reachS fuel x0 joker0 ta r m ->
  mach_hold_b (r_x r) = true /\ (r_offers r <> [] -> past_b (r_x r) = true).
Proof.
  intros C Fr H. apply NO_iff_clock_b in C.
  destruct (reachS_inv _ _ _ _ _ _ C (fresh_FE i _ Fr) H) as [xq [Nq [Fq [E|[E0 [z E]]]]]]; rewrite E.
  - split; [apply FE_mach_hold with (i := i); auto|intros _; apply FE_past with (i := i); auto].
  - split; [change (mach_hold_b (set_now xq z)) with (mach_hold_b xq); apply FE_mach_hold with (i := i); auto|congruence].
Qed.

(* ... and every micro-state of the next agent decision *)
Theorem reachS_micro_feasible fuel x0 joker0 ta r m a r' m' lg :
  clock_b x0 = true -> fresh_b i x0 = true -> reachS fuel x0 joker0 ta r m ->
  mw_step sigma i fuel r m a = MOk r' m' lg -> sides lg ->
  forall tr y, In (tr, y) lg -> feasible_b i y = true.
Proof.
  intros C Fr H Hm Hs tr y Hin. apply NO_iff_clock_b in C.
  destruct (reachS_inv _ _ _ _ _ _ C (fresh_FE i _ Fr) H) as [xq [Nq [Fq [E|[E _]]]]].
  - subst xq. destruct (mw_step_FE _ _ _ _ _ _ _ Nq Fq Hm Hs) as [L _]. apply FE_feasible. apply (L _ _ Hin).
  - unfold mw_step in Hm. rewrite E in Hm. discriminate.
Qed.

(* executable form of the side condition and of reachS (for examples and the monitors) *)
Definition sides_b (lg : mlog) : bool := forallb (fun p => transit_side_b (fst p) (snd p)) lg.

Lemma sides_b_sound lg : sides_b lg = true -> sides lg.
Proof. intros H tr y Hin. unfold sides_b in H. rewrite forallb_forall in H. apply (H (tr, y) Hin). Qed.

Definition runS (fuel : nat) (x0 : state) (joker0 : Z) (ta : bool) (acts : list Z) : option (result * mw) :=
  match mw_reset sigma i fuel x0 joker0 ta (mkMw joker0 0 0 ta) with
  | MOk r m lg =>
      if sides_b lg then
        fold_left (fun acc a => match acc with
                                | Some (r, m) => match mw_step sigma i fuel r m a with
                                                 | MOk r' m' lg' => if sides_b lg' then Some (r', m') else None
                                                 | _ => None end
                                | None => None end) acts (Some (r, m))
      else None
  | _ => None
  end.

Lemma runS_reach fuel x0 joker0 ta acts r m :
  runS fuel x0 joker0 ta acts = Some (r, m) -> reachS fuel x0 joker0 ta r m.
Proof.
  unfold runS. destruct (mw_reset sigma i fuel x0 joker0 ta (mkMw joker0 0 0 ta)) as [r0 m0 lg0| | |] eqn:Er; try discriminate.
  destruct (sides_b lg0) eqn:Es; [|discriminate].
  assert (R0 : reachS fuel x0 joker0 ta r0 m0) by (eapply rs_reset; eauto; apply sides_b_sound; auto).
  clear Er Es. revert r0 m0 R0. induction acts as [|a acts IH]; intros r0 m0 R0 H; simpl in H.
  - inversion H; subst; auto.
  - destruct (mw_step sigma i fuel r0 m0 a) as [r1 m1 lg1| | |] eqn:Em.
    + destruct (sides_b lg1) eqn:Es.
      * eapply IH; [|exact H]. eapply rs_step; eauto. apply sides_b_sound; auto.
      * exfalso. clear -H. induction acts; simpl in H; [discriminate|auto].
    + exfalso. clear -H. induction acts; simpl in H; [discriminate|auto].
    + exfalso. clear -H. induction acts; simpl in H; [discriminate|auto].
    + exfalso. clear -H. induction acts; simpl in H; [discriminate|auto].
Qed.

End S.
