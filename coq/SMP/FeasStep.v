(* C01 lifted: the feasibility invariant along every micro-state of state.step, the middleware and all
   states reachable under any action sequence - provided no applied TRANSIT transition took a job in
   process (sides, a predicate on the recorded micro-log the monitors evaluate on the implementation).
   Instance of the generic lifting SMP/LiftSide.v with P := FE i, side := transit_side_b. *)
From Coq Require Import List ZArith Bool Arith Lia.
From JSL Require Import Base.Res Base.ListX SM.Types SM.Util SM.Handler SM.Step SM.Middleware SM.Inv
  SMP.ListLemmas SMP.Frame SMP.WF SMP.Preserve SMP.StepInv SMP.Clock SMP.ClockStep SMP.ClockMain SMP.LiftSide
  SMP.FeasView SMP.Feasible SMP.FeasSound.
Import ListNotations.
Close Scope Z_scope.

Section S.
Variable sigma : oracle.
Variable i : inst.
Hypothesis Hnn : inst_nonneg_b i = true.

Definition sides : mlog -> Prop := sidesG transit_side_b.
Definition sides_b : mlog -> bool := sidesG_b transit_side_b.
Definition reachS : nat -> state -> Z -> bool -> result -> mw -> Prop := reachG sigma i transit_side_b.
Definition runS : nat -> state -> Z -> bool -> list Z -> option (result * mw) := runG sigma i transit_side_b.

Lemma FE_apply x tr x' :
  NO x -> FE i x -> is_transition_valid x tr = Ok true -> apply_transition sigma i x tr = Ok x' ->
  transit_side_b tr x' = true -> FE i x'.
Proof. intros. eapply apply_preserves_FE; eauto. Qed.

Lemma FE_now x t : FE i x -> (s_now x <= t)%Z -> FE i (set_now x t).
Proof. apply FE_set_now. Qed.

Definition result_FE (lg : mlog) (x' : state) (offers : list transition) : Prop :=
  (forall tr y, In (tr, y) lg -> NO y /\ FE i y) /\
  exists xq, NO xq /\ FE i xq /\ (x' = xq \/ (offers = [] /\ exists z, x' = set_now xq z)).

Theorem step_FE fuel x0 trs tm x' offers lg :
  tm <> TMJumpByOne -> NO x0 -> FE i x0 -> step sigma i fuel x0 trs tm = SOk x' offers lg -> sides lg ->
  result_FE lg x' offers.
Proof. intros. eapply (step_PS sigma i Hnn (FE i) transit_side_b FE_apply FE_now); eauto. Qed.

Theorem mw_step_FE fuel r m a r' m' lg :
  NO (r_x r) -> FE i (r_x r) -> mw_step sigma i fuel r m a = MOk r' m' lg -> sides lg ->
  result_FE lg (r_x r') (r_offers r').
Proof. intros. eapply (mw_step_PS sigma i Hnn (FE i) transit_side_b FE_apply FE_now); eauto. Qed.

Lemma reachS_inv fuel x0 joker0 ta r m :
  NO x0 -> FE i x0 -> reachS fuel x0 joker0 ta r m ->
  exists xq, NO xq /\ FE i xq /\ (r_x r = xq \/ (r_offers r = [] /\ exists z, r_x r = set_now xq z)).
Proof. intros. eapply (reachG_inv sigma i Hnn (FE i) transit_side_b FE_apply FE_now); eauto. Qed.

Lemma feasible_set_now x z : feasible_b i (set_now x z) = feasible_b i x.
Proof. reflexivity. Qed.

(* every state the environment reaches from a fresh state, under ANY action sequence of ANY length, is a
   feasible schedule - as is every intermediate micro-state *)
Theorem reachS_feasible fuel x0 joker0 ta r m :
  clock_b x0 = true -> fresh_b i x0 = true -> reachS fuel x0 joker0 ta r m -> feasible_b i (r_x r) = true.
Proof.
  intros C Fr H. apply NO_iff_clock_b in C.
  destruct (reachS_inv _ _ _ _ _ _ C (fresh_FE i _ Fr) H) as [xq [Nq [Fq [E|[_ [z E]]]]]]; rewrite E.
  - apply FE_feasible; auto.
  - rewrite feasible_set_now. apply FE_feasible; auto.
Qed.

(* the same for the other clauses that follow from FE *)
Theorem reachS_mach_hold_past fuel x0 joker0 ta r m :
  clock_b x0 = true -> fresh_b i x0 = true -> reachS fuel x0 joker0 ta r m ->
  mach_hold_b (r_x r) = true /\ (r_offers r <> [] -> past_b (r_x r) = true).
Proof.
  intros C Fr H. apply NO_iff_clock_b in C.
  destruct (reachS_inv _ _ _ _ _ _ C (fresh_FE i _ Fr) H) as [xq [Nq [Fq [E|[E0 [z E]]]]]]; rewrite E.
  - split; [apply FE_mach_hold with (i := i); auto|intros _; apply FE_past with (i := i); auto].
  - split; [change (mach_hold_b (set_now xq z)) with (mach_hold_b xq); apply FE_mach_hold with (i := i); auto|congruence].
Qed.

(* ... and every micro-state of the next agent decision *)
Theorem reachS_micro_feasible fuel x0 joker0 ta r m a r' m' lg :
  clock_b x0 = true -> fresh_b i x0 = true -> reachS fuel x0 joker0 ta r m ->
  mw_step sigma i fuel r m a = MOk r' m' lg -> sides lg ->
  forall tr y, In (tr, y) lg -> feasible_b i y = true.
Proof.
  intros C Fr H Hm Hs tr y Hin. apply NO_iff_clock_b in C.
  destruct (reachS_inv _ _ _ _ _ _ C (fresh_FE i _ Fr) H) as [xq [Nq [Fq [E|[E _]]]]].
  - subst xq. destruct (mw_step_FE _ _ _ _ _ _ _ Nq Fq Hm Hs) as [L _]. apply FE_feasible. apply (L _ _ Hin).
  - unfold mw_step in Hm. rewrite E in Hm. discriminate.
Qed.

Lemma sides_b_sound lg : sides_b lg = true -> sides lg.
Proof. apply sidesG_b_sound. Qed.

Lemma runS_reach fuel x0 joker0 ta acts r m :
  runS fuel x0 joker0 ta acts = Some (r, m) -> reachS fuel x0 joker0 ta r m.
Proof. apply runG_reach. Qed.

End S.
