(* C07/C08: the pickup event clause ev_transit (SM/Events.v) along every run. One applied -> TRANSIT either finds its job off the
   release position of an ordered buffer and keeps the AGV waiting (nothing moves), or takes the AGV's own claim - a job that is not
   being processed and lies in a post- or standalone buffer - at the release position, for exactly travel(where it lies -> the
   machine of its next operation, or the output buffer), which is the route's recorded destination.
   Needs one more run invariant than the stack of SMP/Release.v carries: RT0 - a claimed route to a buffer goes to the FIRST output
   buffer (the route's destination is computed at dispatch, the travel time at pickup from the job's records: they agree). *)
From Coq Require Import List ZArith Bool Arith Lia.
From JSL Require Import Base.Res Base.ListX SM.Types SM.Util SM.Handler SM.Step SM.Middleware SM.Inv SM.Events
  SMP.ListLemmas SMP.Frame SMP.WF SMP.Preserve SMP.StepInv SMP.Clock SMP.ClockStep SMP.ClockMain SMP.LiftSide SMP.Agv SMP.OutputDone SMP.Post SMP.PostApply SMP.FeasView SMP.Feasible SMP.Offers SMP.Unique SMP.Reflect
  SMP.DepLists SMP.Prov SMP.StoreEff SMP.LiftProv SMP.ProvBatch SMP.Claims SMP.Durations SMP.Travel SMP.Hold SMP.Deliver SMP.OffersValid SMP.NoFail SMP.Release SMP.SampledOk SMP.EventsOk.
Import ListNotations.
Close Scope Z_scope.

Section T.
Variable sigma : oracle.
Variable i : inst.
Hypothesis Hnn : inst_nonneg_b i = true.

(* ---------- positions ---------- *)
Lemma incorrect_not_release j l ty p :
  NoDup l -> index_of j l = Some p -> is_correct_position (Some p) (length l) ty = Ok false -> at_release_position j l ty = false.
Proof.
  intros ND Hp Hc. assert (Hin : In j l) by (eapply index_of_some_in; eauto).
  pose proof (index_of_nth _ _ _ Hp) as Hn.
  destruct l as [|h t]; [destruct Hin|]. unfold is_correct_position in Hc.
  change (Nat.eqb (length (h :: t)) 0) with false in Hc. cbv iota in Hc. unfold at_release_position.
  destruct ty.
  - destruct p as [|p]; [discriminate|]. apply Nat.eqb_neq. intros E. subst h.
    rewrite index_of_head in Hp. discriminate.
  - assert (Hb : (p =? length (h :: t) - 1) = false) by congruence. apply Nat.eqb_neq in Hb.
    apply Nat.eqb_neq. intros E.
    pose proof (index_of_last (h :: t) h ND ltac:(discriminate)) as Hl. rewrite E in Hl. rewrite Hp in Hl. inversion Hl. contradiction.
  - assert (Hb : (p <? length (h :: t)) = false) by congruence. apply Nat.ltb_ge in Hb.
    assert (p < length (h :: t)) by (apply nth_error_Some; congruence). lia.
  - destruct p as [|p]; [discriminate|]. apply Nat.eqb_neq. intros E. subst h.
    rewrite index_of_head in Hp. discriminate.
Qed.

Lemma forallb2_refl l : forallb2 list_nat_eqb l l = true.
Proof. induction l as [|a l IH]; simpl; auto. rewrite list_nat_eqb_refl. exact IH. Qed.

(* ---------- the route invariant ---------- *)
(* a claiming AGV has a route, to a machine or to the FIRST output buffer *)
Definition route_ok (dst : place) : Prop :=
  match dst with PM _ => True | PB n => first_output i = Some n | PT _ => False end.
Definition RT0 (x : state) : Prop :=
  forall t loc j, tr2 x t = Some (loc, Some j) -> exists p src dst, loc = LRoute p src dst /\ route_ok dst.

Lemma RT0_set_now x z : RT0 x -> RT0 (set_now x z).
Proof. intros H t loc j E. rewrite tr2_set_now in E. eauto. Qed.

Lemma dest_idle_route jb dst : dest_idle i jb = Ok dst -> route_ok dst.
Proof.
  unfold dest_idle. destruct (no_operation_idle jb).
  - destruct (first_output i) as [n0|] eqn:E; simpl; intros H; inversion H. simpl. exact E.
  - destruct (first_idle jb) as [k|]; simpl; [|discriminate]. destruct (nth_error (j_ops jb) k); simpl; intros H; inversion H. exact I.
Qed.

Lemma apply_preserves_RT0 x tr y : RT0 x -> apply_transition sigma i x tr = Ok y -> RT0 y.
Proof.
  intros R H t loc j E.
  destruct (apply_tr2 sigma i _ _ _ t H) as [Eq|[[_ [_ [j0 [jb [p0 [target [_ [_ [Hd E2]]]]]]]]]|[_ [_ [dst E2]]]]].
  - rewrite Eq in E. eauto.
  - rewrite E2 in E. inversion E; subst. exists p0, (j_loc jb), target. split; auto. eapply dest_idle_route; eauto.
  - rewrite E2 in E. discriminate.
Qed.

(* ---------- the handler refuses to take a job from another AGV ---------- *)
Lemma to_transit_from_agv x tr t ts y j jb t0 :
  h_t_to_transit sigma i x tr t ts = Ok y -> tr_job tr = Some j -> nth_error (s_jobs x) j = Some jb -> j_loc jb = BAgv t0 ->
  h_t_waiting_waiting i x tr t ts = Ok y.
Proof.
  intros H Ej Hjb El. unfold h_t_to_transit in H. rewrite Ej in H. simpl in H. unfold get_job in H. rewrite Hjb in H. simpl in H.
  destruct (get_buf x (j_loc jb)) as [sb|]; simpl in H; [|discriminate].
  destruct (get_bcfg i (j_loc jb)) as [sc|]; simpl in H; [|discriminate].
  destruct (match index_of j (b_store sb) with Some p => _ | None => _ end) as [[|]|]; simpl in H; [exact H| |discriminate].
  destruct (dest_not_done i jb) as [dst|]; simpl in H; [|discriminate].
  destruct (travel_from_spec sigma i (s_sto x) (place_of_bid (j_loc jb)) dst) as [[trv sto']|]; simpl in H; [|discriminate].
  rewrite El in H. simpl in H. discriminate.
Qed.

Lemma all_stores_set_trans_ctl x t st oc loc jb outs y :
  bids_of y = bids_of x -> y = set_trans_ctl x t st oc loc jb outs -> all_stores y = all_stores x.
Proof.
  intros Hb ->. rewrite !all_stores_bids, Hb. apply map_ext. intros L. rewrite !bst_store_at, bst_set_trans_ctl. reflexivity.
Qed.

(* ---------- the clause, for one applied transition ---------- *)
Theorem apply_ev_transit x tr R y :
  NO x -> WFS i x -> FE i x -> AG x -> OD i x -> RTE x -> RT0 x -> pend x R tr ->
  apply_transition sigma i x tr = Ok y -> ev_transit i x tr y = true.
Proof.
  intros N W F Ag Od Rt R0 Hpend H. pose proof (apply_preserves_NO sigma i Hnn _ _ _ N H) as Ny.
  unfold ev_transit. destruct (ekind_of x tr) eqn:Ek; try reflexivity.
  destruct (ekind_machine _ _ _ Ek) as [[m [ms [s [Hc [Hms [Hn K]]]]]]|[t [ts [s [Hc [Hts [Hn K]]]]]]]; [congruence| |].
  { exfalso. destruct (m_st ms), s; try contradiction; discriminate. }
  assert (En : s = TTransit) by (destruct (t_st ts), s; try contradiction; try discriminate; reflexivity). subst s.
  rewrite Hc.
  destruct (apply_transport sigma i _ _ _ _ _ Hc Hts H) as [[_ [E0 _]]|[[_ [E0 _]]|[[Hph [_ C]]|[[_ [E0 _]]|[[_ [E0 _]]|[_ [E0 _]]]]]]];
    try (rewrite Hn in E0; discriminate).
  destruct (post_to_transit sigma i _ _ _ _ _ Hts C) as [j [jb [sb [sc [Ej [Hjb [Hsb [Hsc Hd]]]]]]]].
  destruct (Hpend Hn) as [t' [j' [oc [Hc' [Ej' [Htc Hloc]]]]]].
  assert (t' = t) by congruence. subst t'. assert (j' = j) by congruence. subst j'.
  unfold tc in Htc. rewrite Hts in Htc. simpl in Htc. inversion Htc as [[Est Eoc Ejob]]. clear Htc.
  assert (He : b_store (t_buf ts) = []) by (eapply AG_phase_empty; eauto; rewrite Est; discriminate).
  destruct (ws_loc _ _ W _ _ Hjb) as [b0 [Hb0 Hinb]]. rewrite Hsb in Hb0. inversion Hb0; subst b0.
  pose proof (ws_nodup i _ _ _ W Hsb) as ND.
  destruct (index_of_in _ _ Hinb) as [p [Hp _]].
  assert (Hmem : mem_nat j (b_store sb) = true) by (apply mem_nat_In; exact Hinb).
  rewrite Ej, Hts. cbn [opt_b].
  destruct Hd as [[p' [Hp' [Hcp Hww]]]|[dst [c [trv [Hcp [Hdst [Htl [Hrd [[ts' [Hts' [S1 [S2 [S3 [S4 S5]]]]]] [[sb' [Hsb' Hst']] [Hj' Hnow]]]]]]]]]]].
  - (* the job is not at the release position: the AGV keeps waiting, nothing moves *)
    assert (p' = p) by congruence. subst p'.
    pose proof Hww as Hww2. unfold h_t_waiting_waiting in Hww2. inv_all Hww2. injection Hww2 as Ey.
    assert (Hty : exists oc', nth_error (s_trans y) t = Some (mkTransport TWaiting oc' (t_buf ts) (t_loc ts) (t_job ts) (t_out ts)))
      by (eexists; rewrite <- Ey, set_trans_ctl_nth, Hts, Nat.eqb_refl; reflexivity).
    destruct Hty as [oc' Hty].
    assert (Hjy : s_jobs y = s_jobs x) by (rewrite <- Ey; apply jobs_after_trans_ctl).
    assert (Hall : all_stores y = all_stores x).
    { match type of Ey with set_trans_ctl ?a ?b ?c ?d ?e ?f ?g = _ => apply (all_stores_set_trans_ctl a b c d e f g) end;
        [eapply apply_bids; eauto|symmetry; exact Ey]. }
    rewrite Hty. cbn [opt_b]. rewrite Hjb. cbn [opt_b]. rewrite Hjy, Hjb. cbn [opt_b]. rewrite ?Est.
    unfold blocked_by_order. rewrite Hsb, Hsc, Hmem, (incorrect_not_release _ _ _ _ ND Hp Hcp). simpl.
    rewrite He, Hall, forallb2_refl. simpl. apply bid_eqb_eq. reflexivity.
  - (* the job is taken *)
    rewrite Hts'. cbn [opt_b]. rewrite Hjb. cbn [opt_b]. rewrite Hj'. cbn [opt_b].
    unfold blocked_by_order. rewrite Hsb, Hsc, Hmem, (correct_at_release _ _ _ _ ND Hp (Hcp _ Hp)). simpl.
    rewrite Hsb'. cbn [opt_b]. rewrite Hdst, Htl. cbn [opt_b]. rewrite Hrd.
    pose proof (tc_read_nonneg _ _ _ (no_sto _ Ny) (travel_nonneg i Hnn _ _ _ Htl) Hrd) as H0.
    replace (0 <=? trv)%Z with true by (symmetry; apply Z.leb_le; lia).
    (* where the job lies *)
    assert (Hout : outside (j_loc jb)).
    { destruct Hloc as [[L [HL Ho]]|[t0 [HL _]]]; unfold jloc in HL; rewrite Hjb in HL; simpl in HL; inversion HL as [EL].
      - rewrite EL. exact Ho.
      - exfalso. pose proof (to_transit_from_agv _ _ _ _ _ _ _ _ C Ej Hjb EL) as Hww.
        unfold h_t_waiting_waiting in Hww. inv_all Hww. injection Hww as Ey. rewrite <- Ey in Hts'.
        rewrite set_trans_ctl_nth, Hts, Nat.eqb_refl in Hts'. inversion Hts' as [Ets]. rewrite <- Ets in S1. discriminate. }
    destruct Hout as [O1 [O2 O3]].
    rewrite (outside_not_running i _ _ _ W F Hjb O1). simpl.
    assert (Ekind : match j_loc jb with BStd _ | BPost _ => true | _ => false end = true).
    { destruct (j_loc jb) as [n|m|m|m|t0]; auto; exfalso; [apply (O2 m)|apply (O1 m)|apply (O3 t0)]; reflexivity. }
    rewrite Ekind, Hst', list_nat_eqb_refl, S3, He. simpl.
    rewrite Nat.eqb_refl, S2, S1, Ejob. simpl. rewrite Z.eqb_refl, Nat.eqb_refl. simpl.
    (* the recorded destination is the one the travel time was computed for *)
    destruct (R0 t (t_loc ts) j) as [p0 [src [d3 [Eloc Hrok]]]]; [rewrite (tr2_of _ _ _ Hts), Ejob; reflexivity|].
    rewrite Eloc.
    assert (Hjops : jops x j = Some (j_ops jb)) by (apply jops_of; exact Hjb).
    destruct d3 as [m|n|k]; [| |destruct Hrok].
    + destruct (Rt t p0 src m j (j_ops jb)) as [k [o [Hk [Ho Em]]]]; [rewrite (tr2_of _ _ _ Hts), Eloc, Ejob; reflexivity|exact Hjops|].
      unfold dest_not_done in Hdst.
      assert (Hni : no_operation_idle jb = false).
      { unfold no_operation_idle. apply not_true_is_false. intros Hall. rewrite forallb_forall in Hall.
        apply find_idx_some in Hk. destruct Hk as [o' [Ho' [So' _]]]. assert (o' = o) by congruence. subst o'.
        apply nth_error_In in Ho. specialize (Hall _ Ho). rewrite So' in Hall. discriminate. }
      rewrite Hni in Hdst. rewrite first_not_done_nd, (not_running_first i _ _ _ W F Hjb O1), Hk in Hdst. simpl in Hdst.
      rewrite Ho in Hdst. simpl in Hdst. inversion Hdst. simpl. rewrite Em, ?Nat.eqb_refl. reflexivity.
    + simpl in Hrok.
      assert (Hnoi : no_operation_idle jb = true).
      { destruct (od_agv _ _ Od t _ (tview_of _ _ _ Hts)) as [_ B]. apply (B (or_intror Est)) with (j := j); auto.
        rewrite Eloc. simpl. apply (first_output_is_output i). exact Hrok. }
      unfold dest_not_done in Hdst. rewrite Hnoi, Hrok in Hdst. simpl in Hdst. inversion Hdst. simpl. rewrite ?Nat.eqb_refl. reflexivity.
Qed.

(* ---------- lifting: J8 with the route invariant ---------- *)
Definition J10 (x : state) : Prop := J8 i x /\ RT0 x.

Lemma J10_apply x tr R x' :
  NO x -> J10 x -> Q9 i (tr :: R) x -> is_transition_valid x tr = Ok true -> apply_transition sigma i x tr = Ok x' ->
  J10 x' /\ Q9 i R x' /\ side2 tr x' = true.
Proof.
  intros N [Hj R0] HQ Hv Ha. destruct (J9_apply sigma i Hnn _ _ _ _ N Hj HQ Hv Ha) as [A [B C]].
  split; [split; [exact A|eapply apply_preserves_RT0; eauto]|]. split; assumption.
Qed.

Lemma J10_now x t : J10 x -> (s_now x <= t)%Z -> J10 (set_now x t).
Proof. intros [Hj R0] H. split; [apply (J8_now i); auto|apply RT0_set_now; auto]. Qed.

Lemma E10_end x : J10 x -> Q9 i [] x -> BI x.
Proof. intros [Hj _]. apply (E9_end i); auto. Qed.

Lemma Q10_timed x timed poss tele : NO x -> J10 x -> BI x -> create_timed_transitions i x = Ok timed ->
  get_possible_transitions i x = Ok poss -> filter_teleport i x poss = Ok tele -> Q9 i (timed ++ tele) x.
Proof. intros N [Hj _]. apply (Q9_timed i); auto. Qed.

Lemma Q10_timed0 x timed : NO x -> J10 x -> BI x -> create_timed_transitions i x = Ok timed -> Q9 i timed x.
Proof. intros N [Hj _]. apply (Q9_timed0 i); auto. Qed.

Lemma Q10_offer x o : J10 x -> BI x -> create_timed_transitions i x = Ok [] -> OK9 i x o -> Q9 i [o] x.
Proof. intros [Hj _]. apply (Q9_offer i); auto. Qed.

Lemma RT0_init x0 : fresh2_b i x0 = true -> idle_unclaimed_b x0 = true -> RT0 x0.
Proof.
  intros Fr Iu t loc j E. exfalso. unfold tr2 in E. destruct (nth_error (s_trans x0) t) as [ts|] eqn:Hts; [|discriminate].
  simpl in E. inversion E as [[El Ej]]. rewrite (no_claims i _ _ Fr Iu _ Hts) in Ej. discriminate.
Qed.

(* every entry of every micro-log satisfies the pickup clause *)
Fixpoint chain_transit (x : state) (lg : mlog) : Prop :=
  match lg with
  | [] => True
  | (tr, y) :: r => (exists x1, ceq x x1 /\ ev_transit i x1 tr y = true) /\ chain_transit y r
  end.

Theorem run_transit_ok fuel x0 joker0 ta r m a r' m' lg :
  clock_b x0 = true -> wfs_b i x0 = true -> fresh2_b i x0 = true -> nodep_b x0 = true -> pre_ok_b x0 = true ->
  reach sigma i fuel x0 joker0 ta r m -> mw_step sigma i fuel r m a = MOk r' m' lg -> chain_transit (r_x r) lg.
Proof.
  intros C W Fr Dn Po H Hm. pose proof (clock_idle_unclaimed _ C) as Iu. apply NO_iff_clock_b in C.
  assert (J0 : J10 x0) by (split; [apply (J8_init i); auto|apply RT0_init; auto]).
  pose proof (reach_micro_chain sigma i Hnn J10 (Q9 i) side2 (OK9 i) BI J10_apply J10_now E10_end BI_now
                Q10_timed Q10_timed0 Q10_offer (offers_ok9 i)
                _ _ _ _ _ _ _ _ _ _ C J0 (BI_init _ Dn) H Hm) as Hch.
  clear -Hch Hnn. revert Hch. generalize (r_x r). induction lg as [|[tr y] rest IH]; intros x Hch; simpl in *; [exact I|].
  destruct Hch as [[x1 [Ex [N1 [[Hj R0] [[R HQ] [_ Ha]]]]]] Hrest].
  split; [|apply IH; exact Hrest]. exists x1. split; [exact Ex|].
  destruct Hj as [[[W [[F [Ag Od]] _]] _] [_ [_ [Rt _]]]].
  destruct HQ as [[[_ [HP _]] _] _].
  eapply apply_ev_transit; eauto. apply HP. left. reflexivity.
Qed.

End T.
