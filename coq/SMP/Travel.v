(* C07 over whole runs: an operation never starts earlier than its predecessor's end plus the (deterministic)
   travel time between the two machines. Invariants: GAP (the statement), and per job the facts that carry it from
   the completion of an operation to the start of the next one - released into the post-buffer of the machine that
   finished it (never into a standalone buffer while work is left), picked up there no earlier than the completion,
   carried until pickup time + travel time (deliveries are applied exactly when due), available in front of the next
   machine no earlier than that. Carried with the invariants of SMP/ProvBatch.v (instances with unordered machine
   post-buffers) through SMP/LiftProv.v. *)
From Coq Require Import List ZArith Bool Arith Lia.
From JSL Require Import Base.Res Base.ListX SM.Types SM.Util SM.Handler SM.Step SM.Middleware SM.Inv
  SMP.ListLemmas SMP.Frame SMP.WF SMP.Preserve SMP.StepInv SMP.Clock SMP.ClockStep SMP.ClockMain SMP.Post SMP.PostApply
  SMP.LiftSide SMP.FeasView SMP.Feasible SMP.FeasSound SMP.Agv SMP.OutputDone SMP.Offers SMP.Unique SMP.Reflect
  SMP.Prov SMP.LiftProv SMP.ProvBatch SMP.Durations.
Import ListNotations.
Close Scope Z_scope.

Definition nd (o : op) : bool := negb (is_ostate ODone o).

Lemma first_not_done_nd jb : first_not_done jb = find_idx nd (j_ops jb).
Proof. reflexivity. Qed.

(* route destinations that are buffers are OUTPUT buffers *)
Definition route_ok (i : inst) (l : tloc) : Prop :=
  match l with LRoute _ _ (PB n) => is_output i (BStd n) = true | _ => True end.
Definition RT (i : inst) (x : state) : Prop := forall t st l loc jb, tview x t = Some (st, l, loc, jb) -> route_ok i loc.

Section T.
Variable sigma : oracle.
Variable i : inst.
Hypothesis Hnn : inst_nonneg_b i = true.

Definition lk (a b : op) : option tcfg := travel_lookup (i_travel i) (PM (o_mach a)) (PM (o_mach b)).

(* the statement of C07 on the operation records *)
Definition GAP (x : state) : Prop := forall j ops k a b c,
  jops x j = Some ops -> nth_error ops k = Some a -> nth_error ops (S k) = Some b -> o_st b <> OIdle -> lk a b = Some (Det c) ->
  exists e s, o_end a = Time e /\ o_start b = Time s /\ (e + c <= s)%Z.

(* job j between the completion of operation k and the start of operation k+1 *)
Definition TVJ (x : state) (j : nat) : Prop := forall ops L k a b c e,
  jops x j = Some ops -> jloc x j = Some L -> find_idx nd ops = Some (S k) ->
  nth_error ops k = Some a -> nth_error ops (S k) = Some b -> lk a b = Some (Det c) -> o_end a = Time e ->
  (forall n, L <> BStd n) /\ (forall m, L = BPost m -> m = o_mach a)
  /\ (L = BPre (o_mach b) -> (e + c <= s_now x)%Z)
  /\ (forall t z jb', L = BAgv t -> tc x t = Some (TTransit, OAt z, jb') -> (e + c <= z)%Z).

Definition TV (x : state) : Prop := GAP x /\ (forall j, TVJ x j) /\ RT i x.

(* ---------- RT ---------- *)
Lemma first_output_is_output n : first_output i = Some n -> is_output i (BStd n) = true.
Proof.
  unfold first_output. intros H. apply find_idx_some in H. destruct H as [c [Hc [Hr _]]]. simpl. rewrite Hc.
  destruct (bc_role c); try discriminate; reflexivity.
Qed.

Lemma dest_idle_route jb p a b : dest_idle i jb = Ok p -> route_ok i (LRoute a b p).
Proof.
  unfold dest_idle. intros H. destruct (no_operation_idle jb).
  - destruct (first_output i) as [n|] eqn:E; simpl in H; [|discriminate]. inversion H; subst. simpl. apply first_output_is_output; auto.
  - inv_all H. inversion H; subst. exact I.
Qed.

Theorem apply_preserves_RT x tr x' : RT i x -> apply_transition sigma i x tr = Ok x' -> RT i x'.
Proof.
  intros R H t st l loc jb Hv.
  assert (Keep : forall y, (forall t0, tview y t0 = tview x t0) -> tview y t = Some (st, l, loc, jb) -> route_ok i loc).
  { intros y E Hy. rewrite E in Hy. eapply R; eauto. }
  destruct (tr_comp tr) as [m|t0|n] eqn:Hc.
  - destruct (nth_error (s_machs x) m) as [ms|] eqn:Hms; [|unfold apply_transition in H; rewrite Hc, Hms in H; discriminate].
    destruct (apply_machine sigma i _ _ _ _ _ Hc Hms H) as [[_ [_ C]]|[[_ [_ C]]|[[_ [_ C]]|[_ [_ C]]]]].
    + unfold h_m_idle_setup in C. inv_all C. inversion C; subst; clear C.
      assert (Hne : BPre m <> BIn m) by congruence.
      match goal with E' : move_job _ _ _ _ _ = Ok ?y |- _ => pose proof (move_job_moved i _ _ _ _ _ Hne E') as M end.
      eapply Keep; [|exact Hv]. intros t1. rewrite tview_with_sto, tview_set_mach_ctl.
      rewrite (tview_moved_other i _ _ _ _ _ t1 M) by congruence. apply tview_put_job.
    + unfold h_m_setup_working in C. inv_all C. inversion C; subst; clear C.
      eapply Keep; [|exact Hv]. intros t1. rewrite tview_with_sto, tview_set_mach_ctl. apply tview_put_job.
    + unfold h_m_working_outage in C. inv_all C. inversion C; subst; clear C.
      eapply Keep; [|exact Hv]. intros t1. rewrite tview_with_sto, tview_set_mach_ctl. apply tview_put_job.
    + unfold h_m_outage_idle in C. inv_all C. inversion C; subst; clear C.
      assert (Hne : BIn m <> BPost m) by congruence.
      match goal with E' : move_job _ _ _ _ _ = Ok ?y |- _ => pose proof (move_job_moved i _ _ _ _ _ Hne E') as M end.
      eapply Keep; [|exact Hv]. intros t1. rewrite tview_set_mach_ctl.
      rewrite (tview_moved_other i _ _ _ _ _ t1 M) by congruence. apply tview_put_job.
  - destruct (nth_error (s_trans x) t0) as [ts|] eqn:Hts; [|unfold apply_transition in H; rewrite Hc, Hts in H; discriminate].
    pose proof (R _ _ _ _ _ (tview_of _ _ _ Hts)) as Rts.
    assert (Other : forall y st' oc' loc' jb' outs', route_ok i loc' ->
              (forall t1, t1 <> t0 -> tview y t1 = tview x t1) -> (exists l0, tview y t0 = Some (t_st ts, l0, t_loc ts, t_job ts)) ->
              tview (set_trans_ctl y t0 st' oc' loc' jb' outs') t = Some (st, l, loc, jb) -> route_ok i loc).
    { intros y st' oc' loc' jb' outs' Rl Ho [l0 Hs] Hy. rewrite tview_set_trans_ctl in Hy. destruct (Nat.eqb_spec t t0) as [->|Hn].
      - rewrite Hs in Hy. simpl in Hy. inversion Hy; subst. exact Rl.
      - rewrite (Ho _ Hn) in Hy. eapply R; eauto. }
    destruct (apply_transport sigma i _ _ _ _ _ Hc Hts H) as [[_ [_ C]]|[[_ [_ C]]|[[_ [_ C]]|[[_ [_ C]]|[[_ [_ C]]|[_ [_ C]]]]]]].
    + unfold h_t_idle_working in C. inv_all C. inversion C; subst; clear C.
      refine (Other _ _ _ _ _ _ _ _ _ Hv); [eapply dest_idle_route; eauto|intros; reflexivity|eexists; apply tview_of; eauto].
    + unfold h_t_pickup_waiting in C. inv_all C. inversion C; subst; clear C.
      refine (Other _ _ _ _ _ _ _ _ _ Hv); [exact Rts|intros; reflexivity|eexists; apply tview_of; eauto].
    + destruct (post_to_transit sigma i _ _ _ _ _ Hts C) as [j [jb0 [sb [sc [Hj [Hjb [Hsb [Hsc _]]]]]]]].
      unfold h_t_to_transit in C. rewrite Hj in C. simpl in C. unfold get_job in C. rewrite Hjb in C. simpl in C.
      rewrite Hsb, Hsc in C. simpl in C. inv1 C. inv1 C.
      { unfold h_t_waiting_waiting in C. inv_all C. inversion C; subst; clear C.
        refine (Other _ _ _ _ _ _ _ _ _ Hv); [exact Rts|intros; reflexivity|eexists; apply tview_of; eauto]. }
      inv_all C. inversion C; subst; clear C.
      assert (Hn2 : j_loc jb0 <> BAgv t0) by (intros Eq; rewrite Eq in *; discriminate).
      match goal with E' : move_job _ _ _ _ _ = Ok ?y |- _ => pose proof (move_job_moved i _ _ _ _ _ Hn2 E') as M end.
      rewrite tview_with_sto in Hv. refine (Other _ _ _ _ _ _ _ _ _ Hv); [exact Rts| |].
      * intros t1 Hn. apply (tview_moved_other i _ _ _ _ _ t1 M); [intros Eq; rewrite <- Eq in *; discriminate|congruence].
      * eexists. eapply (tview_moved_target i); eauto. apply tview_of; eauto.
    + unfold h_t_transit_outage in C. inv_all C. inversion C; subst; clear C.
      match goal with E' : move_job _ _ _ (BAgv t0) ?B = Ok ?y |- _ =>
        assert (Hn2 : BAgv t0 <> B /\ forall t1, BAgv t1 <> B) by
          (match goal with E'' : match ?d with PM _ => _ | PB _ => _ | PT _ => _ end = Ok B |- _ =>
             destruct d; inv_all E''; inversion E''; subst; split; congruence end);
        pose proof (move_job_moved i _ _ _ _ _ (proj1 Hn2) E') as M end.
      rewrite tview_with_sto in Hv. refine (Other _ _ _ _ _ _ _ _ _ Hv); [exact I| |].
      * intros t1 Hn. apply (tview_moved_other i _ _ _ _ _ t1 M); [congruence|apply Hn2].
      * destruct (tview_moved_source i _ _ _ _ _ _ _ _ _ M (tview_of _ _ _ Hts)) as [Hs _]. eauto.
    + unfold h_t_outage_idle in C. inversion C; subst; clear C.
      refine (Other _ _ _ _ _ _ _ _ _ Hv); [exact Rts|intros; reflexivity|eexists; apply tview_of; eauto].
    + unfold h_t_waiting_waiting in C. inv_all C. inversion C; subst; clear C.
      refine (Other _ _ _ _ _ _ _ _ _ Hv); [exact Rts|intros; reflexivity|eexists; apply tview_of; eauto].
  - unfold apply_transition in H. rewrite Hc in H. destruct (nth_error (s_bufs x) n); discriminate.
Qed.

(* ---------- frames ---------- *)
Lemma TVJ_same x x' j :
  jops x' j = jops x j -> jloc x' j = jloc x j -> (s_now x <= s_now x')%Z ->
  (forall t z jb', jloc x j = Some (BAgv t) -> tc x' t = Some (TTransit, OAt z, jb') -> tc x t = Some (TTransit, OAt z, jb')) ->
  TVJ x j -> TVJ x' j.
Proof.
  intros E1 E2 Hn Ht T ops L k a b c e H1 H2 H3 H4 H5 H6 H7. rewrite E1 in H1. rewrite E2 in H2.
  destruct (T _ _ _ _ _ _ _ H1 H2 H3 H4 H5 H6 H7) as [A1 [A2 [A3 A4]]]. split; [exact A1|]. split; [exact A2|]. split.
  - intros EL. specialize (A3 EL). lia.
  - intros t z jb' EL Htc. apply (A4 t z jb' EL). apply Ht; auto. rewrite <- EL. exact H2.
Qed.

Definition GAPJ (x : state) (j : nat) : Prop := forall ops k a b c,
  jops x j = Some ops -> nth_error ops k = Some a -> nth_error ops (S k) = Some b -> o_st b <> OIdle -> lk a b = Some (Det c) ->
  exists e s, o_end a = Time e /\ o_start b = Time s /\ (e + c <= s)%Z.

Lemma GAP_all x : GAP x <-> forall j, GAPJ x j.
Proof. split; [intros G j ops k a b c; apply G|intros G j ops k a b c; apply (G j)]. Qed.

Lemma GAPJ_same x x' j : jops x' j = jops x j -> GAPJ x j -> GAPJ x' j.
Proof. intros E G ops k a b c H1. rewrite E in H1. apply G; auto. Qed.

(* one record of job j changes; the record after it is idle *)
Lemma GAPJ_upd x x' j ops k0 o o' :
  GAPJ x j -> jops x j = Some ops -> nth_error ops k0 = Some o -> jops x' j = Some (upd ops k0 o') ->
  (forall b, nth_error ops (S k0) = Some b -> o_st b = OIdle) ->
  (o_st o' <> OIdle -> forall k a c, S k = k0 -> nth_error ops k = Some a -> lk a o' = Some (Det c) ->
     exists e s, o_end a = Time e /\ o_start o' = Time s /\ (e + c <= s)%Z) ->
  GAPJ x' j.
Proof.
  intros G Hops Ho Hops' Hnext Hprev ops1 k a b c H1 H2 H3 H4 H5. rewrite Hops' in H1. inversion H1; subst ops1.
  assert (Hk0 : k0 < length ops) by (eapply nth_error_lt; eauto).
  destruct (Nat.eq_dec k k0) as [->|N1].
  - rewrite nth_upd_other in H3 by lia. rewrite (Hnext _ H3) in H4. congruence.
  - rewrite nth_upd_other in H2 by congruence. destruct (Nat.eq_dec (S k) k0) as [E|N2].
    + rewrite E, nth_upd_same in H3 by auto. inversion H3; subst b. eapply Hprev; eauto.
    + rewrite nth_upd_other in H3 by congruence. eapply G; eauto.
Qed.

Lemma idle_setup_guard x tr m ms x' :
  h_m_idle_setup sigma i x tr m ms = Ok x' -> exists j, tr_job tr = Some j /\ In j (b_store (m_pre ms)).
Proof.
  unfold h_m_idle_setup. intros H. inv1 H. inv1 H. inv1 H. apply of_opt_ok in E. apply guard_ok in E1. apply mem_nat_In in E1. eauto.
Qed.

Lemma machine_tr_jloc x tr x' m ms j' :
  apply_transition sigma i x tr = Ok x' -> tr_comp tr = CM m -> nth_error (s_machs x) m = Some ms ->
  jloc x' j' = jloc x j'
  \/ (tr_new tr = NM MSetup /\ tr_job tr = Some j' /\ jloc x' j' = Some (BIn m))
  \/ (tr_new tr = NM MIdle /\ hd_error (b_store (m_in ms)) = Some j' /\ jloc x' j' = Some (BPost m)).
Proof.
  intros H Hc Hms.
  destruct (apply_machine sigma i _ _ _ _ _ Hc Hms H) as [[_ [Hn C]]|[[_ [Hn C]]|[[_ [Hn C]]|[_ [Hn C]]]]].
  - unfold h_m_idle_setup in C. inv_all C. inversion C; subst; clear C.
    match goal with E' : of_opt _ (tr_job tr) = Ok ?jn |- _ => apply of_opt_ok in E'; rename E' into Ej; rename jn into j end.
    match goal with E' : get_job x j = Ok ?jb0 |- _ => apply get_job_ok in E'; rename E' into Ejb end.
    assert (Hne : BPre m <> BIn m) by congruence.
    match goal with E' : move_job _ _ _ _ _ = Ok ?y |- _ => pose proof (move_job_moved i _ _ _ _ _ Hne E') as M end.
    rewrite jloc_with_sto, jloc_set_mach_ctl, (jloc_moved i _ _ _ _ _ j' M).
    destruct (Nat.eqb_spec j' j) as [->|Hd]; [right; left; auto|left]. eapply jloc_put_job_same_loc; eauto.
  - unfold h_m_setup_working in C. inv_all C. inversion C; subst; clear C.
    match goal with E' : get_job x ?jn = Ok ?jb0 |- _ => apply get_job_ok in E'; rename E' into Ejb end.
    left. rewrite jloc_with_sto, jloc_set_mach_ctl. eapply jloc_put_job_same_loc; eauto.
  - unfold h_m_working_outage in C. inv_all C. inversion C; subst; clear C.
    match goal with E' : get_job x ?jn = Ok ?jb0 |- _ => apply get_job_ok in E'; rename E' into Ejb end.
    left. rewrite jloc_with_sto, jloc_set_mach_ctl. eapply jloc_put_job_same_loc; eauto.
  - unfold h_m_outage_idle in C. inv_all C. inversion C; subst; clear C.
    match goal with E' : of_opt _ (hd_error _) = Ok ?jn |- _ => apply of_opt_ok in E'; rename E' into Ej; rename jn into j end.
    match goal with E' : get_job x j = Ok ?jb0 |- _ => apply get_job_ok in E'; rename E' into Ejb end.
    assert (Hne : BIn m <> BPost m) by congruence.
    match goal with E' : move_job _ _ _ _ _ = Ok ?y |- _ => pose proof (move_job_moved i _ _ _ _ _ Hne E') as M end.
    rewrite jloc_set_mach_ctl, (jloc_moved i _ _ _ _ _ j' M).
    destruct (Nat.eqb_spec j' j) as [->|Hd]; [right; right; auto|left]. eapply jloc_put_job_same_loc; eauto.
Qed.

(* a job inside a machine: nothing to show *)
Lemma TVJ_inside x j m : jloc x j = Some (BIn m) -> TVJ x j.
Proof.
  intros E ops L k a b c e H1 H2 _ _ _ _ _. rewrite E in H2. inversion H2; subst L.
  split; [intros n; discriminate|]. split; [intros m0; discriminate|]. split; [discriminate|intros t z jb'; discriminate].
Qed.

Lemma done_end_time x j jb k a : FE i x -> nth_error (s_jobs x) j = Some jb -> nth_error (j_ops jb) k = Some a -> o_st a <> OIdle ->
  exists s e, o_start a = Time s /\ o_end a = Time e.
Proof.
  intros F Hjb Ha Hs. destruct (tle_is_time _ _ (fe_times _ _ F _ _ _ (vop_of _ _ _ _ _ Hjb Ha) Hs)) as [s [e [A [B _]]]]. eauto.
Qed.

Theorem machine_preserves_TV x tr x' m ms :
  NO x -> J i x -> TV x -> is_transition_valid x tr = Ok true ->
  tr_comp tr = CM m -> nth_error (s_machs x) m = Some ms -> apply_transition sigma i x tr = Ok x' -> TV x'.
Proof.
  intros N [W [[F _] _]] [G [T R]] Hval Hc Hms H.
  assert (Hnow : s_now x' = s_now x) by (eapply apply_now; eauto).
  assert (Htc : forall t, tc x' t = tc x t) by (intros t; apply (apply_tc_other sigma i _ _ _ t H); rewrite Hc; discriminate).
  assert (Other : forall j', jops x' j' = jops x j' -> jloc x' j' = jloc x j' -> GAPJ x' j' /\ TVJ x' j').
  { intros j' E1 E2. split; [eapply GAPJ_same; eauto; apply GAP_all; auto|].
    eapply TVJ_same; eauto; [lia|]. intros t z jb' _ Ht. rewrite Htc in Ht. exact Ht. }
  assert (Goal' : (forall j', GAPJ x' j' /\ TVJ x' j') -> TV x').
  { intros A. split; [apply GAP_all; intros j'; apply A|]. split; [intros j'; apply A|eapply apply_preserves_RT; eauto]. }
  apply Goal'. intros j'.
  destruct (apply_machine sigma i _ _ _ _ _ Hc Hms H) as [[Hst [Hnw C]]|[[Hst [Hnw C]]|[[Hst [Hnw C]]|[Hst [Hnw C]]]]].
  - (* IDLE -> SETUP *)
    destruct (post_idle_setup sigma i _ _ _ _ _ Hms C) as [j [jb [k0 [oc [mc [sc [sd [Hj [Hjb [Hk [Hoc [Hmc [Hsc [Hsd [_ [[jb' [J1 [J2 J3]]] _]]]]]]]]]]]]]]]].
    destruct (idle_setup_guard _ _ _ _ _ C) as [j0 [Hj0 Hpre]]. rewrite Hj in Hj0. inversion Hj0; subst j0.
    destruct (first_not_done_spec _ _ Hk) as [o [Ho [So Hbefore]]].
    assert (Hm : o_mach o = m).
    { unfold is_transition_valid in Hval. rewrite Hc, Hms in Hval. unfold is_machine_transition_valid in Hval.
      rewrite Hst, Hnw in Hval. simpl in Hval. rewrite Hj in Hval. unfold get_job in Hval. rewrite Hjb in Hval. simpl in Hval.
      rewrite Hk in Hval. simpl in Hval. rewrite Ho in Hval. simpl in Hval. inversion Hval. apply Nat.eqb_eq. auto. }
    assert (P : Pat (j_ops jb)) by (eapply (fe_pat _ _ F j); simpl; apply jops_of; auto).
    assert (Hloc : jloc x j = Some (BPre m)) by (eapply (stored_loc i); eauto; simpl; rewrite Hms; reflexivity).
    destruct (Nat.eq_dec j' j) as [->|Hd].
    + split.
      * eapply (GAPJ_upd x x' j (j_ops jb) k0 o); [apply GAP_all; auto|apply jops_of; auto|exact Ho|rewrite (jops_of _ _ _ J1), J3; reflexivity| |].
        -- intros b Hb. eapply (Pat_after_notdone (j_ops jb) (S k0) k0 b o P); [lia|exact Ho|exact Hb|exact So].
        -- intros _ k a c Ek Ha Hl. subst k0.
           assert (Da : o_st a = ODone) by (eapply Hbefore; eauto).
           destruct (done_end_time _ _ _ _ _ F Hjb Ha ltac:(congruence)) as [s0 [e [_ Ee]]].
           destruct (T j _ _ _ _ _ _ _ (jops_of _ _ _ Hjb) Hloc Hk Ha Ho ltac:(unfold lk in *; simpl in Hl; rewrite Hm; exact Hl) Ee) as [_ [_ [A3 _]]].
           exists e, (s_now x). split; [exact Ee|]. split; [reflexivity|]. apply A3. rewrite Hm. reflexivity.
      * eapply TVJ_inside. rewrite (jloc_of _ _ _ J1), J2. reflexivity.
    + apply Other.
      * destruct (machine_tr_jops_other sigma i _ _ _ _ _ j' H Hc Hms) as [E|[[_ E]|[E _]]]; auto; [congruence|rewrite Hnw in E; discriminate].
      * destruct (machine_tr_jloc _ _ _ _ _ j' H Hc Hms) as [E|[[_ [E _]]|[E _]]]; auto; [congruence|rewrite Hnw in E; discriminate].
  - (* SETUP -> WORKING *)
    destruct (post_setup_working sigma i _ _ _ _ _ Hms C) as [j [jb [k0 [oc [d0 [Hj [Hjb [Hk [Hoc [Hd0 [M1 [J1 [_ Hmem]]]]]]]]]]]]].
    destruct (busy_machine_job i x m ms F Hms ltac:(congruence)) as [j1 [jb1 [k1 [o1 [B1 [B2 [B3 [B4 [B5 [P [Q1 Q2]]]]]]]]]]].
    apply mem_nat_In in Hmem. rewrite B1 in Hmem. destruct Hmem as [Ej|[]]. subst j1.
    rewrite Hjb in B2. inversion B2; subst jb1. pose proof (Q1 _ Hk) as Ek. subst k1.
    assert (Hloc : jloc x j = Some (BIn m)) by (eapply (stored_loc i); eauto; [simpl; rewrite Hms; reflexivity|rewrite B1; left; reflexivity]).
    destruct (Nat.eq_dec j' j) as [->|Hd].
    + split.
      * eapply (GAPJ_upd x x' j (j_ops jb) k0 o1); [apply GAP_all; auto|apply jops_of; auto|exact B3|rewrite (jops_of _ _ _ J1); reflexivity| |].
        -- intros b Hb. eapply (Pat_after_notdone (j_ops jb) (S k0) k0 b o1 P); [lia|exact B3|exact Hb|congruence].
        -- intros _ k a c Ek Ha Hl. subst k0.
           destruct (G j _ _ _ _ c (jops_of _ _ _ Hjb) Ha B3 ltac:(congruence) ltac:(unfold lk in *; simpl in Hl; rewrite B5; exact Hl)) as [e [s0 [Ee [Es Hle]]]].
           destruct (fe_past _ _ F _ _ _ (vop_of _ _ _ _ _ Hjb B3)) as [_ Hp]. specialize (Hp B4). rewrite Es in Hp. apply tle_Time in Hp. simpl in Hp.
           exists e, (s_now x). split; [exact Ee|]. split; [reflexivity|lia].
      * eapply TVJ_inside. destruct (machine_tr_jloc _ _ _ _ _ j H Hc Hms) as [E|[[E _]|[E _]]]; [rewrite E; exact Hloc|rewrite Hnw in E; discriminate|rewrite Hnw in E; discriminate].
    + apply Other.
      * destruct (machine_tr_jops_other sigma i _ _ _ _ _ j' H Hc Hms) as [E|[[_ E]|[E _]]]; auto; [congruence|rewrite Hnw in E; discriminate].
      * destruct (machine_tr_jloc _ _ _ _ _ j' H Hc Hms) as [E|[[E _]|[E _]]]; auto; rewrite Hnw in E; discriminate.
  - (* WORKING -> OUTAGE *)
    destruct (post_working_outage sigma i _ _ _ _ _ Hms C) as [mc [outs [sto' [occ_for [j [jb [k0 [o [Hmc [Hos [Hocc [Hj [Hjb [Hk [Ho [M1 [J1 _]]]]]]]]]]]]]]]]].
    assert (So : o_st o = OProc) by (destruct (first_proc_spec _ _ Hk) as [o0 [A B]]; congruence).
    assert (P : Pat (j_ops jb)) by (eapply (fe_pat _ _ F j); simpl; apply jops_of; auto).
    destruct (Nat.eq_dec j' j) as [->|Hd].
    + assert (Hloc : exists m0, jloc x j = Some (BIn m0)).
      { destruct (fe_proc _ _ F _ _ _ (vop_of _ _ _ _ _ Hjb Ho) So) as [[st0 [A _]] _]. simpl in A. unfold mview in A.
        destruct (nth_error (s_machs x) (o_mach o)) as [ms0|] eqn:E0; [|discriminate]. simpl in A. inversion A.
        exists (o_mach o). eapply (stored_loc i); eauto; [simpl; rewrite E0; reflexivity|rewrite H2; left; reflexivity]. }
      destruct Hloc as [m0 Hloc]. split.
      * eapply (GAPJ_upd x x' j (j_ops jb) k0 o); [apply GAP_all; auto|apply jops_of; auto|exact Ho|rewrite (jops_of _ _ _ J1); reflexivity| |].
        -- intros b Hb. eapply (Pat_after_notdone (j_ops jb) (S k0) k0 b o P); [lia|exact Ho|exact Hb|congruence].
        -- intros _ k a c Ek Ha Hl. subst k0. simpl. apply (G j (j_ops jb) k a o c (jops_of _ _ _ Hjb) Ha Ho); [congruence|unfold lk in *; simpl in Hl; exact Hl].
      * eapply TVJ_inside. destruct (machine_tr_jloc _ _ _ _ _ j H Hc Hms) as [E|[[E _]|[E _]]]; [rewrite E; exact Hloc|rewrite Hnw in E; discriminate|rewrite Hnw in E; discriminate].
    + apply Other.
      * destruct (machine_tr_jops_other sigma i _ _ _ _ _ j' H Hc Hms) as [E|[[_ E]|[E _]]]; auto; [congruence|rewrite Hnw in E; discriminate].
      * destruct (machine_tr_jloc _ _ _ _ _ j' H Hc Hms) as [E|[[E _]|[E _]]]; auto; rewrite Hnw in E; discriminate.
  - (* OUTAGE -> IDLE *)
    destruct (post_outage_idle i _ _ _ _ _ Hms C) as [j [jb [k0 [o [Hhd [Hjb [Hk [Ho [_ [[jb' [J1 [J2 J3]]] _]]]]]]]]]].
    destruct (busy_machine_job i x m ms F Hms ltac:(congruence)) as [j1 [jb1 [k1 [o1 [B1 [B2 [B3 [B4 [B5 [P [Q1 Q2]]]]]]]]]]].
    rewrite B1 in Hhd. simpl in Hhd. inversion Hhd; subst j1.
    rewrite Hjb in B2. inversion B2; subst jb1. pose proof (Q2 _ Hk) as Ek. subst k1. rewrite Ho in B3. inversion B3; subst o1.
    destruct (Nat.eq_dec j' j) as [->|Hd].
    + split.
      * eapply (GAPJ_upd x x' j (j_ops jb) k0 o); [apply GAP_all; auto|apply jops_of; auto|exact Ho|rewrite (jops_of _ _ _ J1), J3; reflexivity| |].
        -- intros b Hb. eapply (Pat_after_notdone (j_ops jb) (S k0) k0 b o P); [lia|exact Ho|exact Hb|congruence].
        -- intros _ k a c Ek Ha Hl. subst k0. simpl. apply (G j (j_ops jb) k a o c (jops_of _ _ _ Hjb) Ha Ho); [congruence|unfold lk in *; simpl in Hl; exact Hl].
      * (* released into the post-buffer of the machine that finished the operation *)
        intros ops L k a b c e H1 H2 H3 H4 H5 H6 H7.
        rewrite (jops_of _ _ _ J1), J3 in H1. inversion H1; subst ops. rewrite (jloc_of _ _ _ J1), J2 in H2. inversion H2; subst L.
        split; [intros n; discriminate|]. split; [|split; [discriminate|intros t z jb0; discriminate]].
        intros m0 Em. inversion Em; subst m0.
        assert (Hk0 : k0 < length (j_ops jb)) by (eapply nth_error_lt; eauto).
        destruct (find_idx_some _ _ _ H3) as [b0 [Hb0 [Nb0 Hbef]]].
        assert (Ek : k = k0).
        { destruct (Nat.lt_trichotomy k k0) as [Hlt|[E|Hgt]]; auto; exfalso.
          - (* S k <= k0 *) destruct (Nat.eq_dec (S k) k0) as [E|Ne].
            + rewrite E, nth_upd_same in Hb0 by auto. inversion Hb0; subst b0. unfold nd, is_ostate in Nb0. simpl in Nb0. discriminate.
            + rewrite nth_upd_other in Hb0 by congruence.
              destruct (first_proc_spec _ _ Hk) as [o0 [A0 _]].
              assert (Db : o_st b0 = ODone) by (eapply (Pat_before_proc (j_ops jb) (S k) k0); eauto; [lia|congruence]).
              unfold nd, is_ostate in Nb0. rewrite Db in Nb0. discriminate.
          - (* k > k0: operation k lies after the one just finished, it is idle *)
            rewrite nth_upd_other in H4 by lia.
            assert (Ia : o_st a = OIdle) by (eapply (Pat_after_notdone (j_ops jb) k k0); eauto; congruence).
            specialize (Hbef k a ltac:(lia)). rewrite nth_upd_other in Hbef by lia. specialize (Hbef H4).
            unfold nd, is_ostate in Hbef. rewrite Ia in Hbef. discriminate. }
        subst k. rewrite nth_upd_same in H4 by auto. inversion H4; subst a. simpl. symmetry. exact B5.
    + apply Other.
      * destruct (machine_tr_jops_other sigma i _ _ _ _ _ j' H Hc Hms) as [E|[[E _]|[_ E]]]; auto; [congruence|rewrite B1 in E; simpl in E; congruence].
      * destruct (machine_tr_jloc _ _ _ _ _ j' H Hc Hms) as [E|[[E _]|[_ [E _]]]]; auto; [rewrite Hnw in E; discriminate|rewrite B1 in E; simpl in E; congruence].
Qed.

(* ---------- transports ---------- *)
Lemma all_done_no_nd ops : forallb (is_ostate ODone) ops = true -> find_idx nd ops = None.
Proof.
  induction ops as [|o r IH]; simpl; intros H; auto. apply andb_true_iff in H. destruct H as [H1 H2].
  unfold nd at 1. rewrite H1. simpl. rewrite (IH H2). reflexivity.
Qed.

(* a job that lies on an AGV: the AGV is in TRANSIT and carries exactly that job *)
Lemma on_agv x j t ts : WFS i x -> AG x -> jloc x j = Some (BAgv t) -> nth_error (s_trans x) t = Some ts ->
  t_st ts = TTransit /\ b_store (t_buf ts) = [j].
Proof.
  intros W A Hl Hts. unfold jloc in Hl. destruct (nth_error (s_jobs x) j) as [jb|] eqn:Ej; [|discriminate]. simpl in Hl. inversion Hl as [Hl'].
  destruct (ws_loc _ _ W _ _ Ej) as [b [Hb Hin]]. rewrite Hl' in Hb. simpl in Hb. rewrite Hts in Hb. simpl in Hb. inversion Hb; subst b.
  pose proof (A _ _ (tview_of _ _ _ Hts)) as Q0. unfold holds_ok in Q0; simpl in Q0.
  destruct (t_st ts) eqn:Es; try (rewrite Q0 in Hin; destruct Hin). split; auto.
  destruct Q0 as [j0 E0]. rewrite E0 in *. destruct Hin as [->|[]]. reflexivity.
Qed.

(* what a delivery needs to know at application: the AGV is in TRANSIT and due *)
Definition due_fact_t (x : state) (tr : transition) : Prop :=
  forall t, tr_comp tr = CT t -> tr_new tr = NT TOutage ->
  exists z jb, tc x t = Some (TTransit, OAt z, jb) /\ (z <= s_now x)%Z.

Lemma TV_intro x' : GAP x' -> (forall j, TVJ x' j) -> RT i x' -> TV x'.
Proof. intros A B C. split; auto. Qed.

Theorem transport_preserves_TV x tr R x' t ts :
  NO x -> J i x -> TV x -> OD i x' -> pend x R tr -> due_fact_t x tr ->
  tr_comp tr = CT t -> nth_error (s_trans x) t = Some ts -> apply_transition sigma i x tr = Ok x' -> TV x'.
Proof.
  intros N [W [[F [A _]] _]] [G [T Rt]] O' Hpend Hdue Hc Hts H.
  assert (Hnow : s_now x' = s_now x) by (eapply apply_now; eauto).
  destruct (transport_tr_frame sigma i _ _ _ _ H Hc) as [Hjops _].
  assert (Htco : forall t0, t0 <> t -> tc x' t0 = tc x t0) by (intros t0 Hn; apply (apply_tc_other sigma i _ _ _ t0 H); rewrite Hc; congruence).
  apply TV_intro; [apply GAP_all; intros j; eapply GAPJ_same; [apply Hjops|apply GAP_all; auto]| |eapply apply_preserves_RT; eauto].
  (* a job that keeps its place and is not on this AGV *)
  assert (Keep : forall j', jloc x' j' = jloc x j' -> jloc x j' <> Some (BAgv t) -> TVJ x' j').
  { intros j' E Hn. eapply TVJ_same; eauto; [lia|]. intros t0 z jb' El Htc. destruct (Nat.eq_dec t0 t) as [->|Hd]; [congruence|].
    rewrite (Htco _ Hd) in Htc. exact Htc. }
  intros j'.
  destruct (apply_transport sigma i _ _ _ _ _ Hc Hts H) as [[Hst [Hnw C]]|[[Hst [Hnw C]]|[[Hst [Hnw C]]|[[Hst [Hnw C]]|[[Hst [Hnw C]]|[Hst [Hnw C]]]]]]].
  - (* dispatch *)
    apply Keep.
    + destruct (apply_loc_eff sigma i _ _ _ H j') as [E|[A0 [B0 [a [_ [_ [_ Hk]]]]]]]; auto. exfalso.
      destruct Hk as [[m [E _]]|[[t1 [_ [E _]]]|[t1 [_ [E _]]]]]; rewrite ?Hc, ?Hnw in E; discriminate.
    + intros El. destruct (on_agv _ _ _ _ W A El Hts) as [E _]. congruence.
  - (* arrival at the pickup place *)
    apply Keep.
    + destruct (apply_loc_eff sigma i _ _ _ H j') as [E|[A0 [B0 [a [_ [_ [_ Hk]]]]]]]; auto. exfalso.
      destruct Hk as [[m [E _]]|[[t1 [_ [E _]]]|[t1 [_ [E _]]]]]; rewrite ?Hc, ?Hnw in E; discriminate.
    + intros El. destruct (on_agv _ _ _ _ W A El Hts) as [E _]. congruence.
  - (* pickup *)
    assert (Hnot : forall j0, jloc x j0 <> Some (BAgv t)).
    { intros j0 El. destruct (on_agv _ _ _ _ W A El Hts) as [E _]. destruct Hst; congruence. }
    destruct (post_to_transit sigma i _ _ _ _ _ Hts C) as [j [jb [sb [sc [Hj [Hjb [Hsb [Hsc [[p [_ [_ Wt]]]|Rp]]]]]]]]].
    + (* the buffer does not release it: the AGV keeps waiting *)
      apply Keep; [|apply Hnot]. unfold h_t_waiting_waiting in Wt. inv_all Wt. inversion Wt; subst. apply jloc_set_trans_ctl.
    + destruct Rp as [dst [c0 [trv [_ [Hdst [Hlk [Htrv [[ts' [S1 [S2 [S3 _]]]] [_ [Hj' _]]]]]]]]]].
      destruct (Nat.eq_dec j' j) as [->|Hd].
      * (* the job taken: carried until pickup time + travel time *)
        intros ops L k a b c e H1 H2 H3 H4 H5 H6 H7.
        rewrite Hjops, (jops_of _ _ _ Hjb) in H1. inversion H1; subst ops.
        rewrite (jloc_of _ _ _ Hj') in H2. simpl in H2. inversion H2; subst L.
        split; [intros n; discriminate|]. split; [intros m; discriminate|]. split; [discriminate|].
        intros t0 z jb0 Et Htc. inversion Et; subst t0. rewrite (tc_of _ _ _ S1), S2, S3 in Htc. inversion Htc; subst z.
        destruct (T j _ _ _ _ _ _ _ (jops_of _ _ _ Hjb) (jloc_of _ _ _ Hjb) H3 H4 H5 H6 H7) as [T1 [T2 _]].
        (* where it lay: a post-buffer (pending fact), of the machine that finished the last operation *)
        destruct (Hpend Hnw) as [t1 [j1 [oc1 [Hc1 [Hj1 [_ Hlf]]]]]]. rewrite Hj in Hj1. inversion Hj1; subst j1.
        assert (Hsrc : place_of_bid (j_loc jb) = PM (o_mach a)).
        { destruct Hlf as [[L [HL [O1 [O2 O3]]]]|[t0 [HL _]]]; rewrite (jloc_of _ _ _ Hjb) in HL; inversion HL as [HL'].
          - destruct (j_loc jb) as [n|m|m|m|t0] eqn:El.
            + exfalso. apply (T1 n); reflexivity.
            + exfalso. apply (O2 m); congruence.
            + exfalso. apply (O1 m); congruence.
            + simpl. rewrite (T2 m eq_refl). reflexivity.
            + exfalso. apply (O3 t0); congruence.
          - (* it cannot lie on another AGV and be taken *)
            exfalso. destruct (apply_loc_eff sigma i _ _ _ H j) as [E|[A0 [B1 [a0 [_ [_ [_ Hk]]]]]]].
            + rewrite (jloc_of _ _ _ Hj'), (jloc_of _ _ _ Hjb) in E. simpl in E. apply (Hnot j). rewrite (jloc_of _ _ _ Hjb). congruence.
            + destruct Hk as [[m [E _]]|[[t9 [_ [_ [_ [EA [_ Hna]]]]]]|[t9 [_ [E _]]]]]; [rewrite Hc in E; discriminate| |rewrite Hnw in E; discriminate].
              rewrite (jloc_of _ _ _ Hjb) in EA. inversion EA as [EA']. apply (Hna t0). congruence. }
        (* where it goes: the machine of its first operation that is not done *)
        assert (Sb : o_st b = OIdle).
        { destruct (find_idx_some _ _ _ H3) as [b0 [Hb0 [Nb0 _]]]. rewrite H5 in Hb0. inversion Hb0; subst b0.
          assert (Hrun : is_job_running jb = false).
          { eapply (outside_not_running i); eauto. intros m Eq. destruct Hlf as [[L [HL [O1 _]]]|[t0 [HL _]]]; rewrite (jloc_of _ _ _ Hjb), Eq in HL; inversion HL; subst.
            apply (O1 m); reflexivity. }
          destruct (o_st b) eqn:Es; auto.
          - exfalso. unfold is_job_running in Hrun. assert (Q0 : existsb (is_ostate OProc) (j_ops jb) = true).
            { apply existsb_exists. exists b. split; [eapply nth_error_In; eauto|unfold is_ostate; rewrite Es; reflexivity]. }
            congruence.
          - unfold nd, is_ostate in Nb0. rewrite Es in Nb0. discriminate.
          - exfalso. destruct (fe_pat _ _ F j _ (jops_of _ _ _ Hjb)) as [Q0 _]. apply (Q0 _ _ H5). exact Es. }
        assert (Hd : dst = PM (o_mach b)).
        { unfold dest_not_done in Hdst. destruct (no_operation_idle jb) eqn:En.
          - exfalso. unfold no_operation_idle in En. pose proof (forallb_nth _ _ _ _ En H5) as Q0. unfold is_ostate in Q0. rewrite Sb in Q0. discriminate.
          - rewrite first_not_done_nd, H3 in Hdst. cbn [of_opt bind] in Hdst. rewrite H5 in Hdst. cbn [of_opt bind] in Hdst. inversion Hdst. reflexivity. }
        rewrite Hsrc, Hd in Hlk. unfold lk in H6. rewrite Hlk in H6. inversion H6; subst c0. simpl in Htrv. inversion Htrv; subst trv.
        destruct (fe_past _ _ F _ _ _ (vop_of _ _ _ _ _ Hjb H4)) as [Hp _].
        assert (Da : o_st a = ODone).
        { destruct (find_idx_some _ _ _ H3) as [_ [_ [_ Hbef]]]. specialize (Hbef k a ltac:(lia) H4). unfold nd, is_ostate in Hbef.
          destruct (o_st a); simpl in Hbef; try discriminate. reflexivity. }
        specialize (Hp Da). rewrite H7 in Hp. apply tle_Time in Hp. simpl in Hp. lia.
      * apply Keep; [|apply Hnot].
        destruct (apply_loc_eff sigma i _ _ _ H j') as [E|[A0 [B0 [a [_ [_ [_ Hk]]]]]]]; auto. exfalso.
        destruct Hk as [[m [E _]]|[[t1 [_ [_ [E _]]]]|[t1 [_ [E _]]]]]; [rewrite Hc in E; discriminate|congruence|rewrite Hnw in E; discriminate].
  - (* delivery *)
    destruct (Hdue t Hc Hnw) as [z [jbt [Htc Hz]]].
    rewrite (tc_of _ _ _ Hts) in Htc. inversion Htc as [[Z1 Z2 Z3]].
    destruct (post_deliver sigma i _ _ _ _ _ Hts C) as [j [jb [cur [src [dst [ac [B0 [outs [sto' [occ_for [Hj [Hjb [Hroute [_ [HB [_ [_ [_ [_ [Hj' _]]]]]]]]]]]]]]]]]]]].
    (* the job delivered is the job carried *)
    assert (Hon : jloc x j = Some (BAgv t)).
    { pose proof C as C2. unfold h_t_transit_outage in C2. rewrite Hj in C2. simpl in C2. unfold get_job in C2. rewrite Hjb in C2. simpl in C2.
      rewrite Hroute in C2. simpl in C2. inv_all C2.
      match goal with E' : move_job _ _ _ (BAgv t) ?Bx = Ok ?y |- _ =>
        assert (Hn2 : BAgv t <> Bx) by
          (match goal with E'' : match ?d with PM _ => _ | PB _ => _ | PT _ => _ end = Ok Bx |- _ =>
             destruct d; inv_all E''; inversion E''; congruence end);
        pose proof (move_job_moved i _ _ _ _ _ Hn2 E') as M end.
      destruct (moved_in_source i _ _ _ _ _ M) as [a0 [Ha0 Hin0]]. exact (stored_loc i _ _ _ _ W Ha0 Hin0). }
    destruct (on_agv _ _ _ _ W A Hon Hts) as [_ Hstore].
    destruct (Nat.eq_dec j' j) as [->|Hd].
    + intros ops L k a b c e H1 H2 H3 H4 H5 H6 H7.
      rewrite Hjops, (jops_of _ _ _ Hjb) in H1. inversion H1; subst ops.
      rewrite (jloc_of _ _ _ Hj') in H2. simpl in H2. inversion H2; subst L.
      destruct (T j _ _ _ _ _ _ _ (jops_of _ _ _ Hjb) Hon H3 H4 H5 H6 H7) as [_ [_ [_ T4]]].
      pose proof (T4 t z (t_job ts) eq_refl ltac:(rewrite (tc_of _ _ _ Hts), Z1, Z2; reflexivity)) as Hle.
      destruct dst as [m|n|t1]; simpl in HB; subst B0.
      * split; [intros n; discriminate|]. split; [intros m0; discriminate|]. split; [intros _; lia|intros t0 z0 jb0; discriminate].
      * (* an output buffer: the job carried there has no operation left *)
        exfalso. pose proof (Rt _ _ _ _ _ (tview_of _ _ _ Hts)) as Rr. rewrite Hroute in Rr. simpl in Rr.
        pose proof (od_out _ _ O' _ _ Hj' ltac:(simpl; exact Rr)) as Hall. unfold all_operations_done in Hall. simpl in Hall.
        rewrite (all_done_no_nd _ Hall) in H3. discriminate.
      * split; [intros n; discriminate|]. split; [intros m0; discriminate|]. split; [discriminate|].
        intros t0 z0 jb0 Et Htc0. exfalso.
        (* a transport is never a destination *)
        unfold h_t_transit_outage in C. rewrite Hj in C. simpl in C. unfold get_job in C. rewrite Hjb in C. simpl in C.
        rewrite Hroute in C. simpl in C. inv1 C. discriminate.
    + apply Keep.
      * destruct (apply_loc_eff sigma i _ _ _ H j') as [E|[A0 [B1 [a [Ha [Hina [_ Hk]]]]]]]; auto. exfalso.
        destruct Hk as [[m [E _]]|[[t1 [_ [E _]]]|[t1 [Hc1 [_ E]]]]]; [rewrite Hc in E; discriminate|rewrite Hnw in E; discriminate|].
        rewrite Hc in Hc1. inversion Hc1; subst t1. subst A0. simpl in Ha. rewrite Hts in Ha. simpl in Ha. inversion Ha; subst a.
        rewrite Hstore in Hina. destruct Hina as [E|[]]. congruence.
      * intros El. destruct (on_agv _ _ _ _ W A El Hts) as [_ E]. rewrite Hstore in E. inversion E. congruence.
  - (* release of the AGV *)
    apply Keep.
    + destruct (apply_loc_eff sigma i _ _ _ H j') as [E|[A0 [B0 [a [_ [_ [_ Hk]]]]]]]; auto. exfalso.
      destruct Hk as [[m [E _]]|[[t1 [_ [E _]]]|[t1 [_ [E _]]]]]; rewrite ?Hc, ?Hnw in E; discriminate.
    + intros El. destruct (on_agv _ _ _ _ W A El Hts) as [E _]. congruence.
  - (* waiting *)
    apply Keep.
    + destruct (apply_loc_eff sigma i _ _ _ H j') as [E|[A0 [B0 [a [_ [_ [_ Hk]]]]]]]; auto. exfalso.
      destruct Hk as [[m [E _]]|[[t1 [_ [E _]]]|[t1 [_ [E _]]]]]; rewrite ?Hc, ?Hnw in E; discriminate.
    + intros El. destruct (on_agv _ _ _ _ W A El Hts) as [E _]. congruence.
Qed.

Lemma TV_set_now x z : TV x -> (s_now x <= z)%Z -> TV (set_now x z).
Proof.
  intros [G [T R]] H. apply TV_intro.
  - apply GAP_all. intros j. eapply (GAPJ_same x); [reflexivity|apply GAP_all; auto].
  - intros j. apply (TVJ_same x (set_now x z) j eq_refl eq_refl H); [|apply T]. intros t z0 jb' _ Ht. rewrite tc_set_now in Ht. exact Ht.
  - intros t st l loc jb Hv. rewrite tview_set_now in Hv. eapply R; eauto.
Qed.

Theorem apply_preserves_TV x tr R x' :
  NO x -> J i x -> TV x -> J i x' -> pend x R tr -> due_fact_t x tr -> is_transition_valid x tr = Ok true ->
  apply_transition sigma i x tr = Ok x' -> TV x'.
Proof.
  intros N Hj T [_ [[_ [_ O']] _]] Hp Hd Hv H. destruct (tr_comp tr) as [m|t|n] eqn:Hc.
  - destruct (nth_error (s_machs x) m) as [ms|] eqn:Hms; [|unfold apply_transition in H; rewrite Hc, Hms in H; discriminate].
    eapply machine_preserves_TV; eauto.
  - destruct (nth_error (s_trans x) t) as [ts|] eqn:Hts; [|unfold apply_transition in H; rewrite Hc, Hts in H; discriminate].
    eapply transport_preserves_TV; eauto.
  - unfold apply_transition in H. rewrite Hc in H. destruct (nth_error (s_bufs x) n); discriminate.
Qed.

(* ---------- batches ---------- *)
Definition Q4 (R : list transition) (x : state) : Prop := Q R x /\ forall tr, In tr R -> due_fact_t x tr.
Definition J4 (x : state) : Prop := J i x /\ TV x.

Lemma due_fact_t_step x tr0 R x' tr1 :
  Q (tr0 :: R) x -> apply_transition sigma i x tr0 = Ok x' -> In tr1 R -> due_fact_t x tr1 -> due_fact_t x' tr1.
Proof.
  intros [ND _] H Hin Hd t Hc1 Hk. destruct (Hd t Hc1 Hk) as [z [jb [Htc Hz]]].
  assert (Hcore1 : In tr1 (core R)) by (apply in_core; auto; unfold is_tworking; rewrite Hk; reflexivity).
  exists z, jb. split; [|rewrite (apply_now sigma i _ _ _ H); exact Hz].
  rewrite (apply_tc_other sigma i _ _ _ t H); auto. intros Hc0.
  destruct (is_tworking tr0) eqn:Ew.
  - unfold tc in Htc. destruct (nth_error (s_trans x) t) as [ts|] eqn:Hts; [|discriminate]. simpl in Htc. inversion Htc as [[E1 E2 E3]].
    unfold is_tworking in Ew. destruct (tr_new tr0) as [s0|s0] eqn:En0; [discriminate|]. destruct s0; try discriminate.
    destruct (apply_transport sigma i _ _ _ _ _ Hc0 Hts H) as [[E _]|[[_ [E _]]|[[_ [E _]]|[[_ [E _]]|[[_ [E _]]|[_ [E _]]]]]]];
      try (rewrite En0 in E; discriminate). rewrite E1 in E. discriminate.
  - rewrite core_cons, Ew in ND. simpl in ND. inversion ND as [|? ? Hnin _]. apply Hnin. rewrite Hc0, <- Hc1. apply in_map. exact Hcore1.
Qed.

Theorem J4_apply x tr R x' :
  NO x -> J4 x -> Q4 (tr :: R) x -> is_transition_valid x tr = Ok true -> apply_transition sigma i x tr = Ok x' ->
  J4 x' /\ Q4 R x' /\ side2 tr x' = true.
Proof.
  intros N [Hj T] [HQ Hdue] Hv Ha.
  destruct (J_apply sigma i Hnn _ _ _ _ N Hj HQ Hv Ha) as [Hj' [HQ' S]].
  assert (T' : TV x').
  { eapply apply_preserves_TV; eauto; [destruct HQ as [_ [HP _]]; apply HP; left; reflexivity|apply Hdue; left; reflexivity]. }
  split; [split; auto|]. split; [|exact S]. split; [exact HQ'|].
  intros tr1 Hin. apply (due_fact_t_step x tr R x' tr1 HQ Ha Hin). apply Hdue. right; auto.
Qed.

Lemma J4_now x t : J4 x -> (s_now x <= t)%Z -> J4 (set_now x t).
Proof. intros [Hj T] H. split; [apply J_now; auto|apply TV_set_now; auto]. Qed.

Lemma timed_transport_outage_spec x t ts tr z :
  t_occ ts = OAt z -> timed_transport i x t ts = Ok [tr] -> tr_new tr = NT TOutage -> t_st ts = TTransit /\ (z <= s_now x)%Z.
Proof.
  intros Ho H Hn. split; [|eapply timed_transport_due; eauto].
  unfold timed_transport in H. rewrite Ho in H. destruct (z <=? s_now x)%Z; [|discriminate].
  destruct (t_st ts) eqn:Es; simpl in H; auto; exfalso.
  - inversion H.
  - discriminate.
  - destruct (create_idle_to_pick i x t ts) as [[tr0|]|] eqn:Ec; simpl in H; inversion H; subst tr0.
    unfold create_idle_to_pick in Ec. rewrite Es in Ec. inv_all Ec; inversion Ec; subst; simpl in Hn; discriminate.
  - inversion H; subst; simpl in Hn; discriminate.
  - destruct (create_idle_to_pick i x t ts) as [[tr0|]|] eqn:Ec; simpl in H; inversion H; subst tr0.
    unfold create_idle_to_pick in Ec. rewrite Es in Ec. inv_all Ec; inversion Ec; subst; simpl in Hn; discriminate.
Qed.

Lemma OK3_due_t x tr : OK3 x tr -> due_fact_t x tr.
Proof. intros [[m [j ->]]|[t [j ->]]] t0 Hc Hk; simpl in *; discriminate. Qed.

Lemma due_t_created x timed tele :
  J i x -> create_timed_transitions i x = Ok timed -> (forall tr, In tr tele -> OK3 x tr) ->
  forall tr, In tr (timed ++ tele) -> due_fact_t x tr.
Proof.
  intros HJ H Htele tr Hin. apply in_app_iff in Hin. destruct Hin as [Hin|Hin]; [|apply (OK3_due_t x); auto].
  unfold create_timed_transitions in H.
  destruct (create_timed_machine_transitions i x) as [a|] eqn:Ea; simpl in H; [|discriminate].
  destruct (create_timed_transport_transitions i x) as [b|] eqn:Eb; simpl in H; [|discriminate].
  inversion H; subst; clear H. apply in_app_iff in Hin. destruct Hin as [Hin|Hin].
  - destruct (timed_machines_comps i _ _ _ _ Ea) as [A1 _]. destruct (A1 _ Hin) as [[k [Hk _]] _].
    intros t Hc. rewrite Hc in Hk. discriminate.
  - destruct (timed_transport_slot i x _ _ HJ Eb Hin) as [k [ts [Hts [Htt [Hc' [[z Ho]|[b0 [k0 [d [_ [-> Hw]]]]]]]]]]].
    2:{ intros t _ Hk. destruct Hw as [Hw|Hw]; rewrite Hk in Hw; discriminate. }
    intros t Hc Hk. rewrite Hc in Hc'. inversion Hc'; subst k.
    destruct (timed_transport_outage_spec _ _ _ _ _ Ho Htt Hk) as [Hst Hz].
    exists z, (t_job ts). split; auto. rewrite (tc_of _ _ _ Hts), Hst, Ho. reflexivity.
Qed.

Lemma Q4_timed x timed poss tele : NO x -> J4 x -> BI x -> create_timed_transitions i x = Ok timed ->
  get_possible_transitions i x = Ok poss -> filter_teleport i x poss = Ok tele -> Q4 (timed ++ tele) x.
Proof.
  intros N [Hj _] Hb H Hp Hf. split; [eapply Q_timed; eauto|]. eapply due_t_created; eauto.
  intros tr Hin. pose proof (tele_sub i _ _ _ Hf _ Hin) as Hi. destruct (offers_shape i _ _ _ Hp Hi); [left|right]; auto.
Qed.

Lemma Q4_timed0 x timed : NO x -> J4 x -> BI x -> create_timed_transitions i x = Ok timed -> Q4 timed x.
Proof.
  intros N [Hj _] Hb H. split; [eapply Q_timed0; eauto|]. intros tr Hin.
  apply (due_t_created x timed [] Hj H (fun tr0 (Hf : In tr0 []) => match Hf with end)). rewrite app_nil_r. exact Hin.
Qed.

Lemma E4_end x : J4 x -> Q4 [] x -> BI x.
Proof. intros [Hj _] [HQ _]. eapply BI_end; eauto. Qed.

Lemma Q4_offer x o : J4 x -> BI x -> create_timed_transitions i x = Ok [] -> OK3 x o -> Q4 [o] x.
Proof.
  intros [Hj _] Hb Hct Ho. split; [apply (Q_offer i x o Hj Hb Hct); exact Ho|].
  intros tr [<-|[]]. apply OK3_due_t; auto.
Qed.

(* ---------- the boolean clause ---------- *)
Lemma gap_ops_ok ops :
  (forall k a b c, nth_error ops k = Some a -> nth_error ops (S k) = Some b -> o_st b <> OIdle -> lk a b = Some (Det c) ->
     exists e s, o_end a = Time e /\ o_start b = Time s /\ (e + c <= s)%Z) -> gap_ops i ops = true.
Proof.
  induction ops as [|a r IH]; intros H; [reflexivity|]. destruct r as [|b r']; [reflexivity|].
  cbn [gap_ops]. apply andb_true_iff. split.
  - fold (lk a b). destruct (lk a b) as [[c|id]|] eqn:El; auto.
    destruct (is_ostate OIdle b) eqn:Eb; auto.
    destruct (H 0 a b c eq_refl eq_refl) as [e [s0 [E1 [E2 Hle]]]]; auto.
    + intros Ei. unfold is_ostate in Eb. rewrite Ei in Eb. discriminate.
    + rewrite E1, E2. apply Z.leb_le. exact Hle.
  - apply IH. intros k a0 b0 c H1 H2. apply (H (S k) a0 b0 c); auto.
Qed.

Lemma GAP_travel_gap_b x : GAP x -> travel_gap_b i x = true.
Proof.
  intros G. unfold travel_gap_b. apply forallb_forall. intros jb Hin. apply In_nth_error in Hin. destruct Hin as [j Hj].
  apply gap_ops_ok. intros k a b c H1 H2 H3 H4. eapply (G j); eauto. apply jops_of; auto.
Qed.

(* a fresh state with idle AGVs standing at places *)
Lemma fresh_TV x : fresh2_b i x = true -> agv_phase_b x = true -> TV x.
Proof.
  intros Fr Ph. unfold fresh2_b in Fr. apply andb_true_iff in Fr. destruct Fr as [Fr F3]. apply andb_true_iff in Fr. destruct Fr as [Fr _].
  unfold fresh_b in Fr. apply andb_true_iff in Fr. destruct Fr as [Fr _]. apply andb_true_iff in Fr. destruct Fr as [F1 _].
  assert (Idle : forall j ops k o, jops x j = Some ops -> nth_error ops k = Some o -> o_st o = OIdle).
  { intros j ops k o H1 H2. destruct (jops_inv _ _ _ H1) as [jb [Hjb <-]].
    pose proof (forallb_nth _ _ _ _ F1 Hjb) as Q0. simpl in Q0. pose proof (forallb_nth _ _ _ _ Q0 H2) as Q1.
    unfold is_ostate in Q1. destruct (o_st o); simpl in Q1; try discriminate. reflexivity. }
  apply TV_intro.
  - intros j ops k a b c H1 H2 H3 H4. rewrite (Idle _ _ _ _ H1 H3) in H4. congruence.
  - intros j ops L k a b c e H1 H2 H3 H4 H5 H6 H7. exfalso.
    destruct (find_idx_some _ _ _ H3) as [_ [_ [_ Hbef]]]. specialize (Hbef k a ltac:(lia) H4).
    unfold nd, is_ostate in Hbef. rewrite (Idle _ _ _ _ H1 H4) in Hbef. discriminate.
  - intros t st l loc jb Hv. unfold tview in Hv. destruct (nth_error (s_trans x) t) as [ts|] eqn:E; [|discriminate].
    simpl in Hv. inversion Hv; subst.
    pose proof (forallb_nth _ _ _ _ F3 E) as Q0. simpl in Q0. apply andb_true_iff in Q0. destruct Q0 as [Q0 _].
    pose proof (forallb_nth _ _ _ _ Ph E) as Q1. simpl in Q1.
    destruct (t_st ts); simpl in Q0; try discriminate. destruct (t_loc ts); [exact I|discriminate].
Qed.

(* ---------- every run ---------- *)
Theorem run_travel_gap fuel x0 joker0 ta r m :
  clock_b x0 = true -> wfs_b i x0 = true -> fresh2_b i x0 = true -> nodep_b x0 = true -> agv_phase_b x0 = true ->
  reach sigma i fuel x0 joker0 ta r m -> travel_gap_b i (r_x r) = true.
Proof.
  intros C W Fr Dn Ph H. apply NO_iff_clock_b in C.
  assert (J0 : J4 x0) by (split; [apply J_init; auto|apply fresh_TV; auto]).
  destruct (reach_reachG sigma i Hnn J4 Q4 side2 OK3 BI J4_apply J4_now E4_end (BI_now) Q4_timed Q4_timed0 Q4_offer (offers_ok3 i) _ _ _ _ _ _ C J0 (BI_init _ Dn) H)
    as [_ [_ [xq [Nq [[_ [Gq _]] [E|[_ [z E]]]]]]]]; rewrite E.
  - apply GAP_travel_gap_b; auto.
  - exact (GAP_travel_gap_b _ Gq).
Qed.

Theorem run_micro_travel_gap fuel x0 joker0 ta r m a r' m' lg :
  clock_b x0 = true -> wfs_b i x0 = true -> fresh2_b i x0 = true -> nodep_b x0 = true -> agv_phase_b x0 = true ->
  reach sigma i fuel x0 joker0 ta r m -> mw_step sigma i fuel r m a = MOk r' m' lg ->
  forall tr y, In (tr, y) lg -> travel_gap_b i y = true.
Proof.
  intros C W Fr Dn Ph H Hm tr y Hin. apply NO_iff_clock_b in C.
  assert (J0 : J4 x0) by (split; [apply J_init; auto|apply fresh_TV; auto]).
  destruct (reach_micro_J sigma i Hnn J4 Q4 side2 OK3 BI J4_apply J4_now E4_end (BI_now) Q4_timed Q4_timed0 Q4_offer (offers_ok3 i) _ _ _ _ _ _ _ _ _ _ C J0 (BI_init _ Dn) H Hm _ _ Hin)
    as [[_ [Gy _]] _]. apply GAP_travel_gap_b; auto.
Qed.

End T.
