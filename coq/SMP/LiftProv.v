(* Generic lifting WITH PROVENANCE: a state invariant J and a batch invariant Q over the transitions still to
   be applied in the current batch (the agent's accepted offer; the timed transitions the simulator created in
   the batch's first state, followed by the teleport offers). One obligation per applied transition:
   J and Q of the remaining list survive, and a boolean side condition on (transition, post-state) follows.
   Conclusion: J in every reachable state and micro-state AND the side condition on every applied transition
   - i.e. every run of the middleware is a run of reachG (SMP/LiftSide.v) with that side condition. *)
From Coq Require Import List ZArith Bool Arith Lia.
From JSL Require Import Base.Res Base.ListX SM.Types SM.Util SM.Handler SM.Step SM.Middleware SM.Inv
  SMP.ListLemmas SMP.Frame SMP.WF SMP.Preserve SMP.StepInv SMP.Clock SMP.ClockStep SMP.ClockMain SMP.LiftSide.
Import ListNotations.
Close Scope Z_scope.

Definition not_transit (tr : transition) : Prop := tr_new tr <> NT TTransit.

(* a run with side conditions is a run *)
Lemma reachG_reach sigma i side fuel x0 joker0 ta r m :
  reachG sigma i side fuel x0 joker0 ta r m -> reach sigma i fuel x0 joker0 ta r m.
Proof. intros H. induction H; [eapply reach_reset; eauto|eapply reach_step; eauto]. Qed.

Section S.
Variable sigma : oracle.
Variable i : inst.
Hypothesis Hnn : inst_nonneg_b i = true.
Variable J : state -> Prop.
Variable Q : list transition -> state -> Prop.
Variable side : transition -> state -> bool.
(* what is known of an offer in the state it was computed in *)
Variable OK : state -> transition -> Prop.
(* what holds between two batches (after a batch was applied completely; in the initial state) *)
Variable EB : state -> Prop.

Hypothesis J_apply : forall x tr R x', NO x -> J x -> Q (tr :: R) x -> is_transition_valid x tr = Ok true ->
  apply_transition sigma i x tr = Ok x' -> J x' /\ Q R x' /\ side tr x' = true.
Hypothesis J_now : forall x t, J x -> (s_now x <= t)%Z -> J (set_now x t).
Hypothesis E_end : forall x, J x -> Q [] x -> EB x.
Hypothesis E_now : forall x t, EB x -> EB (set_now x t).
Hypothesis Q_timed : forall x timed poss tele, NO x -> J x -> EB x -> create_timed_transitions i x = Ok timed ->
  get_possible_transitions i x = Ok poss -> filter_teleport i x poss = Ok tele -> Q (timed ++ tele) x.
Hypothesis Q_timed0 : forall x timed, NO x -> J x -> EB x -> create_timed_transitions i x = Ok timed -> Q timed x.
(* an offer is applied to a state in which the simulator found nothing to do by itself *)
Hypothesis Q_offer : forall x o, J x -> EB x -> create_timed_transitions i x = Ok [] -> OK x o -> Q [o] x.
Hypothesis offers_ok : forall x offers, get_possible_transitions i x = Ok offers -> Forall (OK x) offers.

Definition sidesJ (lg : mlog) : Prop := forall tr y, In (tr, y) lg -> side tr y = true.
Definition all_J (lg : mlog) : Prop := forall tr y, In (tr, y) lg -> NO y /\ J y.

(* the micro-log as a chain: every entry was applied, in a state satisfying J and the batch invariant, to the post-state
   of the entry before it (to the state the decision started from for the first one) - up to the clock, which the time
   machines move between batches *)
Definition wit (x : state) (tr : transition) (y : state) : Prop :=
  NO x /\ J x /\ (exists R, Q (tr :: R) x) /\ is_transition_valid x tr = Ok true /\ apply_transition sigma i x tr = Ok y.
Definition ceq (x x' : state) : Prop := exists t, x' = set_now x t.
Fixpoint chainW (x : state) (lg : mlog) : Prop :=
  match lg with [] => True | (tr, y) :: r => (exists x1, ceq x x1 /\ wit x1 tr y) /\ chainW y r end.
Fixpoint lastW (x0 : state) (lg : mlog) : state := match lg with [] => x0 | (_, y) :: r => lastW y r end.

Lemma ceq_refl x : ceq x x.
Proof. exists (s_now x). destruct x; reflexivity. Qed.
Lemma ceq_now x x' t : ceq x x' -> ceq x (set_now x' t).
Proof. intros [t0 ->]. exists t. reflexivity. Qed.

Lemma chainW_snoc : forall lg x0 tr y x, chainW x0 lg -> ceq (lastW x0 lg) x -> wit x tr y ->
  chainW x0 (lg ++ [(tr, y)]) /\ lastW x0 (lg ++ [(tr, y)]) = y.
Proof.
  induction lg as [|[tr0 y0] r IH]; intros x0 tr y x Hc Hl Hw; simpl in *.
  - split; [split; [exists x; auto|exact I]|reflexivity].
  - destruct Hc as [A B]. destruct (IH y0 tr y x B Hl Hw) as [C D]. split; [split; auto|exact D].
Qed.

Lemma all_J_snoc lg tr y : all_J lg -> NO y -> J y -> all_J (lg ++ [(tr, y)]).
Proof.
  intros H N F tr' y' Hin. apply in_app_iff in Hin. destruct Hin as [Hin|[E|[]]]; eauto. inversion E; subst; auto.
Qed.
Lemma sidesJ_snoc lg tr y : sidesJ lg -> side tr y = true -> sidesJ (lg ++ [(tr, y)]).
Proof.
  intros H S tr' y' Hin. apply in_app_iff in Hin. destruct Hin as [Hin|[E|[]]]; eauto. inversion E; subst; auto.
Qed.

Lemma process_nerr_ge : forall trs x n lg x' n' lg',
  process_transitions sigma i trs x n lg = Ok (x', n', lg') -> n <= n'.
Proof.
  induction trs as [|tr r IH]; intros x n lg x' n' lg' H; simpl in H.
  - inversion H; subst; auto.
  - destruct (is_transition_valid x tr) as [v|e]; simpl in H; [|discriminate]. destruct v.
    + destruct (apply_transition sigma i x tr) as [x1|e]; simpl in H; [|discriminate]. eauto.
    + apply IH in H. lia.
Qed.

Lemma process_PQ : forall trs x n lg x' lg' xs,
  NO x -> J x -> Q trs x -> all_J lg -> sidesJ lg -> chainW xs lg -> ceq (lastW xs lg) x ->
  process_transitions sigma i trs x n lg = Ok (x', 0, lg') ->
  NO x' /\ J x' /\ all_J lg' /\ sidesJ lg' /\ s_now x' = s_now x /\ Q [] x' /\ chainW xs lg' /\ ceq (lastW xs lg') x'.
Proof.
  induction trs as [|tr r IH]; intros x n lg x' lg' xs N F HQ L S Hch Hla H; simpl in H.
  - inversion H; subst; auto 8.
  - destruct (is_transition_valid x tr) as [v|e] eqn:Ev; simpl in H; [|discriminate]. destruct v.
    + destruct (apply_transition sigma i x tr) as [x1|e] eqn:Ea; simpl in H; [|discriminate].
      pose proof (apply_preserves_NO sigma i Hnn _ _ _ N Ea) as N1.
      destruct (J_apply _ _ _ _ N F HQ Ev Ea) as [F1 [Q1 S1]].
      assert (Hw : wit x tr x1) by (split; auto; split; auto; split; [eauto|auto]).
      destruct (chainW_snoc _ _ _ _ _ Hch Hla Hw) as [Hch1 Hla1].
      destruct (IH _ _ _ _ _ xs N1 F1 Q1 (all_J_snoc _ _ _ L N1 F1) (sidesJ_snoc _ _ _ S S1) Hch1
                  ltac:(rewrite Hla1; apply ceq_refl) H) as [A [B [C [D [E0 [E1 [E2 E3]]]]]]].
      split; auto. split; auto. split; auto. split; auto. split; [rewrite E0; eapply apply_now; eauto|auto].
    + apply process_nerr_ge in H. lia.
Qed.

Definition result_J (xs : state) (lg : mlog) (x' : state) (offers : list transition) : Prop :=
  chainW xs lg /\ all_J lg /\ sidesJ lg /\ Forall (OK x') offers
  /\ exists xq, NO xq /\ J xq /\ EB xq /\ create_timed_transitions i xq = Ok []
                /\ (x' = xq \/ (offers = [] /\ exists z, x' = set_now xq z)).

Lemma loop_exit_PQ xs x x' offers lg lg' :
  chainW xs lg -> NO x -> J x -> EB x -> create_timed_transitions i x = Ok [] -> all_J lg -> sidesJ lg ->
  (if all_in_output i x
   then match max_done_end x with
        | Ok (Some z) => SOk (set_now x z) [] lg
        | Ok None => SOk x [] lg
        | Err e => SRaise e end
   else match get_possible_transitions i x with
        | Ok offers => SOk x offers lg
        | Err e => SRaise e end) = SOk x' offers lg' -> result_J xs lg' x' offers.
Proof.
  intros Hch N F He Hct L S H. destruct (all_in_output i x).
  - destruct (max_done_end x) as [[z|]|]; [| |discriminate]; injection H as E1 E2 E3; subst x' offers lg';
      (split; [exact Hch|]); (split; [exact L|]); (split; [exact S|]); (split; [constructor|]); exists x; (split; [exact N|]); (split; [exact F|]);
      (split; [exact He|]); (split; [exact Hct|]); [right; eauto|left; reflexivity].
  - destruct (get_possible_transitions i x) as [offs|] eqn:Eo; [|discriminate]. injection H as E1 E2 E3. subst x' offers lg'.
    split; [exact Hch|]. split; [exact L|]. split; [exact S|]. split; [eapply offers_ok; eauto|].
    exists x. split; [exact N|]. split; [exact F|]. split; [exact He|]. split; [exact Hct|]. left; reflexivity.
Qed.

Lemma nerr_zero n : Nat.ltb 0 n = false -> n = 0.
Proof. intros H. apply Nat.ltb_ge in H. lia. Qed.

Lemma timed_loop_PQ fuel : forall x0 x timed lg x' offers lg' xs,
  NO x -> J x -> EB x -> (exists t1 tele, create_timed_transitions i x = Ok t1 /\ timed = t1 ++ tele) ->
  Q timed x -> all_J lg -> sidesJ lg -> chainW xs lg -> ceq (lastW xs lg) x ->
  timed_loop sigma i fuel x0 x timed lg = SOk x' offers lg' ->
  result_J xs lg' x' offers.
Proof.
  assert (Hnil : forall x timed, (exists t1 tele, create_timed_transitions i x = Ok t1 /\ timed = t1 ++ tele) -> timed = [] ->
                   create_timed_transitions i x = Ok []).
  { intros x timed [t1 [tele [A B]]] ->. symmetry in B. apply app_eq_nil in B. destruct B as [-> _]. exact A. }
  induction fuel as [|f IH]; intros x0 x timed lg x' offers lg' xs N F He Hct HQ L S Hch Hla H; simpl in H.
  - destruct timed; [|discriminate]. eapply loop_exit_PQ; eauto.
  - destruct timed as [|t ts]; [eapply loop_exit_PQ; eauto|].
    destruct (process_transitions sigma i (t :: ts) x 0 lg) as [[[x1 nerr] lg1]|e] eqn:Ep; [|discriminate].
    destruct (Nat.ltb 0 nerr) eqn:En; [discriminate|]. apply nerr_zero in En. subst nerr.
    destruct (jump_to_event i x1) as [tt|e] eqn:Ej; [|discriminate].
    destruct (create_timed_transitions i (set_now x1 tt)) as [timed'|e] eqn:Ec; [|discriminate].
    destruct (process_PQ _ _ _ _ _ _ xs N F HQ L S Hch Hla Ep) as [N1 [F1 [L1 [S1 [_ [Q1 [Hch1 Hla1]]]]]]].
    destruct (jump_to_event_ok i _ _ N1 Ej) as [Hle N2].
    assert (F2 : J (set_now x1 tt)) by (apply J_now; auto).
    assert (E2 : EB (set_now x1 tt)) by (apply E_now; apply E_end; auto).
    eapply IH; [exact N2|exact F2|exact E2| | |exact L1|exact S1|exact Hch1|apply ceq_now; exact Hla1|exact H].
    + exists timed', []. rewrite app_nil_r. auto.
    + eapply Q_timed0; eauto.
Qed.

Theorem step_PQ fuel x0 trs tm x' offers lg :
  tm <> TMJumpByOne -> NO x0 -> J x0 -> EB x0 -> (trs <> [] -> Q (sorted_by_transport trs) x0) ->
  step sigma i fuel x0 trs tm = SOk x' offers lg -> result_J x0 lg x' offers.
Proof.
  intros Htm N F He HQ H. unfold step in H.
  destruct (match trs with [] => Ok (x0, 0, []) | _ :: _ => process_transitions sigma i (sorted_by_transport trs) x0 0 [] end)
    as [[[x1 nerr] lg1]|e] eqn:Ep; [|discriminate].
  destruct (Nat.ltb 0 nerr) eqn:En; [discriminate|]. apply nerr_zero in En. subst nerr.
  destruct (run_time_machine i tm x1) as [t|e] eqn:Et; [|discriminate].
  destruct (create_timed_transitions i (set_now x1 t)) as [timed|e] eqn:Ec; [|discriminate].
  destruct (get_possible_transitions i (set_now x1 t)) as [poss|e] eqn:Eg; [|discriminate].
  destruct (filter_teleport i (set_now x1 t) poss) as [tele|e] eqn:Ef; [|discriminate].
  assert (H1 : NO x1 /\ J x1 /\ all_J lg1 /\ sidesJ lg1 /\ EB x1 /\ chainW x0 lg1 /\ ceq (lastW x0 lg1) x1).
  { destruct trs as [|o os].
    - inversion Ep; subst. split; [exact N|]. split; [exact F|]. split; [intros tr y []|]. split; [intros tr y []|].
      split; [exact He|]. split; [exact I|apply ceq_refl].
    - destruct (process_PQ _ _ _ _ _ _ x0 N F (HQ ltac:(discriminate))
                  (fun tr y (Hin : In (tr, y) []) => match Hin with end)
                  (fun tr y (Hin : In (tr, y) []) => match Hin with end) I (ceq_refl x0) Ep) as [A [B [C [D [_ [Q1 [K1 K2]]]]]]]. auto 8. }
  destruct H1 as [N1 [F1 [L1 [S1 [E1 [Hch1 Hla1]]]]]].
  destruct (run_tm_ok i tm _ _ Htm N1 Et) as [Hle N2].
  assert (F2 : J (set_now x1 t)) by (apply J_now; auto).
  assert (E2 : EB (set_now x1 t)) by (apply E_now; auto).
  eapply timed_loop_PQ; [exact N2|exact F2|exact E2| | |exact L1|exact S1|exact Hch1|apply ceq_now; exact Hla1|exact H].
  - exists timed, tele. auto.
  - eapply Q_timed; eauto.
Qed.

Lemma sorted_single o : sorted_by_transport [o] = [o].
Proof. unfold sorted_by_transport. simpl. destruct (is_transport_new o); reflexivity. Qed.

Theorem mw_step_PQ fuel r m a r' m' lg :
  NO (r_x r) -> J (r_x r) -> EB (r_x r) -> create_timed_transitions i (r_x r) = Ok [] ->
  Forall (OK (r_x r)) (r_offers r) -> mw_step sigma i fuel r m a = MOk r' m' lg ->
  result_J (r_x r) lg (r_x r') (r_offers r').
Proof.
  intros N F He Hct HO H. unfold mw_step in H.
  destruct (r_offers r) as [|o1 rest] eqn:Eo; [discriminate|].
  destruct (negb ((a =? 0)%Z || (a =? 1)%Z)); [discriminate|].
  destruct (a =? 0)%Z.
  - destruct rest as [|o2 rest].
    + destruct (step sigma i fuel (r_x r) [] TMForceJump) as [x' offers lg'| | |] eqn:Es; try discriminate.
      assert (R : result_J (r_x r) lg' x' offers) by (eapply step_PQ; eauto; [discriminate|intros C; congruence]).
      destruct offers.
      * destruct (all_in_output i x'); [|discriminate]. inversion H; subst. exact R.
      * inversion H; subst. exact R.
    + inversion H; subst; simpl. split; [exact I|]. split; [intros tr y []|]. split; [intros tr y []|].
      split; [inversion HO; auto|]. exists (r_x r). split; [exact N|]. split; [exact F|]. split; [exact He|]. split; [exact Hct|]. left; reflexivity.
  - destruct (step sigma i fuel (r_x r) [o1] TMJumpToEvent) as [x' offers lg'| | |] eqn:Es; try discriminate.
    inversion H; subst. eapply step_PQ; eauto; [discriminate|].
    intros _. rewrite sorted_single. apply Q_offer; auto. inversion HO; auto.
Qed.

(* every run of the middleware satisfies the side condition on all its micro-logs *)
Theorem reach_reachG_E fuel x0 joker0 ta r m :
  NO x0 -> J x0 -> EB x0 -> reach sigma i fuel x0 joker0 ta r m ->
  reachG sigma i side fuel x0 joker0 ta r m /\ Forall (OK (r_x r)) (r_offers r)
  /\ exists xq, NO xq /\ J xq /\ EB xq /\ create_timed_transitions i xq = Ok []
                /\ (r_x r = xq \/ (r_offers r = [] /\ exists z, r_x r = set_now xq z)).
Proof.
  intros N F He H. induction H as [r m lg H|r m a r' m' lg H IH Hm].
  - pose proof H as H0. unfold mw_reset in H.
    destruct (step sigma i fuel x0 [] TMJumpToEvent) as [x' offers lg'| | |] eqn:Es; try discriminate.
    inversion H; subst. simpl.
    destruct (step_PQ fuel x0 [] TMJumpToEvent _ _ _ ltac:(discriminate) N F He ltac:(intros C; congruence) Es) as [_ [A [B [C D]]]].
    split; [eapply rg_reset; eauto|]. split; auto.
  - destruct IH as [RG [HO [xq [Nq [Fq [Eq [Hct [E0|[E0 _]]]]]]]]].
    + subst xq. destruct (mw_step_PQ _ _ _ _ _ _ _ Nq Fq Eq Hct HO Hm) as [_ [A [B [C D]]]].
      split; [eapply rg_step; eauto|]. split; auto.
    + unfold mw_step in Hm. rewrite E0 in Hm. discriminate.
Qed.

Theorem reach_reachG fuel x0 joker0 ta r m :
  NO x0 -> J x0 -> EB x0 -> reach sigma i fuel x0 joker0 ta r m ->
  reachG sigma i side fuel x0 joker0 ta r m /\ Forall (OK (r_x r)) (r_offers r)
  /\ exists xq, NO xq /\ J xq /\ (r_x r = xq \/ (r_offers r = [] /\ exists z, r_x r = set_now xq z)).
Proof.
  intros N F He H. destruct (reach_reachG_E _ _ _ _ _ _ N F He H) as [A [B [xq [Nq [Fq [_ [_ D]]]]]]].
  split; auto. split; auto. exists xq. auto.
Qed.

(* ... and J holds in every micro-state *)
Theorem reach_micro_J fuel x0 joker0 ta r m a r' m' lg :
  NO x0 -> J x0 -> EB x0 -> reach sigma i fuel x0 joker0 ta r m -> mw_step sigma i fuel r m a = MOk r' m' lg ->
  forall tr y, In (tr, y) lg -> J y /\ side tr y = true.
Proof.
  intros N F He H Hm tr y Hin.
  destruct (reach_reachG_E _ _ _ _ _ _ N F He H) as [_ [HO [xq [Nq [Fq [Eq [Hct [E0|[E0 _]]]]]]]]].
  - subst xq. destruct (mw_step_PQ _ _ _ _ _ _ _ Nq Fq Eq Hct HO Hm) as [_ [A [B _]]]. split; [apply (A _ _ Hin)|apply (B _ _ Hin)].
  - unfold mw_step in Hm. rewrite E0 in Hm. discriminate.
Qed.

(* ... and the micro-log of every decision is a chain of witnessed applications starting in the state the decision was
   taken in *)
Theorem reach_micro_chain fuel x0 joker0 ta r m a r' m' lg :
  NO x0 -> J x0 -> EB x0 -> reach sigma i fuel x0 joker0 ta r m -> mw_step sigma i fuel r m a = MOk r' m' lg ->
  chainW (r_x r) lg.
Proof.
  intros N F He H Hm.
  destruct (reach_reachG_E _ _ _ _ _ _ N F He H) as [_ [HO [xq [Nq [Fq [Eq [Hct [E0|[E0 _]]]]]]]]].
  - subst xq. destruct (mw_step_PQ _ _ _ _ _ _ _ Nq Fq Eq Hct HO Hm) as [A _]. exact A.
  - unfold mw_step in Hm. rewrite E0 in Hm. discriminate.
Qed.

End S.

(* the special case without a between-batches fact *)
Section S0.
Variable sigma : oracle.
Variable i : inst.
Hypothesis Hnn : inst_nonneg_b i = true.
Variable J : state -> Prop.
Variable Q : list transition -> state -> Prop.
Variable side : transition -> state -> bool.
Variable OK : state -> transition -> Prop.
Hypothesis J_apply : forall x tr R x', NO x -> J x -> Q (tr :: R) x -> is_transition_valid x tr = Ok true ->
  apply_transition sigma i x tr = Ok x' -> J x' /\ Q R x' /\ side tr x' = true.
Hypothesis J_now : forall x t, J x -> (s_now x <= t)%Z -> J (set_now x t).
Hypothesis Q_timed : forall x timed poss tele, NO x -> J x -> create_timed_transitions i x = Ok timed ->
  get_possible_transitions i x = Ok poss -> filter_teleport i x poss = Ok tele -> Q (timed ++ tele) x.
Hypothesis Q_timed0 : forall x timed, NO x -> J x -> create_timed_transitions i x = Ok timed -> Q timed x.
Hypothesis Q_offer : forall x o, J x -> OK x o -> Q [o] x.
Hypothesis offers_ok : forall x offers, get_possible_transitions i x = Ok offers -> Forall (OK x) offers.

Let EB0 (x : state) : Prop := True.

Theorem reach_reachG0 fuel x0 joker0 ta r m :
  NO x0 -> J x0 -> reach sigma i fuel x0 joker0 ta r m ->
  reachG sigma i side fuel x0 joker0 ta r m /\ Forall (OK (r_x r)) (r_offers r)
  /\ exists xq, NO xq /\ J xq /\ (r_x r = xq \/ (r_offers r = [] /\ exists z, r_x r = set_now xq z)).
Proof.
  intros N F H.
  apply (reach_reachG sigma i Hnn J Q side OK EB0 J_apply J_now (fun _ _ _ => I) (fun _ _ _ => I)
           (fun x timed poss tele N0 F0 _ => Q_timed x timed poss tele N0 F0)
           (fun x timed N0 F0 _ => Q_timed0 x timed N0 F0)
           (fun x o F0 _ _ => Q_offer x o F0) offers_ok fuel x0 joker0 ta r m N F I H).
Qed.

Theorem reach_micro_J0 fuel x0 joker0 ta r m a r' m' lg :
  NO x0 -> J x0 -> reach sigma i fuel x0 joker0 ta r m -> mw_step sigma i fuel r m a = MOk r' m' lg ->
  forall tr y, In (tr, y) lg -> J y /\ side tr y = true.
Proof.
  intros N F H Hm.
  apply (reach_micro_J sigma i Hnn J Q side OK EB0 J_apply J_now (fun _ _ _ => I) (fun _ _ _ => I)
           (fun x timed poss tele N0 F0 _ => Q_timed x timed poss tele N0 F0)
           (fun x timed N0 F0 _ => Q_timed0 x timed N0 F0)
           (fun x o F0 _ _ => Q_offer x o F0) offers_ok fuel x0 joker0 ta r m a r' m' lg N F I H Hm).
Qed.
End S0.
