(* Statements in the vocabulary of the monitors (boolean clauses of SM/Inv.v), obtained from the
   Prop-level invariants by reflection. *)
From Coq Require Import List ZArith Bool Arith Lia.
From JSL Require Import Base.Res Base.ListX SM.Types SM.Util SM.Handler SM.Step SM.Middleware SM.Inv
  SMP.ListLemmas SMP.Frame SMP.WF SMP.Preserve SMP.StepInv SMP.Reflect.
Import ListNotations.
Close Scope Z_scope.

Section Main.
Variable sigma : oracle.
Variable i : inst.

(* one applied transition *)
Theorem apply_wfs_b x tr x' :
  wfs_b i x = true -> apply_transition sigma i x tr = Ok x' -> wfs_b i x' = true.
Proof. intros H Ha. apply WFS_sound. eapply apply_preserves_WFS; eauto. apply WFS_complete; auto. Qed.

(* one state.step call: the returned state and every intermediate micro-state *)
Theorem step_wfs_b fuel x0 trs tm x' offers lg :
  wfs_b i x0 = true -> step sigma i fuel x0 trs tm = SOk x' offers lg ->
  wfs_b i x' = true /\ forall tr y, In (tr, y) lg -> wfs_b i y = true.
Proof.
  intros H Hs. apply WFS_complete in H. destruct (step_WFS sigma i _ _ _ _ _ _ _ H Hs) as [A B].
  split; [apply WFS_sound; auto|]. intros tr y Hin. apply WFS_sound. eauto.
Qed.

(* every state reachable through the middleware under any action sequence of any length *)
Theorem reach_wfs_b fuel x0 joker0 ta r m :
  wfs_b i x0 = true -> reach sigma i fuel x0 joker0 ta r m -> wfs_b i (r_x r) = true.
Proof. intros H Hr. apply WFS_sound. eapply reach_WFS; eauto. apply WFS_complete; auto. Qed.

Theorem reach_micro_wfs_b fuel x0 joker0 ta r m a r' m' lg :
  wfs_b i x0 = true -> reach sigma i fuel x0 joker0 ta r m -> mw_step sigma i fuel r m a = MOk r' m' lg ->
  forall tr y, In (tr, y) lg -> wfs_b i y = true.
Proof.
  intros H Hr Hs tr y Hin. apply WFS_sound. eapply reach_micro_WFS; eauto. apply WFS_complete; auto.
Qed.

Lemma wfs_b_parts x : wfs_b i x = true ->
  placement_b x = true /\ loc_b x = true /\ capacity_b i x = true /\ flags_b i x = true.
Proof. unfold wfs_b. rewrite !andb_true_iff. tauto. Qed.

End Main.
