(* The Prop-level store invariants WFS and the boolean clauses of SM/Inv.v (the ones the monitors
   evaluate on implementation states) say the same thing. *)
From Coq Require Import List ZArith Bool Arith Lia.
From JSL Require Import Base.Res Base.ListX SM.Types SM.Util SM.Step SM.Inv SMP.ListLemmas SMP.Frame SMP.WF.
Import ListNotations.
Close Scope Z_scope.

Lemma seq0_seq n : seq0 n = seq 0 n.
Proof. induction n; [reflexivity|]. rewrite seq_S. simpl. rewrite IHn. reflexivity. Qed.

Lemma in_seq0 j n : In j (seq0 n) <-> j < n.
Proof. rewrite seq0_seq, in_seq. lia. Qed.

Lemma in_indexed {A} (l : list A) s j a : In (j, a) (indexed s l) <-> s <= j /\ nth_error l (j - s) = Some a.
Proof.
  revert s; induction l as [|h t IH]; intros s; simpl.
  - split; [tauto|]. intros [_ H]. destruct (j - s); discriminate.
  - rewrite IH. split.
    + intros [E|[H1 H2]].
      * inversion E; subst. rewrite Nat.sub_diag. auto.
      * split; [lia|]. replace (j - s) with (S (j - S s)) by lia. auto.
    + intros [H1 H2]. destruct (Nat.eq_dec j s) as [->|Hne].
      * rewrite Nat.sub_diag in H2. inversion H2; subst. auto.
      * right. split; [lia|]. replace (j - s) with (S (j - S s)) in H2 by lia. auto.
Qed.

Lemma in_indexed0 {A} (l : list A) j a : In (j, a) (indexed 0 l) <-> nth_error l j = Some a.
Proof. rewrite in_indexed, Nat.sub_0_r. split; [tauto|]. intros; split; auto; lia. Qed.

Lemma forallb2_spec {A B} (f : A -> B -> bool) l l' :
  forallb2 f l l' = true <->
  length l = length l' /\ forall n a b, nth_error l n = Some a -> nth_error l' n = Some b -> f a b = true.
Proof.
  revert l'; induction l as [|h t IH]; intros [|h' t']; simpl.
  - split; auto. intros _. split; auto. intros [|n]; discriminate.
  - split; [discriminate|]. intros [H _]; discriminate.
  - split; [discriminate|]. intros [H _]; discriminate.
  - rewrite andb_true_iff, IH. split.
    + intros [H1 [H2 H3]]. split; [lia|]. intros [|n] a b Ha Hb; simpl in *.
      * inversion Ha; inversion Hb; subst; auto.
      * eauto.
    + intros [H1 H2]. split; [apply (H2 0); reflexivity|]. split; [lia|].
      intros n a b Ha Hb. apply (H2 (S n)); auto.
Qed.

Section R.
Variable i : inst.

(* clauses of Inv.v that WFS speaks about, plus the shape *)
Definition wfs_b (x : state) : bool :=
  placement_b x && loc_b x && capacity_b i x && flags_b i x.

Lemma on_all_bufs_spec f x :
  on_all_bufs i f x = true <->
  (length (s_bufs x) = length (i_bufs i) /\ length (s_machs x) = length (i_machs i)
   /\ length (s_trans x) = length (i_trans i)
   /\ forall L b c, get_buf x L = Some b -> get_bcfg i L = Some c -> f b c = true).
Proof.
  unfold on_all_bufs. rewrite !andb_true_iff, !forallb2_spec. split.
  - intros [[[L1 H1] [L2 H2]] [L3 H3]]. repeat split; auto.
    intros L b c Hb Hc. destruct L as [n|m|m|m|t]; simpl in Hb, Hc.
    + eapply H1; eauto.
    + destruct (nth_error (s_machs x) m) as [ms|] eqn:E1; [|discriminate].
      destruct (nth_error (i_machs i) m) as [mc|] eqn:E2; [|discriminate].
      inversion Hb; inversion Hc; subst. specialize (H2 _ _ _ E1 E2).
      apply andb_true_iff in H2. destruct H2 as [H2 _]. apply andb_true_iff in H2. tauto.
    + destruct (nth_error (s_machs x) m) as [ms|] eqn:E1; [|discriminate].
      destruct (nth_error (i_machs i) m) as [mc|] eqn:E2; [|discriminate].
      inversion Hb; inversion Hc; subst. specialize (H2 _ _ _ E1 E2).
      apply andb_true_iff in H2. destruct H2 as [H2 _]. apply andb_true_iff in H2. tauto.
    + destruct (nth_error (s_machs x) m) as [ms|] eqn:E1; [|discriminate].
      destruct (nth_error (i_machs i) m) as [mc|] eqn:E2; [|discriminate].
      inversion Hb; inversion Hc; subst. specialize (H2 _ _ _ E1 E2).
      apply andb_true_iff in H2. tauto.
    + destruct (nth_error (s_trans x) t) as [ts|] eqn:E1; [|discriminate].
      destruct (nth_error (i_trans i) t) as [tc|] eqn:E2; [|discriminate].
      inversion Hb; inversion Hc; subst. eapply H3; eauto.
  - intros [L1 [L2 [L3 H]]]. repeat split; auto.
    + intros n a b Ha Hb. apply (H (BStd n)); auto.
    + intros n a b Ha Hb. rewrite !andb_true_iff. repeat split.
      * apply (H (BPre n)); simpl; [rewrite Ha|rewrite Hb]; reflexivity.
      * apply (H (BIn n)); simpl; [rewrite Ha|rewrite Hb]; reflexivity.
      * apply (H (BPost n)); simpl; [rewrite Ha|rewrite Hb]; reflexivity.
    + intros n a b Ha Hb. apply (H (BAgv n)); simpl; [rewrite Ha|rewrite Hb]; reflexivity.
Qed.

Lemma in_all_stores x s : In s (all_stores x) <-> exists L b, get_buf x L = Some b /\ b_store b = s.
Proof.
  rewrite all_stores_bids, in_map_iff. split.
  - intros [L [E HL]]. destruct (in_bids_get_buf _ _ HL) as [b Hb]. exists L, b. split; auto.
    unfold store_at in E. rewrite Hb in E. auto.
  - intros [L [b [Hb E]]]. exists L. split; [unfold store_at; rewrite Hb; auto|eapply get_buf_in_bids; eauto].
Qed.

(* soundness: the Prop invariant implies every boolean clause (what the monitors check) *)
Theorem WFS_sound x : WFS i x -> wfs_b x = true.
Proof.
  intros W. unfold wfs_b. rewrite !andb_true_iff. repeat split.
  - unfold placement_b. rewrite andb_true_iff. split.
    + apply forallb_forall. intros j Hj. apply in_seq0 in Hj. apply Nat.eqb_eq.
      rewrite total_count_tcount. apply W; auto.
    + apply forallb_forall. intros s Hs. apply in_all_stores in Hs. destruct Hs as [L [b [Hb E]]]. subst.
      apply forallb_forall. intros k Hk. apply Nat.ltb_lt. eapply ws_range; eauto.
  - unfold loc_b. apply forallb_forall. intros [j jb] Hin. apply in_indexed0 in Hin.
    destruct (ws_loc _ _ W _ _ Hin) as [b [Hb Hi]]. rewrite Hb. apply mem_nat_In; auto.
  - unfold capacity_b. apply on_all_bufs_spec. repeat split; try apply W.
    intros L b c Hb Hc. unfold buf_cap_ok. apply Z.leb_le. eapply ws_cap; eauto.
  - unfold flags_b. apply on_all_bufs_spec. repeat split; try apply W.
Qed.

(* completeness: a state on which the booleans hold satisfies the Prop invariant (used for the
   hypotheses on initial states, which the harness evaluates on what the compiler produced) *)
Theorem WFS_complete x : wfs_b x = true -> WFS i x.
Proof.
  unfold wfs_b. rewrite !andb_true_iff. intros [[[Hp Hl] Hc] Hf].
  unfold placement_b in Hp. rewrite andb_true_iff in Hp. destruct Hp as [Hp1 Hp2].
  apply on_all_bufs_spec in Hc. destruct Hc as [L1 [L2 [L3 Hc]]].
  apply on_all_bufs_spec in Hf. destruct Hf as [_ [_ [_ Hf]]].
  constructor; auto.
  - intros j Hj. rewrite <- total_count_tcount. apply Nat.eqb_eq.
    rewrite forallb_forall in Hp1. apply Hp1. apply in_seq0; auto.
  - intros L b k Hb Hk. rewrite forallb_forall in Hp2.
    assert (Hs : In (b_store b) (all_stores x)) by (apply in_all_stores; eauto).
    specialize (Hp2 _ Hs). rewrite forallb_forall in Hp2. apply Nat.ltb_lt. auto.
  - intros j jb Hj. unfold loc_b in Hl. rewrite forallb_forall in Hl.
    specialize (Hl (j, jb)). simpl in Hl. rewrite in_indexed0 in Hl. specialize (Hl Hj).
    destruct (get_buf x (j_loc jb)) as [b|]; [|discriminate]. exists b. split; auto. apply mem_nat_In; auto.
  - intros L b c Hb Hcc. specialize (Hc _ _ _ Hb Hcc). unfold buf_cap_ok in Hc. apply Z.leb_le; auto.
Qed.

End R.
