(* What an AGV holds: in TRANSIT exactly one job, in every other phase none. Unconditional invariant
   (no side condition, any transition handed to apply_transition), lifted to all reachable states and
   micro-states with the generic lifting of SMP/StepInv.v. Also the transport "view" used by
   SMP/OutputDone.v. *)
From Coq Require Import List ZArith Bool Arith Lia.
From JSL Require Import Base.Res Base.ListX SM.Types SM.Util SM.Handler SM.Step SM.Middleware SM.Inv
  SMP.ListLemmas SMP.Frame SMP.WF SMP.Preserve SMP.StepInv SMP.Post SMP.PostApply.
Import ListNotations.
Close Scope Z_scope.

(* phase, stored jobs, location/route, claim *)
Definition tview (x : state) (t : nat) : option (tstate * list nat * tloc * option nat) :=
  option_map (fun ts => (t_st ts, b_store (t_buf ts), t_loc ts, t_job ts)) (nth_error (s_trans x) t).

Lemma tview_put_job x j jb t : tview (put_job x j jb) t = tview x t.
Proof. reflexivity. Qed.
Lemma tview_with_sto x s t : tview (with_sto x s) t = tview x t.
Proof. reflexivity. Qed.
Lemma tview_set_now x z t : tview (set_now x z) t = tview x t.
Proof. reflexivity. Qed.

Lemma tview_set_mach_ctl x m st oc tool outs t : tview (set_mach_ctl x m st oc tool outs) t = tview x t.
Proof.
  unfold tview. destruct (set_mach_ctl_other x m st oc tool outs) as [_ [_ [H _]]]. rewrite H. reflexivity.
Qed.

Lemma tview_set_trans_ctl x t st oc loc jb outs t' :
  tview (set_trans_ctl x t st oc loc jb outs) t' =
  (if Nat.eqb t' t then option_map (fun p => (st, snd (fst (fst p)), loc, jb)) (tview x t') else tview x t').
Proof.
  unfold tview. rewrite set_trans_ctl_nth, (Nat.eqb_sym t' t).
  destruct (nth_error (s_trans x) t') as [ts|]; [|destruct (Nat.eqb t t'); reflexivity].
  destruct (Nat.eqb t t'); reflexivity.
Qed.

Section Moved.
Variable i : inst.

Lemma tview_moved_other x x1 j A B t :
  moved i x x1 j A B -> BAgv t <> A -> BAgv t <> B -> tview x1 t = tview x t.
Proof.
  intros M HA HB. pose proof (mv_other _ _ _ _ _ _ M (BAgv t) HA HB) as Hb. simpl in Hb.
  unfold tview. destruct (nth_error (s_trans x1) t) as [ts1|] eqn:E1.
  - destruct (mv_trans _ _ _ _ _ _ M _ _ E1) as [ts0 [E0 [C1 [C2 [C3 [C4 C5]]]]]]. rewrite E0 in *. simpl in *.
    inversion Hb. congruence.
  - simpl in Hb. destruct (nth_error (s_trans x) t); [discriminate|reflexivity].
Qed.

Lemma tview_moved_target x x1 j A t st l loc jb :
  moved i x x1 j A (BAgv t) -> tview x t = Some (st, l, loc, jb) -> tview x1 t = Some (st, l ++ [j], loc, jb).
Proof.
  intros M Hv. destruct (mv_b _ _ _ _ _ _ M) as [b [b' [c [H1 [H2 [H3 H4]]]]]].
  apply put_in_buffer_ok in H3. simpl in H1, H4. unfold tview in *.
  destruct (nth_error (s_trans x) t) as [ts0|] eqn:E0; [|discriminate]. simpl in *.
  destruct (nth_error (s_trans x1) t) as [ts1|] eqn:E1; [|discriminate]. simpl in *.
  destruct (mv_trans _ _ _ _ _ _ M _ _ E1) as [ts0' [E0' [C1 [C2 [C3 [C4 C5]]]]]]. rewrite E0 in E0'. inversion E0'; subst ts0'.
  inversion H1; inversion H4; inversion Hv; subst. destruct H3 as [H3 _]. congruence.
Qed.

Lemma tview_moved_source x x1 j B t st l loc jb :
  moved i x x1 j (BAgv t) B -> tview x t = Some (st, l, loc, jb) ->
  tview x1 t = Some (st, remove_nat j l, loc, jb) /\ In j l.
Proof.
  intros M Hv. destruct (mv_a _ _ _ _ _ _ M) as [a [a' [H1 [H2 H3]]]].
  apply remove_from_buffer_ok in H2. simpl in H1, H3. unfold tview in *.
  destruct (nth_error (s_trans x) t) as [ts0|] eqn:E0; [|discriminate]. simpl in *.
  destruct (nth_error (s_trans x1) t) as [ts1|] eqn:E1; [|discriminate]. simpl in *.
  destruct (mv_trans _ _ _ _ _ _ M _ _ E1) as [ts0' [E0' [C1 [C2 [C3 [C4 C5]]]]]]. rewrite E0 in E0'. inversion E0'; subst ts0'.
  inversion H1; inversion H3; inversion Hv; subst. destruct H2 as [Hm [Hs _]]. split; [congruence|apply mem_nat_In; auto].
Qed.

End Moved.

(* ---------- the invariant ---------- *)
Definition holds_ok (p : tstate * list nat * tloc * option nat) : Prop :=
  match fst (fst (fst p)) with
  | TTransit => exists j, snd (fst (fst p)) = [j]
  | _ => snd (fst (fst p)) = []
  end.

Definition AG (x : state) : Prop := forall t p, tview x t = Some p -> holds_ok p.

Lemma AG_frame x x' : AG x -> (forall t, tview x' t = tview x t) -> AG x'.
Proof. intros A H t p Hp. rewrite H in Hp. eauto. Qed.

Section Apply.
Variable sigma : oracle.
Variable i : inst.

Lemma tview_of x t ts : nth_error (s_trans x) t = Some ts -> tview x t = Some (t_st ts, b_store (t_buf ts), t_loc ts, t_job ts).
Proof. intros H. unfold tview. rewrite H. reflexivity. Qed.

(* the AGV changes its control fields only *)
Lemma AG_ctl x t ts st oc loc jb outs :
  AG x -> nth_error (s_trans x) t = Some ts ->
  (st = TTransit -> t_st ts = TTransit) -> (st <> TTransit -> b_store (t_buf ts) = []) ->
  AG (set_trans_ctl x t st oc loc jb outs).
Proof.
  intros A Hts H1 H2 t' p Hp. rewrite tview_set_trans_ctl in Hp. destruct (Nat.eqb_spec t' t) as [->|Hne]; [|eauto].
  rewrite (tview_of _ _ _ Hts) in Hp. simpl in Hp. inversion Hp; subst p. clear Hp. unfold holds_ok; simpl.
  destruct st; try (apply H2; discriminate).
  pose proof (A _ _ (tview_of _ _ _ Hts)) as Q. unfold holds_ok in Q; simpl in Q. rewrite (H1 eq_refl) in Q. exact Q.
Qed.

Lemma AG_phase_empty x t ts : AG x -> nth_error (s_trans x) t = Some ts -> t_st ts <> TTransit -> b_store (t_buf ts) = [].
Proof.
  intros A Hts Hs. pose proof (A _ _ (tview_of _ _ _ Hts)) as Q. unfold holds_ok in Q; simpl in Q.
  destruct (t_st ts); auto; congruence.
Qed.

Theorem apply_preserves_AG x tr x' : AG x -> apply_transition sigma i x tr = Ok x' -> AG x'.
Proof.
  intros A H.
  destruct (tr_comp tr) as [m|t|n] eqn:Hc.
  - (* machines never touch an AGV *)
    destruct (nth_error (s_machs x) m) as [ms|] eqn:Hms; [|unfold apply_transition in H; rewrite Hc, Hms in H; discriminate].
    destruct (apply_machine sigma i _ _ _ _ _ Hc Hms H) as [[_ [_ C]]|[[_ [_ C]]|[[_ [_ C]]|[_ [_ C]]]]].
    + unfold h_m_idle_setup in C. inv_all C. inversion C; subst; clear C.
      assert (Hne : BPre m <> BIn m) by congruence.
      match goal with E' : move_job _ _ _ _ _ = Ok ?y |- _ =>
        pose proof (move_job_moved i _ _ _ _ _ Hne E') as M end.
      eapply AG_frame; [exact A|]. intros t. rewrite tview_with_sto, tview_set_mach_ctl.
      rewrite (tview_moved_other i _ _ _ _ _ t M) by congruence. apply tview_put_job.
    + unfold h_m_setup_working in C. inv_all C. inversion C; subst; clear C.
      eapply AG_frame; [exact A|]. intros t. rewrite tview_with_sto, tview_set_mach_ctl. apply tview_put_job.
    + unfold h_m_working_outage in C. inv_all C. inversion C; subst; clear C.
      eapply AG_frame; [exact A|]. intros t. rewrite tview_with_sto, tview_set_mach_ctl. apply tview_put_job.
    + unfold h_m_outage_idle in C. inv_all C. inversion C; subst; clear C.
      assert (Hne : BIn m <> BPost m) by congruence.
      match goal with E' : move_job _ _ _ _ _ = Ok ?y |- _ =>
        pose proof (move_job_moved i _ _ _ _ _ Hne E') as M end.
      eapply AG_frame; [exact A|]. intros t. rewrite tview_set_mach_ctl.
      rewrite (tview_moved_other i _ _ _ _ _ t M) by congruence. apply tview_put_job.
  - destruct (nth_error (s_trans x) t) as [ts|] eqn:Hts; [|unfold apply_transition in H; rewrite Hc, Hts in H; discriminate].
    destruct (apply_transport sigma i _ _ _ _ _ Hc Hts H) as [[S [_ C]]|[[S [_ C]]|[[S [_ C]]|[[S [_ C]]|[[S [_ C]]|[S [_ C]]]]]]].
    + unfold h_t_idle_working in C. inv_all C. inversion C; subst. eapply AG_ctl; eauto; [discriminate|].
      intros _. eapply AG_phase_empty; eauto. congruence.
    + unfold h_t_pickup_waiting in C. inv_all C. inversion C; subst. eapply AG_ctl; eauto; [discriminate|].
      intros _. eapply AG_phase_empty; eauto. congruence.
    + (* -> TRANSIT *)
      unfold h_t_to_transit in C. inv1 C. inv1 C. inv1 C. inv1 C. inv1 C. inv1 C.
      * unfold h_t_waiting_waiting in C. inv_all C. inversion C; subst. eapply AG_ctl; eauto; [discriminate|].
        intros _. eapply AG_phase_empty; eauto. destruct S; congruence.
      * inv_all C. inversion C; subst; clear C.
        match goal with E' : move_job _ _ _ ?A0 (BAgv t) = Ok ?y |- _ =>
          assert (Hne : A0 <> BAgv t) by (intros Eq; rewrite Eq in *; discriminate);
          assert (HA : forall t0, BAgv t0 <> A0) by (intros t0 Eq; rewrite <- Eq in *; discriminate);
          pose proof (move_job_moved i _ _ _ _ _ Hne E') as M end.
        intros t' p Hp. rewrite tview_with_sto, tview_set_trans_ctl in Hp.
        destruct (Nat.eqb_spec t' t) as [->|Hn].
        -- assert (He : b_store (t_buf ts) = []) by (eapply AG_phase_empty; eauto; destruct S; congruence).
           rewrite (tview_moved_target i _ _ _ _ _ _ _ _ _ M (tview_of _ _ _ Hts)) in Hp. simpl in Hp. inversion Hp; subst p.
           unfold holds_ok; simpl. rewrite He. simpl. eauto.
        -- rewrite (tview_moved_other i _ _ _ _ _ t' M) in Hp; [eauto|apply HA|congruence].
    + (* delivery *)
      unfold h_t_transit_outage in C. inv_all C. inversion C; subst; clear C.
      match goal with E' : move_job _ _ _ (BAgv t) ?B = Ok ?y |- _ => rename E' into Emv; rename B into B0 end.
      assert (HB : BAgv t <> B0 /\ forall t', BAgv t' <> B0).
      { match goal with E' : match ?dst with PM _ => _ | PB _ => _ | PT _ => _ end = Ok B0 |- _ =>
          destruct dst; inv_all E'; inversion E'; subst; split; congruence end. }
      destruct HB as [Hne HB].
      pose proof (move_job_moved i _ _ _ _ _ Hne Emv) as M.
      intros t' p Hp. rewrite tview_with_sto, tview_set_trans_ctl in Hp.
      destruct (Nat.eqb_spec t' t) as [->|Hn].
      * destruct (tview_moved_source i _ _ _ _ _ _ _ _ _ M (tview_of _ _ _ Hts)) as [Hv Hin].
        rewrite Hv in Hp. simpl in Hp. inversion Hp; subst p. unfold holds_ok; simpl.
        pose proof (A _ _ (tview_of _ _ _ Hts)) as Q. unfold holds_ok in Q; simpl in Q.
        destruct S as [S|S]; rewrite S in Q.
        -- destruct Q as [j0 Q]. rewrite Q in *. destruct Hin as [<-|[]]. apply remove_single.
        -- rewrite Q in Hin. destruct Hin.
      * rewrite (tview_moved_other i _ _ _ _ _ t' M) in Hp; [eauto|congruence|apply HB].
    + unfold h_t_outage_idle in C. inversion C; subst. eapply AG_ctl; eauto; [discriminate|].
      intros _. eapply AG_phase_empty; eauto. congruence.
    + unfold h_t_waiting_waiting in C. inv_all C. inversion C; subst. eapply AG_ctl; eauto; [discriminate|].
      intros _. eapply AG_phase_empty; eauto. congruence.
  - unfold apply_transition in H. rewrite Hc in H. destruct (nth_error (s_bufs x) n); discriminate.
Qed.

Lemma AG_set_now x t : AG x -> AG (set_now x t).
Proof. intros A. eapply AG_frame; eauto. Qed.

End Apply.

(* ---------- reflection and lifting ---------- *)
Lemma AG_iff_agv_load_b x : agv_load_b x = true <-> AG x.
Proof.
  unfold agv_load_b, AG. rewrite forallb_forall. split.
  - intros H t p Hp. unfold tview in Hp. destruct (nth_error (s_trans x) t) as [ts|] eqn:E; [|discriminate].
    simpl in Hp. inversion Hp; subst p. specialize (H ts (nth_error_In _ _ E)). unfold holds_ok; simpl.
    destruct (t_st ts); try (destruct (b_store (t_buf ts)); [reflexivity|discriminate]).
    destruct (b_store (t_buf ts)) as [|j [|j2 r]]; try discriminate. eauto.
  - intros H ts Hin. apply In_nth_error in Hin. destruct Hin as [t Ht].
    pose proof (H t _ (tview_of _ _ _ Ht)) as Q. unfold holds_ok in Q; simpl in Q.
    destruct (t_st ts); try (rewrite Q; reflexivity). destruct Q as [j Q]. rewrite Q. reflexivity.
Qed.

Section Reach.
Variable sigma : oracle.
Variable i : inst.

Theorem apply_agv_load_b x tr x' : agv_load_b x = true -> apply_transition sigma i x tr = Ok x' -> agv_load_b x' = true.
Proof. intros H Ha. apply AG_iff_agv_load_b. eapply apply_preserves_AG; eauto. apply AG_iff_agv_load_b; auto. Qed.

Theorem reach_agv_load_b fuel x0 joker0 ta r m :
  agv_load_b x0 = true -> reach sigma i fuel x0 joker0 ta r m -> agv_load_b (r_x r) = true.
Proof.
  intros H Hr. apply AG_iff_agv_load_b. apply AG_iff_agv_load_b in H.
  eapply (reach_P sigma i AG); eauto using apply_preserves_AG, AG_set_now.
Qed.

Theorem reach_micro_agv_load_b fuel x0 joker0 ta r m a r' m' lg :
  agv_load_b x0 = true -> reach sigma i fuel x0 joker0 ta r m -> mw_step sigma i fuel r m a = MOk r' m' lg ->
  forall tr y, In (tr, y) lg -> agv_load_b y = true.
Proof.
  intros H Hr Hs tr y Hin. apply AG_iff_agv_load_b. apply AG_iff_agv_load_b in H.
  eapply (reach_micro_P sigma i AG); eauto using apply_preserves_AG, AG_set_now.
Qed.

Theorem step_agv_load_b fuel x0 trs tm x' offers lg :
  agv_load_b x0 = true -> step sigma i fuel x0 trs tm = SOk x' offers lg ->
  agv_load_b x' = true /\ forall tr y, In (tr, y) lg -> agv_load_b y = true.
Proof.
  intros H Hs. apply AG_iff_agv_load_b in H.
  destruct (step_P sigma i AG (apply_preserves_AG sigma i) AG_set_now _ _ _ _ _ _ _ H Hs) as [A B].
  split; [apply AG_iff_agv_load_b; auto|]. intros tr y Hin. apply AG_iff_agv_load_b. eapply B; eauto.
Qed.

End Reach.

(* ---------- the phases of an AGV (agv_phase_b): also unconditional ---------- *)
Definition phase_ok (p : tstate * list nat * tloc * option nat) : Prop :=
  let '(st, l, loc, jb) := p in
  match st with
  | TPickup | TWaiting => l = [] /\ jb <> None /\ (exists a b c, loc = LRoute a b c)
  | TTransit => length l = 1 /\ (exists a b c, loc = LRoute a b c)
  | TOutage => l = [] /\ jb = None /\ (exists q, loc = LAt q)
  | TIdle => l = [] /\ (exists q, loc = LAt q)
  | TWorking => False
  end.

Definition PH (x : state) : Prop := forall t p, tview x t = Some p -> phase_ok p.

Lemma PH_frame x x' : PH x -> (forall t, tview x' t = tview x t) -> PH x'.
Proof. intros A H t p Hp. rewrite H in Hp. eauto. Qed.

Section ApplyPH.
Variable sigma : oracle.
Variable i : inst.

Lemma PH_ctl x t ts st oc loc jb outs :
  PH x -> nth_error (s_trans x) t = Some ts -> phase_ok (st, b_store (t_buf ts), loc, jb) ->
  PH (set_trans_ctl x t st oc loc jb outs).
Proof.
  intros A Hts Hp t' p Hq. rewrite tview_set_trans_ctl in Hq. destruct (Nat.eqb_spec t' t) as [->|Hne]; [|eauto].
  rewrite (tview_of _ _ _ Hts) in Hq. simpl in Hq. inversion Hq; subst p. exact Hp.
Qed.

Theorem apply_preserves_PH x tr x' : PH x -> apply_transition sigma i x tr = Ok x' -> PH x'.
Proof.
  intros A H.
  destruct (tr_comp tr) as [m|t|n] eqn:Hc.
  - destruct (nth_error (s_machs x) m) as [ms|] eqn:Hms; [|unfold apply_transition in H; rewrite Hc, Hms in H; discriminate].
    destruct (apply_machine sigma i _ _ _ _ _ Hc Hms H) as [[_ [_ C]]|[[_ [_ C]]|[[_ [_ C]]|[_ [_ C]]]]].
    + unfold h_m_idle_setup in C. inv_all C. inversion C; subst; clear C.
      assert (Hne : BPre m <> BIn m) by congruence.
      match goal with E' : move_job _ _ _ _ _ = Ok ?y |- _ => pose proof (move_job_moved i _ _ _ _ _ Hne E') as M end.
      eapply PH_frame; [exact A|]. intros t. rewrite tview_with_sto, tview_set_mach_ctl.
      rewrite (tview_moved_other i _ _ _ _ _ t M) by congruence. apply tview_put_job.
    + unfold h_m_setup_working in C. inv_all C. inversion C; subst; clear C.
      eapply PH_frame; [exact A|]. intros t. rewrite tview_with_sto, tview_set_mach_ctl. apply tview_put_job.
    + unfold h_m_working_outage in C. inv_all C. inversion C; subst; clear C.
      eapply PH_frame; [exact A|]. intros t. rewrite tview_with_sto, tview_set_mach_ctl. apply tview_put_job.
    + unfold h_m_outage_idle in C. inv_all C. inversion C; subst; clear C.
      assert (Hne : BIn m <> BPost m) by congruence.
      match goal with E' : move_job _ _ _ _ _ = Ok ?y |- _ => pose proof (move_job_moved i _ _ _ _ _ Hne E') as M end.
      eapply PH_frame; [exact A|]. intros t. rewrite tview_set_mach_ctl.
      rewrite (tview_moved_other i _ _ _ _ _ t M) by congruence. apply tview_put_job.
  - destruct (nth_error (s_trans x) t) as [ts|] eqn:Hts; [|unfold apply_transition in H; rewrite Hc, Hts in H; discriminate].
    pose proof (A _ _ (tview_of _ _ _ Hts)) as Q. simpl in Q.
    destruct (apply_transport sigma i _ _ _ _ _ Hc Hts H) as [[S [_ C]]|[[S [_ C]]|[[S [_ C]]|[[S [_ C]]|[[S [_ C]]|[S [_ C]]]]]]].
    + unfold h_t_idle_working in C. inv_all C. inversion C; subst. rewrite S in Q. destruct Q as [Q1 _].
      eapply PH_ctl; [exact A|exact Hts|]. simpl. rewrite Q1. split; auto. split; [discriminate|eauto].
    + unfold h_t_pickup_waiting in C. inv_all C. inversion C; subst. rewrite S in Q.
      eapply PH_ctl; [exact A|exact Hts|]. simpl. exact Q.
    + unfold h_t_to_transit in C. inv1 C. inv1 C. inv1 C. inv1 C. inv1 C. inv1 C.
      * unfold h_t_waiting_waiting in C. inv_all C. inversion C; subst.
        eapply PH_ctl; [exact A|exact Hts|]. simpl. destruct S as [S|S]; rewrite S in Q; exact Q.
      * inv_all C. inversion C; subst; clear C.
        match goal with E' : move_job _ _ _ ?A0 (BAgv t) = Ok ?y |- _ =>
          assert (Hne : A0 <> BAgv t) by (intros Eq; rewrite Eq in *; discriminate);
          assert (HA : forall t0, BAgv t0 <> A0) by (intros t0 Eq; rewrite <- Eq in *; discriminate);
          pose proof (move_job_moved i _ _ _ _ _ Hne E') as M end.
        assert (Q' : b_store (t_buf ts) = [] /\ exists a b c, t_loc ts = LRoute a b c) by (destruct S as [S|S]; rewrite S in Q; tauto).
        destruct Q' as [Q1 Q2].
        intros t' p Hp. rewrite tview_with_sto, tview_set_trans_ctl in Hp.
        destruct (Nat.eqb_spec t' t) as [->|Hn].
        -- rewrite (tview_moved_target i _ _ _ _ _ _ _ _ _ M (tview_of _ _ _ Hts)) in Hp. simpl in Hp. inversion Hp; subst p.
           simpl. rewrite Q1. split; auto.
        -- rewrite (tview_moved_other i _ _ _ _ _ t' M) in Hp; [eauto|apply HA|congruence].
    + unfold h_t_transit_outage in C. inv_all C. inversion C; subst; clear C.
      match goal with E' : move_job _ _ _ (BAgv t) ?B = Ok ?y |- _ => rename E' into Emv; rename B into B0 end.
      destruct (t_loc ts) as [|cur src dst] eqn:El; [discriminate|].
      assert (HB : BAgv t <> B0 /\ forall t', BAgv t' <> B0).
      { match goal with E' : match ?d0 with PM _ => _ | PB _ => _ | PT _ => _ end = Ok B0 |- _ =>
          destruct d0; inv_all E'; inversion E'; subst; split; congruence end. }
      destruct HB as [Hne HB].
      pose proof (move_job_moved i _ _ _ _ _ Hne Emv) as M.
      intros t' p Hp. rewrite tview_with_sto, tview_set_trans_ctl in Hp.
      destruct (Nat.eqb_spec t' t) as [->|Hn].
      * destruct (tview_moved_source i _ _ _ _ _ _ _ _ _ M (tview_of _ _ _ Hts)) as [Hv Hin].
        rewrite El in Hv. rewrite Hv in Hp. simpl in Hp. inversion Hp; subst p. simpl.
        destruct S as [S|S]; rewrite S in Q; [|destruct Q].
        destruct Q as [Q1 _]. destruct (b_store (t_buf ts)) as [|j0 [|]]; try discriminate.
        destruct Hin as [<-|[]]. rewrite remove_single. split; auto. split; eauto.
      * rewrite (tview_moved_other i _ _ _ _ _ t' M) in Hp; [eauto|congruence|apply HB].
    + unfold h_t_outage_idle in C. inversion C; subst. rewrite S in Q. destruct Q as [Q1 [_ Q3]].
      eapply PH_ctl; [exact A|exact Hts|]. simpl. rewrite Q1. auto.
    + unfold h_t_waiting_waiting in C. inv_all C. inversion C; subst. rewrite S in Q.
      eapply PH_ctl; [exact A|exact Hts|]. simpl. exact Q.
  - unfold apply_transition in H. rewrite Hc in H. destruct (nth_error (s_bufs x) n); discriminate.
Qed.

Lemma PH_set_now x t : PH x -> PH (set_now x t).
Proof. intros A. eapply PH_frame; eauto. Qed.

End ApplyPH.

Lemma PH_iff_agv_phase_b x :
  agv_phase_b x && forallb (fun t => match t_st t with TIdle => is_nil (b_store (t_buf t)) | _ => true end) (s_trans x) = true <-> PH x.
Proof.
  unfold agv_phase_b, PH. rewrite andb_true_iff, !forallb_forall. split.
  - intros [H H2] t p Hp. unfold tview in Hp. destruct (nth_error (s_trans x) t) as [ts|] eqn:E; [|discriminate].
    simpl in Hp. inversion Hp; subst p. pose proof (nth_error_In _ _ E) as Hin. specialize (H ts Hin). specialize (H2 ts Hin). simpl.
    destruct (t_st ts); try discriminate.
    + destruct (t_loc ts); [|discriminate]. destruct (b_store (t_buf ts)); [|discriminate]. eauto.
    + apply andb_true_iff in H. destruct H as [H Hl]. apply andb_true_iff in H. destruct H as [Hs Hj].
      destruct (b_store (t_buf ts)); [|discriminate]. destruct (t_loc ts); [discriminate|].
      split; auto. split; [destruct (t_job ts); [discriminate|discriminate]|eauto].
    + apply andb_true_iff in H. destruct H as [Hs Hl]. apply Nat.eqb_eq in Hs. destruct (t_loc ts); [discriminate|]. eauto.
    + apply andb_true_iff in H. destruct H as [H Hl]. apply andb_true_iff in H. destruct H as [Hs Hj].
      destruct (b_store (t_buf ts)); [|discriminate]. destruct (t_loc ts); [|discriminate].
      destruct (t_job ts); [discriminate|]. eauto.
    + apply andb_true_iff in H. destruct H as [H Hl]. apply andb_true_iff in H. destruct H as [Hs Hj].
      destruct (b_store (t_buf ts)); [|discriminate]. destruct (t_loc ts); [discriminate|].
      split; auto. split; [destruct (t_job ts); [discriminate|discriminate]|eauto].
  - intros H. split.
    + intros ts Hin. apply In_nth_error in Hin. destruct Hin as [t Ht].
      pose proof (H t _ (tview_of _ _ _ Ht)) as Q. simpl in Q.
      destruct (t_st ts); try tauto.
      * destruct Q as [_ [q ->]]. reflexivity.
      * destruct Q as [-> [Hj [a [b [c ->]]]]]. simpl. destruct (t_job ts); [reflexivity|congruence].
      * destruct Q as [Hl [a [b [c ->]]]]. rewrite Hl. reflexivity.
      * destruct Q as [-> [-> [q ->]]]. reflexivity.
      * destruct Q as [-> [Hj [a [b [c ->]]]]]. simpl. destruct (t_job ts); [reflexivity|congruence].
    + intros ts Hin. apply In_nth_error in Hin. destruct Hin as [t Ht].
      pose proof (H t _ (tview_of _ _ _ Ht)) as Q. simpl in Q.
      destruct (t_st ts); auto. destruct Q as [-> _]. reflexivity.
Qed.

Lemma PH_of_b x : agv_phase_b x = true -> agv_load_b x = true -> PH x.
Proof.
  intros H1 H2. apply PH_iff_agv_phase_b. apply andb_true_iff. split; auto.
  unfold agv_load_b in H2. rewrite forallb_forall in *. intros ts Hin. specialize (H2 ts Hin).
  destruct (t_st ts); auto.
Qed.
Lemma PH_agv_phase_b x : PH x -> agv_phase_b x = true.
Proof. intros H. apply PH_iff_agv_phase_b in H. apply andb_true_iff in H. tauto. Qed.

Section ReachPH.
Variable sigma : oracle.
Variable i : inst.

Theorem apply_agv_phase_b x tr x' :
  agv_phase_b x = true -> agv_load_b x = true -> apply_transition sigma i x tr = Ok x' -> agv_phase_b x' = true.
Proof. intros H1 H2 Ha. apply PH_agv_phase_b. eapply apply_preserves_PH; eauto. apply PH_of_b; auto. Qed.

Theorem reach_agv_phase_b fuel x0 joker0 ta r m :
  agv_phase_b x0 = true -> agv_load_b x0 = true -> reach sigma i fuel x0 joker0 ta r m -> agv_phase_b (r_x r) = true.
Proof.
  intros H1 H2 Hr. apply PH_agv_phase_b.
  eapply (reach_P sigma i PH); eauto using apply_preserves_PH, PH_set_now. apply PH_of_b; auto.
Qed.

Theorem reach_micro_agv_phase_b fuel x0 joker0 ta r m a r' m' lg :
  agv_phase_b x0 = true -> agv_load_b x0 = true -> reach sigma i fuel x0 joker0 ta r m ->
  mw_step sigma i fuel r m a = MOk r' m' lg -> forall tr y, In (tr, y) lg -> agv_phase_b y = true.
Proof.
  intros H1 H2 Hr Hs tr y Hin. apply PH_agv_phase_b.
  eapply (reach_micro_P sigma i PH); eauto using apply_preserves_PH, PH_set_now. apply PH_of_b; auto.
Qed.

End ReachPH.
