(* C03: a job is claimed by at most one AGV (claims_b) - in every state and micro-state of every run of the
   middleware, for EVERY instance (ordered buffers, time dependencies included). A claim is only ever set by the
   dispatch of an idle AGV (-> WORKING transitions); those come from the offers (jobs no AGV has claimed) and from
   the teleport filter (pairwise different jobs), never from the timed transitions or from a stored time
   dependency (whose transition is a -> WAITING or -> TRANSIT one: invariant DEPK). Instance of SMP/LiftProv.v. *)
From Coq Require Import List ZArith Bool Arith Lia.
From JSL Require Import Base.Res Base.ListX SM.Types SM.Util SM.Handler SM.Step SM.Middleware SM.Inv
  SMP.ListLemmas SMP.Frame SMP.WF SMP.Preserve SMP.StepInv SMP.Clock SMP.ClockStep SMP.ClockMain SMP.Post SMP.PostApply
  SMP.LiftSide SMP.Offers SMP.Prov SMP.LiftProv.
Import ListNotations.
Close Scope Z_scope.

Definition claim (x : state) (t j : nat) : Prop := exists st oc, tc x t = Some (st, oc, Some j).
Definition CLM (x : state) : Prop := forall t t' j, claim x t j -> claim x t' j -> t = t'.
Definition wait_kind (tr : transition) : Prop := tr_new tr = NT TWaiting \/ tr_new tr = NT TTransit.
Definition DEPK (x : state) : Prop := forall t st b k d jb, tc x t = Some (st, ODep b k d, jb) -> wait_kind d.
Definition JC (x : state) : Prop := CLM x /\ DEPK x.

Definition is_tw (tr : transition) : bool := match tr_new tr with NT TWorking => true | _ => false end.
Definition dispatches (R : list transition) : list transition := filter is_tw R.

(* the dispatches still to be applied name pairwise different jobs, none of them claimed *)
Definition QC (R : list transition) (x : state) : Prop :=
  NoDup (map tr_job (dispatches R))
  /\ forall tr, In tr R -> is_tw tr = true -> exists j, tr_job tr = Some j /\ forall t, ~ claim x t j.

Definition no_side (tr : transition) (y : state) : bool := true.

Lemma in_claims x j : In j (claims x) <-> exists t, claim x t j.
Proof.
  unfold claims. rewrite in_flat_map. split.
  - intros [ts [Hin Hj]]. apply In_nth_error in Hin. destruct Hin as [t Ht]. exists t.
    destruct (t_job ts) as [j0|] eqn:E; [|destruct Hj]. destruct Hj as [->|[]].
    exists (t_st ts), (t_occ ts). rewrite (tc_of _ _ _ Ht), E. reflexivity.
  - intros [t [st [oc H]]]. unfold tc in H. destruct (nth_error (s_trans x) t) as [ts|] eqn:E; [|discriminate].
    simpl in H. inversion H. exists ts. split; [eapply nth_error_In; eauto|]. rewrite H3. left; reflexivity.
Qed.

Section C.
Variable sigma : oracle.
Variable i : inst.
Hypothesis Hnn : inst_nonneg_b i = true.

Lemma claim_other x tr x' t j :
  apply_transition sigma i x tr = Ok x' -> tr_comp tr <> CT t -> (claim x' t j <-> claim x t j).
Proof. intros H Hn. unfold claim. rewrite (apply_tc_other sigma i _ _ _ t H Hn). tauto. Qed.

(* the waiting time is a time, a dependency on the handled transition, or another AGV's occupied_till *)
Lemma waiting_time_kind x tr b k d :
  get_waiting_time i x tr = Ok (ODep b k d) -> d = tr \/ exists ts, In ts (s_trans x) /\ t_occ ts = ODep b k d.
Proof.
  unfold get_waiting_time. intros H.
  destruct (tr_job tr) as [j|]; simpl in H; [|discriminate].
  destruct (get_job x j) as [jb|]; simpl in H; [|discriminate].
  destruct (get_bcfg i (j_loc jb)) as [c|]; simpl in H; [|discriminate].
  assert (Mcase : forall m,
     (ms <- get_mach x m ;;
      if mem_nat j (b_store (m_post ms)) then
        rdy <- is_ready i x j jb ;;
        if rdy : bool then Ok (OAt (s_now x))
        else
          nxt <- of_opt EInvalidValue (get_next_job_from_buffer (m_post ms) (bc_type c)) ;;
          let ts := first_transport_with_job x nxt in
          njb <- get_job x nxt ;;
          if job_is_done i njb then Ok (OAt (s_now x))
          else match ts with
               | None => Ok (ODep (j_loc jb) nxt tr)
               | Some t => Ok (t_occ t)
               end
      else
        k <- of_opt EMissingProc (first_proc jb) ;;
        o <- of_opt EMissingProc (nth_error (j_ops jb) k) ;;
        Ok (occ_of_time (o_end o))) = Ok (ODep b k d) ->
     d = tr \/ exists ts, In ts (s_trans x) /\ t_occ ts = ODep b k d).
  { intros m Hm. unfold get_mach in Hm. destruct (nth_error (s_machs x) m) as [ms|]; simpl in Hm; [|discriminate].
    destruct (mem_nat j (b_store (m_post ms))).
    - destruct (is_ready i x j jb) as [rdy|]; simpl in Hm; [|discriminate]. destruct rdy; [discriminate|].
      destruct (get_next_job_from_buffer (m_post ms) (bc_type c)) as [nxt|]; simpl in Hm; [|discriminate].
      destruct (get_job x nxt) as [njb|]; simpl in Hm; [|discriminate].
      destruct (job_is_done i njb); [discriminate|].
      destruct (first_transport_with_job x nxt) as [t2|] eqn:Ef.
      + right. exists t2. split; [|inversion Hm; reflexivity]. unfold first_transport_with_job in Ef. apply find_some in Ef. tauto.
      + left. inversion Hm; reflexivity.
    - destruct (first_proc jb) as [k0|]; simpl in Hm; [|discriminate].
      destruct (nth_error (j_ops jb) k0) as [o|]; simpl in Hm; [|discriminate].
      destruct (o_end o); discriminate. }
  destruct (j_loc jb) as [n|m|m|m|t]; try discriminate; eauto.
Qed.

Lemma DEPK_in x ts b k d : DEPK x -> In ts (s_trans x) -> t_occ ts = ODep b k d -> wait_kind d.
Proof.
  intros D Hin Ho. apply In_nth_error in Hin. destruct Hin as [t Ht].
  apply (D t (t_st ts) b k d (t_job ts)). rewrite (tc_of _ _ _ Ht), Ho. reflexivity.
Qed.

Theorem apply_preserves_DEPK x tr x' : DEPK x -> apply_transition sigma i x tr = Ok x' -> DEPK x'.
Proof.
  intros D H t st b k d jb Htc.
  destruct (tr_comp tr) as [m|t0|n] eqn:Hc.
  - rewrite (apply_tc_other sigma i _ _ _ t H) in Htc by (rewrite Hc; discriminate). eauto.
  - destruct (Nat.eq_dec t t0) as [->|Hne].
    + destruct (nth_error (s_trans x) t0) as [ts|] eqn:Hts; [|unfold apply_transition in H; rewrite Hc, Hts in H; discriminate].
      destruct (apply_tc_self sigma i _ _ _ _ _ H Hc Hts) as [st' [oc' [jb' [E [[[z Hz]|[Ho|[Hw Hk]]] _]]]]]; rewrite E in Htc; inversion Htc; subst.
      * discriminate.
      * eapply DEPK_in; eauto. eapply nth_error_In; eauto.
      * destruct (waiting_time_kind _ _ _ _ _ Hw) as [->|[ts2 [Hin Ho]]]; [exact Hk|eapply DEPK_in; eauto].
    + rewrite (apply_tc_other sigma i _ _ _ t H) in Htc by (rewrite Hc; congruence). eauto.
  - unfold apply_transition in H. rewrite Hc in H. destruct (nth_error (s_bufs x) n); discriminate.
Qed.

(* what a transition can do to the claims: only a dispatch adds one, and only the job it names *)
Lemma claim_after x tr x' t j :
  apply_transition sigma i x tr = Ok x' -> claim x' t j ->
  claim x t j \/ (tr_comp tr = CT t /\ is_tw tr = true /\ tr_job tr = Some j).
Proof.
  intros H Hcl. destruct (tr_comp tr) as [m|t0|n] eqn:Hc.
  - left. apply (claim_other _ _ _ t j H); [rewrite Hc; discriminate|exact Hcl].
  - destruct (Nat.eq_dec t t0) as [->|Hne]; [|left; apply (claim_other _ _ _ t j H); [rewrite Hc; congruence|exact Hcl]].
    destruct (nth_error (s_trans x) t0) as [ts|] eqn:Hts; [|unfold apply_transition in H; rewrite Hc, Hts in H; discriminate].
    destruct (apply_tc_self sigma i _ _ _ _ _ H Hc Hts) as [st' [oc' [jb' [E [_ [Hj|[Hj|[Hn [_ [Hj _]]]]]]]]]].
    + left. destruct Hcl as [st [oc Hcl]]. rewrite E in Hcl. inversion Hcl; subst.
      exists (t_st ts), (t_occ ts). rewrite (tc_of _ _ _ Hts), <- H3. reflexivity.
    + destruct Hcl as [st [oc Hcl]]. rewrite E in Hcl. inversion Hcl; subst. discriminate.
    + right. destruct Hcl as [st [oc Hcl]]. rewrite E in Hcl. inversion Hcl; subst.
      split; auto. split; [unfold is_tw; rewrite Hn; reflexivity|]. congruence.
  - unfold apply_transition in H. rewrite Hc in H. destruct (nth_error (s_bufs x) n); discriminate.
Qed.

Lemma dispatches_cons tr R : dispatches (tr :: R) = if is_tw tr then tr :: dispatches R else dispatches R.
Proof. reflexivity. Qed.

Theorem JC_apply x tr R x' :
  NO x -> JC x -> QC (tr :: R) x -> is_transition_valid x tr = Ok true -> apply_transition sigma i x tr = Ok x' ->
  JC x' /\ QC R x' /\ no_side tr x' = true.
Proof.
  intros _ [C D] [ND HP] _ H. split; [split|split; [split|reflexivity]].
  - (* CLM *)
    intros t t' j H1 H2.
    destruct (claim_after _ _ _ _ _ H H1) as [A1|[Hc1 [Hw1 Hj1]]]; destruct (claim_after _ _ _ _ _ H H2) as [A2|[Hc2 [Hw2 Hj2]]].
    + eapply C; eauto.
    + exfalso. destruct (HP tr (or_introl eq_refl) Hw2) as [j0 [Hj0 Hun]]. rewrite Hj2 in Hj0. inversion Hj0; subst j0. apply (Hun t); auto.
    + exfalso. destruct (HP tr (or_introl eq_refl) Hw1) as [j0 [Hj0 Hun]]. rewrite Hj1 in Hj0. inversion Hj0; subst j0. apply (Hun t'); auto.
    + congruence.
  - eapply apply_preserves_DEPK; eauto.
  - rewrite dispatches_cons in ND. destruct (is_tw tr); [inversion ND; auto|auto].
  - intros tr1 Hin Hw. destruct (HP tr1 (or_intror Hin) Hw) as [j [Hj Hun]]. exists j. split; auto.
    intros t Hcl. destruct (claim_after _ _ _ _ _ H Hcl) as [A|[Hc [Hw0 Hj0]]]; [apply (Hun t); auto|].
    rewrite dispatches_cons, Hw0 in ND. simpl in ND. inversion ND as [|? ? Hnin _]. apply Hnin.
    rewrite Hj0, <- Hj. apply in_map. unfold dispatches. apply filter_In. auto.
Qed.

Lemma JC_now x t : JC x -> (s_now x <= t)%Z -> JC (set_now x t).
Proof. intros [C D] _. split; [intros a b j H1 H2; eapply C; eauto|intros a st b k d jb H; eapply D; eauto]. Qed.

(* ---------- creation ---------- *)
Lemma timed_machine_not_tw now m ms tr : timed_machine i now m ms = Ok (Some tr) -> is_tw tr = false.
Proof.
  intros H. destruct (timed_machine_spec i _ _ _ _ H) as [[z [j [_ [_ [_ [_ [_ Hs]]]]]]]|[c [j [_ [_ [_ ->]]]]]]; [|reflexivity].
  unfold is_tw. destruct Hs as [[_ ->]|[[_ ->]|[_ ->]]]; reflexivity.
Qed.

Lemma timed_machines_not_tw now : forall l m r, timed_machines_from i now m l = Ok r -> forall tr, In tr r -> is_tw tr = false.
Proof.
  induction l as [|ms l IH]; intros m r H tr Hin; simpl in H.
  - inversion H; subst. destruct Hin.
  - destruct (timed_machine i now m ms) as [o|] eqn:Eo; simpl in H; [|discriminate].
    destruct (timed_machines_from i now (S m) l) as [rest|] eqn:Er; simpl in H; [|discriminate].
    inversion H; subst; clear H. destruct o as [tr0|]; [|eauto].
    destruct Hin as [<-|Hin]; [eapply timed_machine_not_tw; eauto|eauto].
Qed.

Lemma timed_transport_not_tw x t ts l : DEPK x -> In ts (s_trans x) ->
  timed_transport i x t ts = Ok l -> forall tr, In tr l -> is_tw tr = false.
Proof.
  unfold timed_transport. intros D Hin H tr Htr. destruct (t_occ ts) as [|z|b k d] eqn:Eo.
  - inversion H; subst. destruct Htr.
  - destruct (z <=? s_now x)%Z; [|inversion H; subst; destruct Htr].
    match type of H with bind ?e _ = _ => destruct e as [o|] eqn:Ec; simpl in H; [|discriminate] end.
    inversion H; subst; clear H. destruct o as [tr0|]; [|destruct Htr]. destruct Htr as [<-|[]].
    destruct (t_st ts) eqn:Es; try discriminate.
    + unfold create_idle_to_pick in Ec. rewrite Es in Ec. inv_all Ec; inversion Ec; subst; reflexivity.
    + unfold create_pickup_to_drop in Ec. destruct (b_store (t_buf ts)) as [|j0 [|]]; try discriminate.
      inv_all Ec. inversion Ec; subst; reflexivity.
    + inversion Ec; subst; reflexivity.
    + unfold create_idle_to_pick in Ec. rewrite Es in Ec. inv_all Ec; inversion Ec; subst; reflexivity.
  - match type of H with bind ?e _ = _ => destruct e as [r|] eqn:Er; simpl in H; [|discriminate] end.
    inversion H; subst; clear H. destruct r; [|destruct Htr]. destruct Htr as [<-|[]].
    destruct (DEPK_in _ _ _ _ _ D Hin Eo) as [E|E]; unfold is_tw; rewrite E; reflexivity.
Qed.

Lemma timed_transports_not_tw x : DEPK x -> forall l t r, (forall ts, In ts l -> In ts (s_trans x)) ->
  timed_transports_from i x t l = Ok r -> forall tr, In tr r -> is_tw tr = false.
Proof.
  intros D. induction l as [|ts l IH]; intros t r Hsub H tr Hin; simpl in H.
  - inversion H; subst. destruct Hin.
  - destruct (timed_transport i x t ts) as [a|] eqn:Ea; simpl in H; [|discriminate].
    destruct (timed_transports_from i x (S t) l) as [rest|] eqn:Er; simpl in H; [|discriminate].
    inversion H; subst; clear H. apply in_app_iff in Hin. destruct Hin as [Hin|Hin].
    + eapply timed_transport_not_tw; eauto. apply Hsub. left; reflexivity.
    + eapply IH; eauto. intros ts0 H0. apply Hsub. right; auto.
Qed.

Lemma timed_not_tw x timed : DEPK x -> create_timed_transitions i x = Ok timed -> forall tr, In tr timed -> is_tw tr = false.
Proof.
  intros D H tr Hin. unfold create_timed_transitions in H.
  destruct (create_timed_machine_transitions i x) as [a|] eqn:Ea; simpl in H; [|discriminate].
  destruct (create_timed_transport_transitions i x) as [b|] eqn:Eb; simpl in H; [|discriminate].
  inversion H; subst; clear H. apply in_app_iff in Hin. destruct Hin as [Hin|Hin].
  - eapply timed_machines_not_tw; eauto.
  - eapply (timed_transports_not_tw x D (s_trans x)); eauto.
Qed.

Lemma filter_none {A} (p : A -> bool) l : (forall a, In a l -> p a = false) -> filter p l = [].
Proof. induction l as [|h r IH]; simpl; intros H; auto. rewrite (H h (or_introl eq_refl)). apply IH. intros a Ha. apply H. right; auto. Qed.

Lemma teleport_pick_in fuel : forall l a, In a (teleport_pick fuel l) -> In a l.
Proof.
  induction fuel as [|f IH]; intros l a H; simpl in H; [destruct H|].
  destruct l as [|h r]; [destruct H|]. destruct H as [<-|H]; [left; reflexivity|].
  apply IH in H. apply filter_In in H. tauto.
Qed.

Lemma teleport_pick_jobs fuel : forall l, NoDup (map tr_job (teleport_pick fuel l)).
Proof.
  induction fuel as [|f IH]; intros l; [simpl; constructor|]. destruct l as [|h r]; [simpl; constructor|].
  cbn [teleport_pick map]. constructor; [|apply IH]. intros Hin. apply in_map_iff in Hin. destruct Hin as [y [E Hy]].
  apply teleport_pick_in in Hy. apply filter_In in Hy. destruct Hy as [_ Hy]. apply andb_true_iff in Hy. destruct Hy as [Hy _].
  rewrite E in Hy. destruct (tr_job h) as [a|]; simpl in Hy; [rewrite Nat.eqb_refl in Hy|]; discriminate.
Qed.

Lemma offer_unclaimed x offers tr :
  get_possible_transitions i x = Ok offers -> In tr offers -> is_tw tr = true ->
  exists j, tr_job tr = Some j /\ forall t, ~ claim x t j.
Proof.
  unfold get_possible_transitions. intros H Hin Hw.
  destruct (filterM _ _) as [pj|] eqn:E1 in H; simpl in H; [|discriminate].
  destruct (get_possible_transport_transition i x) as [pt|] eqn:E2; simpl in H; [|discriminate].
  destruct (mapM _ pj) as [mt|] eqn:E3 in H; simpl in H; [|discriminate].
  inversion H; subst; clear H. apply in_app_iff in Hin. destruct Hin as [Hin|Hin].
  - destruct (mapM_in' _ _ _ _ E3 Hin) as [[j jb] [Hp Hf]]. simpl in Hf. inv_all Hf. inversion Hf; subst. discriminate.
  - destruct (transport_offers_spec i _ _ _ E2 Hin) as [t [ts [j [jb [-> [_ [_ [_ [Hun _]]]]]]]]].
    exists j. split; [reflexivity|]. intros t0 Hcl. apply Hun. apply in_claims. eauto.
Qed.

Theorem QC_created x timed poss tele :
  JC x -> create_timed_transitions i x = Ok timed -> get_possible_transitions i x = Ok poss ->
  filter_teleport i x poss = Ok tele -> QC (timed ++ tele) x.
Proof.
  intros [C D] Ht Hp Hf.
  pose proof (timed_not_tw _ _ D Ht) as Hn.
  assert (Hd : dispatches (timed ++ tele) = dispatches tele).
  { unfold dispatches. rewrite filter_app, (filter_none _ _ Hn). reflexivity. }
  unfold filter_teleport in Hf.
  match type of Hf with bind ?e _ = _ => destruct e as [tl|] eqn:Ef; simpl in Hf; [|discriminate] end.
  inversion Hf; subst; clear Hf. split.
  - rewrite Hd. unfold dispatches.
    pose proof (teleport_pick_jobs (length tl) tl) as ND. revert ND. generalize (teleport_pick (length tl) tl). intros l ND.
    induction l as [|h r IH]; simpl; [constructor|]. inversion ND as [|? ? Hnin Hr]; subst.
    destruct (is_tw h); simpl; auto. constructor; auto. intros Hin. apply Hnin.
    apply in_map_iff in Hin. destruct Hin as [y [E Hy]]. apply filter_In in Hy. rewrite <- E. apply in_map. tauto.
  - intros tr Hin Hw. apply in_app_iff in Hin. destruct Hin as [Hin|Hin]; [rewrite (Hn _ Hin) in Hw; discriminate|].
    apply teleport_pick_in in Hin. destruct (filterM_in _ _ _ _ Ef Hin) as [Hi _].
    eapply offer_unclaimed; eauto.
Qed.

Lemma QC_timed x timed poss tele : NO x -> JC x -> create_timed_transitions i x = Ok timed ->
  get_possible_transitions i x = Ok poss -> filter_teleport i x poss = Ok tele -> QC (timed ++ tele) x.
Proof. intros _. apply QC_created. Qed.

Lemma QC_timed0 x timed : NO x -> JC x -> create_timed_transitions i x = Ok timed -> QC timed x.
Proof.
  intros _ [C D] Ht. pose proof (timed_not_tw _ _ D Ht) as Hn. split.
  - unfold dispatches. rewrite (filter_none _ _ Hn). constructor.
  - intros tr Hin Hw. rewrite (Hn _ Hin) in Hw. discriminate.
Qed.

Definition OKC (x : state) (tr : transition) : Prop := is_tw tr = true -> exists j, tr_job tr = Some j /\ forall t, ~ claim x t j.

Lemma QC_offer x o : JC x -> OKC x o -> QC [o] x.
Proof.
  intros _ Ho. split.
  - unfold dispatches. simpl. destruct (is_tw o); simpl; repeat constructor; auto.
  - intros tr [<-|[]] Hw. apply Ho; auto.
Qed.

Lemma offers_okc x offers : get_possible_transitions i x = Ok offers -> Forall (OKC x) offers.
Proof. intros H. apply Forall_forall. intros tr Hin Hw. eapply offer_unclaimed; eauto. Qed.

(* ---------- every run ---------- *)
Lemma CLM_claims_b x : CLM x -> claims_b x = true.
Proof.
  intros C. unfold claims_b, claims.
  assert (G : forall l off, (forall k ts, nth_error l k = Some ts -> nth_error (s_trans x) (off + k) = Some ts) ->
            nodup_nat (flat_map (fun t => match t_job t with Some j => [j] | None => [] end) l) = true).
  { induction l as [|ts l IH]; intros off Hl; [reflexivity|]. simpl.
    assert (IH' : nodup_nat (flat_map (fun t => match t_job t with Some j => [j] | None => [] end) l) = true).
    { apply (IH (S off)). intros k ts0 Hk. replace (S off + k) with (off + S k) by lia. apply Hl. exact Hk. }
    destruct (t_job ts) as [j|] eqn:Ej; [|exact IH']. simpl. rewrite IH', andb_true_r. apply negb_true_iff.
    destruct (mem_nat j _) eqn:Em; auto. exfalso. apply mem_nat_In in Em. apply in_flat_map in Em.
    destruct Em as [ts2 [Hin2 Hj2]]. apply In_nth_error in Hin2. destruct Hin2 as [k2 Hk2].
    destruct (t_job ts2) as [j2|] eqn:Ej2; [|destruct Hj2]. destruct Hj2 as [->|[]].
    pose proof (Hl 0 ts eq_refl) as H0. pose proof (Hl (S k2) ts2 Hk2) as H2.
    assert (E : off + 0 = off + S k2).
    { apply (C _ _ j); [exists (t_st ts), (t_occ ts); rewrite (tc_of _ _ _ H0), Ej; reflexivity
                       |exists (t_st ts2), (t_occ ts2); rewrite (tc_of _ _ _ H2), Ej2; reflexivity]. }
    lia. }
  apply (G (s_trans x) 0). intros k ts Hk. exact Hk.
Qed.

Lemma nodup_claims_lt (j : nat) : forall (l : list transport) t t' ts ts',
  nth_error l t = Some ts -> nth_error l t' = Some ts' -> t_job ts = Some j -> t_job ts' = Some j -> t < t' ->
  nodup_nat (flat_map (fun t0 => match t_job t0 with Some j0 => [j0] | None => [] end) l) = true -> False.
Proof.
  induction l as [|h r IH]; intros t t' ts ts' E1 E2 A3 B3 Hlt H; [destruct t; discriminate|].
  simpl in H. destruct t as [|t].
  - simpl in E1. inversion E1; subst h. rewrite A3 in H. simpl in H. apply andb_true_iff in H. destruct H as [H _].
    apply negb_true_iff in H. destruct t' as [|t']; [lia|]. simpl in E2.
    assert (Hin : In j (flat_map (fun t0 => match t_job t0 with Some j0 => [j0] | None => [] end) r)).
    { apply in_flat_map. exists ts'. split; [eapply nth_error_In; eauto|]. rewrite B3. left; reflexivity. }
    apply mem_nat_In in Hin. congruence.
  - destruct t' as [|t']; [lia|]. simpl in E1, E2.
    assert (Hr : nodup_nat (flat_map (fun t0 => match t_job t0 with Some j0 => [j0] | None => [] end) r) = true).
    { destruct (t_job h); simpl in H; [apply andb_true_iff in H; tauto|exact H]. }
    eapply (IH t t'); eauto. lia.
Qed.

Lemma claims_b_CLM x : claims_b x = true -> CLM x.
Proof.
  unfold claims_b, claims. intros H t t' j [st [oc H1]] [st' [oc' H2]].
  unfold tc in H1, H2.
  destruct (nth_error (s_trans x) t) as [ts|] eqn:E1; [|discriminate]. destruct (nth_error (s_trans x) t') as [ts'|] eqn:E2; [|discriminate].
  simpl in H1, H2. inversion H1 as [[A1 A2 A3]]. inversion H2 as [[B1 B2 B3]].
  destruct (Nat.lt_trichotomy t t') as [Hlt|[Heq|Hgt]]; auto; exfalso.
  - eapply (nodup_claims_lt j (s_trans x) t t'); eauto.
  - eapply (nodup_claims_lt j (s_trans x) t' t); eauto.
Qed.

Definition depk_b (x : state) : bool :=
  forallb (fun ts => match t_occ ts with
                     | ODep _ _ d => match tr_new d with NT TWaiting | NT TTransit => true | _ => false end
                     | _ => true end) (s_trans x).

Lemma depk_b_DEPK x : depk_b x = true -> DEPK x.
Proof.
  intros H t st b k d jb Htc. unfold tc in Htc. destruct (nth_error (s_trans x) t) as [ts|] eqn:E; [|discriminate].
  simpl in Htc. inversion Htc as [[A1 A2 A3]]. pose proof (forallb_nth _ _ _ _ H E) as Q0. simpl in Q0. rewrite A2 in Q0.
  unfold wait_kind. destruct (tr_new d) as [s|s]; [discriminate|]. destruct s; try discriminate; auto.
Qed.

Lemma nodep_depk x : nodep_b x = true -> depk_b x = true.
Proof.
  unfold nodep_b, depk_b. intros H. rewrite forallb_forall in *. intros ts Hin. specialize (H ts Hin).
  destruct (t_occ ts); auto; discriminate.
Qed.

Theorem reach_claims fuel x0 joker0 ta r m :
  clock_b x0 = true -> claims_b x0 = true -> depk_b x0 = true ->
  reach sigma i fuel x0 joker0 ta r m -> claims_b (r_x r) = true.
Proof.
  intros Cl C D H. apply NO_iff_clock_b in Cl.
  destruct (reach_reachG0 sigma i Hnn JC QC no_side OKC JC_apply JC_now QC_timed QC_timed0 QC_offer offers_okc
              _ _ _ _ _ _ Cl (conj (claims_b_CLM _ C) (depk_b_DEPK _ D)) H) as [_ [_ [xq [Nq [[Cq _] [E|[_ [z E]]]]]]]]; rewrite E.
  - apply CLM_claims_b; auto.
  - exact (CLM_claims_b _ Cq).
Qed.

Theorem reach_micro_claims fuel x0 joker0 ta r m a r' m' lg :
  clock_b x0 = true -> claims_b x0 = true -> depk_b x0 = true ->
  reach sigma i fuel x0 joker0 ta r m -> mw_step sigma i fuel r m a = MOk r' m' lg ->
  forall tr y, In (tr, y) lg -> claims_b y = true.
Proof.
  intros Cl C D H Hm tr y Hin. apply NO_iff_clock_b in Cl.
  destruct (reach_micro_J0 sigma i Hnn JC QC no_side OKC JC_apply JC_now QC_timed QC_timed0 QC_offer offers_okc
              _ _ _ _ _ _ _ _ _ _ Cl (conj (claims_b_CLM _ C) (depk_b_DEPK _ D)) H Hm _ _ Hin) as [[Cy _] _].
  apply CLM_claims_b; auto.
Qed.

End C.
