(* The store invariants (conservation, location, capacity, flags) in Prop form, their generic
   preservation under "move one job" and under updates that leave the stores alone. *)
From Coq Require Import List ZArith Bool Arith Lia.
From JSL Require Import Base.Res Base.ListX SM.Types SM.Util SM.Inv SMP.ListLemmas SMP.Frame.
Import ListNotations.
Close Scope Z_scope.

(* ---------- enumeration of buffer identifiers ---------- *)
Definition store_at (x : state) (L : bid) : list nat :=
  match get_buf x L with Some b => b_store b | None => [] end.

Definition mach_bids (m : nat) : list bid := [BPre m; BIn m; BPost m].
Definition all_bids (nb nm nt : nat) : list bid :=
  map BStd (seq 0 nb) ++ flat_map mach_bids (seq 0 nm) ++ map BAgv (seq 0 nt).
Definition bids_of (x : state) : list bid :=
  all_bids (length (s_bufs x)) (length (s_machs x)) (length (s_trans x)).

Definition tcount (x : state) (j : nat) : nat :=
  sum_nat (map (fun L => count_nat j (store_at x L)) (bids_of x)).

Lemma map_index {A B} (f : A -> B) (g : nat -> B) (l : list A) s :
  (forall n a, nth_error l n = Some a -> g (s + n) = f a) -> map g (seq s (length l)) = map f l.
Proof.
  revert s; induction l as [|h t IH]; intros s H; simpl; auto.
  f_equal.
  - specialize (H 0 h eq_refl). rewrite Nat.add_0_r in H. auto.
  - apply IH. intros n a Hn. specialize (H (S n) a Hn). rewrite Nat.add_succ_comm. auto.
Qed.

Lemma flat_map_index {A B} (f : A -> list B) (g : nat -> list B) (l : list A) s :
  (forall n a, nth_error l n = Some a -> g (s + n) = f a) -> flat_map g (seq s (length l)) = flat_map f l.
Proof.
  revert s; induction l as [|h t IH]; intros s H; simpl; auto.
  f_equal.
  - specialize (H 0 h eq_refl). rewrite Nat.add_0_r in H. auto.
  - apply IH. intros n a Hn. specialize (H (S n) a Hn). rewrite Nat.add_succ_comm. auto.
Qed.

Lemma all_stores_bids x : all_stores x = map (store_at x) (bids_of x).
Proof.
  unfold all_stores, bids_of, all_bids. rewrite !map_app. f_equal; [|f_equal].
  - rewrite map_map. symmetry. apply map_index. intros n a H. unfold store_at; simpl. rewrite H. reflexivity.
  - assert (E : forall l, map (store_at x) (flat_map mach_bids l) = flat_map (fun m => map (store_at x) (mach_bids m)) l).
    { induction l; simpl; auto. rewrite IHl. reflexivity. }
    rewrite E. symmetry. apply flat_map_index. intros n a H.
    unfold store_at, mach_stores; simpl. rewrite H. reflexivity.
  - rewrite map_map. symmetry. apply map_index. intros n a H. unfold store_at; simpl. rewrite H. reflexivity.
Qed.

Lemma total_count_tcount x j : total_count x j = tcount x j.
Proof. unfold total_count, tcount. rewrite all_stores_bids, map_map. reflexivity. Qed.

Lemma in_all_bids nb nm nt L :
  In L (all_bids nb nm nt) <->
  match L with
  | BStd n => n < nb | BPre m | BIn m | BPost m => m < nm | BAgv t => t < nt end.
Proof.
  unfold all_bids. rewrite !in_app_iff, !in_map_iff, in_flat_map. split.
  - intros [[n [E H]]|[[m [H1 H2]]|[t [E H]]]].
    + subst. apply in_seq in H. lia.
    + apply in_seq in H1. simpl in H2. destruct H2 as [E|[E|[E|[]]]]; subst; lia.
    + subst. apply in_seq in H. lia.
  - destruct L as [n|m|m|m|t]; intros H.
    + left. exists n. split; auto. apply in_seq. lia.
    + right; left. exists m. split; [apply in_seq; lia|simpl; auto].
    + right; left. exists m. split; [apply in_seq; lia|simpl; auto].
    + right; left. exists m. split; [apply in_seq; lia|simpl; auto].
    + right; right. exists t. split; auto. apply in_seq. lia.
Qed.

Lemma get_buf_in_bids x L b : get_buf x L = Some b -> In L (bids_of x).
Proof.
  intros H. apply in_all_bids. destruct L; simpl in H.
  - eapply nth_error_lt; eauto.
  - destruct (nth_error (s_machs x) m) eqn:E; [|discriminate]. eapply nth_error_lt; eauto.
  - destruct (nth_error (s_machs x) m) eqn:E; [|discriminate]. eapply nth_error_lt; eauto.
  - destruct (nth_error (s_machs x) m) eqn:E; [|discriminate]. eapply nth_error_lt; eauto.
  - destruct (nth_error (s_trans x) t) eqn:E; [|discriminate]. eapply nth_error_lt; eauto.
Qed.

Lemma in_bids_get_buf x L : In L (bids_of x) -> exists b, get_buf x L = Some b.
Proof.
  intros H. apply in_all_bids in H. destruct L; simpl in *.
  - destruct (nth_error (s_bufs x) n) eqn:E; eauto. apply nth_error_None in E. lia.
  - destruct (nth_error (s_machs x) m) eqn:E; simpl; eauto. apply nth_error_None in E. lia.
  - destruct (nth_error (s_machs x) m) eqn:E; simpl; eauto. apply nth_error_None in E. lia.
  - destruct (nth_error (s_machs x) m) eqn:E; simpl; eauto. apply nth_error_None in E. lia.
  - destruct (nth_error (s_trans x) t) eqn:E; simpl; eauto. apply nth_error_None in E. lia.
Qed.

Lemma NoDup_map_inj {A B} (f : A -> B) l : (forall a b, f a = f b -> a = b) -> NoDup l -> NoDup (map f l).
Proof.
  intros Hinj H. induction H; simpl; constructor; auto.
  intros Hin. apply in_map_iff in Hin. destruct Hin as [y [E Hy]]. apply Hinj in E. subst. auto.
Qed.

Lemma NoDup_app {A} (l1 l2 : list A) :
  NoDup l1 -> NoDup l2 -> (forall a, In a l1 -> ~ In a l2) -> NoDup (l1 ++ l2).
Proof.
  intros H1 H2 H. induction H1; simpl; auto.
  constructor.
  - rewrite in_app_iff. intros [Hi|Hi]; auto. eapply H; eauto. left; auto.
  - apply IHNoDup. intros a Ha. apply H. right; auto.
Qed.

Lemma NoDup_flat_mach l : NoDup l -> NoDup (flat_map mach_bids l).
Proof.
  induction 1 as [|m l Hn Hd IH]; simpl; [constructor|].
  assert (F : forall k b, In b (flat_map mach_bids l) -> (b = BPre k \/ b = BIn k \/ b = BPost k) -> In k l).
  { intros k b Hb Hk. apply in_flat_map in Hb. destruct Hb as [m' [H1 H2]]. simpl in H2.
    destruct H2 as [E|[E|[E|[]]]]; subst; destruct Hk as [E|[E|E]]; inversion E; subst; auto. }
  constructor; [|constructor; [|constructor]]; auto.
  - simpl. intros [E|[E|Hi]]; try discriminate. apply Hn. eapply F; eauto.
  - simpl. intros [E|Hi]; try discriminate. apply Hn. eapply F; eauto.
  - intros Hi. apply Hn. eapply F; eauto.
Qed.

Lemma NoDup_all_bids nb nm nt : NoDup (all_bids nb nm nt).
Proof.
  unfold all_bids. apply NoDup_app; [|apply NoDup_app|].
  - apply NoDup_map_inj; [intros a b E; inversion E; auto|apply seq_NoDup].
  - apply NoDup_flat_mach. apply seq_NoDup.
  - apply NoDup_map_inj; [intros a b E; inversion E; auto|apply seq_NoDup].
  - intros a Ha Hb. apply in_flat_map in Ha. destruct Ha as [m [_ H]]. apply in_map_iff in Hb.
    destruct Hb as [t [E _]]. simpl in H. destruct H as [H|[H|[H|[]]]]; subst; discriminate.
  - intros a Ha Hb. apply in_map_iff in Ha. destruct Ha as [n [E _]]. subst.
    apply in_app_iff in Hb. destruct Hb as [Hb|Hb].
    + apply in_flat_map in Hb. destruct Hb as [m [_ H]]. simpl in H.
      destruct H as [H|[H|[H|[]]]]; discriminate.
    + apply in_map_iff in Hb. destruct Hb as [t [E _]]. discriminate.
Qed.

(* changing a summand at one point of a duplicate-free index list *)
Lemma sum_change1 {A} (f f' : A -> nat) (l : list A) a :
  NoDup l -> In a l -> (forall b, b <> a -> f' b = f b) ->
  sum_nat (map f' l) + f a = sum_nat (map f l) + f' a.
Proof.
  intros Hd Hin Hf. induction Hd as [|h t Hn Hd IH]; simpl in *; [tauto|].
  destruct Hin as [E|Hin].
  - subst. assert (E : map f' t = map f t).
    { apply map_ext_in. intros b Hb. apply Hf. intros ->. auto. }
    rewrite E. lia.
  - specialize (IH Hin). assert (h <> a) by (intros ->; auto). rewrite (Hf h) by auto. lia.
Qed.

Lemma sum_same {A} (f f' : A -> nat) (l : list A) : (forall b, In b l -> f' b = f b) -> sum_nat (map f' l) = sum_nat (map f l).
Proof. intros H. f_equal. apply map_ext_in. auto. Qed.

Lemma sum_in_ge {A} (f : A -> nat) l a : In a l -> f a <= sum_nat (map f l).
Proof. induction l; simpl; [tauto|]. intros [->|H]; [lia|]. specialize (IHl H). lia. Qed.

Section WithInst.
Variable i : inst.

(* ---------- the store invariants ---------- *)
Record WFS (x : state) : Prop := {
  ws_lm : length (s_machs x) = length (i_machs i);
  ws_lt : length (s_trans x) = length (i_trans i);
  ws_lb : length (s_bufs x) = length (i_bufs i);
  ws_count : forall j, j < length (s_jobs x) -> tcount x j = 1;
  ws_range : forall L b k, get_buf x L = Some b -> In k (b_store b) -> k < length (s_jobs x);
  ws_loc : forall j jb, nth_error (s_jobs x) j = Some jb ->
                        exists b, get_buf x (j_loc jb) = Some b /\ In j (b_store b);
  ws_cap : forall L b c, get_buf x L = Some b -> get_bcfg i L = Some c -> (lenZ (b_store b) <= bc_cap c)%Z;
  ws_flag : forall L b c, get_buf x L = Some b -> get_bcfg i L = Some c -> buf_flag_ok b c = true
}.

(* states whose stores, lengths and job locations coincide *)
Record same_stores (x x' : state) : Prop := {
  ss_buf : forall L, get_buf x' L = get_buf x L;
  ss_lm : length (s_machs x') = length (s_machs x);
  ss_lt : length (s_trans x') = length (s_trans x);
  ss_lb : length (s_bufs x') = length (s_bufs x);
  ss_lj : length (s_jobs x') = length (s_jobs x);
  ss_loc : forall j jb', nth_error (s_jobs x') j = Some jb' ->
                         exists jb, nth_error (s_jobs x) j = Some jb /\ j_loc jb' = j_loc jb
}.

Lemma same_stores_refl x : same_stores x x.
Proof. constructor; auto. intros; eauto. Qed.

Lemma same_stores_trans x y z : same_stores x y -> same_stores y z -> same_stores x z.
Proof.
  intros [a1 a2 a3 a4 a5 a6] [b1 b2 b3 b4 b5 b6]. constructor.
  - intros L. rewrite b1. apply a1.
  - congruence.
  - congruence.
  - congruence.
  - congruence.
  - intros j jb' H. destruct (b6 _ _ H) as [jb1 [H1 E1]]. destruct (a6 _ _ H1) as [jb0 [H0 E0]].
    exists jb0. split; auto. congruence.
Qed.

Lemma tcount_same x x' j : same_stores x x' -> tcount x' j = tcount x j.
Proof.
  intros S. unfold tcount, bids_of. rewrite (ss_lm _ _ S), (ss_lt _ _ S), (ss_lb _ _ S).
  apply sum_same. intros L _. unfold store_at. rewrite (ss_buf _ _ S). reflexivity.
Qed.

Lemma WFS_same x x' : WFS x -> same_stores x x' -> WFS x'.
Proof.
  intros W S. constructor.
  - rewrite (ss_lm _ _ S). apply W.
  - rewrite (ss_lt _ _ S). apply W.
  - rewrite (ss_lb _ _ S). apply W.
  - intros j Hj. rewrite (tcount_same _ _ _ S). apply W. rewrite <- (ss_lj _ _ S). auto.
  - intros L b k Hb Hk. rewrite (ss_buf _ _ S) in Hb. rewrite (ss_lj _ _ S). eapply ws_range; eauto.
  - intros j jb' Hj. destruct (ss_loc _ _ S _ _ Hj) as [jb [H1 E]]. rewrite E, (ss_buf _ _ S).
    eapply ws_loc; eauto.
  - intros L b c Hb. rewrite (ss_buf _ _ S) in Hb. eapply ws_cap; eauto.
  - intros L b c Hb. rewrite (ss_buf _ _ S) in Hb. eapply ws_flag; eauto.
Qed.

(* ---------- moving one job ---------- *)
Lemma buf_flag_after_put b cap j b' c :
  bc_cap c = cap -> put_in_buffer b cap j = Ok b' -> buf_flag_ok b' c = true.
Proof.
  intros Ec H. apply put_in_buffer_ok in H. destruct H as [Hs [Hc Hf]].
  unfold buf_flag_ok. rewrite Hf, Ec. destruct (lenZ (b_store b') =? cap)%Z eqn:E; auto.
  rewrite Hs. destruct (b_store b); reflexivity.
Qed.

Lemma buf_flag_after_remove b j b' c : remove_from_buffer b j = Ok b' -> buf_flag_ok b' c = true.
Proof.
  intros H. apply remove_from_buffer_ok in H. destruct H as [_ [Hs Hf]].
  unfold buf_flag_ok. rewrite Hf. destruct (b_store b'); reflexivity.
Qed.

Theorem WFS_moved x x' j A B : A <> B -> WFS x -> moved i x x' j A B -> WFS x'.
Proof.
  intros Hne W M.
  destruct (mv_a _ _ _ _ _ _ M) as [a [a' [Ha [Hr Ha']]]].
  destruct (mv_b _ _ _ _ _ _ M) as [b [b' [c [Hb [Hc [Hp Hb']]]]]].
  destruct (mv_job _ _ _ _ _ _ M) as [jb [Hj Hjobs]].
  pose proof (remove_from_buffer_ok _ _ _ Hr) as [Hmem [Hsa Hfa]].
  pose proof (put_in_buffer_ok _ _ _ _ Hp) as [Hsb [Hcapb Hfb]].
  assert (Hlj : length (s_jobs x') = length (s_jobs x)) by (rewrite Hjobs; apply upd_length).
  assert (Hbids : bids_of x' = bids_of x).
  { unfold bids_of. rewrite (mv_len_m _ _ _ _ _ _ M), (mv_len_t _ _ _ _ _ _ M), (mv_len_b _ _ _ _ _ _ M). reflexivity. }
  assert (HjL : j < length (s_jobs x)) by (eapply nth_error_lt; eauto).
  constructor.
  - rewrite (mv_len_m _ _ _ _ _ _ M). apply W.
  - rewrite (mv_len_t _ _ _ _ _ _ M). apply W.
  - rewrite (mv_len_b _ _ _ _ _ _ M). apply W.
  - (* counts *)
    intros k Hk. rewrite Hlj in Hk. unfold tcount. rewrite Hbids.
    pose proof (ws_count _ W k Hk) as Hc1. unfold tcount in Hc1.
    set (f := fun L => count_nat k (store_at x L)) in *.
    set (f' := fun L => count_nat k (store_at x' L)).
    set (g := fun L => if bid_eq_dec L A then f' A else f L).
    pose proof (NoDup_all_bids (length (s_bufs x)) (length (s_machs x)) (length (s_trans x))) as Hnd.
    fold (bids_of x) in Hnd.
    assert (HinA : In A (bids_of x)) by (eapply get_buf_in_bids; eauto).
    assert (HinB : In B (bids_of x)) by (eapply get_buf_in_bids; eauto).
    assert (S1 : sum_nat (map g (bids_of x)) + f A = sum_nat (map f (bids_of x)) + g A).
    { apply sum_change1; auto. intros L HL. unfold g. destruct (bid_eq_dec L A); congruence. }
    assert (S2 : sum_nat (map f' (bids_of x)) + g B = sum_nat (map g (bids_of x)) + f' B).
    { apply sum_change1; auto. intros L HL. unfold g. destruct (bid_eq_dec L A); [subst; auto|].
      unfold f', f, store_at. rewrite (mv_other _ _ _ _ _ _ M) by auto. reflexivity. }
    assert (GA : g A = f' A) by (unfold g; destruct (bid_eq_dec A A); congruence).
    assert (GB : g B = f B) by (unfold g; destruct (bid_eq_dec B A); congruence).
    assert (FA : f A = count_nat k (b_store a)) by (unfold f, store_at; rewrite Ha; auto).
    assert (FB : f B = count_nat k (b_store b)) by (unfold f, store_at; rewrite Hb; auto).
    assert (FA' : f' A = count_nat k (remove_nat j (b_store a))) by (unfold f', store_at; rewrite Ha', Hsa; auto).
    assert (FB' : f' B = count_nat k (b_store b) + count_nat k [j]) by (unfold f', store_at; rewrite Hb', Hsb, count_app; auto).
    assert (LA : f A <= sum_nat (map f (bids_of x))) by (apply sum_in_ge; auto).
    destruct (Nat.eq_dec k j) as [->|Hkj].
    + rewrite count_remove_same in FA'. simpl in FB'. rewrite Nat.eqb_refl in FB'.
      apply mem_count in Hmem. lia.
    + rewrite count_remove_other in FA' by auto. simpl in FB'.
      destruct (Nat.eqb_spec j k); [congruence|]. lia.
  - (* range *)
    intros L bb k HL Hk. rewrite Hlj.
    destruct (bid_eq_dec L A) as [->|HA].
    + rewrite Ha' in HL. inversion HL; subst. rewrite Hsa in Hk. apply In_remove_nat in Hk.
      destruct Hk as [Hk _]. exact (ws_range _ W A a k Ha Hk).
    + destruct (bid_eq_dec L B) as [->|HB].
      * rewrite Hb' in HL. inversion HL; subst. rewrite Hsb in Hk. apply in_app_iff in Hk.
        destruct Hk as [Hk|[<-|[]]]; auto. exact (ws_range _ W B b k Hb Hk).
      * rewrite (mv_other _ _ _ _ _ _ M) in HL by auto. exact (ws_range _ W L bb k HL Hk).
  - (* location *)
    intros k kb Hk. rewrite Hjobs, nth_upd in Hk.
    destruct (Nat.eqb_spec j k) as [->|Hjk].
    + destruct (Nat.ltb k (length (s_jobs x))); inversion Hk; subst; simpl.
      exists b'. split; auto. rewrite Hsb. apply in_app_iff. right; simpl; auto.
    + destruct (ws_loc _ W _ _ Hk) as [bb [H1 H2]].
      destruct (bid_eq_dec (j_loc kb) A) as [E|HA].
      * rewrite E in *. rewrite Ha in H1. inversion H1; subst. exists a'. split; auto.
        rewrite Hsa. apply In_remove_nat. split; auto.
      * destruct (bid_eq_dec (j_loc kb) B) as [E|HB].
        -- rewrite E in *. rewrite Hb in H1. inversion H1; subst. exists b'. split; auto.
           rewrite Hsb. apply in_app_iff. left; auto.
        -- exists bb. rewrite (mv_other _ _ _ _ _ _ M) by auto. split; auto.
  - (* capacity *)
    intros L bb cc HL Hcc.
    destruct (bid_eq_dec L A) as [->|HA].
    + rewrite Ha' in HL. inversion HL; subst. rewrite Hsa.
      pose proof (ws_cap _ W _ _ _ Ha Hcc). pose proof (remove_nat_length j (b_store a)). unfold lenZ in *. lia.
    + destruct (bid_eq_dec L B) as [->|HB].
      * rewrite Hb' in HL. inversion HL; subst. rewrite Hc in Hcc. inversion Hcc; subst. auto.
      * rewrite (mv_other _ _ _ _ _ _ M) in HL by auto. eapply ws_cap; eauto.
  - (* flags *)
    intros L bb cc HL Hcc.
    destruct (bid_eq_dec L A) as [->|HA].
    + rewrite Ha' in HL. inversion HL; subst. eapply buf_flag_after_remove; eauto.
    + destruct (bid_eq_dec L B) as [->|HB].
      * rewrite Hb' in HL. inversion HL; subst. rewrite Hc in Hcc. inversion Hcc; subst.
        eapply buf_flag_after_put; eauto.
      * rewrite (mv_other _ _ _ _ _ _ M) in HL by auto. eapply ws_flag; eauto.
Qed.

End WithInst.
