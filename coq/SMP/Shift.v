(* C12, translation invariance: the state machine commutes with shifting every time stamp by K, for instances without outage
   definitions (with outages it does not: C12_shift_refuted). Stage 1: every transition handler, hence apply_transition. *)
From Coq Require Import List ZArith Bool Arith Lia.
From JSL Require Import Base.Res Base.ListX SM.Types SM.Util SM.Handler SM.Step SM.Middleware SMP.ListLemmas.
Import ListNotations.
Open Scope Z_scope.

Section Sh.
Variable K : Z.

Definition sht (t : time) : time := match t with NoTime => NoTime | Time z => Time (z + K) end.
Definition sho (o : op) : op := mkOp (o_mach o) (sht (o_start o)) (sht (o_end o)) (o_st o).
Definition shj (j : job) : job := mkJob (map sho (j_ops j)) (j_loc j).
Definition sha (a : oact) : oact := match a with OActive s e => OActive (sht s) (sht e) | OInactive l => OInactive (sht l) end.
Definition shm (m : machine) : machine :=
  mkMachine (m_st m) (sht (m_occ m)) (m_pre m) (m_in m) (m_post m) (m_tool m) (map sha (m_out m)).
Definition shoc (o : occ) : occ := match o with OAt z => OAt (z + K) | _ => o end.
Definition shtr (t : transport) : transport :=
  mkTransport (t_st t) (shoc (t_occ t)) (t_buf t) (t_loc t) (t_job t) (map sha (t_out t)).
Definition sh (x : state) : state :=
  mkState (map shj (s_jobs x)) (s_now x + K) (map shm (s_machs x)) (map shtr (s_trans x)) (s_bufs x) (s_sto x).

Definition rmap {A B} (f : A -> B) (r : res A) : res B := match r with Ok a => Ok (f a) | Err e => Err e end.

Lemma bind_rmap {A B C} (f : A -> B) (r : res A) (k : B -> res C) : bind (rmap f r) k = bind r (fun a => k (f a)).
Proof. destruct r; reflexivity. Qed.
Lemma rmap_bind {A B C} (g : B -> C) (r : res A) (k : A -> res B) : rmap g (bind r k) = bind r (fun a => rmap g (k a)).
Proof. destruct r; reflexivity. Qed.
Lemma bind_ext {A B} (r : res A) (k1 k2 : A -> res B) : (forall a, r = Ok a -> k1 a = k2 a) -> bind r k1 = bind r k2.
Proof. destruct r; simpl; auto. Qed.

(* ---------- lists ---------- *)
Lemma map_upd {A B} (f : A -> B) (l : list A) n a : map f (upd l n a) = upd (map f l) n (f a).
Proof. revert n; induction l as [|h t IH]; intros [|n]; simpl; auto. rewrite IH. reflexivity. Qed.
Lemma nth_map {A B} (f : A -> B) (l : list A) n : nth_error (map f l) n = option_map f (nth_error l n).
Proof. revert n; induction l as [|h t IH]; intros [|n]; simpl; auto. Qed.
Lemma find_idx_map {A B} (f : A -> B) (p : B -> bool) (q : A -> bool) l : (forall a, p (f a) = q a) -> find_idx p (map f l) = find_idx q l.
Proof. intros H. induction l as [|h t IH]; simpl; auto. rewrite H, IH. reflexivity. Qed.

(* ---------- getters and setters ---------- *)
Lemma of_opt_map {A B} e (f : A -> B) (o : option A) : of_opt e (option_map f o) = rmap f (of_opt e o).
Proof. destruct o; reflexivity. Qed.

Lemma get_job_sh x j : get_job (sh x) j = rmap shj (get_job x j).
Proof. unfold get_job. simpl. rewrite nth_map. apply of_opt_map. Qed.
Lemma get_mach_sh x m : get_mach (sh x) m = rmap shm (get_mach x m).
Proof. unfold get_mach. simpl. rewrite nth_map. apply of_opt_map. Qed.
Lemma get_trans_sh x t : get_trans (sh x) t = rmap shtr (get_trans x t).
Proof. unfold get_trans. simpl. rewrite nth_map. apply of_opt_map. Qed.

Lemma get_buf_sh x L : get_buf (sh x) L = get_buf x L.
Proof. destruct L; simpl; auto; rewrite nth_map; destruct (nth_error _ _); reflexivity. Qed.

Lemma put_job_sh x j v : put_job (sh x) j (shj v) = sh (put_job x j v).
Proof. unfold put_job, set_jobs, sh. simpl. rewrite map_upd. reflexivity. Qed.
Lemma put_mach_sh x m v : put_mach (sh x) m (shm v) = sh (put_mach x m v).
Proof. unfold put_mach, set_machs, sh. simpl. rewrite map_upd. reflexivity. Qed.
Lemma put_trans_sh x t v : put_trans (sh x) t (shtr v) = sh (put_trans x t v).
Proof. unfold put_trans, set_trans, sh. simpl. rewrite map_upd. reflexivity. Qed.
Lemma put_sbuf_sh x n v : put_sbuf (sh x) n v = sh (put_sbuf x n v).
Proof. reflexivity. Qed.
Lemma set_sto_sh x s : set_sto (sh x) s = sh (set_sto x s).
Proof. reflexivity. Qed.
Lemma with_sto_sh x s : with_sto (sh x) s = sh (with_sto x s).
Proof. reflexivity. Qed.

Lemma set_buf_sh x L b : set_buf (sh x) L b = sh (set_buf x L b).
Proof.
  destruct L; simpl; auto; rewrite nth_map; destruct (nth_error _ _) as [c|]; simpl; auto;
    first [rewrite <- put_mach_sh | rewrite <- put_trans_sh]; reflexivity.
Qed.

Lemma set_mach_ctl_sh x m st oc tool outs :
  set_mach_ctl (sh x) m st (sht oc) tool (map sha outs) = sh (set_mach_ctl x m st oc tool outs).
Proof.
  unfold set_mach_ctl. simpl. rewrite nth_map. destruct (nth_error (s_machs x) m) as [ms|]; simpl; auto.
  rewrite <- put_mach_sh. reflexivity.
Qed.
Lemma set_trans_ctl_sh x t st oc loc jb outs :
  set_trans_ctl (sh x) t st (shoc oc) loc jb (map sha outs) = sh (set_trans_ctl x t st oc loc jb outs).
Proof.
  unfold set_trans_ctl. simpl. rewrite nth_map. destruct (nth_error (s_trans x) t) as [ts|]; simpl; auto.
  rewrite <- put_trans_sh. reflexivity.
Qed.

Lemma move_job_sh i x j A B : move_job i (sh x) j A B = rmap sh (move_job i x j A B).
Proof.
  unfold move_job. rewrite !get_buf_sh, get_job_sh.
  destruct (get_buf x A) as [a|]; simpl; [|reflexivity]. destruct (remove_from_buffer a j) as [a'|]; simpl; [|reflexivity].
  destruct (get_bcfg i B) as [c|]; simpl; [|reflexivity]. destruct (get_buf x B) as [b|]; simpl; [|reflexivity].
  destruct (put_in_buffer b (bc_cap c) j) as [b'|]; simpl; [|reflexivity].
  destruct (get_job x j) as [jb|]; simpl; [|reflexivity].
  rewrite !set_buf_sh. change (set_j_loc (shj jb) B) with (shj (set_j_loc jb B)). rewrite put_job_sh. reflexivity.
Qed.

(* ---------- jobs ---------- *)
Lemma first_not_done_sh jb : first_not_done (shj jb) = first_not_done jb.
Proof. unfold first_not_done. simpl. apply find_idx_map. reflexivity. Qed.
Lemma first_proc_sh jb : first_proc (shj jb) = first_proc jb.
Proof. unfold first_proc. simpl. apply find_idx_map. reflexivity. Qed.
Lemma first_idle_sh jb : first_idle (shj jb) = first_idle jb.
Proof. unfold first_idle. simpl. apply find_idx_map. reflexivity. Qed.
Lemma forallb_map {A B} (f : A -> B) p l : forallb p (map f l) = forallb (fun a => p (f a)) l.
Proof. induction l as [|h t IH]; simpl; auto. rewrite IH. reflexivity. Qed.
Lemma existsb_map {A B} (f : A -> B) p l : existsb p (map f l) = existsb (fun a => p (f a)) l.
Proof. induction l as [|h t IH]; simpl; auto. rewrite IH. reflexivity. Qed.
Lemma is_job_running_sh jb : is_job_running (shj jb) = is_job_running jb.
Proof. unfold is_job_running. simpl. rewrite existsb_map. reflexivity. Qed.
Lemma all_operations_done_sh jb : all_operations_done (shj jb) = all_operations_done jb.
Proof. unfold all_operations_done. simpl. rewrite forallb_map. reflexivity. Qed.
Lemma no_operation_idle_sh jb : no_operation_idle (shj jb) = no_operation_idle jb.
Proof. unfold no_operation_idle. simpl. rewrite forallb_map. reflexivity. Qed.
Lemma set_op_sh jb k o : set_op (shj jb) k (sho o) = shj (set_op jb k o).
Proof. unfold set_op, set_j_ops, shj. simpl. rewrite map_upd. reflexivity. Qed.
Lemma nth_ops_sh jb k : nth_error (j_ops (shj jb)) k = option_map sho (nth_error (j_ops jb) k).
Proof. simpl. apply nth_map. Qed.

(* ---------- machine handlers ---------- *)
Ltac shrw := rewrite ?get_job_sh, ?get_mach_sh, ?get_trans_sh, ?get_buf_sh, ?bind_rmap, ?first_not_done_sh, ?first_proc_sh, ?first_idle_sh,
  ?nth_ops_sh, ?of_opt_map, ?bind_rmap, ?move_job_sh, ?bind_rmap, ?no_operation_idle_sh, ?is_job_running_sh, ?all_operations_done_sh.
Ltac shstep := shrw; cbn [s_sto s_now sh m_pre m_in m_post m_tool m_out m_st m_occ shm t_st t_occ t_buf t_loc t_job t_out shtr j_loc shj];
  match goal with
  | |- bind ?e _ = rmap _ (bind ?e _) => destruct e eqn:?; cbn [bind rmap]; [|reflexivity]
  | |- (let '(a, b) := ?p in _) = _ => destruct p
  end.

Ltac normK := match goal with |- context [OAt (?n + K + ?z)] =>
  replace (n + K + z) with (n + z + K) by lia; change (OAt (n + z + K)) with (shoc (OAt (n + z))) end.

Section H.
Variable sigma : oracle.
Variable i : inst.

Lemma h_m_idle_setup_sh x tr m ms :
  h_m_idle_setup sigma i (sh x) tr m (shm ms) = rmap sh (h_m_idle_setup sigma i x tr m ms).
Proof.
  unfold h_m_idle_setup. repeat shstep.
  replace (s_now x + K + z) with (s_now x + z + K) by lia.
  change (mkOp m (Time (s_now x + K)) (Time (s_now x + z + K)) OProc) with (sho (mkOp m (Time (s_now x)) (Time (s_now x + z)) OProc)).
  rewrite set_op_sh, put_job_sh. repeat shstep.
  rewrite <- with_sto_sh, <- set_mach_ctl_sh. reflexivity.
Qed.

Lemma h_m_setup_working_sh x tr m ms :
  h_m_setup_working sigma i (sh x) tr m (shm ms) = rmap sh (h_m_setup_working sigma i x tr m ms).
Proof.
  unfold h_m_setup_working. repeat shstep.
  replace (s_now x + K + z) with (s_now x + z + K) by lia.
  change (mkOp m (Time (s_now x + K)) (Time (s_now x + z + K)) OProc) with (sho (mkOp m (Time (s_now x)) (Time (s_now x + z)) OProc)).
  rewrite set_op_sh, put_job_sh. simpl.
  rewrite <- with_sto_sh, <- set_mach_ctl_sh. reflexivity.
Qed.

Hypothesis Hno_m : forall m mc, nth_error (i_machs i) m = Some mc -> mc_out mc = [].
Hypothesis Hno_t : forall t ac, nth_error (i_trans i) t = Some ac -> ac_out ac = [].

Lemma h_m_working_outage_sh x tr m ms :
  h_m_working_outage sigma i (sh x) tr m (shm ms) = rmap sh (h_m_working_outage sigma i x tr m ms).
Proof.
  unfold h_m_working_outage. shstep.
  match goal with E : of_opt _ (nth_error (i_machs i) m) = Ok ?mc |- _ =>
    assert (Eo : mc_out mc = []) by (apply (Hno_m m); destruct (nth_error (i_machs i) m); simpl in E; inversion E; reflexivity) end.
  rewrite Eo. cbn [new_outage_states bind occupied_time active_lengths]. repeat shstep.
  replace (s_now x + K + 0) with (s_now x + 0 + K) by lia.
  match goal with |- context [set_op_end (sho ?o) (Time (?z + K))] =>
    change (set_op_end (sho o) (Time (z + K))) with (sho (set_op_end o (Time z))) end.
  rewrite set_op_sh, put_job_sh.
  rewrite <- with_sto_sh. change (@nil oact) with (map sha []) at 1.
  change (Time (s_now x + 0 + K)) with (sht (Time (s_now x + 0))). rewrite set_mach_ctl_sh. reflexivity.
Qed.

Lemma release_sha o : release_outage (sha o) = sha (release_outage o).
Proof. destruct o; reflexivity. Qed.

Lemma h_m_outage_idle_sh x tr m ms :
  h_m_outage_idle i (sh x) tr m (shm ms) = rmap sh (h_m_outage_idle i x tr m ms).
Proof.
  unfold h_m_outage_idle. repeat shstep.
  match goal with |- context [mkOp (o_mach (sho ?o)) (o_start (sho ?o)) (Time (?z + K)) ODone] =>
    change (mkOp (o_mach (sho o)) (o_start (sho o)) (Time (z + K)) ODone) with (sho (mkOp (o_mach o) (o_start o) (Time z) ODone)) end.
  rewrite set_op_sh, put_job_sh. repeat shstep.
  rewrite map_map. rewrite (map_ext _ _ release_sha), <- map_map, <- set_mach_ctl_sh. reflexivity.
Qed.

Lemma handle_machine_transition_sh x tr m :
  handle_machine_transition sigma i (sh x) tr m = rmap sh (handle_machine_transition sigma i x tr m).
Proof.
  unfold handle_machine_transition. rewrite get_mach_sh, bind_rmap. destruct (get_mach x m) as [ms|]; cbn [bind rmap]; [|reflexivity].
  cbn [m_st shm]. destruct (m_st ms), (tr_new tr) as [[]|[]]; try reflexivity;
    [apply h_m_idle_setup_sh|apply h_m_setup_working_sh|apply h_m_working_outage_sh|apply h_m_outage_idle_sh].
Qed.

(* ---------- transport handlers ---------- *)
Lemma is_ready_sh x j jb : is_ready i (sh x) j (shj jb) = is_ready i x j jb.
Proof. unfold is_ready. cbn [j_loc shj]. rewrite get_buf_sh. reflexivity. Qed.

Lemma job_is_done_sh jb : job_is_done i (shj jb) = job_is_done i jb.
Proof. unfold job_is_done. rewrite all_operations_done_sh. reflexivity. Qed.

Lemma find_map {A B} (f : A -> B) p l : find p (map f l) = option_map f (find (fun a => p (f a)) l).
Proof. induction l as [|h t IH]; simpl; auto. destruct (p (f h)); auto. Qed.

Lemma first_transport_with_job_sh x j : first_transport_with_job (sh x) j = option_map shtr (first_transport_with_job x j).
Proof. unfold first_transport_with_job. simpl. rewrite find_map. reflexivity. Qed.

Lemma occ_of_time_sh t : occ_of_time (sht t) = shoc (occ_of_time t).
Proof. destruct t; reflexivity. Qed.

Lemma get_waiting_time_sh x tr : get_waiting_time i (sh x) tr = rmap shoc (get_waiting_time i x tr).
Proof.
  unfold get_waiting_time. repeat shstep.
  destruct (j_loc a0) as [n|m|m|m|t]; try reflexivity; repeat shstep; rewrite ?is_ready_sh;
  (match goal with |- (if ?b then _ else _) = _ => destruct b end;
   [ repeat shstep;
     match goal with |- (if ?r then _ else _) = _ => destruct r; [reflexivity|] end;
     repeat shstep; rewrite job_is_done_sh;
     match goal with |- (if ?r then _ else _) = _ => destruct r; [reflexivity|] end;
     rewrite first_transport_with_job_sh;
     match goal with |- context [first_transport_with_job x ?n] => destruct (first_transport_with_job x n); reflexivity end
   | repeat shstep; cbn [o_end sho]; rewrite occ_of_time_sh; reflexivity ]).
Qed.

Lemma dest_idle_sh jb : dest_idle i (shj jb) = dest_idle i jb.
Proof.
  unfold dest_idle. rewrite no_operation_idle_sh, first_idle_sh. destruct (no_operation_idle jb); [reflexivity|].
  destruct (first_idle jb) as [k|]; cbn [of_opt bind]; [|reflexivity]. rewrite nth_ops_sh.
  destruct (nth_error (j_ops jb) k); reflexivity.
Qed.
Lemma dest_not_done_sh jb : dest_not_done i (shj jb) = dest_not_done i jb.
Proof.
  unfold dest_not_done. rewrite no_operation_idle_sh, first_not_done_sh. destruct (no_operation_idle jb); [reflexivity|].
  destruct (first_not_done jb) as [k|]; cbn [of_opt bind]; [|reflexivity]. rewrite nth_ops_sh.
  destruct (nth_error (j_ops jb) k); reflexivity.
Qed.

Lemma h_t_waiting_waiting_sh x tr t ts :
  h_t_waiting_waiting i (sh x) tr t (shtr ts) = rmap sh (h_t_waiting_waiting i x tr t ts).
Proof.
  unfold h_t_waiting_waiting. rewrite get_waiting_time_sh, bind_rmap. destruct (get_waiting_time i x tr); cbn [bind rmap]; [|reflexivity].
  cbn [t_loc t_job t_out shtr]. rewrite set_trans_ctl_sh. reflexivity.
Qed.

Lemma h_t_pickup_waiting_sh x tr t ts :
  h_t_pickup_waiting i (sh x) tr t (shtr ts) = rmap sh (h_t_pickup_waiting i x tr t ts).
Proof.
  unfold h_t_pickup_waiting. destruct (of_opt EMissingJobId (tr_job tr)); cbn [bind rmap]; [|reflexivity].
  rewrite get_waiting_time_sh, bind_rmap. destruct (get_waiting_time i x tr); cbn [bind rmap]; [|reflexivity].
  cbn [t_loc t_job t_out shtr]. rewrite set_trans_ctl_sh. reflexivity.
Qed.

Lemma h_t_outage_idle_sh x tr t ts :
  h_t_outage_idle (sh x) tr t (shtr ts) = rmap sh (h_t_outage_idle x tr t ts).
Proof.
  unfold h_t_outage_idle. cbn [t_occ t_loc t_job t_out shtr rmap].
  rewrite map_map. rewrite (map_ext _ _ release_sha), <- map_map, set_trans_ctl_sh. reflexivity.
Qed.

Lemma h_t_idle_working_sh x tr t ts :
  h_t_idle_working i (sh x) tr t (shtr ts) = rmap sh (h_t_idle_working i x tr t ts).
Proof.
  unfold h_t_idle_working. repeat shstep. rewrite dest_idle_sh. repeat shstep.
  normK. rewrite set_trans_ctl_sh. reflexivity.
Qed.

Lemma h_t_to_transit_sh x tr t ts :
  h_t_to_transit sigma i (sh x) tr t (shtr ts) = rmap sh (h_t_to_transit sigma i x tr t ts).
Proof.
  unfold h_t_to_transit. repeat shstep.
  match goal with |- (if ?b then _ else _) = _ => destruct b end; [apply h_t_waiting_waiting_sh|].
  rewrite dest_not_done_sh. repeat shstep.
  normK. rewrite <- with_sto_sh, <- set_trans_ctl_sh. reflexivity.
Qed.

Lemma h_t_transit_outage_sh x tr t ts :
  h_t_transit_outage sigma i (sh x) tr t (shtr ts) = rmap sh (h_t_transit_outage sigma i x tr t ts).
Proof.
  unfold h_t_transit_outage. repeat shstep.
  match goal with E : of_opt _ (nth_error (i_trans i) t) = Ok ?ac |- _ =>
    assert (Eo : ac_out ac = []) by (apply (Hno_t t); destruct (nth_error (i_trans i) t); simpl in E; inversion E; reflexivity) end.
  assert (HB : forall dst, (match dst with
       | PM m => _ <- get_mach (sh x) m ;; Ok (BPre m)
       | PB n => _ <- of_opt EInvalidValue (nth_error (s_bufs (sh x)) n) ;; Ok (BStd n)
       | PT _ => Err EInvalidValue end) =
      (match dst with
       | PM m => _ <- get_mach x m ;; Ok (BPre m)
       | PB n => _ <- of_opt EInvalidValue (nth_error (s_bufs x) n) ;; Ok (BStd n)
       | PT _ => Err EInvalidValue end)).
  { intros [m|n|k]; try reflexivity. rewrite get_mach_sh, bind_rmap. reflexivity. }
  rewrite HB. repeat shstep. rewrite Eo. cbn [new_outage_states bind occupied_time active_lengths].
  replace (s_now x + K + 0) with (s_now x + 0 + K) by lia.
  change (OAt (s_now x + 0 + K)) with (shoc (OAt (s_now x + 0))). change (@nil oact) with (map sha []) at 1.
  cbn [rmap]. rewrite set_trans_ctl_sh, with_sto_sh. reflexivity.
Qed.

Lemma handle_transport_transition_sh x tr t :
  handle_transport_transition sigma i (sh x) tr t = rmap sh (handle_transport_transition sigma i x tr t).
Proof.
  unfold handle_transport_transition. rewrite get_trans_sh, bind_rmap. destruct (get_trans x t) as [ts|]; cbn [bind rmap]; [|reflexivity].
  destruct (of_opt EInvalidValue (nth_error (i_trans i) t)); cbn [bind rmap]; [|reflexivity].
  cbn [t_st shtr]. destruct (t_st ts), (tr_new tr) as [[]|[]]; try reflexivity;
    first [apply h_t_idle_working_sh|apply h_t_pickup_waiting_sh|apply h_t_to_transit_sh|apply h_t_transit_outage_sh
          |apply h_t_outage_idle_sh|apply h_t_waiting_waiting_sh].
Qed.

(* every applied transition commutes with the shift *)
Theorem apply_transition_sh x tr : apply_transition sigma i (sh x) tr = rmap sh (apply_transition sigma i x tr).
Proof.
  unfold apply_transition. destruct (tr_comp tr) as [m|t|n]; cbn [s_machs s_trans s_bufs sh]; rewrite ?nth_map.
  - destruct (nth_error (s_machs x) m); cbn [option_map]; [apply handle_machine_transition_sh|reflexivity].
  - destruct (nth_error (s_trans x) t); cbn [option_map]; [apply handle_transport_transition_sh|reflexivity].
  - destruct (nth_error (s_bufs x) n); reflexivity.
Qed.

(* ---------- timed transitions: created from the same comparisons ---------- *)
Lemma timed_machine_sh now m ms : timed_machine i (now + K) m (shm ms) = timed_machine i now m ms.
Proof.
  unfold timed_machine. cbn [m_occ m_st m_in shm]. destruct (m_occ ms) as [|z]; cbn [sht]; [reflexivity|].
  replace (z + K <=? now + K) with (z <=? now) by (destruct (Z.leb_spec z now), (Z.leb_spec (z + K) (now + K)); auto; lia).
  reflexivity.
Qed.

Lemma timed_machines_from_sh now : forall l m, timed_machines_from i (now + K) m (map shm l) = timed_machines_from i now m l.
Proof. induction l as [|ms l IH]; intros m; simpl; auto. rewrite timed_machine_sh, IH. reflexivity. Qed.

Lemma time_dependency_is_resolved_sh x ts b k :
  time_dependency_is_resolved i (sh x) (shtr ts) b k = time_dependency_is_resolved i x ts b k.
Proof.
  unfold time_dependency_is_resolved. destruct b; try reflexivity. rewrite get_mach_sh, bind_rmap.
  destruct (get_mach x m) as [ms|]; cbn [bind]; [|reflexivity]. cbn [m_post shm t_job shtr s_trans sh]. rewrite existsb_map. reflexivity.
Qed.

Lemma create_idle_to_pick_sh x t ts : create_idle_to_pick i (sh x) t (shtr ts) = create_idle_to_pick i x t ts.
Proof.
  unfold create_idle_to_pick. cbn [t_job t_st shtr]. destruct (of_opt ETransportJob (t_job ts)) as [j|]; cbn [bind]; [|reflexivity].
  rewrite get_job_sh, bind_rmap. destruct (get_job x j) as [jb|]; cbn [bind]; [|reflexivity]. rewrite is_ready_sh. reflexivity.
Qed.

Lemma create_pickup_to_drop_sh x t ts : create_pickup_to_drop (sh x) t (shtr ts) = create_pickup_to_drop x t ts.
Proof.
  unfold create_pickup_to_drop. cbn [t_buf shtr]. destruct (b_store (t_buf ts)) as [|j [|? ?]]; try reflexivity.
  rewrite get_job_sh, bind_rmap. reflexivity.
Qed.

Lemma timed_transport_sh x t ts : timed_transport i (sh x) t (shtr ts) = timed_transport i x t ts.
Proof.
  unfold timed_transport. cbn [t_occ t_st shtr]. destruct (t_occ ts) as [|z|b k d]; cbn [shoc]; [reflexivity| |].
  - cbn [s_now sh].
    replace (z + K <=? s_now x + K) with (z <=? s_now x) by (destruct (Z.leb_spec z (s_now x)), (Z.leb_spec (z + K) (s_now x + K)); auto; lia).
    destruct (z <=? s_now x); [|reflexivity]. rewrite create_idle_to_pick_sh, create_pickup_to_drop_sh. reflexivity.
  - rewrite time_dependency_is_resolved_sh. reflexivity.
Qed.

Lemma timed_transports_from_sh x : forall l t, timed_transports_from i (sh x) t (map shtr l) = timed_transports_from i x t l.
Proof. induction l as [|ts l IH]; intros t; simpl; auto. rewrite timed_transport_sh, IH. reflexivity. Qed.

Theorem create_timed_transitions_sh x : create_timed_transitions i (sh x) = create_timed_transitions i x.
Proof.
  unfold create_timed_transitions, create_timed_machine_transitions, create_timed_transport_transitions. cbn [s_now s_machs s_trans sh].
  rewrite timed_machines_from_sh, timed_transports_from_sh. reflexivity.
Qed.

(* ---------- validity and offers ---------- *)
Lemma is_transition_valid_sh x tr : is_transition_valid (sh x) tr = is_transition_valid x tr.
Proof.
  unfold is_transition_valid. destruct (tr_comp tr) as [m|t|n]; cbn [s_machs s_trans s_bufs sh]; rewrite ?nth_map.
  - destruct (nth_error (s_machs x) m) as [ms|]; cbn [option_map]; [|reflexivity].
    unfold is_machine_transition_valid. cbn [m_st shm].
    destruct (negb (is_valid_transition machine_table (NM (m_st ms)) (tr_new tr))); [reflexivity|].
    destruct (m_st ms), (tr_new tr) as [[]|[]]; try reflexivity; destruct (tr_job tr) as [j|]; try reflexivity;
      rewrite get_job_sh, bind_rmap; (destruct (get_job x j) as [jb|]; cbn [bind]; [|reflexivity]);
      rewrite first_not_done_sh; (destruct (first_not_done jb) as [k|]; cbn [of_opt bind]; [|reflexivity]);
      rewrite nth_ops_sh; destruct (nth_error (j_ops jb) k); reflexivity.
  - destruct (nth_error (s_trans x) t); reflexivity.
  - reflexivity.
Qed.

Lemma is_action_possible_sh x jb : is_action_possible i (sh x) (shj jb) = is_action_possible i x jb.
Proof.
  unfold is_action_possible, is_job_next_operation_free, is_job_at_machine. cbn [j_ops j_loc shj]. rewrite !existsb_map.
  change (fun a : op => is_ostate OProc (sho a)) with (is_ostate OProc). change (fun a : op => is_ostate OIdle (sho a)) with (is_ostate OIdle).
  destruct (negb _); [reflexivity|]. destruct (of_opt EPyIndex (hd_error (i_trans i))); cbn [bind]; [|reflexivity].
  change (mkJob (map sho (j_ops jb)) (j_loc jb)) with (shj jb). rewrite first_not_done_sh.
  destruct (first_not_done jb) as [k|]; cbn [of_opt bind]; [|reflexivity]. rewrite nth_map.
  destruct (nth_error (j_ops jb) k) as [o|]; cbn [option_map of_opt bind]; [|reflexivity].
  cbn [o_mach sho]. rewrite get_mach_sh, bind_rmap. reflexivity.
Qed.

Lemma is_transportable_sh x jb : is_transportable i (sh x) (shj jb) = is_transportable i x jb.
Proof.
  unfold is_transportable, is_job_at_machine. rewrite job_is_done_sh, all_operations_done_sh, first_idle_sh.
  destruct (job_is_done i jb); [reflexivity|]. destruct (all_operations_done jb); [reflexivity|].
  destruct (first_idle jb) as [k|]; cbn [of_opt bind]; [|reflexivity]. rewrite nth_ops_sh.
  destruct (nth_error (j_ops jb) k) as [o|]; cbn [option_map of_opt bind]; [|reflexivity].
  cbn [o_mach sho j_loc shj]. rewrite get_mach_sh, bind_rmap. reflexivity.
Qed.

Lemma indexed_map {A B} (f : A -> B) l : forall n, indexed n (map f l) = map (fun p => (fst p, f (snd p))) (indexed n l).
Proof. induction l as [|a l IH]; intros n; simpl; auto. rewrite IH. reflexivity. Qed.
Lemma filterM_map {A B} (g : A -> B) (p : B -> res bool) l : filterM p (map g l) = rmap (map g) (filterM (fun a => p (g a)) l).
Proof.
  induction l as [|a l IH]; simpl; auto. destruct (p (g a)) as [b|]; cbn [bind rmap]; [|reflexivity]. rewrite IH.
  destruct (filterM (fun a0 => p (g a0)) l); cbn [bind rmap]; [|reflexivity]. destruct b; reflexivity.
Qed.
Lemma filterM_ext {A} (p q : A -> res bool) l : (forall a, p a = q a) -> filterM p l = filterM q l.
Proof. intros H. induction l as [|a l IH]; simpl; auto. rewrite H, IH. reflexivity. Qed.
Lemma filter_map {A B} (g : A -> B) p l : filter p (map g l) = map g (filter (fun a => p (g a)) l).
Proof. induction l as [|a l IH]; simpl; auto. destruct (p (g a)); simpl; rewrite IH; reflexivity. Qed.
Lemma flat_map_map {A B C} (g : A -> B) (f : B -> list C) l : flat_map f (map g l) = flat_map (fun a => f (g a)) l.
Proof. induction l as [|a l IH]; simpl; auto. rewrite IH. reflexivity. Qed.
Lemma mapM_map {A B C} (g : A -> B) (f : B -> res C) l : mapM f (map g l) = mapM (fun a => f (g a)) l.
Proof. induction l as [|a l IH]; simpl; auto. rewrite IH. reflexivity. Qed.
Lemma mapM_ext {A B} (f g : A -> res B) l : (forall a, f a = g a) -> mapM f l = mapM g l.
Proof. intros H. induction l as [|a l IH]; simpl; auto. rewrite H, IH. reflexivity. Qed.

Definition Gj (p : nat * job) : nat * job := (fst p, shj (snd p)).
Definition Gt (p : nat * transport) : nat * transport := (fst p, shtr (snd p)).

Lemma get_possible_transport_transition_sh x :
  get_possible_transport_transition i (sh x) = get_possible_transport_transition i x.
Proof.
  unfold get_possible_transport_transition. cbn [s_trans s_jobs sh]. rewrite !indexed_map.
  fold Gj. fold Gt.
  rewrite filterM_map.
  rewrite (filterM_ext _ (fun '(t, ts) => _ <- of_opt EInvalidKey (nth_error (i_trans i) t) ;; Ok (tstate_eqb (t_st ts) TIdle)))
    by (intros [t ts]; reflexivity).
  destruct (filterM _ (indexed 0 (s_trans x))) as [poss|]; cbn [rmap bind]; [|reflexivity].
  rewrite !filter_map.
  rewrite (filter_ext (fun a => let '(_, jb) := Gj a in is_job_running jb) (fun '(_, jb) => is_job_running jb)) by (intros [j jb]; apply is_job_running_sh).
  rewrite (filter_ext (fun a => (let '(_, jb) := Gj a in negb (is_job_running jb))) (fun '(_, jb) => negb (is_job_running jb)))
    by (intros [j jb]; simpl; rewrite is_job_running_sh; reflexivity).
  rewrite filterM_map.
  rewrite (filterM_ext _ (fun '(_, jb) => is_transportable i x jb)) by (intros [j jb]; apply is_transportable_sh).
  destruct (filterM _ (filter _ (indexed 0 (s_jobs x)))) as [transp|]; cbn [rmap bind]; [|reflexivity].
  rewrite <- map_app, filter_map, flat_map_map.
  rewrite (filter_ext (fun a => let '(j, _) := Gj a in negb (mem_nat j (flat_map (fun a0 => match t_job (shtr a0) with Some j0 => [j0] | None => [] end) (s_trans x))))
                      (fun '(j, _) => negb (mem_nat j (flat_map (fun ts => match t_job ts with Some j0 => [j0] | None => [] end) (s_trans x)))))
    by (intros [j jb]; reflexivity).
  set (lonely := filter _ (filter _ (indexed 0 (s_jobs x)) ++ transp)).
  assert (Hl : (if i_early i then Ok (map Gj lonely) else filterM (fun '(j, jb) => is_ready i (sh x) j jb) (map Gj lonely))
               = rmap (map Gj) (if i_early i then Ok lonely else filterM (fun '(j, jb) => is_ready i x j jb) lonely)).
  { destruct (i_early i); [reflexivity|]. rewrite filterM_map. f_equal. apply filterM_ext. intros [j jb]. apply is_ready_sh. }
  rewrite Hl. destruct (if i_early i then Ok lonely else _) as [l2|]; cbn [rmap bind]; [|reflexivity].
  rewrite flat_map_map. f_equal. apply flat_map_ext. intros [t ts]. simpl. rewrite map_map. apply map_ext. intros [j jb]. reflexivity.
Qed.

Lemma possible_jobs_sh x :
  filterM (fun '(_, jb) => is_action_possible i (sh x) jb) (map Gj (indexed 0 (s_jobs x)))
  = rmap (map Gj) (filterM (fun '(_, jb) => is_action_possible i x jb) (indexed 0 (s_jobs x))).
Proof. rewrite filterM_map. f_equal. apply filterM_ext. intros [j jb]. apply is_action_possible_sh. Qed.

Theorem get_possible_transitions_sh x : get_possible_transitions i (sh x) = get_possible_transitions i x.
Proof.
  unfold get_possible_transitions. cbn [s_jobs sh]. rewrite indexed_map. fold Gj. rewrite possible_jobs_sh.
  destruct (filterM _ (indexed 0 (s_jobs x))) as [pj|]; cbn [rmap bind]; [|reflexivity].
  rewrite get_possible_transport_transition_sh. destruct (get_possible_transport_transition i x) as [pt|]; cbn [bind]; [|reflexivity].
  rewrite mapM_map. f_equal. apply mapM_ext. intros [j jb]. cbn [Gj fst snd]. rewrite first_idle_sh.
  destruct (first_idle jb) as [k|]; cbn [of_opt bind]; [|reflexivity]. rewrite nth_ops_sh.
  destruct (nth_error (j_ops jb) k); reflexivity.
Qed.

Lemma get_num_possible_events_sh x : get_num_possible_events i (sh x) = get_num_possible_events i x.
Proof.
  unfold get_num_possible_events. rewrite get_possible_transport_transition_sh. cbn [s_jobs sh]. rewrite indexed_map. fold Gj.
  rewrite possible_jobs_sh. destruct (get_possible_transport_transition i x); cbn [bind]; [|reflexivity].
  destruct (filterM _ (indexed 0 (s_jobs x))); cbn [rmap bind]; [|reflexivity]. rewrite map_length. reflexivity.
Qed.

(* ---------- time machines ---------- *)
Lemma mapM_shift {A} (f g : A -> res Z) l : (forall a, f a = rmap (fun z => z + K) (g a)) -> mapM f l = rmap (map (fun z => z + K)) (mapM g l).
Proof.
  intros H. induction l as [|a l IH]; simpl; auto. rewrite H, IH. destruct (g a); cbn [bind rmap]; [|reflexivity].
  destruct (mapM g l); reflexivity.
Qed.

Lemma pending_times_sh x : pending_times (sh x) = rmap (map (fun z => z + K)) (pending_times x).
Proof.
  unfold pending_times. cbn [s_jobs s_trans sh]. rewrite flat_map_map. cbn [j_ops shj].
  assert (E1 : flat_map (fun a => map sho (j_ops a)) (s_jobs x) = map sho (flat_map j_ops (s_jobs x))).
  { induction (s_jobs x) as [|a l IH]; simpl; auto. rewrite map_app, IH. reflexivity. }
  rewrite E1, filter_map, mapM_map.
  change (fun a : op => is_ostate OProc (sho a)) with (is_ostate OProc).
  rewrite (mapM_shift (fun a => time_z (o_end (sho a))) (fun o => time_z (o_end o))) by (intros o; simpl; destruct (o_end o); reflexivity).
  destruct (mapM _ (filter (is_ostate OProc) _)) as [ops|]; cbn [rmap bind]; [|reflexivity].
  rewrite !filter_map, mapM_map.
  rewrite (filter_ext (fun a => negb (tstate_eqb (t_st (shtr a)) TIdle)) (fun ts => negb (tstate_eqb (t_st ts) TIdle))) by reflexivity.
  rewrite (filter_ext (fun a => match t_occ (shtr a) with ODep _ _ _ => false | _ => true end) (fun ts => match t_occ ts with ODep _ _ _ => false | _ => true end))
    by (intros ts; simpl; destruct (t_occ ts); reflexivity).
  rewrite (mapM_shift (fun a => match t_occ (shtr a) with OAt z => Ok z | _ => Err EPyType end) (fun ts => match t_occ ts with OAt z => Ok z | _ => Err EPyType end))
    by (intros ts; simpl; destruct (t_occ ts); reflexivity).
  destruct (mapM _ _) as [trs|]; cbn [rmap bind]; [|reflexivity]. rewrite map_app. reflexivity.
Qed.

Lemma fold_min_shift l : forall h, fold_left Z.min (map (fun z => z + K) l) (h + K) = fold_left Z.min l h + K.
Proof. induction l as [|a l IH]; intros h; simpl; auto. replace (Z.min (h + K) (a + K)) with (Z.min h a + K) by lia. apply IH. Qed.

Lemma force_jump_to_event_sh x : force_jump_to_event (sh x) = rmap (fun z => z + K) (force_jump_to_event x).
Proof.
  unfold force_jump_to_event. rewrite pending_times_sh, bind_rmap. destruct (pending_times x) as [p|]; cbn [bind rmap]; [|reflexivity].
  destruct p as [|h t]; cbn [map rmap s_now sh]; [f_equal; lia|]. unfold zmin_list. rewrite fold_min_shift. reflexivity.
Qed.

Lemma jump_to_event_sh x : jump_to_event i (sh x) = rmap (fun z => z + K) (jump_to_event i x).
Proof.
  unfold jump_to_event. rewrite get_num_possible_events_sh. destruct (get_num_possible_events i x) as [n|]; cbn [bind rmap]; [|reflexivity].
  destruct (Nat.ltb 0 n); [reflexivity|apply force_jump_to_event_sh].
Qed.

Lemma run_time_machine_sh tm x : run_time_machine i tm (sh x) = rmap (fun z => z + K) (run_time_machine i tm x).
Proof. destruct tm; simpl; [apply jump_to_event_sh|apply force_jump_to_event_sh|f_equal; lia]. Qed.

(* ---------- state.step ---------- *)
Definition shlog (lg : mlog) : mlog := map (fun p => (fst p, sh (snd p))) lg.
Definition shout (o : outcome) : outcome :=
  match o with
  | SOk x offers lg => SOk (sh x) offers (shlog lg)
  | SFail x lg => SFail (sh x) (shlog lg)
  | SRaise e => SRaise e
  | SOutOfFuel => SOutOfFuel
  end.

Lemma process_transitions_sh : forall trs x n lg,
  process_transitions sigma i trs (sh x) n (shlog lg)
  = rmap (fun r => (sh (fst (fst r)), snd (fst r), shlog (snd r))) (process_transitions sigma i trs x n lg).
Proof.
  induction trs as [|tr r IH]; intros x n lg; simpl; [reflexivity|].
  rewrite is_transition_valid_sh. destruct (is_transition_valid x tr) as [v|]; cbn [bind rmap]; [|reflexivity].
  destruct v; [|apply IH]. rewrite apply_transition_sh, bind_rmap.
  destruct (apply_transition sigma i x tr) as [x'|]; cbn [bind rmap]; [|reflexivity].
  replace (shlog lg ++ [(tr, sh x')]) with (shlog (lg ++ [(tr, x')])) by (unfold shlog; rewrite map_app; reflexivity).
  apply IH.
Qed.

Lemma travel_time_for_transport_sh x j : travel_time_for_transport i (sh x) j = travel_time_for_transport i x j.
Proof.
  unfold travel_time_for_transport. destruct (of_opt EInvalidValue j) as [jn|]; cbn [bind]; [|reflexivity].
  rewrite get_job_sh, bind_rmap. destruct (get_job x jn) as [jb|]; cbn [bind]; [|reflexivity].
  cbn [j_loc shj]. rewrite dest_idle_sh. reflexivity.
Qed.

Lemma filter_teleport_sh x offers : filter_teleport i (sh x) offers = filter_teleport i x offers.
Proof.
  unfold filter_teleport. f_equal. apply filterM_ext. intros tr. rewrite travel_time_for_transport_sh. reflexivity.
Qed.

Lemma all_in_output_sh x : all_in_output i (sh x) = all_in_output i x.
Proof.
  unfold all_in_output. cbn [s_jobs sh]. induction (s_jobs x) as [|jb l IH]; cbn [map forallb]; auto.
  rewrite all_operations_done_sh, IH. reflexivity.
Qed.

Lemma fold_max_shift l : forall h, fold_left Z.max (map (fun z => z + K) l) (h + K) = fold_left Z.max l h + K.
Proof. induction l as [|a l IH]; intros h; simpl; auto. replace (Z.max (h + K) (a + K)) with (Z.max h a + K) by lia. apply IH. Qed.

Lemma max_done_end_sh x : max_done_end (sh x) = rmap (option_map (fun z => z + K)) (max_done_end x).
Proof.
  unfold max_done_end. cbn [s_jobs sh]. rewrite flat_map_map. cbn [j_ops shj].
  assert (E1 : flat_map (fun a => map sho (j_ops a)) (s_jobs x) = map sho (flat_map j_ops (s_jobs x))).
  { induction (s_jobs x) as [|a l IH]; simpl; auto. rewrite map_app, IH. reflexivity. }
  rewrite E1, filter_map, mapM_map.
  change (fun a : op => is_ostate ODone (sho a)) with (is_ostate ODone).
  rewrite (mapM_shift (fun a => time_z (o_end (sho a))) (fun o => time_z (o_end o))) by (intros o; simpl; destruct (o_end o); reflexivity).
  destruct (mapM _ _) as [ends|]; cbn [rmap bind]; [|reflexivity].
  destruct ends as [|h t]; cbn [map option_map]; [reflexivity|]. rewrite fold_max_shift. reflexivity.
Qed.

Lemma set_now_sh x t : set_now (sh x) (t + K) = sh (set_now x t).
Proof. reflexivity. Qed.

Lemma timed_loop_sh : forall fuel x0 x timed lg,
  timed_loop sigma i fuel (sh x0) (sh x) timed (shlog lg) = shout (timed_loop sigma i fuel x0 x timed lg).
Proof.
  assert (Hexit : forall x lg,
    (if all_in_output i (sh x) then match max_done_end (sh x) with
        | Ok (Some z) => SOk (set_now (sh x) z) [] (shlog lg) | Ok None => SOk (sh x) [] (shlog lg) | Err e => SRaise e end
     else match get_possible_transitions i (sh x) with Ok offers => SOk (sh x) offers (shlog lg) | Err e => SRaise e end)
    = shout (if all_in_output i x then match max_done_end x with
        | Ok (Some z) => SOk (set_now x z) [] lg | Ok None => SOk x [] lg | Err e => SRaise e end
     else match get_possible_transitions i x with Ok offers => SOk x offers lg | Err e => SRaise e end)).
  { intros x lg. rewrite all_in_output_sh, max_done_end_sh, get_possible_transitions_sh. destruct (all_in_output i x).
    - destruct (max_done_end x) as [[z|]|]; reflexivity.
    - destruct (get_possible_transitions i x); reflexivity. }
  induction fuel as [|f IH]; intros x0 x timed lg.
  - destruct timed; simpl; [apply Hexit|reflexivity].
  - destruct timed as [|tr r]; [apply Hexit|]. cbn [timed_loop].
    rewrite process_transitions_sh. destruct (process_transitions sigma i (tr :: r) x 0 lg) as [[[x1 nerr] lg1]|]; cbn [rmap fst snd]; [|reflexivity].
    destruct (Nat.ltb 0 nerr); [reflexivity|].
    rewrite jump_to_event_sh. destruct (jump_to_event i x1) as [t|]; cbn [rmap]; [|reflexivity].
    rewrite set_now_sh, create_timed_transitions_sh. destruct (create_timed_transitions i (set_now x1 t)); [apply IH|reflexivity].
Qed.

Definition step_tail (fuel : nat) (x0 : state) (tm : tmachine) (r : state * nat * mlog) : outcome :=
  let '(x1, nerr, lg1) := r in
  if Nat.ltb 0 nerr then SFail (set_sto x0 (s_sto x1)) lg1
  else match run_time_machine i tm x1 with
       | Err e => SRaise e
       | Ok t =>
           let x2 := set_now x1 t in
           match create_timed_transitions i x2 with
           | Err e => SRaise e
           | Ok timed =>
               match get_possible_transitions i x2 with
               | Err e => SRaise e
               | Ok poss =>
                   match filter_teleport i x2 poss with
                   | Err e => SRaise e
                   | Ok tele => timed_loop sigma i fuel x0 x2 (timed ++ tele) lg1
                   end
               end
           end
       end.

Lemma step_tail_sh fuel x0 tm x1 nerr lg1 :
  step_tail fuel (sh x0) tm (sh x1, nerr, shlog lg1) = shout (step_tail fuel x0 tm (x1, nerr, lg1)).
Proof.
  unfold step_tail. destruct (Nat.ltb 0 nerr); [reflexivity|].
  rewrite run_time_machine_sh. destruct (run_time_machine i tm x1) as [t|]; cbn [rmap]; [|reflexivity].
  rewrite set_now_sh, create_timed_transitions_sh. destruct (create_timed_transitions i (set_now x1 t)) as [timed|]; [|reflexivity].
  rewrite get_possible_transitions_sh. destruct (get_possible_transitions i (set_now x1 t)) as [poss|]; [|reflexivity].
  rewrite filter_teleport_sh. destruct (filter_teleport i (set_now x1 t) poss) as [tele|]; [|reflexivity].
  apply timed_loop_sh.
Qed.

Lemma step_as_tail fuel x0 trs tm :
  step sigma i fuel x0 trs tm =
  match (match trs with [] => Ok (x0, O, []) | _ => process_transitions sigma i (sorted_by_transport trs) x0 O [] end) with
  | Err e => SRaise e
  | Ok r => step_tail fuel x0 tm r
  end.
Proof. unfold step, step_tail. destruct (match trs with [] => _ | _ => _ end) as [[[x1 nerr] lg1]|]; reflexivity. Qed.

Theorem step_sh fuel x0 trs tm : step sigma i fuel (sh x0) trs tm = shout (step sigma i fuel x0 trs tm).
Proof.
  rewrite !step_as_tail. destruct trs as [|tr0 r0].
  - apply (step_tail_sh fuel x0 tm x0 O []).
  - pose proof (process_transitions_sh (sorted_by_transport (tr0 :: r0)) x0 O []) as E. cbn [shlog map] in E. rewrite E.
    destruct (process_transitions sigma i (sorted_by_transport (tr0 :: r0)) x0 0 []) as [[[x1 nerr] lg1]|]; cbn [rmap fst snd]; [|reflexivity].
    apply step_tail_sh.
Qed.

(* ---------- middleware and environment ---------- *)
Definition shres (r : result) : result := mkResult (sh (r_x r)) (r_offers r) (r_acts r).
Definition shmw (o : mwout) : mwout :=
  match o with MOk r m lg => MOk (shres r) m (shlog lg) | MFail sto m => MFail sto m | MRaise e => MRaise e | MOutOfFuel => MOutOfFuel end.
Definition shenv (e : env) : env := mkEnv (shres (e_res e)) (e_mw e) (e_term e) (e_trunc e) (e_hist e).
Definition sheo (o : envout) : envout :=
  match o with EOk e lg => EOk (shenv e) (shlog lg) | ERaise er => ERaise er | EOutOfFuel => EOutOfFuel end.

Theorem mw_reset_sh fuel x0 joker0 ta m : mw_reset sigma i fuel (sh x0) joker0 ta m = shmw (mw_reset sigma i fuel x0 joker0 ta m).
Proof. unfold mw_reset. rewrite step_sh. destruct (step sigma i fuel x0 [] TMJumpToEvent); reflexivity. Qed.

Theorem mw_step_sh fuel r m a : mw_step sigma i fuel (shres r) m a = shmw (mw_step sigma i fuel r m a).
Proof.
  unfold mw_step. cbn [r_offers r_x shres]. destruct (r_offers r) as [|tr rest]; [reflexivity|].
  destruct (negb ((a =? 0) || (a =? 1))); [reflexivity|]. destruct (a =? 0).
  - destruct rest as [|tr2 rest]; [|reflexivity]. rewrite step_sh.
    destruct (step sigma i fuel (r_x r) [] TMForceJump) as [x offers lg|x lg|e|]; cbn [shout]; try reflexivity.
    destruct offers; [|reflexivity]. rewrite all_in_output_sh. destruct (all_in_output i x); reflexivity.
  - rewrite step_sh. destruct (step sigma i fuel (r_x r) [tr] TMJumpToEvent); reflexivity.
Qed.

Theorem env_step_sh fuel e a : env_step sigma i fuel (shenv e) a = sheo (env_step sigma i fuel e a).
Proof.
  unfold env_step. change (env_done (shenv e)) with (env_done e). destruct (env_done e); [reflexivity|].
  cbn [e_res e_mw shenv]. rewrite mw_step_sh. destruct (mw_step sigma i fuel (e_res e) (e_mw e) a) as [r m lg|sto m|er|]; cbn [shmw sheo]; try reflexivity.
  unfold shenv. cbn [e_res e_mw e_term e_trunc e_hist r_x shres]. rewrite all_in_output_sh. reflexivity.
Qed.

(* whole episodes: the same actions from a shifted start give the shifted episode *)
Fixpoint env_run (fuel : nat) (e : env) (acts : list Z) : option env :=
  match acts with
  | [] => Some e
  | a :: r => match env_step sigma i fuel e a with EOk e' _ => env_run fuel e' r | _ => None end
  end.

Theorem env_run_sh fuel : forall acts e, env_run fuel (shenv e) acts = option_map shenv (env_run fuel e acts).
Proof.
  induction acts as [|a r IH]; intros e; simpl; [reflexivity|]. rewrite env_step_sh.
  destruct (env_step sigma i fuel e a); cbn [sheo]; auto.
Qed.

Lemma env_makespan_sh e : env_makespan (shenv e) = option_map (fun z => z + K) (env_makespan e).
Proof. unfold env_makespan. cbn [e_term shenv]. destruct (e_term e); reflexivity. Qed.

End H.
End Sh.

(* ---------- initial states: shifting a state without time stamps moves its clock only ---------- *)
Definition timeless_b (x : state) : bool :=
  forallb (fun jb => forallb (fun o => match o_start o, o_end o with NoTime, NoTime => true | _, _ => false end) (j_ops jb)) (s_jobs x)
  && forallb (fun ms => match m_occ ms, m_out ms with NoTime, [] => true | _, _ => false end) (s_machs x)
  && forallb (fun ts => match t_occ ts, t_out ts with OAt _, _ => false | _, [] => true | _, _ => false end) (s_trans x).

Lemma map_id_on {A} (f : A -> A) l : (forall a, In a l -> f a = a) -> map f l = l.
Proof. induction l as [|a l IH]; simpl; intros H; auto. rewrite H by auto. rewrite IH; auto. Qed.

Theorem timeless_sh K x : timeless_b x = true -> sh K x = set_now x (s_now x + K).
Proof.
  unfold timeless_b. rewrite !andb_true_iff. intros [[Hj Hm] Ht]. rewrite forallb_forall in Hj, Hm, Ht.
  unfold sh, set_now. f_equal.
  - apply map_id_on. intros jb Hin. specialize (Hj _ Hin). rewrite forallb_forall in Hj. destruct jb as [ops loc]. unfold shj. simpl. f_equal.
    apply map_id_on. intros o Ho. specialize (Hj _ Ho). destruct o as [m s e st]. unfold sho. simpl in *. destruct s, e; try discriminate. reflexivity.
  - apply map_id_on. intros ms Hin. specialize (Hm _ Hin). destruct ms as [st oc pre inn post tool outs]. unfold shm. simpl in *.
    destruct oc; [|discriminate]. destruct outs; [reflexivity|discriminate].
  - apply map_id_on. intros ts Hin. specialize (Ht _ Hin). destruct ts as [st oc b loc jb outs]. unfold shtr. simpl in *.
    destruct oc; try discriminate; (destruct outs; [reflexivity|discriminate]).
Qed.
