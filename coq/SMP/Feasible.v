(* C01: every handler of the model performs, on the view (clock, operation records, machine phase and
   internal store), one of the updates of SMP/FeasView.v - or none. Hence the feasibility invariant
   FE survives every applied transition (one side condition, stated below: an AGV never takes a job
   that is being processed). *)
From Coq Require Import List ZArith Bool Arith Lia.
From JSL Require Import Base.Res Base.ListX SM.Types SM.Util SM.Handler SM.Step SM.Inv
  SMP.ListLemmas SMP.Frame SMP.WF SMP.Preserve SMP.Clock SMP.Post SMP.PostApply SMP.FeasView.
Import ListNotations.
Close Scope Z_scope.

Definition jops (x : state) (j : nat) : option (list op) := option_map j_ops (nth_error (s_jobs x) j).
Definition mview (x : state) (m : nat) : option (mstate * list nat) :=
  option_map (fun ms => (m_st ms, b_store (m_in ms))) (nth_error (s_machs x) m).
Definition view_of (x : state) : view := mkView (s_now x) (jops x) (mview x).

Definition FE (i : inst) (x : state) : Prop := FEV i (view_of x).

(* ---------- building blocks ---------- *)
Lemma jops_put_job x j jb k o' j' :
  nth_error (s_jobs x) j = Some jb ->
  jops (put_job x j (set_op jb k o')) j' =
  (if Nat.eqb j' j then option_map (fun ops => upd ops k o') (jops x j') else jops x j').
Proof.
  intros Hj. unfold jops, put_job; simpl. rewrite nth_upd.
  destruct (Nat.eqb_spec j j') as [<-|Hne].
  - rewrite Nat.eqb_refl, Hj. apply nth_error_lt in Hj. apply Nat.ltb_lt in Hj. rewrite Hj. reflexivity.
  - destruct (Nat.eqb_spec j' j); [congruence|reflexivity].
Qed.

Lemma mview_put_job x j jb m : mview (put_job x j jb) m = mview x m.
Proof. reflexivity. Qed.

Lemma jops_set_mach_ctl x m st oc tool outs j : jops (set_mach_ctl x m st oc tool outs) j = jops x j.
Proof. unfold jops. destruct (set_mach_ctl_other x m st oc tool outs) as [H _]. rewrite H. reflexivity. Qed.

Lemma mview_set_mach_ctl x m st oc tool outs m' :
  mview (set_mach_ctl x m st oc tool outs) m' =
  (if Nat.eqb m' m then option_map (fun p => (st, snd p)) (mview x m') else mview x m').
Proof.
  unfold mview. rewrite set_mach_ctl_nth. rewrite (Nat.eqb_sym m' m).
  destruct (nth_error (s_machs x) m') as [ms|]; [|destruct (Nat.eqb m m'); reflexivity].
  destruct (Nat.eqb m m'); reflexivity.
Qed.

Lemma jops_with_sto x s j : jops (with_sto x s) j = jops x j.
Proof. reflexivity. Qed.
Lemma mview_with_sto x s m : mview (with_sto x s) m = mview x m.
Proof. reflexivity. Qed.

Lemma jops_set_trans_ctl x t st oc loc jb outs j : jops (set_trans_ctl x t st oc loc jb outs) j = jops x j.
Proof. unfold jops. destruct (set_trans_ctl_other x t st oc loc jb outs) as [H _]. rewrite H. reflexivity. Qed.

Lemma mview_set_trans_ctl x t st oc loc jb outs m : mview (set_trans_ctl x t st oc loc jb outs) m = mview x m.
Proof.
  unfold mview. destruct (set_trans_ctl_other x t st oc loc jb outs) as [_ [_ [H _]]]. rewrite H. reflexivity.
Qed.

Section Moved.
Variable i : inst.

Lemma jops_moved x x1 j A B j' : moved i x x1 j A B -> jops x1 j' = jops x j'.
Proof.
  intros M. destruct (mv_job _ _ _ _ _ _ M) as [jb [Hjb Hjobs]]. unfold jops. rewrite Hjobs, nth_upd.
  destruct (Nat.eqb_spec j j') as [<-|Hne]; [|reflexivity].
  rewrite Hjb. apply nth_error_lt in Hjb. apply Nat.ltb_lt in Hjb. rewrite Hjb. reflexivity.
Qed.

(* the internal buffer of machine m' is neither source nor target: its view is kept *)
Lemma mview_moved_other x x1 j A B m' :
  moved i x x1 j A B -> BIn m' <> A -> BIn m' <> B -> mview x1 m' = mview x m'.
Proof.
  intros M HA HB. pose proof (mv_other _ _ _ _ _ _ M (BIn m') HA HB) as Hb. simpl in Hb.
  unfold mview. destruct (nth_error (s_machs x1) m') as [ms1|] eqn:E1.
  - destruct (mv_machs _ _ _ _ _ _ M _ _ E1) as [ms0 [E0 [C1 _]]]. rewrite E0 in *. simpl in *.
    inversion Hb. rewrite C1. congruence.
  - simpl in Hb. destruct (nth_error (s_machs x) m'); [discriminate|reflexivity].
Qed.

Lemma mview_moved_target x x1 j A m st l :
  moved i x x1 j A (BIn m) -> mview x m = Some (st, l) -> mview x1 m = Some (st, l ++ [j]).
Proof.
  intros M Hv. destruct (mv_b _ _ _ _ _ _ M) as [b [b' [c [H1 [H2 [H3 H4]]]]]].
  apply put_in_buffer_ok in H3. simpl in H1, H4. unfold mview in *.
  destruct (nth_error (s_machs x) m) as [ms0|] eqn:E0; [|discriminate]. simpl in *.
  destruct (nth_error (s_machs x1) m) as [ms1|] eqn:E1; [|discriminate]. simpl in *.
  destruct (mv_machs _ _ _ _ _ _ M _ _ E1) as [ms0' [E0' [C1 _]]]. rewrite E0 in E0'. inversion E0'; subst ms0'.
  inversion H1; inversion H4; inversion Hv; subst. f_equal. f_equal; [auto|tauto].
Qed.

Lemma mview_moved_source x x1 j B m st l :
  moved i x x1 j (BIn m) B -> mview x m = Some (st, l) -> mview x1 m = Some (st, remove_nat j l).
Proof.
  intros M Hv. destruct (mv_a _ _ _ _ _ _ M) as [a [a' [H1 [H2 H3]]]].
  apply remove_from_buffer_ok in H2. simpl in H1, H3. unfold mview in *.
  destruct (nth_error (s_machs x) m) as [ms0|] eqn:E0; [|discriminate]. simpl in *.
  destruct (nth_error (s_machs x1) m) as [ms1|] eqn:E1; [|discriminate]. simpl in *.
  destruct (mv_machs _ _ _ _ _ _ M _ _ E1) as [ms0' [E0' [C1 _]]]. rewrite E0 in E0'. inversion E0'; subst ms0'.
  inversion H1; inversion H3; inversion Hv; subst. f_equal. f_equal; [auto|tauto].
Qed.

End Moved.

(* ---------- operation lists ---------- *)
Lemma first_not_done_spec jb k :
  first_not_done jb = Some k ->
  exists o, nth_error (j_ops jb) k = Some o /\ o_st o <> ODone /\
            forall n a, n < k -> nth_error (j_ops jb) n = Some a -> o_st a = ODone.
Proof.
  intros H. apply find_idx_some in H. destruct H as [o [H1 [H2 H3]]]. exists o. split; auto. split.
  - intros E. unfold is_ostate in H2. rewrite E in H2. discriminate.
  - intros n a Hn Ha. specialize (H3 _ _ Hn Ha). unfold is_ostate in H3. destruct (o_st a); simpl in H3; try discriminate. reflexivity.
Qed.

Lemma first_proc_spec jb k : first_proc jb = Some k -> exists o, nth_error (j_ops jb) k = Some o /\ o_st o = OProc.
Proof.
  intros H. apply find_idx_some in H. destruct H as [o [H1 [H2 _]]]. exists o. split; auto.
  unfold is_ostate in H2. destruct (o_st o); simpl in H2; try discriminate. reflexivity.
Qed.

(* with the pattern, the first operation that is not done is the PROCESSING one if there is one *)
Lemma first_not_done_is_proc jb k k1 o1 :
  Pat (j_ops jb) -> first_not_done jb = Some k -> nth_error (j_ops jb) k1 = Some o1 -> o_st o1 = OProc -> k = k1.
Proof.
  intros P Hk H1 S1. destruct (first_not_done_spec _ _ Hk) as [o [Ho [So Hbefore]]].
  destruct (Nat.lt_trichotomy k k1) as [H|[H|H]]; auto.
  - exfalso. apply So. eapply Pat_before_proc; eauto. congruence.
  - exfalso. specialize (Hbefore _ _ H H1). congruence.
Qed.

Section Apply.
Variable sigma : oracle.
Variable i : inst.
Hypothesis Hnn : inst_nonneg_b i = true.

Lemma veq_refl_upd x x' : s_now x' = s_now x -> (forall j, jops x' j = jops x j) -> (forall m, mview x' m = mview x m) ->
  veq (view_of x) (view_of x').
Proof. intros A B C. split; [symmetry; exact A|]. split; intros; simpl; symmetry; auto. Qed.

Lemma FE_frame x x' : FE i x -> s_now x' = s_now x -> (forall j, jops x' j = jops x j) -> (forall m, mview x' m = mview x m) -> FE i x'.
Proof. intros F A B C. eapply FEV_ext; [|exact F]. apply veq_refl_upd; auto. Qed.

Lemma FE_set_now x t : FE i x -> (s_now x <= t)%Z -> FE i (set_now x t).
Proof. intros F H. apply (FEV_clock i _ t F H). Qed.

(* the view after "put the job's new record, [move it,] set the machine's control fields" *)
Lemma FE_by_upd x x' j k o' m p :
  FEV i (v_upd (view_of x) j k o' m p) ->
  s_now x' = s_now x ->
  (forall j', jops x' j' = if Nat.eqb j' j then option_map (fun ops => upd ops k o') (jops x j') else jops x j') ->
  (forall m', mview x' m' = if Nat.eqb m' m then Some p else mview x m') ->
  FE i x'.
Proof.
  intros F A B C. eapply FEV_ext; [|exact F]. split; [simpl; auto|]. split; intros; simpl; symmetry; auto.
Qed.

(* ---------- IDLE -> SETUP ---------- *)
Lemma FE_idle_setup x tr m ms x' :
  NO x -> FE i x -> nth_error (s_machs x) m = Some ms -> m_st ms = MIdle ->
  is_transition_valid x tr = Ok true -> tr_comp tr = CM m -> tr_new tr = NM MSetup ->
  h_m_idle_setup sigma i x tr m ms = Ok x' -> FE i x'.
Proof.
  intros N F Hms Hst Hval Hc Hnew H.
  unfold h_m_idle_setup in H. inv_all H. inversion H; subst; clear H.
  apply of_opt_ok in E, E2, E4, E5. apply get_job_ok in E0. apply guard_ok in E1.
  rename v into j. rename v0 into jb. rename v2 into k. rename z into sd.
  assert (Hne : BPre m <> BIn m) by congruence.
  match goal with E : move_job _ _ _ _ _ = Ok ?y |- _ => pose proof (move_job_moved i _ _ _ _ _ Hne E) as M; rename y into x1 end.
  destruct (first_not_done_spec _ _ E2) as [o [Ho [So Hbefore]]].
  (* validity: the operation is routed to this machine *)
  assert (Hm : o_mach o = m).
  { unfold is_transition_valid in Hval. rewrite Hc, Hms in Hval. unfold is_machine_transition_valid in Hval.
    rewrite Hst, Hnew in Hval. simpl in Hval. rewrite E in Hval. unfold get_job in Hval. rewrite E0 in Hval. simpl in Hval.
    rewrite E2 in Hval. simpl in Hval. rewrite Ho in Hval. simpl in Hval. inversion Hval. apply Nat.eqb_eq. auto. }
  assert (Hv : mview x m = Some (MIdle, b_store (m_in ms))) by (unfold mview; rewrite Hms; simpl; rewrite Hst; reflexivity).
  assert (Hops : jops x j = Some (j_ops jb)) by (unfold jops; rewrite E0; reflexivity).
  (* the operation is idle: were it in process, its machine m would be busy *)
  assert (Sidle : o_st o = OIdle).
  { destruct (o_st o) eqn:Es; auto; try congruence.
    - exfalso. assert (Vo : vop (view_of x) j k o) by (exists (j_ops jb); auto).
      destruct (fe_proc _ _ F _ _ _ Vo Es) as [[st0 [A B]] _]. simpl in A. rewrite Hm, Hv in A. inversion A. congruence.
    - exfalso. destruct (fe_pat _ _ F _ _ Hops) as [Q _]. eapply Q; eauto. }
  assert (Hl : b_store (m_in ms) = []) by (destruct (fe_hold _ _ F _ _ _ Hv) as [A _]; auto).
  assert (Hsd : (0 <= sd)%Z).
  { eapply proj1. eapply tc_read_update_nonneg; [apply N| |eassumption]. eapply setup_nonneg; eauto. }
  pose proof (FEV_start i (view_of x) j k (j_ops jb) o m _ MSetup sd F Hops Ho Sidle Hbefore Hv Hm Hsd ltac:(discriminate)) as F'.
  apply (FE_by_upd _ _ _ _ _ _ _ F').
  - simpl. destruct (set_mach_ctl_other x1 m MSetup (Time (s_now x + sd)%Z) (oc_tool v3) (m_out ms)) as [_ [Hn _]].
    rewrite Hn, (mv_now _ _ _ _ _ _ M). reflexivity.
  - intros j'. rewrite jops_with_sto, jops_set_mach_ctl, (jops_moved i _ _ _ _ _ j' M). apply jops_put_job; auto.
  - intros m'. rewrite mview_with_sto, mview_set_mach_ctl. destruct (Nat.eqb_spec m' m) as [->|Hm'].
    + rewrite (mview_moved_target i _ _ _ _ _ MIdle (b_store (m_in ms)) M); [simpl; rewrite Hl; reflexivity|].
      rewrite mview_put_job. exact Hv.
    + rewrite (mview_moved_other i _ _ _ _ _ m' M); [apply mview_put_job|congruence|congruence].
Qed.

(* a busy machine: its internal store is [j1], and job j1's first not-done / first PROCESSING operation is
   the PROCESSING record on this machine *)
Lemma busy_machine_job x m ms :
  FE i x -> nth_error (s_machs x) m = Some ms -> m_st ms <> MIdle ->
  exists j1 jb1 k1 o1, b_store (m_in ms) = [j1] /\ nth_error (s_jobs x) j1 = Some jb1 /\ nth_error (j_ops jb1) k1 = Some o1
    /\ o_st o1 = OProc /\ o_mach o1 = m /\ Pat (j_ops jb1)
    /\ (forall k, first_not_done jb1 = Some k -> k = k1) /\ (forall k, first_proc jb1 = Some k -> k = k1).
Proof.
  intros F Hms Hst.
  assert (Hv : mview x m = Some (m_st ms, b_store (m_in ms))) by (unfold mview; rewrite Hms; reflexivity).
  destruct (fe_hold _ _ F _ _ _ Hv) as [_ B]. destruct (B Hst) as [j1 [k1 [o1 [B1 [[ops [B2 B2'] ] [B3 B4]]]]]].
  simpl in B2. unfold jops in B2. destruct (nth_error (s_jobs x) j1) as [jb1|] eqn:Ej; [|discriminate].
  simpl in B2. inversion B2; subst ops.
  assert (P : Pat (j_ops jb1)) by (eapply (fe_pat _ _ F j1); simpl; unfold jops; rewrite Ej; reflexivity).
  exists j1, jb1, k1, o1. split; [auto|]. split; [auto|]. split; [auto|]. split; [auto|]. split; [auto|]. split; [auto|]. split.
  - intros k Hk. eapply first_not_done_is_proc; eauto.
  - intros k Hk. destruct (first_proc_spec _ _ Hk) as [o [Ho So]]. eapply Pat_proc_unique; eauto.
Qed.

(* ---------- SETUP -> WORKING ---------- *)
Lemma FE_setup_working x tr m ms x' :
  NO x -> FE i x -> nth_error (s_machs x) m = Some ms -> m_st ms = MSetup ->
  h_m_setup_working sigma i x tr m ms = Ok x' -> FE i x'.
Proof.
  intros N F Hms Hst H.
  unfold h_m_setup_working in H. inv_all H. inversion H; subst; clear H.
  apply of_opt_ok in E, E2. apply get_job_ok in E0. apply guard_ok in E1.
  rename v into j. rename v0 into jb. rename v2 into k. rename z into d.
  destruct (busy_machine_job x m ms F Hms ltac:(congruence)) as [j1 [jb1 [k1 [o1 [B1 [B2 [B3 [B4 [B5 [P [Q1 Q2]]]]]]]]]]].
  apply mem_nat_In in E1. rewrite B1 in E1. destruct E1 as [Ej|[]]. subst j1.
  rewrite E0 in B2. inversion B2; subst jb1. pose proof (Q1 _ E2) as Ek. subst k1.
  assert (Hv : mview x m = Some (MSetup, b_store (m_in ms))) by (unfold mview; rewrite Hms; simpl; rewrite Hst; reflexivity).
  assert (Vo : vop (view_of x) j k o1) by (exists (j_ops jb); split; auto; simpl; unfold jops; rewrite E0; reflexivity).
  assert (Hd : (0 <= d)%Z).
  { eapply proj1. eapply tc_update_read_nonneg; [apply N| |eassumption]. eapply opcfg_nonneg; eauto. }
  destruct (fe_past _ _ F _ _ _ Vo) as [_ Hp]. specialize (Hp B4).
  pose proof (FEV_restamp i (view_of x) j k o1 (mkOp m (Time (s_now x)) (Time (s_now x + d)%Z) OProc) m MSetup MWorking _
                F Vo B4 eq_refl (eq_sym B5) ltac:(simpl; apply tle_Time; lia) Hp ltac:(simpl; apply tle_Time; lia) Hv
                ltac:(discriminate) ltac:(discriminate)) as F'.
  apply (FE_by_upd _ _ _ _ _ _ _ F').
  - simpl. match goal with |- s_now (set_mach_ctl ?y ?a ?b ?c ?d0 ?e) = _ =>
      destruct (set_mach_ctl_other y a b c d0 e) as [_ [Hn _]]; rewrite Hn end. reflexivity.
  - intros j'. rewrite jops_with_sto, jops_set_mach_ctl. apply jops_put_job; auto.
  - intros m'. rewrite mview_with_sto, mview_set_mach_ctl, mview_put_job. destruct (Nat.eqb_spec m' m) as [->|Hm']; [|reflexivity].
    rewrite Hv. reflexivity.
Qed.

(* ---------- WORKING -> OUTAGE ---------- *)
Lemma FE_working_outage x tr m ms x' :
  NO x -> FE i x -> nth_error (s_machs x) m = Some ms -> m_st ms = MWorking ->
  h_m_working_outage sigma i x tr m ms = Ok x' -> FE i x'.
Proof.
  intros N F Hms Hst H.
  unfold h_m_working_outage in H. inv_all H. inversion H; subst; clear H.
  apply of_opt_ok in E, E2, E4, E5. apply get_job_ok in E3.
  rename v1 into j. rename v2 into jb. rename v3 into k. rename v4 into o. rename v0 into occ_for.
  assert (So : o_st o = OProc).
  { destruct (first_proc_spec _ _ E4) as [o0 [A B]]. congruence. }
  assert (Hv : mview x m = Some (MWorking, b_store (m_in ms))) by (unfold mview; rewrite Hms; simpl; rewrite Hst; reflexivity).
  assert (Vo : vop (view_of x) j k o) by (exists (j_ops jb); split; auto; simpl; unfold jops; rewrite E3; reflexivity).
  assert (Hocc : (0 <= occ_for)%Z).
  { match goal with E' : new_outage_states _ _ _ _ _ = Ok _ |- _ =>
      destruct (new_outage_states_ok sigma (s_now x) _ _ _ _ _ (no_sto _ N) (mach_out_nonneg i Hnn _ _ E) E') as [A _] end.
    eapply occupied_time_nonneg; eauto. }
  destruct (fe_past _ _ F _ _ _ Vo) as [_ Hp]. specialize (Hp So).
  destruct (tle_is_time _ _ Hp) as [s0 [n0 [Es [En Hle]]]]. inversion En; subst n0.
  pose proof (FEV_restamp i (view_of x) j k o (set_op_end o (Time (s_now x + occ_for)%Z)) m MWorking MOutage _
                F Vo So So eq_refl ltac:(simpl; rewrite Es; apply tle_Time; simpl in Hle; lia)
                ltac:(simpl; rewrite Es; apply tle_Time; lia) Hp Hv ltac:(discriminate) ltac:(discriminate)) as F'.
  apply (FE_by_upd _ _ _ _ _ _ _ F').
  - simpl. match goal with |- s_now (set_mach_ctl ?y ?a ?b ?c ?d0 ?e) = _ =>
      destruct (set_mach_ctl_other y a b c d0 e) as [_ [Hn _]]; rewrite Hn end. reflexivity.
  - intros j'. rewrite jops_with_sto, jops_set_mach_ctl. apply jops_put_job; auto.
  - intros m'. rewrite mview_with_sto, mview_set_mach_ctl, mview_put_job. destruct (Nat.eqb_spec m' m) as [->|Hm']; [|reflexivity].
    rewrite Hv. reflexivity.
Qed.

(* ---------- OUTAGE -> IDLE ---------- *)
Lemma FE_outage_idle x tr m ms x' :
  FE i x -> nth_error (s_machs x) m = Some ms -> m_st ms = MOutage ->
  h_m_outage_idle i x tr m ms = Ok x' -> FE i x'.
Proof.
  intros F Hms Hst H.
  unfold h_m_outage_idle in H. inv_all H. inversion H; subst; clear H.
  apply of_opt_ok in E, E1, E2. apply get_job_ok in E0.
  rename v into j. rename v0 into jb. rename v1 into k. rename v2 into o.
  destruct (busy_machine_job x m ms F Hms ltac:(congruence)) as [j1 [jb1 [k1 [o1 [B1 [B2 [B3 [B4 [B5 [P [Q1 Q2]]]]]]]]]]].
  rewrite B1 in E. simpl in E. inversion E; subst j1.
  rewrite E0 in B2. inversion B2; subst jb1. pose proof (Q2 _ E1) as Ek. subst k1.
  rewrite E2 in B3. inversion B3; subst o1.
  assert (Hne : BIn m <> BPost m) by congruence.
  match goal with E' : move_job _ _ _ _ _ = Ok ?y |- _ => pose proof (move_job_moved i _ _ _ _ _ Hne E') as M; rename y into x1 end.
  assert (Hv : mview x m = Some (MOutage, [j])) by (unfold mview; rewrite Hms; simpl; rewrite Hst, B1; reflexivity).
  assert (Vo : vop (view_of x) j k o) by (exists (j_ops jb); split; auto; simpl; unfold jops; rewrite E0; reflexivity).
  pose proof (FEV_finish i (view_of x) j k o m MOutage F Vo B4 B5 Hv) as F'.
  apply (FE_by_upd _ _ _ _ _ _ _ F').
  - match goal with |- s_now (set_mach_ctl ?y ?a ?b ?c ?d0 ?e) = _ =>
      destruct (set_mach_ctl_other y a b c d0 e) as [_ [Hn _]]; rewrite Hn end.
    rewrite (mv_now _ _ _ _ _ _ M). reflexivity.
  - intros j'. rewrite jops_set_mach_ctl, (jops_moved i _ _ _ _ _ j' M). apply jops_put_job; auto.
  - intros m'. rewrite mview_set_mach_ctl. destruct (Nat.eqb_spec m' m) as [->|Hm'].
    + rewrite (mview_moved_source i _ _ _ _ _ MOutage [j] M); [rewrite remove_single; reflexivity|].
      rewrite mview_put_job. exact Hv.
    + rewrite (mview_moved_other i _ _ _ _ _ m' M); [apply mview_put_job|congruence|congruence].
Qed.

(* ---------- transports ---------- *)
Lemma FE_ctl_only x t st oc loc jb outs : FE i x -> FE i (set_trans_ctl x t st oc loc jb outs).
Proof.
  intros F. eapply FE_frame; [exact F| | |].
  - apply set_trans_ctl_other.
  - intros j. apply jops_set_trans_ctl.
  - intros m. apply mview_set_trans_ctl.
Qed.

Lemma FE_waiting_waiting x tr t ts x' : FE i x -> h_t_waiting_waiting i x tr t ts = Ok x' -> FE i x'.
Proof. intros F H. unfold h_t_waiting_waiting in H. inv_all H. inversion H; subst. apply FE_ctl_only; auto. Qed.

(* a job none of whose operations is in process lies in no machine's internal buffer *)
Lemma idle_job_not_inside x j jb m ms :
  FE i x -> nth_error (s_jobs x) j = Some jb -> is_job_running jb = false ->
  nth_error (s_machs x) m = Some ms -> ~ In j (b_store (m_in ms)).
Proof.
  intros F Hj Hr Hms Hin.
  assert (Hv : mview x m = Some (m_st ms, b_store (m_in ms))) by (unfold mview; rewrite Hms; reflexivity).
  destruct (fe_hold _ _ F _ _ _ Hv) as [A B].
  destruct (m_st ms) eqn:Es; try (rewrite A in Hin by reflexivity; destruct Hin).
  all: destruct (B ltac:(discriminate)) as [j1 [k1 [o1 [B1 [[ops [B2 B2']] [B3 B4]]]]]];
       rewrite B1 in Hin; destruct Hin as [<-|[]];
       simpl in B2; unfold jops in B2; rewrite Hj in B2; simpl in B2; inversion B2; subst ops;
       unfold is_job_running in Hr; assert (Hex : existsb (is_ostate OProc) (j_ops jb) = true)
         by (apply existsb_exists; exists o1; split; [eapply nth_error_In; eauto|unfold is_ostate; rewrite B3; reflexivity]);
       congruence.
Qed.

Lemma FE_to_transit x tr t ts x' :
  FE i x -> h_t_to_transit sigma i x tr t ts = Ok x' -> transit_side_b tr x' = true -> tr_new tr = NT TTransit -> FE i x'.
Proof.
  intros F H Hside Hnew. unfold h_t_to_transit in H.
  inv1 H. inv1 H. inv1 H. inv1 H. inv1 H.
  apply of_opt_ok in E, E1, E2. apply get_job_ok in E0.
  rename v into j. rename v0 into jb.
  inv1 H; [eapply FE_waiting_waiting; eauto|].
  inv_all H. inversion H; subst; clear H.
  assert (Hne : j_loc jb <> BAgv t) by (intros Eq; rewrite Eq in *; discriminate).
  match goal with E' : move_job _ _ _ _ _ = Ok ?y |- _ =>
    pose proof (move_job_moved i _ _ _ _ _ Hne E') as M; rename E' into Emv; rename y into x1 end.
  (* the side condition, read back in the pre-state *)
  assert (Hrun : is_job_running jb = false).
  { unfold transit_side_b in Hside. rewrite Hnew, E in Hside.
    assert (Hj' : nth_error (s_jobs (with_sto (set_trans_ctl x1 t TTransit (OAt (s_now x + z)%Z) (t_loc ts) (t_job ts) (t_out ts)) l)) j
                  = Some (set_j_loc jb (BAgv t))).
    { simpl. destruct (set_trans_ctl_other x1 t TTransit (OAt (s_now x + z)%Z) (t_loc ts) (t_job ts) (t_out ts)) as [Hj _].
      rewrite Hj. eapply moved_job_record; eauto. }
    rewrite Hj' in Hside. simpl in Hside. apply negb_true_iff in Hside. exact Hside. }
  eapply FE_frame; [exact F| | |].
  - simpl. destruct (set_trans_ctl_other x1 t TTransit (OAt (s_now x + z)%Z) (t_loc ts) (t_job ts) (t_out ts)) as [_ [Hn _]].
    rewrite Hn. apply (mv_now _ _ _ _ _ _ M).
  - intros j'. rewrite jops_with_sto, jops_set_trans_ctl. apply (jops_moved i _ _ _ _ _ j' M).
  - intros m'. rewrite mview_with_sto, mview_set_trans_ctl. apply (mview_moved_other i _ _ _ _ _ m' M); [|congruence].
    intros Eq. destruct (mv_a _ _ _ _ _ _ M) as [a [a' [H1 [H2 _]]]]. apply remove_from_buffer_ok in H2. destruct H2 as [Hmem _].
    rewrite <- Eq in H1. simpl in H1. destruct (nth_error (s_machs x) m') as [ms'|] eqn:Em; [|discriminate]. simpl in H1. inversion H1; subst a.
    apply mem_nat_In in Hmem. eapply idle_job_not_inside; eauto.
Qed.

Lemma FE_transit_outage x tr t ts x' : FE i x -> h_t_transit_outage sigma i x tr t ts = Ok x' -> FE i x'.
Proof.
  intros F H. unfold h_t_transit_outage in H. inv_all H. inversion H; subst; clear H.
  match goal with E' : move_job _ _ _ (BAgv t) ?B = Ok ?y |- _ => rename E' into Emv; rename y into x1; rename B into B0 end.
  assert (HB : BAgv t <> B0 /\ forall m', BIn m' <> B0).
  { match goal with E' : match ?dst with PM _ => _ | PB _ => _ | PT _ => _ end = Ok B0 |- _ =>
      destruct dst; inv_all E'; inversion E'; subst; split; congruence end. }
  destruct HB as [Hne HB].
  pose proof (move_job_moved i _ _ _ _ _ Hne Emv) as M.
  eapply FE_frame; [exact F| | |].
  - simpl. match goal with |- s_now (set_trans_ctl ?y ?a ?b ?c ?d0 ?e ?f) = _ =>
      destruct (set_trans_ctl_other y a b c d0 e f) as [_ [Hn _]]; rewrite Hn end. apply (mv_now _ _ _ _ _ _ M).
  - intros j'. rewrite jops_with_sto, jops_set_trans_ctl. apply (jops_moved i _ _ _ _ _ j' M).
  - intros m'. rewrite mview_with_sto, mview_set_trans_ctl. apply (mview_moved_other i _ _ _ _ _ m' M); [congruence|apply HB].
Qed.

(* ---------- every applied (validated) transition ---------- *)
Theorem apply_preserves_FE x tr x' :
  NO x -> FE i x -> is_transition_valid x tr = Ok true -> apply_transition sigma i x tr = Ok x' ->
  transit_side_b tr x' = true -> FE i x'.
Proof.
  intros N F Hval H Hside.
  destruct (tr_comp tr) as [m|t|n] eqn:Hc.
  - destruct (nth_error (s_machs x) m) as [ms|] eqn:Hms; [|unfold apply_transition in H; rewrite Hc, Hms in H; discriminate].
    destruct (apply_machine sigma i _ _ _ _ _ Hc Hms H) as [[A [B C]]|[[A [B C]]|[[A [B C]]|[A [B C]]]]].
    + eapply FE_idle_setup; eauto.
    + eapply FE_setup_working; eauto.
    + eapply FE_working_outage; eauto.
    + eapply FE_outage_idle; eauto.
  - destruct (nth_error (s_trans x) t) as [ts|] eqn:Hts; [|unfold apply_transition in H; rewrite Hc, Hts in H; discriminate].
    destruct (apply_transport sigma i _ _ _ _ _ Hc Hts H) as [[A [B C]]|[[A [B C]]|[[A [B C]]|[[A [B C]]|[[A [B C]]|[A [B C]]]]]]].
    + unfold h_t_idle_working in C. inv_all C. inversion C; subst. apply FE_ctl_only; auto.
    + unfold h_t_pickup_waiting in C. inv_all C. inversion C; subst. apply FE_ctl_only; auto.
    + eapply FE_to_transit; eauto.
    + eapply FE_transit_outage; eauto.
    + unfold h_t_outage_idle in C. inversion C; subst. apply FE_ctl_only; auto.
    + eapply FE_waiting_waiting; eauto.
  - unfold apply_transition in H. rewrite Hc in H. destruct (nth_error (s_bufs x) n); discriminate.
Qed.

End Apply.
