(* C18: declining; truncation counting.  C04: flags of the environment. *)
From Coq Require Import List ZArith Bool Arith Lia.
From JSL Require Import Base.Res Base.ListX SM.Types SM.Util SM.Handler SM.Step SM.Middleware.
Import ListNotations.
Open Scope Z_scope.

Section Decline.
Variable sigma : oracle.
Variable i : inst.
Variable fuel : nat.

(* C18_decline_many: with several offers, declining touches nothing but the offer list *)
Theorem decline_many r m o1 o2 rest :
  r_offers r = o1 :: o2 :: rest ->
  mw_step sigma i fuel r m 0 = MOk (mkResult (r_x r) (o2 :: rest) []) (add_operation m true) [].
Proof. intros H. unfold mw_step. rewrite H. reflexivity. Qed.

(* C18_decline_last (shape): declining the only offer runs the state machine with an empty action
   and the forcing time machine; the new offer list is the complete list of the new state, or the
   result is terminal *)
Theorem decline_last_shape r m o1 r' m' lg :
  r_offers r = [o1] -> mw_step sigma i fuel r m 0 = MOk r' m' lg ->
  r_acts r' = [] /\
  exists x' offers, step sigma i fuel (r_x r) [] TMForceJump = SOk x' offers lg /\ r_x r' = x' /\ r_offers r' = offers
    /\ (offers = [] -> all_in_output i x' = true).
Proof.
  intros H Hs. unfold mw_step in Hs. rewrite H in Hs. simpl in Hs.
  destruct (step sigma i fuel (r_x r) [] TMForceJump) as [x' offers lg'| | |] eqn:E; try discriminate.
  destruct offers as [|o os].
  - destruct (all_in_output i x') eqn:Ed; [|discriminate].
    inversion Hs; subst; simpl. split; [reflexivity|]. exists x', []. repeat split; auto.
  - inversion Hs; subst; simpl. split; [reflexivity|]. exists x', (o :: os). repeat split; auto. discriminate.
Qed.

(* the offers returned by the state machine are the complete list of the returned state *)
Lemma timed_loop_offers f : forall x0 x timed lg x' offers lg',
  timed_loop sigma i f x0 x timed lg = SOk x' offers lg' ->
  (offers = [] /\ exists y, all_in_output i y = true) \/ get_possible_transitions i x' = Ok offers.
Proof.
  induction f as [|f IH]; intros x0 x timed lg x' offers lg' H; simpl in H.
  - destruct timed; [|discriminate].
    destruct (all_in_output i x) eqn:Ed.
    + left. destruct (max_done_end x) as [[z|]|]; inversion H; subst; split; eauto.
    + right. destruct (get_possible_transitions i x) eqn:Eg; inversion H; subst; auto.
  - destruct timed as [|t ts].
    + destruct (all_in_output i x) eqn:Ed.
      * left. destruct (max_done_end x) as [[z|]|]; inversion H; subst; split; eauto.
      * right. destruct (get_possible_transitions i x) eqn:Eg; inversion H; subst; auto.
    + destruct (process_transitions sigma i (t :: ts) x 0 lg) as [[[x1 nerr] lg1]|e]; [|discriminate].
      destruct (Nat.ltb 0 nerr); [discriminate|].
      destruct (jump_to_event i x1) as [tt|e]; [|discriminate].
      destruct (create_timed_transitions i (set_now x1 tt)) as [timed'|e]; [|discriminate].
      eapply IH; eauto.
Qed.

Theorem step_offers_complete x0 trs tm x' offers lg :
  step sigma i fuel x0 trs tm = SOk x' offers lg ->
  (offers = [] /\ exists y, all_in_output i y = true) \/ get_possible_transitions i x' = Ok offers.
Proof.
  unfold step; intros H.
  destruct (match trs with [] => Ok (x0, 0%nat, []) | _ :: _ => process_transitions sigma i (sorted_by_transport trs) x0 0 [] end)
    as [[[x1 nerr] lg1]|e]; [|discriminate].
  destruct (Nat.ltb 0 nerr); [discriminate|].
  destruct (run_time_machine i tm x1) as [t|e]; [|discriminate].
  destruct (create_timed_transitions i (set_now x1 t)) as [timed|e]; [|discriminate].
  destruct (get_possible_transitions i (set_now x1 t)) as [poss|e]; [|discriminate].
  destruct (filter_teleport i (set_now x1 t) poss) as [tele|e]; [|discriminate].
  eapply timed_loop_offers; eauto.
Qed.

(* ---------- truncation counting ---------- *)

(* The specification, written independently of the stepper: a decision round ends when the last
   offer is declined; the round counts against the allowance iff nothing was accepted in it. *)
Record tspec := mkTspec { ts_declined_rounds : Z; ts_accepted_in_round : bool }.

Definition tspec_init : tspec := mkTspec 0 false.
Definition tspec_accept (s : tspec) : tspec := mkTspec (ts_declined_rounds s) true.
Definition tspec_decline_last (active : bool) (s : tspec) : tspec :=
  mkTspec (if active && negb (ts_accepted_in_round s) then ts_declined_rounds s + 1 else ts_declined_rounds s) false.

(* abstraction relation between the middleware's counters and the specification *)
Definition counts_ok (joker0 : Z) (m : mw) (s : tspec) : Prop :=
  mw_joker m = joker0 - ts_declined_rounds s /\ (Nat.eqb (mw_act m) 0 = negb (ts_accepted_in_round s)).

Lemma counts_init joker0 active : counts_ok joker0 (mkMw joker0 0 0 active) tspec_init.
Proof. split; simpl; [lia|reflexivity]. Qed.

Lemma counts_accept joker0 m s : counts_ok joker0 m s -> counts_ok joker0 (add_operation m false) (tspec_accept s).
Proof. intros [H1 H2]; split; simpl; auto. Qed.

Lemma counts_decline_many joker0 m s : counts_ok joker0 m s -> counts_ok joker0 (add_operation m true) s.
Proof. intros [H1 H2]; split; simpl; auto. Qed.

(* one middleware step keeps the abstraction: accept / decline-many / decline-last *)
Theorem truncation_counts joker0 r m a r' m' lg s :
  counts_ok joker0 m s -> mw_step sigma i fuel r m a = MOk r' m' lg ->
  mw_trunc_active m' = mw_trunc_active m /\
  ((a = 1 /\ counts_ok joker0 m' (tspec_accept s))
   \/ (a = 0 /\ (exists o1 o2 rest, r_offers r = o1 :: o2 :: rest) /\ counts_ok joker0 m' s)
   \/ (a = 0 /\ (exists o1, r_offers r = [o1]) /\
       (r_offers r' = [] \/ counts_ok joker0 m' (tspec_decline_last (mw_trunc_active m) s)))).
Proof.
  intros Hc Hs. unfold mw_step in Hs.
  destruct (r_offers r) as [|o1 rest] eqn:Ho; [discriminate|].
  destruct (negb ((a =? 0) || (a =? 1))) eqn:Ha; [discriminate|].
  destruct (a =? 0) eqn:Ha0.
  - apply Z.eqb_eq in Ha0; subst a.
    destruct rest as [|o2 rest].
    + destruct (step sigma i fuel (r_x r) [] TMForceJump) as [x' offers lg'| | |]; try discriminate.
      destruct offers as [|o os].
      * destruct (all_in_output i x'); [|discriminate]. inversion Hs; subst; simpl. split; [reflexivity|].
        right; right. split; [reflexivity|]. split; [eauto|]. left; reflexivity.
      * inversion Hs; subst; simpl. split; [reflexivity|].
        right; right. split; [reflexivity|]. split; [eauto|]. right.
        destruct Hc as [H1 H2]. unfold counts_ok, tspec_decline_last, should_truncate; simpl.
        rewrite H2. destruct (mw_trunc_active m), (ts_accepted_in_round s); simpl; split; auto; lia.
    + inversion Hs; subst; simpl. split; [reflexivity|].
      right; left. split; [reflexivity|]. split; [eauto|]. apply counts_decline_many; auto.
  - assert (a = 1) by (destruct (a =? 1) eqn:E; [apply Z.eqb_eq; auto|simpl in Ha; discriminate]). subst a.
    destruct (step sigma i fuel (r_x r) [o1] TMJumpToEvent) as [x' offers lg'|xf lgf| |]; try discriminate.
    inversion Hs; subst; simpl. split; [reflexivity|]. left. split; [reflexivity|]. apply counts_accept; auto.
Qed.

(* truncated <-> the number of fully declined rounds exceeds the allowance *)
Theorem truncated_iff_count joker0 m s :
  counts_ok joker0 m s -> (mw_joker m <? 0 = true <-> joker0 < ts_declined_rounds s).
Proof. intros [H1 _]. rewrite Z.ltb_lt. lia. Qed.

(* with truncation inactive the count never moves *)
Theorem inactive_never_counts s : ts_declined_rounds (tspec_decline_last false s) = ts_declined_rounds s.
Proof. reflexivity. Qed.

(* ---------- C04: environment flags ---------- *)

(* an environment state is consistent when its truncation flag is explained by the joker *)
Definition env_ok (e : env) : Prop :=
  (e_trunc e = false -> 0 <= mw_joker (e_mw e)) /\
  (e_term e = true -> r_offers (e_res e) = []).

(* C04_done_raises *)
Theorem env_done_raises e a : env_done e = true -> env_step sigma i fuel e a = ERaise EEnvDone.
Proof. intros H. unfold env_step. rewrite H. reflexivity. Qed.

Lemma step_offers_nil_or_not_done x0 trs tm x' offers lg :
  step sigma i fuel x0 trs tm = SOk x' offers lg -> offers <> [] -> all_in_output i x' = false.
Proof.
  unfold step; intros H Hne.
  destruct (match trs with [] => Ok (x0, 0%nat, []) | _ :: _ => process_transitions sigma i (sorted_by_transport trs) x0 0 [] end)
    as [[[x1 nerr] lg1]|e]; [|discriminate].
  destruct (Nat.ltb 0 nerr); [discriminate|].
  destruct (run_time_machine i tm x1) as [t|e]; [|discriminate].
  destruct (create_timed_transitions i (set_now x1 t)) as [timed|e]; [|discriminate].
  destruct (get_possible_transitions i (set_now x1 t)) as [poss|e]; [|discriminate].
  destruct (filter_teleport i (set_now x1 t) poss) as [tele|e]; [|discriminate].
  revert H. generalize (set_now x1 t) as x. generalize (timed ++ tele) as tl. generalize lg1 as l1.
  induction fuel as [|f IH]; intros l1 tl x H; simpl in H.
  - destruct tl; [|discriminate].
    destruct (all_in_output i x) eqn:Ed.
    + destruct (max_done_end x) as [[z|]|]; inversion H; subst; congruence.
    + destruct (get_possible_transitions i x); inversion H; subst; auto.
  - destruct tl as [|tr ts].
    + destruct (all_in_output i x) eqn:Ed.
      * destruct (max_done_end x) as [[z|]|]; inversion H; subst; congruence.
      * destruct (get_possible_transitions i x); inversion H; subst; auto.
    + destruct (process_transitions sigma i (tr :: ts) x 0 l1) as [[[x2 nerr2] lg2]|e]; [|discriminate].
      destruct (Nat.ltb 0 nerr2); [discriminate|].
      destruct (jump_to_event i x2) as [tt|e]; [|discriminate].
      destruct (create_timed_transitions i (set_now x2 tt)) as [timed'|e]; [|discriminate].
      eapply IH; eauto.
Qed.

(* C04_exclusive: termination and truncation are never reported together *)
Theorem env_flags_exclusive e a e' lg :
  env_ok e -> env_step sigma i fuel e a = EOk e' lg -> e_term e' && e_trunc e' = false.
Proof.
  intros [Hj _] H. unfold env_step in H.
  destruct (env_done e) eqn:Hd; [discriminate|].
  unfold env_done in Hd. apply orb_false_iff in Hd. destruct Hd as [_ Htr]. specialize (Hj Htr).
  destruct (mw_step sigma i fuel (e_res e) (e_mw e) a) as [r m lg0|sto m| |] eqn:Hm; try discriminate.
  - inversion H; subst; simpl.
    unfold mw_step in Hm.
    destruct (r_offers (e_res e)) as [|o1 rest]; [discriminate|].
    destruct (negb ((a =? 0) || (a =? 1))); [discriminate|].
    destruct (a =? 0).
    + destruct rest as [|o2 rest].
      * destruct (step sigma i fuel (r_x (e_res e)) [] TMForceJump) as [x' offers lg'| | |] eqn:Es; try discriminate.
        destruct offers as [|o os].
        -- destruct (all_in_output i x'); [|discriminate]. inversion Hm; subst; simpl.
           assert (mw_joker (e_mw e) <? 0 = false) by (apply Z.ltb_ge; lia).
           rewrite H0. apply andb_false_r.
        -- inversion Hm; subst; simpl.
           assert (all_in_output i x' = false) by (eapply step_offers_nil_or_not_done; eauto; discriminate).
           rewrite H0. reflexivity.
      * inversion Hm; subst; simpl.
        assert (mw_joker (e_mw e) <? 0 = false) by (apply Z.ltb_ge; lia).
        rewrite H0. apply andb_false_r.
    + destruct (step sigma i fuel (r_x (e_res e)) [o1] TMJumpToEvent) as [x' offers lg'| | |]; try discriminate.
      inversion Hm; subst; simpl.
      assert (mw_joker (e_mw e) <? 0 = false) by (apply Z.ltb_ge; lia).
      rewrite H0. apply andb_false_r.
  - inversion H; subst; reflexivity.
Qed.

(* the consistency is itself preserved, so it holds in every reachable environment state *)
Theorem env_ok_preserved e a e' lg :
  env_ok e -> env_step sigma i fuel e a = EOk e' lg -> env_done e' = false -> env_ok e'.
Proof.
  intros [Hj Ht] H Hnd. unfold env_step in H.
  destruct (env_done e) eqn:Hd; [discriminate|].
  destruct (mw_step sigma i fuel (e_res e) (e_mw e) a) as [r m lg0|sto m| |] eqn:Hm; try discriminate.
  - inversion H; subst. unfold env_done in Hnd; simpl in Hnd. apply orb_false_iff in Hnd. destruct Hnd as [Hte Htr].
    split; simpl; intros.
    + apply Z.ltb_ge in Htr. lia.
    + congruence.
  - inversion H; subst. unfold env_done in Hnd; simpl in Hnd. discriminate.
Qed.

(* C04_term_iff (first half): the flag is exactly "every job lies in an output buffer" of the new state *)
Theorem env_term_flag e a e' lg :
  env_step sigma i fuel e a = EOk e' lg -> e_trunc e' = false \/ e_hist e' = S (e_hist e) ->
  e_hist e' = S (e_hist e) -> e_term e' = all_in_output i (r_x (e_res e')).
Proof.
  intros H _ Hh. unfold env_step in H.
  destruct (env_done e); [discriminate|].
  destruct (mw_step sigma i fuel (e_res e) (e_mw e) a) as [r m lg0|sto m| |]; try discriminate.
  - inversion H; subst; reflexivity.
  - inversion H; subst; simpl in Hh. lia.
Qed.

(* C04_makespan: the reported makespan is the clock of the terminal state *)
Theorem env_makespan_is_clock e : e_term e = true -> env_makespan e = Some (s_now (r_x (e_res e))).
Proof. intros H. unfold env_makespan. rewrite H. reflexivity. Qed.

End Decline.
