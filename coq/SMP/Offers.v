(* What the offer list contains (C05, C11) and when timed transitions are created (C02, C08). *)
From Coq Require Import List ZArith Bool Arith Lia.
From JSL Require Import Base.Res Base.ListX SM.Types SM.Util SM.Handler SM.Step SM.Inv
  SMP.ListLemmas SMP.Frame SMP.Preserve SMP.Reflect.
Import ListNotations.
Close Scope Z_scope.

Lemma filterM_in {A} (f : A -> res bool) l r a : filterM f l = Ok r -> In a r -> In a l /\ f a = Ok true.
Proof.
  revert r; induction l as [|h t IH]; intros r H Ha; simpl in H.
  - inversion H; subst. destruct Ha.
  - destruct (f h) as [b|] eqn:E; simpl in H; [|discriminate].
    destruct (filterM f t) as [r0|] eqn:E2; simpl in H; [|discriminate]. inversion H; subst.
    destruct b.
    + destruct Ha as [->|Ha]; [split; [left|]; auto|]. destruct (IH _ eq_refl Ha). split; [right|]; auto.
    + destruct (IH _ eq_refl Ha). split; [right|]; auto.
Qed.

Lemma mapM_in' {A B} (f : A -> res B) l r b : mapM f l = Ok r -> In b r -> exists a, In a l /\ f a = Ok b.
Proof.
  revert r; induction l as [|a l IH]; intros r H Hb; simpl in H.
  - inversion H; subst. destruct Hb.
  - destruct (f a) as [b0|] eqn:E; simpl in H; [|discriminate].
    destruct (mapM f l) as [bs|] eqn:E2; simpl in H; [|discriminate]. inversion H; subst.
    destruct Hb as [->|Hb]; [exists a; split; [left|]; auto|].
    destruct (IH _ eq_refl Hb) as [a' [H1 H2]]. exists a'. split; [right|]; auto.
Qed.

Section O.
Variable i : inst.

(* ---------- transport offers ---------- *)
Theorem transport_offers_spec x l tr :
  get_possible_transport_transition i x = Ok l -> In tr l ->
  exists t ts j jb,
    tr = mkTr (CT t) (NT TWorking) (Some j)
    /\ nth_error (s_trans x) t = Some ts /\ t_st ts = TIdle          (* an idle AGV *)
    /\ nth_error (s_jobs x) j = Some jb
    /\ ~ In j (claims x)                                            (* a job no AGV has claimed *)
    /\ (i_early i = false -> is_ready i x j jb = Ok true).         (* C11: ready for pickup when early transport is off *)
Proof.
  unfold get_possible_transport_transition. intros H Hin.
  destruct (filterM _ (indexed 0 (s_trans x))) as [poss|] eqn:F1; simpl in H; [|discriminate].
  destruct (filterM _ _) as [transp|] eqn:F2 in H; simpl in H; [|discriminate].
  match type of H with bind ?e _ = _ => destruct e as [lon|] eqn:F3; simpl in H; [|discriminate] end.
  inversion H; subst; clear H.
  apply in_flat_map in Hin. destruct Hin as [[t ts] [Hp Hin]]. apply in_map_iff in Hin.
  destruct Hin as [[j jb] [<- Hl]].
  destruct (filterM_in _ _ _ _ F1 Hp) as [Hpi Hpf]. apply in_indexed0 in Hpi.
  destruct (nth_error (i_trans i) t); simpl in Hpf; [|discriminate]. injection Hpf as H0.
  assert (Hlon : In (j, jb) (filter (fun '(j0, _) => negb (mem_nat j0
              (flat_map (fun ts0 => match t_job ts0 with Some j1 => [j1] | None => [] end) (s_trans x))))
              (filter (fun '(_, jb0) => is_job_running jb0) (indexed 0 (s_jobs x)) ++ transp))
            /\ (i_early i = false -> is_ready i x j jb = Ok true)).
  { destruct (i_early i).
    - inversion F3; subst. split; auto. discriminate.
    - destruct (filterM_in _ _ _ _ F3 Hl). split; auto. }
  destruct Hlon as [Hlon Hrdy]. apply filter_In in Hlon. destruct Hlon as [Hc Hn].
  assert (Hj : nth_error (s_jobs x) j = Some jb).
  { apply in_app_iff in Hc. destruct Hc as [Hc|Hc].
    - apply filter_In in Hc. destruct Hc as [Hc _]. apply in_indexed0; auto.
    - destruct (filterM_in _ _ _ _ F2 Hc) as [Hc' _]. apply filter_In in Hc'. destruct Hc' as [Hc' _]. apply in_indexed0; auto. }
  exists t, ts, j, jb. repeat split; auto.
  - destruct (t_st ts); simpl in H0; try discriminate; auto.
  - apply negb_true_iff in Hn. intros Hi. apply mem_nat_In in Hi. unfold claims in Hi. congruence.
Qed.

(* ---------- machine offers ---------- *)
Theorem machine_offers_spec x jb j :
  is_action_possible i x jb = Ok true -> nth_error (s_jobs x) j = Some jb ->
  exists k o ms, first_not_done jb = Some k /\ nth_error (j_ops jb) k = Some o
    /\ nth_error (s_machs x) (o_mach o) = Some ms /\ m_st ms = MIdle        (* the machine is idle *)
    /\ j_loc jb = BPre (o_mach o)                                           (* the job waits in front of it *)
    /\ is_job_running jb = false.
Proof.
  unfold is_action_possible. intros H Hj.
  destruct (negb (is_job_next_operation_free jb)) eqn:Ef; [discriminate|].
  destruct (hd_error (i_trans i)); simpl in H; [|discriminate].
  destruct (first_not_done jb) as [k|] eqn:Ek; simpl in H; [|discriminate].
  destruct (nth_error (j_ops jb) k) as [o|] eqn:Eo; simpl in H; [|discriminate].
  unfold get_mach in H. destruct (nth_error (s_machs x) (o_mach o)) as [ms|] eqn:Em; simpl in H; [|discriminate].
  destruct (negb (is_job_at_machine jb (o_mach o))) eqn:Ea; [discriminate|]. inversion H.
  exists k, o, ms. repeat split; auto.
  - destruct (m_st ms); simpl in H1; try discriminate; auto.
  - apply negb_false_iff in Ea. unfold is_job_at_machine in Ea. apply bid_eqb_eq in Ea. auto.
  - apply negb_false_iff in Ef. unfold is_job_next_operation_free in Ef. apply andb_true_iff in Ef.
    destruct Ef as [Ef _]. apply negb_true_iff in Ef. exact Ef.
Qed.

(* C05_no_validation_error: every offered transition is allowed by its component's transition table in
   the state it is offered in (it can never be the cause of a rejected step) *)
(* the operation state TRANSPORT exists in the enum but is never written by any handler *)
Definition no_transport_ops_b (x : state) : bool :=
  forallb (fun jb => forallb (fun o => negb (is_ostate OTransport o)) (j_ops jb)) (s_jobs x).

Theorem offers_are_valid x offers tr :
  no_transport_ops_b x = true ->
  get_possible_transitions i x = Ok offers -> In tr offers -> is_transition_valid x tr = Ok true.
Proof.
  unfold get_possible_transitions. intros Hnt H Hin.
  destruct (filterM _ _) as [pj|] eqn:E1 in H; simpl in H; [|discriminate].
  destruct (get_possible_transport_transition i x) as [pt|] eqn:E2; simpl in H; [|discriminate].
  destruct (mapM _ pj) as [mt|] eqn:E3 in H; simpl in H; [|discriminate].
  inversion H; subst; clear H. apply in_app_iff in Hin. destruct Hin as [Hin|Hin].
  - destruct (mapM_in' _ _ _ _ E3 Hin) as [[j jb] [Hp Hf]]. simpl in Hf.
    destruct (filterM_in _ _ _ _ E1 Hp) as [Hpi Hpf]. apply in_indexed0 in Hpi. simpl in Hpf.
    destruct (machine_offers_spec x jb j Hpf Hpi) as [k [o [ms [Hk [Ho [Hm [Hst [Hloc Hrun]]]]]]]].
    destruct (first_idle jb) as [k'|] eqn:Ei; simpl in Hf; [|discriminate].
    destruct (nth_error (j_ops jb) k') as [o'|] eqn:Eo'; simpl in Hf; [|discriminate]. inversion Hf; subst; clear Hf.
    (* the first idle operation is the first not-done one: no operation of the job is processing *)
    assert (Hkk : k' = k).
    { unfold first_idle in Ei. unfold first_not_done in Hk.
      destruct (find_idx_some _ _ _ Ei) as [a [Ha [Hpa Hbefore]]].
      destruct (find_idx_some _ _ _ Hk) as [a2 [Ha2 [Hpa2 Hbefore2]]].
      destruct (Nat.lt_trichotomy k' k) as [Hlt|[Heq|Hgt]]; auto.
      - exfalso. specialize (Hbefore2 _ _ Hlt Ha). unfold is_ostate in *. destruct (o_st a); simpl in *; discriminate.
      - exfalso. specialize (Hbefore _ _ Hgt Ha2). unfold is_ostate in *.
        destruct (o_st a2) eqn:Es; simpl in *; try discriminate.
        + unfold is_job_running in Hrun. assert (existsb (is_ostate OProc) (j_ops jb) = true).
          { apply existsb_exists. exists a2. split; [eapply nth_error_In; eauto|]. unfold is_ostate. rewrite Es. reflexivity. }
          congruence.
        + unfold no_transport_ops_b in Hnt. pose proof (forallb_nth _ _ _ _ Hnt Hpi) as H1. simpl in H1.
          pose proof (forallb_nth _ _ _ _ H1 Ha2) as H2. unfold is_ostate in H2. rewrite Es in H2. discriminate. }
    subst k'. rewrite Ho in Eo'. inversion Eo'; subst o'.
    unfold is_transition_valid. simpl. rewrite Hm. unfold is_machine_transition_valid. rewrite Hst. simpl.
    unfold get_job. rewrite Hpi. simpl. rewrite Hk. simpl. rewrite Ho. simpl. rewrite Nat.eqb_refl. reflexivity.
  - destruct (transport_offers_spec x pt tr E2 Hin) as [t [ts [j [jb [-> [Ht [Hst _]]]]]]].
    unfold is_transition_valid. simpl. rewrite Ht, Hst. reflexivity.
Qed.

(* ---------- timed machine transitions: created only when due; the pre-buffer releases by discipline ---------- *)
Theorem timed_machine_spec now m ms tr :
  timed_machine i now m ms = Ok (Some tr) ->
  (exists z j, m_occ ms = Time z /\ (z <= now)%Z /\ hd_error (b_store (m_in ms)) = Some j /\ tr_comp tr = CM m
               /\ tr_job tr = Some j
               /\ ((m_st ms = MSetup /\ tr_new tr = NM MWorking) \/ (m_st ms = MWorking /\ tr_new tr = NM MOutage)
                   \/ (m_st ms = MOutage /\ tr_new tr = NM MIdle)))
  \/ (exists c j, m_st ms = MIdle /\ get_bcfg i (BPre m) = Some c
                  /\ get_next_job_from_buffer (m_pre ms) (bc_type c) = Some j     (* head for FIFO/DUMMY, last for LIFO *)
                  /\ tr = mkTr (CM m) (NM MSetup) (Some j)).
Proof.
  unfold timed_machine. intros H.
  destruct (m_occ ms) as [|z] eqn:Eo.
  - simpl in H. destruct (m_st ms) eqn:Es; try discriminate. right.
    unfold create_machine_setup_transition in H. destruct (b_store (m_pre ms)) eqn:Ep; [discriminate|].
    destruct (get_bcfg i (BPre m)) as [c|] eqn:Ec; simpl in H; [|discriminate].
    destruct (get_next_job_from_buffer (m_pre ms) (bc_type c)) as [j|] eqn:En; inversion H. exists c, j. auto.
  - destruct (z <=? now)%Z eqn:Ez.
    + apply Z.leb_le in Ez. destruct (m_st ms) eqn:Es.
      * simpl in H. right.
        unfold create_machine_setup_transition in H. destruct (b_store (m_pre ms)) eqn:Ep; [discriminate|].
        destruct (get_bcfg i (BPre m)) as [c|] eqn:Ec; simpl in H; [|discriminate].
        destruct (get_next_job_from_buffer (m_pre ms) (bc_type c)) as [j|] eqn:En; inversion H. exists c, j. auto.
      * destruct (hd_error (b_store (m_in ms))) as [j|] eqn:Eh; simpl in H; [|discriminate]. inversion H; subst.
        left. exists z, j. simpl. repeat split; auto.
      * destruct (hd_error (b_store (m_in ms))) as [j|] eqn:Eh; simpl in H; [|discriminate]. inversion H; subst.
        left. exists z, j. simpl. repeat split; auto.
      * destruct (hd_error (b_store (m_in ms))) as [j|] eqn:Eh; simpl in H; [|discriminate]. inversion H; subst.
        left. exists z, j. simpl. repeat split; auto.
    + simpl in H. destruct (m_st ms) eqn:Es; try discriminate. right.
      unfold create_machine_setup_transition in H. destruct (b_store (m_pre ms)) eqn:Ep; [discriminate|].
      destruct (get_bcfg i (BPre m)) as [c|] eqn:Ec; simpl in H; [|discriminate].
      destruct (get_next_job_from_buffer (m_pre ms) (bc_type c)) as [j|] eqn:En; inversion H. exists c, j. auto.
Qed.

(* timed AGV transitions carrying a time are created only when that time has come *)
Theorem timed_transport_due x t ts tr z :
  t_occ ts = OAt z -> timed_transport i x t ts = Ok [tr] -> (z <= s_now x)%Z.
Proof.
  unfold timed_transport. intros Ho H. rewrite Ho in H.
  destruct (z <=? s_now x)%Z eqn:Ez; [apply Z.leb_le in Ez; auto|discriminate].
Qed.

End O.
