(* C01, abstract part. The feasibility invariant only looks at the clock, the operation records of
   the jobs and, per machine, its phase and the job numbers in its internal buffer. It is stated on
   that "view" and shown to be preserved by the four kinds of update the handlers perform:
     start    IDLE -> SETUP      an idle operation becomes PROCESSING, the idle machine takes the job
     restamp  SETUP -> WORKING, WORKING -> OUTAGE
                                 the PROCESSING record gets a later start / another end, machine stays busy
     finish   OUTAGE -> IDLE     the PROCESSING record becomes DONE (end = now), the machine lets go
     clock    time machines      the clock moves forward
   SMP/Feasible.v ties the handlers of the model to these updates. *)
From Coq Require Import List ZArith Bool Arith Lia.
From JSL Require Import Base.Res Base.ListX SM.Types SM.Util SM.Inv SMP.ListLemmas.
Import ListNotations.
Close Scope Z_scope.

Definition tle (a b : time) : Prop := time_leb a b = true.

Lemma tle_Time a b : tle (Time a) (Time b) <-> (a <= b)%Z.
Proof. unfold tle; simpl. apply Z.leb_le. Qed.
Lemma tle_trans a b c : tle a b -> tle b c -> tle a c.
Proof.
  unfold tle. destruct a, b, c; simpl; try discriminate. rewrite !Z.leb_le. lia.
Qed.
Lemma tle_is_time a b : tle a b -> exists x y, a = Time x /\ b = Time y /\ (x <= y)%Z.
Proof. unfold tle. destruct a, b; simpl; try discriminate. rewrite Z.leb_le. eauto. Qed.

(* Done* (Proc|Idle)? Idle*, no TRANSPORT records *)
Definition Pat (ops : list op) : Prop :=
  (forall n a, nth_error ops n = Some a -> o_st a <> OTransport) /\
  (forall n m a b, n < m -> nth_error ops n = Some a -> nth_error ops m = Some b -> o_st a = ODone \/ o_st b = OIdle).

Lemma all_idle_pattern p ops : (forall o, In o ops -> o_st o = OIdle) -> pattern_from p ops = true.
Proof.
  revert p; induction ops as [|o r IH]; intros p H; simpl; auto.
  rewrite (H o) by (left; auto). destruct p; apply IH; intros; apply H; right; auto.
Qed.

Lemma Pat_tail o r : Pat (o :: r) -> Pat r.
Proof.
  intros [H1 H2]. split.
  - intros n a Hn. apply (H1 (S n)). exact Hn.
  - intros n m a b Hnm Ha Hb. apply (H2 (S n) (S m) a b); auto. lia.
Qed.

Lemma Pat_pattern ops : Pat ops -> pattern_from 0 ops = true.
Proof.
  induction ops as [|o r IH]; intros P; simpl; auto.
  destruct (o_st o) eqn:Eo.
  - apply all_idle_pattern. intros b Hb. apply In_nth_error in Hb. destruct Hb as [m Hm].
    destruct P as [_ P2]. destruct (P2 0 (S m) o b) as [H|H]; auto; try lia; congruence.
  - apply all_idle_pattern. intros b Hb. apply In_nth_error in Hb. destruct Hb as [m Hm].
    destruct P as [_ P2]. destruct (P2 0 (S m) o b) as [H|H]; auto; try lia; congruence.
  - apply IH. eapply Pat_tail; eauto.
  - destruct P as [P1 _]. exfalso. apply (P1 0 o); auto.
Qed.

Lemma pattern_all_idle ops : pattern_from 1 ops = true -> forall o, In o ops -> o_st o = OIdle.
Proof.
  induction ops as [|a r IH]; intros H o Hin; simpl in *; [tauto|].
  destruct (o_st a) eqn:Ea; try discriminate. destruct Hin as [->|Hin]; auto.
Qed.

Lemma pattern_Pat ops : pattern_from 0 ops = true -> Pat ops.
Proof.
  induction ops as [|o r IH]; intros H.
  - split; intros; destruct n; discriminate.
  - simpl in H. destruct (o_st o) eqn:Eo; try discriminate.
    + pose proof (pattern_all_idle _ H) as A. split.
      * intros [|n] a Hn; simpl in Hn; [inversion Hn; subst; congruence|]. apply nth_error_In in Hn. rewrite (A _ Hn). discriminate.
      * intros n [|m] a b Hnm Ha Hb; [lia|]. simpl in Hb. apply nth_error_In in Hb. right. auto.
    + pose proof (pattern_all_idle _ H) as A. split.
      * intros [|n] a Hn; simpl in Hn; [inversion Hn; subst; congruence|]. apply nth_error_In in Hn. rewrite (A _ Hn). discriminate.
      * intros n [|m] a b Hnm Ha Hb; [lia|]. simpl in Hb. apply nth_error_In in Hb. right. auto.
    + destruct (IH H) as [P1 P2]. split.
      * intros [|n] a Hn; simpl in Hn; [inversion Hn; subst; congruence|eauto].
      * intros [|n] [|m] a b Hnm Ha Hb; try lia; simpl in Ha, Hb.
        -- inversion Ha; subst. auto.
        -- eapply P2; [|eauto|eauto]. lia.
Qed.

(* a PROCESSING record is the only one of its job *)
Lemma Pat_proc_unique ops k k' a b :
  Pat ops -> nth_error ops k = Some a -> nth_error ops k' = Some b -> o_st a = OProc -> o_st b = OProc -> k = k'.
Proof.
  intros [_ P2] Ha Hb Sa Sb.
  destruct (Nat.lt_trichotomy k k') as [H|[H|H]]; auto.
  - destruct (P2 _ _ _ _ H Ha Hb); congruence.
  - destruct (P2 _ _ _ _ H Hb Ha); congruence.
Qed.

(* ---------- views ---------- *)
Record view := mkView {
  v_now : Z;
  v_ops : nat -> option (list op);
  v_m : nat -> option (mstate * list nat)
}.

Definition vop (v : view) (j k : nat) (o : op) : Prop :=
  exists ops, v_ops v j = Some ops /\ nth_error ops k = Some o.

Lemma vop_fun v j k o o2 : vop v j k o -> vop v j k o2 -> o = o2.
Proof. intros [a [A1 A2]] [b [B1 B2]]. congruence. Qed.

Section FE.
Variable i : inst.

Record FEV (v : view) : Prop := {
  fe_pat : forall j ops, v_ops v j = Some ops -> Pat ops;
  fe_times : forall j k o, vop v j k o -> o_st o <> OIdle -> tle (o_start o) (o_end o);
  fe_chain : forall j ops n a b, v_ops v j = Some ops -> nth_error ops n = Some a -> nth_error ops (S n) = Some b ->
                                 o_st a <> OIdle -> o_st b <> OIdle -> tle (o_end a) (o_start b);
  fe_mk : forall j k o oc, vop v j k o -> get_opcfg i j k = Ok oc -> o_mach o = oc_mach oc;
  (* as many jobs and operations as configured *)
  fe_shape : forall j, option_map (@length op) (v_ops v j) = option_map (@length opcfg) (nth_error (i_jobs i) j);
  fe_past : forall j k o, vop v j k o ->
              (o_st o = ODone -> tle (o_end o) (Time (v_now v))) /\ (o_st o = OProc -> tle (o_start o) (Time (v_now v)));
  (* a PROCESSING record sits in its (busy) machine, and everything else recorded on that machine is
     DONE and ended before it started *)
  fe_proc : forall j k o, vop v j k o -> o_st o = OProc ->
      (exists st, v_m v (o_mach o) = Some (st, [j]) /\ st <> MIdle) /\
      (forall j' k' o', vop v j' k' o' -> (j', k') <> (j, k) -> o_st o' <> OIdle -> o_mach o' = o_mach o ->
                        o_st o' = ODone /\ tle (o_end o') (o_start o));
  fe_done : forall j k o j' k' o', vop v j k o -> vop v j' k' o' -> (j, k) <> (j', k') ->
      o_st o = ODone -> o_st o' = ODone -> o_mach o = o_mach o' ->
      tle (o_end o) (o_start o') \/ tle (o_end o') (o_start o);
  fe_hold : forall m st l, v_m v m = Some (st, l) ->
      (st = MIdle -> l = []) /\
      (st <> MIdle -> exists j k o, l = [j] /\ vop v j k o /\ o_st o = OProc /\ o_mach o = m)
}.

(* pointwise equal views *)
Definition veq (v v' : view) : Prop :=
  v_now v = v_now v' /\ (forall j, v_ops v j = v_ops v' j) /\ (forall m, v_m v m = v_m v' m).

Lemma vop_veq v v' j k o : veq v v' -> vop v' j k o -> vop v j k o.
Proof. intros [_ [E _]] [ops [A B]]. exists ops. rewrite E. auto. Qed.
Lemma vop_veq' v v' j k o : veq v v' -> vop v j k o -> vop v' j k o.
Proof. intros [_ [E _]] [ops [A B]]. exists ops. rewrite <- E. auto. Qed.

Lemma FEV_ext v v' : veq v v' -> FEV v -> FEV v'.
Proof.
  intros Q F. pose proof Q as [En [Eo Em]]. constructor.
  - intros j ops H. rewrite <- Eo in H. eapply fe_pat; eauto.
  - intros j k o H. apply (vop_veq _ _ _ _ _ Q) in H. eapply fe_times; eauto.
  - intros j ops n a b H. rewrite <- Eo in H. eapply fe_chain; eauto.
  - intros j k o oc H. apply (vop_veq _ _ _ _ _ Q) in H. eapply fe_mk; eauto.
  - intros j. rewrite <- Eo. eapply fe_shape; eauto.
  - intros j k o H. apply (vop_veq _ _ _ _ _ Q) in H. rewrite <- En. eapply fe_past; eauto.
  - intros j k o H Hs. apply (vop_veq _ _ _ _ _ Q) in H. destruct (fe_proc _ F _ _ _ H Hs) as [[st [A B]] C]. split.
    + exists st. rewrite <- Em. auto.
    + intros j' k' o' H'. apply (vop_veq _ _ _ _ _ Q) in H'. eauto.
  - intros j k o j' k' o' H H'. apply (vop_veq _ _ _ _ _ Q) in H. apply (vop_veq _ _ _ _ _ Q) in H'. eapply fe_done; eauto.
  - intros m st l H. rewrite <- Em in H. destruct (fe_hold _ F _ _ _ H) as [A B]. split; auto.
    intros Hs. destruct (B Hs) as [j [k [o [B1 [B2 B3]]]]]. exists j, k, o. split; auto. split; auto.
    eapply vop_veq'; eauto.
Qed.

(* ---------- the clock moves forward ---------- *)
Definition v_at (v : view) (t : Z) : view := mkView t (v_ops v) (v_m v).

Lemma FEV_clock v t : FEV v -> (v_now v <= t)%Z -> FEV (v_at v t).
Proof.
  intros F Ht. constructor; try (destruct F; assumption).
  intros j k o H. destruct (fe_past _ F _ _ _ H) as [A B]. simpl. split; intros Hs.
  - eapply tle_trans; [apply A; auto|]. apply tle_Time; auto.
  - eapply tle_trans; [apply B; auto|]. apply tle_Time; auto.
Qed.

(* ---------- one operation record and one machine change ---------- *)
Definition v_upd (v : view) (j k : nat) (o' : op) (m : nat) (p : mstate * list nat) : view :=
  mkView (v_now v)
         (fun j' => if Nat.eqb j' j then option_map (fun ops => upd ops k o') (v_ops v j') else v_ops v j')
         (fun m' => if Nat.eqb m' m then Some p else v_m v m').

Lemma vop_upd_inv v j k o' m p j' k' o2 :
  vop (v_upd v j k o' m p) j' k' o2 -> ((j', k') = (j, k) /\ o2 = o') \/ ((j', k') <> (j, k) /\ vop v j' k' o2).
Proof.
  intros [ops [A B]]. simpl in A. destruct (Nat.eqb_spec j' j) as [->|Hj].
  - destruct (v_ops v j) as [ops0|] eqn:E0; simpl in A; [|discriminate]. inversion A; subst ops. clear A.
    rewrite nth_upd in B. destruct (Nat.eqb_spec k k') as [->|Hk].
    + destruct (Nat.ltb k' (length ops0)); inversion B; subst. left; auto.
    + right. split; [intros Q; inversion Q; congruence|]. exists ops0; auto.
  - right. split; [intros Q; inversion Q; congruence|]. exists ops; auto.
Qed.

Lemma vop_upd_same v j k o o' m p : vop v j k o -> vop (v_upd v j k o' m p) j k o'.
Proof.
  intros [ops [A B]]. exists (upd ops k o'). simpl. rewrite Nat.eqb_refl, A. split; auto.
  apply nth_upd_same. eapply nth_error_lt; eauto.
Qed.

Lemma vop_upd_other v j k o' m p j' k' o2 : (j', k') <> (j, k) -> vop v j' k' o2 -> vop (v_upd v j k o' m p) j' k' o2.
Proof.
  intros Hne [ops [A B]]. simpl. unfold vop; simpl. destruct (Nat.eqb_spec j' j) as [->|Hj].
  - exists (upd ops k o'). rewrite A. split; [reflexivity|].
    assert (Hk : k <> k') by (intros ->; apply Hne; reflexivity).
    rewrite nth_upd_other; auto.
  - exists ops; auto.
Qed.

Lemma pair_eq_dec (a b c d : nat) : {(a, b) = (c, d)} + {(a, b) <> (c, d)}.
Proof. destruct (Nat.eq_dec a c), (Nat.eq_dec b d); [left; congruence|right; congruence..]. Qed.

Lemma pair_neq_sym (a b : nat * nat) : a <> b -> b <> a. Proof. congruence. Qed.

(* states of the old and the new record agree: the pattern is kept *)
Lemma Pat_upd_same_st ops k o o' : Pat ops -> nth_error ops k = Some o -> o_st o' = o_st o -> Pat (upd ops k o').
Proof.
  intros [P1 P2] Ho Hs. split.
  - intros n a Hn. rewrite nth_upd in Hn. destruct (Nat.eqb_spec k n) as [->|Hk].
    + destruct (Nat.ltb n (length ops)); inversion Hn; subst. rewrite Hs. eauto.
    + eauto.
  - intros n m a b Hnm Ha Hb. rewrite nth_upd in Ha, Hb.
    destruct (Nat.eqb_spec k n) as [E1|E1]; destruct (Nat.eqb_spec k m) as [E2|E2]; try lia.
    + subst n. destruct (Nat.ltb k (length ops)); inversion Ha; subst a. rewrite Hs. eapply P2; eauto.
    + subst m. destruct (Nat.ltb k (length ops)); inversion Hb; subst b. rewrite Hs. eapply P2; eauto.
    + eapply P2; eauto.
Qed.

(* neighbours of a PROCESSING record *)
Lemma Pat_before_proc ops n k a o : Pat ops -> n < k -> nth_error ops n = Some a -> nth_error ops k = Some o -> o_st o <> OIdle -> o_st a = ODone.
Proof. intros [_ P2] Hnk Ha Ho Hs. destruct (P2 _ _ _ _ Hnk Ha Ho); auto. congruence. Qed.
Lemma Pat_after_notdone ops n k b o : Pat ops -> k < n -> nth_error ops k = Some o -> nth_error ops n = Some b -> o_st o <> ODone -> o_st b = OIdle.
Proof. intros [_ P2] Hnk Ho Hb Hs. destruct (P2 _ _ _ _ Hnk Ho Hb); auto. congruence. Qed.

Section Upd.
Variable v : view.
Hypothesis F : FEV v.
Variables (j k : nat) (o o' : op) (m : nat) (st' : mstate) (l' : list nat).
Hypothesis Ho : vop v j k o.
Let v' := v_upd v j k o' m (st', l').

(* shared obligations of the three updates; the caller supplies what differs *)
Lemma FEV_upd_gen :
  (forall ops, v_ops v j = Some ops -> Pat (upd ops k o')) ->
  (o_st o' <> OIdle -> tle (o_start o') (o_end o')) ->
  (* chain around position k *)
  (forall ops a, v_ops v j = Some ops -> k <> 0 -> nth_error ops (k - 1) = Some a -> o_st a <> OIdle -> o_st o' <> OIdle ->
                 tle (o_end a) (o_start o')) ->
  (forall ops b, v_ops v j = Some ops -> nth_error ops (S k) = Some b -> o_st o' <> OIdle -> o_st b = OIdle) ->
  o_mach o' = o_mach o ->
  ((o_st o' = ODone -> tle (o_end o') (Time (v_now v))) /\ (o_st o' = OProc -> tle (o_start o') (Time (v_now v)))) ->
  (* everything else recorded on this machine is DONE and over before the new record starts *)
  (o_st o' <> OIdle -> forall j2 k2 o2, vop v j2 k2 o2 -> (j2, k2) <> (j, k) -> o_st o2 <> OIdle -> o_mach o2 = o_mach o ->
                  o_st o2 = ODone /\ tle (o_end o2) (o_start o')) ->
  (* the machine of the new record, if it is PROCESSING *)
  (o_st o' = OProc -> exists st, v_m v' (o_mach o) = Some (st, [j]) /\ st <> MIdle) ->
  (* other PROCESSING records keep their machine *)
  (forall j2 k2 o2 st2, vop v j2 k2 o2 -> (j2, k2) <> (j, k) -> o_st o2 = OProc ->
      v_m v (o_mach o2) = Some (st2, [j2]) -> st2 <> MIdle -> exists st3, v_m v' (o_mach o2) = Some (st3, [j2]) /\ st3 <> MIdle) ->
  (* the changed machine *)
  ((st' = MIdle -> l' = []) /\
   (st' <> MIdle -> exists j1 k1 o1, l' = [j1] /\ vop v' j1 k1 o1 /\ o_st o1 = OProc /\ o_mach o1 = m)) ->
  (* busy machines other than m do not lose their witness *)
  (forall m2 st2 l2 j1 k1 o1, m2 <> m -> v_m v m2 = Some (st2, l2) -> st2 <> MIdle -> vop v j1 k1 o1 -> o_st o1 = OProc -> o_mach o1 = m2 ->
       (j1, k1) <> (j, k) \/ (o_st o' = OProc)) ->
  FEV v'.
Proof.
  intros Hpat Htimes Hpred Hsucc Hmach Hpast Hothers Hmine Hkeep Hm Hwit.
  constructor.
  - (* pattern *)
    intros j0 ops H. simpl in H. destruct (Nat.eqb_spec j0 j) as [->|Hj].
    + destruct Ho as [ops0 [A0 B0]]. rewrite A0 in H. simpl in H. inversion H; subst. auto.
    + eapply fe_pat; eauto.
  - (* times *)
    intros j0 k0 o0 H Hs. destruct (vop_upd_inv _ _ _ _ _ _ _ _ _ H) as [[E ->]|[Hne H0]]; auto. eapply fe_times; eauto.
  - (* chain *)
    intros j0 ops n a b H Ha Hb Sa Sb. simpl in H. destruct (Nat.eqb_spec j0 j) as [->|Hj]; [|eapply fe_chain; eauto].
    destruct Ho as [ops0 [A0 B0]]. rewrite A0 in H. simpl in H. inversion H; subst ops. clear H.
    rewrite nth_upd in Ha, Hb.
    destruct (Nat.eqb_spec k n) as [->|Hkn].
    + (* a is the new record, b its successor *)
      destruct (Nat.ltb n (length ops0)); inversion Ha; subst a.
      destruct (Nat.eqb_spec n (S n)); [lia|]. exfalso. apply Sb. eapply Hsucc; eauto.
    + destruct (Nat.eqb_spec k (S n)) as [Hk|Hk].
      * destruct (Nat.ltb k (length ops0)); inversion Hb; subst b.
        eapply Hpred; eauto; try lia. replace (k - 1) with n by lia. auto.
      * eapply (fe_chain _ F j ops0 n a b); eauto.
  - (* machine of the record *)
    intros j0 k0 o0 oc H Hc. destruct (vop_upd_inv _ _ _ _ _ _ _ _ _ H) as [[E ->]|[Hne H0]].
    + inversion E; subst. rewrite Hmach. eapply fe_mk; eauto.
    + eapply fe_mk; eauto.
  - (* shape *)
    intros j0. simpl. destruct (Nat.eqb_spec j0 j) as [->|Hj]; [|eapply fe_shape; eauto].
    rewrite <- (fe_shape _ F j). destruct (v_ops v j); simpl; [rewrite upd_length|]; reflexivity.
  - (* past *)
    intros j0 k0 o0 H. destruct (vop_upd_inv _ _ _ _ _ _ _ _ _ H) as [[E ->]|[Hne H0]]; [exact Hpast|].
    eapply (fe_past _ F); eauto.
  - (* processing records *)
    intros j0 k0 o0 H Hs. destruct (vop_upd_inv _ _ _ _ _ _ _ _ _ H) as [[E ->]|[Hne H0]].
    + inversion E; subst j0 k0. rewrite Hmach. split; [apply Hmine; auto|].
      intros j2 k2 o2 H2 Hne2 S2 M2. destruct (vop_upd_inv _ _ _ _ _ _ _ _ _ H2) as [[E2 ->]|[Hne2' H20]]; [congruence|].
      apply (Hothers ltac:(congruence) j2 k2 o2); auto; congruence.
    + destruct (fe_proc _ F _ _ _ H0 Hs) as [[st [A B]] C]. split.
      * apply (Hkeep _ _ _ _ H0 Hne Hs A B).
      * intros j2 k2 o2 H2 Hne2 S2 M2. destruct (vop_upd_inv _ _ _ _ _ _ _ _ _ H2) as [[E2 ->]|[Hne2' H20]]; [|eauto].
        inversion E2; subst j2 k2.
        (* the new record lies on the machine of another PROCESSING record o0 *)
        assert (S2' : o_st o' <> OIdle) by exact S2.
        destruct (Hothers S2' _ _ _ H0 Hne) as [Q _]; [congruence|congruence|congruence].
  - (* done pairs *)
    intros j0 k0 o0 j2 k2 o2 H H2 Hne S0 S2 M.
    destruct (vop_upd_inv _ _ _ _ _ _ _ _ _ H) as [[E ->]|[Hne0 H0]];
      destruct (vop_upd_inv _ _ _ _ _ _ _ _ _ H2) as [[E2 ->]|[Hne2 H20]].
    + congruence.
    + inversion E; subst j0 k0. right. apply (Hothers ltac:(congruence) j2 k2 o2); auto; congruence.
    + inversion E2; subst j2 k2. left. apply (Hothers ltac:(congruence) j0 k0 o0); auto; congruence.
    + eapply (fe_done _ F); eauto.
  - (* machines *)
    intros m0 st l H. simpl in H. destruct (Nat.eqb_spec m0 m) as [->|Hm0].
    + inversion H; subst. exact Hm.
    + destruct (fe_hold _ F _ _ _ H) as [A B]. split; auto.
      intros Hs. destruct (B Hs) as [j1 [k1 [o1 [B1 [B2 [B3 B4]]]]]].
      destruct (Hwit _ _ _ _ _ _ Hm0 H Hs B2 B3 B4) as [Hne|Hp].
      * exists j1, k1, o1. split; auto. split; [apply vop_upd_other; auto|auto].
      * destruct (pair_eq_dec j1 k1 j k) as [E|Hne].
        -- inversion E; subst j1 k1. exists j, k, o'. split; auto. split; [eapply vop_upd_same; eauto|].
           split; auto. rewrite Hmach. rewrite <- (vop_fun _ _ _ _ _ B2 Ho). auto.
        -- exists j1, k1, o1. split; auto. split; [apply vop_upd_other; auto|auto].
Qed.

End Upd.

(* ---------- the three updates of the machine handlers ---------- *)
Lemma FEV_restamp v j k o o' m st st' l :
  FEV v -> vop v j k o -> o_st o = OProc -> o_st o' = OProc -> o_mach o' = o_mach o ->
  tle (o_start o') (o_end o') -> tle (o_start o) (o_start o') -> tle (o_start o') (Time (v_now v)) ->
  v_m v m = Some (st, l) -> st <> MIdle -> st' <> MIdle ->
  FEV (v_upd v j k o' m (st', l)).
Proof.
  intros F Ho So So' Hm Ht Hss Hnow Hv Hst Hst'.
  pose proof Ho as [ops [Eops Ek]].
  destruct (fe_proc _ F _ _ _ Ho So) as [[st0 [Em0 Hst0]] Hoth].
  apply (FEV_upd_gen v F j k o o' m st' l Ho).
  - intros ops1 E1. rewrite Eops in E1. inversion E1; subst ops1. eapply Pat_upd_same_st; eauto. eapply fe_pat; eauto. congruence.
  - intros _. exact Ht.
  - intros ops1 a E1 Hk Ha Sa _. rewrite Eops in E1. inversion E1; subst ops1.
    eapply tle_trans; [|exact Hss]. eapply (fe_chain _ F j ops (k - 1) a o); eauto.
    + replace (S (k - 1)) with k by lia. auto.
    + congruence.
  - intros ops1 b E1 Hb _. rewrite Eops in E1. inversion E1; subst ops1.
    eapply (Pat_after_notdone ops (S k) k b o); eauto. eapply fe_pat; eauto. congruence.
  - exact Hm.
  - split; [congruence|intros _; exact Hnow].
  - intros _ j2 k2 o2 H2 Hne S2 M2. destruct (Hoth _ _ _ H2 Hne S2 M2) as [A B]. split; auto. eapply tle_trans; eauto.
  - intros _. simpl. destruct (Nat.eqb_spec (o_mach o) m) as [E|E].
    + exists st'. split; auto. rewrite E in Em0. rewrite Hv in Em0. inversion Em0; subst. reflexivity.
    + exists st0. auto.
  - intros j2 k2 o2 st2 H2 Hne S2 A B. simpl. destruct (Nat.eqb_spec (o_mach o2) m) as [E|E].
    + exists st'. split; auto. rewrite E in A. rewrite Hv in A. inversion A; subst. reflexivity.
    + exists st2. auto.
  - split; [intros E; congruence|]. intros _.
    destruct (fe_hold _ F _ _ _ Hv) as [_ B]. destruct (B Hst) as [j1 [k1 [o1 [B1 [B2 [B3 B4]]]]]].
    destruct (pair_eq_dec j1 k1 j k) as [E|Hne].
    + inversion E; subst j1 k1. exists j, k, o'. split; auto. split; [eapply vop_upd_same; eauto|]. split; auto.
      rewrite Hm. rewrite <- (vop_fun _ _ _ _ _ B2 Ho). auto.
    + exists j1, k1, o1. split; auto. split; [apply vop_upd_other; auto|auto].
  - intros; right; auto.
Qed.

Lemma FEV_start v j k ops o m l st' d :
  FEV v -> v_ops v j = Some ops -> nth_error ops k = Some o -> o_st o = OIdle ->
  (forall n a, n < k -> nth_error ops n = Some a -> o_st a = ODone) ->
  v_m v m = Some (MIdle, l) -> o_mach o = m -> (0 <= d)%Z -> st' <> MIdle ->
  FEV (v_upd v j k (mkOp m (Time (v_now v)) (Time (v_now v + d)%Z) OProc) m (st', [j])).
Proof.
  intros F Eops Ek So Hbefore Hv Hm Hd Hst'.
  assert (Ho : vop v j k o) by (exists ops; auto).
  pose proof (fe_pat _ F _ _ Eops) as P.
  (* nothing is PROCESSING on the idle machine *)
  assert (Hnoproc : forall j2 k2 o2, vop v j2 k2 o2 -> o_st o2 = OProc -> o_mach o2 <> m).
  { intros j2 k2 o2 H2 S2 E. destruct (fe_proc _ F _ _ _ H2 S2) as [[st0 [A B]] _]. rewrite E, Hv in A. inversion A; congruence. }
  apply (FEV_upd_gen v F j k o _ m st' [j] Ho).
  - intros ops1 E1. rewrite Eops in E1. inversion E1; subst ops1. destruct P as [P1 P2]. split.
    + intros n a Hn. rewrite nth_upd in Hn. destruct (Nat.eqb k n); [|eauto].
      destruct (Nat.ltb k (length ops)); inversion Hn; subst; simpl; discriminate.
    + intros n q a b Hnq Ha Hb. rewrite nth_upd in Ha, Hb.
      destruct (Nat.eqb_spec k n) as [E2|E2]; destruct (Nat.eqb_spec k q) as [E3|E3]; try lia.
      * subst n. right. eapply (Pat_after_notdone ops q k b o); eauto. split; auto. congruence.
      * subst q. left. eapply Hbefore; eauto.
      * eapply P2; eauto.
  - intros _. simpl. apply tle_Time. lia.
  - intros ops1 a E1 Hk Ha Sa _. rewrite Eops in E1. inversion E1; subst ops1. simpl.
    assert (Da : o_st a = ODone) by (eapply Hbefore; eauto; lia).
    assert (Va : vop v j (k - 1) a) by (exists ops; auto).
    destruct (fe_past _ F _ _ _ Va) as [A _]. auto.
  - intros ops1 b E1 Hb _. rewrite Eops in E1. inversion E1; subst ops1.
    eapply (Pat_after_notdone ops (S k) k b o); eauto. congruence.
  - simpl. congruence.
  - simpl. split; [discriminate|]. intros _. apply tle_Time. lia.
  - intros _ j2 k2 o2 H2 Hne S2 M2. simpl.
    assert (D2 : o_st o2 = ODone).
    { destruct (o_st o2) eqn:E2; auto; try congruence.
      - exfalso. eapply Hnoproc; eauto. congruence.
      - destruct H2 as [ops2 [A2 B2]]. destruct (fe_pat _ F _ _ A2) as [Q1 _]. exfalso. eapply Q1; eauto. }
    split; auto. destruct (fe_past _ F _ _ _ H2) as [A _]. auto.
  - intros _. simpl. rewrite Hm, Nat.eqb_refl. exists st'. auto.
  - intros j2 k2 o2 st2 H2 Hne S2 A B. simpl. destruct (Nat.eqb_spec (o_mach o2) m) as [E|E].
    + exfalso. eapply Hnoproc; eauto.
    + exists st2. auto.
  - split; [intros E; congruence|]. intros _. eexists j, k, _. split; [reflexivity|]. split; [eapply vop_upd_same; eauto|]. simpl. auto.
  - intros; right; reflexivity.
Qed.

Lemma FEV_finish v j k o m st :
  FEV v -> vop v j k o -> o_st o = OProc -> o_mach o = m -> v_m v m = Some (st, [j]) ->
  FEV (v_upd v j k (mkOp (o_mach o) (o_start o) (Time (v_now v)) ODone) m (MIdle, [])).
Proof.
  intros F Ho So Hm Hv.
  pose proof Ho as [ops [Eops Ek]].
  pose proof (fe_pat _ F _ _ Eops) as P.
  destruct (fe_proc _ F _ _ _ Ho So) as [[st0 [Em0 Hst0]] Hoth].
  destruct (fe_past _ F _ _ _ Ho) as [_ Hpast]. specialize (Hpast So).
  apply (FEV_upd_gen v F j k o _ m MIdle [] Ho).
  - intros ops1 E1. rewrite Eops in E1. inversion E1; subst ops1. destruct P as [P1 P2]. split.
    + intros n a Hn. rewrite nth_upd in Hn. destruct (Nat.eqb k n); [|eauto].
      destruct (Nat.ltb k (length ops)); inversion Hn; subst; simpl; discriminate.
    + intros n q a b Hnq Ha Hb. rewrite nth_upd in Ha, Hb.
      destruct (Nat.eqb_spec k n) as [E2|E2]; destruct (Nat.eqb_spec k q) as [E3|E3]; try lia.
      * subst n. destruct (Nat.ltb k (length ops)); inversion Ha; subst a. left; reflexivity.
      * subst q. left. eapply (Pat_before_proc ops n k a o); eauto. split; auto. congruence.
      * eapply P2; eauto.
  - intros _. simpl. exact Hpast.
  - intros ops1 a E1 Hk Ha Sa _. rewrite Eops in E1. inversion E1; subst ops1. simpl.
    eapply (fe_chain _ F j ops (k - 1) a o); eauto.
    + replace (S (k - 1)) with k by lia. auto.
    + congruence.
  - intros ops1 b E1 Hb _. rewrite Eops in E1. inversion E1; subst ops1.
    eapply (Pat_after_notdone ops (S k) k b o); eauto. congruence.
  - reflexivity.
  - simpl. split; [|discriminate]. intros _. apply tle_Time. lia.
  - intros _ j2 k2 o2 H2 Hne S2 M2. simpl. apply (Hoth j2 k2 o2); auto.
  - simpl. discriminate.
  - intros j2 k2 o2 st2 H2 Hne S2 A B. simpl. destruct (Nat.eqb_spec (o_mach o2) m) as [E|E].
    + exfalso. rewrite E, Hv in A. inversion A; subst j2. apply Hne. f_equal.
      destruct H2 as [ops2 [A2 B2]]. rewrite Eops in A2. inversion A2; subst ops2.
      eapply Pat_proc_unique; eauto.
    + exists st2. auto.
  - split; [auto|intros E; congruence].
  - intros m2 st2 l2 j1 k1 o1 Hm2 _ _ H1 S1 M1. left. intros E. inversion E; subst j1 k1.
    rewrite (vop_fun _ _ _ _ _ H1 Ho) in M1. congruence.
Qed.

End FE.
