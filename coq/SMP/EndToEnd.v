(* End to end: C01 + C02 + C04 + C06. For a classic instance (every job visits every machine once, deterministic
   durations) seen through the state-machine model, the operation records of ANY terminated run of the middleware
   form a feasible schedule of the classic instance (starts non-negative, job precedence with the configured
   durations, one operation per machine at a time), so Taillard's lower bound (Classic/LowerBound.v) is at most every
   upper bound of the completion times - in particular the reported makespan. Uses the invariants of
   SMP/ProvBatch.v and SMP/Durations.v (instances with unordered machine post-buffers: every classic instance the
   compiler produces) and one more: no operation starts before the initial clock. *)
From Coq Require Import List ZArith Bool Arith Lia.
From JSL Require Import Base.Res Base.ListX SM.Types SM.Util SM.Handler SM.Step SM.Middleware SM.Inv
  SMP.ListLemmas SMP.Frame SMP.WF SMP.Preserve SMP.StepInv SMP.Clock SMP.ClockStep SMP.ClockMain SMP.Post SMP.PostApply
  SMP.LiftSide SMP.FeasView SMP.Feasible SMP.FeasSound SMP.Agv SMP.OutputDone SMP.Offers SMP.Unique SMP.Reflect
  SMP.Prov SMP.LiftProv SMP.ProvBatch SMP.Durations Classic.Jssp Classic.Packing Classic.LowerBound.
Import ListNotations.
Close Scope Z_scope.

(* the classic instance behind a state-machine instance *)
Definition op_rel (oc : opcfg) (md : nat * Z) : Prop := fst md = oc_mach oc /\ oc_dur oc = Det (snd md).
Definition cinst_rel (i : inst) (I : cinst) : Prop := Forall2 (Forall2 op_rel) (i_jobs i) I.

Lemma Forall2_nth_right {A B} (R : A -> B -> Prop) l r n b :
  Forall2 R l r -> nth_error r n = Some b -> exists a, nth_error l n = Some a /\ R a b.
Proof.
  intros H. revert n. induction H as [|x y l r Hxy H IH]; intros [|n] Hn; simpl in Hn; try discriminate.
  - inversion Hn; subst. exists x. auto.
  - apply IH; auto.
Qed.

Lemma cinst_rel_op i I j k md : cinst_rel i I -> op_at I j k = Some md ->
  exists oc, get_opcfg i j k = Ok oc /\ oc_mach oc = fst md /\ oc_dur oc = Det (snd md).
Proof.
  intros R H. unfold op_at in H. destruct (nth_error I j) as [ops|] eqn:Ej; [|discriminate].
  destruct (Forall2_nth_right _ _ _ _ _ R Ej) as [ocs [Hocs R2]].
  destruct (Forall2_nth_right _ _ _ _ _ R2 H) as [oc [Hoc [A B]]].
  exists oc. unfold get_opcfg. rewrite Hocs, Hoc. simpl. auto.
Qed.

Section E.
Variable sigma : oracle.
Variable i : inst.
Hypothesis Hnn : inst_nonneg_b i = true.
Variable t0 : Z.

(* no operation starts before the initial clock *)
Definition S0 (x : state) : Prop :=
  (t0 <= s_now x)%Z /\
  forall j ops k o s, jops x j = Some ops -> nth_error ops k = Some o -> o_st o <> OIdle -> o_start o = Time s -> (t0 <= s)%Z.

Lemma S0_set_now x z : S0 x -> (s_now x <= z)%Z -> S0 (set_now x z).
Proof. intros [A B] H. split; [simpl; lia|exact B]. Qed.

Lemma S0_frame x x' : S0 x -> s_now x' = s_now x -> (forall j, jops x' j = jops x j) -> S0 x'.
Proof. intros [A B] Hn Hj. split; [lia|]. intros j ops k o s H1. rewrite Hj in H1. eauto. Qed.

Lemma S0_upd x x' j ops k0 o' :
  S0 x -> s_now x' = s_now x -> jops x j = Some ops -> k0 < length ops ->
  (forall j', j' <> j -> jops x' j' = jops x j') -> jops x' j = Some (upd ops k0 o') ->
  (o_st o' <> OIdle -> forall s, o_start o' = Time s -> (t0 <= s)%Z) -> S0 x'.
Proof.
  intros [A B] Hn Hops Hk Hjo Hjj Hnew. split; [lia|]. intros j0 ops0 k o s H1 H2 H3 H4.
  destruct (Nat.eq_dec j0 j) as [->|Hd]; [|rewrite (Hjo _ Hd) in H1; eauto].
  rewrite Hjj in H1. inversion H1; subst ops0. destruct (Nat.eq_dec k k0) as [->|Hk0].
  - rewrite nth_upd_same in H2 by auto. inversion H2; subst o. eauto.
  - rewrite nth_upd_other in H2 by congruence. eauto.
Qed.

Theorem apply_preserves_S0 x tr x' : FE i x -> S0 x -> apply_transition sigma i x tr = Ok x' -> S0 x'.
Proof.
  intros F S H. pose proof (apply_now sigma i _ _ _ H) as Hnow.
  destruct (tr_comp tr) as [m|t|n] eqn:Hc.
  - destruct (nth_error (s_machs x) m) as [ms|] eqn:Hms; [|unfold apply_transition in H; rewrite Hc, Hms in H; discriminate].
    assert (Oth : forall j, (tr_new tr <> NM MIdle /\ tr_job tr = Some j) \/ (tr_new tr = NM MIdle /\ hd_error (b_store (m_in ms)) = Some j) ->
                  forall j', j' <> j -> jops x' j' = jops x j').
    { intros j Hj j' Hd. destruct (machine_tr_jops_other sigma i _ _ _ _ _ j' H Hc Hms) as [E|[[A E]|[A E]]]; auto; exfalso;
        destruct Hj as [[B E2]|[B E2]]; congruence. }
    destruct (apply_machine sigma i _ _ _ _ _ Hc Hms H) as [[Hst [Hnw C]]|[[Hst [Hnw C]]|[[Hst [Hnw C]]|[Hst [Hnw C]]]]].
    + destruct (post_idle_setup sigma i _ _ _ _ _ Hms C) as [j [jb [k0 [oc [mc [sc [sd [Hj [Hjb [Hk [_ [_ [_ [_ [_ [[jb' [J1 [_ J3]]] _]]]]]]]]]]]]]]]].
      destruct (first_not_done_spec _ _ Hk) as [o [Ho _]].
      apply (S0_upd x x' j (j_ops jb) k0 (mkOp m (Time (s_now x)) (Time (s_now x + sd)%Z) OProc) S Hnow (jops_of _ _ _ Hjb) (nth_error_lt _ _ _ Ho)).
      * apply Oth. left. split; [rewrite Hnw; discriminate|exact Hj].
      * rewrite (jops_of _ _ _ J1), J3. reflexivity.
      * intros _ s Es. simpl in Es. inversion Es; subst. apply S.
    + destruct (post_setup_working sigma i _ _ _ _ _ Hms C) as [j [jb [k0 [oc [d0 [Hj [Hjb [Hk [_ [_ [_ [J1 _]]]]]]]]]]]].
      destruct (first_not_done_spec _ _ Hk) as [o [Ho _]].
      apply (S0_upd x x' j (j_ops jb) k0 (mkOp m (Time (s_now x)) (Time (s_now x + d0)%Z) OProc) S Hnow (jops_of _ _ _ Hjb) (nth_error_lt _ _ _ Ho)).
      * apply Oth. left. split; [rewrite Hnw; discriminate|exact Hj].
      * rewrite (jops_of _ _ _ J1). reflexivity.
      * intros _ s Es. simpl in Es. inversion Es; subst. apply S.
    + destruct (post_working_outage sigma i _ _ _ _ _ Hms C) as [mc [outs [sto' [occ_for [j [jb [k0 [o [_ [_ [_ [Hj [Hjb [Hk [Ho [_ [J1 _]]]]]]]]]]]]]]]]].
      assert (So : o_st o = OProc) by (destruct (first_proc_spec _ _ Hk) as [o0 [A B]]; congruence).
      apply (S0_upd x x' j (j_ops jb) k0 (set_op_end o (Time (s_now x + occ_for)%Z)) S Hnow (jops_of _ _ _ Hjb) (nth_error_lt _ _ _ Ho)).
      * apply Oth. left. split; [rewrite Hnw; discriminate|exact Hj].
      * rewrite (jops_of _ _ _ J1). reflexivity.
      * intros _ s Es. simpl in Es. destruct S as [_ B]. apply (B j (j_ops jb) k0 o s (jops_of _ _ _ Hjb) Ho); [congruence|exact Es].
    + destruct (post_outage_idle i _ _ _ _ _ Hms C) as [j [jb [k0 [o [Hhd [Hjb [Hk [Ho [_ [[jb' [J1 [_ J3]]] _]]]]]]]]]].
      assert (So : o_st o = OProc) by (destruct (first_proc_spec _ _ Hk) as [o0 [A B]]; congruence).
      apply (S0_upd x x' j (j_ops jb) k0 (mkOp (o_mach o) (o_start o) (Time (s_now x)) ODone) S Hnow (jops_of _ _ _ Hjb) (nth_error_lt _ _ _ Ho)).
      * apply Oth. right. split; auto.
      * rewrite (jops_of _ _ _ J1), J3. reflexivity.
      * intros _ s Es. simpl in Es. destruct S as [_ B]. apply (B j (j_ops jb) k0 o s (jops_of _ _ _ Hjb) Ho); [congruence|exact Es].
  - destruct (transport_tr_frame sigma i _ _ _ _ H Hc) as [Hj _]. eapply S0_frame; eauto.
  - unfold apply_transition in H. rewrite Hc in H. destruct (nth_error (s_bufs x) n); discriminate.
Qed.

(* ---------- lifting (with the invariants of Durations.v) ---------- *)
Definition J5 (x : state) : Prop := J3 i x /\ S0 x.

Theorem J5_apply x tr R x' :
  NO x -> J5 x -> Q3 (tr :: R) x -> is_transition_valid x tr = Ok true -> apply_transition sigma i x tr = Ok x' ->
  J5 x' /\ Q3 R x' /\ side2 tr x' = true.
Proof.
  intros N [Hj S] HQ Hv Ha. destruct (J3_apply sigma i Hnn _ _ _ _ N Hj HQ Hv Ha) as [Hj' [HQ' Sd]].
  split; [split; auto|auto]. destruct Hj as [[_ [[F _] _]] _]. eapply apply_preserves_S0; eauto.
Qed.

Lemma J5_now x t : J5 x -> (s_now x <= t)%Z -> J5 (set_now x t).
Proof. intros [Hj S] H. split; [apply (J3_now i); auto|apply S0_set_now; auto]. Qed.

Lemma Q5_timed x timed poss tele : NO x -> J5 x -> BI x -> create_timed_transitions i x = Ok timed ->
  get_possible_transitions i x = Ok poss -> filter_teleport i x poss = Ok tele -> Q3 (timed ++ tele) x.
Proof. intros N [Hj _]. apply (Q3_timed i); auto. Qed.
Lemma Q5_timed0 x timed : NO x -> J5 x -> BI x -> create_timed_transitions i x = Ok timed -> Q3 timed x.
Proof. intros N [Hj _]. apply (Q3_timed0 i); auto. Qed.
Lemma Q5_offer x o : J5 x -> BI x -> create_timed_transitions i x = Ok [] -> OK3 x o -> Q3 [o] x.
Proof. intros [Hj _]. apply (Q3_offer i); auto. Qed.
Lemma E5_end x : J5 x -> Q3 [] x -> BI x.
Proof. intros [Hj _]. apply (E3_end i); auto. Qed.

(* ---------- the records of a finished state are a feasible classic schedule ---------- *)
Definition start_of (x : state) (j k : nat) : Z :=
  match jops x j with
  | Some ops => match nth_error ops k with
                | Some o => match o_start o with Time s => s | NoTime => 0%Z end
                | None => 0%Z end
  | None => 0%Z end.

Lemma record_of x I j k md :
  FE i x -> cinst_rel i I -> op_at I j k = Some md ->
  exists oc ops o, get_opcfg i j k = Ok oc /\ oc_mach oc = fst md /\ oc_dur oc = Det (snd md)
                   /\ jops x j = Some ops /\ nth_error ops k = Some o /\ o_mach o = fst md.
Proof.
  intros F R H. destruct (cinst_rel_op _ _ _ _ _ R H) as [oc [Hoc [Hm Hd]]].
  pose proof (fe_shape _ _ F j) as Hs. simpl in Hs. unfold get_opcfg in Hoc.
  destruct (nth_error (i_jobs i) j) as [ocs|] eqn:Ej; [|discriminate]. simpl in Hs.
  destruct (jops x j) as [ops|] eqn:Eo; [|discriminate]. simpl in Hs. inversion Hs as [Hl].
  apply of_opt_ok in Hoc. pose proof (nth_error_lt _ _ _ Hoc) as Hlt. rewrite <- Hl in Hlt.
  destruct (nth_error ops k) as [o|] eqn:Ek; [|apply nth_error_None in Ek; lia].
  exists oc, ops, o. repeat split; auto; try (unfold get_opcfg; rewrite Ej, Hoc; reflexivity).
  rewrite <- Hm. eapply (fe_mk _ _ F j k o oc); [exists ops; split; auto|unfold get_opcfg; rewrite Ej, Hoc; reflexivity].
Qed.

Theorem finished_state_lower_bound x I lb C :
  J5 x -> (0 <= t0)%Z -> cinst_rel i I -> classic I -> (0 < nmach I)%nat -> lower_bound I = Some lb ->
  (forall j ops k o, jops x j = Some ops -> nth_error ops k = Some o -> o_st o = ODone) ->
  (forall j ops k o e, jops x j = Some ops -> nth_error ops k = Some o -> o_end o = Time e -> (e <= C)%Z) ->
  (lb <= C)%Z.
Proof.
  intros [[[W [[F _] _]] [_ D]] [_ S]] Ht0 R Hcl Hnm Hlb Hdone HC.
  (* start, end and duration of a configured operation *)
  assert (Rec : forall j k md, op_at I j k = Some md ->
            exists o s e, vop (view_of x) j k o /\ o_st o = ODone /\ o_mach o = fst md /\ o_start o = Time s /\ o_end o = Time e
                          /\ start_of x j k = s /\ (s + snd md <= e)%Z /\ (t0 <= s)%Z /\ (e <= C)%Z).
  { intros j k md H. destruct (record_of x I j k md F R H) as [oc [ops [o [Hoc [_ [Hd [Hops [Ho Hm]]]]]]]].
    pose proof (Hdone _ _ _ _ Hops Ho) as Sd.
    destruct (D _ _ _ _ _ _ Hops Ho Hoc Hd) as [A _]. destruct (A Sd) as [s [e [Es [Ee [Hle _]]]]].
    exists o, s, e. split; [exists ops; auto|]. split; auto. split; auto. split; auto. split; auto.
    split; [unfold start_of; rewrite Hops, Ho, Es; reflexivity|]. split; auto. split; [eapply S; eauto; congruence|eapply HC; eauto]. }
  apply (lower_bound_sound I (start_of x) C Hcl Hnm); auto.
  - (* feasible *)
    split; [|split].
    + intros j k md H. destruct (Rec _ _ _ H) as [o [s [e [_ [_ [_ [_ [_ [Es [_ [Hs _]]]]]]]]]]]. lia.
    + intros j k md md' H1 H2.
      destruct (Rec _ _ _ H1) as [a [sa [ea [[ops [Ha1 Ha2]] [Da [_ [_ [Eea [Esa [La _]]]]]]]]]].
      destruct (Rec _ _ _ H2) as [b [sb [eb [[ops' [Hb1 Hb2]] [Db [_ [Esb [_ [Esb' _]]]]]]]]].
      simpl in Ha1, Hb1. rewrite Ha1 in Hb1. inversion Hb1; subst ops'.
      pose proof (fe_chain _ _ F j ops k a b Ha1 Ha2 Hb2 ltac:(congruence) ltac:(congruence)) as Hc.
      rewrite Eea, Esb in Hc. apply tle_Time in Hc. lia.
    + intros j k j' k' md md' H1 H2 Hm Hne.
      destruct (Rec _ _ _ H1) as [a [sa [ea [Va [Da [Ma [Esa0 [Eea [Esa [La _]]]]]]]]]].
      destruct (Rec _ _ _ H2) as [b [sb [eb [Vb [Db [Mb [Esb0 [Eeb [Esb [Lb _]]]]]]]]]].
      destruct (fe_done _ _ F _ _ _ _ _ _ Va Vb Hne Da Db ltac:(congruence)) as [Hc|Hc].
      * left. rewrite Eea, Esb0 in Hc. apply tle_Time in Hc. lia.
      * right. rewrite Eeb, Esa0 in Hc. apply tle_Time in Hc. lia.
  - (* completion times *)
    intros j k md H. destruct (Rec _ _ _ H) as [o [s [e [_ [_ [_ [_ [_ [Es [Hle [_ HeC]]]]]]]]]]]. lia.
Qed.

End E.

(* ---------- every terminated run ---------- *)
Section Run.
Variable sigma : oracle.
Variable i : inst.
Hypothesis Hnn : inst_nonneg_b i = true.

Lemma fresh_S0 x : fresh_b i x = true -> S0 (s_now x) x.
Proof.
  intros Fr. split; [lia|]. intros j ops k o s H1 H2 H3 _. exfalso. apply H3.
  unfold fresh_b in Fr. apply andb_true_iff in Fr. destruct Fr as [Fr _]. apply andb_true_iff in Fr. destruct Fr as [F1 _].
  destruct (jops_inv _ _ _ H1) as [jb [Hjb <-]].
  pose proof (forallb_nth _ _ _ _ F1 Hjb) as Q0. simpl in Q0. pose proof (forallb_nth _ _ _ _ Q0 H2) as Q1.
  unfold is_ostate in Q1. destruct (o_st o); simpl in Q1; try discriminate. reflexivity.
Qed.

Theorem terminated_run_lower_bound fuel x0 joker0 ta r m I lb C :
  clock_b x0 = true -> wfs_b i x0 = true -> fresh2_b i x0 = true -> nodep_b x0 = true -> (0 <= s_now x0)%Z ->
  cinst_rel i I -> classic I -> (0 < nmach I)%nat -> lower_bound I = Some lb ->
  reach sigma i fuel x0 joker0 ta r m -> all_in_output i (r_x r) = true ->
  (forall jb o e, In jb (s_jobs (r_x r)) -> In o (j_ops jb) -> o_end o = Time e -> (e <= C)%Z) ->
  (lb <= C)%Z.
Proof.
  intros Cl W Fr Dn Ht0 R Hcl Hnm Hlb H Hout HC. apply NO_iff_clock_b in Cl.
  assert (Fr1 : fresh_b i x0 = true) by (unfold fresh2_b in Fr; apply andb_true_iff in Fr; destruct Fr as [Fr _]; apply andb_true_iff in Fr; tauto).
  assert (J0 : J5 i (s_now x0) x0).
  { split; [split; [apply J_init; auto|apply fresh_BO_DUR; auto]|apply fresh_S0; auto]. }
  destruct (reach_reachG sigma i Hnn (J5 i (s_now x0)) Q3 side2 OK3 BI
              (J5_apply sigma i Hnn (s_now x0)) (J5_now i (s_now x0)) (E5_end i (s_now x0)) BI_now (Q5_timed i (s_now x0))
              (Q5_timed0 i (s_now x0)) (Q5_offer i (s_now x0)) (offers_ok3 i) _ _ _ _ _ _ Cl J0 (BI_init _ Dn) H)
    as [_ [_ [xq [Nq [Jq E]]]]].
  assert (Eops : s_jobs (r_x r) = s_jobs xq) by (destruct E as [->|[_ [z ->]]]; reflexivity).
  apply (finished_state_lower_bound i (s_now x0) xq I lb C Jq Ht0 R Hcl Hnm Hlb).
  - intros j ops k o H1 H2. destruct (jops_inv _ _ _ H1) as [jb [Hjb <-]].
    unfold all_in_output in Hout. rewrite Eops in Hout. pose proof (forallb_nth _ _ _ _ Hout Hjb) as Q0. simpl in Q0.
    apply andb_true_iff in Q0. destruct Q0 as [_ Q0]. pose proof (forallb_nth _ _ _ _ Q0 H2) as Q1.
    unfold is_ostate in Q1. destruct (o_st o); simpl in Q1; try discriminate. reflexivity.
  - intros j ops k o e H1 H2 H3. destruct (jops_inv _ _ _ H1) as [jb [Hjb <-]].
    apply (HC jb o e); auto; [rewrite Eops; eapply nth_error_In; eauto|eapply nth_error_In; eauto].
Qed.

End Run.
