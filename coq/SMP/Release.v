(* C08, the machine side of "ordered buffers release jobs in discipline order": an IDLE -> SETUP transition takes the job its
   pre-buffer's discipline releases. Three facts, composed by the shape of a batch (create_timed_transitions lists the
   machines' transitions before the AGVs', so nothing is delivered into a pre-buffer between the creation and the application
   of a machine's own transition):
   (a) where the simulator creates an IDLE -> SETUP transition it names the job at the release position;
   (b) a transition of ANOTHER machine leaves the pre-buffer untouched;
   (c) the agent is offered a machine start only for unordered (FLEX) pre-buffers: at a decision point
       create_timed_transitions is empty, so an idle machine with a non-empty ordered pre-buffer does not exist. *)
From Coq Require Import List ZArith Bool Arith Lia.
From JSL Require Import Base.Res Base.ListX SM.Types SM.Util SM.Handler SM.Step SM.Middleware SM.Inv SM.Events
  SMP.ListLemmas SMP.Frame SMP.WF SMP.Preserve SMP.Post SMP.PostApply SMP.FeasView SMP.Feasible SMP.Offers SMP.Unique SMP.Reflect
  SMP.DepLists SMP.Prov SMP.StoreEff SMP.LiftProv SMP.ProvBatch SMP.Claims SMP.Durations SMP.Travel SMP.Hold SMP.Deliver SMP.OffersValid SMP.NoFail.
Import ListNotations.
Close Scope Z_scope.

Section R.
Variable sigma : oracle.
Variable i : inst.

Lemma next_at_release b ty j : get_next_job_from_buffer b ty = Some j -> at_release_position j (b_store b) ty = true.
Proof.
  unfold get_next_job_from_buffer, at_release_position. destruct (b_store b) as [|h t]; [discriminate|].
  destruct ty; intros H; inversion H; subst; try apply Nat.eqb_refl.
Qed.

(* (a) *)
Theorem created_start_names_released_job now m ms tr :
  timed_machine i now m ms = Ok (Some tr) -> tr_new tr = NM MSetup ->
  exists c j, get_bcfg i (BPre m) = Some c /\ tr = mkTr (CM m) (NM MSetup) (Some j)
              /\ at_release_position j (b_store (m_pre ms)) (bc_type c) = true.
Proof.
  intros H Hn. destruct (timed_machine_spec i _ _ _ _ H) as [[z [j [_ [_ [_ [_ [_ Hs]]]]]]]|[c [j [_ [Hc [Hnx E]]]]]].
  - destruct Hs as [[_ E]|[[_ E]|[_ E]]]; rewrite E in Hn; discriminate.
  - exists c, j. split; auto. split; auto. apply next_at_release; auto.
Qed.

(* (b) *)
Theorem other_machine_leaves_pre_buffer x tr0 x' m0 m :
  apply_transition sigma i x tr0 = Ok x' -> tr_comp tr0 = CM m0 -> m0 <> m -> bst x' (BPre m) = bst x (BPre m).
Proof.
  intros H Hc Hne. destruct (apply_store_eff sigma i _ _ _ H) as [Same|[j [A [B [_ [_ [_ [Hoth Hk]]]]]]]]; [apply Same|].
  apply Hoth; destruct Hk as [[m1 [Hc1 [[-> ->]|[-> ->]]]]|[[t [Hc1 _]]|[t [Hc1 _]]]]; try (rewrite Hc in Hc1; discriminate);
    rewrite Hc in Hc1; inversion Hc1; subst m1; congruence.
Qed.

Lemma timed_machines_none now : forall l m k ms,
  timed_machines_from i now m l = Ok [] -> nth_error l k = Some ms -> timed_machine i now (m + k) ms = Ok None.
Proof.
  induction l as [|h t IH]; intros m k ms H Hk; [destruct k; discriminate|]. simpl in H.
  destruct (timed_machine i now m h) as [o|] eqn:Eo; simpl in H; [|discriminate].
  destruct (timed_machines_from i now (S m) t) as [rest|] eqn:Er; simpl in H; [|discriminate].
  destruct o as [tr0|]; [inversion H|]. inversion H; subst rest.
  destruct k as [|k]; simpl in Hk.
  - inversion Hk; subst h. rewrite Nat.add_0_r. exact Eo.
  - replace (m + S k) with (S m + k) by lia. eapply IH; eauto.
Qed.

(* (c) *)
Theorem offered_start_only_for_unordered_pre_buffer x offers m j :
  WFS i x -> FE i x -> create_timed_transitions i x = Ok [] -> get_possible_transitions i x = Ok offers ->
  In (mkTr (CM m) (NM MSetup) (Some j)) offers ->
  exists ms c, nth_error (s_machs x) m = Some ms /\ get_bcfg i (BPre m) = Some c /\ bc_type c = Flex
               /\ at_release_position j (b_store (m_pre ms)) (bc_type c) = true.
Proof.
  intros W F Hct Ho Hin.
  pose proof (machine_offer_pre i x offers m j W F Ho Hin) as Hloc.
  destruct (nth_error (s_jobs x) j) as [jb|] eqn:Hjb; [|unfold jloc in Hloc; rewrite Hjb in Hloc; discriminate].
  rewrite (jloc_of _ _ _ Hjb) in Hloc. assert (Hl : j_loc jb = BPre m) by congruence. clear Hloc.
  destruct (ws_loc _ _ W _ _ Hjb) as [b [Hb Hinb]]. rewrite Hl in Hb. simpl in Hb.
  destruct (nth_error (s_machs x) m) as [ms|] eqn:Hms; [|discriminate]. simpl in Hb. inversion Hb; subst b.
  (* the machine is idle: the offer passed validation *)
  assert (Hv : is_transition_valid x (mkTr (CM m) (NM MSetup) (Some j)) = Ok true).
  { eapply (offers_are_valid i); eauto. apply (FE_no_transport_ops i); auto. }
  unfold is_transition_valid in Hv. simpl in Hv. rewrite Hms in Hv.
  assert (Hidle : m_st ms = MIdle).
  { unfold is_machine_transition_valid in Hv. destruct (m_st ms); simpl in Hv; try discriminate; reflexivity. }
  unfold create_timed_transitions in Hct.
  destruct (create_timed_machine_transitions i x) as [a|] eqn:Ea; simpl in Hct; [|discriminate].
  destruct (create_timed_transport_transitions i x) as [b0|] eqn:Eb; simpl in Hct; [|discriminate].
  inversion Hct as [Hab]. apply app_eq_nil in Hab. destruct Hab as [-> _].
  unfold create_timed_machine_transitions in Ea. pose proof (timed_machines_none _ _ 0 m ms Ea Hms) as Hn. simpl in Hn.
  unfold timed_machine in Hn. rewrite Hidle in Hn.
  assert (Hcs : create_machine_setup_transition i m ms = Ok None).
  { destruct (m_occ ms) as [|z]; simpl in Hn; [exact Hn|]. destruct (z <=? s_now x)%Z; simpl in Hn; exact Hn. }
  unfold create_machine_setup_transition in Hcs. destruct (b_store (m_pre ms)) as [|h t] eqn:Est; [destruct Hinb|].
  destruct (get_bcfg i (BPre m)) as [c|] eqn:Ec; simpl in Hcs; [|discriminate].
  destruct (get_next_job_from_buffer (m_pre ms) (bc_type c)) as [j0|] eqn:En; [discriminate|].
  assert (Hty : bc_type c = Flex).
  { unfold get_next_job_from_buffer in En. rewrite Est in En. destruct (bc_type c); try discriminate; reflexivity. }
  exists ms, c. split; auto. split; auto. split; auto. rewrite Hty, Est. unfold at_release_position. apply mem_nat_In. exact Hinb.
Qed.

End R.
