(* C08, the machine side of "ordered buffers release jobs in discipline order": an IDLE -> SETUP transition takes the job its
   pre-buffer's discipline releases. Three facts, composed by the shape of a batch (create_timed_transitions lists the
   machines' transitions before the AGVs', so nothing is delivered into a pre-buffer between the creation and the application
   of a machine's own transition):
   (a) where the simulator creates an IDLE -> SETUP transition it names the job at the release position;
   (b) a transition of ANOTHER machine leaves the pre-buffer untouched;
   (c) the agent is offered a machine start only for unordered (FLEX) pre-buffers: at a decision point
       create_timed_transitions is empty, so an idle machine with a non-empty ordered pre-buffer does not exist. *)
From Coq Require Import List ZArith Bool Arith Lia.
From JSL Require Import Base.Res Base.ListX SM.Types SM.Util SM.Handler SM.Step SM.Middleware SM.Inv SM.Events
  SMP.ListLemmas SMP.Frame SMP.WF SMP.Preserve SMP.StepInv SMP.Clock SMP.ClockStep SMP.ClockMain SMP.LiftSide SMP.Agv SMP.OutputDone SMP.Post SMP.PostApply SMP.FeasView SMP.Feasible SMP.Offers SMP.Unique SMP.Reflect
  SMP.DepLists SMP.Prov SMP.StoreEff SMP.LiftProv SMP.ProvBatch SMP.Claims SMP.Durations SMP.Travel SMP.Hold SMP.Deliver SMP.OffersValid SMP.NoFail.
Import ListNotations.
Close Scope Z_scope.

Section R.
Variable sigma : oracle.
Variable i : inst.

Lemma next_at_release b ty j : get_next_job_from_buffer b ty = Some j -> at_release_position j (b_store b) ty = true.
Proof.
  unfold get_next_job_from_buffer, at_release_position. destruct (b_store b) as [|h t]; [discriminate|].
  destruct ty; intros H; inversion H; subst; try apply Nat.eqb_refl.
Qed.

(* (a) *)
Theorem created_start_names_released_job now m ms tr :
  timed_machine i now m ms = Ok (Some tr) -> tr_new tr = NM MSetup ->
  exists c j, get_bcfg i (BPre m) = Some c /\ tr = mkTr (CM m) (NM MSetup) (Some j)
              /\ at_release_position j (b_store (m_pre ms)) (bc_type c) = true.
Proof.
  intros H Hn. destruct (timed_machine_spec i _ _ _ _ H) as [[z [j [_ [_ [_ [_ [_ Hs]]]]]]]|[c [j [_ [Hc [Hnx E]]]]]].
  - destruct Hs as [[_ E]|[[_ E]|[_ E]]]; rewrite E in Hn; discriminate.
  - exists c, j. split; auto. split; auto. apply next_at_release; auto.
Qed.

(* (b) *)
Theorem other_machine_leaves_pre_buffer x tr0 x' m0 m :
  apply_transition sigma i x tr0 = Ok x' -> tr_comp tr0 = CM m0 -> m0 <> m -> bst x' (BPre m) = bst x (BPre m).
Proof.
  intros H Hc Hne. destruct (apply_store_eff sigma i _ _ _ H) as [Same|[j [A [B [_ [_ [_ [Hoth Hk]]]]]]]]; [apply Same|].
  apply Hoth; destruct Hk as [[m1 [Hc1 [[-> ->]|[-> ->]]]]|[[t [Hc1 _]]|[t [Hc1 _]]]]; try (rewrite Hc in Hc1; discriminate);
    rewrite Hc in Hc1; inversion Hc1; subst m1; congruence.
Qed.

Lemma timed_machines_none now : forall l m k ms,
  timed_machines_from i now m l = Ok [] -> nth_error l k = Some ms -> timed_machine i now (m + k) ms = Ok None.
Proof.
  induction l as [|h t IH]; intros m k ms H Hk; [destruct k; discriminate|]. simpl in H.
  destruct (timed_machine i now m h) as [o|] eqn:Eo; simpl in H; [|discriminate].
  destruct (timed_machines_from i now (S m) t) as [rest|] eqn:Er; simpl in H; [|discriminate].
  destruct o as [tr0|]; [inversion H|]. inversion H; subst rest.
  destruct k as [|k]; simpl in Hk.
  - inversion Hk; subst h. rewrite Nat.add_0_r. exact Eo.
  - replace (m + S k) with (S m + k) by lia. eapply IH; eauto.
Qed.

(* (c) *)
Theorem offered_start_only_for_unordered_pre_buffer x offers m j :
  WFS i x -> FE i x -> create_timed_transitions i x = Ok [] -> get_possible_transitions i x = Ok offers ->
  In (mkTr (CM m) (NM MSetup) (Some j)) offers ->
  exists ms c, nth_error (s_machs x) m = Some ms /\ get_bcfg i (BPre m) = Some c /\ bc_type c = Flex
               /\ at_release_position j (b_store (m_pre ms)) (bc_type c) = true.
Proof.
  intros W F Hct Ho Hin.
  pose proof (machine_offer_pre i x offers m j W F Ho Hin) as Hloc.
  destruct (nth_error (s_jobs x) j) as [jb|] eqn:Hjb; [|unfold jloc in Hloc; rewrite Hjb in Hloc; discriminate].
  rewrite (jloc_of _ _ _ Hjb) in Hloc. assert (Hl : j_loc jb = BPre m) by congruence. clear Hloc.
  destruct (ws_loc _ _ W _ _ Hjb) as [b [Hb Hinb]]. rewrite Hl in Hb. simpl in Hb.
  destruct (nth_error (s_machs x) m) as [ms|] eqn:Hms; [|discriminate]. simpl in Hb. inversion Hb; subst b.
  (* the machine is idle: the offer passed validation *)
  assert (Hv : is_transition_valid x (mkTr (CM m) (NM MSetup) (Some j)) = Ok true).
  { eapply (offers_are_valid i); eauto. apply (FE_no_transport_ops i); auto. }
  unfold is_transition_valid in Hv. simpl in Hv. rewrite Hms in Hv.
  assert (Hidle : m_st ms = MIdle).
  { unfold is_machine_transition_valid in Hv. destruct (m_st ms); simpl in Hv; try discriminate; reflexivity. }
  unfold create_timed_transitions in Hct.
  destruct (create_timed_machine_transitions i x) as [a|] eqn:Ea; simpl in Hct; [|discriminate].
  destruct (create_timed_transport_transitions i x) as [b0|] eqn:Eb; simpl in Hct; [|discriminate].
  inversion Hct as [Hab]. apply app_eq_nil in Hab. destruct Hab as [-> _].
  unfold create_timed_machine_transitions in Ea. pose proof (timed_machines_none _ _ 0 m ms Ea Hms) as Hn. simpl in Hn.
  unfold timed_machine in Hn. rewrite Hidle in Hn.
  assert (Hcs : create_machine_setup_transition i m ms = Ok None).
  { destruct (m_occ ms) as [|z]; simpl in Hn; [exact Hn|]. destruct (z <=? s_now x)%Z; simpl in Hn; exact Hn. }
  unfold create_machine_setup_transition in Hcs. destruct (b_store (m_pre ms)) as [|h t] eqn:Est; [destruct Hinb|].
  destruct (get_bcfg i (BPre m)) as [c|] eqn:Ec; simpl in Hcs; [|discriminate].
  destruct (get_next_job_from_buffer (m_pre ms) (bc_type c)) as [j0|] eqn:En; [discriminate|].
  assert (Hty : bc_type c = Flex).
  { unfold get_next_job_from_buffer in En. rewrite Est in En. destruct (bc_type c); try discriminate; reflexivity. }
  exists ms, c. split; auto. split; auto. split; auto. rewrite Hty, Est. unfold at_release_position. apply mem_nat_In. exact Hinb.
Qed.


(* ---------- composed over whole runs: every IDLE -> SETUP of every decision's micro-log ---------- *)
Hypothesis Hnn : inst_nonneg_b i = true.

Definition rel_fact (x : state) (tr : transition) : Prop :=
  forall m j, tr_comp tr = CM m -> tr_new tr = NM MSetup -> tr_job tr = Some j ->
  exists ms c, nth_error (s_machs x) m = Some ms /\ get_bcfg i (BPre m) = Some c
               /\ at_release_position j (b_store (m_pre ms)) (bc_type c) = true.

(* the machines' transitions come first *)
Definition mach_first (R : list transition) : Prop :=
  exists A B, R = A ++ B /\ (forall tr, In tr A -> exists m, tr_comp tr = CM m) /\ (forall tr, In tr B -> exists t, tr_comp tr = CT t).

Lemma mach_first_tail tr0 R : mach_first (tr0 :: R) ->
  mach_first R /\ ((exists t, tr_comp tr0 = CT t) -> forall tr, In tr R -> exists t, tr_comp tr = CT t).
Proof.
  intros [A [B [E [HA HB]]]]. destruct A as [|a A'].
  - simpl in E. subst B. split.
    + exists [], R. split; [reflexivity|]. split; [intros tr []|]. intros tr Hin. apply HB. right; auto.
    + intros _ tr Hin. apply HB. right; auto.
  - simpl in E. inversion E; subst a R. split.
    + exists A', B. split; [reflexivity|]. split; auto. intros tr Hin. apply HA. right; auto.
    + intros [t Ht]. destruct (HA tr0 (or_introl eq_refl)) as [m Hm]. congruence.
Qed.

Definition Q9 (R : list transition) (x : state) : Prop := Q8 R x /\ mach_first R /\ forall tr, In tr R -> rel_fact x tr.

Theorem J9_apply x tr R x' :
  NO x -> J8 i x -> Q9 (tr :: R) x -> is_transition_valid x tr = Ok true -> apply_transition sigma i x tr = Ok x' ->
  J8 i x' /\ Q9 R x' /\ side2 tr x' = true.
Proof.
  intros N Hj [HQ8 [HM HR]] Hv Ha. destruct (J8_apply sigma i Hnn _ _ _ _ N Hj HQ8 Hv Ha) as [Hj' [HQ8' S]].
  split; auto. split; [|exact S]. destruct (mach_first_tail _ _ HM) as [HM' Htail]. split; auto. split; auto.
  intros tr1 Hin m j Hc1 Hn1 Hj1. destruct (HR tr1 (or_intror Hin) m j Hc1 Hn1 Hj1) as [ms [c [Hms [Hc Hrel]]]].
  destruct (tr_comp tr) as [m0|t0|n0] eqn:Hc0.
  - (* another machine: the pre-buffer stays *)
    assert (Hne : m0 <> m).
    { intros ->. destruct HQ8 as [[ND _] _].
      assert (Ew1 : is_tworking tr1 = false) by (unfold is_tworking; rewrite Hn1; reflexivity).
      assert (Ew0 : is_tworking tr = false).
      { unfold is_tworking. destruct (tr_new tr) as [s0|s0] eqn:En0; [reflexivity|].
        destruct (nth_error (s_machs x) m) as [ms0|] eqn:Hms0; [|unfold apply_transition in Ha; rewrite Hc0, Hms0 in Ha; discriminate].
        destruct (apply_machine sigma i _ _ _ _ _ Hc0 Hms0 Ha) as [[_ [E _]]|[[_ [E _]]|[[_ [E _]]|[_ [E _]]]]]; rewrite En0 in E; discriminate. }
      rewrite core_cons, Ew0 in ND. simpl in ND. inversion ND as [|? ? Hnin _]. apply Hnin.
      rewrite Hc0, <- Hc1. apply in_map. apply in_core; auto. }
    pose proof (other_machine_leaves_pre_buffer x tr x' m0 m Ha Hc0 Hne) as Hb. unfold bst in Hb. simpl in Hb.
    rewrite Hms in Hb. simpl in Hb. destruct (nth_error (s_machs x') m) as [ms'|] eqn:Hms'; [|discriminate]. simpl in Hb.
    inversion Hb as [Hst]. exists ms', c. rewrite Hst. auto.
  - exfalso. destruct (Htail ltac:(eauto) tr1 Hin) as [t Ht]. congruence.
  - unfold apply_transition in Ha. rewrite Hc0 in Ha. destruct (nth_error (s_bufs x) n0); discriminate.
Qed.

Lemma E9_end x : J8 i x -> Q9 [] x -> BI x.
Proof. intros Hj [HQ _]. eapply E8_end; eauto. Qed.

Lemma Q9_created x timed tele :
  J8 i x -> Q8 (timed ++ tele) x -> create_timed_transitions i x = Ok timed -> (forall tr, In tr tele -> exists t, tr_comp tr = CT t) ->
  Q9 (timed ++ tele) x.
Proof.
  intros Hj HQ8 Ht Htele. pose proof Hj as [[HJ _] _]. split; auto.
  unfold create_timed_transitions in Ht.
  destruct (create_timed_machine_transitions i x) as [a|] eqn:Ea; simpl in Ht; [|discriminate].
  destruct (create_timed_transport_transitions i x) as [b|] eqn:Eb; simpl in Ht; [|discriminate].
  inversion Ht; subst; clear Ht.
  destruct (timed_machines_comps i _ _ _ _ Ea) as [A1 _].
  split.
  - exists a, (b ++ tele). split; [rewrite app_assoc; reflexivity|]. split.
    + intros tr Hin. destruct (A1 _ Hin) as [[k [Hk _]] _]. eauto.
    + intros tr Hin. apply in_app_iff in Hin. destruct Hin as [Hin|Hin]; [eapply timed_transport_comp; eauto|auto].
  - intros tr Hin m j Hc Hn Hjb. apply in_app_iff in Hin. destruct Hin as [Hin|Hin]; [apply in_app_iff in Hin; destruct Hin as [Hin|Hin]|].
    + destruct (timed_machines_in i _ _ _ _ _ Ea Hin) as [k [ms [Hms Htm]]]. simpl in Htm.
      destruct (created_start_names_released_job _ _ _ _ Htm Hn) as [c [j0 [Hcfg [E Hrel]]]]. subst tr. simpl in Hc, Hjb.
      inversion Hc; subst k. inversion Hjb; subst j0. eauto.
    + exfalso. destruct (timed_transport_comp i x _ _ HJ Eb Hin) as [k Hk]. congruence.
    + exfalso. destruct (Htele _ Hin) as [t Ht]. congruence.
Qed.

Lemma tele_transports x poss tele :
  get_possible_transitions i x = Ok poss -> filter_teleport i x poss = Ok tele -> forall tr, In tr tele -> exists t, tr_comp tr = CT t.
Proof.
  intros Hp Hf tr Hin. pose proof (tele_tworking i _ _ _ Hp Hf) as Tw. rewrite Forall_forall in Tw. specialize (Tw _ Hin).
  destruct (offers_shape i _ _ _ Hp (tele_sub i _ _ _ Hf _ Hin)) as [[m [j ->]]|[t [j ->]]]; [discriminate|simpl; eauto].
Qed.

Lemma Q9_timed x timed poss tele : NO x -> J8 i x -> BI x -> create_timed_transitions i x = Ok timed ->
  get_possible_transitions i x = Ok poss -> filter_teleport i x poss = Ok tele -> Q9 (timed ++ tele) x.
Proof.
  intros N Hj Hb Ht Hp Hf. apply Q9_created; auto; [eapply Q8_timed; eauto|eapply tele_transports; eauto].
Qed.

Lemma Q9_timed0 x timed : NO x -> J8 i x -> BI x -> create_timed_transitions i x = Ok timed -> Q9 timed x.
Proof.
  intros N Hj Hb Ht. rewrite <- (app_nil_r timed). apply Q9_created; auto; [rewrite app_nil_r; eapply Q8_timed0; eauto|intros tr []].
Qed.

Lemma Q9_offer x o : J8 i x -> BI x -> create_timed_transitions i x = Ok [] -> OK9 i x o -> Q9 [o] x.
Proof.
  intros Hj Hb Hct Ho. pose proof Hj as [[[W [[F _] _]] _] _]. pose proof Ho as [H8 [full [Hfull Hin]]].
  split; [eapply Q8_offer; eauto|]. split.
  - destruct (offers_shape i _ _ _ Hfull Hin) as [[m [j E]]|[t [j E]]]; subst o.
    + exists [mkTr (CM m) (NM MSetup) (Some j)], []. split; [reflexivity|]. split; [intros tr [<-|[]]; simpl; eauto|intros tr []].
    + exists [], [mkTr (CT t) (NT TWorking) (Some j)]. split; [reflexivity|]. split; [intros tr []|intros tr [<-|[]]; simpl; eauto].
  - intros tr [<-|[]] m j Hc Hn Hjb.
    destruct (offers_shape i _ _ _ Hfull Hin) as [[m0 [j0 E]]|[t [j0 E]]]; subst o; simpl in *; [|discriminate].
    inversion Hc; subst m0. inversion Hjb; subst j0.
    destruct (offered_start_only_for_unordered_pre_buffer x full m j W F Hct Hfull Hin) as [ms [c [Hms [Hcfg [_ Hrel]]]]]. eauto.
Qed.

(* the AGV side as the event clause: a job that was taken was at the release position of the buffer it lay in *)
Lemma correct_at_release j l ty p :
  NoDup l -> index_of j l = Some p -> is_correct_position (Some p) (length l) ty = Ok true -> at_release_position j l ty = true.
Proof.
  intros ND Hp Hc. assert (Hin : In j l) by (eapply index_of_some_in; eauto).
  destruct l as [|h t]; [destruct Hin|]. unfold is_correct_position in Hc.
  change (Nat.eqb (length (h :: t)) 0) with false in Hc. cbv iota in Hc. unfold at_release_position.
  destruct ty.
  - destruct p; [|discriminate]. apply index_of_nth in Hp. simpl in Hp. inversion Hp. apply Nat.eqb_refl.
  - assert (Hb : (p =? length (h :: t) - 1) = true) by congruence. apply Nat.eqb_eq in Hb. apply index_of_nth in Hp.
    pose proof (nth_last (h :: t) h ltac:(discriminate)) as Hnl. rewrite <- Hb in Hnl.
    assert (E : last (h :: t) h = j) by congruence. rewrite E. apply Nat.eqb_refl.
  - apply mem_nat_In. exact Hin.
  - destruct p; [|discriminate]. apply index_of_nth in Hp. simpl in Hp. inversion Hp. apply Nat.eqb_refl.
Qed.

Lemma transit_release_ok x tr y :
  WFS i x -> AG x -> apply_transition sigma i x tr = Ok y -> ev_transit_release i x tr y = true.
Proof.
  intros W Ag Ha. unfold ev_transit_release. destruct (ekind_of x tr) eqn:Ek; try reflexivity.
  unfold ekind_of in Ek. destruct (tr_comp tr) as [m|t|n] eqn:Hc; [destruct (tr_new tr) as [s0|s0]; [|discriminate];
    destruct (nth_error (s_machs x) m) as [ms|]; [destruct (m_st ms), s0; discriminate|discriminate]| |destruct (tr_new tr); discriminate].
  destruct (tr_new tr) as [s0|s0] eqn:Hn; [discriminate|].
  destruct (nth_error (s_trans x) t) as [ts|] eqn:Hts; [|discriminate].
  assert (En : s0 = TTransit) by (destruct (t_st ts), s0; try discriminate; reflexivity). subst s0.
  destruct (apply_transport sigma i _ _ _ _ _ Hc Hts Ha) as [[_ [E0 _]]|[[_ [E0 _]]|[[Hph [_ C]]|[[_ [E0 _]]|[[_ [E0 _]]|[_ [E0 _]]]]]]];
    try (rewrite Hn in E0; discriminate).
  destruct (post_to_transit sigma i _ _ _ _ _ Hts C) as [j [jb [sb [sc [Hj [Hjb [Hsb [Hsc Hd]]]]]]]].
  rewrite Hj. unfold opt_b. rewrite Hjb, Hsb, Hsc.
  destruct Hd as [[p [Hp [Hcp Hww]]]|[dst [c [trv [Hcp [_ [_ [_ [[ts' [Hts' [_ [_ [Hst _]]]]] _]]]]]]]]].
  - (* kept waiting: the AGV's buffer stays empty *)
    unfold h_t_waiting_waiting in Hww. inv_all Hww. inversion Hww; subst y.
    rewrite set_trans_ctl_nth, Hts, Nat.eqb_refl. simpl.
    assert (He : b_store (t_buf ts) = []) by (eapply AG_phase_empty; eauto; destruct Hph as [-> | ->]; discriminate).
    rewrite He. reflexivity.
  - rewrite Hts'. apply orb_true_iff. right.
    destruct (ws_loc _ _ W _ _ Hjb) as [b0 [Hb0 Hinb]]. rewrite Hsb in Hb0. inversion Hb0; subst b0.
    destruct (index_of_in _ _ Hinb) as [p [Hp _]]. apply (correct_at_release j (b_store sb) (bc_type sc) p); auto.
    eapply ws_nodup; eauto.
Qed.

(* every IDLE -> SETUP in the micro-log takes the job at the release position of the pre-buffer, as it was in the micro-state
   before (the state the decision was taken in, for the first entry) *)
Fixpoint chain_release (x : state) (lg : mlog) : Prop :=
  match lg with
  | [] => True
  | (tr, y) :: r => ev_pre_release i x tr y = true /\ ev_transit_release i x tr y = true /\ chain_release y r
  end.

Lemma ev_transit_release_now x t tr y : ev_transit_release i (set_now x t) tr y = ev_transit_release i x tr y.
Proof. reflexivity. Qed.

Lemma ev_pre_release_now x t tr y : ev_pre_release i (set_now x t) tr y = ev_pre_release i x tr y.
Proof. reflexivity. Qed.

Lemma wit_release x tr y :
  Q9 (tr :: nil ++ nil) x \/ (exists R, Q9 (tr :: R) x) -> apply_transition sigma i x tr = Ok y -> ev_pre_release i x tr y = true.
Proof.
  intros HQ Ha. assert (HR : rel_fact x tr).
  { destruct HQ as [[_ [_ H]]|[R [_ [_ H]]]]; apply H; left; reflexivity. }
  unfold ev_pre_release. destruct (ekind_of x tr) eqn:Ek; try reflexivity.
  unfold ekind_of in Ek. destruct (tr_comp tr) as [m|t|n] eqn:Hc; [|destruct (tr_new tr) as [s0|s0]; [discriminate|];
    destruct (nth_error (s_trans x) t) as [ts|]; [destruct (t_st ts), s0; discriminate|discriminate]|destruct (tr_new tr); discriminate].
  destruct (tr_new tr) as [s0|s0] eqn:Hn; [|discriminate].
  destruct (nth_error (s_machs x) m) as [ms|] eqn:Hms; [|discriminate].
  destruct (m_st ms) eqn:Es, s0; try discriminate.
  destruct (apply_machine sigma i _ _ _ _ _ Hc Hms Ha) as [[_ [_ C]]|[[E _]|[[E _]|[E _]]]]; try congruence.
  destruct (idle_setup_guard sigma i _ _ _ _ _ C) as [j [Hj _]]. rewrite Hj.
  destruct (HR m j Hc Hn Hj) as [ms' [c [Hms' [Hcfg Hrel]]]]. rewrite Hms in Hms'. inversion Hms'; subst ms'.
  unfold opt_b. rewrite Hcfg. exact Hrel.
Qed.

Theorem run_release_order fuel x0 joker0 ta r m a r' m' lg :
  clock_b x0 = true -> wfs_b i x0 = true -> fresh2_b i x0 = true -> nodep_b x0 = true -> pre_ok_b x0 = true ->
  reach sigma i fuel x0 joker0 ta r m -> mw_step sigma i fuel r m a = MOk r' m' lg -> chain_release (r_x r) lg.
Proof.
  intros C W Fr Dn Po H Hm. pose proof (clock_idle_unclaimed _ C) as Iu. apply NO_iff_clock_b in C.
  pose proof (reach_micro_chain sigma i Hnn (J8 i) Q9 side2 (OK9 i) BI J9_apply (J8_now i) E9_end BI_now Q9_timed Q9_timed0 Q9_offer (offers_ok9 i)
                _ _ _ _ _ _ _ _ _ _ C (J8_init i _ W Fr Dn Iu Po) (BI_init _ Dn) H Hm) as Hch.
  clear -Hch. revert Hch. generalize (r_x r). induction lg as [|[tr y] rest IH]; intros x Hch; simpl in *; [exact I|].
  destruct Hch as [[x1 [[t Ex] [_ [Hj [[R HQ] [_ Ha]]]]]] Hrest]. subst x1.
  split; [rewrite <- (ev_pre_release_now x t); apply wit_release; eauto|].
  split; [|apply IH; exact Hrest].
  rewrite <- (ev_transit_release_now x t). destruct Hj as [[[W [[_ [Ag _]] _]] _] _]. apply transit_release_ok; auto.
Qed.

End R.
