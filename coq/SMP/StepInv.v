(* Lifting one-transition preservation through process_state_transitions, the time machines, the
   timed-transition loop (any fuel), state.step, the middleware and the environment. Generic in the
   invariant P, instantiated with WFS. *)
From Coq Require Import List ZArith Bool Arith Lia.
From JSL Require Import Base.Res Base.ListX SM.Types SM.Util SM.Handler SM.Step SM.Middleware SM.Inv
  SMP.ListLemmas SMP.Frame SMP.WF SMP.Preserve.
Import ListNotations.
Close Scope Z_scope.

Section Lift.
Variable sigma : oracle.
Variable i : inst.
Variable P : state -> Prop.
Hypothesis P_apply : forall x tr x', P x -> apply_transition sigma i x tr = Ok x' -> P x'.
Hypothesis P_now : forall x t, P x -> P (set_now x t).

Definition log_ok (lg : mlog) : Prop := forall tr y, In (tr, y) lg -> P y.

Lemma log_ok_nil : log_ok []. Proof. intros tr y []. Qed.
Lemma log_ok_snoc lg tr y : log_ok lg -> P y -> log_ok (lg ++ [(tr, y)]).
Proof.
  intros H Hy tr' y' Hin. apply in_app_iff in Hin. destruct Hin as [Hin|[E|[]]]; eauto.
  inversion E; subst; auto.
Qed.

Lemma process_P : forall trs x n lg x' n' lg',
  P x -> log_ok lg -> process_transitions sigma i trs x n lg = Ok (x', n', lg') -> P x' /\ log_ok lg'.
Proof.
  induction trs as [|tr r IH]; intros x n lg x' n' lg' Hx Hl H; simpl in H.
  - inversion H; subst; auto.
  - destruct (is_transition_valid x tr) as [v|e]; simpl in H; [|discriminate].
    destruct v.
    + destruct (apply_transition sigma i x tr) as [x1|e] eqn:Ea; simpl in H; [|discriminate].
      eapply IH; [| |eauto]; eauto. apply log_ok_snoc; eauto.
    + eapply IH; eauto.
Qed.

Lemma timed_loop_P fuel : forall x0 x timed lg x' offers lg',
  P x -> log_ok lg -> timed_loop sigma i fuel x0 x timed lg = SOk x' offers lg' -> P x' /\ log_ok lg'.
Proof.
  induction fuel as [|f IH]; intros x0 x timed lg x' offers lg' Hx Hl H; simpl in H.
  - destruct timed; [|discriminate].
    destruct (all_in_output i x).
    + destruct (max_done_end x) as [[z|]|]; inversion H; subst; auto.
    + destruct (get_possible_transitions i x); inversion H; subst; auto.
  - destruct timed as [|t ts].
    + destruct (all_in_output i x).
      * destruct (max_done_end x) as [[z|]|]; inversion H; subst; auto.
      * destruct (get_possible_transitions i x); inversion H; subst; auto.
    + destruct (process_transitions sigma i (t :: ts) x 0 lg) as [[[x1 nerr] lg1]|e] eqn:Ep; [|discriminate].
      destruct (Nat.ltb 0 nerr); [discriminate|].
      destruct (jump_to_event i x1) as [tt|e]; [|discriminate].
      destruct (create_timed_transitions i (set_now x1 tt)) as [timed'|e]; [|discriminate].
      destruct (process_P _ _ _ _ _ _ _ Hx Hl Ep) as [H1 H2].
      eapply IH; [| |eauto]; auto.
Qed.

Theorem step_P fuel x0 trs tm x' offers lg :
  P x0 -> step sigma i fuel x0 trs tm = SOk x' offers lg -> P x' /\ log_ok lg.
Proof.
  intros Hx H. unfold step in H.
  destruct (match trs with [] => Ok (x0, 0, []) | _ :: _ => process_transitions sigma i (sorted_by_transport trs) x0 0 [] end)
    as [[[x1 nerr] lg1]|e] eqn:Ep; [|discriminate].
  assert (H1 : P x1 /\ log_ok lg1).
  { destruct trs; [inversion Ep; subst; split; auto; apply log_ok_nil|].
    eapply process_P; [| |eauto]; auto. apply log_ok_nil. }
  destruct H1 as [H1 H2].
  destruct (Nat.ltb 0 nerr); [discriminate|].
  destruct (run_time_machine i tm x1) as [t|e]; [|discriminate].
  destruct (create_timed_transitions i (set_now x1 t)) as [timed|e]; [|discriminate].
  destruct (get_possible_transitions i (set_now x1 t)) as [poss|e]; [|discriminate].
  destruct (filter_teleport i (set_now x1 t) poss) as [tele|e]; [|discriminate].
  eapply timed_loop_P; [| |eauto]; auto.
Qed.

(* middleware *)
Theorem mw_step_P fuel r m a r' m' lg :
  P (r_x r) -> mw_step sigma i fuel r m a = MOk r' m' lg -> P (r_x r') /\ log_ok lg.
Proof.
  intros Hx H. unfold mw_step in H.
  destruct (r_offers r) as [|o1 rest]; [discriminate|].
  destruct (negb ((a =? 0)%Z || (a =? 1)%Z)); [discriminate|].
  destruct (a =? 0)%Z.
  - destruct rest as [|o2 rest].
    + destruct (step sigma i fuel (r_x r) [] TMForceJump) as [x' offers lg'| | |] eqn:Es; try discriminate.
      destruct (step_P _ _ _ _ _ _ _ Hx Es) as [H1 H2].
      destruct offers.
      * destruct (all_in_output i x'); [|discriminate]. inversion H; subst; auto.
      * inversion H; subst; auto.
    + inversion H; subst; simpl. split; auto. apply log_ok_nil.
  - destruct (step sigma i fuel (r_x r) [o1] TMJumpToEvent) as [x' offers lg'| | |] eqn:Es; try discriminate.
    destruct (step_P _ _ _ _ _ _ _ Hx Es) as [H1 H2]. inversion H; subst; auto.
Qed.

Theorem mw_reset_P fuel x0 joker0 ta m r m' lg :
  P x0 -> mw_reset sigma i fuel x0 joker0 ta m = MOk r m' lg -> P (r_x r) /\ log_ok lg.
Proof.
  intros Hx H. unfold mw_reset in H.
  destruct (step sigma i fuel x0 [] TMJumpToEvent) as [x' offers lg'| | |] eqn:Es; try discriminate.
  destruct (step_P _ _ _ _ _ _ _ Hx Es) as [H1 H2]. inversion H; subst; auto.
Qed.

(* every state the environment can reach from a state satisfying P, under ANY action sequence *)
Inductive reach (fuel : nat) (x0 : state) (joker0 : Z) (ta : bool) : result -> mw -> Prop :=
| reach_reset r m lg : mw_reset sigma i fuel x0 joker0 ta (mkMw joker0 0 0 ta) = MOk r m lg -> reach fuel x0 joker0 ta r m
| reach_step r m a r' m' lg : reach fuel x0 joker0 ta r m -> mw_step sigma i fuel r m a = MOk r' m' lg ->
                              reach fuel x0 joker0 ta r' m'.

Theorem reach_P fuel x0 joker0 ta r m : P x0 -> reach fuel x0 joker0 ta r m -> P (r_x r).
Proof.
  intros Hx H. induction H as [r m lg H|r m a r' m' lg H IH Hs].
  - destruct (mw_reset_P _ _ _ _ _ _ _ _ Hx H) as [A _]. exact A.
  - destruct (mw_step_P _ _ _ _ _ _ _ IH Hs) as [A _]. exact A.
Qed.

(* ... and every intermediate micro-state on the way *)
Theorem reach_micro_P fuel x0 joker0 ta r m a r' m' lg :
  P x0 -> reach fuel x0 joker0 ta r m -> mw_step sigma i fuel r m a = MOk r' m' lg -> log_ok lg.
Proof.
  intros Hx H Hs. pose proof (reach_P _ _ _ _ _ _ Hx H) as Hr.
  destruct (mw_step_P _ _ _ _ _ _ _ Hr Hs) as [_ B]. exact B.
Qed.

End Lift.

(* ---------- instantiation with the store invariants ---------- *)
Section WFSLift.
Variable sigma : oracle.
Variable i : inst.

Lemma WFS_set_now x t : WFS i x -> WFS i (set_now x t).
Proof. intros W. eapply WFS_same; eauto. apply same_set_now. Qed.

Theorem step_WFS fuel x0 trs tm x' offers lg :
  WFS i x0 -> step sigma i fuel x0 trs tm = SOk x' offers lg ->
  WFS i x' /\ (forall tr y, In (tr, y) lg -> WFS i y).
Proof. intros. eapply (step_P sigma i (WFS i)); eauto using apply_preserves_WFS, WFS_set_now. Qed.

Theorem reach_WFS fuel x0 joker0 ta r m :
  WFS i x0 -> reach sigma i fuel x0 joker0 ta r m -> WFS i (r_x r).
Proof. intros. eapply (reach_P sigma i (WFS i)); eauto using apply_preserves_WFS, WFS_set_now. Qed.

Theorem reach_micro_WFS fuel x0 joker0 ta r m a r' m' lg :
  WFS i x0 -> reach sigma i fuel x0 joker0 ta r m -> mw_step sigma i fuel r m a = MOk r' m' lg ->
  forall tr y, In (tr, y) lg -> WFS i y.
Proof. intros. eapply (reach_micro_P sigma i (WFS i)); eauto using apply_preserves_WFS, WFS_set_now. Qed.

End WFSLift.
