(* C13: for instances without stochastic elements the outcome does not depend on the oracle (seed). *)
From Coq Require Import List ZArith Bool Arith Lia.
From JSL Require Import Base.Res Base.ListX SM.Types SM.Util SM.Handler SM.Step SM.Middleware
  SMP.ListLemmas SMP.Preserve.
Import ListNotations.
Close Scope Z_scope.

Definition is_det (c : tcfg) : bool := match c with Det _ => true | Stoch _ => false end.

Definition no_stoch_b (i : inst) : bool :=
  forallb (forallb (fun oc => is_det (oc_dur oc))) (i_jobs i)
  && forallb (fun mc => forallb (fun e => is_det (snd e)) (mc_setup mc)
                        && forallb (fun o => is_det (og_freq o) && is_det (og_dur o)) (mc_out mc)) (i_machs i)
  && forallb (fun ac => forallb (fun o => is_det (og_freq o) && is_det (og_dur o)) (ac_out ac)) (i_trans i)
  && forallb (fun e => is_det (snd e)) (i_travel i).

Section NS.
Variables s1 s2 : oracle.
Variable i : inst.
Hypothesis Hns : no_stoch_b i = true.

Lemma ns_parts :
  forallb (forallb (fun oc => is_det (oc_dur oc))) (i_jobs i) = true
  /\ forallb (fun mc => forallb (fun e => is_det (snd e)) (mc_setup mc)
                        && forallb (fun o => is_det (og_freq o) && is_det (og_dur o)) (mc_out mc)) (i_machs i) = true
  /\ forallb (fun ac => forallb (fun o => is_det (og_freq o) && is_det (og_dur o)) (ac_out ac)) (i_trans i) = true
  /\ forallb (fun e => is_det (snd e)) (i_travel i) = true.
Proof. unfold no_stoch_b in Hns. rewrite !andb_true_iff in Hns. tauto. Qed.

Lemma tur_det sto c : is_det c = true -> tc_update_read s1 sto c = tc_update_read s2 sto c.
Proof. destruct c; simpl; [reflexivity|discriminate]. Qed.
Lemma tru_det sto c : is_det c = true -> tc_read_update s1 sto c = tc_read_update s2 sto c.
Proof. destruct c; simpl; [reflexivity|discriminate]. Qed.

Lemma sample_det now sto c o : is_det (og_freq c) && is_det (og_dur c) = true ->
  sample_outage s1 now sto c o = sample_outage s2 now sto c o.
Proof.
  intros H. apply andb_true_iff in H. destruct H as [Hf Hd]. unfold sample_outage.
  destruct o; auto. destruct (og_freq c); [|discriminate]. simpl.
  destruct (_ <=? _)%Z; auto. rewrite (tur_det sto _ Hd). reflexivity.
Qed.

Lemma outages_det now : forall cs sto os,
  forallb (fun o => is_det (og_freq o) && is_det (og_dur o)) cs = true ->
  new_outage_states s1 now sto cs os = new_outage_states s2 now sto cs os.
Proof.
  induction cs as [|c cs IH]; intros sto os H; simpl; auto.
  simpl in H. apply andb_true_iff in H. destruct H as [H1 H2].
  destruct os as [|o os]; auto. rewrite (sample_det now sto c o H1).
  destruct (sample_outage s2 now sto c o) as [[o' st]|]; simpl; auto. rewrite IH; auto.
Qed.

Lemma opcfg_det j k oc : get_opcfg i j k = Ok oc -> is_det (oc_dur oc) = true.
Proof.
  unfold get_opcfg. destruct (nth_error (i_jobs i) j) as [ops|] eqn:E; [|discriminate]. intros H.
  apply of_opt_ok in H. destruct ns_parts as [H1 _].
  pose proof (forallb_nth _ _ _ _ H1 E) as H2. simpl in H2. exact (forallb_nth _ _ _ _ H2 H).
Qed.

Lemma setup_lookup_in' st a b c : setup_lookup st a b = Some c -> exists k, In (k, c) st.
Proof.
  induction st as [|[[p q] c'] r IH]; simpl; [discriminate|].
  destruct (Nat.eqb p a && Nat.eqb q b); intros H.
  - inversion H; subst. eauto.
  - destruct (IH H) as [k Hk]. eauto.
Qed.

Lemma setup_det m mc a b c :
  nth_error (i_machs i) m = Some mc -> setup_lookup (mc_setup mc) a b = Some c -> is_det c = true.
Proof.
  intros Hm Hl. destruct ns_parts as [_ [H2 _]]. pose proof (forallb_nth _ _ _ _ H2 Hm) as H. simpl in H.
  apply andb_true_iff in H. destruct H as [H _]. rewrite forallb_forall in H.
  destruct (setup_lookup_in' _ _ _ _ Hl) as [k Hk]. apply H in Hk. auto.
Qed.

Lemma travel_lookup_in' tt a b c : travel_lookup tt a b = Some c -> exists k, In (k, c) tt.
Proof.
  induction tt as [|[[p q] c'] r IH]; simpl; [discriminate|].
  destruct (place_eqb p a && place_eqb q b); intros H.
  - inversion H; subst. eauto.
  - destruct (IH H) as [k Hk]. eauto.
Qed.

Lemma travel_det a b c : travel_lookup (i_travel i) a b = Some c -> is_det c = true.
Proof.
  intros Hl. destruct ns_parts as [_ [_ [_ H4]]]. rewrite forallb_forall in H4.
  destruct (travel_lookup_in' _ _ _ _ Hl) as [k Hk]. apply H4 in Hk. auto.
Qed.

Lemma mach_out_det m mc : nth_error (i_machs i) m = Some mc ->
  forallb (fun o => is_det (og_freq o) && is_det (og_dur o)) (mc_out mc) = true.
Proof.
  intros Hm. destruct ns_parts as [_ [H2 _]]. pose proof (forallb_nth _ _ _ _ H2 Hm) as H. simpl in H.
  apply andb_true_iff in H. tauto.
Qed.

Lemma trans_out_det t ac : nth_error (i_trans i) t = Some ac ->
  forallb (fun o => is_det (og_freq o) && is_det (og_dur o)) (ac_out ac) = true.
Proof. intros Hm. destruct ns_parts as [_ [_ [H3 _]]]. exact (forallb_nth _ _ _ _ H3 Hm). Qed.

Lemma travel_from_spec_det sto a b : travel_from_spec s1 i sto a b = travel_from_spec s2 i sto a b.
Proof.
  unfold travel_from_spec.
  destruct a, b; auto;
    (destruct (travel_lookup (i_travel i) _ _) as [c|] eqn:E; simpl; auto; apply tur_det; eapply travel_det; eauto).
Qed.

(* peel identical prefixes of two monadic computations *)
Ltac peel :=
  repeat match goal with
  | |- bind ?e _ = bind ?e _ => let E := fresh "E" in destruct e eqn:E; simpl; [|reflexivity]
  | |- (let '(_, _) := ?p in _) = (let '(_, _) := ?p in _) => destruct p
  | |- (if ?b then _ else _) = (if ?b then _ else _) => destruct b
  | |- match ?e with _ => _ end = match ?e with _ => _ end => destruct e
  end; try reflexivity.

Lemma h_m_idle_setup_det x tr m ms : h_m_idle_setup s1 i x tr m ms = h_m_idle_setup s2 i x tr m ms.
Proof.
  unfold h_m_idle_setup. peel.
  match goal with E1 : of_opt _ (nth_error (i_machs i) m) = Ok _, E2 : of_opt _ (setup_lookup _ _ _) = Ok _ |- _ =>
    apply of_opt_ok in E1, E2; rewrite (tru_det (s_sto x) _ (setup_det _ _ _ _ _ E1 E2)) end.
  peel.
Qed.

Lemma h_m_setup_working_det x tr m ms : h_m_setup_working s1 i x tr m ms = h_m_setup_working s2 i x tr m ms.
Proof.
  unfold h_m_setup_working. peel.
  match goal with E : get_opcfg _ _ _ = Ok _ |- _ => rewrite (tur_det (s_sto x) _ (opcfg_det _ _ _ E)) end.
  peel.
Qed.

Lemma h_m_working_outage_det x tr m ms : h_m_working_outage s1 i x tr m ms = h_m_working_outage s2 i x tr m ms.
Proof.
  unfold h_m_working_outage. peel.
  match goal with E : of_opt _ (nth_error (i_machs i) m) = Ok _ |- _ =>
    apply of_opt_ok in E; rewrite (outages_det (s_now x) _ (s_sto x) (m_out ms) (mach_out_det _ _ E)) end.
  peel.
Qed.

Lemma machine_det x tr m : handle_machine_transition s1 i x tr m = handle_machine_transition s2 i x tr m.
Proof.
  unfold handle_machine_transition. destruct (get_mach x m) as [ms|]; simpl; auto.
  destruct (m_st ms), (tr_new tr) as [[]|[]]; auto using h_m_idle_setup_det, h_m_setup_working_det, h_m_working_outage_det.
Qed.

Lemma h_t_to_transit_det x tr t ts : h_t_to_transit s1 i x tr t ts = h_t_to_transit s2 i x tr t ts.
Proof.
  unfold h_t_to_transit. peel. rewrite travel_from_spec_det. peel.
Qed.

Lemma h_t_transit_outage_det x tr t ts : h_t_transit_outage s1 i x tr t ts = h_t_transit_outage s2 i x tr t ts.
Proof.
  unfold h_t_transit_outage. peel.
  match goal with E : of_opt _ (nth_error (i_trans i) t) = Ok _ |- _ =>
    apply of_opt_ok in E; rewrite (outages_det (s_now x) _ (s_sto x) (t_out ts) (trans_out_det _ _ E)) end.
  peel.
Qed.

Lemma transport_det x tr t : handle_transport_transition s1 i x tr t = handle_transport_transition s2 i x tr t.
Proof.
  unfold handle_transport_transition. destruct (get_trans x t) as [ts|]; simpl; auto.
  destruct (of_opt EInvalidValue (nth_error (i_trans i) t)); simpl; auto.
  destruct (t_st ts), (tr_new tr) as [[]|[]]; auto using h_t_to_transit_det, h_t_transit_outage_det.
Qed.

Theorem apply_det x tr : apply_transition s1 i x tr = apply_transition s2 i x tr.
Proof.
  unfold apply_transition. destruct (tr_comp tr) as [m|t|n].
  - destruct (nth_error (s_machs x) m); auto using machine_det.
  - destruct (nth_error (s_trans x) t); auto using transport_det.
  - reflexivity.
Qed.

Lemma process_det : forall trs x n lg, process_transitions s1 i trs x n lg = process_transitions s2 i trs x n lg.
Proof.
  induction trs as [|tr r IH]; intros x n lg; cbn [process_transitions]; auto.
  destruct (is_transition_valid x tr) as [[|]|]; cbn [bind]; auto.
  rewrite apply_det. destruct (apply_transition s2 i x tr); cbn [bind]; auto.
Qed.

Lemma timed_loop_det fuel : forall x0 x timed lg, timed_loop s1 i fuel x0 x timed lg = timed_loop s2 i fuel x0 x timed lg.
Proof.
  induction fuel as [|f IH]; intros x0 x timed lg; cbn [timed_loop]; [reflexivity|].
  destruct timed; [reflexivity|]. rewrite process_det.
  destruct (process_transitions s2 i (t :: timed) x 0 lg) as [[[x1 nerr] lg1]|]; [|reflexivity].
  destruct (Nat.ltb 0 nerr); [reflexivity|]. destruct (jump_to_event i x1) as [tt|]; [|reflexivity].
  destruct (create_timed_transitions i (set_now x1 tt)); [|reflexivity]. apply IH.
Qed.

(* C13_seed_irrelevant *)
Theorem step_det fuel x0 trs tm : step s1 i fuel x0 trs tm = step s2 i fuel x0 trs tm.
Proof.
  unfold step.
  assert (E : (match trs with [] => Ok (x0, 0, []) | _ :: _ => process_transitions s1 i (sorted_by_transport trs) x0 0 [] end)
            = (match trs with [] => Ok (x0, 0, []) | _ :: _ => process_transitions s2 i (sorted_by_transport trs) x0 0 [] end)).
  { destruct trs; auto. apply process_det. }
  rewrite E. clear E.
  generalize (match trs with [] => Ok (x0, 0, []) | _ :: _ => process_transitions s2 i (sorted_by_transport trs) x0 0 [] end).
  intros r. destruct r as [[[x1 nerr] lg1]|]; [|reflexivity].
  destruct (Nat.ltb 0 nerr); [reflexivity|]. destruct (run_time_machine i tm x1) as [t|]; [|reflexivity].
  destruct (create_timed_transitions i (set_now x1 t)) as [timed|]; [|reflexivity].
  destruct (get_possible_transitions i (set_now x1 t)) as [poss|]; [|reflexivity].
  destruct (filter_teleport i (set_now x1 t) poss) as [tele|]; [|reflexivity].
  apply timed_loop_det.
Qed.

Theorem mw_step_det fuel r m a : mw_step s1 i fuel r m a = mw_step s2 i fuel r m a.
Proof.
  unfold mw_step. destruct (r_offers r) as [|tr rest]; [reflexivity|].
  destruct (negb ((a =? 0)%Z || (a =? 1)%Z)); [reflexivity|].
  destruct (a =? 0)%Z.
  - destruct rest; [|reflexivity]. rewrite step_det. reflexivity.
  - rewrite step_det. reflexivity.
Qed.

Theorem env_step_det fuel e a : env_step s1 i fuel e a = env_step s2 i fuel e a.
Proof. unfold env_step. rewrite mw_step_det. reflexivity. Qed.

End NS.
