(* Non-termination of the timed-transition loop as a theorem: if one pass of the loop returns to the
   very same state with the very same pending transitions (a lasso), state.step runs out of EVERY fuel.
   Used for the refutation witness of C05/C11 (an AGV cycling WAITINGPICKUP -> WAITINGPICKUP at a constant
   clock in front of an ordered standalone buffer). *)
From Coq Require Import List ZArith Bool Arith Lia.
From JSL Require Import Base.Res Base.ListX SM.Types SM.Util SM.Handler SM.Step.
Import ListNotations.
Close Scope Z_scope.

Section Hang.
Variable sigma : oracle.
Variable i : inst.

(* one pass of the loop body *)
Definition loop_pass (x : state) (timed : list transition) (lg : mlog) : option (state * list transition * mlog) :=
  match timed with
  | [] => None
  | _ =>
      match process_transitions sigma i timed x 0 lg with
      | Ok (x1, nerr, lg1) =>
          if Nat.ltb 0 nerr then None
          else match jump_to_event i x1 with
               | Ok t => match create_timed_transitions i (set_now x1 t) with
                         | Ok timed' => Some (set_now x1 t, timed', lg1)
                         | Err _ => None end
               | Err _ => None end
      | Err _ => None
      end
  end.

Lemma loop_pass_step f x0 x timed lg x' timed' lg' :
  loop_pass x timed lg = Some (x', timed', lg') ->
  timed_loop sigma i (S f) x0 x timed lg = timed_loop sigma i f x0 x' timed' lg'.
Proof.
  unfold loop_pass. destruct timed as [|t ts]; [discriminate|]. intros H.
  cbn [timed_loop].
  destruct (process_transitions sigma i (t :: ts) x 0 lg) as [[[x1 nerr] lg1]|e]; [|discriminate].
  destruct (Nat.ltb 0 nerr); [discriminate|].
  destruct (jump_to_event i x1) as [tt|e]; [|discriminate].
  destruct (create_timed_transitions i (set_now x1 tt)) as [tm'|e]; [|discriminate].
  inversion H; subst. reflexivity.
Qed.

Lemma loop_zero x0 x timed lg : timed <> [] -> timed_loop sigma i 0 x0 x timed lg = SOutOfFuel.
Proof. destruct timed; [congruence|reflexivity]. Qed.

(* the log only accumulates: the state part of a pass does not depend on it *)
Lemma process_log_indep : forall trs x n lg x' n' lg',
  process_transitions sigma i trs x n lg = Ok (x', n', lg') ->
  forall lg2, exists d, process_transitions sigma i trs x n lg2 = Ok (x', n', lg2 ++ d).
Proof.
  induction trs as [|tr r IH]; intros x n lg x' n' lg' H lg2; simpl in *.
  - inversion H; subst. exists []. rewrite app_nil_r. reflexivity.
  - destruct (is_transition_valid x tr) as [v|e]; simpl in *; [|discriminate]. destruct v.
    + destruct (apply_transition sigma i x tr) as [x1|e]; simpl in *; [|discriminate].
      destruct (IH _ _ _ _ _ _ H (lg2 ++ [(tr, x1)])) as [d Hd]. exists ((tr, x1) :: d).
      rewrite Hd, <- app_assoc. reflexivity.
    + eauto.
Qed.

Lemma loop_pass_log_indep x timed lg x' timed' lg' :
  loop_pass x timed lg = Some (x', timed', lg') -> forall lg2, exists lg2', loop_pass x timed lg2 = Some (x', timed', lg2').
Proof.
  unfold loop_pass. destruct timed as [|t ts]; [discriminate|]. intros H lg2.
  destruct (process_transitions sigma i (t :: ts) x 0 lg) as [[[x1 nerr] lg1]|e] eqn:Ep; [|discriminate].
  destruct (process_log_indep _ _ _ _ _ _ _ Ep lg2) as [d Hd]. rewrite Hd.
  destruct (Nat.ltb 0 nerr); [discriminate|].
  destruct (jump_to_event i x1) as [tt|e]; [|discriminate].
  destruct (create_timed_transitions i (set_now x1 tt)) as [tm'|e]; [|discriminate].
  inversion H; subst. eauto.
Qed.

(* the lasso: a pass that returns to the same state and pending list *)
Theorem lasso_out_of_fuel x timed lg0 lg1 :
  timed <> [] -> loop_pass x timed lg0 = Some (x, timed, lg1) ->
  forall fuel x0 lg, timed_loop sigma i fuel x0 x timed lg = SOutOfFuel.
Proof.
  intros Hne Hp fuel. induction fuel as [|f IH]; intros x0 lg.
  - apply loop_zero; auto.
  - destruct (loop_pass_log_indep _ _ _ _ _ _ Hp lg) as [lg' H']. rewrite (loop_pass_step _ _ _ _ _ _ _ _ H'). apply IH.
Qed.

(* n passes first (the stem of the lasso) *)
Fixpoint passes (n : nat) (x : state) (timed : list transition) (lg : mlog) : option (state * list transition * mlog) :=
  match n with
  | O => Some (x, timed, lg)
  | S k => match loop_pass x timed lg with
           | Some (x', timed', lg') => passes k x' timed' lg'
           | None => None end
  end.

Theorem stem_and_lasso n x timed lg xs ts lgs lg1 :
  passes n x timed lg = Some (xs, ts, lgs) -> ts <> [] -> loop_pass xs ts lgs = Some (xs, ts, lg1) ->
  forall fuel x0, timed_loop sigma i fuel x0 x timed lg = SOutOfFuel.
Proof.
  revert x timed lg. induction n as [|k IH]; intros x timed lg Hp Hne Hl fuel x0; simpl in Hp.
  - inversion Hp; subst. eapply lasso_out_of_fuel; eauto.
  - destruct (loop_pass x timed lg) as [[[x' timed'] lg']|] eqn:E; [|discriminate].
    destruct fuel as [|f].
    + apply loop_zero. unfold loop_pass in E. destruct timed; [discriminate|congruence].
    + rewrite (loop_pass_step _ _ _ _ _ _ _ _ E). eapply IH; eauto.
Qed.

(* state.step up to the loop *)
Definition step_prefix (x0 : state) (trs : list transition) (tm : tmachine) : option (state * list transition * mlog) :=
  match (match trs with [] => Ok (x0, 0, []) | _ :: _ => process_transitions sigma i (sorted_by_transport trs) x0 0 [] end) with
  | Ok (x1, nerr, lg1) =>
      if Nat.ltb 0 nerr then None
      else match run_time_machine i tm x1 with
           | Ok t => match create_timed_transitions i (set_now x1 t) with
                     | Ok timed => match get_possible_transitions i (set_now x1 t) with
                                   | Ok poss => match filter_teleport i (set_now x1 t) poss with
                                                | Ok tele => Some (set_now x1 t, timed ++ tele, lg1)
                                                | Err _ => None end
                                   | Err _ => None end
                     | Err _ => None end
           | Err _ => None end
  | Err _ => None
  end.

Lemma step_prefix_eq fuel x0 trs tm x2 timed lg1 :
  step_prefix x0 trs tm = Some (x2, timed, lg1) -> step sigma i fuel x0 trs tm = timed_loop sigma i fuel x0 x2 timed lg1.
Proof.
  unfold step_prefix, step. intros H.
  destruct (match trs with [] => Ok (x0, 0, []) | _ :: _ => process_transitions sigma i (sorted_by_transport trs) x0 0 [] end)
    as [[[x1 nerr] lg]|e]; [|discriminate].
  destruct (Nat.ltb 0 nerr); [discriminate|].
  destruct (run_time_machine i tm x1) as [t|e]; [|discriminate].
  destruct (create_timed_transitions i (set_now x1 t)) as [tmd|e]; [|discriminate].
  destruct (get_possible_transitions i (set_now x1 t)) as [poss|e]; [|discriminate].
  destruct (filter_teleport i (set_now x1 t) poss) as [tele|e]; [|discriminate].
  inversion H; subst. reflexivity.
Qed.

End Hang.
