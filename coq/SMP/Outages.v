(* C10 over whole runs: outside the OUTAGE phase every outage record of a component is inactive, and every
   active record has a non-negative length (outages_b, outage_nonneg_b) - preserved by every applied transition
   (given non-negative configured times and the clock invariant), hence in all reachable states and micro-states. *)
From Coq Require Import List ZArith Bool Arith Lia.
From JSL Require Import Base.Res Base.ListX SM.Types SM.Util SM.Handler SM.Step SM.Middleware SM.Inv
  SMP.ListLemmas SMP.Frame SMP.WF SMP.Preserve SMP.StepInv SMP.Clock SMP.ClockStep SMP.ClockMain SMP.Post SMP.PostApply SMP.LiftSide.
Import ListNotations.
Close Scope Z_scope.

Definition okrec (o : oact) : Prop :=
  match o with OActive (Time s) (Time e) => (s <= e)%Z | OActive _ _ => False | OInactive _ => True end.
Definition inactive (o : oact) : Prop := match o with OInactive _ => True | OActive _ _ => False end.

Definition oview_m (x : state) (m : nat) : option (mstate * list oact) :=
  option_map (fun ms => (m_st ms, m_out ms)) (nth_error (s_machs x) m).
Definition oview_t (x : state) (t : nat) : option (tstate * list oact) :=
  option_map (fun ts => (t_st ts, t_out ts)) (nth_error (s_trans x) t).

Definition m_ok (p : mstate * list oact) : Prop := Forall okrec (snd p) /\ (fst p <> MOutage -> Forall inactive (snd p)).
Definition t_ok (p : tstate * list oact) : Prop := Forall okrec (snd p) /\ (fst p <> TOutage -> Forall inactive (snd p)).

Definition OUT (x : state) : Prop :=
  (forall m p, oview_m x m = Some p -> m_ok p) /\ (forall t p, oview_t x t = Some p -> t_ok p).

Lemma fresh_okrec now o : oact_fresh now o -> okrec o.
Proof. destruct o as [[|s] [|e]|l]; simpl; tauto. Qed.

Lemma released_inactive l : Forall inactive (map release_outage l).
Proof. induction l as [|o l IH]; simpl; constructor; auto. destruct o; simpl; auto. Qed.

Lemma inactive_okrec l : Forall inactive l -> Forall okrec l.
Proof. intros H. induction H as [|o l Ho H IH]; constructor; auto. destruct o; simpl in *; tauto. Qed.

(* ---------- frames ---------- *)
Lemma oview_m_put_job x j jb m : oview_m (put_job x j jb) m = oview_m x m. Proof. reflexivity. Qed.
Lemma oview_t_put_job x j jb t : oview_t (put_job x j jb) t = oview_t x t. Proof. reflexivity. Qed.
Lemma oview_m_with_sto x s m : oview_m (with_sto x s) m = oview_m x m. Proof. reflexivity. Qed.
Lemma oview_t_with_sto x s t : oview_t (with_sto x s) t = oview_t x t. Proof. reflexivity. Qed.

Lemma oview_m_set_mach_ctl x m st oc tool outs m' :
  oview_m (set_mach_ctl x m st oc tool outs) m' =
  (if Nat.eqb m' m then option_map (fun _ => (st, outs)) (oview_m x m') else oview_m x m').
Proof.
  unfold oview_m. rewrite set_mach_ctl_nth, (Nat.eqb_sym m' m).
  destruct (nth_error (s_machs x) m') as [ms|]; [|destruct (Nat.eqb m m'); reflexivity].
  destruct (Nat.eqb m m'); reflexivity.
Qed.
Lemma oview_t_set_mach_ctl x m st oc tool outs t : oview_t (set_mach_ctl x m st oc tool outs) t = oview_t x t.
Proof. unfold oview_t. destruct (set_mach_ctl_other x m st oc tool outs) as [_ [_ [H _]]]. rewrite H. reflexivity. Qed.

Lemma oview_t_set_trans_ctl x t st oc loc jb outs t' :
  oview_t (set_trans_ctl x t st oc loc jb outs) t' =
  (if Nat.eqb t' t then option_map (fun _ => (st, outs)) (oview_t x t') else oview_t x t').
Proof.
  unfold oview_t. rewrite set_trans_ctl_nth, (Nat.eqb_sym t' t).
  destruct (nth_error (s_trans x) t') as [ts|]; [|destruct (Nat.eqb t t'); reflexivity].
  destruct (Nat.eqb t t'); reflexivity.
Qed.
Lemma oview_m_set_trans_ctl x t st oc loc jb outs m : oview_m (set_trans_ctl x t st oc loc jb outs) m = oview_m x m.
Proof. unfold oview_m. destruct (set_trans_ctl_other x t st oc loc jb outs) as [_ [_ [H _]]]. rewrite H. reflexivity. Qed.

Section Moved.
Variable i : inst.
Lemma oview_m_moved x x1 j A B m : moved i x x1 j A B -> oview_m x1 m = oview_m x m.
Proof.
  intros M. unfold oview_m. destruct (nth_error (s_machs x1) m) as [ms1|] eqn:E1.
  - destruct (mv_machs _ _ _ _ _ _ M _ _ E1) as [ms0 [E0 [C1 [_ [_ C4]]]]]. rewrite E0. simpl. congruence.
  - apply nth_error_None in E1. rewrite (mv_len_m _ _ _ _ _ _ M) in E1. apply nth_error_None in E1. rewrite E1. reflexivity.
Qed.
Lemma oview_t_moved x x1 j A B t : moved i x x1 j A B -> oview_t x1 t = oview_t x t.
Proof.
  intros M. unfold oview_t. destruct (nth_error (s_trans x1) t) as [ts1|] eqn:E1.
  - destruct (mv_trans _ _ _ _ _ _ M _ _ E1) as [ts0 [E0 [C1 [_ [_ [_ C5]]]]]]. rewrite E0. simpl. congruence.
  - apply nth_error_None in E1. rewrite (mv_len_t _ _ _ _ _ _ M) in E1. apply nth_error_None in E1. rewrite E1. reflexivity.
Qed.
End Moved.

(* one machine / one AGV gets a new (phase, records) pair, everything else keeps its own *)
Lemma OUT_machine x x' m p :
  OUT x -> (forall m', oview_m x' m' = if Nat.eqb m' m then option_map (fun _ => p) (oview_m x m') else oview_m x m') ->
  (forall t, oview_t x' t = oview_t x t) -> m_ok p -> OUT x'.
Proof.
  intros [A B] Hm Ht Hp. split.
  - intros m' q Hq. rewrite Hm in Hq. destruct (Nat.eqb m' m); [|eauto].
    destruct (oview_m x m'); simpl in Hq; inversion Hq; subst; auto.
  - intros t q Hq. rewrite Ht in Hq. eauto.
Qed.

Lemma OUT_transport x x' t p :
  OUT x -> (forall t', oview_t x' t' = if Nat.eqb t' t then option_map (fun _ => p) (oview_t x t') else oview_t x t') ->
  (forall m, oview_m x' m = oview_m x m) -> t_ok p -> OUT x'.
Proof.
  intros [A B] Ht Hm Hp. split.
  - intros m q Hq. rewrite Hm in Hq. eauto.
  - intros t' q Hq. rewrite Ht in Hq. destruct (Nat.eqb t' t); [|eauto].
    destruct (oview_t x t'); simpl in Hq; inversion Hq; subst; auto.
Qed.

Section Apply.
Variable sigma : oracle.
Variable i : inst.
Hypothesis Hnn : inst_nonneg_b i = true.

Lemma m_view_of x m ms : nth_error (s_machs x) m = Some ms -> oview_m x m = Some (m_st ms, m_out ms).
Proof. intros H. unfold oview_m. rewrite H. reflexivity. Qed.
Lemma t_view_of x t ts : nth_error (s_trans x) t = Some ts -> oview_t x t = Some (t_st ts, t_out ts).
Proof. intros H. unfold oview_t. rewrite H. reflexivity. Qed.

(* keeping the records while moving between phases other than OUTAGE *)
Lemma keep_m x m ms st : OUT x -> nth_error (s_machs x) m = Some ms -> m_st ms <> MOutage -> m_ok (st, m_out ms).
Proof.
  intros [A _] Hms Hs. destruct (A _ _ (m_view_of _ _ _ Hms)) as [Q1 Q2]. simpl in *. split; auto.
Qed.
Lemma keep_t x t ts st : OUT x -> nth_error (s_trans x) t = Some ts -> t_st ts <> TOutage -> t_ok (st, t_out ts).
Proof.
  intros [_ B] Hts Hs. destruct (B _ _ (t_view_of _ _ _ Hts)) as [Q1 Q2]. simpl in *. split; auto.
Qed.

Theorem apply_preserves_OUT x tr x' : NO x -> OUT x -> apply_transition sigma i x tr = Ok x' -> OUT x'.
Proof.
  intros N O H.
  destruct (tr_comp tr) as [m|t|n] eqn:Hc.
  - destruct (nth_error (s_machs x) m) as [ms|] eqn:Hms; [|unfold apply_transition in H; rewrite Hc, Hms in H; discriminate].
    destruct (apply_machine sigma i _ _ _ _ _ Hc Hms H) as [[S [_ C]]|[[S [_ C]]|[[S [_ C]]|[S [_ C]]]]].
    + unfold h_m_idle_setup in C. inv_all C. inversion C; subst; clear C.
      assert (Hne : BPre m <> BIn m) by congruence.
      match goal with E' : move_job _ _ _ _ _ = Ok ?y |- _ => pose proof (move_job_moved i _ _ _ _ _ Hne E') as M end.
      eapply (OUT_machine x _ m (MSetup, m_out ms)); eauto.
      * intros m'. rewrite oview_m_with_sto, oview_m_set_mach_ctl, (oview_m_moved i _ _ _ _ _ m' M). reflexivity.
      * intros t. rewrite oview_t_with_sto, oview_t_set_mach_ctl, (oview_t_moved i _ _ _ _ _ t M). reflexivity.
      * eapply keep_m; eauto. congruence.
    + unfold h_m_setup_working in C. inv_all C. inversion C; subst; clear C.
      eapply (OUT_machine x _ m (MWorking, m_out ms)); eauto.
      * intros m'. rewrite oview_m_with_sto, oview_m_set_mach_ctl. reflexivity.
      * intros t. rewrite oview_t_with_sto, oview_t_set_mach_ctl. reflexivity.
      * eapply keep_m; eauto. congruence.
    + unfold h_m_working_outage in C. inv_all C. inversion C; subst; clear C.
      apply of_opt_ok in E.
      match goal with E' : new_outage_states _ _ _ _ _ = Ok _ |- _ =>
        destruct (new_outage_states_ok sigma (s_now x) _ _ _ _ _ (no_sto _ N) (mach_out_nonneg i Hnn _ _ E) E') as [Hf _] end.
      eapply (OUT_machine x _ m (MOutage, l)); eauto.
      * intros m'. rewrite oview_m_with_sto, oview_m_set_mach_ctl. reflexivity.
      * intros t. rewrite oview_t_with_sto, oview_t_set_mach_ctl. reflexivity.
      * split; simpl; [|congruence]. eapply Forall_impl; [|exact Hf]. intros o. apply fresh_okrec.
    + unfold h_m_outage_idle in C. inv_all C. inversion C; subst; clear C.
      assert (Hne : BIn m <> BPost m) by congruence.
      match goal with E' : move_job _ _ _ _ _ = Ok ?y |- _ => pose proof (move_job_moved i _ _ _ _ _ Hne E') as M end.
      eapply (OUT_machine x _ m (MIdle, map release_outage (m_out ms))); eauto.
      * intros m'. rewrite oview_m_set_mach_ctl, (oview_m_moved i _ _ _ _ _ m' M). reflexivity.
      * intros t. rewrite oview_t_set_mach_ctl, (oview_t_moved i _ _ _ _ _ t M). reflexivity.
      * split; simpl; [apply inactive_okrec|intros _]; apply released_inactive.
  - destruct (nth_error (s_trans x) t) as [ts|] eqn:Hts; [|unfold apply_transition in H; rewrite Hc, Hts in H; discriminate].
    destruct (apply_transport sigma i _ _ _ _ _ Hc Hts H) as [[S [_ C]]|[[S [_ C]]|[[S [_ C]]|[[S [_ C]]|[[S [_ C]]|[S [_ C]]]]]]].
    + unfold h_t_idle_working in C. inv_all C. inversion C; subst.
      eapply (OUT_transport x _ t (TPickup, t_out ts)); eauto.
      * intros t'. rewrite oview_t_set_trans_ctl. reflexivity.
      * intros m. apply oview_m_set_trans_ctl.
      * eapply keep_t; eauto. congruence.
    + unfold h_t_pickup_waiting in C. inv_all C. inversion C; subst.
      eapply (OUT_transport x _ t (TWaiting, t_out ts)); eauto.
      * intros t'. rewrite oview_t_set_trans_ctl. reflexivity.
      * intros m. apply oview_m_set_trans_ctl.
      * eapply keep_t; eauto. congruence.
    + unfold h_t_to_transit in C. inv1 C. inv1 C. inv1 C. inv1 C. inv1 C. inv1 C.
      * unfold h_t_waiting_waiting in C. inv_all C. inversion C; subst.
        eapply (OUT_transport x _ t (TWaiting, t_out ts)); eauto.
        -- intros t'. rewrite oview_t_set_trans_ctl. reflexivity.
        -- intros m. apply oview_m_set_trans_ctl.
        -- eapply keep_t; eauto. destruct S; congruence.
      * inv_all C. inversion C; subst; clear C.
        match goal with E' : move_job _ _ _ ?A0 (BAgv t) = Ok ?y |- _ =>
          assert (Hne : A0 <> BAgv t) by (intros Eq; rewrite Eq in *; discriminate);
          pose proof (move_job_moved i _ _ _ _ _ Hne E') as M end.
        eapply (OUT_transport x _ t (TTransit, t_out ts)); eauto.
        -- intros t'. rewrite oview_t_with_sto, oview_t_set_trans_ctl, (oview_t_moved i _ _ _ _ _ t' M). reflexivity.
        -- intros m. rewrite oview_m_with_sto, oview_m_set_trans_ctl. apply (oview_m_moved i _ _ _ _ _ m M).
        -- eapply keep_t; eauto. destruct S; congruence.
    + unfold h_t_transit_outage in C. inv_all C. inversion C; subst; clear C.
      apply of_opt_ok in E2.
      match goal with E' : move_job _ _ _ (BAgv t) ?B = Ok ?y |- _ => rename E' into Emv; rename B into B0 end.
      assert (Hne : BAgv t <> B0).
      { match goal with E' : match ?dst with PM _ => _ | PB _ => _ | PT _ => _ end = Ok B0 |- _ =>
          destruct dst; inv_all E'; inversion E'; subst; congruence end. }
      pose proof (move_job_moved i _ _ _ _ _ Hne Emv) as M.
      match goal with E' : new_outage_states _ _ _ _ _ = Ok _ |- _ =>
        destruct (new_outage_states_ok sigma (s_now x) _ _ _ _ _ (no_sto _ N) (trans_out_nonneg i Hnn _ _ E2) E') as [Hf _] end.
      eapply (OUT_transport x _ t (TOutage, l)); eauto.
      * intros t'. rewrite oview_t_with_sto, oview_t_set_trans_ctl, (oview_t_moved i _ _ _ _ _ t' M). reflexivity.
      * intros m. rewrite oview_m_with_sto, oview_m_set_trans_ctl. apply (oview_m_moved i _ _ _ _ _ m M).
      * split; simpl; [|congruence]. eapply Forall_impl; [|exact Hf]. intros o. apply fresh_okrec.
    + unfold h_t_outage_idle in C. inversion C; subst.
      eapply (OUT_transport x _ t (TIdle, map release_outage (t_out ts))); eauto.
      * intros t'. rewrite oview_t_set_trans_ctl. reflexivity.
      * intros m. apply oview_m_set_trans_ctl.
      * split; simpl; [apply inactive_okrec|intros _]; apply released_inactive.
    + unfold h_t_waiting_waiting in C. inv_all C. inversion C; subst.
      eapply (OUT_transport x _ t (TWaiting, t_out ts)); eauto.
      * intros t'. rewrite oview_t_set_trans_ctl. reflexivity.
      * intros m. apply oview_m_set_trans_ctl.
      * eapply keep_t; eauto. congruence.
  - unfold apply_transition in H. rewrite Hc in H. destruct (nth_error (s_bufs x) n); discriminate.
Qed.

Lemma OUT_set_now x t : OUT x -> OUT (set_now x t).
Proof. intros [A B]. split; [exact A|exact B]. Qed.

(* ---------- reflection ---------- *)
Lemma okrec_iff o : (match o with OActive s e => time_leb s e | _ => true end) = true <-> okrec o.
Proof.
  destruct o as [[|s] [|e]|l]; simpl; split; intros; try discriminate; try tauto; try (apply Z.leb_le; auto).
Qed.
Lemma inactive_iff o : oact_inactive o = true <-> inactive o.
Proof. destruct o; simpl; split; intros; try discriminate; tauto. Qed.

Lemma Forall_forallb {A} (p : A -> bool) (P : A -> Prop) l : (forall a, p a = true <-> P a) -> (forallb p l = true <-> Forall P l).
Proof.
  intros H. rewrite forallb_forall, Forall_forall. split; intros Q a Ha; apply H; auto.
Qed.

Theorem OUT_iff x : outages_b x && outage_nonneg_b x = true <-> OUT x.
Proof.
  unfold outages_b, outage_nonneg_b, OUT. rewrite !andb_true_iff, !forallb_forall. split.
  - intros [[A1 A2] [B1 B2]]. split.
    + intros m p Hp. unfold oview_m in Hp. destruct (nth_error (s_machs x) m) as [ms|] eqn:E; [|discriminate].
      simpl in Hp. inversion Hp; subst p. pose proof (nth_error_In _ _ E) as Hin. split; simpl.
      * apply (Forall_forallb _ okrec _ okrec_iff). apply B1; auto.
      * intros Hs. apply (Forall_forallb _ inactive _ inactive_iff). specialize (A1 _ Hin). destruct (m_st ms); auto; congruence.
    + intros t p Hp. unfold oview_t in Hp. destruct (nth_error (s_trans x) t) as [ts|] eqn:E; [|discriminate].
      simpl in Hp. inversion Hp; subst p. pose proof (nth_error_In _ _ E) as Hin. split; simpl.
      * apply (Forall_forallb _ okrec _ okrec_iff). apply B2; auto.
      * intros Hs. apply (Forall_forallb _ inactive _ inactive_iff). specialize (A2 _ Hin). destruct (t_st ts); auto; congruence.
  - intros [A B]. split; split.
    + intros ms Hin. apply In_nth_error in Hin. destruct Hin as [m Hm]. destruct (A _ _ (m_view_of _ _ _ Hm)) as [_ Q]. simpl in Q.
      destruct (m_st ms); try (apply (Forall_forallb _ inactive _ inactive_iff); apply Q; discriminate). reflexivity.
    + intros ts Hin. apply In_nth_error in Hin. destruct Hin as [t Ht]. destruct (B _ _ (t_view_of _ _ _ Ht)) as [_ Q]. simpl in Q.
      destruct (t_st ts); try (apply (Forall_forallb _ inactive _ inactive_iff); apply Q; discriminate). reflexivity.
    + intros ms Hin. apply In_nth_error in Hin. destruct Hin as [m Hm]. destruct (A _ _ (m_view_of _ _ _ Hm)) as [Q _]. simpl in Q.
      apply (Forall_forallb _ okrec _ okrec_iff). exact Q.
    + intros ts Hin. apply In_nth_error in Hin. destruct Hin as [t Ht]. destruct (B _ _ (t_view_of _ _ _ Ht)) as [Q _]. simpl in Q.
      apply (Forall_forallb _ okrec _ okrec_iff). exact Q.
Qed.

(* ---------- all reachable states (no side condition: LiftSide with a trivial side) ---------- *)
Definition no_side (tr : transition) (y : state) : bool := true.

Lemma OUT_apply_S x tr x' :
  NO x -> OUT x -> is_transition_valid x tr = Ok true -> apply_transition sigma i x tr = Ok x' -> no_side tr x' = true -> OUT x'.
Proof. intros. eapply apply_preserves_OUT; eauto. Qed.
Lemma OUT_now_S x t : OUT x -> (s_now x <= t)%Z -> OUT (set_now x t).
Proof. intros. apply OUT_set_now; auto. Qed.

Lemma sides_trivial lg : sidesG no_side lg.
Proof. intros tr y _. reflexivity. Qed.

Lemma reach_reachG fuel x0 joker0 ta r m : reach sigma i fuel x0 joker0 ta r m -> reachG sigma i no_side fuel x0 joker0 ta r m.
Proof.
  intros H. induction H as [r m lg H|r m a r' m' lg H IH Hs].
  - eapply rg_reset; eauto. apply sides_trivial.
  - eapply rg_step; eauto. apply sides_trivial.
Qed.

Theorem reach_outages fuel x0 joker0 ta r m :
  clock_b x0 = true -> outages_b x0 && outage_nonneg_b x0 = true -> reach sigma i fuel x0 joker0 ta r m ->
  outages_b (r_x r) && outage_nonneg_b (r_x r) = true.
Proof.
  intros C O H. apply NO_iff_clock_b in C. apply OUT_iff in O. apply reach_reachG in H.
  destruct (reachG_inv sigma i Hnn OUT no_side OUT_apply_S OUT_now_S _ _ _ _ _ _ C O H) as [xq [_ [Oq [E|[_ [z E]]]]]]; rewrite E.
  - apply OUT_iff; auto.
  - apply OUT_iff. apply OUT_set_now; auto.
Qed.

Theorem reach_micro_outages fuel x0 joker0 ta r m a r' m' lg :
  clock_b x0 = true -> outages_b x0 && outage_nonneg_b x0 = true -> reach sigma i fuel x0 joker0 ta r m ->
  mw_step sigma i fuel r m a = MOk r' m' lg ->
  forall tr y, In (tr, y) lg -> outages_b y && outage_nonneg_b y = true.
Proof.
  intros C O H Hm tr y Hin. apply NO_iff_clock_b in C. apply OUT_iff in O. apply reach_reachG in H.
  destruct (reachG_inv sigma i Hnn OUT no_side OUT_apply_S OUT_now_S _ _ _ _ _ _ C O H) as [xq [Nq [Oq [E|[E _]]]]].
  - subst xq. destruct (mw_step_PS sigma i Hnn OUT no_side OUT_apply_S OUT_now_S _ _ _ _ _ _ _ Nq Oq Hm (sides_trivial lg)) as [L _].
    apply OUT_iff. apply (L _ _ Hin).
  - unfold mw_step in Hm. rewrite E in Hm. discriminate.
Qed.

End Apply.
