(* C18: "declining the last remaining offer ... strictly advances time". At a decision point nothing is due (the simulator would have applied it), so
   every pending completion or arrival lies strictly in the future; the forcing time machine jumps to the earliest of them (or by one unit), and the
   event loop never goes back. Exempt: a decline after which the episode terminates - the clock is then SET to the latest completion (C04), which
   may lie before the decline. *)
From Coq Require Import List ZArith Bool Arith Lia.
From JSL Require Import Base.Res Base.ListX SM.Types SM.Util SM.Handler SM.Step SM.Middleware SM.Inv
  SMP.ListLemmas SMP.Frame SMP.WF SMP.Preserve SMP.StepInv SMP.Clock SMP.ClockStep SMP.ClockMain SMP.LiftSide SMP.Agv SMP.OutputDone SMP.Post SMP.PostApply SMP.FeasView SMP.Feasible SMP.Offers SMP.Unique SMP.Reflect
  SMP.DepLists SMP.Prov SMP.StoreEff SMP.LiftProv SMP.ProvBatch SMP.Claims SMP.Durations SMP.Decline.
Import ListNotations.
Local Open Scope Z_scope.

Section DS.
Variable sigma : oracle.
Variable i : inst.
Hypothesis Hnn : inst_nonneg_b i = true.

Lemma timed_machines_none now : forall l m, timed_machines_from i now m l = Ok [] ->
  forall k ms, nth_error l k = Some ms -> timed_machine i now (m + k)%nat ms = Ok None.
Proof.
  induction l as [|ms0 l IH]; intros m H k ms Hk; [destruct k; discriminate|]. simpl in H.
  destruct (timed_machine i now m ms0) as [o|] eqn:Eo; simpl in H; [|discriminate].
  destruct (timed_machines_from i now (S m) l) as [rest|] eqn:Er; simpl in H; [|discriminate].
  destruct o as [tr|]; [discriminate|]. inversion H; subst rest.
  destruct k as [|k]; simpl in Hk.
  - inversion Hk; subst. rewrite Nat.add_0_r. exact Eo.
  - replace (m + S k)%nat with (S m + k)%nat by lia. eapply IH; eauto.
Qed.

Lemma timed_transports_none x : forall l t, timed_transports_from i x t l = Ok [] ->
  forall k ts, nth_error l k = Some ts -> timed_transport i x (t + k)%nat ts = Ok [].
Proof.
  induction l as [|ts0 l IH]; intros t H k ts Hk; [destruct k; discriminate|]. simpl in H.
  destruct (timed_transport i x t ts0) as [a|] eqn:Ea; simpl in H; [|discriminate].
  destruct (timed_transports_from i x (S t) l) as [rest|] eqn:Er; simpl in H; [|discriminate].
  inversion H as [E]. apply app_eq_nil in E. destruct E as [-> ->].
  destruct k as [|k]; simpl in Hk.
  - inversion Hk; subst. rewrite Nat.add_0_r. exact Ea.
  - replace (t + S k)%nat with (S t + k)%nat by lia. eapply IH; eauto.
Qed.

(* at a decision point everything pending lies strictly in the future *)
Lemma decision_point_pending_later x p z :
  NO x -> FE i x -> BO x -> create_timed_transitions i x = Ok [] -> pending_times x = Ok p -> In z p -> s_now x < z.
Proof.
  intros N F B Hct Hp Hz. pose proof (pending_ge_now _ _ _ N Hp Hz) as Hge.
  destruct (Z.eq_dec z (s_now x)) as [E|]; [|lia]. exfalso. subst z.
  unfold create_timed_transitions in Hct.
  destruct (create_timed_machine_transitions i x) as [a|] eqn:Ea; simpl in Hct; [|discriminate].
  destruct (create_timed_transport_transitions i x) as [b|] eqn:Eb; simpl in Hct; [|discriminate].
  inversion Hct as [E]. apply app_eq_nil in E. destruct E as [-> ->].
  unfold pending_times in Hp.
  destruct (mapM _ (filter (is_ostate OProc) (flat_map j_ops (s_jobs x)))) as [ops|] eqn:E1; simpl in Hp; [|discriminate].
  destruct (mapM _ _) as [trs|] eqn:E2 in Hp; simpl in Hp; [|discriminate]. inversion Hp; subst p.
  apply in_app_iff in Hz. destruct Hz as [Hz|Hz].
  - (* a PROCESSING record ending now: its machine is due *)
    destruct (mapM_in _ _ _ _ E1 Hz) as [o [Ho Hf]]. apply filter_In in Ho. destruct Ho as [Ho Hpo].
    apply in_flat_map in Ho. destruct Ho as [jb [Hjb Ho]]. apply In_nth_error in Hjb. destruct Hjb as [j Hj].
    apply In_nth_error in Ho. destruct Ho as [k Hk].
    assert (So : o_st o = OProc) by (unfold is_ostate in Hpo; destruct (o_st o); simpl in Hpo; try discriminate; reflexivity).
    assert (Vo : vop (view_of x) j k o) by (exists (j_ops jb); split; auto; simpl; unfold jops; rewrite Hj; reflexivity).
    destruct (fe_proc _ _ F _ _ _ Vo So) as [[st [A Hst]] _]. simpl in A. unfold mview in A.
    destruct (nth_error (s_machs x) (o_mach o)) as [ms|] eqn:Hms; [|discriminate]. simpl in A. inversion A as [[E3 E4]].
    assert (Hend : o_end o = m_occ ms).
    { apply (B (o_mach o) (m_st ms) (m_occ ms) (b_store (m_in ms)) j (j_ops jb) k o (mrec_of _ _ _ Hms)); auto;
        [congruence|rewrite E4; left; reflexivity|unfold jops; rewrite Hj; reflexivity]. }
    destruct (o_end o) as [|ze] eqn:Ee; simpl in Hf; [discriminate|]. inversion Hf; subst ze.
    pose proof (timed_machines_none _ _ _ Ea _ _ Hms) as Htm. simpl in Htm. unfold timed_machine in Htm.
    rewrite <- Hend in Htm. rewrite Z.leb_refl in Htm. rewrite E4 in Htm. simpl in Htm.
    destruct (m_st ms); simpl in Htm; try discriminate. apply Hst. congruence.
  - (* an AGV whose occupied_till is now: its transition is due *)
    destruct (mapM_in _ _ _ _ E2 Hz) as [ts [Hts Hf]]. apply filter_In in Hts. destruct Hts as [Hts Hd].
    apply filter_In in Hts. destruct Hts as [Hts Hi]. apply In_nth_error in Hts. destruct Hts as [t Ht].
    destruct (t_occ ts) as [|zo|] eqn:Eo; try discriminate. inversion Hf; subst zo.
    pose proof (timed_transports_none _ _ _ Eb _ _ Ht) as Htt. simpl in Htt. unfold timed_transport in Htt.
    rewrite Eo, Z.leb_refl in Htt.
    destruct (t_st ts) eqn:Est; simpl in Hi; try discriminate.
    + unfold create_idle_to_pick in Htt. rewrite Est in Htt.
      destruct (of_opt ETransportJob (t_job ts)) as [j0|]; simpl in Htt; [|discriminate]. destruct (get_job x j0) as [jb0|]; simpl in Htt; [|discriminate].
      destruct (is_ready i x j0 jb0); simpl in Htt; discriminate.
    + unfold create_pickup_to_drop in Htt. destruct (b_store (t_buf ts)) as [|j0 [|? ?]]; simpl in Htt; try discriminate.
      destruct (get_job x j0); simpl in Htt; discriminate.
    + unfold create_idle_to_pick in Htt. rewrite Est in Htt.
      destruct (of_opt ETransportJob (t_job ts)) as [j0|]; simpl in Htt; [|discriminate]. destruct (get_job x j0) as [jb0|]; simpl in Htt; [|discriminate].
      destruct (is_ready i x j0 jb0) as [[|]|]; simpl in Htt; discriminate.
Qed.

Lemma force_jump_strict x t :
  NO x -> FE i x -> BO x -> create_timed_transitions i x = Ok [] -> force_jump_to_event x = Ok t -> s_now x < t.
Proof.
  intros N F B Hct H. unfold force_jump_to_event in H.
  destruct (pending_times x) as [p|] eqn:Ep; simpl in H; [|discriminate].
  destruct p as [|h r]; inversion H; [lia|].
  unfold zmin_list. destruct (fold_min_in r h) as [E|E]; [rewrite E|]; eapply decision_point_pending_later; eauto; [left; reflexivity|right; exact E].
Qed.

Theorem run_decline_last_strict fuel x0 joker0 ta r m o1 r' m' lg :
  clock_b x0 = true -> wfs_b i x0 = true -> fresh2_b i x0 = true -> nodep_b x0 = true ->
  reach sigma i fuel x0 joker0 ta r m -> r_offers r = [o1] -> mw_step sigma i fuel r m 0 = MOk r' m' lg ->
  r_offers r' <> [] -> s_now (r_x r) < s_now (r_x r').
Proof.
  intros C W Fr Dn H Ho Hm Hne. apply NO_iff_clock_b in C.
  assert (Fr1 : fresh_b i x0 = true) by (unfold fresh2_b in Fr; apply andb_true_iff in Fr; destruct Fr as [Fr _]; apply andb_true_iff in Fr; tauto).
  assert (J0 : J3 i x0) by (split; [apply J_init; auto|apply fresh_BO_DUR; auto]).
  destruct (reach_reachG_E sigma i Hnn (J3 i) Q3 side2 OK3 BI (J3_apply sigma i Hnn) (J3_now i) (E3_end i) BI_now (Q3_timed i) (Q3_timed0 i) (Q3_offer i) (offers_ok3 i)
              _ _ _ _ _ _ C J0 (BI_init _ Dn) H) as [_ [_ [xq [Nq [[Jq [Bq _]] [_ [Hct [E|[E _]]]]]]]]]; [|rewrite Ho in E; discriminate].
  destruct Jq as [_ [[Fq _] _]].
  destruct (decline_last_shape sigma i _ _ _ _ _ _ _ Ho Hm) as [_ [x' [offers [Hs [Ex Eo]]]]]. destruct Eo as [Eo _].
  rewrite Ex. rewrite Eo in Hne. rewrite E in *. clear E.
  unfold step in Hs. cbn [Nat.ltb Nat.leb] in Hs.
  change (run_time_machine i TMForceJump xq) with (force_jump_to_event xq) in Hs.
  destruct (force_jump_to_event xq) as [t|] eqn:Et; [|discriminate].
  pose proof (force_jump_strict xq t Nq Fq Bq Hct Et) as Hlt.
  destruct (force_jump_ok xq t Nq Et) as [_ N2].
  destruct (create_timed_transitions i (set_now xq t)) as [timed|]; [|discriminate].
  destruct (get_possible_transitions i (set_now xq t)) as [poss|]; [|discriminate].
  destruct (filter_teleport i (set_now xq t) poss) as [tele|]; [|discriminate].
  assert (Hc0 : chain t [] (s_now (set_now xq t))) by (unfold set_now; simpl; lia).
  destruct (timed_loop_NO sigma i Hnn fuel _ _ _ _ _ _ _ t N2 (fun tr y (Hin : In (tr, y) []) => match Hin with end) Hc0 Hs)
    as [_ [xq' [_ [Hch [E'|[E' _]]]]]]; [|contradiction].
  subst x'. pose proof (chain_le _ _ _ Hch). rewrite E'. lia.
Qed.

End DS.
