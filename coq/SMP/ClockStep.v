(* C12 lifted to state.step / middleware / reachable states: the clock invariant holds in every
   micro-state and in every non-terminal result; the clock never decreases along the micro-log. *)
From Coq Require Import List ZArith Bool Arith Lia.
From JSL Require Import Base.Res Base.ListX SM.Types SM.Util SM.Handler SM.Step SM.Middleware SM.Inv
  SMP.ListLemmas SMP.Frame SMP.WF SMP.Preserve SMP.Clock.
Import ListNotations.
Close Scope Z_scope.

Section S.
Variable sigma : oracle.
Variable i : inst.
Hypothesis Hnn : inst_nonneg_b i = true.

(* ---------- no transition moves the clock ---------- *)
Lemma now_set_mach_ctl x m st oc tool outs : s_now (set_mach_ctl x m st oc tool outs) = s_now x.
Proof. apply set_mach_ctl_other. Qed.
Lemma now_set_trans_ctl x t st oc loc jb outs : s_now (set_trans_ctl x t st oc loc jb outs) = s_now x.
Proof. apply set_trans_ctl_other. Qed.
Lemma now_move_job x j A B x1 : move_job i x j A B = Ok x1 -> s_now x1 = s_now x.
Proof.
  unfold move_job. intros H. inv_all H. inversion H; subst. unfold put_job; simpl. rewrite !set_buf_now. reflexivity.
Qed.

Ltac now_tac H :=
  inv_all H; inversion H; subst; clear H; simpl;
  repeat (rewrite ?now_set_mach_ctl, ?now_set_trans_ctl; simpl);
  repeat match goal with E : move_job _ _ _ _ _ = Ok _ |- _ => rewrite (now_move_job _ _ _ _ _ E); clear E end;
  simpl; auto.

Lemma apply_now x tr x' : apply_transition sigma i x tr = Ok x' -> s_now x' = s_now x.
Proof.
  intros H. unfold apply_transition in H.
  destruct (tr_comp tr) as [m|t|n].
  - destruct (nth_error (s_machs x) m); [|discriminate].
    unfold handle_machine_transition in H. inv1 H.
    destruct (m_st v), (tr_new tr) as [[]|[]]; try discriminate.
    + unfold h_m_idle_setup in H. now_tac H.
    + unfold h_m_setup_working in H. now_tac H.
    + unfold h_m_working_outage in H. now_tac H.
    + unfold h_m_outage_idle in H. now_tac H.
  - destruct (nth_error (s_trans x) t); [|discriminate].
    unfold handle_transport_transition in H. inv1 H. inv1 H.
    destruct (t_st v), (tr_new tr) as [[]|[]]; try discriminate.
    + unfold h_t_idle_working in H. now_tac H.
    + unfold h_t_transit_outage in H. now_tac H.
    + unfold h_t_to_transit in H. inv1 H. inv1 H. inv1 H. inv1 H. inv1 H. inv1 H.
      * unfold h_t_waiting_waiting in H. now_tac H.
      * now_tac H.
    + unfold h_t_pickup_waiting in H. now_tac H.
    + unfold h_t_transit_outage in H. now_tac H.
    + unfold h_t_outage_idle in H. now_tac H.
    + unfold h_t_to_transit in H. inv1 H. inv1 H. inv1 H. inv1 H. inv1 H. inv1 H.
      * unfold h_t_waiting_waiting in H. now_tac H.
      * now_tac H.
    + unfold h_t_waiting_waiting in H. now_tac H.
  - destruct (nth_error (s_bufs x) n); discriminate.
Qed.

(* ---------- chains of clock values along the micro-log ---------- *)
Fixpoint chain (c0 : Z) (lg : mlog) (c1 : Z) : Prop :=
  match lg with
  | [] => (c0 <= c1)%Z
  | (_, y) :: r => (c0 <= s_now y)%Z /\ chain (s_now y) r c1
  end.

Lemma chain_snoc c0 lg c1 tr y : chain c0 lg c1 -> (c1 <= s_now y)%Z -> chain c0 (lg ++ [(tr, y)]) (s_now y).
Proof.
  revert c0; induction lg as [|[tr0 y0] r IH]; intros c0 H Hy; simpl in *.
  - split; lia.
  - destruct H. split; auto.
Qed.

Lemma chain_end c0 lg c1 c2 : chain c0 lg c1 -> (c1 <= c2)%Z -> chain c0 lg c2.
Proof.
  revert c0; induction lg as [|[tr0 y0] r IH]; intros c0 H Hy; simpl in *; [lia|].
  destruct H. split; eauto.
Qed.

Lemma chain_le c0 lg c1 : chain c0 lg c1 -> (c0 <= c1)%Z.
Proof.
  revert c0; induction lg as [|[tr0 y0] r IH]; intros c0 H; simpl in *; auto.
  destruct H as [H1 H2]. apply IH in H2. lia.
Qed.

Definition all_NO (lg : mlog) : Prop := forall tr y, In (tr, y) lg -> NO y.

Lemma all_NO_snoc lg tr y : all_NO lg -> NO y -> all_NO (lg ++ [(tr, y)]).
Proof.
  intros H Hy tr' y' Hin. apply in_app_iff in Hin. destruct Hin as [Hin|[E|[]]]; eauto. inversion E; subst; auto.
Qed.

Lemma process_NO : forall trs x n lg x' n' lg' c0,
  NO x -> all_NO lg -> chain c0 lg (s_now x) ->
  process_transitions sigma i trs x n lg = Ok (x', n', lg') ->
  NO x' /\ all_NO lg' /\ chain c0 lg' (s_now x') /\ s_now x' = s_now x.
Proof.
  induction trs as [|tr r IH]; intros x n lg x' n' lg' c0 Hx Hl Hc H; simpl in H.
  - inversion H; subst; auto.
  - destruct (is_transition_valid x tr) as [v|e]; simpl in H; [|discriminate].
    destruct v.
    + destruct (apply_transition sigma i x tr) as [x1|e] eqn:Ea; simpl in H; [|discriminate].
      pose proof (apply_preserves_NO sigma i Hnn _ _ _ Hx Ea) as N1.
      pose proof (apply_now _ _ _ Ea) as En.
      destruct (IH x1 n (lg ++ [(tr, x1)]) x' n' lg' c0 N1) as [A [B [C D]]]; auto.
      * apply all_NO_snoc; auto.
      * eapply chain_snoc; eauto. lia.
      * split; [exact A|]. split; [exact B|]. split; [exact C|]. congruence.
    + eapply IH; eauto.
Qed.

(* result of a step: xq is the state before the final clock adjustment of the done branch
   (terminal results set the clock to the latest completion, possibly backwards) *)
Definition result_ok (c0 : Z) (lg : mlog) (x' : state) (offers : list transition) : Prop :=
  all_NO lg /\ exists xq, NO xq /\ chain c0 lg (s_now xq)
    /\ (x' = xq \/ (offers = [] /\ all_in_output i xq = true /\ exists z, x' = set_now xq z)).

Lemma set_now_now x t : s_now (set_now x t) = t.
Proof. reflexivity. Qed.

Lemma loop_exit_NO x x' offers lg lg' c0 :
  NO x -> all_NO lg -> chain c0 lg (s_now x) ->
  (if all_in_output i x
   then match max_done_end x with
        | Ok (Some z) => SOk (set_now x z) [] lg
        | Ok None => SOk x [] lg
        | Err e => SRaise e end
   else match get_possible_transitions i x with
        | Ok offers => SOk x offers lg
        | Err e => SRaise e end) = SOk x' offers lg' -> result_ok c0 lg' x' offers.
Proof.
  intros Hx Hl Hc H.
  destruct (all_in_output i x) eqn:Ed.
  - destruct (max_done_end x) as [[z|]|]; [| |discriminate].
    + injection H as E1 E2 E3. subst x' offers lg'. split; [exact Hl|]. exists x. split; [exact Hx|].
      split; [exact Hc|]. right. split; auto. split; auto. eauto.
    + injection H as E1 E2 E3. subst x' offers lg'. split; [exact Hl|]. exists x. split; [exact Hx|].
      split; [exact Hc|]. left; reflexivity.
  - destruct (get_possible_transitions i x); [|discriminate].
    injection H as E1 E2 E3. subst x' offers lg'. split; [exact Hl|]. exists x. split; [exact Hx|].
    split; [exact Hc|]. left; reflexivity.
Qed.

Lemma timed_loop_NO fuel : forall x0 x timed lg x' offers lg' c0,
  NO x -> all_NO lg -> chain c0 lg (s_now x) ->
  timed_loop sigma i fuel x0 x timed lg = SOk x' offers lg' -> result_ok c0 lg' x' offers.
Proof.
  induction fuel as [|f IH]; intros x0 x timed lg x' offers lg' c0 Hx Hl Hc H; simpl in H.
  - destruct timed; [|discriminate]. eapply loop_exit_NO; eauto.
  - destruct timed as [|t ts]; [eapply loop_exit_NO; eauto|].
    destruct (process_transitions sigma i (t :: ts) x 0 lg) as [[[x1 nerr] lg1]|e] eqn:Ep; [|discriminate].
    destruct (Nat.ltb 0 nerr); [discriminate|].
    destruct (jump_to_event i x1) as [tt|e] eqn:Ej; [|discriminate].
    destruct (create_timed_transitions i (set_now x1 tt)) as [timed'|e]; [|discriminate].
    destruct (process_NO _ _ _ _ _ _ _ c0 Hx Hl Hc Ep) as [N1 [L1 [C1 _]]].
    destruct (jump_to_event_ok i _ _ N1 Ej) as [Hle N2].
    eapply IH; [exact N2|exact L1| |exact H].
    rewrite set_now_now. eapply chain_end; eauto.
Qed.

(* C12 for one state.step call (the middleware only uses jump_to_event / force_jump_to_event) *)
Theorem step_NO fuel x0 trs tm x' offers lg :
  tm <> TMJumpByOne -> NO x0 -> step sigma i fuel x0 trs tm = SOk x' offers lg ->
  result_ok (s_now x0) lg x' offers.
Proof.
  intros Htm Hx H. unfold step in H.
  destruct (match trs with [] => Ok (x0, 0, []) | _ :: _ => process_transitions sigma i (sorted_by_transport trs) x0 0 [] end)
    as [[[x1 nerr] lg1]|e] eqn:Ep; [|discriminate].
  assert (H1 : NO x1 /\ all_NO lg1 /\ chain (s_now x0) lg1 (s_now x1)).
  { destruct trs.
    - inversion Ep; subst. split; [exact Hx|]. split; [intros tr y []|simpl; lia].
    - destruct (process_NO _ _ _ _ _ _ _ (s_now x0) Hx (fun tr y (Hin : In (tr, y) []) => match Hin with end)
                  (Z.le_refl _) Ep) as [A [B [C _]]]. auto. }
  destruct H1 as [N1 [L1 C1]].
  destruct (Nat.ltb 0 nerr); [discriminate|].
  destruct (run_time_machine i tm x1) as [t|e] eqn:Et; [|discriminate].
  destruct (create_timed_transitions i (set_now x1 t)) as [timed|e]; [|discriminate].
  destruct (get_possible_transitions i (set_now x1 t)) as [poss|e]; [|discriminate].
  destruct (filter_teleport i (set_now x1 t) poss) as [tele|e]; [|discriminate].
  destruct (run_tm_ok i tm _ _ Htm N1 Et) as [Hle N2].
  eapply timed_loop_NO; [exact N2|exact L1| |exact H].
  rewrite set_now_now. eapply chain_end; eauto.
Qed.

(* middleware: from a live result to the next *)
Theorem mw_step_NO fuel r m a r' m' lg :
  NO (r_x r) -> mw_step sigma i fuel r m a = MOk r' m' lg -> result_ok (s_now (r_x r)) lg (r_x r') (r_offers r').
Proof.
  intros Hx H. unfold mw_step in H.
  destruct (r_offers r) as [|o1 rest]; [discriminate|].
  destruct (negb ((a =? 0)%Z || (a =? 1)%Z)); [discriminate|].
  destruct (a =? 0)%Z.
  - destruct rest as [|o2 rest].
    + destruct (step sigma i fuel (r_x r) [] TMForceJump) as [x' offers lg'| | |] eqn:Es; try discriminate.
      assert (Hr : result_ok (s_now (r_x r)) lg' x' offers) by (eapply step_NO; eauto; discriminate).
      destruct offers.
      * destruct (all_in_output i x'); [|discriminate]. inversion H; subst; auto.
      * inversion H; subst; auto.
    + inversion H; subst; simpl. split; [intros tr y []|]. exists (r_x r). split; [exact Hx|]. split; [simpl; lia|auto].
  - destruct (step sigma i fuel (r_x r) [o1] TMJumpToEvent) as [x' offers lg'| | |] eqn:Es; try discriminate.
    assert (Hr : result_ok (s_now (r_x r)) lg' x' offers) by (eapply step_NO; eauto; discriminate).
    inversion H; subst; auto.
Qed.

(* a live (non-terminal) result satisfies the clock invariant itself and its clock is not earlier *)
Corollary result_ok_live c0 lg x' offers :
  result_ok c0 lg x' offers -> offers <> [] -> NO x' /\ (c0 <= s_now x')%Z.
Proof.
  intros [_ [xq [Nq [Cq [->|[E _]]]]]] Hne; [|congruence]. split; auto. eapply chain_le; eauto.
Qed.

End S.
