(* Every state clause the monitors print (SM/Inv.v clause_vector) - except the three that describe initial states only (fresh_b, fresh2_b) or the
   earlier instance class (nodep_b) - holds in EVERY micro-state of EVERY run of every instance. A conjunction of the run-level theorems of SMP/,
   plus two reflections that were still missing: busy_op_b (from FE and BO) and proc_inner_b (from FE and WFS). *)
From Coq Require Import List ZArith Bool Arith Lia.
From JSL Require Import Base.Res Base.ListX SM.Types SM.Util SM.Handler SM.Step SM.Middleware SM.Inv SM.Events
  SMP.ListLemmas SMP.Frame SMP.WF SMP.Preserve SMP.StepInv SMP.Clock SMP.ClockStep SMP.ClockMain SMP.LiftSide SMP.Agv SMP.OutputDone SMP.Post SMP.PostApply SMP.FeasView SMP.Feasible SMP.FeasSound SMP.Offers SMP.Unique SMP.Reflect SMP.Main SMP.Outages
  SMP.DepLists SMP.Prov SMP.StoreEff SMP.LiftProv SMP.ProvBatch SMP.Claims SMP.Durations SMP.Travel SMP.Setup SMP.Hold SMP.Deliver SMP.OffersValid SMP.NoFail SMP.Release SMP.SampledOk SMP.EventsOk SMP.EventsRun SMP.Transit SMP.Due.
Import ListNotations.
Close Scope Z_scope.

Section AC.
Variable sigma : oracle.
Variable i : inst.
Hypothesis Hnn : inst_nonneg_b i = true.

Lemma FE_BO_busy_op_b x : NO x -> FE i x -> BO x -> busy_op_b x = true.
Proof.
  intros N F B. unfold busy_op_b. apply forallb_forall. intros [m ms] Hin. apply in_indexed0 in Hin.
  destruct (mstate_eqb (m_st ms) MIdle) eqn:Ei; [destruct (m_st ms); try discriminate; reflexivity|].
  assert (Hst : m_st ms <> MIdle) by (intros E; rewrite E in Ei; discriminate).
  assert (Hv : v_m (view_of x) m = Some (m_st ms, b_store (m_in ms))) by (simpl; unfold mview; rewrite Hin; reflexivity).
  destruct (fe_hold _ _ F _ _ _ Hv) as [_ Bh]. destruct (Bh Hst) as [j [k [o [El [[ops [Ho1 Ho2]] [So Mo]]]]]].
  simpl in Ho1. unfold jops in Ho1. destruct (nth_error (s_jobs x) j) as [jb|] eqn:Hjb; [|discriminate].
  simpl in Ho1. inversion Ho1; subst ops.
  assert (P : Pat (j_ops jb)) by (eapply (fe_pat _ _ F j); simpl; unfold jops; rewrite Hjb; reflexivity).
  assert (Hk : first_not_done jb = Some k).
  { destruct (first_not_done jb) as [k1|] eqn:Ek.
    - f_equal. eapply first_not_done_is_proc; eauto.
    - exfalso. unfold first_not_done in Ek. apply find_idx_none in Ek. rewrite forallb_forall in Ek.
      specialize (Ek o (nth_error_In _ _ Ho2)). unfold is_ostate in Ek. rewrite So in Ek. discriminate. }
  assert (Hend : o_end o = m_occ ms).
  { apply (B m (m_st ms) (m_occ ms) (b_store (m_in ms)) j (j_ops jb) k o (mrec_of _ _ _ Hin) Hst);
      [rewrite El; left; reflexivity|unfold jops; rewrite Hjb; reflexivity|exact Ho2|exact So]. }
  destruct (no_ops _ N j jb o Hjb (nth_error_In _ _ Ho2) So) as [z [Ez _]].
  assert (Goal : match b_store (m_in ms) with
                 | [j0] => match nth_error (s_jobs x) j0 with
                           | Some jb0 => match first_not_done jb0 with
                                         | Some k0 => match nth_error (j_ops jb0) k0 with
                                                      | Some o0 => is_ostate OProc o0 && Nat.eqb (o_mach o0) m
                                                                   && match o_end o0, m_occ ms with Time a, Time b => (a =? b)%Z | _, _ => false end
                                                      | None => false end
                                         | None => false end
                           | None => false end
                 | _ => false end = true).
  { rewrite El, Hjb, Hk, Ho2. unfold is_ostate. rewrite So, Mo, Nat.eqb_refl. simpl. rewrite <- Hend, Ez. apply Z.eqb_refl. }
  destruct (m_st ms); [exfalso; apply Hst; reflexivity| | |]; exact Goal.
Qed.

Lemma FE_WFS_proc_inner_b x : WFS i x -> FE i x -> proc_inner_b x = true.
Proof.
  intros W F. unfold proc_inner_b. apply forallb_forall. intros jb Hin. apply In_nth_error in Hin. destruct Hin as [j Hjb].
  destruct (is_job_running jb) eqn:Er.
  - destruct (running_inside i _ _ _ F Hjb Er) as [m [ms [Hms Hinm]]].
    destruct (ws_loc _ _ W _ _ Hjb) as [b [Hb Hinb]].
    assert (Hg : get_buf x (BIn m) = Some (m_in ms)) by (simpl; rewrite Hms; reflexivity).
    assert (E : j_loc jb = BIn m) by (eapply ws_unique; eauto). rewrite E. reflexivity.
  - destruct (j_loc jb) as [n|m|m|m|t] eqn:El; try reflexivity. exfalso.
    destruct (ws_loc _ _ W _ _ Hjb) as [b [Hb Hinb]]. rewrite El in Hb. simpl in Hb.
    destruct (nth_error (s_machs x) m) as [ms|] eqn:Hms; [|discriminate]. simpl in Hb. inversion Hb; subst b.
    assert (Hv : v_m (view_of x) m = Some (m_st ms, b_store (m_in ms))) by (simpl; unfold mview; rewrite Hms; reflexivity).
    destruct (fe_hold _ _ F _ _ _ Hv) as [A Bh].
    assert (Hst : m_st ms <> MIdle) by (intros E; rewrite (A E) in Hinb; destruct Hinb).
    destruct (Bh Hst) as [j0 [k [o [Els [[ops [Ho1 Ho2]] [So _]]]]]]. rewrite Els in Hinb. destruct Hinb as [<-|[]].
    simpl in Ho1. unfold jops in Ho1. rewrite Hjb in Ho1. simpl in Ho1. inversion Ho1; subst ops.
    unfold is_job_running in Er. assert (Ex : existsb (is_ostate OProc) (j_ops jb) = true).
    { apply existsb_exists. exists o. split; [eapply nth_error_In; eauto|unfold is_ostate; rewrite So; reflexivity]. }
    congruence.
Qed.

(* the clause vector without fresh_b, fresh2_b (initial states) and nodep_b (superseded by depi_b) *)
Definition clause_vector_live (x : state) : list bool :=
  [ placement_b x; loc_b x; mach_hold_b x; agv_hold_b x; claims_b x; capacity_b i x; flags_b i x;
    feasible_b i x; no_overdue_b x; past_b x; busy_op_b x; proc_inner_b x; output_done_b i x;
    outages_b x; outage_nonneg_b x; agv_phase_b x; idle_unclaimed_b x; sto_ok_b x; agv_load_b x;
    durations_b i x; travel_gap_b i x; setup_gap_b i x; depi_b i x; pre_ok_b x ].

Theorem run_micro_clause_vector tool0 fuel x0 joker0 ta r m a r' m' lg :
  clock_b x0 = true -> wfs_b i x0 = true -> fresh2_b i x0 = true -> nodep_b x0 = true -> pre_ok_b x0 = true ->
  agv_phase_b x0 = true -> agv_load_b x0 = true -> claims_b x0 = true -> depk_b x0 = true ->
  outages_b x0 && outage_nonneg_b x0 = true ->
  (forall m0 ms, nth_error (s_machs x0) m0 = Some ms -> m_tool ms = tool0 m0) ->
  reach sigma i fuel x0 joker0 ta r m -> mw_step sigma i fuel r m a = MOk r' m' lg ->
  forall tr y, In (tr, y) lg -> forallb (fun b => b) (clause_vector_live y) = true.
Proof.
  intros C W Fr Dn Po Ph Al Cl Dk Ou Ht H Hm tr y Hin.
  pose proof (clock_idle_unclaimed _ C) as Iu. pose proof C as C0. apply NO_iff_clock_b in C.
  assert (Fr1 : fresh_b i x0 = true) by (unfold fresh2_b in Fr; apply andb_true_iff in Fr; destruct Fr as [Fr _]; apply andb_true_iff in Fr; tauto).
  assert (J0 : J11 i x0) by (split; [split; [apply (J8_init i); auto|apply (RT0_init i); auto]|apply fresh_BO_DUR; auto]).
  destruct (reach_micro_J sigma i Hnn (J11 i) (Q11 i) side2 (OK9 i) BI (J11_apply sigma i Hnn) (J11_now i) (E11_end i) BI_now
              (Q11_timed i) (Q11_timed0 i) (Q11_offer i) (offers_ok9 i) _ _ _ _ _ _ _ _ _ _ C J0 (BI_init _ Dn) H Hm _ _ Hin) as [Hj _].
  destruct (reach_step_clock sigma i Hnn _ _ _ _ _ _ _ _ _ _ C H Hm) as [Hclk _]. pose proof (Hclk _ _ Hin) as Cy.
  pose proof Cy as Ny. apply NO_iff_clock_b in Ny.
  unfold clock_b in Cy. apply andb_true_iff in Cy. destruct Cy as [Cy C3]. apply andb_true_iff in Cy. destruct Cy as [C1 C2].
  destruct Hj as [[Hj8 _] [B D]]. pose proof Hj8 as [Hjh [_ [P _]]]. pose proof Hjh as [[Wf [[F [Ag Od]] De]] _].
  pose proof (WFS_sound i _ Wf) as Wb. unfold wfs_b in Wb. rewrite !andb_true_iff in Wb. destruct Wb as [[[W1 W2] W3] W4].
  pose proof (reach_micro_outages sigma i Hnn _ _ _ _ _ _ _ _ _ _ C0 Ou H Hm _ _ Hin) as Oy. apply andb_true_iff in Oy. destruct Oy as [O1 O2].
  unfold clause_vector_live. cbn [forallb].
  rewrite W1, W2, (FE_mach_hold i _ F), (JH_agv_hold_b i _ Ny Hjh),
    (reach_micro_claims sigma i Hnn _ _ _ _ _ _ _ _ _ _ C0 Cl Dk H Hm _ _ Hin), W3, W4,
    (FE_feasible i _ F), C1, (FE_past i _ F), (FE_BO_busy_op_b _ Ny F B), (FE_WFS_proc_inner_b _ Wf F), (OD_output_done i _ Od),
    O1, O2, (reach_micro_agv_phase_b sigma i _ _ _ _ _ _ _ _ _ _ Ph Al H Hm _ _ Hin), C2, C3,
    (proj2 (AG_iff_agv_load_b _) Ag), (DUR_durations_b i _ D),
    (run_micro_travel_gap sigma i Hnn _ _ _ _ _ _ _ _ _ _ C0 W Fr Dn Ph H Hm _ _ Hin),
    (run_micro_setup_gap sigma i Hnn tool0 (s_now x0) _ _ _ _ _ _ _ _ _ _ C0 W Fr Dn Ht eq_refl H Hm _ _ Hin),
    (DEPI_depi_b i _ Wf De), (proj2 (pre_ok_b_PRE _) P).
  reflexivity.
Qed.

(* three of the hypotheses follow from the others on a compiled initial state *)
Lemma forallb_impl {A} (p q : A -> bool) l : (forall a, p a = true -> q a = true) -> forallb p l = true -> forallb q l = true.
Proof. intros H. rewrite !forallb_forall. auto. Qed.

Lemma fresh2_agv_load x : fresh2_b i x = true -> agv_load_b x = true.
Proof.
  unfold fresh2_b, agv_load_b. intros H. apply andb_true_iff in H. destruct H as [_ H]. revert H. apply forallb_impl.
  intros ts Hts. apply andb_true_iff in Hts. destruct Hts as [H1 H2]. destruct (t_st ts); try discriminate. exact H2.
Qed.

Lemma nodep_depk x : nodep_b x = true -> depk_b x = true.
Proof. unfold nodep_b, depk_b. apply forallb_impl. intros ts. destruct (t_occ ts); auto; discriminate. Qed.

Lemma unclaimed_claims x : fresh2_b i x = true -> idle_unclaimed_b x = true -> claims_b x = true.
Proof.
  intros Fr Iu. unfold claims_b.
  assert (E : claims x = []).
  { unfold claims. assert (Hn : forall ts, In ts (s_trans x) -> t_job ts = None).
    { intros ts Hin. apply In_nth_error in Hin. destruct Hin as [t Ht]. eapply (no_claims i); eauto. }
    induction (s_trans x) as [|ts l IH]; simpl; auto. rewrite (Hn ts) by (left; reflexivity). simpl. apply IH. intros ts0 H0. apply Hn. right. exact H0. }
  rewrite E. reflexivity.
Qed.

Theorem run_micro_clause_vector' tool0 fuel x0 joker0 ta r m a r' m' lg :
  clock_b x0 = true -> wfs_b i x0 = true -> fresh2_b i x0 = true -> nodep_b x0 = true -> pre_ok_b x0 = true ->
  agv_phase_b x0 = true -> outages_b x0 && outage_nonneg_b x0 = true ->
  (forall m0 ms, nth_error (s_machs x0) m0 = Some ms -> m_tool ms = tool0 m0) ->
  reach sigma i fuel x0 joker0 ta r m -> mw_step sigma i fuel r m a = MOk r' m' lg ->
  forall tr y, In (tr, y) lg -> forallb (fun b => b) (clause_vector_live y) = true.
Proof.
  intros C W Fr Dn Po Ph Ou Ht. apply (run_micro_clause_vector tool0); auto.
  - apply fresh2_agv_load; auto.
  - apply unclaimed_claims; auto. apply clock_idle_unclaimed; auto.
  - apply nodep_depk; auto.
Qed.

End AC.
