(* The side conditions of C01/C04 DISCHARGED for instances whose machine post-buffers are unordered (FLEX - the
   compiler's default): with such buffers no AGV ever waits on a TimeDependency, so every -> TRANSIT transition
   the simulator applies was created by create_timed_transitions in the first state of the current batch for
   the AGV's own claim and a job lying in a post- or standalone buffer; the transitions applied before it in
   the same batch (other components, each at most once) can neither change that AGV's claim nor carry the job
   into a machine. Hence: job not in process, job = the claim - for every applied transition of every run. *)
From Coq Require Import List ZArith Bool Arith Lia.
From JSL Require Import Base.Res Base.ListX SM.Types SM.Util SM.Handler SM.Step SM.Middleware SM.Inv
  SMP.ListLemmas SMP.Frame SMP.WF SMP.Preserve SMP.StepInv SMP.Clock SMP.ClockStep SMP.ClockMain SMP.Post SMP.PostApply
  SMP.LiftSide SMP.FeasView SMP.Feasible SMP.FeasSound SMP.Agv SMP.OutputDone SMP.Offers SMP.Unique SMP.Reflect SMP.Prov SMP.LiftProv.
Import ListNotations.
Close Scope Z_scope.

Definition is_flex (ty : btype) : bool := match ty with Flex => true | _ => false end.
(* every machine post-buffer is unordered (FLEX) - or holds at most one job, so that the job in it is always at the
   position its discipline releases *)
Definition flex_post_b (i : inst) : bool :=
  forallb (fun mc => is_flex (bc_type (mc_post mc)) || (bc_cap (mc_post mc) =? 1)%Z) (i_machs i).

Definition no_dep (oc : occ) : Prop := match oc with ODep _ _ _ => False | _ => True end.
Definition NODEP (x : state) : Prop := forall t st oc jb, tc x t = Some (st, oc, jb) -> no_dep oc.

Lemma index_of_In j l : In j l -> exists p, index_of j l = Some p /\ p < length l.
Proof.
  induction l as [|h r IH]; intros H; [destruct H|]. simpl.
  destruct (Nat.eqb_spec j h) as [->|Hn].
  - exists 0. rewrite Nat.eqb_refl. split; [reflexivity|simpl; lia].
  - destruct H as [H|H]; [congruence|]. destruct (IH H) as [p [Hp Hl]]. rewrite Hp. exists (S p).
    assert (Hn' : (h =? j) = false) by (apply Nat.eqb_neq; congruence). rewrite Hn'. split; [reflexivity|simpl; lia].
Qed.

Section PB.
Variable sigma : oracle.
Variable i : inst.
Hypothesis Hnn : inst_nonneg_b i = true.
Hypothesis Hflex : flex_post_b i = true.

(* ---------- where a stored job is ---------- *)
Lemma stored_loc x A a j : WFS i x -> get_buf x A = Some a -> In j (b_store a) -> jloc x j = Some A.
Proof.
  intros W Ha Hin. pose proof (ws_range _ _ W _ _ _ Ha Hin) as Hlt.
  destruct (nth_error (s_jobs x) j) as [jb|] eqn:Ej; [|apply nth_error_None in Ej; lia].
  destruct (ws_loc _ _ W _ _ Ej) as [b [Hb Hinb]].
  rewrite (jloc_of _ _ _ Ej). f_equal. eapply (ws_unique i); eauto.
Qed.

(* ---------- no TimeDependency with unordered post-buffers ---------- *)
Lemma waiting_time_no_dep x tr oc : WFS i x -> get_waiting_time i x tr = Ok oc -> no_dep oc.
Proof.
  intros W H. unfold get_waiting_time in H.
  destruct (tr_job tr) as [j|]; simpl in H; [|discriminate].
  destruct (get_job x j) as [jb|] eqn:Ej; simpl in H; [|discriminate]. apply get_job_ok in Ej.
  destruct (get_bcfg i (j_loc jb)) as [c|] eqn:Ec; simpl in H; [|discriminate].
  assert (Mcase : forall m, (j_loc jb = BPre m \/ j_loc jb = BIn m \/ j_loc jb = BPost m) ->
     (ms <- get_mach x m ;;
      if mem_nat j (b_store (m_post ms)) then
        rdy <- is_ready i x j jb ;;
        if rdy : bool then Ok (OAt (s_now x))
        else
          nxt <- of_opt EInvalidValue (get_next_job_from_buffer (m_post ms) (bc_type c)) ;;
          let ts := first_transport_with_job x nxt in
          njb <- get_job x nxt ;;
          if job_is_done i njb then Ok (OAt (s_now x))
          else match ts with
               | None => Ok (ODep (j_loc jb) nxt tr)
               | Some t => Ok (t_occ t)
               end
      else
        k <- of_opt EMissingProc (first_proc jb) ;;
        o <- of_opt EMissingProc (nth_error (j_ops jb) k) ;;
        Ok (occ_of_time (o_end o))) = Ok oc -> no_dep oc).
  { intros m Hloc Hm. unfold get_mach in Hm.
    destruct (nth_error (s_machs x) m) as [ms|] eqn:E2; simpl in Hm; [|discriminate].
    destruct (mem_nat j (b_store (m_post ms))) eqn:Emem.
    - apply mem_nat_In in Emem.
      assert (Hpost : get_buf x (BPost m) = Some (m_post ms)) by (simpl; rewrite E2; reflexivity).
      pose proof (stored_loc _ _ _ _ W Hpost Emem) as Hl. rewrite (jloc_of _ _ _ Ej) in Hl. inversion Hl as [Hl'].
      assert (Hr : is_ready i x j jb = Ok true).
      { unfold is_ready. rewrite Hl', Hpost. simpl.
        destruct (nth_error (i_machs i) m) as [mc|] eqn:Emc.
        - simpl. destruct (index_of_In _ _ Emem) as [p [Hp Hlt]]. rewrite Hp.
          unfold flex_post_b in Hflex. pose proof (forallb_nth _ _ _ _ Hflex Emc) as Hf. simpl in Hf.
          unfold is_correct_position. destruct (Nat.eqb_spec (length (b_store (m_post ms))) 0) as [E0|_]; [lia|].
          apply orb_true_iff in Hf. destruct Hf as [Hf|Hf].
          + destruct (bc_type (mc_post mc)); try discriminate. simpl. apply Nat.ltb_lt in Hlt. rewrite Hlt. reflexivity.
          + (* capacity one: the store has exactly one element, at position 0 *)
            apply Z.eqb_eq in Hf.
            assert (Hcfg : get_bcfg i (BPost m) = Some (mc_post mc)) by (simpl; rewrite Emc; reflexivity).
            pose proof (ws_cap _ _ W _ _ _ Hpost Hcfg) as Hc. rewrite Hf in Hc. unfold lenZ in Hc.
            assert (Hlen : length (b_store (m_post ms)) = 1) by lia. rewrite Hlen in *.
            assert (Hp0 : p = 0) by lia. subst p.
            destruct (bc_type (mc_post mc)); simpl; reflexivity.
        - exfalso. rewrite Hl' in Ec. simpl in Ec. rewrite Emc in Ec. discriminate. }
      rewrite Hr in Hm. simpl in Hm. inversion Hm; subst; exact I.
    - destruct (first_proc jb) as [k|]; simpl in Hm; [|discriminate].
      destruct (nth_error (j_ops jb) k) as [o|]; simpl in Hm; [|discriminate].
      inversion Hm; subst. destruct (o_end o); exact I. }
  destruct (j_loc jb) as [n|m|m|m|t] eqn:El.
  - inversion H; subst; exact I.
  - apply (Mcase m); auto.
  - apply (Mcase m); auto.
  - apply (Mcase m); auto.
  - discriminate.
Qed.

Theorem apply_preserves_NODEP x tr x' : WFS i x -> NODEP x -> apply_transition sigma i x tr = Ok x' -> NODEP x'.
Proof.
  intros W D H t st oc jb Htc.
  destruct (tr_comp tr) as [m|t0|n] eqn:Hc.
  - rewrite (apply_tc_other sigma i _ _ _ t H) in Htc by (rewrite Hc; discriminate). eauto.
  - destruct (Nat.eq_dec t t0) as [->|Hne].
    + destruct (nth_error (s_trans x) t0) as [ts|] eqn:Hts; [|unfold apply_transition in H; rewrite Hc, Hts in H; discriminate].
      destruct (apply_tc_self sigma i _ _ _ _ _ H Hc Hts) as [st' [oc' [jb' [E [[[z ->]|[->|[Hw _]]] _]]]]]; rewrite E in Htc; inversion Htc; subst.
      * exact I.
      * apply (D t0 (t_st ts) (t_occ ts) (t_job ts)). apply tc_of; auto.
      * eapply waiting_time_no_dep; eauto.
    + rewrite (apply_tc_other sigma i _ _ _ t H) in Htc by (rewrite Hc; congruence). eauto.
  - unfold apply_transition in H. rewrite Hc in H. destruct (nth_error (s_bufs x) n); discriminate.
Qed.

Lemma NODEP_set_now x z : NODEP x -> NODEP (set_now x z).
Proof. intros D t st oc jb H. rewrite tc_set_now in H. eauto. Qed.

(* ---------- the batch invariant ---------- *)
Definition is_tworking (tr : transition) : bool := match tr_new tr with NT TWorking => true | _ => false end.
Definition core (R : list transition) : list transition := filter (fun tr => negb (is_tworking tr)) R.
Definition comps (R : list transition) : list comp := map tr_comp R.

Definition outside (L : bid) : Prop := (forall m, L <> BIn m) /\ (forall m, L <> BPre m) /\ (forall t, L <> BAgv t).

Definition loc_fact (x : state) (R : list transition) (j : nat) : Prop :=
  (exists L, jloc x j = Some L /\ outside L)
  \/ (exists t0, jloc x j = Some (BAgv t0) /\ ~ In (CT t0) (comps (core R))).

Definition pend (x : state) (R : list transition) (tr : transition) : Prop :=
  tr_new tr = NT TTransit ->
  exists t j oc, tr_comp tr = CT t /\ tr_job tr = Some j /\ tc x t = Some (TWaiting, oc, Some j) /\ loc_fact x R j.

Definition Q (R : list transition) (x : state) : Prop :=
  NoDup (comps (core R)) /\ forall tr, In tr R -> pend x R tr.

Definition J (x : state) : Prop := WFS i x /\ INV i x /\ NODEP x.

Lemma core_cons tr R : core (tr :: R) = if is_tworking tr then core R else tr :: core R.
Proof. unfold core. simpl. destruct (is_tworking tr); reflexivity. Qed.

Lemma in_core tr R : In tr R -> is_tworking tr = false -> In tr (core R).
Proof. intros H E. unfold core. apply filter_In. split; auto. rewrite E. reflexivity. Qed.

Lemma not_in_core_mono c tr R : ~ In c (comps (core (tr :: R))) -> ~ In c (comps (core R)).
Proof. rewrite core_cons. destruct (is_tworking tr); simpl; tauto. Qed.

Lemma NoDup_core_tail tr R : NoDup (comps (core (tr :: R))) -> NoDup (comps (core R)).
Proof. rewrite core_cons. destruct (is_tworking tr); simpl; auto. intros H. inversion H; auto. Qed.

(* the side conditions for the head of the batch, from its pending fact *)
Lemma head_sides x tr R x' :
  WFS i x -> FE i x -> pend x R tr -> apply_transition sigma i x tr = Ok x' -> side2 tr x' = true.
Proof.
  intros W F P H. unfold side2, transit_side_b, transit_claim_b.
  destruct (tr_new tr) as [s|s] eqn:En; [destruct (tr_comp tr); reflexivity|].
  destruct s; try (destruct (tr_comp tr); reflexivity).
  destruct (P En) as [t [j [oc [Hc [Hj [Htc Hloc]]]]]].
  unfold tc in Htc. destruct (nth_error (s_trans x) t) as [ts|] eqn:Hts; [|discriminate]. simpl in Htc. inversion Htc as [[E1 E2 E3]].
  destruct (apply_transit_spec sigma i _ _ _ _ _ H Hc En Hts) as [j' [jb [jb' [ts' [Hj' [Hjb [Hjb' [Hops [Hts' Hjob]]]]]]]]].
  rewrite Hj in Hj'. inversion Hj'; subst j'. rewrite Hj, Hc, Hjb', Hts'. rewrite Hjob, E3. simpl. rewrite Nat.eqb_refl, andb_true_r.
  assert (Hrun : is_job_running jb = false).
  { eapply (outside_not_running i); eauto. intros m Eq.
    destruct Hloc as [[L [HL [O1 _]]]|[t0 [HL _]]]; rewrite (jloc_of _ _ _ Hjb), Eq in HL; inversion HL; subst.
    apply (O1 m); reflexivity. }
  unfold is_job_running in *. rewrite Hops, Hrun. reflexivity.
Qed.

Lemma Q_step x tr R x' :
  WFS i x -> Q (tr :: R) x -> apply_transition sigma i x tr = Ok x' -> Q R x'.
Proof.
  intros W [ND HP] H. split; [eapply NoDup_core_tail; eauto|].
  intros tr1 Hin En. destruct (HP tr1 (or_intror Hin) En) as [t [j [oc [Hc [Hj [Htc Hloc]]]]]].
  assert (Hcore1 : In tr1 (core R)) by (apply in_core; auto; unfold is_tworking; rewrite En; reflexivity).
  exists t, j, oc. split; auto. split; auto. split.
  - (* the AGV's triple: the head is a transition of another component *)
    rewrite (apply_tc_other sigma i _ _ _ t H); auto. intros Hc0.
    destruct (is_tworking tr) eqn:Ew.
    + (* a dispatch needs an idle AGV *)
      unfold tc in Htc. destruct (nth_error (s_trans x) t) as [ts|] eqn:Hts; [|discriminate]. simpl in Htc. inversion Htc as [[E1 E2 E3]].
      unfold is_tworking in Ew. destruct (tr_new tr) as [s|s] eqn:En0; [discriminate|]. destruct s; try discriminate.
      destruct (apply_transport sigma i _ _ _ _ _ Hc0 Hts H) as [[E _]|[[_ [E _]]|[[_ [E _]]|[[_ [E _]]|[[_ [E _]]|[_ [E _]]]]]]];
        try (rewrite En0 in E; discriminate). rewrite E1 in E. discriminate.
    + rewrite core_cons, Ew in ND. simpl in ND. inversion ND as [|? ? Hnin _]. apply Hnin.
      rewrite Hc0, <- Hc. apply in_map. exact Hcore1.
  - (* the job's place *)
    destruct (apply_loc_eff sigma i _ _ _ H j) as [Same|[A [B [a [Ha [Hina [HB Hk]]]]]]].
    + destruct Hloc as [[L [HL O]]|[t0 [HL Hn]]].
      * left. exists L. rewrite Same. auto.
      * right. exists t0. rewrite Same. split; auto. eapply not_in_core_mono; eauto.
    + pose proof (stored_loc _ _ _ _ W Ha Hina) as HA.
      destruct Hloc as [[L [HL [O1 [O2 O3]]]]|[t0 [HL Hn]]]; rewrite HA in HL; inversion HL; subst.
      * destruct Hk as [[m [_ [[E _]|[E _]]]]|[[t1 [Hc1 [Hn1 [_ [_ [-> _]]]]]]|[t1 [_ [_ E]]]]].
        -- exfalso. apply (O2 m); auto.
        -- exfalso. apply (O1 m); auto.
        -- right. exists t1. split; auto.
           assert (Ew : is_tworking tr = false) by (unfold is_tworking; rewrite Hn1; reflexivity).
           rewrite core_cons, Ew in ND. simpl in ND. inversion ND as [|? ? Hnin _]. rewrite <- Hc1. exact Hnin.
        -- exfalso. apply (O3 t1); auto.
      * exfalso. destruct Hk as [[m [_ [[E _]|[E _]]]]|[[t1 [_ [_ [_ [_ [_ E]]]]]]|[t1 [Hc1 [Hn1 E]]]]]; try discriminate.
        -- apply (E t0); reflexivity.
        -- inversion E; subst t1. apply Hn. rewrite core_cons.
           assert (Ew : is_tworking tr = false) by (unfold is_tworking; rewrite Hn1; reflexivity).
           rewrite Ew. simpl. left. auto.
Qed.

Theorem J_apply x tr R x' :
  NO x -> J x -> Q (tr :: R) x -> is_transition_valid x tr = Ok true -> apply_transition sigma i x tr = Ok x' ->
  J x' /\ Q R x' /\ side2 tr x' = true.
Proof.
  intros N [W [I D]] HQ Hv Ha.
  assert (S : side2 tr x' = true).
  { destruct I as [F _]. eapply head_sides; eauto. destruct HQ as [_ HP]. apply HP. left; reflexivity. }
  split; [|split; [eapply Q_step; eauto|exact S]].
  split; [eapply apply_preserves_WFS; eauto|]. split; [eapply INV_apply; eauto|eapply apply_preserves_NODEP; eauto].
Qed.

Lemma J_now x t : J x -> (s_now x <= t)%Z -> J (set_now x t).
Proof.
  intros [W [I D]] H. split; [apply WFS_set_now; auto|]. split; [apply INV_now; auto|apply NODEP_set_now; auto].
Qed.

(* ---------- the batch invariant holds where the simulator creates its transitions ---------- *)
Lemma NoDup_map_filter {A B} (f : A -> B) (p : A -> bool) l : NoDup (map f l) -> NoDup (map f (filter p l)).
Proof.
  induction l as [|a r IH]; simpl; intros H; [constructor|]. inversion H as [|? ? Hn Hr]; subst.
  destruct (p a); simpl; auto. constructor; auto. intros Hin. apply Hn.
  apply in_map_iff in Hin. destruct Hin as [y [E Hy]]. apply filter_In in Hy. rewrite <- E. apply in_map. tauto.
Qed.

Lemma timed_machines_comps now : forall l m r,
  timed_machines_from i now m l = Ok r ->
  (forall tr, In tr r -> (exists k, tr_comp tr = CM k /\ m <= k) /\ exists s, tr_new tr = NM s) /\ NoDup (comps r).
Proof.
  induction l as [|ms l IH]; intros m r H; simpl in H.
  - inversion H; subst. split; [intros tr []|constructor].
  - destruct (timed_machine i now m ms) as [o|] eqn:Eo; simpl in H; [|discriminate].
    destruct (timed_machines_from i now (S m) l) as [rest|] eqn:Er; simpl in H; [|discriminate].
    destruct (IH _ _ Er) as [A B]. inversion H; subst; clear H.
    destruct o as [tr0|]; [|split; [intros tr Hin; destruct (A tr Hin) as [[k [E1 E2]] S]; split; auto; exists k; split; auto; lia|exact B]].
    assert (Hc : tr_comp tr0 = CM m /\ exists s, tr_new tr0 = NM s).
    { destruct (timed_machine_spec i _ _ _ _ Eo) as [[z [j [_ [_ [_ [Hc [_ Hs]]]]]]]|[c [j [_ [_ [_ ->]]]]]].
      - split; auto. destruct Hs as [[_ ->]|[[_ ->]|[_ ->]]]; eauto.
      - simpl. eauto. }
    destruct Hc as [Hc Hs]. split.
    + intros tr [<-|Hin]; [split; auto; exists m; auto|]. destruct (A tr Hin) as [[k [E1 E2]] S]. split; auto. exists k; split; auto; lia.
    + simpl. constructor; auto. intros Hin. apply in_map_iff in Hin. destruct Hin as [tr [E Hin]].
      destruct (A tr Hin) as [[k [E1 E2]] _]. rewrite Hc, E1 in E. inversion E. lia.
Qed.

Lemma timed_transport_shape x t ts l :
  timed_transport i x t ts = Ok l -> no_dep (t_occ ts) ->
  l = [] \/ exists tr z, l = [tr] /\ tr_comp tr = CT t /\ t_occ ts = OAt z.
Proof.
  unfold timed_transport. intros H D. destruct (t_occ ts) as [|z|b k d] eqn:Eo; [inversion H; auto| |destruct D].
  destruct (z <=? s_now x)%Z; [|inversion H; auto].
  match type of H with bind ?e _ = _ => destruct e as [o|] eqn:Ec; simpl in H; [|discriminate] end.
  inversion H; subst; clear H. destruct o as [tr|]; [|auto]. right. exists tr, z. split; auto. split; auto.
  destruct (t_st ts) eqn:Es; try discriminate.
  - unfold create_idle_to_pick in Ec. rewrite Es in Ec. inv_all Ec; inversion Ec; subst; reflexivity.
  - unfold create_pickup_to_drop in Ec. destruct (b_store (t_buf ts)) as [|j0 [|]]; try discriminate.
    inv_all Ec. inversion Ec; subst; reflexivity.
  - inversion Ec; subst; reflexivity.
  - unfold create_idle_to_pick in Ec. rewrite Es in Ec. inv_all Ec; inversion Ec; subst; reflexivity.
Qed.

Lemma timed_transports_comps x : forall l t r,
  (forall ts, In ts l -> no_dep (t_occ ts)) ->
  timed_transports_from i x t l = Ok r ->
  (forall tr, In tr r -> exists k ts lk z, nth_error l k = Some ts /\ timed_transport i x (t + k) ts = Ok lk /\ lk = [tr]
                                        /\ tr_comp tr = CT (t + k) /\ t_occ ts = OAt z)
  /\ NoDup (comps r).
Proof.
  induction l as [|ts l IH]; intros t r D H; simpl in H.
  - inversion H; subst. split; [intros tr []|constructor].
  - destruct (timed_transport i x t ts) as [a|] eqn:Ea; simpl in H; [|discriminate].
    destruct (timed_transports_from i x (S t) l) as [rest|] eqn:Er; simpl in H; [|discriminate].
    destruct (IH _ _ (fun ts0 Hin => D ts0 (or_intror Hin)) Er) as [A B]. inversion H; subst; clear H.
    assert (Arest : forall tr, In tr rest -> exists k ts0 lk z, nth_error (ts :: l) k = Some ts0
              /\ timed_transport i x (t + k) ts0 = Ok lk /\ lk = [tr] /\ tr_comp tr = CT (t + k) /\ t_occ ts0 = OAt z).
    { intros tr Hin. destruct (A tr Hin) as [k [ts0 [lk [z [H1 [H2 [H3 [H4 H5]]]]]]]].
      exists (S k), ts0, lk, z. replace (t + S k) with (S t + k) by lia. simpl. auto. }
    destruct (timed_transport_shape _ _ _ _ Ea (D ts (or_introl eq_refl))) as [->|[tr0 [z [-> [Hc Ho]]]]]; simpl.
    + split; auto.
    + split.
      * intros tr [<-|Hin]; [|auto]. exists 0, ts, [tr0], z. rewrite Nat.add_0_r. simpl. auto.
      * constructor; auto. intros Hin. apply in_map_iff in Hin. destruct Hin as [tr [E Hin]].
        destruct (A tr Hin) as [k [_ [_ [_ [_ [_ [_ [E1 _]]]]]]]]. rewrite Hc, E1 in E. inversion E. lia.
Qed.

Lemma is_ready_outside x j jb : is_ready i x j jb = Ok true -> outside (j_loc jb).
Proof.
  unfold is_ready. intros H. inv_all H. inversion H as [Hb]. apply andb_true_iff in Hb. destruct Hb as [Hb _].
  destruct (j_loc jb); try discriminate; repeat split; intros; discriminate.
Qed.

Lemma NODEP_in x ts : NODEP x -> In ts (s_trans x) -> no_dep (t_occ ts).
Proof.
  intros D Hin. apply In_nth_error in Hin. destruct Hin as [t Ht]. apply (D t (t_st ts) (t_occ ts) (t_job ts)). apply tc_of; auto.
Qed.

Theorem Q_created x timed tele :
  J x -> create_timed_transitions i x = Ok timed -> Forall (fun tr => is_tworking tr = true) tele -> Q (timed ++ tele) x.
Proof.
  intros [W [[F _] D]] H Ht. unfold create_timed_transitions in H.
  destruct (create_timed_machine_transitions i x) as [a|] eqn:Ea; simpl in H; [|discriminate].
  destruct (create_timed_transport_transitions i x) as [b|] eqn:Eb; simpl in H; [|discriminate].
  inversion H; subst; clear H.
  destruct (timed_machines_comps _ _ _ _ Ea) as [A1 A2].
  destruct (timed_transports_comps x _ _ _ (fun ts Hin => NODEP_in _ _ D Hin) Eb) as [B1 B2].
  assert (Hcore : core ((a ++ b) ++ tele) = core (a ++ b)).
  { unfold core. rewrite filter_app. rewrite Forall_forall in Ht.
    assert (E : filter (fun tr => negb (is_tworking tr)) tele = []).
    { clear -Ht. induction tele as [|h r IH]; simpl; auto. rewrite (Ht h (or_introl eq_refl)). simpl. apply IH. intros y Hy. apply Ht. right; auto. }
    rewrite E, app_nil_r. reflexivity. }
  split.
  - rewrite Hcore. unfold core, comps. apply NoDup_map_filter. rewrite map_app. apply NoDup_app; auto.
    intros c Hc1 Hc2. apply in_map_iff in Hc1, Hc2. destruct Hc1 as [t1 [E1 I1]]. destruct Hc2 as [t2 [E2 I2]].
    destruct (A1 _ I1) as [[k [Hk _]] _]. destruct (B1 _ I2) as [k2 [_ [_ [_ [_ [_ [_ [Hk2 _]]]]]]]]. congruence.
  - intros tr Hin En. apply in_app_iff in Hin. destruct Hin as [Hin|Hin].
    + apply in_app_iff in Hin. destruct Hin as [Hin|Hin].
      * destruct (A1 _ Hin) as [_ [s Hs]]. congruence.
      * destruct (B1 _ Hin) as [k [ts [lk [z [Hts [Htt [-> [Hc Ho]]]]]]]]. simpl in Htt, Hc.
        destruct (timed_transit_spec i _ _ _ _ _ Ho Htt En) as [Hst [j [jb [-> [Hj [Hjb Hr]]]]]].
        exists k, j, (t_occ ts). simpl. split; auto. split; auto. split.
        -- rewrite (tc_of _ _ _ Hts), Hst, Hj. reflexivity.
        -- left. exists (j_loc jb). split; [apply jloc_of; auto|eapply is_ready_outside; eauto].
    + rewrite Forall_forall in Ht. specialize (Ht _ Hin). unfold is_tworking in Ht. rewrite En in Ht. discriminate.
Qed.

Lemma teleport_pick_in fuel : forall l a, In a (teleport_pick fuel l) -> In a l.
Proof.
  induction fuel as [|f IH]; intros l a H; simpl in H; [destruct H|].
  destruct l as [|h r]; [destruct H|]. destruct H as [<-|H]; [left; reflexivity|].
  apply IH in H. apply filter_In in H. tauto.
Qed.

Lemma offers_shape x offers tr :
  get_possible_transitions i x = Ok offers -> In tr offers ->
  (exists m j, tr = mkTr (CM m) (NM MSetup) (Some j)) \/ (exists t j, tr = mkTr (CT t) (NT TWorking) (Some j)).
Proof.
  unfold get_possible_transitions. intros H Hin.
  destruct (filterM _ _) as [pj|] eqn:E1 in H; simpl in H; [|discriminate].
  destruct (get_possible_transport_transition i x) as [pt|] eqn:E2; simpl in H; [|discriminate].
  destruct (mapM _ pj) as [mt|] eqn:E3 in H; simpl in H; [|discriminate].
  inversion H; subst; clear H. apply in_app_iff in Hin. destruct Hin as [Hin|Hin].
  - left. destruct (mapM_in' _ _ _ _ E3 Hin) as [[j jb] [Hp Hf]]. simpl in Hf. inv_all Hf. inversion Hf; subst. eauto.
  - right. destruct (transport_offers_spec i _ _ _ E2 Hin) as [t [ts [j [jb [-> _]]]]]. eauto.
Qed.

Lemma offers_not_transit x offers : get_possible_transitions i x = Ok offers -> Forall not_transit offers.
Proof.
  intros H. apply Forall_forall. intros tr Hin. unfold not_transit.
  destruct (offers_shape _ _ _ H Hin) as [[m [j ->]]|[t [j ->]]]; simpl; discriminate.
Qed.

Lemma tele_tworking x poss tele :
  get_possible_transitions i x = Ok poss -> filter_teleport i x poss = Ok tele -> Forall (fun tr => is_tworking tr = true) tele.
Proof.
  intros Hp H. unfold filter_teleport in H.
  match type of H with bind ?e _ = _ => destruct e as [tl|] eqn:Ef; simpl in H; [|discriminate] end.
  inversion H; subst; clear H. apply Forall_forall. intros tr Hin. apply teleport_pick_in in Hin.
  destruct (filterM_in _ _ _ _ Ef Hin) as [Hi Hf].
  destruct (offers_shape _ _ _ Hp Hi) as [[m [j ->]]|[t [j ->]]]; [|reflexivity].
  simpl in Hf. destruct (travel_time_for_transport i x (Some j)); simpl in Hf; [inversion Hf|discriminate].
Qed.

Lemma Q_timed x timed poss tele : NO x -> J x -> create_timed_transitions i x = Ok timed ->
  get_possible_transitions i x = Ok poss -> filter_teleport i x poss = Ok tele -> Q (timed ++ tele) x.
Proof. intros _ Hj H Hp Hf. eapply Q_created; eauto. eapply tele_tworking; eauto. Qed.

Lemma Q_timed0 x timed : NO x -> J x -> create_timed_transitions i x = Ok timed -> Q timed x.
Proof. intros _ Hj H. rewrite <- (app_nil_r timed). eapply Q_created; eauto. Qed.

Lemma Q_offer x o : J x -> not_transit o -> Q [o] x.
Proof.
  intros _ Hn. split.
  - rewrite core_cons. destruct (is_tworking o); simpl; repeat constructor; auto.
  - intros tr [<-|[]] En. exfalso. apply Hn; auto.
Qed.

(* ---------- every run satisfies both side conditions ---------- *)
Theorem reach_side2 fuel x0 joker0 ta r m :
  NO x0 -> J x0 -> reach sigma i fuel x0 joker0 ta r m -> reachS2 sigma i fuel x0 joker0 ta r m.
Proof.
  intros N Hj H.
  destruct (reach_reachG sigma i Hnn J Q side2 (fun _ => not_transit) J_apply J_now Q_timed Q_timed0 Q_offer offers_not_transit _ _ _ _ _ _ N Hj H)
    as [A _]. exact A.
Qed.

Theorem reach_J fuel x0 joker0 ta r m :
  NO x0 -> J x0 -> reach sigma i fuel x0 joker0 ta r m ->
  exists xq, NO xq /\ J xq /\ (r_x r = xq \/ (r_offers r = [] /\ exists z, r_x r = set_now xq z)).
Proof.
  intros N Hj H.
  destruct (reach_reachG sigma i Hnn J Q side2 (fun _ => not_transit) J_apply J_now Q_timed Q_timed0 Q_offer offers_not_transit _ _ _ _ _ _ N Hj H)
    as [_ [_ B]]. exact B.
Qed.

Theorem reach_micro_side2 fuel x0 joker0 ta r m a r' m' lg :
  NO x0 -> J x0 -> reach sigma i fuel x0 joker0 ta r m -> mw_step sigma i fuel r m a = MOk r' m' lg ->
  forall tr y, In (tr, y) lg -> J y /\ side2 tr y = true.
Proof.
  intros N Hj H Hm.
  exact (reach_micro_J sigma i Hnn J Q side2 (fun _ => not_transit) J_apply J_now Q_timed Q_timed0 Q_offer offers_not_transit _ _ _ _ _ _ _ _ _ _ N Hj H Hm).
Qed.

(* ---------- the unconditional statements ---------- *)
Lemma nodep_b_NODEP x : nodep_b x = true -> NODEP x.
Proof.
  intros H t st oc jb Htc. unfold tc in Htc. destruct (nth_error (s_trans x) t) as [ts|] eqn:E; [|discriminate].
  simpl in Htc. inversion Htc; subst. pose proof (forallb_nth _ _ _ _ H E) as Q0. simpl in Q0.
  destruct (t_occ ts); simpl; auto; discriminate.
Qed.
Lemma NODEP_nodep_b x : NODEP x -> nodep_b x = true.
Proof.
  intros D. unfold nodep_b. apply forallb_forall. intros ts Hin. pose proof (NODEP_in _ _ D Hin) as Q0.
  destruct (t_occ ts); simpl in *; auto; destruct Q0.
Qed.

Lemma J_init x0 : wfs_b i x0 = true -> fresh2_b i x0 = true -> nodep_b x0 = true -> J x0.
Proof.
  intros W Fr D. split; [apply WFS_complete; auto|]. split; [apply fresh2_INV; auto|apply nodep_b_NODEP; auto].
Qed.

Lemma J_clauses x : J x -> feasible_b i x = true /\ mach_hold_b x = true /\ output_done_b i x = true /\ nodep_b x = true.
Proof.
  intros [W [[F [A O]] D]]. split; [apply FE_feasible; auto|]. split; [apply FE_mach_hold with (i := i); auto|].
  split; [apply OD_output_done; auto|apply NODEP_nodep_b; auto].
Qed.

Theorem flex_reachable fuel x0 joker0 ta r m :
  clock_b x0 = true -> wfs_b i x0 = true -> fresh2_b i x0 = true -> nodep_b x0 = true ->
  reach sigma i fuel x0 joker0 ta r m ->
  feasible_b i (r_x r) = true /\ mach_hold_b (r_x r) = true /\ output_done_b i (r_x r) = true /\ nodep_b (r_x r) = true.
Proof.
  intros C W Fr D H. apply NO_iff_clock_b in C.
  destruct (reach_J _ _ _ _ _ _ C (J_init _ W Fr D) H) as [xq [Nq [Jq [E|[_ [z E]]]]]]; rewrite E.
  - apply J_clauses; auto.
  - exact (J_clauses _ Jq).
Qed.

Theorem flex_micro_states fuel x0 joker0 ta r m a r' m' lg :
  clock_b x0 = true -> wfs_b i x0 = true -> fresh2_b i x0 = true -> nodep_b x0 = true ->
  reach sigma i fuel x0 joker0 ta r m -> mw_step sigma i fuel r m a = MOk r' m' lg ->
  forall tr y, In (tr, y) lg ->
    feasible_b i y = true /\ mach_hold_b y = true /\ output_done_b i y = true /\ nodep_b y = true /\ side2 tr y = true.
Proof.
  intros C W Fr D H Hm tr y Hin. apply NO_iff_clock_b in C.
  destruct (reach_micro_side2 _ _ _ _ _ _ _ _ _ _ C (J_init _ W Fr D) H Hm _ _ Hin) as [Jy S].
  destruct (J_clauses _ Jy) as [A [B [C0 D0]]]. auto.
Qed.

Theorem flex_terminated_all_done fuel x0 joker0 ta r m :
  clock_b x0 = true -> wfs_b i x0 = true -> fresh2_b i x0 = true -> nodep_b x0 = true ->
  reach sigma i fuel x0 joker0 ta r m ->
  all_in_output i (r_x r) = true -> forallb all_operations_done (s_jobs (r_x r)) = true.
Proof.
  intros C W Fr D H Hout. destruct (flex_reachable _ _ _ _ _ _ C W Fr D H) as [_ [_ [Hod _]]].
  unfold all_in_output in Hout. rewrite forallb_forall in *.
  intros jb Hin. specialize (Hout jb Hin). apply andb_true_iff in Hout. tauto.
Qed.

End PB.
