(* The side conditions of C01/C04 DISCHARGED for every instance: every -> TRANSIT transition the simulator applies
   names the AGV's own claim and a job lying in a post- or standalone buffer; the transitions applied before it in
   the same batch (other components, each at most once) can neither change that AGV's claim nor carry the job
   into a machine. Hence: job not in process, job = the claim - for every applied transition of every run.
   A -> TRANSIT transition is either created by create_timed_transitions in the first state of the current batch, or
   re-issued from a TimeDependency stored in the AGV's occupied_till (ordered post-buffers). The invariant DEPI says
   that a stored dependency is the AGV's OWN transition for its own claim, the claimed job lying in the post-buffer
   BEHIND the blocking job (so it is not the job the buffer releases next, and `_get_waiting_time` never copies a
   dependency from another AGV); it survives because the blocking job cannot leave the buffer while an AGV depends
   on it: once the blocking job is claimed, the dependency is re-issued and refreshed in the very next batch, before
   the claiming AGV - which is still on its way to the pickup point - can take the job (batch invariant Qdep,
   between-batches fact BI). *)
From Coq Require Import List ZArith Bool Arith Lia.
From JSL Require Import Base.Res Base.ListX SM.Types SM.Util SM.Handler SM.Step SM.Middleware SM.Inv
  SMP.ListLemmas SMP.Frame SMP.WF SMP.Preserve SMP.StepInv SMP.Clock SMP.ClockStep SMP.ClockMain SMP.Post SMP.PostApply
  SMP.LiftSide SMP.FeasView SMP.Feasible SMP.FeasSound SMP.Agv SMP.OutputDone SMP.Offers SMP.Unique SMP.Reflect
  SMP.DepLists SMP.Prov SMP.StoreEff SMP.LiftProv.
Import ListNotations.
Close Scope Z_scope.

Definition is_flex (ty : btype) : bool := match ty with Flex => true | _ => false end.
(* every machine post-buffer is unordered (FLEX) - or holds at most one job, so that the job in it is always at the
   position its discipline releases *)
Definition flex_post_b (i : inst) : bool :=
  forallb (fun mc => is_flex (bc_type (mc_post mc)) || (bc_cap (mc_post mc) =? 1)%Z) (i_machs i).

Definition no_dep (oc : occ) : Prop := match oc with ODep _ _ _ => False | _ => True end.
Definition NODEP (x : state) : Prop := forall t st oc jb, tc x t = Some (st, oc, jb) -> no_dep oc.

Lemma index_of_In j l : In j l -> exists p, index_of j l = Some p /\ p < length l.
Proof. apply index_of_in. Qed.

Lemma comp_eq_dec (a b : comp) : {a = b} + {a <> b}.
Proof. decide equality; apply Nat.eq_dec. Qed.

Lemma in_indexed_nth' {A} (l : list A) : forall n k a, In (k, a) (indexed n l) -> n <= k /\ nth_error l (k - n) = Some a.
Proof.
  induction l as [|h r IH]; intros n k a H; simpl in H; [destruct H|].
  destruct H as [E|H]; [inversion E; subst; split; [lia|rewrite Nat.sub_diag; reflexivity]|].
  destruct (IH _ _ _ H) as [A1 A2]. split; [lia|]. replace (k - n) with (S (k - S n)) by lia. exact A2.
Qed.

Definition wkind (tr : transition) : Prop := tr_new tr = NT TWaiting \/ tr_new tr = NT TTransit.

Section PB.
Variable sigma : oracle.
Variable i : inst.
Hypothesis Hnn : inst_nonneg_b i = true.

(* ---------- where a stored job is ---------- *)
Lemma stored_loc x A a j : WFS i x -> get_buf x A = Some a -> In j (b_store a) -> jloc x j = Some A.
Proof.
  intros W Ha Hin. pose proof (ws_range _ _ W _ _ _ Ha Hin) as Hlt.
  destruct (nth_error (s_jobs x) j) as [jb|] eqn:Ej; [|apply nth_error_None in Ej; lia].
  destruct (ws_loc _ _ W _ _ Ej) as [b [Hb Hinb]].
  rewrite (jloc_of _ _ _ Ej). f_equal. eapply (ws_unique i); eauto.
Qed.

Lemma ws_nodup x L b : WFS i x -> get_buf x L = Some b -> NoDup (b_store b).
Proof.
  intros W Hb. apply count_le_one_NoDup. intros j.
  destruct (le_lt_dec (length (s_jobs x)) j) as [Hge|Hlt].
  - destruct (count_nat j (b_store b)) eqn:Ec; [lia|]. exfalso.
    assert (Hin : In j (b_store b)) by (apply mem_nat_In; apply mem_count; lia).
    pose proof (ws_range _ _ W _ _ _ Hb Hin). lia.
  - pose proof (ws_count _ _ W j Hlt) as Hc. unfold tcount in Hc.
    pose proof (sum_in_ge (fun L0 => count_nat j (store_at x L0)) (bids_of x) L (get_buf_in_bids _ _ _ Hb)) as Q0.
    simpl in Q0. unfold store_at in Q0 at 1. rewrite Hb in Q0. lia.
Qed.

(* ---------- the time-dependency invariant ---------- *)
Definition DEPI (x : state) : Prop := forall t st b k d jb, tc x t = Some (st, ODep b k d, jb) ->
  st = TWaiting /\ exists j m ms mc, jb = Some j /\ b = BPost m /\ nth_error (s_machs x) m = Some ms /\ nth_error (i_machs i) m = Some mc
    /\ tr_comp d = CT t /\ tr_job d = Some j /\ wkind d /\ rel_ok (bc_type (mc_post mc)) (b_store (m_post ms)) k j.

Lemma NODEP_DEPI x : NODEP x -> DEPI x.
Proof. intros D t st b k d jb H. destruct (D _ _ _ _ H). Qed.

Lemma DEPI_set_now x z : DEPI x -> DEPI (set_now x z).
Proof. intros D t st b k d jb H. rewrite tc_set_now in H. exact (D _ _ _ _ _ _ H). Qed.

Lemma post_bst x m ms : nth_error (s_machs x) m = Some ms -> bst x (BPost m) = Some (b_store (m_post ms)).
Proof. intros H. unfold bst. simpl. rewrite H. reflexivity. Qed.

Lemma bst_post_inv x m l : bst x (BPost m) = Some l -> exists ms, nth_error (s_machs x) m = Some ms /\ b_store (m_post ms) = l.
Proof. unfold bst. simpl. destruct (nth_error (s_machs x) m) as [ms|]; simpl; intros H; inversion H. eauto. Qed.


Lemma opt_nat_eqb_eq a j : opt_nat_eqb a (Some j) = true -> a = Some j.
Proof. destruct a as [n|]; simpl; intros H; [apply Nat.eqb_eq in H; congruence|discriminate]. Qed.

Lemma next_in b ty n : get_next_job_from_buffer b ty = Some n -> In n (b_store b).
Proof.
  unfold get_next_job_from_buffer. destruct (b_store b) as [|h t]; [discriminate|]. destruct ty; intros H; inversion H; subst.
  - left; reflexivity.
  - apply last_in.
  - left; reflexivity.
Qed.

Definition unclaimed (x : state) (k : nat) : Prop := forall t st oc, tc x t <> Some (st, oc, Some k).

(* the waiting time is a TimeDependency only on the handled transition itself, for a job that lies in a machine's ordered
   post-buffer behind the job the buffer releases next, which no AGV has claimed *)
Lemma waiting_time_dep x tr j b k d :
  WFS i x -> DEPI x -> tr_job tr = Some j -> get_waiting_time i x tr = Ok (ODep b k d) ->
  d = tr /\ unclaimed x k /\ exists m ms mc, b = BPost m /\ nth_error (s_machs x) m = Some ms /\ nth_error (i_machs i) m = Some mc
    /\ rel_ok (bc_type (mc_post mc)) (b_store (m_post ms)) k j.
Proof.
  intros W D Hj H. unfold get_waiting_time in H. rewrite Hj in H. simpl in H.
  destruct (get_job x j) as [jb|] eqn:Ej; simpl in H; [|discriminate]. apply get_job_ok in Ej.
  destruct (get_bcfg i (j_loc jb)) as [c|] eqn:Ec; simpl in H; [|discriminate].
  assert (Mcase : forall m, (j_loc jb = BPre m \/ j_loc jb = BIn m \/ j_loc jb = BPost m) ->
     (ms <- get_mach x m ;;
      if mem_nat j (b_store (m_post ms)) then
        rdy <- is_ready i x j jb ;;
        if rdy : bool then Ok (OAt (s_now x))
        else
          nxt <- of_opt EInvalidValue (get_next_job_from_buffer (m_post ms) (bc_type c)) ;;
          let ts := first_transport_with_job x nxt in
          njb <- get_job x nxt ;;
          if job_is_done i njb then Ok (OAt (s_now x))
          else match ts with
               | None => Ok (ODep (j_loc jb) nxt tr)
               | Some t => Ok (t_occ t)
               end
      else
        k <- of_opt EMissingProc (first_proc jb) ;;
        o <- of_opt EMissingProc (nth_error (j_ops jb) k) ;;
        Ok (occ_of_time (o_end o))) = Ok (ODep b k d) ->
     d = tr /\ unclaimed x k /\ exists m ms mc, b = BPost m /\ nth_error (s_machs x) m = Some ms /\ nth_error (i_machs i) m = Some mc
       /\ rel_ok (bc_type (mc_post mc)) (b_store (m_post ms)) k j).
  { intros m Hloc Hm. unfold get_mach in Hm.
    destruct (nth_error (s_machs x) m) as [ms|] eqn:E2; simpl in Hm; [|discriminate].
    destruct (mem_nat j (b_store (m_post ms))) eqn:Emem.
    - apply mem_nat_In in Emem.
      assert (Hpost : get_buf x (BPost m) = Some (m_post ms)) by (simpl; rewrite E2; reflexivity).
      pose proof (stored_loc _ _ _ _ W Hpost Emem) as Hl. rewrite (jloc_of _ _ _ Ej) in Hl. inversion Hl as [Hl'].
      rewrite Hl' in Ec. simpl in Ec. destruct (nth_error (i_machs i) m) as [mc|] eqn:Emc; [|discriminate]. inversion Ec; subst c.
      pose proof (ws_nodup _ _ _ W Hpost) as ND.
      destruct (is_ready i x j jb) as [rdy|] eqn:Er; simpl in Hm; [|discriminate]. destruct rdy; [discriminate|].
      destruct (get_next_job_from_buffer (m_post ms) (bc_type (mc_post mc))) as [nxt|] eqn:En; simpl in Hm; [|discriminate].
      destruct (get_job x nxt) as [njb|]; simpl in Hm; [|discriminate].
      destruct (job_is_done i njb); [discriminate|].
      assert (Hrel : rel_ok (bc_type (mc_post mc)) (b_store (m_post ms)) nxt j).
      { apply not_ready_rel; auto. unfold is_ready in Er. rewrite Hl', Hpost in Er. simpl in Er. rewrite Emc in Er. simpl in Er.
        destruct (is_correct_position (index_of j (b_store (m_post ms))) (length (b_store (m_post ms))) (bc_type (mc_post mc))) as [cp|]; simpl in Er; [|discriminate].
        inversion Er; subst. reflexivity. }
      destruct (first_transport_with_job x nxt) as [t2|] eqn:Ef.
      + (* a copy would be another AGV's dependency - but that AGV's claim is the job the buffer releases next *)
        exfalso. unfold first_transport_with_job in Ef. apply find_some in Ef. destruct Ef as [Hin2 Hj2]. apply opt_nat_eqb_eq in Hj2.
        inversion Hm as [Ho2]. apply In_nth_error in Hin2. destruct Hin2 as [t' Ht'].
        pose proof (tc_of _ _ _ Ht') as Htc. rewrite Ho2, Hj2 in Htc.
        destruct (D _ _ _ _ _ _ Htc) as [_ [j2 [m2 [ms2 [mc2 [Ej2 [Eb [Hms2 [Hmc2 [_ [_ [_ R2]]]]]]]]]]]]. inversion Ej2; subst j2.
        assert (Hpost2 : get_buf x (BPost m2) = Some (m_post ms2)) by (simpl; rewrite Hms2; reflexivity).
        assert (Em : BPost m2 = BPost m).
        { apply (ws_unique i x (BPost m2) (BPost m) (m_post ms2) (m_post ms) nxt W Hpost2 (proj2 (rel_in _ _ _ _ R2)) Hpost (next_in _ _ _ En)). }
        inversion Em; subst m2. rewrite E2 in Hms2. inversion Hms2; subst ms2. rewrite Emc in Hmc2. inversion Hmc2; subst mc2.
        apply (rel_not_next _ _ _ _ ND R2). exact En.
      + inversion Hm; subst. split; [reflexivity|]. split.
        * intros t st oc Htc. unfold tc in Htc. destruct (nth_error (s_trans x) t) as [ts|] eqn:Ets; [|discriminate]. simpl in Htc. inversion Htc.
          unfold first_transport_with_job in Ef. pose proof (find_none _ _ Ef ts (nth_error_In _ _ Ets)) as Hf. simpl in Hf.
          match goal with E' : t_job ts = Some _ |- _ => rewrite E' in Hf end. simpl in Hf. rewrite Nat.eqb_refl in Hf. discriminate.
        * exists m, ms, mc. rewrite Hl'. auto.
    - destruct (first_proc jb) as [k0|]; simpl in Hm; [|discriminate].
      destruct (nth_error (j_ops jb) k0) as [o|]; simpl in Hm; [|discriminate].
      destruct (o_end o); discriminate. }
  destruct (j_loc jb) as [n|m|m|m|t] eqn:El.
  - discriminate.
  - apply (Mcase m); auto.
  - apply (Mcase m); auto.
  - apply (Mcase m); auto.
  - discriminate.
Qed.


(* the acting AGV's new (phase, occupied_till, claim), with the phase where it matters *)
Lemma apply_tc_self2 x tr x' t ts :
  apply_transition sigma i x tr = Ok x' -> tr_comp tr = CT t -> nth_error (s_trans x) t = Some ts ->
  exists st oc jb, tc x' t = Some (st, oc, jb)
    /\ ((exists z, oc = OAt z) \/ (oc = t_occ ts /\ t_st ts = TOutage)
        \/ (get_waiting_time i x tr = Ok oc /\ wkind tr /\ st = TWaiting /\ jb = t_job ts /\ (exists j, tr_job tr = Some j)
            /\ forall L, bst x' L = bst x L)).
Proof.
  intros H Hc Hts.
  destruct (apply_transport sigma i _ _ _ _ _ Hc Hts H) as [[Hst [Hnw C]]|[[_ [Hnw C]]|[[_ [Hnw C]]|[[_ [_ C]]|[[Hst [_ C]]|[_ [Hnw C]]]]]]].
  - unfold h_t_idle_working in C. inv_all C. inversion C; subst; clear C.
    rewrite tc_set_trans_ctl, Nat.eqb_refl, (tc_of _ _ _ Hts). simpl. do 3 eexists. split; [reflexivity|]. left. eauto.
  - unfold h_t_pickup_waiting in C. inv_all C. inversion C; subst; clear C.
    match goal with E' : of_opt _ (tr_job tr) = Ok ?jn |- _ => apply of_opt_ok in E'; rename E' into Ej end.
    rewrite tc_set_trans_ctl, Nat.eqb_refl, (tc_of _ _ _ Hts). simpl. do 3 eexists. split; [reflexivity|].
    right; right. unfold wkind. split; auto. split; auto. split; auto. split; auto. split; [eauto|]. intros L. apply bst_set_trans_ctl.
  - destruct (post_to_transit sigma i _ _ _ _ _ Hts C) as [j [jb [sb [sc [Hj [Hjb [Hsb [Hsc _]]]]]]]].
    unfold h_t_to_transit in C. rewrite Hj in C. simpl in C. unfold get_job in C. rewrite Hjb in C. simpl in C.
    rewrite Hsb, Hsc in C. simpl in C. inv1 C. inv1 C.
    { unfold h_t_waiting_waiting in C. inv_all C. inversion C; subst; clear C.
      rewrite tc_set_trans_ctl, Nat.eqb_refl, (tc_of _ _ _ Hts). simpl. do 3 eexists. split; [reflexivity|].
      right; right. unfold wkind. split; auto. split; auto. split; auto. split; auto. split; [eauto|]. intros L. apply bst_set_trans_ctl. }
    inv_all C. inversion C; subst; clear C.
    assert (Hn2 : j_loc jb <> BAgv t) by (intros Eq; rewrite Eq in *; discriminate).
    match goal with E' : move_job _ _ _ _ _ = Ok ?y |- _ => pose proof (move_job_moved i _ _ _ _ _ Hn2 E') as M end.
    rewrite tc_with_sto, tc_set_trans_ctl, Nat.eqb_refl, (tc_moved i _ _ _ _ _ t M), (tc_of _ _ _ Hts). simpl.
    do 3 eexists. split; [reflexivity|]. left. eauto.
  - unfold h_t_transit_outage in C. inv_all C. inversion C; subst; clear C.
    match goal with E' : move_job _ _ _ (BAgv t) ?B = Ok ?y |- _ =>
      assert (Hn2 : BAgv t <> B) by
        (match goal with E'' : match ?d with PM _ => _ | PB _ => _ | PT _ => _ end = Ok B |- _ =>
           destruct d; inv_all E''; inversion E''; subst; congruence end);
      pose proof (move_job_moved i _ _ _ _ _ Hn2 E') as M end.
    rewrite tc_with_sto, tc_set_trans_ctl, Nat.eqb_refl, (tc_moved i _ _ _ _ _ t M), (tc_of _ _ _ Hts). simpl.
    do 3 eexists. split; [reflexivity|]. left. eauto.
  - unfold h_t_outage_idle in C. inversion C; subst; clear C.
    rewrite tc_set_trans_ctl, Nat.eqb_refl, (tc_of _ _ _ Hts). simpl. do 3 eexists. split; [reflexivity|]. right; left. auto.
  - unfold h_t_waiting_waiting in C. inv_all C. inversion C; subst; clear C.
    rewrite tc_set_trans_ctl, Nat.eqb_refl, (tc_of _ _ _ Hts). simpl. do 3 eexists. split; [reflexivity|].
    right; right. unfold wkind. split; auto. split; auto. split; auto. split; auto. split; [|intros L; apply bst_set_trans_ctl].
    unfold get_waiting_time in *. destruct (tr_job tr) as [j|]; [eauto|].
    match goal with E' : bind (of_opt _ None) _ = Ok _ |- _ => simpl in E'; discriminate end.
Qed.


(* ---------- DEPI survives every applied transition ---------- *)
Theorem apply_preserves_DEPI x tr x' :
  WFS i x -> DEPI x ->
  (forall t, tr_comp tr = CT t -> wkind tr -> exists j st oc, tr_job tr = Some j /\ tc x t = Some (st, oc, Some j)) ->
  (forall t0 j0, tr_comp tr = CT t0 -> tr_new tr = NT TTransit -> tr_job tr = Some j0 ->
     forall t st b d jb, tc x t <> Some (st, ODep b j0 d, jb)) ->
  apply_transition sigma i x tr = Ok x' -> DEPI x'.
Proof.
  intros W D Hclaim Hpick H t st b k d jb Htc'.
  destruct (comp_eq_dec (tr_comp tr) (CT t)) as [Hc|Hn].
  - (* the acting AGV *)
    destruct (nth_error (s_trans x) t) as [ts|] eqn:Hts; [|unfold apply_transition in H; rewrite Hc, Hts in H; discriminate].
    destruct (apply_tc_self2 _ _ _ _ _ H Hc Hts) as [st' [oc' [jb' [E [[z Hz]|[[Ho Hst]|[Hw [Hk [Es [Ej [[j Hj] Hb]]]]]]]]]]];
      rewrite E in Htc'; inversion Htc' as [[I1 I2 I3]].
    + rewrite Hz in I2. discriminate.
    + exfalso. pose proof (tc_of _ _ _ Hts) as Htc. rewrite <- Ho, I2 in Htc. destruct (D _ _ _ _ _ _ Htc) as [Ew _]. congruence.
    + rewrite I2 in Hw. subst st' jb'.
      destruct (waiting_time_dep _ _ _ _ _ _ W D Hj Hw) as [-> [_ [m [ms [mc [-> [Hms [Hmc R]]]]]]]].
      destruct (Hclaim t Hc Hk) as [j' [st0 [oc0 [Hj' Htc0]]]]. rewrite Hj in Hj'. inversion Hj'; subst j'.
      rewrite (tc_of _ _ _ Hts) in Htc0. inversion Htc0 as [[A1 A2 A3]].
      split; [symmetry; exact I1|]. pose proof (Hb (BPost m)) as Hp. rewrite (post_bst _ _ _ Hms) in Hp.
      destruct (bst_post_inv _ _ _ Hp) as [ms' [Hms' El]].
      exists j, m, ms', mc. rewrite El. rewrite <- I3, A3. repeat split; auto.
  - (* another component acts: the AGV's triple stays, the post-buffer may gain a job at the back or lose the job it releases *)
    rewrite (apply_tc_other sigma i _ _ _ t H Hn) in Htc'.
    destruct (D _ _ _ _ _ _ Htc') as [Es [j [m [ms [mc [Ej [Eb [Hms [Hmc [Hcd [Hjd [Hk R]]]]]]]]]]]].
    split; [exact Es|].
    assert (Hpost : get_buf x (BPost m) = Some (m_post ms)) by (simpl; rewrite Hms; reflexivity).
    assert (Goal : exists ms', nth_error (s_machs x') m = Some ms' /\ rel_ok (bc_type (mc_post mc)) (b_store (m_post ms')) k j).
    { destruct (apply_store_eff sigma i _ _ _ H) as [Same|[j1 [A [B [Hne [HA [HB [Hoth Hkind]]]]]]]].
      - pose proof (Same (BPost m)) as Hp. rewrite (post_bst _ _ _ Hms) in Hp. destruct (bst_post_inv _ _ _ Hp) as [ms' [Hms' El]].
        exists ms'. rewrite El. auto.
      - destruct (bid_eq_dec (BPost m) A) as [EA|NA]; [|destruct (bid_eq_dec (BPost m) B) as [EB|NB]].
        + (* a job leaves this post-buffer: it is the one at the release position, hence neither k nor j *)
          subst A. rewrite (post_bst _ _ _ Hms) in HA. simpl in HA. destruct (bst_post_inv _ _ _ HA) as [ms' [Hms' El]].
          exists ms'. split; auto. rewrite El.
          destruct Hkind as [[m0 [_ [[E0 _]|[E0 _]]]]|[[t0 [Hc0 [Hn0 [Hj0 [Hl0 _]]]]]|[t0 [_ [_ [E0 _]]]]]]; try discriminate.
          assert (Hk1 : k <> j1).
          { intros ->. apply (Hpick t0 j1 Hc0 Hn0 Hj0 t st b d jb). exact Htc'. }
          assert (Hj1 : j <> j1).
          { intros ->. destruct (nth_error (s_trans x) t0) as [ts0|] eqn:Hts0; [|unfold apply_transition in H; rewrite Hc0, Hts0 in H; discriminate].
            destruct (apply_transport sigma i _ _ _ _ _ Hc0 Hts0 H) as [[_ [E0 _]]|[[_ [E0 _]]|[[_ [_ C]]|[[_ [E0 _]]|[[_ [E0 _]]|[_ [E0 _]]]]]]];
              try (rewrite Hn0 in E0; discriminate).
            destruct (post_to_transit sigma i _ _ _ _ _ Hts0 C) as [j2 [jb2 [sb [sc [Hj2 [Hjb2 [Hsb [Hsc Hd]]]]]]]].
            rewrite Hj0 in Hj2. inversion Hj2; subst j2. rewrite (jloc_of _ _ _ Hjb2) in Hl0. inversion Hl0 as [Hl1].
            rewrite Hl1, Hpost in Hsb. inversion Hsb; subst sb. rewrite Hl1 in Hsc. simpl in Hsc. rewrite Hmc in Hsc. inversion Hsc; subst sc.
            destruct Hd as [[p [Hp [Hcp Hww]]]|[dst [c [trv [Hcp _]]]]].
            - (* blocked: nothing moved *)
              unfold h_t_waiting_waiting in Hww. inv_all Hww. inversion Hww; subst.
              pose proof (HA) as HA'. rewrite bst_set_trans_ctl, (post_bst _ _ _ Hms) in HA'. simpl in HA'. inversion HA' as [Hrm].
              assert (Hin : In j1 (b_store (m_post ms))) by (eapply index_of_some_in; eauto).
              assert (Hnin : ~ In j1 (remove_nat j1 (b_store (m_post ms)))).
              { unfold remove_nat. intros Hi. apply filter_In in Hi. destruct Hi as [_ Hi]. rewrite Nat.eqb_refl in Hi. discriminate. }
              rewrite <- Hrm in Hnin. contradiction.
            - assert (Hin : In j1 (b_store (m_post ms))) by (apply (proj2 (rel_in _ _ _ _ R))).
              destruct (index_of_in _ _ Hin) as [p [Hp _]]. specialize (Hcp p Hp). rewrite <- Hp in Hcp.
              assert (Hty : bc_type (mc_post mc) <> Flex) by (intros Ef; rewrite Ef in R; exact R).
              pose proof (ready_is_next _ _ _ Hin Hcp Hty) as Hnext.
              apply (rel_not_next _ _ _ _ (ws_nodup _ _ _ W Hpost) R Hnext). }
          apply rel_remove; auto.
        + subst B. rewrite (post_bst _ _ _ Hms) in HB. simpl in HB. destruct (bst_post_inv _ _ _ HB) as [ms' [Hms' El]].
          exists ms'. split; auto. rewrite El. apply rel_app. exact R.
        + pose proof (Hoth (BPost m) NA NB) as Hp. rewrite (post_bst _ _ _ Hms) in Hp. destruct (bst_post_inv _ _ _ Hp) as [ms' [Hms' El]].
          exists ms'. rewrite El. auto. }
    destruct Goal as [ms' [Hms' R']]. exists j, m, ms', mc. repeat split; auto.
Qed.

(* ---------- the batch invariant ---------- *)
Definition is_tworking (tr : transition) : bool := match tr_new tr with NT TWorking => true | _ => false end.
Definition core (R : list transition) : list transition := filter (fun tr => negb (is_tworking tr)) R.
Definition comps (R : list transition) : list comp := map tr_comp R.

Definition outside (L : bid) : Prop := (forall m, L <> BIn m) /\ (forall m, L <> BPre m) /\ (forall t, L <> BAgv t).

Definition loc_fact (x : state) (R : list transition) (j : nat) : Prop :=
  (exists L, jloc x j = Some L /\ outside L)
  \/ (exists t0, jloc x j = Some (BAgv t0) /\ ~ In (CT t0) (comps (core R))).

Definition pend (x : state) (R : list transition) (tr : transition) : Prop :=
  tr_new tr = NT TTransit ->
  exists t j oc, tr_comp tr = CT t /\ tr_job tr = Some j /\ tc x t = Some (TWaiting, oc, Some j) /\ loc_fact x R j.

(* a -> WAITING / -> TRANSIT transition names the claim of its AGV, which is on its way to or at the pickup point *)
Definition pendw (x : state) (tr : transition) : Prop :=
  wkind tr -> exists t j st oc, tr_comp tr = CT t /\ tr_job tr = Some j /\ tc x t = Some (st, oc, Some j)
                                /\ (st = TPickup \/ st = TWaiting).

(* the dispatches come last *)
Definition Qstruct (R : list transition) : Prop :=
  exists A B, R = A ++ B /\ (forall tr, In tr A -> is_tworking tr = false) /\ (forall tr, In tr B -> is_tworking tr = true).

(* an AGV t depends on job k, AGV t2 has claimed k: either t2 was dispatched a moment ago (only dispatches are left in the
   batch), or the dependency of t is about to be refreshed in this batch and t2 does not pick anything up in it *)
Definition Qdep (R : list transition) (x : state) : Prop :=
  forall t st b k d jb t2 st2 oc2, tc x t = Some (st, ODep b k d, jb) -> tc x t2 = Some (st2, oc2, Some k) ->
    (st2 = TPickup /\ forall tr, In tr R -> is_tworking tr = true)
    \/ (In d R /\ forall tr, In tr R -> tr_comp tr = CT t2 -> tr_new tr <> NT TTransit).

(* between two batches: whoever has claimed a job that an AGV depends on has only just been dispatched *)
Definition BI (x : state) : Prop :=
  forall t st b k d jb t2 st2 oc2, tc x t = Some (st, ODep b k d, jb) -> tc x t2 = Some (st2, oc2, Some k) -> st2 = TPickup.

Definition Q (R : list transition) (x : state) : Prop :=
  NoDup (comps (core R)) /\ (forall tr, In tr R -> pend x R tr) /\ (forall tr, In tr R -> pendw x tr) /\ Qstruct R /\ Qdep R x.

Definition J (x : state) : Prop := WFS i x /\ INV i x /\ DEPI x.

Lemma core_cons tr R : core (tr :: R) = if is_tworking tr then core R else tr :: core R.
Proof. unfold core. simpl. destruct (is_tworking tr); reflexivity. Qed.

Lemma in_core tr R : In tr R -> is_tworking tr = false -> In tr (core R).
Proof. intros H E. unfold core. apply filter_In. split; auto. rewrite E. reflexivity. Qed.

Lemma not_in_core_mono c tr R : ~ In c (comps (core (tr :: R))) -> ~ In c (comps (core R)).
Proof. rewrite core_cons. destruct (is_tworking tr); simpl; tauto. Qed.

Lemma NoDup_core_tail tr R : NoDup (comps (core (tr :: R))) -> NoDup (comps (core R)).
Proof. rewrite core_cons. destruct (is_tworking tr); simpl; auto. intros H. inversion H; auto. Qed.

(* the side conditions for the head of the batch, from its pending fact *)
Lemma head_sides x tr R x' :
  WFS i x -> FE i x -> pend x R tr -> apply_transition sigma i x tr = Ok x' -> side2 tr x' = true.
Proof.
  intros W F P H. unfold side2, transit_side_b, transit_claim_b.
  destruct (tr_new tr) as [s|s] eqn:En; [destruct (tr_comp tr); reflexivity|].
  destruct s; try (destruct (tr_comp tr); reflexivity).
  destruct (P En) as [t [j [oc [Hc [Hj [Htc Hloc]]]]]].
  unfold tc in Htc. destruct (nth_error (s_trans x) t) as [ts|] eqn:Hts; [|discriminate]. simpl in Htc. inversion Htc as [[E1 E2 E3]].
  destruct (apply_transit_spec sigma i _ _ _ _ _ H Hc En Hts) as [j' [jb [jb' [ts' [Hj' [Hjb [Hjb' [Hops [Hts' Hjob]]]]]]]]].
  rewrite Hj in Hj'. inversion Hj'; subst j'. rewrite Hj, Hc, Hjb', Hts'. rewrite Hjob, E3. simpl. rewrite Nat.eqb_refl, andb_true_r.
  assert (Hrun : is_job_running jb = false).
  { eapply (outside_not_running i); eauto. intros m Eq.
    destruct Hloc as [[L [HL [O1 _]]]|[t0 [HL _]]]; rewrite (jloc_of _ _ _ Hjb), Eq in HL; inversion HL; subst.
    apply (O1 m); reflexivity. }
  unfold is_job_running in *. rewrite Hops, Hrun. reflexivity.
Qed.



(* the triple of an AGV that still has a (non-dispatch) transition in the batch is not touched by the head *)
Lemma tc_stable x tr0 R x' tr1 t st oc jb :
  NoDup (comps (core (tr0 :: R))) -> apply_transition sigma i x tr0 = Ok x' -> In tr1 R -> is_tworking tr1 = false ->
  tr_comp tr1 = CT t -> tc x t = Some (st, oc, jb) -> st <> TIdle -> tc x' t = tc x t.
Proof.
  intros ND H Hin Ew1 Hc Htc Hst.
  assert (Hcore1 : In tr1 (core R)) by (apply in_core; auto).
  apply (apply_tc_other sigma i _ _ _ t H). intros Hc0.
  destruct (is_tworking tr0) eqn:Ew.
  - unfold tc in Htc. destruct (nth_error (s_trans x) t) as [ts|] eqn:Hts; [|discriminate]. simpl in Htc. inversion Htc as [[E1 E2 E3]].
    unfold is_tworking in Ew. destruct (tr_new tr0) as [s0|s0] eqn:En0; [discriminate|]. destruct s0; try discriminate.
    destruct (apply_transport sigma i _ _ _ _ _ Hc0 Hts H) as [[E _]|[[_ [E _]]|[[_ [E _]]|[[_ [E _]]|[[_ [E _]]|[_ [E _]]]]]]];
      try (rewrite En0 in E; discriminate). congruence.
  - rewrite core_cons, Ew in ND. simpl in ND. inversion ND as [|? ? Hnin _]. apply Hnin.
    rewrite Hc0, <- Hc. apply in_map. exact Hcore1.
Qed.

Lemma Qstruct_tail tr0 R : Qstruct (tr0 :: R) -> Qstruct R /\ (is_tworking tr0 = true -> forall tr, In tr R -> is_tworking tr = true).
Proof.
  intros [A [B [E [HA HB]]]]. destruct A as [|a A'].
  - simpl in E. subst B. split.
    + exists [], R. split; [reflexivity|]. split; [intros tr []|]. intros tr Hin. apply HB. right; auto.
    + intros _ tr Hin. apply HB. right; auto.
  - simpl in E. inversion E; subst a R. split.
    + exists A', B. split; [reflexivity|]. split; auto. intros tr Hin. apply HA. right; auto.
    + intros Ht. rewrite (HA tr0 (or_introl eq_refl)) in Ht. discriminate.
Qed.

Lemma wkind_not_tworking tr : wkind tr -> is_tworking tr = false.
Proof. unfold is_tworking. intros [-> | ->]; reflexivity. Qed.

Lemma Qdep_step x tr0 R x' :
  WFS i x -> DEPI x -> Qstruct (tr0 :: R) -> Qdep (tr0 :: R) x -> apply_transition sigma i x tr0 = Ok x' -> Qdep R x'.
Proof.
  intros W D Hs HQ H t st b k d jb t2 st2 oc2 Ht Ht2.
  destruct (Qstruct_tail _ _ Hs) as [_ Htw].
  destruct (comp_eq_dec (tr_comp tr0) (CT t)) as [Hc|Hn].
  - (* the depending AGV acts: a new dependency is on a job nobody has claimed *)
    exfalso.
    destruct (nth_error (s_trans x) t) as [ts|] eqn:Hts; [|unfold apply_transition in H; rewrite Hc, Hts in H; discriminate].
    destruct (apply_tc_self2 _ _ _ _ _ H Hc Hts) as [st' [oc' [jb' [E [[z Hz]|[[Ho Hst]|[Hw [Hk [Es [Ej [[j Hj] Hb]]]]]]]]]]];
      rewrite E in Ht; inversion Ht as [[I1 I2 I3]].
    + rewrite Hz in I2. discriminate.
    + pose proof (tc_of _ _ _ Hts) as Htc. rewrite <- Ho, I2 in Htc. destruct (D _ _ _ _ _ _ Htc) as [Ew _]. congruence.
    + rewrite I2 in Hw. destruct (waiting_time_dep _ _ _ _ _ _ W D Hj Hw) as [_ [Hun _]].
      destruct (comp_eq_dec (tr_comp tr0) (CT t2)) as [Hc2|Hn2].
      * rewrite Hc in Hc2. inversion Hc2; subst t2. rewrite E in Ht2. inversion Ht2 as [[K1 K2 K3]].
        apply (Hun t (t_st ts) (t_occ ts)). rewrite (tc_of _ _ _ Hts), <- K3, Ej. reflexivity.
      * rewrite (apply_tc_other sigma i _ _ _ t2 H Hn2) in Ht2. exact (Hun _ _ _ Ht2).
  - (* another component acts: the dependency is the old one *)
    rewrite (apply_tc_other sigma i _ _ _ t H Hn) in Ht.
    destruct (D _ _ _ _ _ _ Ht) as [_ [j [m [ms [mc [_ [_ [_ [_ [Hcd _]]]]]]]]]].
    assert (Hd0 : d <> tr0) by (intros ->; congruence).
    assert (Keep : forall st2x oc2x, tc x t2 = Some (st2x, oc2x, Some k) ->
              (st2x = TPickup /\ (forall tr, In tr (tr0 :: R) -> is_tworking tr = true))
              \/ (In d R /\ forall tr, In tr R -> tr_comp tr = CT t2 -> tr_new tr <> NT TTransit)).
    { intros st2x oc2x Hx. destruct (HQ _ _ _ _ _ _ _ _ _ Ht Hx) as [[A1 A2]|[[A1|A1] A2]]; [left; auto|congruence|].
      right. split; auto. intros tr Hin. apply A2. right; auto. }
    destruct (comp_eq_dec (tr_comp tr0) (CT t2)) as [Hc2|Hn2].
    + destruct (nth_error (s_trans x) t2) as [ts2|] eqn:Hts2; [|unfold apply_transition in H; rewrite Hc2, Hts2 in H; discriminate].
      destruct (apply_tc_self sigma i _ _ _ _ _ H Hc2 Hts2) as [st' [oc' [jb' [E [_ [Hjb|[Hjb|[Hnw [Hidle [Hjb _]]]]]]]]]];
        rewrite E in Ht2; inversion Ht2 as [[K1 K2 K3]].
      * (* the claim is the old one *)
        assert (Hx : tc x t2 = Some (t_st ts2, t_occ ts2, Some k)) by (rewrite (tc_of _ _ _ Hts2); congruence).
        destruct (Keep _ _ Hx) as [[A1 A2]|A]; [|right; exact A].
        exfalso. pose proof (A2 tr0 (or_introl eq_refl)) as Ew. unfold is_tworking in Ew.
        destruct (tr_new tr0) as [s0|s0] eqn:En0; [discriminate|]. destruct s0; try discriminate.
        destruct (apply_transport sigma i _ _ _ _ _ Hc2 Hts2 H) as [[E0 _]|[[_ [E0 _]]|[[_ [E0 _]]|[[_ [E0 _]]|[[_ [E0 _]]|[_ [E0 _]]]]]]];
          try (rewrite En0 in E0; discriminate). congruence.
      * congruence.
      * (* dispatched now: only dispatches are left, and the AGV is on its way *)
        left. assert (Ew : is_tworking tr0 = true) by (unfold is_tworking; rewrite Hnw; reflexivity).
        split; [|exact (Htw Ew)].
        destruct (apply_transport sigma i _ _ _ _ _ Hc2 Hts2 H) as [[_ [_ C]]|[[_ [E0 _]]|[[_ [E0 _]]|[[_ [E0 _]]|[[_ [E0 _]]|[_ [E0 _]]]]]]];
          try (rewrite Hnw in E0; discriminate).
        destruct (post_dispatch i _ _ _ _ _ Hts2 C) as [j0 [p0 [jb0 [tg [c0 [ttp [_ [_ [_ [_ [_ [_ [Hrec _]]]]]]]]]]]]].
        rewrite (tc_of _ _ _ Hrec) in E. simpl in E. inversion E. congruence.
    + rewrite (apply_tc_other sigma i _ _ _ t2 H Hn2) in Ht2.
      destruct (Keep _ _ Ht2) as [[A1 A2]|A]; [|right; exact A]. left. split; auto. intros tr Hin. apply A2. right; auto.
Qed.

Lemma pend_step x tr R x' :
  WFS i x -> NoDup (comps (core (tr :: R))) -> (forall tr1, In tr1 (tr :: R) -> pend x (tr :: R) tr1) ->
  apply_transition sigma i x tr = Ok x' -> forall tr1, In tr1 R -> pend x' R tr1.
Proof.
  intros W ND HP H.
  intros tr1 Hin En. destruct (HP tr1 (or_intror Hin) En) as [t [j [oc [Hc [Hj [Htc Hloc]]]]]].
  assert (Hcore1 : In tr1 (core R)) by (apply in_core; auto; unfold is_tworking; rewrite En; reflexivity).
  exists t, j, oc. split; auto. split; auto. split.
  - (* the AGV's triple: the head is a transition of another component *)
    rewrite (apply_tc_other sigma i _ _ _ t H); auto. intros Hc0.
    destruct (is_tworking tr) eqn:Ew.
    + (* a dispatch needs an idle AGV *)
      unfold tc in Htc. destruct (nth_error (s_trans x) t) as [ts|] eqn:Hts; [|discriminate]. simpl in Htc. inversion Htc as [[E1 E2 E3]].
      unfold is_tworking in Ew. destruct (tr_new tr) as [s|s] eqn:En0; [discriminate|]. destruct s; try discriminate.
      destruct (apply_transport sigma i _ _ _ _ _ Hc0 Hts H) as [[E _]|[[_ [E _]]|[[_ [E _]]|[[_ [E _]]|[[_ [E _]]|[_ [E _]]]]]]];
        try (rewrite En0 in E; discriminate). rewrite E1 in E. discriminate.
    + rewrite core_cons, Ew in ND. simpl in ND. inversion ND as [|? ? Hnin _]. apply Hnin.
      rewrite Hc0, <- Hc. apply in_map. exact Hcore1.
  - (* the job's place *)
    destruct (apply_loc_eff sigma i _ _ _ H j) as [Same|[A [B [a [Ha [Hina [HB Hk]]]]]]].
    + destruct Hloc as [[L [HL O]]|[t0 [HL Hn]]].
      * left. exists L. rewrite Same. auto.
      * right. exists t0. rewrite Same. split; auto. eapply not_in_core_mono; eauto.
    + pose proof (stored_loc _ _ _ _ W Ha Hina) as HA.
      destruct Hloc as [[L [HL [O1 [O2 O3]]]]|[t0 [HL Hn]]]; rewrite HA in HL; inversion HL; subst.
      * destruct Hk as [[m [_ [[E _]|[E _]]]]|[[t1 [Hc1 [Hn1 [_ [_ [-> _]]]]]]|[t1 [_ [_ E]]]]].
        -- exfalso. apply (O2 m); auto.
        -- exfalso. apply (O1 m); auto.
        -- right. exists t1. split; auto.
           assert (Ew : is_tworking tr = false) by (unfold is_tworking; rewrite Hn1; reflexivity).
           rewrite core_cons, Ew in ND. simpl in ND. inversion ND as [|? ? Hnin _]. rewrite <- Hc1. exact Hnin.
        -- exfalso. apply (O3 t1); auto.
      * exfalso. destruct Hk as [[m [_ [[E _]|[E _]]]]|[[t1 [_ [_ [_ [_ [_ E]]]]]]|[t1 [Hc1 [Hn1 E]]]]]; try discriminate.
        -- apply (E t0); reflexivity.
        -- inversion E; subst t1. apply Hn. rewrite core_cons.
           assert (Ew : is_tworking tr = false) by (unfold is_tworking; rewrite Hn1; reflexivity).
           rewrite Ew. simpl. left. auto.
Qed.


Lemma Q_step x tr R x' :
  WFS i x -> DEPI x -> Q (tr :: R) x -> apply_transition sigma i x tr = Ok x' -> Q R x'.
Proof.
  intros W D [ND [HP [HW [HS HD]]]] H. split; [eapply NoDup_core_tail; eauto|].
  split; [eapply pend_step; eauto|]. split; [|split; [exact (proj1 (Qstruct_tail _ _ HS))|eapply Qdep_step; eauto]].
  intros tr1 Hin Hk. destruct (HW tr1 (or_intror Hin) Hk) as [t [j [st [oc [Hc [Hj [Htc Hst]]]]]]].
  exists t, j, st, oc. split; auto. split; auto. split; auto.
  rewrite (tc_stable x tr R x' tr1 t st oc (Some j) ND H Hin (wkind_not_tworking _ Hk) Hc Htc); auto.
  destruct Hst as [-> | ->]; discriminate.
Qed.

Theorem J_apply x tr R x' :
  NO x -> J x -> Q (tr :: R) x -> is_transition_valid x tr = Ok true -> apply_transition sigma i x tr = Ok x' ->
  J x' /\ Q R x' /\ side2 tr x' = true.
Proof.
  intros N [W [I D]] HQ Hv Ha.
  assert (S : side2 tr x' = true).
  { destruct I as [F _]. eapply head_sides; eauto. destruct HQ as [_ [HP _]]. apply HP. left; reflexivity. }
  split; [|split; [eapply Q_step; eauto|exact S]].
  split; [eapply apply_preserves_WFS; eauto|]. split; [eapply INV_apply; eauto|].
  destruct HQ as [_ [HP [HW [HS HD]]]].
  apply (apply_preserves_DEPI x tr x' W D); auto.
  - intros t Hc Hk. destruct (HW tr (or_introl eq_refl) Hk) as [t1 [j [st [oc [Hc1 [Hj [Htc _]]]]]]].
    rewrite Hc in Hc1. inversion Hc1; subst t1. eauto.
  - intros t0 j0 Hc Hn Hj t st b d jb Htc.
    destruct (HP tr (or_introl eq_refl) Hn) as [t1 [j [oc [Hc1 [Hj1 [Htc1 _]]]]]].
    rewrite Hc in Hc1. inversion Hc1; subst t1. rewrite Hj in Hj1. inversion Hj1; subst j.
    destruct (HD _ _ _ _ _ _ _ _ _ Htc Htc1) as [[_ A]|[_ A]].
    + pose proof (A tr (or_introl eq_refl)) as Ew. unfold is_tworking in Ew. rewrite Hn in Ew. discriminate.
    + apply (A tr (or_introl eq_refl) Hc Hn).
Qed.

Lemma J_now x t : J x -> (s_now x <= t)%Z -> J (set_now x t).
Proof.
  intros [W [I D]] H. split; [apply WFS_set_now; auto|]. split; [apply INV_now; auto|apply DEPI_set_now; auto].
Qed.

Lemma BI_end x : J x -> Q [] x -> BI x.
Proof.
  intros _ [_ [_ [_ [_ HD]]]] t st b k d jb t2 st2 oc2 H1 H2.
  destruct (HD _ _ _ _ _ _ _ _ _ H1 H2) as [[A _]|[[] _]]. exact A.
Qed.

Lemma BI_now x t : BI x -> BI (set_now x t).
Proof. intros B t0 st b k d jb t2 st2 oc2 H1 H2. rewrite tc_set_now in H1, H2. eapply B; eauto. Qed.

(* ---------- the batch invariant holds where the simulator creates its transitions ---------- *)
Lemma NoDup_map_filter {A B} (f : A -> B) (p : A -> bool) l : NoDup (map f l) -> NoDup (map f (filter p l)).
Proof.
  induction l as [|a r IH]; simpl; intros H; [constructor|]. inversion H as [|? ? Hn Hr]; subst.
  destruct (p a); simpl; auto. constructor; auto. intros Hin. apply Hn.
  apply in_map_iff in Hin. destruct Hin as [y [E Hy]]. apply filter_In in Hy. rewrite <- E. apply in_map. tauto.
Qed.

Lemma timed_machines_comps now : forall l m r,
  timed_machines_from i now m l = Ok r ->
  (forall tr, In tr r -> (exists k, tr_comp tr = CM k /\ m <= k) /\ exists s, tr_new tr = NM s) /\ NoDup (comps r).
Proof.
  induction l as [|ms l IH]; intros m r H; simpl in H.
  - inversion H; subst. split; [intros tr []|constructor].
  - destruct (timed_machine i now m ms) as [o|] eqn:Eo; simpl in H; [|discriminate].
    destruct (timed_machines_from i now (S m) l) as [rest|] eqn:Er; simpl in H; [|discriminate].
    destruct (IH _ _ Er) as [A B]. inversion H; subst; clear H.
    destruct o as [tr0|]; [|split; [intros tr Hin; destruct (A tr Hin) as [[k [E1 E2]] S]; split; auto; exists k; split; auto; lia|exact B]].
    assert (Hc : tr_comp tr0 = CM m /\ exists s, tr_new tr0 = NM s).
    { destruct (timed_machine_spec i _ _ _ _ Eo) as [[z [j [_ [_ [_ [Hc [_ Hs]]]]]]]|[c [j [_ [_ [_ ->]]]]]].
      - split; auto. destruct Hs as [[_ ->]|[[_ ->]|[_ ->]]]; eauto.
      - simpl. eauto. }
    destruct Hc as [Hc Hs]. split.
    + intros tr [<-|Hin]; [split; auto; exists m; auto|]. destruct (A tr Hin) as [[k [E1 E2]] S]. split; auto. exists k; split; auto; lia.
    + simpl. constructor; auto. intros Hin. apply in_map_iff in Hin. destruct Hin as [tr [E Hin]].
      destruct (A tr Hin) as [[k [E1 E2]] _]. rewrite Hc, E1 in E. inversion E. lia.
Qed.

Lemma is_ready_outside x j jb : is_ready i x j jb = Ok true -> outside (j_loc jb).
Proof.
  unfold is_ready. intros H. inv_all H. inversion H as [Hb]. apply andb_true_iff in Hb. destruct Hb as [Hb _].
  destruct (j_loc jb); try discriminate; repeat split; intros; discriminate.
Qed.


(* what one AGV contributes to the timed transitions *)
Lemma timed_slot x t ts l :
  WFS i x -> DEPI x -> nth_error (s_trans x) t = Some ts -> timed_transport i x t ts = Ok l ->
  l = [] \/ exists tr, l = [tr] /\ tr_comp tr = CT t /\ is_tworking tr = false
     /\ (wkind tr -> exists j, tr_job tr = Some j /\ t_job ts = Some j /\ (t_st ts = TPickup \/ t_st ts = TWaiting))
     /\ (tr_new tr = NT TTransit -> t_st ts = TWaiting /\ exists j L, tr_job tr = Some j /\ jloc x j = Some L /\ outside L)
     /\ ((exists z, t_occ ts = OAt z) \/ exists b k d, t_occ ts = ODep b k d /\ tr = d).
Proof.
  intros W D Hts H. unfold timed_transport in H. destruct (t_occ ts) as [|z|b k d] eqn:Eo.
  - inversion H. auto.
  - destruct (z <=? s_now x)%Z; [|inversion H; auto].
    match type of H with bind ?e _ = _ => destruct e as [o|] eqn:Ec; simpl in H; [|discriminate] end.
    inversion H; subst; clear H. destruct o as [tr|]; [|auto]. right. exists tr. split; [reflexivity|].
    assert (Pick : create_idle_to_pick i x t ts = Ok (Some tr) -> (t_st ts = TPickup \/ t_st ts = TWaiting) ->
              tr_comp tr = CT t /\ is_tworking tr = false
              /\ (wkind tr -> exists j, tr_job tr = Some j /\ t_job ts = Some j /\ (t_st ts = TPickup \/ t_st ts = TWaiting))
              /\ (tr_new tr = NT TTransit -> t_st ts = TWaiting /\ exists j L, tr_job tr = Some j /\ jloc x j = Some L /\ outside L)).
    { intros Hp Hst. unfold create_idle_to_pick in Hp.
      destruct (t_job ts) as [j|] eqn:Ej; simpl in Hp; [|discriminate].
      destruct (get_job x j) as [jb|] eqn:Ejb; simpl in Hp; [|discriminate]. apply get_job_ok in Ejb.
      destruct (is_ready i x j jb) as [rdy|] eqn:Er; simpl in Hp; [|discriminate].
      destruct (t_st ts) eqn:Es; try (destruct Hst; discriminate).
      - inversion Hp; subst tr. simpl. split; auto. split; auto. split; [intros _; exists j; auto|discriminate].
      - destruct rdy; inversion Hp; subst tr; simpl; (split; [reflexivity|]); (split; [reflexivity|]); (split; [intros _; exists j; auto|]).
        + intros _. split; auto. exists j, (j_loc jb). split; auto. split; [apply jloc_of; auto|eapply is_ready_outside; eauto].
        + discriminate. }
    destruct (t_st ts) eqn:Es; try discriminate.
    + destruct (Pick Ec (or_introl eq_refl)) as [A [B [C0 D0]]]. split; auto. split; auto. split; auto. split; auto. left; eauto.
    + unfold create_pickup_to_drop in Ec. destruct (b_store (t_buf ts)) as [|j0 [|]]; try discriminate.
      inv_all Ec. inversion Ec; subst. simpl. split; auto. split; auto.
      split; [intros [Hk|Hk]; discriminate|]. split; [discriminate|left; eauto].
    + inversion Ec; subst. simpl. split; auto. split; auto. split; [intros [Hk|Hk]; discriminate|]. split; [discriminate|left; eauto].
    + destruct (Pick Ec (or_intror eq_refl)) as [A [B [C0 D0]]]. split; auto. split; auto. split; auto. split; auto. left; eauto.
  - match type of H with bind ?e _ = _ => destruct e as [r|] eqn:Er; simpl in H; [|discriminate] end.
    inversion H; subst; clear H. destruct r; [|auto]. right. exists d. split; [reflexivity|].
    pose proof (tc_of _ _ _ Hts) as Htc. rewrite Eo in Htc.
    destruct (D _ _ _ _ _ _ Htc) as [Est [j [m [ms [mc [Ej [Eb [Hms [Hmc [Hcd [Hjd [Hk R]]]]]]]]]]]].
    split; auto. split; [apply wkind_not_tworking; auto|]. split; [intros _; exists j; auto|]. split.
    + intros _. split; auto. exists j, (BPost m). split; auto. split.
      * eapply stored_loc; eauto; [simpl; rewrite Hms; reflexivity|apply (proj2 (rel_in _ _ _ _ R))].
      * repeat split; intros; discriminate.
    + right. eauto.
Qed.

(* ... and all AGVs together *)
Lemma timed_transports_all x : forall l t r,
  (forall k ts, nth_error l k = Some ts -> nth_error (s_trans x) (t + k) = Some ts) -> WFS i x -> DEPI x ->
  timed_transports_from i x t l = Ok r ->
  (forall tr, In tr r -> exists k ts, nth_error l k = Some ts /\ timed_transport i x (t + k) ts = Ok [tr] /\ tr_comp tr = CT (t + k))
  /\ NoDup (comps r)
  /\ (forall k ts a, nth_error l k = Some ts -> timed_transport i x (t + k) ts = Ok a -> forall tr, In tr a -> In tr r).
Proof.
  induction l as [|ts l IH]; intros t r Hsub W D H; simpl in H.
  - inversion H; subst. split; [intros tr []|]. split; [constructor|]. intros k ts a Hk. destruct k; discriminate.
  - destruct (timed_transport i x t ts) as [a|] eqn:Ea; simpl in H; [|discriminate].
    destruct (timed_transports_from i x (S t) l) as [rest|] eqn:Er; simpl in H; [|discriminate].
    assert (Hsub' : forall k ts0, nth_error l k = Some ts0 -> nth_error (s_trans x) (S t + k) = Some ts0).
    { intros k ts0 Hk. replace (S t + k) with (t + S k) by lia. apply Hsub. exact Hk. }
    destruct (IH _ _ Hsub' W D Er) as [A [B C0]]. inversion H; subst; clear H.
    assert (Hts : nth_error (s_trans x) t = Some ts) by (rewrite <- (Nat.add_0_r t); apply Hsub; reflexivity).
    assert (Arest : forall tr, In tr rest -> exists k ts0, nth_error (ts :: l) k = Some ts0
              /\ timed_transport i x (t + k) ts0 = Ok [tr] /\ tr_comp tr = CT (t + k)).
    { intros tr Hin. destruct (A tr Hin) as [k [ts0 [H1 [H2 H3]]]].
      exists (S k), ts0. replace (t + S k) with (S t + k) by lia. simpl. auto. }
    assert (Crest : forall k ts0 a0, nth_error (ts :: l) k = Some ts0 -> timed_transport i x (t + k) ts0 = Ok a0 ->
              forall tr, In tr a0 -> In tr (a ++ rest)).
    { intros k ts0 a0 Hk Ht tr Hin. destruct k as [|k].
      - simpl in Hk. inversion Hk; subst ts0. rewrite Nat.add_0_r in Ht. rewrite Ea in Ht. inversion Ht; subst a0.
        apply in_app_iff. left; auto.
      - simpl in Hk. apply in_app_iff. right. apply (C0 k ts0 a0 Hk); auto. replace (S t + k) with (t + S k) by lia. exact Ht. }
    destruct (timed_slot _ _ _ _ W D Hts Ea) as [->|[tr0 [-> [Hc _]]]]; simpl.
    + split; auto.
    + split; [|split; [|exact Crest]].
      * intros tr [<-|Hin]; [|auto]. exists 0, ts. rewrite Nat.add_0_r. simpl. auto.
      * constructor; auto. intros Hin. apply in_map_iff in Hin. destruct Hin as [tr [E Hin]].
        destruct (A tr Hin) as [k [_ [_ [_ E1]]]]. rewrite Hc, E1 in E. inversion E. lia.
Qed.

Lemma timed_transport_comp x b tr :
  J x -> create_timed_transport_transitions i x = Ok b -> In tr b -> exists k, tr_comp tr = CT k.
Proof.
  intros [W [_ D]] H Hin. unfold create_timed_transport_transitions in H.
  destruct (timed_transports_all x _ 0 _ (fun k ts Hk => Hk) W D H) as [A _].
  destruct (A tr Hin) as [k [_ [_ [_ E]]]]. eauto.
Qed.


Lemma timed_transport_slot x b tr :
  J x -> create_timed_transport_transitions i x = Ok b -> In tr b ->
  exists k ts, nth_error (s_trans x) k = Some ts /\ timed_transport i x k ts = Ok [tr] /\ tr_comp tr = CT k
    /\ ((exists z, t_occ ts = OAt z) \/ (exists b0 k0 d, t_occ ts = ODep b0 k0 d /\ tr = d /\ wkind d)).
Proof.
  intros [W [_ D]] H Hin. unfold create_timed_transport_transitions in H.
  destruct (timed_transports_all x _ 0 _ (fun k ts Hk => Hk) W D H) as [A _].
  destruct (A tr Hin) as [k [ts [Hts [Htt Hc]]]]. simpl in Htt, Hc. exists k, ts. split; auto. split; auto. split; auto.
  destruct (timed_slot _ _ _ _ W D Hts Htt) as [E|[tr0 [E [_ [_ [_ [_ [Hz|[b0 [k0 [d [Ho Ed]]]]]]]]]]]]; [discriminate| |].
  - left; auto.
  - inversion E; subst tr0. right. exists b0, k0, d. split; auto. split; auto.
    pose proof (tc_of _ _ _ Hts) as Htc. rewrite Ho in Htc. destruct (D _ _ _ _ _ _ Htc) as [_ [j [m [ms [mc [_ [_ [_ [_ [_ [_ [Hk _]]]]]]]]]]]]. exact Hk.
Qed.

Lemma timed_transport_nodup x b : J x -> create_timed_transport_transitions i x = Ok b -> NoDup (comps b).
Proof.
  intros [W [_ D]] H. unfold create_timed_transport_transitions in H.
  destruct (timed_transports_all x _ 0 _ (fun k ts Hk => Hk) W D H) as [_ [B _]]. exact B.
Qed.

(* a dependency on a claimed job is re-issued *)
Lemma dep_issued x timed t st b k d jb t2 st2 oc2 :
  J x -> tc x t = Some (st, ODep b k d, jb) -> tc x t2 = Some (st2, oc2, Some k) ->
  create_timed_transitions i x = Ok timed -> In d timed.
Proof.
  intros [W [_ D]] Ht Ht2 H. unfold create_timed_transitions in H.
  destruct (create_timed_machine_transitions i x) as [a|] eqn:Ea; simpl in H; [|discriminate].
  destruct (create_timed_transport_transitions i x) as [b0|] eqn:Eb; simpl in H; [|discriminate].
  inversion H; subst; clear H. apply in_app_iff. right.
  unfold create_timed_transport_transitions in Eb.
  destruct (timed_transports_all x _ 0 _ (fun k0 ts Hk => Hk) W D Eb) as [_ [_ C0]].
  unfold tc in Ht. destruct (nth_error (s_trans x) t) as [ts|] eqn:Hts; [|discriminate]. simpl in Ht. inversion Ht as [[E1 E2 E3]].
  destruct (D _ _ _ _ _ _ (eq_trans (tc_of _ _ _ Hts) (f_equal (fun o => Some (t_st ts, o, t_job ts)) E2)))
    as [_ [j [m [ms [mc [_ [Eb0 [Hms [Hmc _]]]]]]]]].
  apply (C0 t ts [d] Hts); [|left; reflexivity]. simpl.
  unfold timed_transport. rewrite E2. subst b. unfold time_dependency_is_resolved, get_mach. rewrite Hms, Hmc. simpl.
  destruct (opt_nat_eqb (t_job ts) (get_next_job_from_buffer (m_post ms) (bc_type (mc_post mc)))); [reflexivity|].
  assert (Hex : existsb (fun t' => opt_nat_eqb (t_job t') (Some k)) (s_trans x) = true).
  { unfold tc in Ht2. destruct (nth_error (s_trans x) t2) as [ts2|] eqn:Hts2; [|discriminate]. simpl in Ht2. inversion Ht2 as [[K1 K2 K3]].
    apply existsb_exists. exists ts2. split; [eapply nth_error_In; eauto|]. rewrite K3. simpl. apply Nat.eqb_refl. }
  rewrite Hex. reflexivity.
Qed.

Definition offer_shape (tr : transition) : Prop :=
  (exists m j, tr = mkTr (CM m) (NM MSetup) (Some j)) \/ (exists t j, tr = mkTr (CT t) (NT TWorking) (Some j)).

Theorem Q_created x timed tele :
  J x -> BI x -> create_timed_transitions i x = Ok timed -> Forall (fun tr => is_tworking tr = true) tele -> Q (timed ++ tele) x.
Proof.
  intros HJ Hbi H Ht. pose proof HJ as [W [[F _] D]]. pose proof H as Hct. unfold create_timed_transitions in H.
  destruct (create_timed_machine_transitions i x) as [a|] eqn:Ea; simpl in H; [|discriminate].
  destruct (create_timed_transport_transitions i x) as [b|] eqn:Eb; simpl in H; [|discriminate].
  inversion H; subst; clear H.
  destruct (timed_machines_comps _ _ _ _ Ea) as [A1 A2].
  unfold create_timed_transport_transitions in Eb.
  destruct (timed_transports_all x _ 0 _ (fun k0 ts Hk => Hk) W D Eb) as [B1 [B2 B3]].
  assert (Slot : forall tr, In tr b -> exists k ts, nth_error (s_trans x) k = Some ts /\ tr_comp tr = CT k /\ is_tworking tr = false
     /\ (wkind tr -> exists j, tr_job tr = Some j /\ t_job ts = Some j /\ (t_st ts = TPickup \/ t_st ts = TWaiting))
     /\ (tr_new tr = NT TTransit -> t_st ts = TWaiting /\ exists j L, tr_job tr = Some j /\ jloc x j = Some L /\ outside L)).
  { intros tr Hin. destruct (B1 tr Hin) as [k [ts [Hts [Htt Hc]]]]. simpl in Htt, Hc. exists k, ts. split; auto.
    destruct (timed_slot _ _ _ _ W D Hts Htt) as [E|[tr0 [E [P1 [P2 [P3 [P4 _]]]]]]]; [discriminate|]. inversion E; subst tr0. auto. }
  rewrite Forall_forall in Ht.
  assert (Hcore : core ((a ++ b) ++ tele) = core (a ++ b)).
  { unfold core. rewrite filter_app.
    assert (E : filter (fun tr => negb (is_tworking tr)) tele = []).
    { clear -Ht. induction tele as [|h r IH]; simpl; auto. rewrite (Ht h (or_introl eq_refl)). simpl. apply IH. intros y Hy. apply Ht. right; auto. }
    rewrite E, app_nil_r. reflexivity. }
  assert (Hmach : forall tr, In tr a -> is_tworking tr = false /\ ~ wkind tr /\ forall t, tr_comp tr <> CT t).
  { intros tr Hin. destruct (A1 tr Hin) as [[k [Hk _]] [s0 Hs]]. unfold is_tworking, wkind. rewrite Hs, Hk.
    split; [reflexivity|]. split; [intros [E|E]; discriminate|intros t; discriminate]. }
  split; [|split; [|split; [|split]]].
  - rewrite Hcore. unfold core, comps. apply NoDup_map_filter. rewrite map_app. apply NoDup_app; auto.
    intros c Hc1 Hc2. apply in_map_iff in Hc1, Hc2. destruct Hc1 as [t1 [E1 I1]]. destruct Hc2 as [t2 [E2 I2]].
    destruct (A1 _ I1) as [[k [Hk _]] _]. destruct (Slot _ I2) as [k2 [_ [_ [Hk2 _]]]]. congruence.
  - intros tr Hin En. apply in_app_iff in Hin. destruct Hin as [Hin|Hin]; [apply in_app_iff in Hin; destruct Hin as [Hin|Hin]|].
    + destruct (A1 _ Hin) as [_ [s0 Hs]]. congruence.
    + destruct (Slot _ Hin) as [k [ts [Hts [Hc [_ [Pw Pt]]]]]]. destruct (Pt En) as [Hst [j [L [Hj [HL HO]]]]].
      destruct (Pw (or_intror En)) as [j' [Hj' [Hjob _]]]. rewrite Hj in Hj'. inversion Hj'; subst j'.
      exists k, j, (t_occ ts). split; auto. split; auto. split; [rewrite (tc_of _ _ _ Hts), Hst, Hjob; reflexivity|].
      left. exists L. auto.
    + specialize (Ht _ Hin). unfold is_tworking in Ht. rewrite En in Ht. discriminate.
  - intros tr Hin Hk. apply in_app_iff in Hin. destruct Hin as [Hin|Hin]; [apply in_app_iff in Hin; destruct Hin as [Hin|Hin]|].
    + destruct (Hmach _ Hin) as [_ [Hn _]]. contradiction.
    + destruct (Slot _ Hin) as [k [ts [Hts [Hc [_ [Pw _]]]]]]. destruct (Pw Hk) as [j [Hj [Hjob Hst]]].
      exists k, j, (t_st ts), (t_occ ts). split; auto. split; auto. split; [rewrite (tc_of _ _ _ Hts), Hjob; reflexivity|exact Hst].
    + specialize (Ht _ Hin). rewrite (wkind_not_tworking _ Hk) in Ht. discriminate.
  - exists (a ++ b), tele. split; [reflexivity|]. split; [|exact Ht].
    intros tr Hin. apply in_app_iff in Hin. destruct Hin as [Hin|Hin]; [apply (Hmach _ Hin)|].
    destruct (Slot _ Hin) as [k [ts [_ [_ [Hw _]]]]]. exact Hw.
  - intros t st b0 k d jb t2 st2 oc2 H1 H2. right. split.
    + apply in_app_iff. left. exact (dep_issued _ _ _ _ _ _ _ _ _ _ _ HJ H1 H2 Hct).
    + pose proof (Hbi _ _ _ _ _ _ _ _ _ H1 H2) as Est2. subst st2.
      intros tr Hin Hc En. apply in_app_iff in Hin. destruct Hin as [Hin|Hin]; [apply in_app_iff in Hin; destruct Hin as [Hin|Hin]|].
      * destruct (Hmach _ Hin) as [_ [_ Hn]]. apply (Hn t2). exact Hc.
      * destruct (Slot _ Hin) as [k0 [ts [Hts [Hc0 [_ [_ Pt]]]]]]. destruct (Pt En) as [Hst _].
        rewrite Hc in Hc0. inversion Hc0; subst k0. rewrite (tc_of _ _ _ Hts) in H2. inversion H2. congruence.
      * specialize (Ht _ Hin). unfold is_tworking in Ht. rewrite En in Ht. discriminate.
Qed.

Lemma teleport_pick_in fuel : forall l a, In a (teleport_pick fuel l) -> In a l.
Proof.
  induction fuel as [|f IH]; intros l a H; simpl in H; [destruct H|].
  destruct l as [|h r]; [destruct H|]. destruct H as [<-|H]; [left; reflexivity|].
  apply IH in H. apply filter_In in H. tauto.
Qed.

Lemma offers_shape x offers tr :
  get_possible_transitions i x = Ok offers -> In tr offers ->
  (exists m j, tr = mkTr (CM m) (NM MSetup) (Some j)) \/ (exists t j, tr = mkTr (CT t) (NT TWorking) (Some j)).
Proof.
  unfold get_possible_transitions. intros H Hin.
  destruct (filterM _ _) as [pj|] eqn:E1 in H; simpl in H; [|discriminate].
  destruct (get_possible_transport_transition i x) as [pt|] eqn:E2; simpl in H; [|discriminate].
  destruct (mapM _ pj) as [mt|] eqn:E3 in H; simpl in H; [|discriminate].
  inversion H; subst; clear H. apply in_app_iff in Hin. destruct Hin as [Hin|Hin].
  - left. destruct (mapM_in' _ _ _ _ E3 Hin) as [[j jb] [Hp Hf]]. simpl in Hf. inv_all Hf. inversion Hf; subst. eauto.
  - right. destruct (transport_offers_spec i _ _ _ E2 Hin) as [t [ts [j [jb [-> _]]]]]. eauto.
Qed.

Lemma offers_not_transit x offers : get_possible_transitions i x = Ok offers -> Forall not_transit offers.
Proof.
  intros H. apply Forall_forall. intros tr Hin. unfold not_transit.
  destruct (offers_shape _ _ _ H Hin) as [[m [j ->]]|[t [j ->]]]; simpl; discriminate.
Qed.

Lemma tele_tworking x poss tele :
  get_possible_transitions i x = Ok poss -> filter_teleport i x poss = Ok tele -> Forall (fun tr => is_tworking tr = true) tele.
Proof.
  intros Hp H. unfold filter_teleport in H.
  match type of H with bind ?e _ = _ => destruct e as [tl|] eqn:Ef; simpl in H; [|discriminate] end.
  inversion H; subst; clear H. apply Forall_forall. intros tr Hin. apply teleport_pick_in in Hin.
  destruct (filterM_in _ _ _ _ Ef Hin) as [Hi Hf].
  destruct (offers_shape _ _ _ Hp Hi) as [[m [j ->]]|[t [j ->]]]; [|reflexivity].
  simpl in Hf. destruct (travel_time_for_transport i x (Some j)); simpl in Hf; [inversion Hf|discriminate].
Qed.

Lemma offers_shape' x offers : get_possible_transitions i x = Ok offers -> Forall offer_shape offers.
Proof. intros H. apply Forall_forall. intros tr Hin. exact (offers_shape _ _ _ H Hin). Qed.

Lemma offer_shape_not_transit o : offer_shape o -> not_transit o.
Proof. intros [[m [j ->]]|[t [j ->]]]; unfold not_transit; simpl; discriminate. Qed.

Lemma Q_timed x timed poss tele : NO x -> J x -> BI x -> create_timed_transitions i x = Ok timed ->
  get_possible_transitions i x = Ok poss -> filter_teleport i x poss = Ok tele -> Q (timed ++ tele) x.
Proof. intros _ Hj Hb H Hp Hf. eapply Q_created; eauto. eapply tele_tworking; eauto. Qed.

Lemma Q_timed0 x timed : NO x -> J x -> BI x -> create_timed_transitions i x = Ok timed -> Q timed x.
Proof. intros _ Hj Hb H. rewrite <- (app_nil_r timed). eapply Q_created; eauto. Qed.

Lemma Q_offer x o : J x -> BI x -> create_timed_transitions i x = Ok [] -> offer_shape o -> Q [o] x.
Proof.
  intros Hj _ Hct Ho. pose proof (offer_shape_not_transit _ Ho) as Hn. split; [|split; [|split; [|split]]].
  - rewrite core_cons. destruct (is_tworking o); simpl; repeat constructor; auto.
  - intros tr [<-|[]] En. exfalso. apply Hn; auto.
  - intros tr [<-|[]] Hk. exfalso. destruct Ho as [[m [j ->]]|[t [j ->]]]; destruct Hk as [Hk|Hk]; discriminate.
  - destruct (is_tworking o) eqn:Ew.
    + exists [], [o]. split; [reflexivity|]. split; [intros tr []|intros tr [<-|[]]; exact Ew].
    + exists [o], []. split; [reflexivity|]. split; [intros tr [<-|[]]; exact Ew|intros tr []].
  - intros t st b k d jb t2 st2 oc2 H1 H2. exfalso. exact (dep_issued _ _ _ _ _ _ _ _ _ _ _ Hj H1 H2 Hct).
Qed.


(* ---------- every run satisfies both side conditions ---------- *)
Theorem reach_side2 fuel x0 joker0 ta r m :
  NO x0 -> J x0 -> BI x0 -> reach sigma i fuel x0 joker0 ta r m -> reachS2 sigma i fuel x0 joker0 ta r m.
Proof.
  intros N Hj Hb H.
  destruct (reach_reachG sigma i Hnn J Q side2 (fun _ => offer_shape) BI J_apply J_now BI_end BI_now Q_timed Q_timed0 Q_offer offers_shape'
              _ _ _ _ _ _ N Hj Hb H) as [A _]. exact A.
Qed.

Theorem reach_J fuel x0 joker0 ta r m :
  NO x0 -> J x0 -> BI x0 -> reach sigma i fuel x0 joker0 ta r m ->
  exists xq, NO xq /\ J xq /\ (r_x r = xq \/ (r_offers r = [] /\ exists z, r_x r = set_now xq z)).
Proof.
  intros N Hj Hb H.
  destruct (reach_reachG sigma i Hnn J Q side2 (fun _ => offer_shape) BI J_apply J_now BI_end BI_now Q_timed Q_timed0 Q_offer offers_shape'
              _ _ _ _ _ _ N Hj Hb H) as [_ [_ B]]. exact B.
Qed.

Theorem reach_micro_side2 fuel x0 joker0 ta r m a r' m' lg :
  NO x0 -> J x0 -> BI x0 -> reach sigma i fuel x0 joker0 ta r m -> mw_step sigma i fuel r m a = MOk r' m' lg ->
  forall tr y, In (tr, y) lg -> J y /\ side2 tr y = true.
Proof.
  intros N Hj Hb H Hm.
  exact (reach_micro_J sigma i Hnn J Q side2 (fun _ => offer_shape) BI J_apply J_now BI_end BI_now Q_timed Q_timed0 Q_offer offers_shape'
           _ _ _ _ _ _ _ _ _ _ N Hj Hb H Hm).
Qed.

(* ---------- the unconditional statements ---------- *)
Lemma NODEP_in x ts : NODEP x -> In ts (s_trans x) -> no_dep (t_occ ts).
Proof.
  intros D Hin. apply In_nth_error in Hin. destruct Hin as [t Ht]. apply (D t (t_st ts) (t_occ ts) (t_job ts)). apply tc_of; auto.
Qed.
Lemma nodep_b_NODEP x : nodep_b x = true -> NODEP x.
Proof.
  intros H t st oc jb Htc. unfold tc in Htc. destruct (nth_error (s_trans x) t) as [ts|] eqn:E; [|discriminate].
  simpl in Htc. inversion Htc; subst. pose proof (forallb_nth _ _ _ _ H E) as Q0. simpl in Q0.
  destruct (t_occ ts); simpl; auto; discriminate.
Qed.
Lemma NODEP_nodep_b x : NODEP x -> nodep_b x = true.
Proof.
  intros D. unfold nodep_b. apply forallb_forall. intros ts Hin. pose proof (NODEP_in _ _ D Hin) as Q0.
  destruct (t_occ ts); simpl in *; auto; destruct Q0.
Qed.

Lemma NODEP_BI x : NODEP x -> BI x.
Proof. intros D t st b k d jb t2 st2 oc2 H1 _. destruct (D _ _ _ _ H1). Qed.

Lemma J_init x0 : wfs_b i x0 = true -> fresh2_b i x0 = true -> nodep_b x0 = true -> J x0.
Proof.
  intros W Fr D. split; [apply WFS_complete; auto|]. split; [apply fresh2_INV; auto|apply NODEP_DEPI; apply nodep_b_NODEP; auto].
Qed.

Lemma BI_init x0 : nodep_b x0 = true -> BI x0.
Proof. intros D. apply NODEP_BI. apply nodep_b_NODEP. auto. Qed.

Lemma J_clauses x : J x -> feasible_b i x = true /\ mach_hold_b x = true /\ output_done_b i x = true.
Proof.
  intros [W [[F [A O]] D]]. split; [apply FE_feasible; auto|]. split; [apply FE_mach_hold with (i := i); auto|apply OD_output_done; auto].
Qed.

(* for EVERY instance: feasibility, a busy machine holds one job, a job in an output buffer is finished *)
Theorem run_reachable fuel x0 joker0 ta r m :
  clock_b x0 = true -> wfs_b i x0 = true -> fresh2_b i x0 = true -> nodep_b x0 = true ->
  reach sigma i fuel x0 joker0 ta r m ->
  feasible_b i (r_x r) = true /\ mach_hold_b (r_x r) = true /\ output_done_b i (r_x r) = true.
Proof.
  intros C W Fr D H. apply NO_iff_clock_b in C.
  destruct (reach_J _ _ _ _ _ _ C (J_init _ W Fr D) (BI_init _ D) H) as [xq [Nq [Jq [E|[_ [z E]]]]]]; rewrite E.
  - apply J_clauses; auto.
  - exact (J_clauses _ Jq).
Qed.

Theorem run_micro_states fuel x0 joker0 ta r m a r' m' lg :
  clock_b x0 = true -> wfs_b i x0 = true -> fresh2_b i x0 = true -> nodep_b x0 = true ->
  reach sigma i fuel x0 joker0 ta r m -> mw_step sigma i fuel r m a = MOk r' m' lg ->
  forall tr y, In (tr, y) lg ->
    feasible_b i y = true /\ mach_hold_b y = true /\ output_done_b i y = true /\ side2 tr y = true.
Proof.
  intros C W Fr D H Hm tr y Hin. apply NO_iff_clock_b in C.
  destruct (reach_micro_side2 _ _ _ _ _ _ _ _ _ _ C (J_init _ W Fr D) (BI_init _ D) H Hm _ _ Hin) as [Jy S].
  destruct (J_clauses _ Jy) as [A [B C0]]. auto.
Qed.

Theorem run_terminated_all_done fuel x0 joker0 ta r m :
  clock_b x0 = true -> wfs_b i x0 = true -> fresh2_b i x0 = true -> nodep_b x0 = true ->
  reach sigma i fuel x0 joker0 ta r m ->
  all_in_output i (r_x r) = true -> forallb all_operations_done (s_jobs (r_x r)) = true.
Proof.
  intros C W Fr D H Hout. destruct (run_reachable _ _ _ _ _ _ C W Fr D H) as [_ [_ Hod]].
  unfold all_in_output in Hout. rewrite forallb_forall in *.
  intros jb Hin. specialize (Hout jb Hin). apply andb_true_iff in Hout. tauto.
Qed.

(* the TimeDependency invariant as a boolean clause (evaluated on every implementation state by the monitors) *)
Lemma DEPI_depi_b x : WFS i x -> DEPI x -> depi_b i x = true.
Proof.
  intros W D. unfold depi_b. apply forallb_forall. intros [t ts] Hin. simpl.
  apply in_indexed_nth' in Hin. destruct Hin as [_ Hts]. rewrite Nat.sub_0_r in Hts.
  destruct (t_occ ts) as [|z|b k d] eqn:Eo; try reflexivity.
  pose proof (tc_of _ _ _ Hts) as Htc. rewrite Eo in Htc.
  destruct (D _ _ _ _ _ _ Htc) as [Est [j [m [ms [mc [Ej [Eb [Hms [Hmc [Hcd [Hjd [Hk R]]]]]]]]]]]].
  rewrite Est, Ej, Eb, Hms, Hmc, Hcd, Hjd. simpl. rewrite !Nat.eqb_refl. simpl.
  assert (Hw : wkind_b d = true) by (unfold wkind_b; destruct Hk as [-> | ->]; reflexivity). rewrite Hw. simpl.
  apply rel_ok_rel_ok_b; auto. apply (ws_nodup x (BPost m) (m_post ms) W). simpl. rewrite Hms. reflexivity.
Qed.

Theorem run_depi fuel x0 joker0 ta r m :
  clock_b x0 = true -> wfs_b i x0 = true -> fresh2_b i x0 = true -> nodep_b x0 = true ->
  reach sigma i fuel x0 joker0 ta r m -> depi_b i (r_x r) = true.
Proof.
  intros C W Fr D H. apply NO_iff_clock_b in C.
  destruct (reach_J _ _ _ _ _ _ C (J_init _ W Fr D) (BI_init _ D) H) as [xq [Nq [[Wq [_ Dq]] [E|[_ [z E]]]]]]; rewrite E.
  - apply DEPI_depi_b; auto.
  - exact (DEPI_depi_b _ Wq Dq).
Qed.

Theorem run_micro_depi fuel x0 joker0 ta r m a r' m' lg :
  clock_b x0 = true -> wfs_b i x0 = true -> fresh2_b i x0 = true -> nodep_b x0 = true ->
  reach sigma i fuel x0 joker0 ta r m -> mw_step sigma i fuel r m a = MOk r' m' lg ->
  forall tr y, In (tr, y) lg -> depi_b i y = true.
Proof.
  intros C W Fr D H Hm tr y Hin. apply NO_iff_clock_b in C.
  destruct (reach_micro_side2 _ _ _ _ _ _ _ _ _ _ C (J_init _ W Fr D) (BI_init _ D) H Hm _ _ Hin) as [[Wy [_ Dy]] _].
  apply DEPI_depi_b; auto.
Qed.

(* ---------- instances whose machine post-buffers are unordered or of capacity one: no TimeDependency at all ---------- *)
Section Flex.
Hypothesis Hflex : flex_post_b i = true.

Lemma waiting_time_no_dep x tr oc : WFS i x -> get_waiting_time i x tr = Ok oc -> no_dep oc.
Proof.
  intros W H. unfold get_waiting_time in H.
  destruct (tr_job tr) as [j|]; simpl in H; [|discriminate].
  destruct (get_job x j) as [jb|] eqn:Ej; simpl in H; [|discriminate]. apply get_job_ok in Ej.
  destruct (get_bcfg i (j_loc jb)) as [c|] eqn:Ec; simpl in H; [|discriminate].
  assert (Mcase : forall m, (j_loc jb = BPre m \/ j_loc jb = BIn m \/ j_loc jb = BPost m) ->
     (ms <- get_mach x m ;;
      if mem_nat j (b_store (m_post ms)) then
        rdy <- is_ready i x j jb ;;
        if rdy : bool then Ok (OAt (s_now x))
        else
          nxt <- of_opt EInvalidValue (get_next_job_from_buffer (m_post ms) (bc_type c)) ;;
          let ts := first_transport_with_job x nxt in
          njb <- get_job x nxt ;;
          if job_is_done i njb then Ok (OAt (s_now x))
          else match ts with
               | None => Ok (ODep (j_loc jb) nxt tr)
               | Some t => Ok (t_occ t)
               end
      else
        k <- of_opt EMissingProc (first_proc jb) ;;
        o <- of_opt EMissingProc (nth_error (j_ops jb) k) ;;
        Ok (occ_of_time (o_end o))) = Ok oc -> no_dep oc).
  { intros m Hloc Hm. unfold get_mach in Hm.
    destruct (nth_error (s_machs x) m) as [ms|] eqn:E2; simpl in Hm; [|discriminate].
    destruct (mem_nat j (b_store (m_post ms))) eqn:Emem.
    - apply mem_nat_In in Emem.
      assert (Hpost : get_buf x (BPost m) = Some (m_post ms)) by (simpl; rewrite E2; reflexivity).
      pose proof (stored_loc _ _ _ _ W Hpost Emem) as Hl. rewrite (jloc_of _ _ _ Ej) in Hl. inversion Hl as [Hl'].
      assert (Hr : is_ready i x j jb = Ok true).
      { unfold is_ready. rewrite Hl', Hpost. simpl.
        destruct (nth_error (i_machs i) m) as [mc|] eqn:Emc.
        - simpl. destruct (index_of_In _ _ Emem) as [p [Hp Hlt]]. rewrite Hp.
          unfold flex_post_b in Hflex. pose proof (forallb_nth _ _ _ _ Hflex Emc) as Hf. simpl in Hf.
          unfold is_correct_position. destruct (Nat.eqb_spec (length (b_store (m_post ms))) 0) as [E0|_]; [lia|].
          apply orb_true_iff in Hf. destruct Hf as [Hf|Hf].
          + destruct (bc_type (mc_post mc)); try discriminate. simpl. apply Nat.ltb_lt in Hlt. rewrite Hlt. reflexivity.
          + (* capacity one: the store has exactly one element, at position 0 *)
            apply Z.eqb_eq in Hf.
            assert (Hcfg : get_bcfg i (BPost m) = Some (mc_post mc)) by (simpl; rewrite Emc; reflexivity).
            pose proof (ws_cap _ _ W _ _ _ Hpost Hcfg) as Hc. rewrite Hf in Hc. unfold lenZ in Hc.
            assert (Hlen : length (b_store (m_post ms)) = 1) by lia. rewrite Hlen in *.
            assert (Hp0 : p = 0) by lia. subst p.
            destruct (bc_type (mc_post mc)); simpl; reflexivity.
        - exfalso. rewrite Hl' in Ec. simpl in Ec. rewrite Emc in Ec. discriminate. }
      rewrite Hr in Hm. simpl in Hm. inversion Hm; subst; exact I.
    - destruct (first_proc jb) as [k|]; simpl in Hm; [|discriminate].
      destruct (nth_error (j_ops jb) k) as [o|]; simpl in Hm; [|discriminate].
      inversion Hm; subst. destruct (o_end o); exact I. }
  destruct (j_loc jb) as [n|m|m|m|t] eqn:El.
  - inversion H; subst; exact I.
  - apply (Mcase m); auto.
  - apply (Mcase m); auto.
  - apply (Mcase m); auto.
  - discriminate.
Qed.

Theorem apply_preserves_NODEP x tr x' : WFS i x -> NODEP x -> apply_transition sigma i x tr = Ok x' -> NODEP x'.
Proof.
  intros W D H t st oc jb Htc.
  destruct (tr_comp tr) as [m|t0|n] eqn:Hc.
  - rewrite (apply_tc_other sigma i _ _ _ t H) in Htc by (rewrite Hc; discriminate). eauto.
  - destruct (Nat.eq_dec t t0) as [->|Hne].
    + destruct (nth_error (s_trans x) t0) as [ts|] eqn:Hts; [|unfold apply_transition in H; rewrite Hc, Hts in H; discriminate].
      destruct (apply_tc_self sigma i _ _ _ _ _ H Hc Hts) as [st' [oc' [jb' [E [[[z ->]|[->|[Hw _]]] _]]]]]; rewrite E in Htc; inversion Htc; subst.
      * exact I.
      * apply (D t0 (t_st ts) (t_occ ts) (t_job ts)). apply tc_of; auto.
      * eapply waiting_time_no_dep; eauto.
    + rewrite (apply_tc_other sigma i _ _ _ t H) in Htc by (rewrite Hc; congruence). eauto.
  - unfold apply_transition in H. rewrite Hc in H. destruct (nth_error (s_bufs x) n); discriminate.
Qed.

Lemma NODEP_set_now x z : NODEP x -> NODEP (set_now x z).
Proof. intros D t st oc jb H. rewrite tc_set_now in H. eauto. Qed.


Definition JF (x : state) : Prop := J x /\ NODEP x.

Lemma JF_apply x tr R x' :
  NO x -> JF x -> Q (tr :: R) x -> is_transition_valid x tr = Ok true -> apply_transition sigma i x tr = Ok x' ->
  JF x' /\ Q R x' /\ side2 tr x' = true.
Proof.
  intros N [Hj Dn] HQ Hv Ha. destruct (J_apply _ _ _ _ N Hj HQ Hv Ha) as [A [B C0]].
  split; [split; auto|auto]. destruct Hj as [W _]. eapply apply_preserves_NODEP; eauto.
Qed.

Lemma JF_now x t : JF x -> (s_now x <= t)%Z -> JF (set_now x t).
Proof. intros [Hj Dn] H. split; [apply J_now; auto|apply NODEP_set_now; auto]. Qed.

Theorem flex_nodep fuel x0 joker0 ta r m :
  clock_b x0 = true -> wfs_b i x0 = true -> fresh2_b i x0 = true -> nodep_b x0 = true ->
  reach sigma i fuel x0 joker0 ta r m -> nodep_b (r_x r) = true.
Proof.
  intros C W Fr D H. apply NO_iff_clock_b in C.
  destruct (reach_reachG sigma i Hnn JF Q side2 (fun _ => offer_shape) BI JF_apply JF_now
              (fun x Hj => BI_end x (proj1 Hj)) BI_now
              (fun x timed poss tele N0 Hj => Q_timed x timed poss tele N0 (proj1 Hj))
              (fun x timed N0 Hj => Q_timed0 x timed N0 (proj1 Hj))
              (fun x o Hj => Q_offer x o (proj1 Hj)) offers_shape'
              _ _ _ _ _ _ C (conj (J_init _ W Fr D) (nodep_b_NODEP _ D)) (BI_init _ D) H) as [_ [_ [xq [Nq [[_ Dq] [E|[_ [z E]]]]]]]]; rewrite E.
  - apply NODEP_nodep_b; auto.
  - exact (NODEP_nodep_b _ Dq).
Qed.

Theorem flex_micro_nodep fuel x0 joker0 ta r m a r' m' lg :
  clock_b x0 = true -> wfs_b i x0 = true -> fresh2_b i x0 = true -> nodep_b x0 = true ->
  reach sigma i fuel x0 joker0 ta r m -> mw_step sigma i fuel r m a = MOk r' m' lg ->
  forall tr y, In (tr, y) lg -> nodep_b y = true.
Proof.
  intros C W Fr D H Hm tr y Hin. apply NO_iff_clock_b in C.
  destruct (reach_micro_J sigma i Hnn JF Q side2 (fun _ => offer_shape) BI JF_apply JF_now
              (fun x Hj => BI_end x (proj1 Hj)) BI_now
              (fun x timed poss tele N0 Hj => Q_timed x timed poss tele N0 (proj1 Hj))
              (fun x timed N0 Hj => Q_timed0 x timed N0 (proj1 Hj))
              (fun x o Hj => Q_offer x o (proj1 Hj)) offers_shape'
              _ _ _ _ _ _ _ _ _ _ C (conj (J_init _ W Fr D) (nodep_b_NODEP _ D)) (BI_init _ D) H Hm _ _ Hin) as [[_ Dy] _].
  apply NODEP_nodep_b; auto.
Qed.

Theorem flex_reachable fuel x0 joker0 ta r m :
  clock_b x0 = true -> wfs_b i x0 = true -> fresh2_b i x0 = true -> nodep_b x0 = true ->
  reach sigma i fuel x0 joker0 ta r m ->
  feasible_b i (r_x r) = true /\ mach_hold_b (r_x r) = true /\ output_done_b i (r_x r) = true /\ nodep_b (r_x r) = true.
Proof.
  intros C W Fr D H. destruct (run_reachable _ _ _ _ _ _ C W Fr D H) as [A [B C0]].
  split; auto. split; auto. split; auto. eapply flex_nodep; eauto.
Qed.

Theorem flex_micro_states fuel x0 joker0 ta r m a r' m' lg :
  clock_b x0 = true -> wfs_b i x0 = true -> fresh2_b i x0 = true -> nodep_b x0 = true ->
  reach sigma i fuel x0 joker0 ta r m -> mw_step sigma i fuel r m a = MOk r' m' lg ->
  forall tr y, In (tr, y) lg ->
    feasible_b i y = true /\ mach_hold_b y = true /\ output_done_b i y = true /\ nodep_b y = true /\ side2 tr y = true.
Proof.
  intros C W Fr D H Hm tr y Hin. destruct (run_micro_states _ _ _ _ _ _ _ _ _ _ C W Fr D H Hm _ _ Hin) as [A [B [C0 S]]].
  split; auto. split; auto. split; auto. split; auto. eapply flex_micro_nodep; eauto.
Qed.

Theorem flex_terminated_all_done fuel x0 joker0 ta r m :
  clock_b x0 = true -> wfs_b i x0 = true -> fresh2_b i x0 = true -> nodep_b x0 = true ->
  reach sigma i fuel x0 joker0 ta r m ->
  all_in_output i (r_x r) = true -> forallb all_operations_done (s_jobs (r_x r)) = true.
Proof. apply run_terminated_all_done. Qed.

End Flex.

End PB.
