(* C05, positive part: state.step never REPORTS FAILURE (success=False) in any run of the middleware, for EVERY instance:
   every transition the simulator applies -
   the agent's accepted offer, the timed transitions it creates, the teleport dispatches - passes validation in the
   state it is applied in. Validity holds where a transition is created (SMP/Offers.v, the specifications of the
   timed transitions, the C01 invariant) and survives the transitions of other components applied before it in the
   same batch. (Raising and not returning are different matters: see the refutations of C05/C11.) *)
From Coq Require Import List ZArith Bool Arith Lia.
From JSL Require Import Base.Res Base.ListX SM.Types SM.Util SM.Handler SM.Step SM.Middleware SM.Inv
  SMP.ListLemmas SMP.Frame SMP.WF SMP.Preserve SMP.StepInv SMP.Clock SMP.ClockStep SMP.ClockMain SMP.Post SMP.PostApply
  SMP.LiftSide SMP.FeasView SMP.Feasible SMP.FeasSound SMP.Agv SMP.OutputDone SMP.Offers SMP.Unique SMP.Reflect
  SMP.Prov SMP.LiftProv SMP.ProvBatch SMP.Claims SMP.Durations SMP.Travel SMP.OffersValid SMP.Hold SMP.Deliver.
Import ListNotations.
Close Scope Z_scope.

Definition flex_pre_b (i : inst) : bool := forallb (fun mc => is_flex (bc_type (mc_pre mc))) (i_machs i).

(* a -> WORKING / -> OUTAGE transition of machine m names a job lying inside m *)
Definition machine_kind (tr : transition) : Prop := forall m, tr_comp tr = CM m -> exists s, tr_new tr = NM s.

Definition inside_fact (x : state) (tr : transition) : Prop :=
  forall m, tr_comp tr = CM m -> (tr_new tr = NM MWorking \/ tr_new tr = NM MOutage) ->
  exists j, tr_job tr = Some j /\ jloc x j = Some (BIn m).

(* an IDLE -> SETUP transition of machine m names a job lying in the pre-buffer of m *)
Definition pre_fact (x : state) (tr : transition) : Prop :=
  forall m, tr_comp tr = CM m -> tr_new tr = NM MSetup -> exists j, tr_job tr = Some j /\ jloc x j = Some (BPre m).

Section NF.
Variable sigma : oracle.
Variable i : inst.
Hypothesis Hnn : inst_nonneg_b i = true.

(* the phase pairs a valid machine transition can have *)
Lemma valid_pairs x m ms tr :
  is_machine_transition_valid x m ms tr = Ok true -> (exists s, tr_new tr = NM s) ->
  (m_st ms = MSetup /\ tr_new tr = NM MWorking) \/ (m_st ms = MWorking /\ tr_new tr = NM MOutage)
  \/ (m_st ms = MOutage /\ tr_new tr = NM MIdle) \/ (m_st ms = MIdle /\ tr_new tr = NM MSetup).
Proof.
  unfold is_machine_transition_valid. intros H [s0 Hs].
  destruct (m_st ms) eqn:Es; destruct (tr_new tr) as [[]|[]] eqn:En; simpl in H; try discriminate; try congruence; auto 6.
Qed.

Lemma jops_get_job x x' j : jops x' j = jops x j ->
  (jb <- get_job x' j ;; k <- of_opt EInvalidValue (first_not_done jb) ;; o <- of_opt EInvalidValue (nth_error (j_ops jb) k) ;; Ok (Nat.eqb (o_mach o) 0))
  = (jb <- get_job x' j ;; k <- of_opt EInvalidValue (first_not_done jb) ;; o <- of_opt EInvalidValue (nth_error (j_ops jb) k) ;; Ok (Nat.eqb (o_mach o) 0)).
Proof. reflexivity. Qed.

Lemma job_check_ext x x' j m : jops x' j = jops x j ->
  (jb <- get_job x' j ;; k <- of_opt EInvalidValue (first_not_done jb) ;; o <- of_opt EInvalidValue (nth_error (j_ops jb) k) ;; Ok (Nat.eqb (o_mach o) m))
  = (jb <- get_job x j ;; k <- of_opt EInvalidValue (first_not_done jb) ;; o <- of_opt EInvalidValue (nth_error (j_ops jb) k) ;; Ok (Nat.eqb (o_mach o) m)).
Proof.
  unfold jops, get_job. intros H. destruct (nth_error (s_jobs x') j) as [jb'|]; destruct (nth_error (s_jobs x) j) as [jb|]; simpl in *; try discriminate; auto.
  inversion H as [E]. unfold first_not_done. rewrite E. reflexivity.
Qed.

Theorem valid_stable x tr0 x' tr :
  WFS i x -> WFS i x' -> apply_transition sigma i x tr0 = Ok x' -> tr_comp tr0 <> tr_comp tr ->
  inside_fact x tr0 -> inside_fact x tr -> pre_fact x tr -> machine_kind tr ->
  is_transition_valid x tr = Ok true -> is_transition_valid x' tr = Ok true.
Proof.
  intros W W' H Hne If0 If Pf Hmk Hv. unfold is_transition_valid in *.
  destruct (tr_comp tr) as [m|t|n] eqn:Hc.
  - destruct (nth_error (s_machs x) m) as [ms|] eqn:Hms; [|discriminate].
    (* the machine's phase is untouched *)
    assert (Hrec : exists ms', nth_error (s_machs x') m = Some ms' /\ m_st ms' = m_st ms).
    { assert (Hlt : m < length (s_machs x')) by (rewrite (ws_lm _ _ W'), <- (ws_lm _ _ W); eapply nth_error_lt; eauto).
      destruct (nth_error (s_machs x') m) as [ms'|] eqn:E'; [|apply nth_error_None in E'; lia]. exists ms'. split; auto.
      destruct (tr_comp tr0) as [m0|t0|n0] eqn:Hc0.
      - pose proof (machine_tr_mrec_other sigma i _ _ _ m0 m H Hc0 ltac:(congruence)) as E. rewrite (mrec_of _ _ _ E'), (mrec_of _ _ _ Hms) in E. congruence.
      - destruct (transport_tr_frame sigma i _ _ _ _ H Hc0) as [_ A2]. destruct (A2 _ _ _ _ (mrec_of _ _ _ E')) as [l0 [G _]].
        rewrite (mrec_of _ _ _ Hms) in G. congruence.
      - unfold apply_transition in H. rewrite Hc0 in H. destruct (nth_error (s_bufs x) n0); discriminate. }
    destruct Hrec as [ms' [Hms' Est]]. rewrite Hms'.
    (* the records of a job lying in or in front of this machine are untouched by another component *)
    assert (Keep : forall j L, jloc x j = Some L -> (L = BIn m \/ L = BPre m) -> jops x' j = jops x j).
    { intros j L Hloc HL.
      destruct (tr_comp tr0) as [m0|t0|n0] eqn:Hc0.
      + destruct (nth_error (s_machs x) m0) as [ms0|] eqn:Hms0; [|unfold apply_transition in H; rewrite Hc0, Hms0 in H; discriminate].
        assert (Hm0 : m0 <> m) by congruence.
        destruct (machine_tr_jops_other sigma i _ _ _ _ _ j H Hc0 Hms0) as [E|[[Hk E]|[Hk E]]]; auto; exfalso.
        * destruct (apply_machine sigma i _ _ _ _ _ Hc0 Hms0 H) as [[_ [En0 C]]|[[_ [En0 C]]|[[_ [En0 C]]|[_ [En0 C]]]]].
          -- destruct (idle_setup_guard sigma i _ _ _ _ _ C) as [j0 [Hj0 Hin]]. rewrite E in Hj0. inversion Hj0; subst j0.
             assert (G : get_buf x (BPre m0) = Some (m_pre ms0)) by (simpl; rewrite Hms0; reflexivity).
             pose proof (stored_loc i _ _ _ _ W G Hin) as Q0. rewrite Hloc in Q0. destruct HL as [-> | ->]; inversion Q0; congruence.
          -- destruct (post_setup_working sigma i _ _ _ _ _ Hms0 C) as [j0 [jb0 [k0 [oc0 [d0 [Hj0 [_ [_ [_ [_ [_ [_ [_ Hmem]]]]]]]]]]]]].
             rewrite E in Hj0. inversion Hj0; subst j0. apply mem_nat_In in Hmem.
             assert (G : get_buf x (BIn m0) = Some (m_in ms0)) by (simpl; rewrite Hms0; reflexivity).
             pose proof (stored_loc i _ _ _ _ W G Hmem) as Q0. rewrite Hloc in Q0. destruct HL as [-> | ->]; inversion Q0; congruence.
          -- destruct (If0 m0 Hc0 (or_intror En0)) as [j0 [Hj0 Hl0]]. rewrite E in Hj0. inversion Hj0; subst j0.
             rewrite Hloc in Hl0. destruct HL as [-> | ->]; inversion Hl0; congruence.
          -- congruence.
        * assert (Hin : In j (b_store (m_in ms0))) by (destruct (b_store (m_in ms0)); simpl in E; inversion E; left; reflexivity).
          assert (G : get_buf x (BIn m0) = Some (m_in ms0)) by (simpl; rewrite Hms0; reflexivity).
          pose proof (stored_loc i _ _ _ _ W G Hin) as Q0. rewrite Hloc in Q0. destruct HL as [-> | ->]; inversion Q0; congruence.
      + destruct (transport_tr_frame sigma i _ _ _ _ H Hc0) as [A1 _]. apply A1.
      + unfold apply_transition in H. rewrite Hc0 in H. destruct (nth_error (s_bufs x) n0); discriminate. }
    destruct (valid_pairs _ _ _ _ Hv (Hmk m Hc)) as [[Es En]|[[Es En]|[[Es En]|[Es En]]]]; unfold is_machine_transition_valid in *; rewrite Est, Es, En in *; simpl in *; auto.
    + (* SETUP -> WORKING: the job check reads the records of the job inside this machine *)
      destruct (If m Hc (or_introl En)) as [j [Hj Hloc]]. rewrite Hj in *.
      rewrite (job_check_ext x x' j m); [exact Hv|]. apply (Keep j (BIn m)); auto.
    + (* IDLE -> SETUP: ... of the job in front of it *)
      destruct (Pf m Hc En) as [j [Hj Hloc]]. rewrite Hj in *.
      rewrite (job_check_ext x x' j m); [exact Hv|]. apply (Keep j (BPre m)); auto.
  - pose proof (apply_tc_other sigma i _ _ _ t H ltac:(congruence)) as E. unfold tc in E.
    destruct (nth_error (s_trans x) t) as [ts|] eqn:Hts; [|discriminate].
    destruct (nth_error (s_trans x') t) as [ts'|] eqn:Hts'; [|discriminate]. simpl in E. inversion E as [[E1 E2 E3]]. rewrite E1. exact Hv.
  - destruct (nth_error (s_bufs x) n); discriminate.
Qed.

(* ---------- the batch invariant ---------- *)
Definition vfacts (x : state) (tr : transition) : Prop :=
  is_transition_valid x tr = Ok true /\ inside_fact x tr /\ pre_fact x tr /\ machine_kind tr.

Definition Q7 (L : list transition) (x : state) : Prop :=
  Q8 L x /\ NoDup (comps L) /\ (forall tr, In tr L -> vfacts x tr).

Lemma inside_fact_step x tr0 R x' tr1 :
  WFS i x -> Q (tr0 :: R) x -> apply_transition sigma i x tr0 = Ok x' -> tr_comp tr0 <> tr_comp tr1 ->
  inside_fact x tr1 -> inside_fact x' tr1.
Proof.
  intros W [_ [HP _]] H Hne Hf m Hc1 Hk. destruct (Hf m Hc1 Hk) as [j [Hj Hloc]]. exists j. split; auto.
  destruct (apply_loc_eff sigma i _ _ _ H j) as [Same|[A [B0 [a [Ha [Hina [HB Hkind]]]]]]]; [rewrite Same; exact Hloc|].
  exfalso. pose proof (stored_loc i _ _ _ _ W Ha Hina) as HA. rewrite Hloc in HA. inversion HA; subst A.
  destruct Hkind as [[m0 [Hc0 [[E _]|[E _]]]]|[[t1 [Hc0 [Hn1 [Hj1 [_ [_ Hna]]]]]]|[t1 [_ [_ E]]]]]; try discriminate.
  - inversion E; subst m0. apply Hne. congruence.
  - destruct (HP tr0 (or_introl eq_refl) Hn1) as [t2 [j2 [oc2 [_ [Hj2 [_ Hlf]]]]]]. rewrite Hj1 in Hj2. inversion Hj2; subst j2.
    destruct Hlf as [[L [HL [O1 _]]]|[t0 [HL _]]]; rewrite Hloc in HL; inversion HL; subst. apply (O1 m); reflexivity.
Qed.

Lemma pre_fact_step x tr0 R x' tr1 :
  WFS i x -> Q (tr0 :: R) x -> apply_transition sigma i x tr0 = Ok x' -> tr_comp tr0 <> tr_comp tr1 ->
  pre_fact x tr1 -> pre_fact x' tr1.
Proof.
  intros W [_ [HP _]] H Hne Hf m Hc1 Hk. destruct (Hf m Hc1 Hk) as [j [Hj Hloc]]. exists j. split; auto.
  destruct (apply_loc_eff sigma i _ _ _ H j) as [Same|[A [B0 [a [Ha [Hina [HB Hkind]]]]]]]; [rewrite Same; exact Hloc|].
  exfalso. pose proof (stored_loc i _ _ _ _ W Ha Hina) as HA. rewrite Hloc in HA. inversion HA; subst A.
  destruct Hkind as [[m0 [Hc0 [[E _]|[E _]]]]|[[t1 [Hc0 [Hn1 [Hj1 [_ [_ Hna]]]]]]|[t1 [_ [_ E]]]]]; try discriminate.
  - inversion E; subst m0. apply Hne. congruence.
  - destruct (HP tr0 (or_introl eq_refl) Hn1) as [t2 [j2 [oc2 [_ [Hj2 [_ Hlf]]]]]]. rewrite Hj1 in Hj2. inversion Hj2; subst j2.
    destruct Hlf as [[L [HL [_ [O2 _]]]]|[t0 [HL _]]]; rewrite Hloc in HL; inversion HL; subst. apply (O2 m); reflexivity.
Qed.

Lemma Q7_step x tr0 R x' :
  NO x -> J8 i x -> Q7 (tr0 :: R) x -> apply_transition sigma i x tr0 = Ok x' -> J8 i x' /\ Q7 R x'.
Proof.
  intros N Hj [HQ8 [ND HV]] H.
  destruct (HV tr0 (or_introl eq_refl)) as [V0 [If0 _]].
  destruct (J8_apply sigma i Hnn _ _ _ _ N Hj HQ8 V0 H) as [Hj' [HQ8' _]]. split; auto.
  pose proof Hj as [[[W _] _] _]. pose proof Hj' as [[[W' _] _] _]. destruct HQ8 as [HQ _].
  split; [exact HQ8'|]. simpl in ND. inversion ND as [|? ? Hnin ND']; subst. split; [exact ND'|].
  intros tr Hin. destruct (HV tr (or_intror Hin)) as [V [If [Pf Mk]]].
  assert (Hne : tr_comp tr0 <> tr_comp tr) by (intros E; apply Hnin; rewrite E; apply in_map; exact Hin).
  split; [exact (valid_stable x tr0 x' tr W W' H Hne If0 If Pf Mk V)|].
  split; [exact (inside_fact_step x tr0 R x' tr W HQ H Hne If)|]. split; [exact (pre_fact_step x tr0 R x' tr W HQ H Hne Pf)|exact Mk].
Qed.

(* ---------- validity where transitions are created ---------- *)
Lemma valid_timed_machine x m ms tr mc :
  WFS i x -> FE i x -> PRE x -> nth_error (s_machs x) m = Some ms -> nth_error (i_machs i) m = Some mc ->
  timed_machine i (s_now x) m ms = Ok (Some tr) -> vfacts x tr /\ tr_comp tr = CM m.
Proof.
  intros W F P Hms Hmc H.
  destruct (timed_machine_spec i _ _ _ _ H) as [[z [j [Ho [Hz [Hhd [Hc [Hj Hs]]]]]]]|[c [j [Hidle [Hcfg [Hnext E]]]]]].
  2:{ (* the machine starts by itself: the job its pre-buffer releases next has its next operation here (PRE) *)
    subst tr. simpl. split; [|reflexivity].
    assert (Hin : In j (b_store (m_pre ms))) by (eapply next_in; eauto).
    assert (Hloc : jloc x j = Some (BPre m)) by (eapply (stored_loc i); eauto; simpl; rewrite Hms; reflexivity).
    destruct (nth_error (s_jobs x) j) as [jb|] eqn:Hjb; [|unfold jloc in Hloc; rewrite Hjb in Hloc; discriminate].
    destruct (P j (j_ops jb) m (jops_of _ _ _ Hjb) Hloc) as [k [o [Hk [Ho' Hm]]]].
    split; [|split; [|split]].
    - unfold is_transition_valid. simpl. rewrite Hms. unfold is_machine_transition_valid. rewrite Hidle. simpl.
      unfold get_job. rewrite Hjb. simpl. rewrite first_not_done_nd, Hk. simpl. rewrite Ho'. simpl. rewrite Hm, Nat.eqb_refl. reflexivity.
    - intros m0 _ [Hk0|Hk0]; simpl in Hk0; discriminate.
    - intros m0 Hc0 _. simpl in Hc0. inversion Hc0; subst m0. exists j. auto.
    - intros m0 _. simpl. eauto. }
  assert (Hin : In j (b_store (m_in ms))) by (destruct (b_store (m_in ms)); simpl in Hhd; inversion Hhd; left; reflexivity).
  assert (Hloc : jloc x j = Some (BIn m)) by (eapply (stored_loc i); eauto; simpl; rewrite Hms; reflexivity).
  split; [|auto]. split; [|split; [|split]].
  - unfold is_transition_valid. rewrite Hc, Hms. unfold is_machine_transition_valid.
    destruct Hs as [[Es En]|[[Es En]|[Es En]]]; rewrite Es, En; simpl; auto.
    rewrite Hj. destruct (busy_machine_job i x m ms F Hms ltac:(congruence)) as [j1 [jb1 [k1 [o1 [B1 [B2 [B3 [B4 [B5 [P0 [Q1 Q2]]]]]]]]]]].
    rewrite B1 in Hin. destruct Hin as [<-|[]]. unfold get_job. rewrite B2. simpl.
    destruct (first_not_done jb1) as [k|] eqn:Ek.
    + rewrite (Q1 _ eq_refl) in *. simpl. rewrite B3. simpl. rewrite B5, Nat.eqb_refl. reflexivity.
    + exfalso. unfold first_not_done in Ek.
      assert (Hnd : negb (is_ostate ODone o1) = true) by (unfold is_ostate; rewrite B4; reflexivity).
      clear -Ek B3 Hnd. revert k1 B3. induction (j_ops jb1) as [|h r IH]; intros k1 B3; [destruct k1; discriminate|].
      simpl in Ek. destruct (negb (is_ostate ODone h)) eqn:Eh; [discriminate|]. destruct (find_idx _ r) eqn:Er; [discriminate|].
      destruct k1; simpl in B3; [inversion B3; subst; congruence|eapply IH; eauto].
  - intros m0 Hc0 Hk. rewrite Hc in Hc0. inversion Hc0; subst m0. exists j. auto.
  - intros m0 _ En. destruct Hs as [[_ E]|[[_ E]|[_ E]]]; rewrite E in En; discriminate.
  - intros m0 _. destruct Hs as [[_ ->]|[[_ ->]|[_ ->]]]; eauto.
Qed.

Lemma valid_timed_transport x t ts tr :
  DEPI i x -> nth_error (s_trans x) t = Some ts -> timed_transport i x t ts = Ok [tr] ->
  vfacts x tr /\ tr_comp tr = CT t /\ t_st ts <> TIdle.
Proof.
  intros Dp Hts H. unfold timed_transport in H. destruct (t_occ ts) as [|z|b k d] eqn:Eo; [discriminate| |].
  2:{ match type of H with bind ?e _ = _ => destruct e as [r0|] eqn:Er; simpl in H; [|discriminate] end.
    destruct r0; inversion H; subst tr; clear H.
    pose proof (tc_of _ _ _ Hts) as Htc. rewrite Eo in Htc.
    destruct (Dp _ _ _ _ _ _ Htc) as [Est [j [m [ms [mc [_ [_ [_ [_ [Hcd [_ [Hk _]]]]]]]]]]]].
    split; [|split; [exact Hcd|rewrite Est; discriminate]].
    split; [|split; [|split]].
    - unfold is_transition_valid. rewrite Hcd, Hts, Est. destruct Hk as [-> | ->]; reflexivity.
    - intros m0 Hc0. rewrite Hcd in Hc0. discriminate.
    - intros m0 Hc0. rewrite Hcd in Hc0. discriminate.
    - intros m0 Hc0. rewrite Hcd in Hc0. discriminate. }
  destruct (z <=? s_now x)%Z; [|discriminate].
  match type of H with bind ?e _ = _ => destruct e as [o|] eqn:Ec; simpl in H; [|discriminate] end.
  destruct o as [tr0|]; [|discriminate]. inversion H; subst tr0; clear H.
  assert (G : tr_comp tr = CT t /\ t_st ts <> TIdle /\ is_valid_transition transport_table (NT (t_st ts)) (tr_new tr) = true).
  { destruct (t_st ts) eqn:Es; try discriminate.
    - unfold create_idle_to_pick in Ec. rewrite Es in Ec. inv_all Ec; inversion Ec; subst; simpl; repeat split; eauto; discriminate.
    - unfold create_pickup_to_drop in Ec. destruct (b_store (t_buf ts)) as [|j0 [|]]; try discriminate.
      inv_all Ec. inversion Ec; subst; simpl; repeat split; eauto; discriminate.
    - inversion Ec; subst; simpl; repeat split; eauto; discriminate.
    - unfold create_idle_to_pick in Ec. rewrite Es in Ec. inv_all Ec; inversion Ec; subst; simpl; repeat split; eauto; discriminate. }
  destruct G as [Hc [Hni Hv]]. split; [|split; auto].
  split; [|split; [|split]].
  - unfold is_transition_valid. rewrite Hc, Hts, Hv. reflexivity.
  - intros m Hc0. rewrite Hc in Hc0. discriminate.
  - intros m Hc0. rewrite Hc in Hc0. discriminate.
  - intros m Hc0. rewrite Hc in Hc0. discriminate.
Qed.

Lemma teleport_pick_comps fuel : forall l, NoDup (map tr_comp (teleport_pick fuel l)).
Proof.
  induction fuel as [|f IH]; intros l; [simpl; constructor|]. destruct l as [|h r]; [simpl; constructor|].
  cbn [teleport_pick map]. constructor; [|apply IH]. intros Hin. apply in_map_iff in Hin. destruct Hin as [y [E Hy]].
  apply ProvBatch.teleport_pick_in in Hy. apply filter_In in Hy. destruct Hy as [_ Hy]. apply andb_true_iff in Hy. destruct Hy as [_ Hy].
  rewrite E in Hy. destruct (tr_comp h) as [a|a|a]; simpl in Hy; rewrite Nat.eqb_refl in Hy; discriminate.
Qed.

(* a machine offer names a job waiting in front of that machine *)
Lemma machine_offer_pre x offers m j :
  WFS i x -> FE i x -> get_possible_transitions i x = Ok offers -> In (mkTr (CM m) (NM MSetup) (Some j)) offers ->
  jloc x j = Some (BPre m).
Proof.
  intros W F H Hin. unfold get_possible_transitions in H.
  destruct (filterM _ _) as [pj|] eqn:E1 in H; simpl in H; [|discriminate].
  destruct (get_possible_transport_transition i x) as [pt|] eqn:E2; simpl in H; [|discriminate].
  destruct (mapM _ pj) as [mt|] eqn:E3 in H; simpl in H; [|discriminate].
  inversion H; subst; clear H. apply in_app_iff in Hin. destruct Hin as [Hin|Hin].
  - destruct (mapM_in' _ _ _ _ E3 Hin) as [[j0 jb] [Hp Hf]]. simpl in Hf.
    destruct (first_idle jb) as [k|] eqn:Ek; simpl in Hf; [|discriminate].
    destruct (nth_error (j_ops jb) k) as [o|] eqn:Eo; simpl in Hf; [|discriminate]. inversion Hf; subst.
    destruct (filterM_in _ _ _ _ E1 Hp) as [Hi Hposs]. apply in_indexed0 in Hi.
    destruct (machine_offers_spec i x jb j Hposs Hi) as [k' [o' [ms [Hk' [Ho' [_ [_ [Hl Hr]]]]]]]].
    assert (Hnb : forall m0, j_loc jb <> BIn m0) by (intros m0 E; rewrite E in Hl; discriminate).
    pose proof (not_running_first i x j jb W F Hi Hnb) as Efn. rewrite <- first_not_done_nd in Efn.
    unfold first_idle in Ek. rewrite <- Efn, Hk' in Ek. inversion Ek; subst k'. rewrite Eo in Ho'. inversion Ho'; subst o'.
    rewrite (jloc_of _ _ _ Hi), Hl. reflexivity.
  - exfalso. destruct (transport_offers_spec i _ _ _ E2 Hin) as [t [ts [j1 [jb [E _]]]]]. discriminate.
Qed.

Lemma offer_vfacts x offers tr :
  WFS i x -> FE i x -> get_possible_transitions i x = Ok offers -> In tr offers -> vfacts x tr.
Proof.
  intros W F H Hin. split; [eapply (offers_are_valid i); eauto; apply (FE_no_transport_ops i); auto|].
  destruct (offers_shape i _ _ _ H Hin) as [[m [j E]]|[t [j E]]]; subst tr; split; [|split| |split].
  - intros m0 _ [Hk|Hk]; simpl in Hk; discriminate.
  - intros m0 Hc _. simpl in Hc. inversion Hc; subst m0. exists j. split; auto. eapply machine_offer_pre; eauto.
  - intros m0 _. simpl. eauto.
  - intros m0 Hc. simpl in Hc. discriminate.
  - intros m0 Hc. simpl in Hc. discriminate.
  - intros m0 Hc. simpl in Hc. discriminate.
Qed.

Definition tele_facts (x : state) (tr : transition) : Prop :=
  vfacts x tr /\ exists t ts, tr_comp tr = CT t /\ nth_error (s_trans x) t = Some ts /\ t_st ts = TIdle.

Theorem Q7_created_gen x timed tele :
  J8 i x -> Q8 (timed ++ tele) x -> create_timed_transitions i x = Ok timed ->
  NoDup (comps tele) -> (forall tr, In tr tele -> tele_facts x tr) -> Q7 (timed ++ tele) x.
Proof.
  intros Hj8 HQ8 Ht NDt FT. pose proof Hj8 as [[Hj _] [_ [P _]]]. pose proof Hj as [W [[F _] Dn]].
  split; [exact HQ8|].
  unfold create_timed_transitions in Ht.
  destruct (create_timed_machine_transitions i x) as [a|] eqn:Ea; simpl in Ht; [|discriminate].
  destruct (create_timed_transport_transitions i x) as [b|] eqn:Eb; simpl in Ht; [|discriminate].
  inversion Ht; subst; clear Ht.
  destruct (timed_machines_comps i _ _ _ _ Ea) as [A1 A2].
  pose proof (timed_transport_nodup i x _ Hj Eb) as B2.
  assert (FA : forall tr, In tr a -> vfacts x tr /\ exists m, tr_comp tr = CM m).
  { intros tr Hin. destruct (timed_machines_in i _ _ _ _ _ Ea Hin) as [k [ms [Hms Htm]]]. simpl in Htm.
    assert (Hlt : k < length (i_machs i)) by (rewrite <- (ws_lm _ _ W); eapply nth_error_lt; eauto).
    destruct (nth_error (i_machs i) k) as [mc|] eqn:Emc; [|apply nth_error_None in Emc; lia].
    destruct (valid_timed_machine x k ms tr mc W F P Hms Emc Htm) as [V Hc]. eauto. }
  assert (FB : forall tr, In tr b -> vfacts x tr /\ exists t ts, tr_comp tr = CT t /\ nth_error (s_trans x) t = Some ts /\ t_st ts <> TIdle).
  { intros tr Hin. destruct (timed_transport_slot i x _ _ Hj Eb Hin) as [k [ts [Hts [Htt [Hc _]]]]].
    destruct (valid_timed_transport x k ts tr Dn Hts Htt) as [V [Hc' Hni]]. eauto 8. }
  split.
  - unfold comps. rewrite map_app. apply NoDup_app.
    + rewrite map_app. apply NoDup_app; auto. intros c Hc1 Hc2. apply in_map_iff in Hc1, Hc2.
      destruct Hc1 as [t1 [E1 I1]]. destruct Hc2 as [t2 [E2 I2]].
      destruct (FA _ I1) as [_ [m Hm]]. destruct (FB _ I2) as [_ [t [ts [Ht _]]]]. congruence.
    + exact NDt.
    + intros c Hc1 Hc2. apply in_map_iff in Hc1, Hc2. destruct Hc1 as [t1 [E1 I1]]. destruct Hc2 as [t2 [E2 I2]].
      destruct (FT _ I2) as [_ [t [ts [Ht [Hts Hidle]]]]]. apply in_app_iff in I1. destruct I1 as [I1|I1].
      * destruct (FA _ I1) as [_ [m Hm]]. congruence.
      * destruct (FB _ I1) as [_ [t' [ts' [Ht' [Hts' Hni]]]]]. assert (t' = t) by congruence. subst t'.
        rewrite Hts in Hts'. inversion Hts'; subst ts'. congruence.
  - intros tr Hin. apply in_app_iff in Hin. destruct Hin as [Hin|Hin]; [apply in_app_iff in Hin; destruct Hin as [Hin|Hin]|].
    + apply (FA _ Hin). + apply (FB _ Hin). + apply (FT _ Hin).
Qed.

Theorem Q7_created x timed poss tele :
  NO x -> J8 i x -> BI x -> create_timed_transitions i x = Ok timed -> get_possible_transitions i x = Ok poss ->
  filter_teleport i x poss = Ok tele -> Q7 (timed ++ tele) x.
Proof.
  intros N Hj8 Hb Ht Hp Hf. pose proof Hj8 as [[[W [[F _] Dn]] _] _].
  pose proof (tele_tworking i _ _ _ Hp Hf) as Tw. pose proof (tele_sub i _ _ _ Hf) as Hsub.
  apply Q7_created_gen; auto.
  - eapply Q8_timed; eauto.
  - unfold filter_teleport in Hf.
    match type of Hf with bind ?e _ = _ => destruct e as [tl0|] eqn:Ef; simpl in Hf; [|discriminate] end.
    inversion Hf; subst. apply teleport_pick_comps.
  - intros tr Hin. pose proof (Hsub _ Hin) as Hi. split; [eapply offer_vfacts; eauto|].
    rewrite Forall_forall in Tw. specialize (Tw _ Hin).
    unfold is_tworking in Tw. destruct (tr_new tr) as [s0|s0] eqn:En; [discriminate|].
    unfold get_possible_transitions in Hp.
    destruct (filterM _ _) as [pj|] eqn:E1 in Hp; simpl in Hp; [|discriminate].
    destruct (get_possible_transport_transition i x) as [pt|] eqn:E2; simpl in Hp; [|discriminate].
    destruct (mapM _ pj) as [mt|] eqn:E3 in Hp; simpl in Hp; [|discriminate].
    inversion Hp; subst; clear Hp. apply in_app_iff in Hi. destruct Hi as [Hi|Hi].
    + exfalso. destruct (mapM_in' _ _ _ _ E3 Hi) as [[j jb] [_ Hfm]]. simpl in Hfm. inv_all Hfm. inversion Hfm; subst. simpl in En. discriminate.
    + destruct (transport_offers_spec i _ _ _ E2 Hi) as [t [ts [j [jb [-> [Hts [Hst _]]]]]]]. simpl. eauto.
Qed.

Theorem Q7_created0 x timed : NO x -> J8 i x -> BI x -> create_timed_transitions i x = Ok timed -> Q7 timed x.
Proof.
  intros N Hj Hb Ht. rewrite <- (app_nil_r timed). apply Q7_created_gen; auto; [rewrite app_nil_r; eapply Q8_timed0; eauto|constructor|intros tr []].
Qed.

Definition OK9 (x : state) (tr : transition) : Prop :=
  OK8 i x tr /\ exists full, get_possible_transitions i x = Ok full /\ In tr full.

Lemma offers_ok9 x offers : get_possible_transitions i x = Ok offers -> Forall (OK9 x) offers.
Proof.
  intros H. pose proof (offers_ok8 i x offers H) as H8. rewrite Forall_forall in *. intros tr Hin. split; eauto.
Qed.

Lemma Q9_offer x o : J8 i x -> BI x -> create_timed_transitions i x = Ok [] -> OK9 x o -> Q8 [o] x.
Proof. intros Hj Hb Hct [H8 _]. eapply Q8_offer; eauto. Qed.

Lemma Q7_offer x o : J8 i x -> BI x -> create_timed_transitions i x = Ok [] -> OK9 x o -> Q7 [o] x.
Proof.
  intros Hj Hb Hct Ho. pose proof Hj as [[[W [[F _] _]] _] _]. destruct Ho as [H8 [full [Hfull Hin]]].
  split; [eapply Q8_offer; eauto|].
  split; [simpl; constructor; [intros []|constructor]|].
  intros tr [<-|[]]. eapply offer_vfacts; eauto.
Qed.

(* ---------- nothing is ever skipped ---------- *)
Lemma process_ns : forall trs x n lg x' n' lg',
  NO x -> J8 i x -> Q7 trs x -> process_transitions sigma i trs x n lg = Ok (x', n', lg') -> n' = n /\ NO x' /\ J8 i x' /\ BI x'.
Proof.
  induction trs as [|tr r IH]; intros x n lg x' n' lg' N Hj HQ H; simpl in H.
  - inversion H; subst. split; auto. split; auto. split; auto. destruct HQ as [HQ0 _]. eapply E8_end; eauto.
  - pose proof HQ as [HQ0 [ND HV]]. destruct (HV tr (or_introl eq_refl)) as [V _]. rewrite V in H. simpl in H.
    destruct (apply_transition sigma i x tr) as [x1|e] eqn:Ea; simpl in H; [|discriminate].
    destruct (Q7_step x tr r x1 N Hj HQ Ea) as [Hj1 HQ1].
    pose proof (apply_preserves_NO sigma i Hnn _ _ _ N Ea) as N1.
    apply (IH x1 n (lg ++ [(tr, x1)]) x' n' lg' N1 Hj1 HQ1 H).
Qed.

Lemma loop_ns fuel : forall x0 x timed lg xf lgf,
  NO x -> J8 i x -> Q7 timed x -> timed_loop sigma i fuel x0 x timed lg = SFail xf lgf -> False.
Proof.
  induction fuel as [|f IH]; intros x0 x timed lg xf lgf N Hj HQ H; simpl in H.
  - destruct timed; [|discriminate].
    destruct (all_in_output i x); [destruct (max_done_end x) as [[z|]|]|destruct (get_possible_transitions i x)]; discriminate.
  - destruct timed as [|t ts].
    + destruct (all_in_output i x); [destruct (max_done_end x) as [[z|]|]|destruct (get_possible_transitions i x)]; discriminate.
    + destruct (process_transitions sigma i (t :: ts) x 0 lg) as [[[x1 nerr] lg1]|e] eqn:Ep; [|discriminate].
      destruct (process_ns _ _ _ _ _ _ _ N Hj HQ Ep) as [En [N1 [Hj1 Hb1]]]. subst nerr. simpl in H.
      destruct (jump_to_event i x1) as [tt|e] eqn:Ej; [|discriminate].
      destruct (create_timed_transitions i (set_now x1 tt)) as [timed'|e] eqn:Ec; [|discriminate].
      destruct (jump_to_event_ok i _ _ N1 Ej) as [Hle N2].
      assert (Hj2 : J8 i (set_now x1 tt)) by (apply (J8_now i); auto).
      eapply IH; [exact N2|exact Hj2| |exact H]. apply Q7_created0; auto; apply BI_now; auto.
Qed.

Theorem step_never_fails fuel x0 trs tm xf lgf :
  tm <> TMJumpByOne -> NO x0 -> J8 i x0 -> BI x0 -> (trs <> [] -> Q7 (sorted_by_transport trs) x0) ->
  step sigma i fuel x0 trs tm = SFail xf lgf -> False.
Proof.
  intros Htm N Hj Hb0 HQ H. unfold step in H.
  destruct (match trs with [] => Ok (x0, 0, []) | _ :: _ => process_transitions sigma i (sorted_by_transport trs) x0 0 [] end)
    as [[[x1 nerr] lg1]|e] eqn:Ep; [|discriminate].
  assert (H1 : nerr = 0 /\ NO x1 /\ J8 i x1 /\ BI x1).
  { destruct trs as [|o os]; [inversion Ep; subst; auto|]. eapply process_ns; eauto. apply HQ. discriminate. }
  destruct H1 as [En [N1 [Hj1 Hb1]]]. subst nerr. simpl in H.
  destruct (run_time_machine i tm x1) as [t|e] eqn:Et; [|discriminate].
  destruct (create_timed_transitions i (set_now x1 t)) as [timed|e] eqn:Ec; [|discriminate].
  destruct (get_possible_transitions i (set_now x1 t)) as [poss|e] eqn:Eg; [|discriminate].
  destruct (filter_teleport i (set_now x1 t) poss) as [tele|e] eqn:Ef; [|discriminate].
  destruct (run_tm_ok i tm _ _ Htm N1 Et) as [Hle N2].
  assert (Hj2 : J8 i (set_now x1 t)) by (apply (J8_now i); auto).
  eapply loop_ns; [exact N2|exact Hj2| |exact H]. eapply Q7_created; eauto; apply BI_now; auto.
Qed.

(* the middleware never receives an unsuccessful result *)
Theorem mw_step_never_fails fuel r m a sto m' :
  NO (r_x r) -> J8 i (r_x r) -> BI (r_x r) -> create_timed_transitions i (r_x r) = Ok [] ->
  Forall (OK9 (r_x r)) (r_offers r) -> mw_step sigma i fuel r m a = MFail sto m' -> False.
Proof.
  intros N Hj Hb Hct HO H. unfold mw_step in H.
  destruct (r_offers r) as [|o1 rest] eqn:Eo; [discriminate|].
  destruct (negb ((a =? 0)%Z || (a =? 1)%Z)); [discriminate|].
  destruct (a =? 0)%Z.
  - destruct rest as [|o2 rest]; [|discriminate].
    destruct (step sigma i fuel (r_x r) [] TMForceJump) as [x' offers lg'|xf lgf| |] eqn:Es; try discriminate.
    destruct offers; [destruct (all_in_output i x')|]; discriminate.
  - destruct (step sigma i fuel (r_x r) [o1] TMJumpToEvent) as [x' offers lg'|xf lgf| |] eqn:Es; try discriminate.
    eapply (step_never_fails fuel (r_x r) [o1] TMJumpToEvent); eauto; [discriminate|].
    intros _. rewrite sorted_single. inversion HO; subst. eapply Q7_offer; eauto.
Qed.

Theorem run_never_fails fuel x0 joker0 ta r m a sto m' :
  clock_b x0 = true -> wfs_b i x0 = true -> fresh2_b i x0 = true -> nodep_b x0 = true ->
  pre_ok_b x0 = true ->
  reach sigma i fuel x0 joker0 ta r m -> mw_step sigma i fuel r m a = MFail sto m' -> False.
Proof.
  intros C W Fr Dn Po H Hm. pose proof (clock_idle_unclaimed _ C) as Iu. apply NO_iff_clock_b in C.
  destruct (reach_reachG_E sigma i Hnn (J8 i) Q8 side2 OK9 BI (J8_apply sigma i Hnn) (J8_now i) (E8_end i) BI_now (Q8_timed i) (Q8_timed0 i)
              Q9_offer offers_ok9 _ _ _ _ _ _ C (J8_init i _ W Fr Dn Iu Po) (BI_init _ Dn) H) as [_ [HO [xq [Nq [Jq [Bq [Hct [E|[E _]]]]]]]]].
  - subst xq. exact (mw_step_never_fails fuel r m a sto m' Nq Jq Bq Hct HO Hm).
  - unfold mw_step in Hm. rewrite E in Hm. discriminate.
Qed.

End NF.
