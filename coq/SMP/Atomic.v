(* C20: a failed step returns exactly the state it was given (the stochastic store, which lives
   in the instance objects of the implementation, keeps its draws); rejection characterisation. *)
From Coq Require Import List ZArith Bool Arith Lia.
From JSL Require Import Base.Res Base.ListX SM.Types SM.Util SM.Handler SM.Step SM.Middleware.
Import ListNotations.

Section Atomic.
Variable sigma : oracle.
Variable i : inst.

(* all fields but the stochastic store *)
Definition same_shop (a b : state) : Prop :=
  s_jobs a = s_jobs b /\ s_now a = s_now b /\ s_machs a = s_machs b /\ s_trans a = s_trans b /\ s_bufs a = s_bufs b.

Lemma same_shop_set_sto x sto : same_shop (set_sto x sto) x.
Proof. unfold same_shop, set_sto; simpl; auto. Qed.

Lemma timed_loop_fail fuel : forall x0 x timed lg xf lgf,
  timed_loop sigma i fuel x0 x timed lg = SFail xf lgf -> same_shop xf x0.
Proof.
  induction fuel as [|f IH]; intros x0 x timed lg xf lgf H; simpl in H.
  - destruct timed.
    + destruct (all_in_output i x).
      * destruct (max_done_end x) as [[z|]|]; discriminate.
      * destruct (get_possible_transitions i x); discriminate.
    + discriminate.
  - destruct timed as [|t ts].
    + destruct (all_in_output i x).
      * destruct (max_done_end x) as [[z|]|]; discriminate.
      * destruct (get_possible_transitions i x); discriminate.
    + destruct (process_transitions sigma i (t :: ts) x 0 lg) as [[[x1 nerr] lg1]|e]; [|discriminate].
      destruct (Nat.ltb 0 nerr).
      * inversion H; subst. apply same_shop_set_sto.
      * destruct (jump_to_event i x1) as [tt|e]; [|discriminate].
        destruct (create_timed_transitions i (set_now x1 tt)) as [timed'|e]; [|discriminate].
        eapply IH; eauto.
Qed.

(* C20_atomic *)
Theorem step_fail_returns_input fuel x0 trs tm xf lgf :
  step sigma i fuel x0 trs tm = SFail xf lgf -> same_shop xf x0.
Proof.
  unfold step; intros H.
  destruct (match trs with [] => Ok (x0, 0%nat, []) | _ :: _ => process_transitions sigma i (sorted_by_transport trs) x0 0 [] end)
    as [[[x1 nerr] lg1]|e]; [|discriminate].
  destruct (Nat.ltb 0 nerr).
  - inversion H; subst. apply same_shop_set_sto.
  - destruct (run_time_machine i tm x1) as [t|e]; [|discriminate].
    destruct (create_timed_transitions i (set_now x1 t)) as [timed|e]; [|discriminate].
    destruct (get_possible_transitions i (set_now x1 t)) as [poss|e]; [|discriminate].
    destruct (filter_teleport i (set_now x1 t) poss) as [tele|e]; [|discriminate].
    eapply timed_loop_fail; eauto.
Qed.

(* process_transitions never decreases the error count, and counts every rejected transition *)
Lemma process_nerr_mono : forall trs x n lg x' n' lg',
  process_transitions sigma i trs x n lg = Ok (x', n', lg') -> (n <= n')%nat.
Proof.
  induction trs as [|tr r IH]; intros x n lg x' n' lg' H; simpl in H.
  - inversion H; lia.
  - destruct (is_transition_valid x tr) as [v|e]; simpl in H; [|discriminate].
    destruct v.
    + destruct (apply_transition sigma i x tr) as [x1|e]; simpl in H; [|discriminate].
      eapply IH; eauto.
    + apply IH in H. lia.
Qed.

(* a transition that is invalid when its turn comes makes the batch count an error *)
Inductive rejected_in : list transition -> state -> Prop :=
| rej_here tr r x : is_transition_valid x tr = Ok false -> rejected_in (tr :: r) x
| rej_later tr r x x' : is_transition_valid x tr = Ok true -> apply_transition sigma i x tr = Ok x' ->
                        rejected_in r x' -> rejected_in (tr :: r) x.

Lemma rejected_counts : forall trs x, rejected_in trs x -> forall n lg x' n' lg',
  process_transitions sigma i trs x n lg = Ok (x', n', lg') -> (n < n')%nat.
Proof.
  induction 1 as [tr r x Hv | tr r x x1 Hv Ha Hr IH]; intros n lg x' n' lg' H; simpl in H.
  - rewrite Hv in H; simpl in H. apply process_nerr_mono in H. lia.
  - rewrite Hv in H; simpl in H. rewrite Ha in H; simpl in H. eapply IH; eauto.
Qed.

(* C20_rejects: if some transition of the (sorted) action is rejected at its turn, the step either
   reports failure with the input state, or an exception escapes; it never succeeds. *)
Theorem step_rejects fuel x0 trs tm :
  trs <> [] -> rejected_in (sorted_by_transport trs) x0 ->
  (exists xf lg, step sigma i fuel x0 trs tm = SFail xf lg /\ same_shop xf x0)
  \/ (exists e, step sigma i fuel x0 trs tm = SRaise e).
Proof.
  intros Hne Hrej. unfold step.
  destruct trs as [|t0 ts]; [congruence|].
  destruct (process_transitions sigma i (sorted_by_transport (t0 :: ts)) x0 0 []) as [[[x1 nerr] lg1]|e] eqn:Hp.
  - pose proof (rejected_counts _ _ Hrej _ _ _ _ _ Hp) as Hlt.
    assert (Hb : Nat.ltb 0 nerr = true) by (apply Nat.ltb_lt; lia).
    rewrite Hb. left. eexists; eexists; split; [reflexivity|apply same_shop_set_sto].
  - right; eauto.
Qed.

(* phase-invalid transitions are rejected by validation (never applied) *)
Lemma machine_phase_invalid x m ms tr :
  nth_error (s_machs x) m = Some ms -> tr_comp tr = CM m ->
  is_valid_transition machine_table (NM (m_st ms)) (tr_new tr) = false ->
  is_transition_valid x tr = Ok false.
Proof.
  intros Hn Hc Hv. unfold is_transition_valid. rewrite Hc, Hn.
  unfold is_machine_transition_valid. rewrite Hv. reflexivity.
Qed.

Lemma transport_phase_invalid x t ts tr :
  nth_error (s_trans x) t = Some ts -> tr_comp tr = CT t ->
  is_valid_transition transport_table (NT (t_st ts)) (tr_new tr) = false ->
  is_transition_valid x tr = Ok false.
Proof.
  intros Hn Hc Hv. unfold is_transition_valid. rewrite Hc, Hn, Hv. reflexivity.
Qed.

(* the transition tables: exactly the documented cycles are allowed *)
Lemma machine_table_spec a b :
  is_valid_transition machine_table (NM a) (NM b) = true <->
  (a = MIdle /\ b = MSetup) \/ (a = MSetup /\ b = MWorking) \/ (a = MWorking /\ b = MOutage) \/ (a = MOutage /\ b = MIdle).
Proof.
  destruct a, b; unfold is_valid_transition; simpl; split; intros H;
    try discriminate; try tauto;
    repeat (destruct H as [H|H]; try (destruct H; discriminate)); try (destruct H; discriminate); auto.
Qed.

(* C20_env_truncates: a failed step ends the episode as truncated, not terminated, state kept *)
Theorem env_failed_step_truncates fuel (e : env) a sto m :
  env_done e = false -> mw_step sigma i fuel (e_res e) (e_mw e) a = MFail sto m ->
  exists e', env_step sigma i fuel e a = EOk e' [] /\ e_trunc e' = true /\ e_term e' = false
             /\ same_shop (r_x (e_res e')) (r_x (e_res e)) /\ r_offers (e_res e') = r_offers (e_res e)
             /\ e_hist e' = e_hist e.
Proof.
  intros Hd Hm. unfold env_step. rewrite Hd, Hm.
  eexists; split; [reflexivity|]. simpl. repeat split; auto.
Qed.

End Atomic.
